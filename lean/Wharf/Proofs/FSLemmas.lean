/-
  General lemmas about the abstract filesystem (Wharf/Model/FS.lean), on top of the small library in
  Wharf/Proofs/Archive.lean.  Everything is phrased extensionally: the effect of a call on a "plain" path
  (a non-empty path whose parent chain consists of directories and has no `..`) is `Tree.set`/`Tree.erase`,
  and these are characterised through `Tree.get` together with preservation of the tree invariant `TInv`.
-/
import Wharf.Proofs.Archive

namespace Wharf.Archive
open Wharf Wharf.FS

/-! ### get / set / erase -/

theorem find?_congr' {α} {f g : α → Bool} : ∀ {l : List α}, (∀ a ∈ l, f a = g a) → l.find? f = l.find? g
  | [], _ => rfl
  | a :: l, h => by
    simp only [List.find?_cons, h a (by simp)]
    rw [find?_congr' (l := l) (fun b hb => h b (by simp [hb]))]

theorem get_erase {t : Tree} {p : Path} (hp : p ≠ []) (q : Path) :
    (t.erase p).get q = if q = p then none else t.get q := by
  by_cases hq : q = []
  · subst hq
    have : ¬ ([] : Path) = p := fun h => hp h.symm
    simp [Tree.get, this]
  · simp only [Tree.get, if_neg hq, Tree.erase, List.find?_filter]
    by_cases hqp : q = p
    · subst hqp
      simp only [if_true, Option.map_eq_none_iff, List.find?_eq_none]
      intro e _
      by_cases h : e.1 = q <;> simp [h]
    · simp only [if_neg hqp]
      congr 1
      apply find?_congr'
      intro e _
      by_cases h : e.1 = q
      · simp [h, hqp]
      · simp [h]

theorem get_set {t : Tree} {p : Path} (n : Node) (hp : p ≠ []) (q : Path) :
    (t.set p n).get q = if q = p then some n else t.get q := by
  have hne : ∀ e ∈ (t.erase p).entries, e.1 ≠ p := by
    intro e he
    simp only [Tree.erase, List.mem_filter] at he
    simpa using he.2
  by_cases hqp : q = p
  · subst hqp
    simp only [if_true]
    exact get_append_new n hp hne
  · simp only [if_neg hqp]
    have he := get_erase (t := t) hp q
    simp only [if_neg hqp] at he
    rw [← he]
    by_cases hq : q = []
    · simp [Tree.get, hq]
    · simp only [Tree.get, if_neg hq, Tree.set, List.find?_append]
      have : List.find? (fun e => e.1 == q) [(p, n)] = none := by
        have : (p == q) = false := by simpa using fun h => hqp h.symm
        simp [this]
      rw [this]
      simp

theorem mem_entries_get {t : Tree} (hI : TInv t) {e : Path × Node} (he : e ∈ t.entries) :
    t.get e.1 = some e.2 := hI.get e he

theorem TInv.set {t : Tree} (hI : TInv t) {p : Path} {n : Node} (hp : p ≠ [])
    (hpar : IsDir t p.dropLast) (hk : t.get p ≠ some .dir ∨ n = .dir) : TInv (t.set p n) := by
  have hmem : ∀ e ∈ (t.set p n).entries, (e ∈ t.entries ∧ e.1 ≠ p) ∨ e = (p, n) := by
    intro e he
    simp only [Tree.set, Tree.erase, List.mem_append, List.mem_filter, List.mem_singleton] at he
    rcases he with ⟨h1, h2⟩ | h
    · left; exact ⟨h1, by simpa using h2⟩
    · right; exact h
  constructor
  · intro e he
    rcases hmem e he with ⟨h1, _⟩ | rfl
    · exact hI.ne e h1
    · exact hp
  · intro e he
    rw [get_set n hp]
    rcases hmem e he with ⟨h1, h2⟩ | rfl
    · rw [if_neg h2]; exact hI.get e h1
    · simp
  · intro e he
    simp only [IsDir]
    rw [get_set n hp]
    rcases hmem e he with ⟨h1, _⟩ | rfl
    · have hd : t.get e.1.dropLast = some .dir := hI.parent e h1
      by_cases h : e.1.dropLast = p
      · rw [if_pos h]
        rw [h] at hd
        rcases hk with hk | hk
        · exact absurd hd hk
        · rw [hk]
      · rw [if_neg h]; exact hd
    · have : p.dropLast ≠ p := by
        intro h
        have := congrArg List.length h
        simp at this
        have : p.length ≠ 0 := by
          intro h0; exact hp (List.eq_nil_of_length_eq_zero h0)
        omega
      rw [if_neg this]; exact hpar

theorem TInv.erase {t : Tree} (hI : TInv t) {p : Path} (hp : p ≠ [])
    (hc : ∀ e ∈ t.entries, e.1.dropLast ≠ p) : TInv (t.erase p) := by
  have hmem : ∀ e ∈ (t.erase p).entries, e ∈ t.entries ∧ e.1 ≠ p := by
    intro e he
    simp only [Tree.erase, List.mem_filter] at he
    exact ⟨he.1, by simpa using he.2⟩
  constructor
  · intro e he; exact hI.ne e (hmem e he).1
  · intro e he
    rw [get_erase hp, if_neg (hmem e he).2]
    exact hI.get e (hmem e he).1
  · intro e he
    simp only [IsDir]
    rw [get_erase hp, if_neg (hc e (hmem e he).1)]
    exact hI.parent e (hmem e he).1

/-! ### strict prefixes, children -/

theorem isPrefix_iff {p q : Path} : isPrefix p q = true ↔ p.length < q.length ∧ q.take p.length = p := by
  simp [isPrefix]

/-- every proper prefix of a present path is a directory -/
theorem isDir_of_isPrefix {t : Tree} (hI : TInv t) {p : Path} {e : Path × Node} (he : e ∈ t.entries)
    (hpre : isPrefix p e.1 = true) : IsDir t p := by
  rw [isPrefix_iff] at hpre
  have hd : IsDir t e.1.dropLast := hI.parent e he
  have := isDir_take hI hd p.length
  rwa [List.dropLast_eq_take, List.take_take, Nat.min_eq_left (by omega), hpre.2] at this

theorem no_under_of_not_dir {t : Tree} (hI : TInv t) {p : Path} (hnd : t.get p ≠ some .dir) :
    ∀ e ∈ t.entries, isPrefix p e.1 = false := by
  intro e he
  cases h : isPrefix p e.1 with
  | false => rfl
  | true => exact absurd (isDir_of_isPrefix hI he h) hnd

theorem under_isEmpty {t : Tree} {p : Path} (h : ∀ e ∈ t.entries, isPrefix p e.1 = false) :
    (t.under p).isEmpty = true := by
  simp only [Tree.under, List.isEmpty_iff, List.filter_eq_nil_iff]
  intro e he
  simp [h e he]

theorem under_nil {t : Tree} {p : Path} (h : ∀ e ∈ t.entries, isPrefix p e.1 = false) :
    t.under p = [] := by
  simp only [Tree.under, List.filter_eq_nil_iff]
  intro e he
  simp [h e he]

theorem dropLast_ne_of_no_under {t : Tree} (hI : TInv t) {p : Path}
    (h : ∀ e ∈ t.entries, isPrefix p e.1 = false) : ∀ e ∈ t.entries, e.1.dropLast ≠ p := by
  intro e he hd
  have hne := hI.ne e he
  have := h e he
  have hlen : e.1.length ≠ 0 := fun h0 => hne (List.eq_nil_of_length_eq_zero h0)
  have : isPrefix p e.1 = true := by
    rw [isPrefix_iff, ← hd]
    refine ⟨by simp; omega, ?_⟩
    rw [List.dropLast_eq_take]
    simp
  simp_all

theorem eraseTree_eq_erase {t : Tree} {p : Path} (h : ∀ e ∈ t.entries, isPrefix p e.1 = false) :
    t.eraseTree p = t.erase p := by
  simp only [Tree.eraseTree, Tree.erase]
  congr 1
  apply List.filter_congr
  intro e he
  simp [h e he]

theorem erase_absent {t : Tree} {p : Path} (h : ∀ e ∈ t.entries, e.1 ≠ p) : t.erase p = t := by
  cases t with
  | mk es =>
    simp only [Tree.erase, Tree.mk.injEq, List.filter_eq_self]
    intro e he
    simpa using h e he

theorem absent_of_get_none {t : Tree} (hI : TInv t) {p : Path} (h : t.get p = none) :
    ∀ e ∈ t.entries, e.1 ≠ p := by
  intro e he hp
  have := hI.get e he
  rw [hp, h] at this
  cases this

/-! ### non-file view: what the file-level calls never change -/

/-- forget regular files -/
def nf : Option Node → Option Node
  | some (.file _) => none
  | x => x

@[simp] theorem nf_none : nf none = none := rfl
@[simp] theorem nf_file (d : List Byte) : nf (some (.file d)) = none := rfl
@[simp] theorem nf_dir : nf (some .dir) = some .dir := rfl
@[simp] theorem nf_symlink (d : String) : nf (some (.symlink d)) = some (.symlink d) := rfl

theorem nf_eq_none {x : Option Node} : nf x = none ↔ x = none ∨ ∃ d, x = some (.file d) := by
  cases x with
  | none => simp
  | some n => cases n <;> simp [nf]

theorem nf_eq_dir {x : Option Node} : nf x = some .dir ↔ x = some .dir := by
  cases x with
  | none => simp
  | some n => cases n <;> simp [nf]

/-- `t'` differs from `t` only in regular files (created, rewritten or removed where there was nothing
    or a regular file). -/
def SameNF (t t' : Tree) : Prop := ∀ q, nf (t'.get q) = nf (t.get q)

theorem SameNF.refl (t : Tree) : SameNF t t := fun _ => rfl

theorem SameNF.trans {a b c : Tree} (h1 : SameNF a b) (h2 : SameNF b c) : SameNF a c :=
  fun q => (h2 q).trans (h1 q)

theorem SameNF.isDir {t t' : Tree} (h : SameNF t t') {q : Path} : IsDir t' q ↔ IsDir t q := by
  simp only [IsDir]
  rw [← nf_eq_dir, h q, nf_eq_dir]

/-! ### plain paths -/

/-- A path on which every call acts literally: non-empty, parent chain made of directories, no `..`. -/
structure Plain (t : Tree) (p : Path) : Prop where
  ne : p ≠ []
  parent : IsDir t p.dropLast
  nodd : ".." ∉ p.dropLast

theorem Plain.canon {t : Tree} (hI : TInv t) {p : Path} (h : Plain t p) : canon t p = .ok p :=
  canon_ok hI h.parent h.nodd

theorem Plain.sameNF {t t' : Tree} (h : SameNF t t') {p : Path} (hp : Plain t p) : Plain t' p :=
  ⟨hp.ne, h.isDir.mpr hp.parent, hp.nodd⟩

theorem Plain.dropLast_ne {t : Tree} {p : Path} (h : Plain t p) : p.dropLast ≠ p := by
  intro he
  have := congrArg List.length he
  simp at this
  have : p.length ≠ 0 := fun h0 => h.ne (List.eq_nil_of_length_eq_zero h0)
  omega

/-- a place where a regular file can be (re)written -/
structure Slot (t : Tree) (p : Path) : Prop extends Plain t p where
  nofile : nf (t.get p) = none

theorem Slot.sameNF {t t' : Tree} (h : SameNF t t') {p : Path} (hp : Slot t p) : Slot t' p :=
  ⟨hp.toPlain.sameNF h, by rw [h p]; exact hp.nofile⟩

theorem Slot.not_dir {t : Tree} {p : Path} (h : Slot t p) : t.get p ≠ some .dir := by
  intro hd
  have := h.nofile
  rw [hd] at this
  cases this

theorem lstat_some {t : Tree} (hI : TInv t) {p : Path} (h : Plain t p) {n : Node}
    (hn : t.get p = some n) : lstat t p = .ok n := by
  simp only [lstat, h.canon hI, bind, Except.bind, hn]

theorem lstat_none {t : Tree} (hI : TInv t) {p : Path} (h : Plain t p)
    (hn : t.get p = none) : lstat t p = .error .enoent := by
  simp only [lstat, h.canon hI, bind, Except.bind, hn]

theorem readFile_plain {t : Tree} (hI : TInv t) {p : Path} (h : Plain t p) {d : List Byte}
    (hf : t.get p = some (.file d)) : readFile t p = .ok d := by
  simp only [readFile, statFollow, h.canon hI, bind, Except.bind, hf]

theorem writeFile_slot {t : Tree} (hI : TInv t) {p : Path} (h : Slot t p) (d : List Byte) :
    writeFile t p d = .ok (t.set p (.file d)) := by
  have hpar : t.get p.dropLast = some .dir := h.parent
  rcases nf_eq_none.mp h.nofile with hn | ⟨d', hn⟩
  · simp only [writeFile, h.canon hI, bind, Except.bind, hpar, hn]
  · simp only [writeFile, h.canon hI, bind, Except.bind, hpar, hn]

theorem remove_none {t : Tree} (hI : TInv t) {p : Path} (h : Plain t p) (hn : t.get p = none) :
    remove t p = .error .enoent := by
  simp only [remove, h.canon hI, bind, Except.bind, hn]

theorem remove_nondir {t : Tree} (hI : TInv t) {p : Path} (h : Plain t p) {n : Node}
    (hn : t.get p = some n) (hnd : n ≠ .dir) : remove t p = .ok (t.erase p) := by
  cases n with
  | dir => exact absurd rfl hnd
  | file d => simp only [remove, h.canon hI, bind, Except.bind, hn]
  | symlink d => simp only [remove, h.canon hI, bind, Except.bind, hn]

theorem remove_emptydir {t : Tree} (hI : TInv t) {p : Path} (h : Plain t p)
    (hn : t.get p = some .dir) (hc : ∀ e ∈ t.entries, isPrefix p e.1 = false) :
    remove t p = .ok (t.erase p) := by
  simp only [remove, h.canon hI, bind, Except.bind, hn, under_isEmpty hc, if_true]

theorem symlink_plain {t : Tree} (hI : TInv t) {p : Path} (h : Plain t p) (hn : t.get p = none)
    (dest : String) : symlink t dest p = .ok (t.set p (.symlink dest)) := by
  have hpar : t.get p.dropLast = some .dir := h.parent
  simp only [symlink, h.canon hI, bind, Except.bind, hpar, hn]

/-- writing a regular file into a slot -/
theorem set_file_spec {t : Tree} (hI : TInv t) {p : Path} (h : Slot t p) (d : List Byte) :
    TInv (t.set p (.file d)) ∧ SameNF t (t.set p (.file d)) ∧
      ∀ q, (t.set p (.file d)).get q = if q = p then some (.file d) else t.get q := by
  refine ⟨hI.set h.ne h.parent (Or.inl h.not_dir), ?_, get_set _ h.ne⟩
  intro q
  rw [get_set _ h.ne]
  by_cases hq : q = p
  · rw [if_pos hq, hq, h.nofile]; rfl
  · rw [if_neg hq]

/-- erasing a regular file -/
theorem erase_file_spec {t : Tree} (hI : TInv t) {p : Path} (hp : p ≠ []) {d : List Byte}
    (hf : t.get p = some (.file d)) :
    TInv (t.erase p) ∧ SameNF t (t.erase p) ∧
      ∀ q, (t.erase p).get q = if q = p then none else t.get q := by
  have hnd : t.get p ≠ some .dir := by rw [hf]; simp
  refine ⟨hI.erase hp (dropLast_ne_of_no_under hI (no_under_of_not_dir hI hnd)), ?_, get_erase hp⟩
  intro q
  rw [get_erase hp]
  by_cases hq : q = p
  · rw [if_pos hq, hq, hf]; rfl
  · rw [if_neg hq]

theorem rename_file {t : Tree} (hI : TInv t) {o n : Path} (ho : Plain t o) (hn : Plain t n)
    {d : List Byte} (hf : t.get o = some (.file d)) (hnn : t.get n = none) :
    rename t o n = .ok ((t.erase o).set n (.file d)) := by
  have hpar : t.get n.dropLast = some .dir := hn.parent
  have hnd : t.get o ≠ some .dir := by rw [hf]; simp
  have hno := no_under_of_not_dir hI hnd
  have hpre : isPrefix o n = false := by
    cases h : isPrefix o n with
    | false => rfl
    | true =>
      exfalso
      rw [isPrefix_iff] at h
      have := isDir_take hI hn.parent o.length
      rw [List.dropLast_eq_take, List.take_take, Nat.min_eq_left (by omega), h.2] at this
      exact hnd this
  have hab := absent_of_get_none hI hnn
  have h1 : t.eraseTree n = t := eraseTree_fresh hI hn.ne hab
  have h2 : t.eraseTree o = t.erase o := eraseTree_eq_erase hno
  have hab' : ∀ e ∈ (t.erase o).entries, e.1 ≠ n := by
    intro e he
    simp only [Tree.erase, List.mem_filter] at he
    exact hab e he.1
  simp only [rename, ho.canon hI, hn.canon hI, bind, Except.bind, hf, hpre, hpar, hnn, under_nil hno,
    h1, h2, List.map_nil, List.append_nil]
  rw [set_fresh _ hab']
  rfl

/-! ### directories that exist or are missing: `mkdir -p` -/

def DirOrNone (t : Tree) (q : Path) : Prop := t.get q = some .dir ∨ t.get q = none

theorem resolve_dirOrNone (t : Tree) : ∀ (rest done : Path) (fuel : Nat), rest.length < fuel →
    ".." ∉ rest.dropLast → (∀ j, 1 ≤ j → j < rest.length → DirOrNone t (done ++ rest.take j)) →
    resolve t fuel done rest = .ok (done ++ rest) ∨ resolve t fuel done rest = .error .enoent := by
  intro rest
  induction rest with
  | nil =>
    intro done fuel hf _ _
    cases fuel with
    | zero => omega
    | succ f => simp [resolve]
  | cons c r ih =>
    intro done fuel hf hdd hdir
    cases fuel with
    | zero => omega
    | succ f =>
      cases r with
      | nil => simp [resolve]
      | cons c2 r2 =>
        have hc : c ≠ ".." := by
          intro h; apply hdd; simp [h]
        have h1 := hdir 1 (by omega) (by simp)
        simp only [List.take_succ_cons, List.take_zero] at h1
        rcases h1 with h1 | h1
        · simp only [resolve, if_neg hc, h1]
          have := ih (done ++ [c]) f (by simpa using hf) (by
            intro h; apply hdd
            have : (c :: c2 :: r2).dropLast = c :: (c2 :: r2).dropLast := rfl
            rw [this]; exact List.mem_cons_of_mem _ h) (by
            intro j hj1 hj2
            have := hdir (j + 1) (by omega) (by simp at hj2 ⊢; omega)
            simpa using this)
          simpa using this
        · right
          simp only [resolve, if_neg hc, h1]

theorem canon_dirOrNone {t : Tree} {p : Path} (hd : ∀ j, j < p.length → DirOrNone t (p.take j))
    (hdd : ".." ∉ p.dropLast) : canon t p = .ok p ∨ canon t p = .error .enoent := by
  unfold canon
  have := resolve_dirOrNone t p [] (4 * (p.length + 8)) (by omega) hdd (by
    intro j _ h2
    simpa using hd j h2)
  simpa using this

/-- under the same hypotheses `lstat` looks at the path itself -/
theorem lstat_dirOrNone {t : Tree} {p : Path} (hd : ∀ j, j < p.length → DirOrNone t (p.take j))
    (hdd : ".." ∉ p.dropLast) {n : Node} (h : lstat t p = .ok n) : t.get p = some n := by
  rcases canon_dirOrNone hd hdd with hc | hc
  · simp only [lstat, hc, bind, Except.bind] at h
    split at h
    · rename_i n' hn'
      cases h
      exact hn'
    · cases h
  · simp [lstat, hc, bind, Except.bind] at h

theorem mkdirAll_spec : ∀ (rest : Path) (t : Tree) (done : Path) (fuel : Nat), TInv t → IsDir t done →
    rest.length < fuel → ".." ∉ done → ".." ∉ rest →
    (∀ j, j ≤ rest.length → DirOrNone t (done ++ rest.take j)) →
    ∃ t', mkdirAll t fuel done rest = .ok t' ∧ TInv t' ∧
      (∀ j, j ≤ rest.length → IsDir t' (done ++ rest.take j)) ∧
      (∀ q, (∀ j, j ≤ rest.length → q ≠ done ++ rest.take j) → t'.get q = t.get q) := by
  intro rest
  induction rest with
  | nil =>
    intro t done fuel hI hd hf _ _ _
    cases fuel with
    | zero => omega
    | succ f =>
      refine ⟨t, by simp [mkdirAll], hI, ?_, fun _ _ => rfl⟩
      intro j _
      simpa using hd
  | cons c r ih =>
    intro t done fuel hI hd hf hdd1 hdd2 hdn
    cases fuel with
    | zero => omega
    | succ f =>
      have hc2 : ".." ∉ r := fun h => hdd2 (List.mem_cons_of_mem _ h)
      have hcne : ".." ≠ c := fun h => hdd2 (by simp [h])
      have hdd' : ".." ∉ done ++ [c] := by
        simp only [List.mem_append, List.mem_singleton, not_or]
        exact ⟨hdd1, hcne⟩
      have hplain : Plain t (done ++ [c]) := ⟨by simp, by simpa using hd, by simpa using hdd1⟩
      have hcan := hplain.canon hI
      have h1 := hdn 1 (by simp)
      simp only [List.take_succ_cons, List.take_zero] at h1
      -- the recursive call, on a tree `t1` in which `done ++ [c]` is a directory
      have key : ∀ t1, TInv t1 → IsDir t1 (done ++ [c]) →
          (∀ q, q ≠ done ++ [c] → t1.get q = t.get q) →
          ∃ t', mkdirAll t1 f (done ++ [c]) r = .ok t' ∧ TInv t' ∧
            (∀ j, j ≤ (c :: r).length → IsDir t' (done ++ (c :: r).take j)) ∧
            (∀ q, (∀ j, j ≤ (c :: r).length → q ≠ done ++ (c :: r).take j) → t'.get q = t.get q) := by
        intro t1 hI1 hd1 hsame
        have hdn1 : ∀ j, j ≤ r.length → DirOrNone t1 (done ++ [c] ++ r.take j) := by
          intro j hj
          by_cases hj0 : j = 0
          · subst hj0; left; simpa [IsDir] using hd1
          · have hne : done ++ [c] ++ r.take j ≠ done ++ [c] := by
              intro h
              have := congrArg List.length h
              simp only [List.length_append, List.length_take, List.length_cons, List.length_nil] at this
              omega
            have := hdn (j + 1) (by simp; omega)
            simp only [List.take_succ_cons] at this
            simp only [DirOrNone, hsame _ hne]
            simpa [DirOrNone] using this
        obtain ⟨t', h1, h2, h3, h4⟩ := ih t1 (done ++ [c]) f hI1 hd1 (by simpa using hf) hdd' hc2 hdn1
        refine ⟨t', h1, h2, ?_, ?_⟩
        · intro j hj
          cases j with
          | zero =>
            have : IsDir t' (done ++ [c]).dropLast := isDir_dropLast h2 (by simpa using h3 0 (by simp))
            simpa using this
          | succ j =>
            have := h3 j (by simpa using hj)
            simpa using this
        · intro q hq
          have hq1 : q ≠ done ++ [c] := by
            have := hq 1 (by simp)
            simpa using this
          rw [h4 q, hsame q hq1]
          intro j hj
          have := hq (j + 1) (by simpa using hj)
          simpa using this
      rcases h1 with h1 | h1
      · have hsf : statFollow t 8 (done ++ [c]) = .ok (done ++ [c], .dir) := by
          simp only [statFollow, hcan, bind, Except.bind, h1]
        simp only [mkdirAll, hsf]
        exact key t hI h1 (fun _ _ => rfl)
      · have hsf : statFollow t 8 (done ++ [c]) = .error .enoent := by
          simp only [statFollow, hcan, bind, Except.bind, h1]
        simp only [mkdirAll, hsf, hcan]
        apply key
        · exact hI.set hplain.ne hplain.parent (Or.inr rfl)
        · simp only [IsDir]; rw [get_set _ hplain.ne]; simp
        · intro q hq
          rw [get_set _ hplain.ne, if_neg hq]

theorem mkdirs_spec {t : Tree} (hI : TInv t) {p : Path} (hdd : ".." ∉ p)
    (hdn : ∀ j, DirOrNone t (p.take j)) :
    ∃ t', mkdirs t p = .ok t' ∧ TInv t' ∧ (∀ j, IsDir t' (p.take j)) ∧
      (∀ q, (∀ j, q ≠ p.take j) → t'.get q = t.get q) := by
  obtain ⟨t', h1, h2, h3, h4⟩ := mkdirAll_spec p t [] (4 * (p.length + 8)) hI (isDir_nil t) (by omega)
    (by simp) hdd (by intro j _; simpa using hdn j)
  refine ⟨t', h1, h2, ?_, ?_⟩
  · intro j
    by_cases hj : j ≤ p.length
    · simpa using h3 j hj
    · rw [List.take_of_length_le (by omega)]
      simpa using h3 p.length (Nat.le_refl _)
  · intro q hq
    apply h4
    intro j _
    simpa using hq j

end Wharf.Archive
