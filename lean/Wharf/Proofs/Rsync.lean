/-
  Helper lemmas for the C11 property theorems (Wharf/Props/C11.lean): slices, block arithmetic,
  signature entries, the block library, the output queue (`emit`/`enqueue`) and the loop invariant
  of the differ.
-/
import Wharf.Model.Rsync

namespace Wharf.Rsync
open Wharf

/-! ### Slices -/

theorem slice_length (c : Content) (a n : Nat) : (c.slice a n).length = n := by
  simp [Content.slice]

theorem slice_getElem? (c : Content) (a n k : Nat) :
    (c.slice a n)[k]? = if k < n then some (c.get (a + k)) else none := by
  unfold Content.slice
  by_cases h : k < n
  · simp [h]
  · simp [h]

theorem slice_append (c : Content) (a m n : Nat) :
    c.slice a (m + n) = c.slice a m ++ c.slice (a + m) n := by
  apply List.ext_getElem?
  intro k
  rw [List.getElem?_append, slice_length, slice_getElem?, slice_getElem?, slice_getElem?]
  by_cases h1 : k < m
  · have : k < m + n := by omega
    simp [h1, this]
  · by_cases h2 : k - m < n
    · have : k < m + n := by omega
      have e : a + m + (k - m) = a + k := by omega
      simp [h1, h2, this, e]
    · have : ¬ k < m + n := by omega
      simp [h1, h2, this]

theorem slice_zero (c : Content) (a : Nat) : c.slice a 0 = [] := by
  simp [Content.slice]

theorem slice_congr (c d : Content) (a b n : Nat) (h : ∀ k, k < n → c.get (a + k) = d.get (b + k)) :
    c.slice a n = d.slice b n := by
  apply List.ext_getElem?
  intro k
  rw [slice_getElem?, slice_getElem?]
  by_cases hk : k < n
  · simp [hk, h k hk]
  · simp [hk]

theorem sameBytes_get (c d : Content) : ∀ (n a b : Nat), c.sameBytes a d b n = true →
    ∀ k, k < n → c.get (a + k) = d.get (b + k)
  | 0, _, _, _, k, hk => by omega
  | n + 1, a, b, h, k, hk => by
    unfold Content.sameBytes at h
    simp only [Bool.and_eq_true, beq_iff_eq] at h
    cases k with
    | zero => simpa using h.1
    | succ k =>
      have := sameBytes_get c d n (a + 1) (b + 1) h.2 k (by omega)
      have e1 : a + (k + 1) = a + 1 + k := by omega
      have e2 : b + (k + 1) = b + 1 + k := by omega
      rw [e1, e2]; exact this

/-! ### Block arithmetic -/

theorem lt_numBlocks_iff {bs : Nat} (hbs : 0 < bs) (size i : Nat) :
    i < numBlocks bs size ↔ bs * i < size := by
  unfold numBlocks
  rw [Nat.lt_iff_add_one_le, Nat.le_div_iff_mul_le hbs, Nat.add_mul, Nat.mul_comm i bs]
  omega

theorem blockLen_zero {bs : Nat} (hbs : 0 < bs) : blockLen bs 0 0 = 0 := by
  unfold blockLen
  simp [hbs]

theorem blockLen_le_bs {bs : Nat} (hbs : 0 < bs) (size i : Nat) : blockLen bs size i ≤ bs := by
  unfold blockLen
  split
  · exact Nat.le_of_lt (Nat.mod_lt _ hbs)
  · exact Nat.le_refl _

/-- A block that exists lies inside the file. -/
theorem blockLen_le {bs : Nat} (hbs : 0 < bs) (size i : Nat) (h : i < numBlocks bs size) :
    bs * i + blockLen bs size i ≤ size := by
  rw [lt_numBlocks_iff hbs] at h
  unfold blockLen
  split
  · rename_i h2
    have hq : size / bs = i := by
      apply Nat.div_eq_of_lt_le
      · rw [Nat.mul_comm]; omega
      · rw [Nat.mul_comm]; exact h2
    have := Nat.div_add_mod size bs
    rw [hq] at this
    omega
  · rename_i h2
    rw [Nat.mul_add] at h2
    omega

/-- Every block but the last one is full. -/
theorem blockLen_full {bs : Nat} (hbs : 0 < bs) (size i : Nat) (h : i + 1 < numBlocks bs size) :
    blockLen bs size i = bs := by
  rw [lt_numBlocks_iff hbs] at h
  unfold blockLen
  split
  · omega
  · rfl

/-! ### Signature entries -/

/-- What we know of an entry of the signature of `olds`. -/
def EntryOK (bs : Nat) (olds : Array Content) (e : Entry) : Prop :=
  ∃ old, olds[e.file]? = some old ∧
    ((old.size = 0 ∧ e.index = 0) ∨
     (e.index < numBlocks bs old.size ∧ e.short = shortOf bs (blockLen bs old.size e.index)))

theorem mem_fileEntries {bs fi : Nat} {c : Content} {e : Entry} (h : e ∈ fileEntries bs fi c) :
    e.file = fi ∧ ((c.size = 0 ∧ e.index = 0) ∨
      (e.index < numBlocks bs c.size ∧ e.short = shortOf bs (blockLen bs c.size e.index))) := by
  unfold fileEntries at h
  split at h
  · rename_i h0
    simp only [List.mem_singleton] at h
    subst h
    exact ⟨rfl, Or.inl ⟨h0, rfl⟩⟩
  · simp only [List.mem_map, List.mem_range] at h
    obtain ⟨i, hi, rfl⟩ := h
    exact ⟨rfl, Or.inr ⟨hi, rfl⟩⟩

theorem mem_signatureFrom {bs : Nat} : ∀ (cs : List Content) (fi : Nat) (e : Entry),
    e ∈ signatureFrom bs fi cs →
    ∃ old, fi ≤ e.file ∧ cs[e.file - fi]? = some old ∧
      ((old.size = 0 ∧ e.index = 0) ∨
       (e.index < numBlocks bs old.size ∧ e.short = shortOf bs (blockLen bs old.size e.index)))
  | [], _, _, h => by simp [signatureFrom] at h
  | c :: cs, fi, e, h => by
    unfold signatureFrom at h
    rw [List.mem_append] at h
    cases h with
    | inl h =>
      obtain ⟨hf, hr⟩ := mem_fileEntries h
      refine ⟨c, by omega, ?_, hr⟩
      simp [hf]
    | inr h =>
      obtain ⟨old, h1, h2, h3⟩ := mem_signatureFrom cs (fi + 1) e h
      refine ⟨old, by omega, ?_, h3⟩
      have : e.file - fi = (e.file - (fi + 1)) + 1 := by omega
      rw [this, List.getElem?_cons_succ]
      exact h2

theorem entryOK_of_mem_signature {bs : Nat} {olds : List Content} {e : Entry}
    (h : e ∈ signature bs olds) : EntryOK bs olds.toArray e := by
  obtain ⟨old, _, h2, h3⟩ := mem_signatureFrom olds 0 e h
  refine ⟨old, ?_, h3⟩
  simpa using h2

/-! ### The block library -/

theorem mem_buildBuckets (n : Nat) : ∀ (sig : List Entry) (k : Nat) (e : Entry),
    e ∈ (buildBuckets n sig).getD k [] → e ∈ sig
  | [], k, e, h => by
    simp [buildBuckets, Array.getD_eq_getD_getElem?, Array.getElem?_replicate] at h
    split at h <;> simp at h
  | e0 :: sig, k, e, h => by
    have ih := mem_buildBuckets n sig k e
    have hb : buildBuckets n (e0 :: sig) =
        (buildBuckets n sig).modify (bucketOf n e0.weak) (e0 :: ·) := by
      simp [buildBuckets]
    rw [hb, Array.getD_eq_getD_getElem?, Array.getElem?_modify] at h
    rw [Array.getD_eq_getD_getElem?] at ih
    split at h
    · cases hk : (buildBuckets n sig)[k]? with
      | none => simp [hk] at h
      | some l =>
        simp only [hk, Option.map_some, Option.getD_some, List.mem_cons] at h
        cases h with
        | inl h => exact h ▸ List.mem_cons_self
        | inr h => exact List.mem_cons_of_mem _ (ih (by simpa [hk] using h))
    · exact List.mem_cons_of_mem _ (ih h)

/-! ### Operations: validity, mergeability, replay -/

/-- Same as `Wharf.C11.ValidOp` (which lives in the property file). -/
def VOp (bs : Nat) (olds : Array Content) (src : Content) : Op → Prop
  | .range f i sp => ∃ old, olds[f]? = some old ∧ 0 < sp ∧ i + sp ≤ numBlocks bs old.size
  | .data st len => st + len ≤ src.size

/-- Same as `Wharf.C11.Mergeable`. -/
def Mrg : Op → Op → Prop
  | .range f i sp, .range f' i' _ => f = f' ∧ i + sp = i'
  | _, _ => False

theorem Mrg_span (a : Op) (f i sp sp' : Nat) : Mrg a (.range f i sp) ↔ Mrg a (.range f i sp') := by
  cases a <;> exact Iff.rfl

theorem opBytes_range {bs : Nat} (hbs : 0 < bs) {olds : Array Content} {old : Content} {f i sp : Nat}
    (src : Content) (ho : olds[f]? = some old) (hsp : 0 < sp) (h : i + sp ≤ numBlocks bs old.size) :
    opBytes bs olds src (.range f i sp) =
      old.slice (bs * i) ((sp - 1) * bs + blockLen bs old.size (i + sp - 1)) := by
  unfold opBytes
  simp only [ho]
  have h1 := blockLen_le hbs old.size (i + sp - 1) (by omega)
  have e : bs * (i + sp - 1) = bs * i + (sp - 1) * bs := by
    have : i + sp - 1 = i + (sp - 1) := by omega
    rw [this, Nat.mul_add, Nat.mul_comm bs (sp - 1)]
  rw [Nat.min_eq_left]
  omega

theorem opBytes_merge {bs : Nat} (hbs : 0 < bs) {olds : Array Content} {old : Content} {f i sp : Nat}
    (src : Content) (ho : olds[f]? = some old) (hsp : 0 < sp) (h : i + sp + 1 ≤ numBlocks bs old.size) :
    opBytes bs olds src (.range f i (sp + 1)) =
      opBytes bs olds src (.range f i sp) ++ opBytes bs olds src (.range f (i + sp) 1) := by
  rw [opBytes_range hbs src ho (by omega) (by omega), opBytes_range hbs src ho hsp (by omega),
    opBytes_range hbs src ho (by omega) (by omega)]
  have hf : blockLen bs old.size (i + sp - 1) = bs := blockLen_full hbs _ _ (by omega)
  rw [hf]
  have e1 : (sp - 1) * bs + bs = sp * bs := by
    have : sp = (sp - 1) + 1 := by omega
    conv => rhs; rw [this, Nat.add_mul, Nat.one_mul]
  have e2 : bs * (i + sp) = bs * i + sp * bs := by rw [Nat.mul_add, Nat.mul_comm bs sp]
  have e3 : i + (sp + 1) - 1 = i + sp := by omega
  have e4 : i + sp + 1 - 1 = i + sp := by omega
  rw [e1, e2, e3, e4]
  simp only [Nat.add_sub_cancel, Nat.sub_self, Nat.zero_mul, Nat.zero_add]
  exact slice_append _ _ _ _

theorem replay_append (bs : Nat) (olds : Array Content) (src : Content) (l l' : List Op) :
    replay bs olds src (l ++ l') = replay bs olds src l ++ replay bs olds src l' := by
  simp [replay]

theorem replay_single (bs : Nat) (olds : Array Content) (src : Content) (op : Op) :
    replay bs olds src [op] = opBytes bs olds src op := by
  simp [replay]

theorem replay_nil (bs : Nat) (olds : Array Content) (src : Content) :
    replay bs olds src [] = [] := rfl

/-! ### Well-formed op lists -/

theorem getElem?_snoc {α : Type} (l : List α) (x y : α) (k : Nat) :
    (l ++ [x])[k]? = some y ↔ l[k]? = some y ∨ (k = l.length ∧ x = y) := by
  by_cases h : k < l.length
  · rw [List.getElem?_append_left h]
    constructor
    · exact Or.inl
    · intro h'
      cases h' with
      | inl h' => exact h'
      | inr h' => omega
  · rw [List.getElem?_append_right (by omega)]
    have hn : l[k]? = none := List.getElem?_eq_none (by omega)
    rw [hn]
    by_cases h2 : k = l.length
    · subst h2
      simp
    · have : k - l.length = (k - l.length - 1) + 1 := by omega
      rw [this]
      simp
      omega

theorem lt_of_getElem?_eq_some {α : Type} {l : List α} {k : Nat} {a : α} (h : l[k]? = some a) :
    k < l.length := by
  cases Nat.lt_or_ge k l.length with
  | inl h' => exact h'
  | inr h' => rw [List.getElem?_eq_none h'] at h; cases h

/-- The structural properties (b)–(e) of C11 for a list of ops. -/
structure Good (bs mx : Nat) (olds : Array Content) (src : Content) (l : List Op) : Prop where
  valid : ∀ op ∈ l, VOp bs olds src op
  lim : ∀ st len, Op.data st len ∈ l → len ≤ mx
  empty : ∀ k st, l[k]? = some (Op.data st 0) → k = 0
  nomerge : ∀ k a b, l[k]? = some a → l[k + 1]? = some b → ¬ Mrg a b

theorem Good.nil (bs mx : Nat) (olds : Array Content) (src : Content) : Good bs mx olds src [] :=
  ⟨by simp, by simp, by simp, by simp⟩

theorem Good.snoc {bs mx : Nat} {olds : Array Content} {src : Content} {l : List Op}
    (h : Good bs mx olds src l) (op : Op) (hv : VOp bs olds src op)
    (hlim : ∀ st len, op = .data st len → len ≤ mx)
    (hemp : ∀ st, op = .data st 0 → l = [])
    (hm : ∀ k a, k + 1 = l.length → l[k]? = some a → ¬ Mrg a op) :
    Good bs mx olds src (l ++ [op]) := by
  constructor
  · intro o ho
    rw [List.mem_append, List.mem_singleton] at ho
    cases ho with
    | inl ho => exact h.valid o ho
    | inr ho => exact ho ▸ hv
  · intro st len ho
    rw [List.mem_append, List.mem_singleton] at ho
    cases ho with
    | inl ho => exact h.lim st len ho
    | inr ho => exact hlim st len ho.symm
  · intro k st hk
    rw [getElem?_snoc] at hk
    cases hk with
    | inl hk => exact h.empty k st hk
    | inr hk =>
      have := hemp st hk.2
      rw [hk.1, this]; rfl
  · intro k a b ha hb
    rw [getElem?_snoc] at ha hb
    cases hb with
    | inl hb =>
      have := lt_of_getElem?_eq_some hb
      cases ha with
      | inl ha => exact h.nomerge k a b ha hb
      | inr ha => omega
    | inr hb =>
      cases ha with
      | inl ha => exact hb.2 ▸ hm k a hb.1 ha
      | inr ha => omega

theorem Good.replaceLast {bs mx : Nat} {olds : Array Content} {src : Content} {l : List Op}
    {f i sp : Nat} (h : Good bs mx olds src (l ++ [.range f i sp])) (sp' : Nat)
    (hv : VOp bs olds src (.range f i sp')) :
    Good bs mx olds src (l ++ [.range f i sp']) := by
  constructor
  · intro o ho
    rw [List.mem_append, List.mem_singleton] at ho
    cases ho with
    | inl ho => exact h.valid o (List.mem_append_left _ ho)
    | inr ho => exact ho ▸ hv
  · intro st len ho
    rw [List.mem_append, List.mem_singleton] at ho
    cases ho with
    | inl ho => exact h.lim st len (List.mem_append_left _ ho)
    | inr ho => cases ho
  · intro k st hk
    rw [getElem?_snoc] at hk
    cases hk with
    | inl hk => exact h.empty k st ((getElem?_snoc _ _ _ _).2 (Or.inl hk))
    | inr hk => cases hk.2
  · intro k a b ha hb
    rw [getElem?_snoc] at ha hb
    cases hb with
    | inl hb =>
      have := lt_of_getElem?_eq_some hb
      cases ha with
      | inl ha =>
        exact h.nomerge k a b ((getElem?_snoc _ _ _ _).2 (Or.inl ha)) ((getElem?_snoc _ _ _ _).2 (Or.inl hb))
      | inr ha => omega
    | inr hb =>
      cases ha with
      | inl ha =>
        have := h.nomerge k a (.range f i sp) ((getElem?_snoc _ _ _ _).2 (Or.inl ha))
          ((getElem?_snoc _ _ _ _).2 (Or.inr ⟨hb.1, rfl⟩))
        rw [← hb.2]
        exact fun hm => this ((Mrg_span a f i sp' sp).1 hm)
      | inr ha => omega

/-! ### The output queue (`emit`, `enqueue`) -/

def pend (s : DState) : List Op := s.out.toList ++ s.prev.toList

def Frame (s s' : DState) : Prop :=
  s'.base = s.base ∧ s'.sumTail = s.sumTail ∧ s'.dataTail = s.dataTail ∧ s'.dataHead = s.dataHead ∧
  s'.validTo = s.validTo ∧ s'.lastRun = s.lastRun ∧ s'.shortSize = s.shortSize

theorem emit_range (s : DState) (f i sp : Nat) :
    emit s (.range f i sp) = { s with sent := s.sent + 1, out := s.out.push (.range f i sp) } := rfl
theorem emit_data_succ (s : DState) (st n : Nat) :
    emit s (.data st (n + 1)) = { s with sent := s.sent + 1, out := s.out.push (.data st (n + 1)) } := rfl
theorem emit_data_zero (s : DState) (st : Nat) :
    emit s (.data st 0) =
      if s.sent > 0 then s else { s with sent := s.sent + 1, out := s.out.push (.data st 0) } := rfl

structure QInv (s : DState) : Prop where
  sent : s.sent = s.out.size
  prevRange : ∀ p, s.prev = some p → ∃ f i sp, p = Op.range f i sp

theorem enqueue_data_char {s : DState} (hq : QInv s) (st len : Nat) :
    Frame s (enqueue s (.data st len)) ∧ (enqueue s (.data st len)).prev = none ∧
    (enqueue s (.data st len)).sent = (enqueue s (.data st len)).out.size ∧
    pend (enqueue s (.data st len)) =
      if len = 0 ∧ pend s ≠ [] then pend s else pend s ++ [.data st len] := by
  have hs := hq.sent
  unfold enqueue
  cases hp : s.prev with
  | none =>
    simp only
    cases len with
    | zero =>
      rw [emit_data_zero]
      by_cases h0 : s.sent > 0
      · have : s.out.toList ≠ [] := by
          intro h
          have : s.out.size = 0 := by simp [← Array.length_toList, h]
          omega
        rw [if_pos h0]
        simp [Frame, hp, pend, this, hs]
      · have : s.out = #[] := by
          apply Array.eq_empty_of_size_eq_zero; omega
        rw [if_neg h0]
        simp [Frame, hp, pend, hs, this]
    | succ n =>
      rw [emit_data_succ]
      simp [Frame, hp, pend, hs]
  | some p =>
    obtain ⟨f, i, sp, rfl⟩ := hq.prevRange p hp
    simp only
    rw [emit_range]
    cases len with
    | zero =>
      rw [emit_data_zero]
      simp [Frame, hp, pend, hs]
    | succ n =>
      rw [emit_data_succ]
      simp [Frame, hp, pend, hs]

theorem enqueue_range_char {s : DState} (hq : QInv s) (f i sp : Nat) :
    Frame s (enqueue s (.range f i sp)) ∧ QInv (enqueue s (.range f i sp)) ∧
    (enqueue s (.range f i sp)).prev ≠ none ∧
    ((∃ pi ps, s.prev = some (.range f pi ps) ∧ pi + ps = i ∧
        pend (enqueue s (.range f i sp)) = s.out.toList ++ [.range f pi (ps + sp)]) ∨
     ((∀ pf pi ps, s.prev = some (.range pf pi ps) → ¬ (pf = f ∧ pi + ps = i)) ∧
        pend (enqueue s (.range f i sp)) = pend s ++ [.range f i sp])) := by
  have hs := hq.sent
  unfold enqueue
  cases hp : s.prev with
  | none =>
    simp only
    refine ⟨by simp [Frame], ⟨hs, ?_⟩, by simp, Or.inr ⟨by simp, by simp [pend, hp]⟩⟩
    intro p hp'
    simp only [Option.some.injEq] at hp'
    exact ⟨f, i, sp, hp'.symm⟩
  | some p =>
    obtain ⟨pf, pi, ps, rfl⟩ := hq.prevRange p hp
    simp only
    by_cases hm : pf = f ∧ pi + ps = i
    · rw [if_pos hm]
      obtain ⟨rfl, rfl⟩ := hm
      refine ⟨by simp [Frame], ⟨hs, ?_⟩, by simp, Or.inl ⟨pi, ps, rfl, rfl, by simp [pend]⟩⟩
      intro p hp'
      simp only [Option.some.injEq] at hp'
      exact ⟨_, _, _, hp'.symm⟩
    · rw [if_neg hm, emit_range]
      refine ⟨by simp [Frame], ⟨by simp [hs], ?_⟩, by simp, Or.inr ⟨?_, by simp [pend, hp]⟩⟩
      · intro p hp'
        simp only [Option.some.injEq] at hp'
        exact ⟨_, _, _, hp'.symm⟩
      · intro pf' pi' ps' h'
        simp only [Option.some.injEq, Op.range.injEq] at h'
        obtain ⟨rfl, rfl, rfl⟩ := h'
        exact hm


theorem Mrg_data_right (a : Op) (st len : Nat) : ¬ Mrg a (.data st len) := by
  cases a <;> exact id

theorem Mrg_data_left (b : Op) (st len : Nat) : ¬ Mrg (.data st len) b := by
  cases b <;> exact id

/-- Output invariant: the ops emitted so far plus the pending one are well formed and replay to
    the first `cov` bytes of the source. -/
structure OInv (P : Params) (olds : Array Content) (src : Content) (s : DState) (cov : Nat) : Prop where
  q : QInv s
  good : Good P.bs P.maxDataOp olds src (pend s)
  cov : replay P.bs olds src (pend s) = src.slice 0 cov

/-- If nothing is pending then the last op sent (if any) is a data op. -/
def LastData (s : DState) : Prop :=
  s.prev = none → ∀ k a, k + 1 = s.out.toList.length → s.out.toList[k]? = some a →
    ∃ st len, a = Op.data st len

theorem enqueue_data {P : Params} {olds : Array Content} {src : Content} {s : DState} {c : Nat}
    (h : OInv P olds src s c) (len : Nat) (hsz : c + len ≤ src.size) (hlen : len ≤ P.maxDataOp) :
    Frame s (enqueue s (.data c len)) ∧ OInv P olds src (enqueue s (.data c len)) (c + len) ∧
    (0 < len → LastData (enqueue s (.data c len))) := by
  obtain ⟨hf, hp, hs, hpend⟩ := enqueue_data_char h.q c len
  have hq : QInv (enqueue s (.data c len)) := ⟨hs, by simp [hp]⟩
  refine ⟨hf, ?_, ?_⟩
  · by_cases hc : len = 0 ∧ pend s ≠ []
    · rw [if_pos hc] at hpend
      refine ⟨hq, hpend ▸ h.good, ?_⟩
      rw [hpend, hc.1]
      exact h.cov
    · rw [if_neg hc] at hpend
      refine ⟨hq, ?_, ?_⟩
      · rw [hpend]
        refine h.good.snoc _ hsz ?_ ?_ ?_
        · intro st len' he
          simp only [Op.data.injEq] at he
          omega
        · intro st he
          simp only [Op.data.injEq] at he
          by_cases hn : pend s = []
          · exact hn
          · exact absurd ⟨he.2, hn⟩ hc
        · intro k a _ _
          exact Mrg_data_right a c len
      · rw [hpend, replay_append, replay_single, h.cov]
        have := slice_append src 0 c len
        rw [Nat.zero_add] at this
        exact this.symm
  · intro hpos _ k a hk ha
    have hc : ¬ (len = 0 ∧ pend s ≠ []) := by omega
    rw [if_neg hc] at hpend
    have hout : (enqueue s (.data c len)).out.toList = pend s ++ [.data c len] := by
      rw [← hpend]
      simp [pend, hp]
    rw [hout] at hk ha
    rw [getElem?_snoc] at ha
    cases ha with
    | inl ha =>
      have := lt_of_getElem?_eq_some ha
      simp only [List.length_append, List.length_singleton] at hk
      omega
    | inr ha => exact ⟨c, len, ha.2.symm⟩

theorem enqueue_range {P : Params} (hbs : 0 < P.bs) {olds : Array Content} {src : Content} {s : DState}
    {c : Nat} (h : OInv P olds src s c) (hl : LastData s) (f i wl : Nat)
    (hv : VOp P.bs olds src (.range f i 1))
    (hb : opBytes P.bs olds src (.range f i 1) = src.slice c wl) :
    Frame s (enqueue s (.range f i 1)) ∧ OInv P olds src (enqueue s (.range f i 1)) (c + wl) ∧
    LastData (enqueue s (.range f i 1)) := by
  obtain ⟨hf, hq, hp, hcase⟩ := enqueue_range_char h.q f i 1
  refine ⟨hf, ?_, fun hn => absurd hn hp⟩
  have hsl : src.slice 0 (c + wl) = src.slice 0 c ++ src.slice c wl := by
    have := slice_append src 0 c wl
    rw [Nat.zero_add] at this
    exact this
  cases hcase with
  | inl hc =>
    obtain ⟨pi, ps, hprev, hi, hpend⟩ := hc
    have hps : pend s = s.out.toList ++ [.range f pi ps] := by simp [pend, hprev]
    have hg := h.good
    rw [hps] at hg
    obtain ⟨old, ho, _, hnb⟩ := hv
    obtain ⟨old', ho', hps0, _⟩ := hg.valid (.range f pi ps) (by simp)
    have hv' : VOp P.bs olds src (.range f pi (ps + 1)) := ⟨old, ho, by omega, by omega⟩
    refine ⟨hq, ?_, ?_⟩
    · rw [hpend]
      exact hg.replaceLast _ hv'
    · have hc := h.cov
      rw [hps, replay_append, replay_single] at hc
      rw [hpend, replay_append, replay_single, opBytes_merge hbs src ho hps0 (by omega), hi, hb,
        ← List.append_assoc, hc, hsl]
  | inr hc =>
    obtain ⟨hnm, hpend⟩ := hc
    refine ⟨hq, ?_, ?_⟩
    · rw [hpend]
      refine h.good.snoc _ hv ?_ ?_ ?_
      · intro st len he; cases he
      · intro st he; cases he
      · intro k a hk ha
        cases hprev : s.prev with
        | none =>
          have hps : pend s = s.out.toList := by simp [pend, hprev]
          rw [hps] at hk ha
          obtain ⟨st, len, rfl⟩ := hl hprev k a hk ha
          exact Mrg_data_left _ st len
        | some p =>
          obtain ⟨pf, pi, ps, rfl⟩ := h.q.prevRange p hprev
          have hps : pend s = s.out.toList ++ [.range pf pi ps] := by simp [pend, hprev]
          rw [hps] at hk ha
          rw [getElem?_snoc] at ha
          cases ha with
          | inl ha =>
            have := lt_of_getElem?_eq_some ha
            simp only [List.length_append, List.length_singleton] at hk
            omega
          | inr ha =>
            rw [← ha.2]
            exact hnm pf pi ps hprev
    · rw [hpend, replay_append, replay_single, h.cov, hb, hsl]

/-! ### Loop invariant and phases of an iteration -/

theorem OInv.congr {P : Params} {olds : Array Content} {src : Content} {s s' : DState} {c c' : Nat}
    (h : OInv P olds src s c) (ho : s'.out = s.out) (hp : s'.prev = s.prev) (hs : s'.sent = s.sent)
    (hc : c' = c) : OInv P olds src s' c' := by
  have hpend : pend s' = pend s := by simp [pend, ho, hp]
  refine ⟨⟨by rw [hs, ho]; exact h.q.sent, by rw [hp]; exact h.q.prevRange⟩, hpend ▸ h.good, ?_⟩
  rw [hpend, hc]
  exact h.cov

theorem LastData.congr {s s' : DState} (h : LastData s) (ho : s'.out = s.out) (hp : s'.prev = s.prev) :
    LastData s' := by
  unfold LastData
  rw [ho, hp]
  exact h

/-- All fields but `dataTail` and the output queue are unchanged. -/
def FrameT (s s' : DState) : Prop :=
  s'.base = s.base ∧ s'.sumTail = s.sumTail ∧ s'.dataHead = s.dataHead ∧
  s'.validTo = s.validTo ∧ s'.lastRun = s.lastRun ∧ s'.shortSize = s.shortSize

/-- The part of the invariant shared by the loop head and the point after `refill`. -/
structure Core (P : Params) (olds : Array Content) (src : Content) (s : DState) : Prop where
  h1 : s.dataTail ≤ s.dataHead
  h2 : s.dataHead = s.sumTail
  h3 : s.sumTail ≤ s.validTo
  h4 : s.base + s.validTo ≤ src.size
  h6 : s.dataHead - s.dataTail ≤ P.maxDataOp
  o : OInv P olds src s (s.base + s.dataTail)
  ld : LastData s

/-- Invariant at the loop head. -/
def Inv (P : Params) (olds : Array Content) (src : Content) (s : DState) : Prop :=
  Core P olds src s ∧ s.lastRun = false ∧ s.shortSize = 0

/-- Invariant after `refill`. -/
def Mid (P : Params) (olds : Array Content) (src : Content) (s : DState) : Prop :=
  Core P olds src s ∧
  ((s.lastRun = false ∧ s.shortSize = 0 ∧ s.sumTail + P.bs ≤ s.validTo) ∨
   (s.lastRun = true ∧ s.base + s.validTo = src.size ∧ s.validTo - s.sumTail < P.bs + s.shortSize ∧
     s.shortSize < P.bs ∧ s.shortSize ≤ s.validTo - s.sumTail))

/-- What an iteration establishes. -/
def Post (P : Params) (olds : Array Content) (src : Content) (s : DState) : Prop :=
  (s.lastRun = false ∧ Inv P olds src s) ∨ (s.lastRun = true ∧ OInv P olds src s src.size)

/-! #### refill -/

def wrapFlush (s : DState) : DState :=
  if s.dataTail < s.dataHead then
    enqueue s (.data (s.base + s.dataTail) (s.dataHead - s.dataTail)) else s

def wrapReset (s : DState) : DState :=
  { s with base := s.base + s.sumTail, validTo := s.validTo - s.sumTail,
           sumTail := 0, dataHead := 0, dataTail := 0 }

def wrap (s : DState) : DState := wrapReset (wrapFlush s)

def readN (P : Params) (src : Content) (s : DState) : Nat := min P.bs (src.size - (s.base + s.validTo))

def readMore (P : Params) (src : Content) (s : DState) : DState :=
  if readN P src s < P.bs then
    { s with validTo := s.validTo + readN P src s, lastRun := true, shortSize := readN P src s }
  else { s with validTo := s.validTo + readN P src s }

theorem refill_eq (P : Params) (src : Content) (s : DState) :
    refill P src s =
      if s.sumTail + P.bs > s.validTo then
        readMore P src (if s.validTo + P.bs > P.bufLen then wrap s else s)
      else s := rfl

/-- reduce projections of structure instances, then `omega`. -/
macro "somega" : tactic => `(tactic| ((try dsimp only) <;> omega))

theorem wrapFlush_spec {P : Params} {olds : Array Content} {src : Content} {s : DState}
    (hc : Core P olds src s) :
    Frame s (wrapFlush s) ∧ OInv P olds src (wrapFlush s) (s.base + s.dataHead) ∧
    LastData (wrapFlush s) := by
  obtain ⟨h1, h2, h3, h4, h6, o, ld⟩ := hc
  unfold wrapFlush
  by_cases hd : s.dataTail < s.dataHead
  · rw [if_pos hd]
    obtain ⟨hf, ho, hl⟩ := enqueue_data o (s.dataHead - s.dataTail) (by omega) h6
    exact ⟨hf, ho.congr rfl rfl rfl (by omega), hl (by omega)⟩
  · rw [if_neg hd]
    exact ⟨⟨rfl, rfl, rfl, rfl, rfl, rfl, rfl⟩, o.congr rfl rfl rfl (by omega), ld⟩

theorem wrap_spec {P : Params} {olds : Array Content} {src : Content} {s : DState}
    (hc : Core P olds src s) :
    Core P olds src (wrap s) ∧ (wrap s).base = s.base + s.sumTail ∧ (wrap s).sumTail = 0 ∧
    (wrap s).validTo = s.validTo - s.sumTail ∧ (wrap s).lastRun = s.lastRun ∧
    (wrap s).shortSize = s.shortSize := by
  obtain ⟨⟨f1, f2, f3, f4, f5, f6, f7⟩, ho, hl⟩ := wrapFlush_spec hc
  obtain ⟨h1, h2, h3, h4, h6, o, ld⟩ := hc
  unfold wrap wrapReset
  refine ⟨⟨Nat.le_refl _, rfl, Nat.zero_le _, ?_, Nat.zero_le _, ?_, ?_⟩, ?_, rfl, ?_, f6, f7⟩
  · somega
  · refine ho.congr rfl rfl rfl ?_
    somega
  · exact hl.congr rfl rfl
  · somega
  · somega

theorem readMore_spec {P : Params} {olds : Array Content} {src : Content} {s : DState}
    (hc : Core P olds src s) (hl : s.lastRun = false) (hs : s.shortSize = 0)
    (hr : s.sumTail + P.bs > s.validTo) :
    Mid P olds src (readMore P src s) ∧ (readMore P src s).base = s.base ∧
    (readMore P src s).sumTail = s.sumTail := by
  obtain ⟨h1, h2, h3, h4, h6, o, ld⟩ := hc
  have hn : readN P src s = min P.bs (src.size - (s.base + s.validTo)) := rfl
  unfold readMore
  by_cases hlt : readN P src s < P.bs
  · rw [if_pos hlt]
    refine ⟨⟨⟨h1, h2, ?_, ?_, h6, o.congr rfl rfl rfl rfl, ld.congr rfl rfl⟩,
      Or.inr ⟨rfl, ?_, ?_, hlt, ?_⟩⟩, rfl, rfl⟩
    all_goals somega
  · rw [if_neg hlt]
    refine ⟨⟨⟨h1, h2, ?_, ?_, h6, o.congr rfl rfl rfl rfl, ld.congr rfl rfl⟩,
      Or.inl ⟨hl, hs, ?_⟩⟩, rfl, rfl⟩
    all_goals somega

theorem refill_spec {P : Params} {olds : Array Content} {src : Content} {s : DState}
    (hi : Inv P olds src s) : Mid P olds src (refill P src s) := by
  obtain ⟨hc, hl, hs⟩ := hi
  rw [refill_eq]
  by_cases hr : s.sumTail + P.bs > s.validTo
  · rw [if_pos hr]
    by_cases hw : s.validTo + P.bs > P.bufLen
    · rw [if_pos hw]
      obtain ⟨hc', w1, w2, w3, w4, w5⟩ := wrap_spec hc
      have h3 := hc.h3
      exact (readMore_spec hc' (w4 ▸ hl) (w5 ▸ hs) (by omega)).1
    · rw [if_neg hw]
      exact (readMore_spec hc hl hs hr).1
  · rw [if_neg hr]
    exact ⟨hc, Or.inl ⟨hl, hs, by omega⟩⟩


/-! #### hashStep, findUnique -/

theorem hashStep_fst (src : Content) (s : DState) (sumHead : Nat) :
    ∃ a b c r, (hashStep src s sumHead).1 = { s with β := a, β1 := b, β2 := c, rolling := r } := by
  unfold hashStep
  split
  · split
    · exact ⟨s.β, s.β1, s.β2, s.rolling, rfl⟩
    · exact ⟨_, _, _, s.rolling, rfl⟩
  · exact ⟨_, _, _, _, rfl⟩

theorem Mid.hash {P : Params} {olds : Array Content} {src : Content} {s : DState}
    (h : Mid P olds src s) (a b c : UInt32) (r : Bool) :
    Mid P olds src { s with β := a, β1 := b, β2 := c, rolling := r } := by
  obtain ⟨⟨h1, h2, h3, h4, h6, o, ld⟩, hr⟩ := h
  exact ⟨⟨h1, h2, h3, h4, h6, o.congr rfl rfl rfl rfl, ld.congr rfl rfl⟩, hr⟩

theorem findUnique_spec {bs : Nat} {olds : Array Content} {src : Content} {ws wl short : Nat}
    {pref : Option Nat} {β : UInt32} {hh : List Entry} {e : Entry}
    (h : findUnique bs olds src ws wl short pref β hh = some e) :
    wl ≠ 0 ∧ e ∈ hh ∧ e.short = short ∧ blockMatches bs olds src ws wl e = true := by
  unfold findUnique at h
  split at h
  · cases h
  · rename_i hwl
    have key : ∀ (q : Entry → Bool), hh.find? q = some e →
        (∀ x, q x = true → x.short = short ∧ blockMatches bs olds src ws wl x = true) →
        wl ≠ 0 ∧ e ∈ hh ∧ e.short = short ∧ blockMatches bs olds src ws wl e = true := by
      intro q hq himp
      have := himp e (List.find?_some hq)
      exact ⟨hwl, List.mem_of_find?_eq_some hq, this.1, this.2⟩
    dsimp only at h
    split at h
    · split at h
      · rename_i e' he'
        cases h
        refine key _ he' ?_
        intro x hx
        simp only [Bool.and_eq_true, beq_iff_eq] at hx
        exact ⟨hx.2.1.2, hx.2.2⟩
      · refine key _ h ?_
        intro x hx
        simp only [Bool.and_eq_true, beq_iff_eq] at hx
        exact ⟨hx.1.2, hx.2⟩
    · refine key _ h ?_
      intro x hx
      simp only [Bool.and_eq_true, beq_iff_eq] at hx
      exact ⟨hx.1.2, hx.2⟩

/-- What the differ knows about a block it found. -/
def FoundOK (P : Params) (olds : Array Content) (src : Content) (s : DState) (wl : Nat) (e : Entry) :
    Prop :=
  ∃ old, olds[e.file]? = some old ∧ e.index < numBlocks P.bs old.size ∧
    blockLen P.bs old.size e.index = wl ∧ wl ≠ 0 ∧ shortOf P.bs wl = s.shortSize ∧
    old.slice (P.bs * e.index) wl = src.slice (s.base + s.sumTail) wl

theorem foundOK_of_findUnique {P : Params} (hbs : 0 < P.bs) {olds : Array Content} {src : Content}
    {s : DState} {wl : Nat} {pref : Option Nat} {hh : List Entry} {e : Entry}
    (hh_ok : ∀ x ∈ hh, EntryOK P.bs olds x)
    (h : findUnique P.bs olds src (s.base + s.sumTail) wl s.shortSize pref s.β hh = some e) :
    FoundOK P olds src s wl e := by
  obtain ⟨hwl, hmem, hshort, hbm⟩ := findUnique_spec h
  obtain ⟨old, ho, hcase⟩ := hh_ok e hmem
  unfold blockMatches at hbm
  rw [ho] at hbm
  simp only [Bool.and_eq_true, beq_iff_eq] at hbm
  obtain ⟨hbl, hsame⟩ := hbm
  have hget := sameBytes_get old src wl (e.index * P.bs) (s.base + s.sumTail) hsame
  cases hcase with
  | inl hc =>
    rw [hc.1, hc.2, blockLen_zero hbs] at hbl
    exact absurd hbl.symm hwl
  | inr hc =>
    refine ⟨old, ho, hc.1, hbl, hwl, ?_, ?_⟩
    · rw [← hshort, hc.2, hbl]
    · rw [Nat.mul_comm]
      exact slice_congr _ _ _ _ _ hget


/-! #### advance -/

def advSet (s : DState) : DState := { s with dataTail := s.dataHead }

def advFlush (P : Params) (s : DState) (found : Option Entry) : DState :=
  if s.dataTail < s.dataHead ∧ (found.isSome ∨ s.dataHead - s.dataTail ≥ P.maxDataOp) then
    advSet (enqueue s (.data (s.base + s.dataTail) (s.dataHead - s.dataTail)))
  else s

def advSomeSet (P : Params) (s : DState) : DState :=
  { s with rolling := false, sumTail := s.sumTail + P.bs,
           dataHead := s.sumTail + P.bs, dataTail := s.sumTail + P.bs }

def advSome (P : Params) (s : DState) (e : Entry) : DState :=
  advSomeSet P (enqueue s (.range e.file e.index 1))

def advPop (src : Content) (s : DState) : DState :=
  if s.rolling then { s with αPop := (src.get (s.base + s.sumTail)).toUInt32 } else s

def advStep (s : DState) : DState := { s with sumTail := s.sumTail + 1, dataHead := s.sumTail + 1 }

def advNone (P : Params) (src : Content) (s : DState) : DState :=
  if s.lastRun then emitTail P s.validTo s else advStep (advPop src s)

theorem advance_some (P : Params) (src : Content) (s : DState) (e : Entry) :
    advance P src s (some e) = advSome P (advFlush P s (some e)) e := rfl

theorem advance_none (P : Params) (src : Content) (s : DState) :
    advance P src s none = advNone P src (advFlush P s none) := rfl

theorem advFlush_spec {P : Params} {olds : Array Content} {src : Content} {s : DState}
    (hc : Core P olds src s) (found : Option Entry) :
    FrameT s (advFlush P s found) ∧
    OInv P olds src (advFlush P s found) ((advFlush P s found).base + (advFlush P s found).dataTail) ∧
    LastData (advFlush P s found) ∧
    ((advFlush P s found).dataTail = s.dataHead ∨
      ((advFlush P s found).dataTail = s.dataTail ∧
        ¬ (s.dataTail < s.dataHead ∧ (found.isSome ∨ s.dataHead - s.dataTail ≥ P.maxDataOp)))) := by
  obtain ⟨h1, h2, h3, h4, h6, o, ld⟩ := hc
  unfold advFlush
  by_cases hd : s.dataTail < s.dataHead ∧ (found.isSome ∨ s.dataHead - s.dataTail ≥ P.maxDataOp)
  · rw [if_pos hd]
    obtain ⟨⟨f1, f2, f3, f4, f5, f6, f7⟩, ho, hl⟩ :=
      enqueue_data o (s.dataHead - s.dataTail) (by omega) h6
    unfold advSet
    refine ⟨⟨f1, f2, f4, f5, f6, f7⟩, ho.congr rfl rfl rfl ?_, (hl (by omega)).congr rfl rfl, Or.inl f4⟩
    somega
  · rw [if_neg hd]
    exact ⟨⟨rfl, rfl, rfl, rfl, rfl, rfl⟩, o, ld, Or.inr ⟨rfl, hd⟩⟩

theorem emitTail_spec {P : Params} (hmx : 0 < P.maxDataOp) {olds : Array Content} {src : Content} :
    ∀ (fuel : Nat) (s : DState), OInv P olds src s (s.base + s.dataTail) → s.dataTail ≤ s.validTo →
      s.base + s.validTo ≤ src.size → s.validTo - s.dataTail ≤ fuel →
      OInv P olds src (emitTail P fuel s) (s.base + s.validTo) ∧
      (emitTail P fuel s).lastRun = s.lastRun
  | 0, s, o, h1, h2, h3 => by
    unfold emitTail
    obtain ⟨hf, ho, _⟩ := enqueue_data o (s.validTo - s.dataTail) (by omega) (by omega)
    exact ⟨ho.congr rfl rfl rfl (by omega), hf.2.2.2.2.2.1⟩
  | fuel + 1, s, o, h1, h2, h3 => by
    unfold emitTail
    by_cases hgt : s.validTo - s.dataTail > P.maxDataOp
    · rw [if_pos hgt]
      obtain ⟨⟨f1, f2, f3, f4, f5, f6, f7⟩, ho, _⟩ := enqueue_data o P.maxDataOp (by omega) (Nat.le_refl _)
      have ih := emitTail_spec hmx fuel
        { enqueue s (.data (s.base + s.dataTail) P.maxDataOp) with
          dataTail := (enqueue s (.data (s.base + s.dataTail) P.maxDataOp)).dataTail + P.maxDataOp }
        (ho.congr rfl rfl rfl (by somega)) (by somega) (by somega) (by somega)
      refine ⟨ih.1.congr rfl rfl rfl ?_, ih.2.trans f6⟩
      somega
    · rw [if_neg hgt]
      obtain ⟨hf, ho, _⟩ := enqueue_data o (s.validTo - s.dataTail) (by omega) (by omega)
      exact ⟨ho.congr rfl rfl rfl (by omega), hf.2.2.2.2.2.1⟩

theorem advSome_spec {P : Params} (hbs : 0 < P.bs) {olds : Array Content} {src : Content} {s : DState}
    (hm : Mid P olds src s) (e : Entry)
    (hf : FoundOK P olds src s (min (s.sumTail + P.bs) s.validTo - s.sumTail) e) :
    Post P olds src (advance P src s (some e)) := by
  obtain ⟨hc, hr⟩ := hm
  obtain ⟨⟨g1, g2, g3, g4, g5, g6⟩, o1, ld1, hdt⟩ := advFlush_spec hc (some e)
  obtain ⟨h1, h2, h3, h4, h6, o, ld⟩ := hc
  obtain ⟨old, ho, hidx, hbl, hwl, hshort, hslice⟩ := hf
  rw [advance_some]
  have hdt' : (advFlush P s (some e)).dataTail = s.sumTail := by
    cases hdt with
    | inl h => omega
    | inr h =>
      have := h.2
      simp only [Option.isSome_some, true_or, and_true] at this
      omega
  have hv : VOp P.bs olds src (.range e.file e.index 1) := ⟨old, ho, by omega, by omega⟩
  have hb : opBytes P.bs olds src (.range e.file e.index 1) =
      src.slice ((advFlush P s (some e)).base + (advFlush P s (some e)).dataTail)
        (min (s.sumTail + P.bs) s.validTo - s.sumTail) := by
    rw [opBytes_range hbs src ho (by omega) (by omega), g1, hdt', ← hslice]
    simp only [Nat.sub_self, Nat.zero_mul, Nat.zero_add, Nat.add_sub_cancel]
    rw [hbl]
  obtain ⟨⟨f1, f2, f3, f4, f5, f6, f7⟩, o2, ld2⟩ := enqueue_range hbs o1 ld1 _ _ _ hv hb
  have hlr : (enqueue (advFlush P s (some e)) (.range e.file e.index 1)).lastRun = s.lastRun := by
    rw [f6, g5]
  unfold advSome advSomeSet
  unfold Post
  cases hr with
  | inl hr =>
    obtain ⟨r1, r2, r3⟩ := hr
    rw [r1] at hlr
    refine Or.inl ⟨hlr, ⟨?_, ?_, ?_, ?_, ?_, o2.congr rfl rfl rfl ?_, ld2.congr rfl rfl⟩, hlr, ?_⟩
    all_goals somega
  | inr hr =>
    obtain ⟨r1, r2, r3, r4, r5⟩ := hr
    rw [r1] at hlr
    refine Or.inr ⟨hlr, o2.congr rfl rfl rfl ?_⟩
    rw [g1, hdt']
    unfold shortOf at hshort
    by_cases hw : min (s.sumTail + P.bs) s.validTo - s.sumTail < P.bs
    · rw [if_pos hw] at hshort
      omega
    · rw [if_neg hw] at hshort
      omega

theorem advPop_eq (src : Content) (s : DState) : ∃ a, advPop src s = { s with αPop := a } := by
  unfold advPop
  split
  · exact ⟨_, rfl⟩
  · exact ⟨s.αPop, rfl⟩

theorem advNone_spec {P : Params} (hbs : 0 < P.bs) (hmx : 0 < P.maxDataOp) {olds : Array Content}
    {src : Content} {s : DState} (hm : Mid P olds src s) :
    Post P olds src (advance P src s none) := by
  obtain ⟨hc, hr⟩ := hm
  obtain ⟨⟨g1, g2, g3, g4, g5, g6⟩, o1, ld1, hdt⟩ := advFlush_spec hc none
  obtain ⟨h1, h2, h3, h4, h6, o, ld⟩ := hc
  rw [advance_none]
  unfold advNone Post
  have hdt' : (advFlush P s none).dataTail ≤ s.dataHead ∧
      s.dataHead + 1 - (advFlush P s none).dataTail ≤ P.maxDataOp := by
    cases hdt with
    | inl h => omega
    | inr h =>
      have := h.2
      simp only [Option.isSome_none, Bool.false_eq_true, false_or] at this
      omega
  cases hr with
  | inl hr =>
    obtain ⟨r1, r2, r3⟩ := hr
    rw [if_neg (by rw [g5, r1]; exact Bool.false_ne_true)]
    obtain ⟨a, ha⟩ := advPop_eq src (advFlush P s none)
    rw [ha]
    unfold advStep
    have hlr : (advFlush P s none).lastRun = false := by rw [g5, r1]
    refine Or.inl ⟨hlr, ⟨?_, ?_, ?_, ?_, ?_, o1.congr rfl rfl rfl ?_, ld1.congr rfl rfl⟩, hlr, ?_⟩
    all_goals somega
  | inr hr =>
    obtain ⟨r1, r2, r3, r4, r5⟩ := hr
    rw [if_pos (by rw [g5, r1])]
    obtain ⟨oe, le⟩ := emitTail_spec hmx (advFlush P s none).validTo (advFlush P s none) o1
      (by omega) (by omega) (by omega)
    exact Or.inr ⟨by rw [le, g5, r1], oe.congr rfl rfl rfl (by omega)⟩


theorem emit_frame (s : DState) (op : Op) : Frame s (emit s op) := by
  unfold emit
  split
  · split <;> exact ⟨rfl, rfl, rfl, rfl, rfl, rfl, rfl⟩
  · exact ⟨rfl, rfl, rfl, rfl, rfl, rfl, rfl⟩

theorem Frame.trans {a b c : DState} (h1 : Frame a b) (h2 : Frame b c) : Frame a c := by
  obtain ⟨a1, a2, a3, a4, a5, a6, a7⟩ := h1
  obtain ⟨b1, b2, b3, b4, b5, b6, b7⟩ := h2
  exact ⟨b1.trans a1, b2.trans a2, b3.trans a3, b4.trans a4, b5.trans a5, b6.trans a6, b7.trans a7⟩

theorem enqueue_frame (s : DState) (op : Op) : Frame s (enqueue s op) := by
  unfold enqueue
  repeat' split
  all_goals first
    | exact ⟨rfl, rfl, rfl, rfl, rfl, rfl, rfl⟩
    | exact emit_frame _ _
    | exact (emit_frame _ _).trans ⟨rfl, rfl, rfl, rfl, rfl, rfl, rfl⟩
    | exact Frame.trans (b := emit { s with prev := none } _) (emit_frame { s with prev := none } _) (emit_frame _ _)

/-! #### One iteration, the loop -/

theorem iter_eq (P : Params) (olds : Array Content) (lookup : UInt32 → List Entry) (src : Content)
    (pref : Option Nat) (s : DState) :
    iter P olds lookup src pref s =
      advance P src
        (hashStep src (refill P src s)
          (min ((refill P src s).sumTail + P.bs) (refill P src s).validTo)).1
        (if (hashStep src (refill P src s)
              (min ((refill P src s).sumTail + P.bs) (refill P src s).validTo)).2 then none
         else
          findUnique P.bs olds src
            ((hashStep src (refill P src s)
              (min ((refill P src s).sumTail + P.bs) (refill P src s).validTo)).1.base +
             (hashStep src (refill P src s)
              (min ((refill P src s).sumTail + P.bs) (refill P src s).validTo)).1.sumTail)
            (min ((refill P src s).sumTail + P.bs) (refill P src s).validTo -
             (hashStep src (refill P src s)
              (min ((refill P src s).sumTail + P.bs) (refill P src s).validTo)).1.sumTail)
            (hashStep src (refill P src s)
              (min ((refill P src s).sumTail + P.bs) (refill P src s).validTo)).1.shortSize
            pref
            (hashStep src (refill P src s)
              (min ((refill P src s).sumTail + P.bs) (refill P src s).validTo)).1.β
            (lookup (hashStep src (refill P src s)
              (min ((refill P src s).sumTail + P.bs) (refill P src s).validTo)).1.β)) := rfl

theorem iter_spec {P : Params} (hbs : 0 < P.bs) (hmx : 0 < P.maxDataOp) {olds : Array Content}
    {lookup : UInt32 → List Entry} (hl : ∀ β e, e ∈ lookup β → EntryOK P.bs olds e)
    {src : Content} (pref : Option Nat) {s : DState} (hi : Inv P olds src s) :
    Post P olds src (iter P olds lookup src pref s) := by
  have hm := refill_spec hi
  obtain ⟨a, b, c, r, he⟩ := hashStep_fst src (refill P src s)
    (min ((refill P src s).sumTail + P.bs) (refill P src s).validTo)
  have hm2 := hm.hash a b c r
  rw [iter_eq, he]
  generalize (hashStep src (refill P src s)
    (min ((refill P src s).sumTail + P.bs) (refill P src s).validTo)).2 = skip
  cases skip with
  | true => exact advNone_spec hbs hmx hm2
  | false =>
    simp only [Bool.false_eq_true, if_false]
    cases hf : findUnique P.bs olds src ((refill P src s).base + (refill P src s).sumTail)
        (min ((refill P src s).sumTail + P.bs) (refill P src s).validTo - (refill P src s).sumTail)
        (refill P src s).shortSize pref a (lookup a) with
    | none => exact advNone_spec hbs hmx hm2
    | some e => exact advSome_spec hbs hm2 e (foundOK_of_findUnique hbs (hl a) hf)

theorem loop_spec {P : Params} (hbs : 0 < P.bs) (hmx : 0 < P.maxDataOp) {olds : Array Content}
    {lookup : UInt32 → List Entry} (hl : ∀ β e, e ∈ lookup β → EntryOK P.bs olds e)
    {src : Content} (pref : Option Nat) :
    ∀ (fuel : Nat) (s : DState), Post P olds src s →
      (loop P olds lookup src pref fuel s).lastRun = true →
      OInv P olds src (loop P olds lookup src pref fuel s) src.size
  | 0, s, hp, hlast => by
    unfold loop at hlast ⊢
    cases hp with
    | inl h => rw [h.1] at hlast; cases hlast
    | inr h => exact h.2
  | fuel + 1, s, hp, hlast => by
    unfold loop at hlast ⊢
    cases hp with
    | inl h =>
      have hn : ¬ (s.lastRun = true) := by rw [h.1]; exact Bool.false_ne_true
      rw [if_neg hn] at hlast ⊢
      exact loop_spec hbs hmx hl pref fuel _ (iter_spec hbs hmx hl pref h.2) hlast
    | inr h =>
      rw [if_pos h.1]
      exact h.2

theorem Inv_init (P : Params) (olds : Array Content) (src : Content) : Inv P olds src {} := by
  refine ⟨⟨Nat.le_refl _, rfl, Nat.le_refl _, Nat.zero_le _, Nat.zero_le _, ⟨⟨rfl, ?_⟩, ?_, ?_⟩, ?_⟩, rfl, rfl⟩
  · intro p hp; cases hp
  · exact Good.nil _ _ _ _
  · rfl
  · intro _ k a hk; cases hk

theorem flush_out {s : DState} (hq : QInv s) : (flush s).out.toList = pend s := by
  unfold flush
  cases hp : s.prev with
  | none => simp [pend, hp]
  | some p =>
    obtain ⟨f, i, sp, rfl⟩ := hq.prevRange p hp
    simp only
    rw [emit_range]
    simp [pend, hp]

/-! #### Termination (no assumption on the block library) -/

theorem emitTail_lastRun (P : Params) : ∀ (fuel : Nat) (s : DState),
    (emitTail P fuel s).lastRun = s.lastRun
  | 0, s => by
    unfold emitTail
    exact (enqueue_frame _ _).2.2.2.2.2.1
  | fuel + 1, s => by
    unfold emitTail
    split
    · rw [emitTail_lastRun P fuel]
      exact (enqueue_frame _ _).2.2.2.2.2.1
    · exact (enqueue_frame _ _).2.2.2.2.2.1

theorem advFlush_frame (P : Params) (s : DState) (found : Option Entry) :
    FrameT s (advFlush P s found) := by
  unfold advFlush
  split
  · obtain ⟨f1, f2, f3, f4, f5, f6, f7⟩ := enqueue_frame s (.data (s.base + s.dataTail) (s.dataHead - s.dataTail))
    exact ⟨f1, f2, f4, f5, f6, f7⟩
  · exact ⟨rfl, rfl, rfl, rfl, rfl, rfl⟩

theorem advance_num (P : Params) (src : Content) (s : DState) (found : Option Entry) :
    (advance P src s found).lastRun = s.lastRun ∧
    (s.lastRun = false → (advance P src s found).base = s.base ∧
      (advance P src s found).validTo = s.validTo ∧
      ((advance P src s found).sumTail = s.sumTail + P.bs ∨
       (advance P src s found).sumTail = s.sumTail + 1)) := by
  obtain ⟨g1, g2, g3, g4, g5, g6⟩ := advFlush_frame P s found
  cases found with
  | some e =>
    rw [advance_some]
    obtain ⟨f1, f2, f3, f4, f5, f6, f7⟩ :=
      enqueue_frame (advFlush P s (some e)) (.range e.file e.index 1)
    unfold advSome advSomeSet
    refine ⟨f6.trans g5, fun _ => ⟨f1.trans g1, f5.trans g4, Or.inl ?_⟩⟩
    somega
  | none =>
    rw [advance_none]
    unfold advNone
    by_cases hlr : s.lastRun = true
    · rw [if_pos (g5.trans hlr)]
      refine ⟨(emitTail_lastRun P _ _).trans g5, fun h => ?_⟩
      rw [hlr] at h; cases h
    · rw [if_neg (by rw [g5]; exact hlr)]
      obtain ⟨a, ha⟩ := advPop_eq src (advFlush P s none)
      rw [ha]
      unfold advStep
      refine ⟨g5, fun _ => ⟨g1, g4, Or.inr ?_⟩⟩
      somega


theorem wrap_num (s : DState) :
    (wrap s).base = s.base + s.sumTail ∧ (wrap s).sumTail = 0 ∧
    (wrap s).validTo = s.validTo - s.sumTail ∧ (wrap s).lastRun = s.lastRun := by
  have hf : Frame s (wrapFlush s) := by
    unfold wrapFlush
    split
    · exact enqueue_frame _ _
    · exact ⟨rfl, rfl, rfl, rfl, rfl, rfl, rfl⟩
  obtain ⟨f1, f2, f3, f4, f5, f6, f7⟩ := hf
  unfold wrap wrapReset
  refine ⟨?_, rfl, ?_, f6⟩ <;> somega

theorem readMore_num (P : Params) (src : Content) (s : DState)
    (h4 : s.base + s.validTo ≤ src.size) :
    (readMore P src s).base = s.base ∧ (readMore P src s).sumTail = s.sumTail ∧
    s.validTo ≤ (readMore P src s).validTo ∧
    (readMore P src s).base + (readMore P src s).validTo ≤ src.size ∧
    ((readMore P src s).lastRun = true ∨
      ((readMore P src s).lastRun = s.lastRun ∧ (readMore P src s).validTo = s.validTo + P.bs)) := by
  have hn : readN P src s = min P.bs (src.size - (s.base + s.validTo)) := rfl
  unfold readMore
  by_cases hlt : readN P src s < P.bs
  · rw [if_pos hlt]
    refine ⟨rfl, rfl, ?_, ?_, Or.inl rfl⟩ <;> somega
  · rw [if_neg hlt]
    refine ⟨rfl, rfl, ?_, ?_, Or.inr ⟨rfl, ?_⟩⟩ <;> somega

theorem refill_num (P : Params) (src : Content) (s : DState) (h3 : s.sumTail ≤ s.validTo)
    (h4 : s.base + s.validTo ≤ src.size) :
    (refill P src s).sumTail ≤ (refill P src s).validTo ∧
    (refill P src s).base + (refill P src s).validTo ≤ src.size ∧
    (refill P src s).base + (refill P src s).sumTail = s.base + s.sumTail ∧
    ((refill P src s).lastRun = true ∨
      ((refill P src s).lastRun = s.lastRun ∧
        (refill P src s).sumTail + P.bs ≤ (refill P src s).validTo)) := by
  rw [refill_eq]
  by_cases hr : s.sumTail + P.bs > s.validTo
  · rw [if_pos hr]
    by_cases hw : s.validTo + P.bs > P.bufLen
    · rw [if_pos hw]
      obtain ⟨w1, w2, w3, w4⟩ := wrap_num s
      obtain ⟨r1, r2, r3, r4, r5⟩ := readMore_num P src (wrap s) (by omega)
      refine ⟨by omega, r4, by omega, ?_⟩
      cases r5 with
      | inl r5 => exact Or.inl r5
      | inr r5 => exact Or.inr ⟨r5.1.trans w4, by omega⟩
    · rw [if_neg hw]
      obtain ⟨r1, r2, r3, r4, r5⟩ := readMore_num P src s h4
      refine ⟨by omega, r4, by omega, ?_⟩
      cases r5 with
      | inl r5 => exact Or.inl r5
      | inr r5 => exact Or.inr ⟨r5.1, by omega⟩
  · rw [if_neg hr]
    exact ⟨h3, h4, rfl, Or.inr ⟨rfl, by omega⟩⟩

theorem iter_num {P : Params} (hbs : 0 < P.bs) (olds : Array Content) (lookup : UInt32 → List Entry)
    (src : Content) (pref : Option Nat) (s : DState) (hl : s.lastRun = false)
    (h3 : s.sumTail ≤ s.validTo) (h4 : s.base + s.validTo ≤ src.size) :
    (iter P olds lookup src pref s).lastRun = true ∨
    ((iter P olds lookup src pref s).sumTail ≤ (iter P olds lookup src pref s).validTo ∧
     (iter P olds lookup src pref s).base + (iter P olds lookup src pref s).validTo ≤ src.size ∧
     s.base + s.sumTail < (iter P olds lookup src pref s).base + (iter P olds lookup src pref s).sumTail) := by
  obtain ⟨r1, r2, r3, r4⟩ := refill_num P src s h3 h4
  obtain ⟨a, b, c, r, he⟩ := hashStep_fst src (refill P src s)
    (min ((refill P src s).sumTail + P.bs) (refill P src s).validTo)
  rw [iter_eq, he]
  generalize (if (hashStep src (refill P src s)
      (min ((refill P src s).sumTail + P.bs) (refill P src s).validTo)).2 = true then none else _) = found
  obtain ⟨a1, a2⟩ := advance_num P src
    { refill P src s with β := a, β1 := b, β2 := c, rolling := r } found
  cases r4 with
  | inl r4 => exact Or.inl (a1.trans r4)
  | inr r4 =>
    obtain ⟨b1, b2, b3⟩ := a2 (r4.1.trans hl)
    refine Or.inr ?_
    dsimp only at b1 b2 b3
    omega

theorem loop_fuel {P : Params} (hbs : 0 < P.bs) (olds : Array Content) (lookup : UInt32 → List Entry)
    (src : Content) (pref : Option Nat) :
    ∀ (fuel : Nat) (s : DState),
      (s.lastRun = true ∨ (s.sumTail ≤ s.validTo ∧ s.base + s.validTo ≤ src.size ∧
        src.size + 1 ≤ fuel + (s.base + s.sumTail))) →
      (loop P olds lookup src pref fuel s).lastRun = true
  | 0, s, h => by
    unfold loop
    cases h with
    | inl h => exact h
    | inr h => omega
  | fuel + 1, s, h => by
    unfold loop
    by_cases hl : s.lastRun = true
    · rw [if_pos hl]; exact hl
    · rw [if_neg hl]
      apply loop_fuel hbs olds lookup src pref fuel
      cases h with
      | inl h => exact absurd h hl
      | inr h =>
        have hl' : s.lastRun = false := by
          cases hs : s.lastRun with
          | true => exact absurd hs hl
          | false => rfl
        cases iter_num hbs olds lookup src pref s hl' h.1 h.2.1 with
        | inl hi => exact Or.inl hi
        | inr hi => exact Or.inr ⟨hi.1, hi.2.1, by omega⟩

theorem loop_lastRun {P : Params} (hbs : 0 < P.bs) (olds : Array Content) (lookup : UInt32 → List Entry)
    (src : Content) (pref : Option Nat) :
    (loop P olds lookup src pref (src.size + 2) {}).lastRun = true := by
  apply loop_fuel hbs
  refine Or.inr ⟨Nat.le_refl _, Nat.zero_le _, ?_⟩
  somega

/-! #### The result of `computeDiffWith` -/

theorem computeDiffWith_spec {P : Params} (hbs : 0 < P.bs) (hmx : 0 < P.maxDataOp)
    {olds : Array Content} {lookup : UInt32 → List Entry}
    (hl : ∀ β e, e ∈ lookup β → EntryOK P.bs olds e) (src : Content) (pref : Option Nat) :
    Good P.bs P.maxDataOp olds src (computeDiffWith P olds lookup src pref) ∧
    replay P.bs olds src (computeDiffWith P olds lookup src pref) = src.toList := by
  have ho := loop_spec hbs hmx hl pref (src.size + 2) {} (Or.inl ⟨rfl, Inv_init P olds src⟩)
    (loop_lastRun hbs olds lookup src pref)
  unfold computeDiffWith
  rw [flush_out ho.q]
  exact ⟨ho.good, ho.cov⟩

end Wharf.Rsync
