/-
  Helper lemmas for Props/C02.lean: the in-place commit over the abstract filesystem.

  Plan of the proof (all states are described extensionally, through `Tree.get`, together with `TInv`):

  * `ensureDirs` only creates the missing new directories; the result `t₁` has `t₁.get q = dir` for new dirs
    and `t₀.get q` elsewhere.  (Since the repair of finding F27 the new symlinks are put in place after the
    overlays, just before ghost deletion: under `NKC` each of them finds nothing or the old symlink at its
    path, `finish_spec`.)
  * transpositions, staged moves and overlays are "file level": they only create, rewrite or remove regular
    files at places that hold nothing or a regular file (`SameNF`), so directories and symlinks stay put and
    every new file path / temporary name stays a `Slot`.  (The lemmas about the transposition phase are stated
    with `SameX S` / `XSlot S`, which let a symlink or an empty directory at a path of `S` give way to the
    regular file `copy` or `move` puts there — since the repair of finding F26 both remove such a destination
    first.  Here `S` is empty and these are `SameNF` / `Slot`; Wharf/Proofs/CommitKinds.lean takes the new file
    paths for `S`.)
  * the second pass of the transpositions is handled by induction over the list of groups with the tree
    generalised; the conclusion speaks about *membership* in the list only, hence is invariant under
    permutations of the visiting order.  Clash-prone outputs got pairwise distinct temporary names in the
    first pass (`seedName` is injective), none of which is a path of either build (the skip loop `nextFree`
    returns a name that is not in use: `nextFree_spec`), so no output ever overwrites a source that is still
    needed nor any other file of the builds.
  * since the repair of finding F8 (1)/(2) `move` and the staged moves clear their destination with `clearDest`
    (`os.RemoveAll` when a directory stands there): `clearDest_spec`, `moveFile_specD`, `stageStep_specD` describe
    them on an arbitrary destination; on a `Slot` / `XSlot` they are what they were.  The first pass also gives a
    temporary name to an output that is a directory of the old build: the flagged outputs are the list
    `sources ++ old.dirs` (`safePass_spec`), and the cleanup renames are handled by `cleanup_specD`, whatever
    stands at their destinations.
  * since the repair of finding F8 (3) `commit` starts with `moveSourcesAside` and `applyTranspositions` takes the
    resulting map: under `NKC` (here) and under `BKC.sources` (CommitKinds.lean) no transposition source is a
    directory of the new build, the map is empty (`moveSourcesAside_nil_of_sources`) and `commit` is what it was;
    the general case is Wharf/Proofs/CommitAside.lean.  `transp_core` also says that a source which is neither
    patched through an overlay nor a path of the new build is GONE afterwards (needed there: the aside files).
  * ghosts are deleted children first, because the joined path of a child is strictly longer; a ghost below a
    file or a symlink of the new build is skipped (repair of finding F25) — it holds nothing, that entry being
    in place.
-/
import Wharf.Model.Commit
import Wharf.Proofs.Archive
import Wharf.Proofs.FSLemmas

namespace Wharf.Commit
open Wharf Wharf.FS Wharf.Archive

/-! ### builds and the trees that hold them (mirrors of the definitions in Props/C02.lean) -/

-- `pathsOf` (dirs ++ symlink paths ++ file paths) is defined in the model: `commit` itself needs it since the
-- fix of F22 (the temporary names skip the paths in use)

structure BWF (b : Build) : Prop where
  clean : ∀ p ∈ pathsOf b, p ≠ [] ∧ ∀ c ∈ p, c ≠ ".." ∧ c ≠ "." ∧ c ≠ ""
  distinct : (pathsOf b).Nodup
  parents : ∀ p ∈ pathsOf b, ∀ j, 0 < j → j < p.length → p.take j ∈ b.dirs

theorem BWF.ne {b : Build} (h : BWF b) {p : Path} (hp : p ∈ pathsOf b) : p ≠ [] := (h.clean p hp).1

theorem BWF.nodd {b : Build} (h : BWF b) {p : Path} (hp : p ∈ pathsOf b) : ".." ∉ p :=
  fun hm => ((h.clean p hp).2 _ hm).1 rfl

theorem mem_pathsOf {b : Build} {p : Path} :
    p ∈ pathsOf b ↔ p ∈ b.dirs ∨ p ∈ b.symlinks.map (·.1) ∨ p ∈ b.files.map (·.1) := by
  simp only [pathsOf, List.mem_append, or_assoc]

theorem BWF.dirs_nodup {b : Build} (h : BWF b) : b.dirs.Nodup := by
  have := h.distinct
  simp only [pathsOf, List.nodup_append] at this
  exact this.1.1

theorem BWF.dir_not_symlink {b : Build} (h : BWF b) {p : Path} (hp : p ∈ b.dirs) :
    p ∉ b.symlinks.map (·.1) := by
  have := h.distinct
  simp only [pathsOf, List.nodup_append] at this
  intro hs
  exact this.1.2.2 p hp p hs rfl

theorem BWF.dir_not_file {b : Build} (h : BWF b) {p : Path} (hp : p ∈ b.dirs) :
    p ∉ b.files.map (·.1) := by
  have := h.distinct
  simp only [pathsOf, List.nodup_append] at this
  intro hs
  exact this.2.2 p (by simp [hp]) p hs rfl

theorem BWF.symlink_not_file {b : Build} (h : BWF b) {p : Path} (hp : p ∈ b.symlinks.map (·.1)) :
    p ∉ b.files.map (·.1) := by
  have := h.distinct
  simp only [pathsOf, List.nodup_append] at this
  intro hs
  exact this.2.2 p (List.mem_append.mpr (Or.inr hp)) p hs rfl

theorem BWF.files_nodup {b : Build} (h : BWF b) : (b.files.map (·.1)).Nodup := by
  have := h.distinct
  simp only [pathsOf, List.nodup_append] at this
  exact this.2.1

theorem BWF.symlinks_nodup {b : Build} (h : BWF b) : (b.symlinks.map (·.1)).Nodup := by
  have := h.distinct
  simp only [pathsOf, List.nodup_append] at this
  exact this.1.2.1

/-- the parent of a build path is the root or one of the build's directories -/
theorem BWF.parent_mem {b : Build} (h : BWF b) {p : Path} (hp : p ∈ pathsOf b) :
    p.dropLast = [] ∨ p.dropLast ∈ b.dirs := by
  by_cases h1 : p.length ≤ 1
  · left
    apply List.eq_nil_of_length_eq_zero
    simp; omega
  · right
    rw [List.dropLast_eq_take]
    exact h.parents p hp _ (by omega) (by omega)

theorem find?_key_of_nodup {α β} [BEq α] [LawfulBEq α] : ∀ {l : List (α × β)} {a : α} {b : β},
    (l.map (·.1)).Nodup → (a, b) ∈ l → l.find? (fun e => e.1 == a) = some (a, b)
  | [], _, _, _, h => by cases h
  | (a', b') :: l, a, b, hnd, h => by
    simp only [List.map_cons, List.nodup_cons] at hnd
    simp only [List.mem_cons] at h
    rcases h with h | h
    · cases h
      simp
    · have hne : a' ≠ a := by
        intro he
        apply hnd.1
        rw [he]
        exact List.mem_map.mpr ⟨(a, b), h, rfl⟩
      have : (a' == a) = false := by simpa using hne
      simp only [List.find?_cons, this]
      exact find?_key_of_nodup hnd.2 h

theorem get_of_mem_entries {t : Tree} (hnd : (t.entries.map (·.1)).Nodup) {p : Path} {n : Node}
    (hp : p ≠ []) (h : (p, n) ∈ t.entries) : t.get p = some n := by
  have := find?_key_of_nodup hnd h
  simp only [Tree.get, if_neg hp]
  rw [this]
  rfl

theorem keys_treeOfBuild (b : Build) :
    (treeOfBuild b).entries.map (·.1) = b.dirs ++ b.files.map (·.1) ++ b.symlinks.map (·.1) := by
  simp only [treeOfBuild, List.map_append, List.map_map]
  congr 1
  congr 1
  simp [Function.comp_def]

theorem keys_nodup_treeOfBuild {b : Build} (h : BWF b) : ((treeOfBuild b).entries.map (·.1)).Nodup := by
  rw [keys_treeOfBuild]
  have hp : (b.dirs ++ b.files.map (·.1) ++ b.symlinks.map (·.1)).Perm (pathsOf b) := by
    simp only [pathsOf, List.append_assoc]
    exact List.Perm.append_left _ List.perm_append_comm
  exact hp.nodup_iff.mpr h.distinct

theorem mem_keys_treeOfBuild {b : Build} {p : Path} :
    p ∈ (treeOfBuild b).entries.map (·.1) ↔ p ∈ pathsOf b := by
  rw [keys_treeOfBuild, mem_pathsOf]
  simp only [List.mem_append]
  constructor
  · rintro ((h | h) | h)
    · exact Or.inl h
    · exact Or.inr (Or.inr h)
    · exact Or.inr (Or.inl h)
  · rintro (h | h | h)
    · exact Or.inl (Or.inl h)
    · exact Or.inr h
    · exact Or.inl (Or.inr h)

theorem get_dir_treeOfBuild {b : Build} (h : BWF b) {p : Path} (hp : p ∈ b.dirs) :
    (treeOfBuild b).get p = some .dir := by
  apply get_of_mem_entries (keys_nodup_treeOfBuild h) (h.ne (mem_pathsOf.mpr (Or.inl hp)))
  simp only [treeOfBuild, List.mem_append, List.mem_map]
  exact Or.inl (Or.inl ⟨p, hp, rfl⟩)

theorem get_file_treeOfBuild {b : Build} (h : BWF b) {p : Path} {d : List Byte} (hp : (p, d) ∈ b.files) :
    (treeOfBuild b).get p = some (.file d) := by
  apply get_of_mem_entries (keys_nodup_treeOfBuild h)
    (h.ne (mem_pathsOf.mpr (Or.inr (Or.inr (List.mem_map.mpr ⟨_, hp, rfl⟩)))))
  simp only [treeOfBuild, List.mem_append, List.mem_map]
  exact Or.inl (Or.inr ⟨(p, d), hp, rfl⟩)

theorem get_symlink_treeOfBuild {b : Build} (h : BWF b) {p : Path} {d : String}
    (hp : (p, d) ∈ b.symlinks) : (treeOfBuild b).get p = some (.symlink d) := by
  apply get_of_mem_entries (keys_nodup_treeOfBuild h)
    (h.ne (mem_pathsOf.mpr (Or.inr (Or.inl (List.mem_map.mpr ⟨_, hp, rfl⟩)))))
  simp only [treeOfBuild, List.mem_append, List.mem_map]
  exact Or.inr ⟨(p, d), hp, rfl⟩

theorem get_none_treeOfBuild {b : Build} {p : Path} (hp : p ≠ []) (hn : p ∉ pathsOf b) :
    (treeOfBuild b).get p = none := by
  apply get_none_of_fresh hp
  intro e he hep
  apply hn
  rw [← mem_keys_treeOfBuild, ← hep]
  exact List.mem_map.mpr ⟨e, he, rfl⟩

theorem tinv_treeOfBuild {b : Build} (h : BWF b) : TInv (treeOfBuild b) := by
  have hk : ∀ e ∈ (treeOfBuild b).entries, e.1 ∈ pathsOf b := by
    intro e he
    rw [← mem_keys_treeOfBuild]
    exact List.mem_map.mpr ⟨e, he, rfl⟩
  constructor
  · intro e he
    exact h.ne (hk e he)
  · intro e he
    exact get_of_mem_entries (keys_nodup_treeOfBuild h) (h.ne (hk e he)) he
  · intro e he
    rcases h.parent_mem (hk e he) with h0 | h0
    · rw [h0]; exact isDir_nil _
    · exact get_dir_treeOfBuild h h0

/-! ### `ensureDirs`, `ensureSymlinks` -/

theorem get_nil (t : Tree) : t.get [] = some .dir := by simp [Tree.get]

theorem ensureDir_spec {t : Tree} (hI : TInv t) {p : Path} (hdd : ".." ∉ p)
    (hdn : ∀ j, DirOrNone t (p.take j)) :
    ∃ t', ensureDir t p = .ok t' ∧ TInv t' ∧ (∀ j, IsDir t' (p.take j)) ∧
      (∀ q, (∀ j, q ≠ p.take j) → t'.get q = t.get q) := by
  have hdd' : ".." ∉ p.dropLast := fun h => hdd (mem_of_mem_dropLast h)
  cases h : lstat t p with
  | ok n =>
    have hg := lstat_dirOrNone (fun j _ => hdn j) hdd' h
    have hp := hdn p.length
    rw [List.take_length] at hp
    cases n with
    | dir =>
      refine ⟨t, by simp only [ensureDir, h], hI, fun j => isDir_take hI hg j, fun _ _ => rfl⟩
    | file d => rcases hp with hp | hp <;> rw [hg] at hp <;> cases hp
    | symlink d => rcases hp with hp | hp <;> rw [hg] at hp <;> cases hp
  | error e =>
    obtain ⟨t', h1, h2, h3, h4⟩ := mkdirs_spec hI hdd hdn
    exact ⟨t', by simp only [ensureDir, h, h1], h2, h3, h4⟩

/-- `D` is a prefix-closed set of clean paths, each of which is a directory or missing. -/
theorem ensureDirs_spec (D : Path → Prop) (hD : ∀ p, D p → ∀ j, 0 < j → D (p.take j))
    (hDdd : ∀ p, D p → ".." ∉ p) :
    ∀ (L : List Path) (t : Tree), TInv t → (∀ p ∈ L, D p) → (∀ q, D q → DirOrNone t q) →
    ∃ t', L.foldlM ensureDir t = .ok t' ∧ TInv t' ∧ (∀ p ∈ L, IsDir t' p) ∧
      (∀ q, ¬ D q → t'.get q = t.get q) ∧ (∀ q, t.get q ≠ none → t'.get q = t.get q) ∧
      (∀ q, D q → DirOrNone t' q) := by
  intro L
  induction L with
  | nil =>
    intro t hI _ hdn
    exact ⟨t, rfl, hI, by simp, fun _ _ => rfl, fun _ _ => rfl, hdn⟩
  | cons p L ih =>
    intro t hI hL hdn
    have hDp := hL p (by simp)
    have hdnp : ∀ j, DirOrNone t (p.take j) := by
      intro j
      by_cases hj : j = 0
      · subst hj; left; simp [get_nil]
      · exact hdn _ (hD p hDp j (by omega))
    obtain ⟨t1, h1, hI1, hd1, hf1⟩ := ensureDir_spec hI (hDdd p hDp) hdnp
    -- effect of the first step
    have hmono : ∀ q, t.get q ≠ none → t1.get q = t.get q := by
      intro q hq
      by_cases hex : ∃ j, q = p.take j
      · obtain ⟨j, rfl⟩ := hex
        rcases hdnp j with h | h
        · rw [h]; exact hd1 j
        · exact absurd h hq
      · exact hf1 q (fun j hj => hex ⟨j, hj⟩)
    have hout : ∀ q, ¬ D q → t1.get q = t.get q := by
      intro q hq
      by_cases hex : ∃ j, q = p.take j
      · obtain ⟨j, rfl⟩ := hex
        by_cases hj : j = 0
        · subst hj; simp [get_nil]
        · exact absurd (hD p hDp j (by omega)) hq
      · exact hf1 q (fun j hj => hex ⟨j, hj⟩)
    have hdn1 : ∀ q, D q → DirOrNone t1 q := by
      intro q hq
      by_cases hex : ∃ j, q = p.take j
      · obtain ⟨j, rfl⟩ := hex
        exact Or.inl (hd1 j)
      · have := hf1 q (fun j hj => hex ⟨j, hj⟩)
        simp only [DirOrNone, this]
        exact hdn q hq
    obtain ⟨t', h2, hI2, hd2, hf2, hm2, hdn2⟩ := ih t1 hI1 (fun q hq => hL q (by simp [hq])) hdn1
    refine ⟨t', by simp only [List.foldlM_cons, bind, Except.bind, h1, h2], hI2, ?_, ?_, ?_, hdn2⟩
    · intro q hq
      simp only [List.mem_cons] at hq
      rcases hq with rfl | hq
      · have : t1.get q = some .dir := by simpa [IsDir] using hd1 q.length
        simp only [IsDir]
        rw [hm2 q (by rw [this]; simp), this]
      · exact hd2 q hq
    · intro q hq
      rw [hf2 q hq, hout q hq]
    · intro q hq
      rw [hm2 q (by rw [hmono q hq]; exact hq), hmono q hq]

theorem ensureSymlink_spec {t : Tree} (hI : TInv t) {p : Path} (hp : Plain t p) (dest : String)
    (hg : t.get p = none ∨ ∃ d', t.get p = some (.symlink d')) :
    ∃ t', ensureSymlink t p dest = .ok t' ∧ TInv t' ∧
      ∀ q, t'.get q = if q = p then some (.symlink dest) else t.get q := by
  rcases hg with hg | ⟨d', hg⟩
  · have hl := lstat_none hI hp hg
    have hr : readlink t p = .error .enoent := by simp only [readlink, hl, bind, Except.bind]
    refine ⟨t.set p (.symlink dest), ?_, hI.set hp.ne hp.parent (Or.inl (by rw [hg]; simp)),
      get_set _ hp.ne⟩
    simp only [ensureSymlink, hl, bind, Except.bind, hr, symlink_plain hI hp hg]
    rfl
  · have hl := lstat_some hI hp hg
    have hr : readlink t p = .ok d' := by simp only [readlink, hl, bind, Except.bind]
    by_cases hd : d' = dest
    · refine ⟨t, ?_, hI, ?_⟩
      · simp only [ensureSymlink, hl, bind, Except.bind, hr, hd]
        simp
      · intro q
        by_cases hq : q = p
        · rw [if_pos hq, hq, hg, hd]
        · rw [if_neg hq]
    · have hnd : t.get p ≠ some .dir := by rw [hg]; simp
      have hI1 : TInv (t.erase p) :=
        hI.erase hp.ne (dropLast_ne_of_no_under hI (no_under_of_not_dir hI hnd))
      have hp1 : Plain (t.erase p) p := by
        refine ⟨hp.ne, ?_, hp.nodd⟩
        simp only [IsDir]
        rw [get_erase hp.ne, if_neg hp.dropLast_ne]
        exact hp.parent
      have hg1 : (t.erase p).get p = none := by rw [get_erase hp.ne]; simp
      refine ⟨(t.erase p).set p (.symlink dest), ?_,
        hI1.set hp.ne hp1.parent (Or.inl (by rw [hg1]; simp)), ?_⟩
      · simp only [ensureSymlink, hl, bind, Except.bind, hr, remove_nondir hI hp hg (by simp),
          symlink_plain hI1 hp1 hg1]
        simp [hd]
      · intro q
        rw [get_set _ hp.ne, get_erase hp.ne]
        by_cases hq : q = p <;> simp [hq]

theorem ensureSymlinks_spec : ∀ (L : List (Path × String)) (t : Tree), TInv t →
    (L.map (·.1)).Nodup →
    (∀ e ∈ L, Plain t e.1 ∧ (t.get e.1 = none ∨ ∃ d', t.get e.1 = some (.symlink d'))) →
    ∃ t', L.foldlM (fun t (p, d) => ensureSymlink t p d) t = .ok t' ∧ TInv t' ∧
      (∀ e ∈ L, t'.get e.1 = some (.symlink e.2)) ∧
      (∀ q, q ∉ L.map (·.1) → t'.get q = t.get q) := by
  intro L
  induction L with
  | nil =>
    intro t hI _ _
    exact ⟨t, rfl, hI, by simp, fun _ _ => rfl⟩
  | cons e L ih =>
    intro t hI hnd hL
    obtain ⟨p, d⟩ := e
    simp only [List.map_cons, List.nodup_cons] at hnd
    obtain ⟨hp, hg⟩ := hL (p, d) (by simp)
    obtain ⟨t1, h1, hI1, hf1⟩ := ensureSymlink_spec hI hp d hg
    have hnd_p : t.get p ≠ some .dir := by
      rcases hg with hg | ⟨d', hg⟩ <;> rw [hg] <;> simp
    have hL1 : ∀ e ∈ L, Plain t1 e.1 ∧ (t1.get e.1 = none ∨ ∃ d', t1.get e.1 = some (.symlink d')) := by
      intro e he
      obtain ⟨hpe, hge⟩ := hL e (by simp [he])
      have hne : e.1 ≠ p := by
        intro h
        apply hnd.1
        rw [← h]
        exact List.mem_map.mpr ⟨e, he, rfl⟩
      have hne2 : e.1.dropLast ≠ p := by
        intro h
        apply hnd_p
        rw [← h]
        exact hpe.parent
      refine ⟨⟨hpe.ne, ?_, hpe.nodd⟩, ?_⟩
      · simp only [IsDir]
        rw [hf1, if_neg hne2]
        exact hpe.parent
      · rw [hf1, if_neg hne]
        exact hge
    obtain ⟨t', h2, hI2, ha2, hf2⟩ := ih t1 hI1 hnd.2 hL1
    refine ⟨t', by simp only [List.foldlM_cons, bind, Except.bind, h1, h2], hI2, ?_, ?_⟩
    · intro e he
      simp only [List.mem_cons] at he
      rcases he with rfl | he
      · rw [hf2 _ hnd.1, hf1]
        simp
      · exact ha2 e he
    · intro q hq
      simp only [List.map_cons, List.mem_cons, not_or] at hq
      rw [hf2 q hq.2, hf1, if_neg hq.1]

/-! ### kinds -/

inductive Kind where | dir | symlink | file deriving DecidableEq

def kindOf (b : Build) (p : Path) : Option Kind :=
  if p ∈ b.dirs then some .dir else if p ∈ b.symlinks.map (·.1) then some .symlink
  else if p ∈ b.files.map (·.1) then some .file else none

def NKC (old new : Build) : Prop :=
  ∀ p k k', kindOf old p = some k → kindOf new p = some k' → k = k'

theorem kindOf_dir {b : Build} {p : Path} (h : p ∈ b.dirs) : kindOf b p = some .dir := by
  simp [kindOf, h]

theorem kindOf_symlink {b : Build} (hb : BWF b) {p : Path} (h : p ∈ b.symlinks.map (·.1)) :
    kindOf b p = some .symlink := by
  have : p ∉ b.dirs := fun hd => hb.dir_not_symlink hd h
  simp only [kindOf, if_neg this, if_pos h]

theorem kindOf_file {b : Build} (hb : BWF b) {p : Path} (h : p ∈ b.files.map (·.1)) :
    kindOf b p = some .file := by
  have h1 : p ∉ b.dirs := fun hd => hb.dir_not_file hd h
  have h2 : p ∉ b.symlinks.map (·.1) := fun hd => hb.symlink_not_file hd h
  simp only [kindOf, if_neg h1, if_neg h2, if_pos h]

theorem kindOf_of_mem {b : Build} (hb : BWF b) {p : Path} (h : p ∈ pathsOf b) :
    (p ∈ b.dirs ∧ kindOf b p = some .dir) ∨ (p ∈ b.symlinks.map (·.1) ∧ kindOf b p = some .symlink) ∨
      (p ∈ b.files.map (·.1) ∧ kindOf b p = some .file) := by
  rcases mem_pathsOf.mp h with h | h | h
  · exact Or.inl ⟨h, kindOf_dir h⟩
  · exact Or.inr (Or.inl ⟨h, kindOf_symlink hb h⟩)
  · exact Or.inr (Or.inr ⟨h, kindOf_file hb h⟩)

theorem NKC.dir {old new : Build} (hk : NKC old new) (ho : BWF old) {p : Path}
    (hp : p ∈ new.dirs) (hpo : p ∈ pathsOf old) : p ∈ old.dirs := by
  rcases kindOf_of_mem ho hpo with ⟨h, _⟩ | ⟨_, h⟩ | ⟨_, h⟩
  · exact h
  · cases hk p _ _ h (kindOf_dir hp)
  · cases hk p _ _ h (kindOf_dir hp)

theorem NKC.symlink {old new : Build} (hk : NKC old new) (ho : BWF old) (hn : BWF new) {p : Path}
    (hp : p ∈ new.symlinks.map (·.1)) (hpo : p ∈ pathsOf old) : p ∈ old.symlinks.map (·.1) := by
  rcases kindOf_of_mem ho hpo with ⟨_, h⟩ | ⟨h, _⟩ | ⟨_, h⟩
  · cases hk p _ _ h (kindOf_symlink hn hp)
  · exact h
  · cases hk p _ _ h (kindOf_symlink hn hp)

theorem NKC.file {old new : Build} (hk : NKC old new) (ho : BWF old) (hn : BWF new) {p : Path}
    (hp : p ∈ new.files.map (·.1)) (hpo : p ∈ pathsOf old) : p ∈ old.files.map (·.1) := by
  rcases kindOf_of_mem ho hpo with ⟨_, h⟩ | ⟨_, h⟩ | ⟨h, _⟩
  · cases hk p _ _ h (kindOf_file hn hp)
  · cases hk p _ _ h (kindOf_file hn hp)
  · exact h

/-- an old regular file is not a new directory or symlink -/
theorem NKC.old_file {old new : Build} (hk : NKC old new) (ho : BWF old) (hn : BWF new) {p : Path}
    (hp : p ∈ old.files.map (·.1)) : p ∉ new.dirs ∧ p ∉ new.symlinks.map (·.1) := by
  constructor
  · intro h
    cases hk p _ _ (kindOf_file ho hp) (kindOf_dir h)
  · intro h
    cases hk p _ _ (kindOf_file ho hp) (kindOf_symlink hn h)

/-! ### the state after `ensureDirs` -/

/-- `t₁` is `t₀` with the new directories in place.  (Since the repair of finding F27 the new symlinks are put
    in place after the overlays: see `finish_spec`.) -/
structure Ensured (new : Build) (t₀ t₁ : Tree) : Prop where
  inv : TInv t₁
  dirs : ∀ p ∈ new.dirs, t₁.get p = some .dir
  other : ∀ q, q ∉ new.dirs → t₁.get q = t₀.get q

theorem take_mem_dirs {b : Build} (hb : BWF b) {p : Path} (hp : p ∈ b.dirs) {j : Nat} (hj : 0 < j) :
    p.take j ∈ b.dirs := by
  by_cases h : j < p.length
  · exact hb.parents p (mem_pathsOf.mpr (Or.inl hp)) j hj h
  · rw [List.take_of_length_le (by omega)]; exact hp

theorem ensureDirsPhase_spec {old new : Build} (ho : BWF old) (hn : BWF new) (hk : NKC old new) :
    ∃ t₁, new.dirs.foldlM ensureDir (treeOfBuild old) = .ok t₁ ∧ Ensured new (treeOfBuild old) t₁ := by
  have hI0 := tinv_treeOfBuild ho
  have hdn0 : ∀ q, q ∈ new.dirs → DirOrNone (treeOfBuild old) q := by
    intro q hq
    by_cases hqo : q ∈ pathsOf old
    · exact Or.inl (get_dir_treeOfBuild ho (hk.dir ho hq hqo))
    · exact Or.inr (get_none_treeOfBuild (hn.ne (mem_pathsOf.mpr (Or.inl hq))) hqo)
  obtain ⟨td, h1, hId, hdd, hfd, _, _⟩ := ensureDirs_spec (· ∈ new.dirs)
    (fun p hp j hj => take_mem_dirs hn hp hj)
    (fun p hp => hn.nodd (mem_pathsOf.mpr (Or.inl hp))) new.dirs (treeOfBuild old) hI0
    (fun _ h => h) hdn0
  exact ⟨td, h1, hId, hdd, hfd⟩

/-! ### strict prefixes -/

theorem isPrefix_false_nil (p : Path) : isPrefix p [] = false := by
  simp [isPrefix]

theorem isPrefix_trans {p q r : Path} (h1 : isPrefix p q = true) (h2 : isPrefix q r = true) :
    isPrefix p r = true := by
  rw [isPrefix_iff] at *
  refine ⟨by omega, ?_⟩
  have : r.take p.length = (r.take q.length).take p.length := by
    rw [List.take_take, Nat.min_eq_left (by omega)]
  rw [this, h2.2, h1.2]

theorem isPrefix_dropLast_self {q : Path} (hq : q ≠ []) : isPrefix q.dropLast q = true := by
  have : q.length ≠ 0 := fun h0 => hq (List.eq_nil_of_length_eq_zero h0)
  rw [isPrefix_iff]
  refine ⟨by simp; omega, ?_⟩
  rw [List.dropLast_eq_take]
  simp

theorem isPrefix_of_dropLast {p q : Path} (h : isPrefix p q.dropLast = true) : isPrefix p q = true := by
  by_cases hq : q = []
  · subst hq; simp [isPrefix] at h
  · exact isPrefix_trans h (isPrefix_dropLast_self hq)

/-- a strict prefix is the parent or a strict prefix of the parent -/
theorem isPrefix_cases {p q : Path} (h : isPrefix p q = true) :
    p = q.dropLast ∨ isPrefix p q.dropLast = true := by
  rw [isPrefix_iff] at h
  by_cases hl : p.length = q.length - 1
  · left
    rw [List.dropLast_eq_take, ← hl, h.2]
  · right
    rw [isPrefix_iff]
    refine ⟨by simp; omega, ?_⟩
    rw [List.dropLast_eq_take, List.take_take, Nat.min_eq_left (by omega)]
    exact h.2

theorem isPrefix_take {q : Path} {j : Nat} (hj : j < q.length) : isPrefix (q.take j) q = true := by
  rw [isPrefix_iff]
  simp only [List.length_take]
  refine ⟨by omega, ?_⟩
  congr 1
  omega

theorem eq_take_of_isPrefix {p q : Path} (h : isPrefix p q = true) : p = q.take p.length ∧ p.length < q.length := by
  rw [isPrefix_iff] at h
  exact ⟨h.2.symm, h.1⟩

/-- nothing sits below a path that does not hold a directory -/
theorem get_none_under_nondir {t : Tree} (hI : TInv t) {p q : Path} (hnd : t.get p ≠ some .dir)
    (h : isPrefix p q = true) : t.get q = none := by
  cases hg : t.get q with
  | none => rfl
  | some x =>
    exfalso
    have hq : q ≠ [] := by
      intro h0; subst h0; simp [isPrefix] at h
    exact hnd (isDir_of_isPrefix hI (get_mem hq hg) h)


/-! ### erasing a subtree; clearing a destination -/

theorem get_eraseTree {t : Tree} {p : Path} (hp : p ≠ []) (q : Path) :
    (t.eraseTree p).get q = if q = p ∨ isPrefix p q = true then none else t.get q := by
  by_cases hq : q = []
  · subst hq
    have : ¬ (([] : Path) = p ∨ isPrefix p [] = true) := by
      rintro (h | h)
      · exact hp h.symm
      · simp [isPrefix] at h
    rw [if_neg this]
    simp [Tree.get]
  · simp only [Tree.get, if_neg hq, Tree.eraseTree, List.find?_filter]
    by_cases hc : q = p ∨ isPrefix p q = true
    · simp only [if_pos hc, Option.map_eq_none_iff, List.find?_eq_none]
      intro e _
      by_cases h : e.1 = q
      · rcases hc with hc | hc
        · simp [h, hc]
        · simp [h, hc]
      · simp [h]
    · simp only [if_neg hc]
      congr 1
      apply find?_congr'
      intro e _
      by_cases h : e.1 = q
      · have h1 : ¬ q = p := fun h' => hc (Or.inl h')
        have h2 : isPrefix p q = false := by
          cases hh : isPrefix p q with
          | false => rfl
          | true => exact absurd (Or.inr hh) hc
        simp [h, h1, h2]
      · simp [h]

theorem tinv_eraseTree {t : Tree} (hI : TInv t) {p : Path} (hp : p ≠ []) : TInv (t.eraseTree p) := by
  have hmem : ∀ e ∈ (t.eraseTree p).entries, e ∈ t.entries ∧ e.1 ≠ p ∧ isPrefix p e.1 = false := by
    intro e he
    simp only [Tree.eraseTree, List.mem_filter, Bool.and_eq_true, bne_iff_ne, ne_eq, Bool.not_eq_true'] at he
    exact ⟨he.1, he.2.1, he.2.2⟩
  constructor
  · intro e he; exact hI.ne e (hmem e he).1
  · intro e he
    obtain ⟨h1, h2, h3⟩ := hmem e he
    rw [get_eraseTree hp, if_neg]
    · exact hI.get e h1
    · rintro (h | h)
      · exact h2 h
      · rw [h3] at h; cases h
  · intro e he
    obtain ⟨h1, h2, h3⟩ := hmem e he
    simp only [IsDir]
    rw [get_eraseTree hp, if_neg]
    · exact hI.parent e h1
    · rintro (h | h)
      · have := isPrefix_dropLast_self (hI.ne e h1)
        rw [h, h3] at this; cases this
      · have := isPrefix_of_dropLast h
        rw [h3] at this; cases this

theorem removeAll_plain {t : Tree} (hI : TInv t) {p : Path} (h : Plain t p) :
    removeAll t p = .ok (t.eraseTree p) := by
  simp only [removeAll, h.canon hI]

theorem not_isPrefix_dropLast (p : Path) : isPrefix p p.dropLast = false := by
  cases hh : isPrefix p p.dropLast with
  | false => rfl
  | true =>
    have := (isPrefix_iff.mp hh).1
    simp only [List.length_dropLast] at this
    omega

/-- `clearDest` (the first step of `move` and of a staged move) on a plain path, whatever it holds — nothing, a
    regular file, a symlink (`os.Remove`), a directory with all that is below it (`os.RemoveAll`, the repair of
    finding F8 (1)/(2)): afterwards nothing is there nor below, and nothing else has changed -/
theorem clearDest_spec {t : Tree} (hI : TInv t) {p : Path} (hp : Plain t p) :
    ∃ t0, clearDest t p = .ok t0 ∧ TInv t0 ∧
      ∀ q, t0.get q = if q = p ∨ isPrefix p q = true then none else t.get q := by
  cases hg : t.get p with
  | none =>
    refine ⟨t, ?_, hI, ?_⟩
    · simp only [clearDest, lstat_none hI hp hg, remove_none hI hp hg]
      rfl
    · intro q
      split
      · rename_i h
        rcases h with h | h
        · rw [h, hg]
        · exact get_none_under_nondir hI (by rw [hg]; simp) h
      · rfl
  | some n =>
    by_cases hd : n = .dir
    · subst hd
      refine ⟨t.eraseTree p, ?_, tinv_eraseTree hI hp.ne, get_eraseTree hp.ne⟩
      simp only [clearDest, lstat_some hI hp hg, removeAll_plain hI hp]
    · have hnd : t.get p ≠ some .dir := by rw [hg]; simpa using hd
      have hnu := no_under_of_not_dir hI hnd
      refine ⟨t.erase p, ?_, hI.erase hp.ne (dropLast_ne_of_no_under hI hnu), ?_⟩
      · cases n with
        | dir => exact absurd rfl hd
        | file d => simp only [clearDest, lstat_some hI hp hg, remove_nondir hI hp hg hd]
        | symlink d => simp only [clearDest, lstat_some hI hp hg, remove_nondir hI hp hg hd]
      · intro q
        rw [get_erase hp.ne]
        by_cases hq : q = p
        · simp [hq]
        · rw [if_neg hq]
          by_cases hq2 : isPrefix p q = true
          · rw [if_pos (Or.inr hq2)]; exact get_none_under_nondir hI hnd hq2
          · rw [if_neg (by rintro (h | h); exact hq h; exact hq2 h)]

theorem BWF.prefix_mem_dirs {b : Build} (h : BWF b) {p q : Path} (hp : p ∈ pathsOf b) (hq : q ≠ [])
    (hpre : isPrefix q p = true) : q ∈ b.dirs := by
  obtain ⟨h1, h2⟩ := eq_take_of_isPrefix hpre
  rw [h1]
  have : q.length ≠ 0 := fun h0 => hq (List.eq_nil_of_length_eq_zero h0)
  exact h.parents p hp _ (by omega) h2

/-- no path of a build lies below one of its files -/
theorem BWF.not_below_file {b : Build} (h : BWF b) {p : Path} (hp : p ∈ pathsOf b) {f : Path}
    (hf : f ∈ b.files.map (·.1)) : isPrefix f p = false := by
  cases hh : isPrefix f p with
  | false => rfl
  | true =>
    have := h.prefix_mem_dirs hp (h.ne (mem_pathsOf.mpr (Or.inr (Or.inr hf)))) hh
    exact absurd hf (h.dir_not_file this)

/-! ### file-level steps -/

/-- writing into a slot (after the no-op `mkdir -p` of its parent) -/
theorem write_slot {t : Tree} (hI : TInv t) {p : Path} (hs : Slot t p) (d : List Byte) :
    mkdirs t p.dropLast = .ok t ∧ writeFile t p d = .ok (t.set p (.file d)) :=
  ⟨mkdirs_noop hI hs.parent hs.nodd, writeFile_slot hI hs d⟩

def stageStep (new : Build) (t : Tree) (i : Nat) : Except Err Tree :=
  match new.files[i]? with
  | none => .error .einval
  | some (p, data) => do
    let t ← clearDest t p
    let t ← mkdirs t p.dropLast
    writeFile t p data

theorem applyMoves_eq (new : Build) (w : Work) (t : Tree) :
    applyMoves new w t = w.moveFiles.foldlM (stageStep new) t := rfl

/-- a staged move onto a plain path, whatever it holds: what stands there goes (a directory with all that is
    below it), the file takes its place -/
theorem stageStep_specD {new : Build} {t : Tree} (hI : TInv t) {i : Nat} {p : Path} {d : List Byte}
    (hf : new.files[i]? = some (p, d)) (hp : Plain t p) :
    ∃ t', stageStep new t i = .ok t' ∧ TInv t' ∧
      ∀ q, t'.get q = if q = p then some (.file d) else if isPrefix p q = true then none else t.get q := by
  obtain ⟨t0, hr, hI0, hg0⟩ := clearDest_spec hI hp
  have hs0 : Slot t0 p := by
    refine ⟨⟨hp.ne, ?_, hp.nodd⟩, by rw [hg0, if_pos (Or.inl rfl)]; rfl⟩
    simp only [IsDir]
    rw [hg0, if_neg]
    · exact hp.parent
    · rintro (h | h)
      · exact hp.dropLast_ne h
      · rw [not_isPrefix_dropLast] at h; cases h
  obtain ⟨hm, hw⟩ := write_slot hI0 hs0 d
  obtain ⟨h1, _, h3⟩ := set_file_spec hI0 hs0 d
  refine ⟨t0.set p (.file d), ?_, h1, ?_⟩
  · simp only [stageStep, hf, hr, bind, Except.bind, hm, hw]
  · intro q
    rw [h3, hg0]
    by_cases hq : q = p
    · simp [hq]
    · by_cases hq2 : isPrefix p q = true <;> simp [hq, hq2]

theorem stageStep_spec {new : Build} {t : Tree} (hI : TInv t) {i : Nat} {p : Path} {d : List Byte}
    (hf : new.files[i]? = some (p, d)) (hs : Slot t p) :
    ∃ t', stageStep new t i = .ok t' ∧ TInv t' ∧ SameNF t t' ∧
      ∀ q, t'.get q = if q = p then some (.file d) else t.get q := by
  obtain ⟨t', h1, h2, h3⟩ := stageStep_specD hI hf hs.toPlain
  have h3' : ∀ q, t'.get q = if q = p then some (.file d) else t.get q := by
    intro q
    rw [h3]
    by_cases hq : q = p
    · simp [hq]
    · rw [if_neg hq, if_neg hq]
      split
      · rename_i h; exact (get_none_under_nondir hI hs.not_dir h).symm
      · rfl
  refine ⟨t', h1, h2, ?_, h3'⟩
  intro q
  rw [h3']
  by_cases hq : q = p
  · rw [if_pos hq, hq, hs.nofile]; rfl
  · rw [if_neg hq]

/-- indices into `files` with equal paths are equal -/
def FilesInj (b : Build) : Prop :=
  ∀ (i j : Nat) (p : Path) (d : List Byte) (p' : Path) (d' : List Byte), b.files[i]? = some (p, d) → b.files[j]? = some (p', d') → p = p' → i = j

theorem BWF.filesInj {b : Build} (h : BWF b) : FilesInj b := by
  intro i j p d p' d' hi hj hp
  have hnd := h.files_nodup
  obtain ⟨hi1, hi2⟩ := List.getElem?_eq_some_iff.mp hi
  obtain ⟨hj1, hj2⟩ := List.getElem?_eq_some_iff.mp hj
  have h1 : (b.files.map (·.1))[i]'(by simpa using hi1) = p := by simp [hi2]
  have h2 : (b.files.map (·.1))[j]'(by simpa using hj1) = p' := by simp [hj2]
  exact (List.getElem_inj hnd).mp (by rw [h1, h2, hp])

theorem mem_files_of_getElem? {b : Build} {i : Nat} {p : Path} {d : List Byte}
    (h : b.files[i]? = some (p, d)) : (p, d) ∈ b.files := List.mem_of_getElem? h

theorem stageFold_spec {new : Build} (hinj : FilesInj new) : ∀ (L : List Nat) (t : Tree), TInv t →
    L.Nodup → (∀ i ∈ L, ∃ p d, new.files[i]? = some (p, d) ∧ Slot t p) →
    ∃ t', L.foldlM (stageStep new) t = .ok t' ∧ TInv t' ∧ SameNF t t' ∧
      (∀ i ∈ L, ∀ p d, new.files[i]? = some (p, d) → t'.get p = some (.file d)) ∧
      (∀ q, (∀ i ∈ L, ∀ p d, new.files[i]? = some (p, d) → q ≠ p) → t'.get q = t.get q) := by
  intro L
  induction L with
  | nil =>
    intro t hI _ _
    exact ⟨t, rfl, hI, SameNF.refl t, by simp, fun _ _ => rfl⟩
  | cons i L ih =>
    intro t hI hnd hL
    simp only [List.nodup_cons] at hnd
    obtain ⟨p, d, hf, hs⟩ := hL i (by simp)
    obtain ⟨t1, h1, hI1, hnf1, hg1⟩ := stageStep_spec hI hf hs
    obtain ⟨t', h2, hI2, hnf2, ha2, hf2⟩ := ih t1 hI1 hnd.2 (by
      intro j hj
      obtain ⟨p', d', hf', hs'⟩ := hL j (by simp [hj])
      exact ⟨p', d', hf', hs'.sameNF hnf1⟩)
    refine ⟨t', by simp only [List.foldlM_cons, bind, Except.bind, h1, h2], hI2, hnf1.trans hnf2, ?_, ?_⟩
    · intro j hj p' d' hf'
      simp only [List.mem_cons] at hj
      rcases hj with rfl | hj
      · rw [hf] at hf'
        cases hf'
        rw [hf2, hg1, if_pos rfl]
        intro k hk p2 d2 hf2' hpp
        have := hinj _ _ _ _ _ _ hf hf2' hpp
        subst this
        exact hnd.1 hk
      · exact ha2 j hj p' d' hf'
    · intro q hq
      rw [hf2 q (fun j hj => hq j (by simp [hj])), hg1, if_neg (hq i (by simp) p d hf)]

def overlayStep (new : Build) (t : Tree) (i : Nat) : Except Err Tree :=
  match new.files[i]? with
  | none => .error .einval
  | some (p, data) => do
    let _ ← readFile t p
    writeFile t p data

theorem applyOverlays_eq (new : Build) (w : Work) (t : Tree) :
    applyOverlays new w t = w.overlayFiles.foldlM (overlayStep new) t := rfl

theorem overlayStep_spec {new : Build} {t : Tree} (hI : TInv t) {i : Nat} {p : Path} {d d' : List Byte}
    (hf : new.files[i]? = some (p, d)) (hp : Plain t p) (hg : t.get p = some (.file d')) :
    ∃ t', overlayStep new t i = .ok t' ∧ TInv t' ∧ SameNF t t' ∧
      ∀ q, t'.get q = if q = p then some (.file d) else t.get q := by
  have hs : Slot t p := ⟨hp, by rw [hg]; rfl⟩
  obtain ⟨h1, h2, h3⟩ := set_file_spec hI hs d
  refine ⟨t.set p (.file d), ?_, h1, h2, h3⟩
  simp only [overlayStep, hf, readFile_plain hI hp hg, bind, Except.bind, writeFile_slot hI hs d]

theorem overlayFold_spec {new : Build} (hinj : FilesInj new) : ∀ (L : List Nat) (t : Tree), TInv t →
    L.Nodup → (∀ i ∈ L, ∃ p d d', new.files[i]? = some (p, d) ∧ Plain t p ∧ t.get p = some (.file d')) →
    ∃ t', L.foldlM (overlayStep new) t = .ok t' ∧ TInv t' ∧ SameNF t t' ∧
      (∀ i ∈ L, ∀ p d, new.files[i]? = some (p, d) → t'.get p = some (.file d)) ∧
      (∀ q, (∀ i ∈ L, ∀ p d, new.files[i]? = some (p, d) → q ≠ p) → t'.get q = t.get q) := by
  intro L
  induction L with
  | nil =>
    intro t hI _ _
    exact ⟨t, rfl, hI, SameNF.refl t, by simp, fun _ _ => rfl⟩
  | cons i L ih =>
    intro t hI hnd hL
    simp only [List.nodup_cons] at hnd
    obtain ⟨p, d, d', hf, hp, hg⟩ := hL i (by simp)
    obtain ⟨t1, h1, hI1, hnf1, hg1⟩ := overlayStep_spec hI hf hp hg
    obtain ⟨t', h2, hI2, hnf2, ha2, hf2⟩ := ih t1 hI1 hnd.2 (by
      intro j hj
      obtain ⟨p', d1, d2, hf', hp', hg'⟩ := hL j (by simp [hj])
      have hne : p' ≠ p := by
        intro hpp
        have := hinj _ _ _ _ _ _ hf' hf hpp
        subst this
        exact hnd.1 hj
      exact ⟨p', d1, d2, hf', hp'.sameNF hnf1, by rw [hg1, if_neg hne]; exact hg'⟩)
    refine ⟨t', by simp only [List.foldlM_cons, bind, Except.bind, h1, h2], hI2, hnf1.trans hnf2, ?_, ?_⟩
    · intro j hj p' d3 hf'
      simp only [List.mem_cons] at hj
      rcases hj with rfl | hj
      · rw [hf] at hf'
        cases hf'
        rw [hf2, hg1, if_pos rfl]
        intro k hk p2 d2 hf2' hpp
        have := hinj _ _ _ _ _ _ hf hf2' hpp
        subst this
        exact hnd.1 hk
      · exact ha2 j hj p' d3 hf'
    · intro q hq
      rw [hf2 q (fun j hj => hq j (by simp [hj])), hg1, if_neg (hq i (by simp) p d hf)]


/-! ### ghost deletion -/

/-- the files and symlinks of the new build: a ghost strictly below one of them is skipped (`isBelowAny`) -/
def leavesOf (new : Build) : List Path := new.files.map (·.1) ++ new.symlinks.map (·.1)

def ghostStep (leaves : List Path) (t : Tree) (x : Path × Bool) : Except Err Tree :=
  if leaves.any (fun l => isPrefix l x.1) then .ok t else
  match lstat t x.1 with
  | .error _ => .ok t
  | .ok _ =>
    match remove t x.1 with
    | .ok t' => .ok t'
    | .error e => if e == .enoent ∨ x.2 then .ok t else .error e

def ghostList (old new : Build) : List (Path × Bool) :=
  let newPaths := new.files.map (·.1) ++ new.symlinks.map (·.1) ++ new.dirs
  (old.files.filterMap fun (p, _) => if newPaths.contains p then none else some (p, false)) ++
  (old.symlinks.filterMap fun (p, _) => if newPaths.contains p then none else some (p, false)) ++
  (old.dirs.filterMap fun p => if newPaths.contains p then none else some (p, true))

def joinLen (p : Path) : Nat := (String.intercalate "/" p).length

theorem deleteGhosts_eq (old new : Build) (t : Tree) :
    deleteGhosts old new t =
      ((ghostList old new).mergeSort (fun a b => joinLen a.1 ≥ joinLen b.1)).foldlM
        (ghostStep (leavesOf new)) t := rfl

theorem joinLen_lt {p q : Path} (hp : p ≠ []) (h : isPrefix p q = true) : joinLen p < joinLen q := by
  rw [isPrefix_iff] at h
  have hq : q = p ++ q.drop p.length := by
    conv => lhs; rw [← List.take_append_drop p.length q]
    rw [h.2]
  have hm : q.drop p.length ≠ [] := by
    intro h0
    have := congrArg List.length h0
    simp at this
    omega
  rw [hq]
  simp only [joinLen, String.intercalate_append_of_ne_nil hp hm, String.length_append]
  have : ("/" : String).length = 1 := by decide
  omega

/-- Ghost deletion over a list sorted by decreasing joined length.  A ghost below a leaf (a file or a symlink of
    the new build) is skipped: it must hold nothing.  Every other ghost sits below directories. -/
theorem ghostFold_spec (leaves : List Path) : ∀ (L : List (Path × Bool)) (t : Tree), TInv t →
    L.Pairwise (fun a b => joinLen a.1 ≥ joinLen b.1) →
    (∀ x ∈ L, leaves.any (fun l => isPrefix l x.1) = true → t.get x.1 = none) →
    (∀ x ∈ L, leaves.any (fun l => isPrefix l x.1) = false →
      x.1 ≠ [] ∧ ".." ∉ x.1 ∧ ∀ j, j < x.1.length → IsDir t (x.1.take j)) →
    (∀ x ∈ L, x.2 = false → t.get x.1 ≠ some .dir) →
    (∀ x ∈ L, ∀ e ∈ t.entries, isPrefix x.1 e.1 = true → e.1 ∈ L.map (·.1)) →
    ∃ t', L.foldlM (ghostStep leaves) t = .ok t' ∧ TInv t' ∧
      ∀ q, t'.get q = if q ∈ L.map (·.1) then none else t.get q := by
  intro L
  induction L with
  | nil =>
    intro t hI _ _ _ _ _
    exact ⟨t, rfl, hI, by simp⟩
  | cons x L ih =>
    intro t hI hpw hS hL hnd hun
    obtain ⟨p, b⟩ := x
    simp only [List.pairwise_cons] at hpw
    -- the first step: `t1` is `t` without `p`
    have step : ∃ t1, ghostStep leaves t (p, b) = .ok t1 ∧ TInv t1 ∧
        (∀ q, t1.get q = if q = p then none else t.get q) ∧ (∀ e ∈ t1.entries, e ∈ t.entries ∧ e.1 ≠ p) ∧
        (∀ y ∈ L, ∀ j, j < y.1.length → IsDir t (y.1.take j) → IsDir t1 (y.1.take j)) := by
      cases hsk : leaves.any (fun l => isPrefix l p) with
      | false =>
        obtain ⟨hne, hdd, hpre⟩ := hL (p, b) (by simp) hsk
        simp only at hne hdd hpre
        have hplain : Plain t p := by
          refine ⟨hne, ?_, fun h => hdd (mem_of_mem_dropLast h)⟩
          rw [List.dropLast_eq_take]
          apply hpre
          have : p.length ≠ 0 := fun h0 => hne (List.eq_nil_of_length_eq_zero h0)
          omega
        have hnotpre : ∀ y ∈ L, ∀ j, j < y.1.length → y.1.take j ≠ p := by
          intro y hy j hj hpj
          have hpe : isPrefix p y.1 = true := by
            rw [isPrefix_iff, ← hpj]
            simp only [List.length_take]
            refine ⟨by omega, ?_⟩
            congr 1
            omega
          have h1 := hpw.1 y hy
          have h2 := joinLen_lt hne hpe
          omega
        cases hg : t.get p with
        | none =>
          refine ⟨t, by simp only [ghostStep, hsk, lstat_none hI hplain hg]; rfl, hI, ?_, ?_,
            fun _ _ _ _ h => h⟩
          · intro q
            by_cases hq : q = p
            · rw [if_pos hq, hq, hg]
            · rw [if_neg hq]
          · intro e he
            exact ⟨he, absent_of_get_none hI hg e he⟩
        | some n =>
          have hnu : ∀ e ∈ t.entries, isPrefix p e.1 = false := by
            by_cases hd : n = .dir
            · intro e he
              cases hpe : isPrefix p e.1 with
              | false => rfl
              | true =>
                exfalso
                have hm := hun (p, b) (by simp) e he hpe
                simp only [List.map_cons, List.mem_cons] at hm
                rcases hm with hm | hm
                · rw [isPrefix_iff] at hpe
                  rw [hm] at hpe
                  omega
                · obtain ⟨y, hy, hy1⟩ := List.mem_map.mp hm
                  have h1 := hpw.1 y hy
                  have h2 := joinLen_lt hne hpe
                  rw [← hy1] at h2
                  omega
            · apply no_under_of_not_dir hI
              rw [hg]
              simpa using hd
          have hrm : remove t p = .ok (t.erase p) := by
            by_cases hd : n = .dir
            · subst hd
              exact remove_emptydir hI hplain hg hnu
            · exact remove_nondir hI hplain hg hd
          refine ⟨t.erase p, by simp only [ghostStep, hsk, lstat_some hI hplain hg, hrm]; rfl,
            hI.erase hne (dropLast_ne_of_no_under hI hnu), get_erase hne, ?_, ?_⟩
          · intro e he
            simp only [Tree.erase, List.mem_filter] at he
            exact ⟨he.1, by simpa using he.2⟩
          · intro y hy j hj hd
            simp only [IsDir]
            rw [get_erase hne, if_neg (hnotpre y hy j hj)]
            exact hd
      | true =>
        -- a ghost below a new file or symlink: skipped; nothing is there
        have hdn : t.get p = none := hS (p, b) (by simp) hsk
        refine ⟨t, by simp only [ghostStep, hsk]; rfl, hI, ?_, ?_, fun _ _ _ _ h => h⟩
        · intro q
          by_cases hq : q = p
          · rw [if_pos hq, hq, hdn]
          · rw [if_neg hq]
        · intro e' he'
          exact ⟨he', absent_of_get_none hI hdn e' he'⟩
    obtain ⟨t1, h1, hI1, hg1, he1, hd1⟩ := step
    obtain ⟨t', h2, hI2, hg2⟩ := ih t1 hI1 hpw.2 (by
      intro y hy hsk
      rw [hg1]
      by_cases hq : y.1 = p
      · rw [if_pos hq]
      · rw [if_neg hq]; exact hS y (by simp [hy]) hsk) (by
      intro y hy hsk
      obtain ⟨a1, a2, a3⟩ := hL y (by simp [hy]) hsk
      exact ⟨a1, a2, fun j hj => hd1 y hy j hj (a3 j hj)⟩) (by
      intro y hy hb
      rw [hg1]
      by_cases hq : y.1 = p
      · rw [if_pos hq]; simp
      · rw [if_neg hq]; exact hnd y (by simp [hy]) hb) (by
      intro y hy e he hpe
      obtain ⟨he', hep⟩ := he1 e he
      have := hun y (by simp [hy]) e he' hpe
      simp only [List.map_cons, List.mem_cons] at this
      rcases this with h | h
      · exact absurd h hep
      · exact h)
    refine ⟨t', by simp only [List.foldlM_cons, bind, Except.bind, h1, h2], hI2, ?_⟩
    intro q
    rw [hg2, hg1]
    simp only [List.map_cons, List.mem_cons]
    by_cases hq1 : q ∈ L.map (·.1)
    · simp [hq1]
    · by_cases hq2 : q = p
      · simp [hq2]
      · simp [hq1, hq2]


theorem mem_newPaths {new : Build} {p : Path} :
    ((p ∈ new.files.map (·.1) ∨ p ∈ new.symlinks.map (·.1)) ∨ p ∈ new.dirs) ↔ p ∈ pathsOf new := by
  simp only [pathsOf, List.mem_append]
  constructor
  · rintro ((h | h) | h) <;> simp [h]
  · rintro ((h | h) | h) <;> simp [h]

theorem mem_ghostList {old new : Build} {x : Path × Bool} :
    x ∈ ghostList old new ↔
      x.1 ∉ pathsOf new ∧
        ((x.1 ∈ old.files.map (·.1) ∧ x.2 = false) ∨ (x.1 ∈ old.symlinks.map (·.1) ∧ x.2 = false) ∨
          (x.1 ∈ old.dirs ∧ x.2 = true)) := by
  obtain ⟨p, b⟩ := x
  simp only [ghostList, List.mem_append, List.mem_filterMap, List.contains_iff_mem, mem_newPaths]
  constructor
  · rintro ((⟨a, ha, h⟩ | ⟨a, ha, h⟩) | ⟨a, ha, h⟩)
    · split at h
      · cases h
      · rename_i hc
        cases h
        exact ⟨hc, Or.inl ⟨List.mem_map.mpr ⟨a, ha, rfl⟩, rfl⟩⟩
    · split at h
      · cases h
      · rename_i hc
        cases h
        exact ⟨hc, Or.inr (Or.inl ⟨List.mem_map.mpr ⟨a, ha, rfl⟩, rfl⟩)⟩
    · split at h
      · cases h
      · rename_i hc
        cases h
        exact ⟨hc, Or.inr (Or.inr ⟨ha, rfl⟩)⟩
  · rintro ⟨hn, (⟨ha, hb⟩ | ⟨ha, hb⟩ | ⟨ha, hb⟩)⟩
    · obtain ⟨a, ha', rfl⟩ := List.mem_map.mp ha
      subst hb
      exact Or.inl (Or.inl ⟨a, ha', by rw [if_neg hn]⟩)
    · obtain ⟨a, ha', rfl⟩ := List.mem_map.mp ha
      subst hb
      exact Or.inl (Or.inr ⟨a, ha', by rw [if_neg hn]⟩)
    · subst hb
      exact Or.inr ⟨p, ha, by rw [if_neg hn]⟩


/-- what ghost deletion needs of the tree it starts from -/
structure PreGhost (old new : Build) (t : Tree) : Prop where
  inv : TInv t
  newOK : ∀ p ∈ pathsOf new, t.get p = (treeOfBuild new).get p
  stray : ∀ q, q ≠ [] → q ∉ pathsOf new → q ∉ pathsOf old → t.get q = none
  /-- a ghost that is not skipped (it is not below a file or a symlink of the new build) sits below directories -/
  ghosts : ∀ q ∈ pathsOf old, q ∉ pathsOf new → (leavesOf new).any (fun l => isPrefix l q) = false →
    ∀ j, j < q.length → IsDir t (q.take j)
  nonDirs : ∀ q ∈ pathsOf old, q ∉ pathsOf new → q ∉ old.dirs → t.get q ≠ some .dir

theorem mem_ghost_paths {old new : Build} {q : Path} :
    q ∈ (ghostList old new).map (·.1) ↔ q ∈ pathsOf old ∧ q ∉ pathsOf new := by
  constructor
  · intro hq
    obtain ⟨x, hx, rfl⟩ := List.mem_map.mp hq
    obtain ⟨hn, h⟩ := mem_ghostList.mp hx
    refine ⟨mem_pathsOf.mpr ?_, hn⟩
    rcases h with ⟨h, _⟩ | ⟨h, _⟩ | ⟨h, _⟩
    · exact Or.inr (Or.inr h)
    · exact Or.inr (Or.inl h)
    · exact Or.inl h
  · rintro ⟨ho, hn⟩
    rcases mem_pathsOf.mp ho with h | h | h
    · exact List.mem_map.mpr ⟨(q, true), mem_ghostList.mpr ⟨hn, Or.inr (Or.inr ⟨h, rfl⟩)⟩, rfl⟩
    · exact List.mem_map.mpr ⟨(q, false), mem_ghostList.mpr ⟨hn, Or.inr (Or.inl ⟨h, rfl⟩)⟩, rfl⟩
    · exact List.mem_map.mpr ⟨(q, false), mem_ghostList.mpr ⟨hn, Or.inl ⟨h, rfl⟩⟩, rfl⟩

theorem deleteGhosts_spec {old new : Build} (ho : BWF old) (hn : BWF new) {t : Tree}
    (h : PreGhost old new t) :
    ∃ t', deleteGhosts old new t = .ok t' ∧ TInv t' ∧ ∀ p, t'.get p = (treeOfBuild new).get p := by
  rw [deleteGhosts_eq]
  have hmemS : ∀ x, x ∈ (ghostList old new).mergeSort (fun a b => joinLen a.1 ≥ joinLen b.1) ↔
      x ∈ ghostList old new := fun x => List.mem_mergeSort
  have hmemP : ∀ q, q ∈ ((ghostList old new).mergeSort (fun a b => joinLen a.1 ≥ joinLen b.1)).map (·.1) ↔
      q ∈ pathsOf old ∧ q ∉ pathsOf new := by
    intro q
    rw [← mem_ghost_paths]
    simp only [List.mem_map, hmemS]
  have hold_of : ∀ x, x ∈ ghostList old new → x.1 ∈ pathsOf old ∧ x.1 ∉ pathsOf new := by
    intro x hx
    exact mem_ghost_paths.mp (List.mem_map.mpr ⟨x, hx, rfl⟩)
  obtain ⟨t', h1, h2, h3⟩ := ghostFold_spec (leavesOf new) _ t h.inv
    (by
      have := List.pairwise_mergeSort (le := fun (a b : Path × Bool) => decide (joinLen a.1 ≥ joinLen b.1))
        (by intro a b c hab hbc; simp only [decide_eq_true_eq] at *; omega)
        (by intro a b; simp only [Bool.or_eq_true, decide_eq_true_eq]; omega) (ghostList old new)
      exact this.imp (by intro a b hab; simpa using hab))
    (by
      -- a skipped ghost lies below a new file or symlink, which is in place: nothing is below it
      intro x _ hsk
      obtain ⟨l, hl, hpre⟩ := List.any_eq_true.mp hsk
      simp only [leavesOf, List.mem_append] at hl
      have hlp : l ∈ pathsOf new := mem_pathsOf.mpr (hl.elim (fun h => Or.inr (Or.inr h)) (fun h => Or.inr (Or.inl h)))
      apply get_none_under_nondir h.inv _ hpre
      rw [h.newOK l hlp]
      rcases hl with hl | hl
      · obtain ⟨e, he1, he2⟩ := List.mem_map.mp hl
        rw [← he2, get_file_treeOfBuild hn (p := e.1) (d := e.2) he1]
        simp
      · obtain ⟨e, he1, he2⟩ := List.mem_map.mp hl
        rw [← he2, get_symlink_treeOfBuild hn (p := e.1) (d := e.2) he1]
        simp)
    (by
      intro x hx hsk
      obtain ⟨hxo, hxn⟩ := hold_of x ((hmemS x).mp hx)
      exact ⟨ho.ne hxo, ho.nodd hxo, h.ghosts x.1 hxo hxn hsk⟩)
    (by
      intro x hx hb
      have hx' := (hmemS x).mp hx
      obtain ⟨hxo, hxn⟩ := hold_of x hx'
      apply h.nonDirs _ hxo hxn
      intro hd
      rcases (mem_ghostList.mp hx').2 with ⟨hf, _⟩ | ⟨hf, _⟩ | ⟨_, hb'⟩
      · exact ho.dir_not_file hd hf
      · exact ho.dir_not_symlink hd hf
      · rw [hb] at hb'; cases hb')
    (by
      intro x hx e he hpe
      obtain ⟨hxo, hxn⟩ := hold_of x ((hmemS x).mp hx)
      rw [hmemP]
      have hge := h.inv.get e he
      have hene := h.inv.ne e he
      have hpe' := isPrefix_iff.mp hpe
      have hxlen : 0 < x.1.length := by
        have := ho.ne hxo
        cases hx1 : x.1 with
        | nil => exact absurd hx1 this
        | cons _ _ => simp
      have hen : e.1 ∉ pathsOf new := by
        intro hen
        apply hxn
        have := hn.parents _ hen x.1.length hxlen hpe'.1
        rw [hpe'.2] at this
        exact mem_pathsOf.mpr (Or.inl this)
      refine ⟨?_, hen⟩
      apply Classical.byContradiction
      intro heo
      have := h.stray e.1 hene hen heo
      rw [hge] at this
      cases this)
  refine ⟨t', h1, h2, ?_⟩
  intro p
  rw [h3]
  by_cases hp0 : p = []
  · subst hp0
    have : ([] : Path) ∉ pathsOf old := fun hm => ho.ne hm rfl
    simp [hmemP, this, get_nil]
  · by_cases hpn : p ∈ pathsOf new
    · rw [if_neg (by rw [hmemP]; exact fun hx => hx.2 hpn)]
      exact h.newOK p hpn
    · rw [get_none_treeOfBuild hp0 hpn]
      by_cases hpo : p ∈ pathsOf old
      · rw [if_pos ((hmemP p).mpr ⟨hpo, hpn⟩)]
      · rw [if_neg (by rw [hmemP]; exact fun hx => hpo hx.1)]
        exact h.stray p hp0 hpn hpo


/-! ### putting the phases after the transpositions together -/

structure WOK (old new : Build) (w : Work) : Prop where
  cover : ∀ i, i < new.files.length → i ∈ w.transpositions.map (·.1) ∨ i ∈ w.overlayFiles ∨ i ∈ w.moveFiles
  excl₁ : ∀ i, i ∈ w.transpositions.map (·.1) → i ∉ w.overlayFiles ∧ i ∉ w.moveFiles
  excl₂ : ∀ i, i ∈ w.overlayFiles → i ∉ w.moveFiles
  nodupT : (w.transpositions.map (·.1)).Nodup
  nodupO : w.overlayFiles.Nodup
  nodupM : w.moveFiles.Nodup
  transp : ∀ st ∈ w.transpositions, ∃ np op d, new.files[st.1]? = some (np, d) ∧ old.files[st.2]? = some (op, d)
  overlay : ∀ i ∈ w.overlayFiles, ∃ p d, new.files[i]? = some (p, d) ∧ p ∈ old.files.map (·.1)
  move : ∀ i ∈ w.moveFiles, ∃ p d, new.files[i]? = some (p, d) ∧ p ∉ old.files.map (·.1)

theorem nf_eq_symlink {x : Option Node} {d : String} :
    nf x = some (.symlink d) ↔ x = some (.symlink d) := by
  cases x with
  | none => simp
  | some n => cases n <;> simp [nf]

theorem Ensured.plain_of_new {old new : Build} (hn : BWF new) {t₁ : Tree}
    (he : Ensured new (treeOfBuild old) t₁) {p : Path} (hp : p ∈ pathsOf new) : Plain t₁ p := by
  refine ⟨hn.ne hp, ?_, fun h => hn.nodd hp (mem_of_mem_dropLast h)⟩
  rcases hn.parent_mem hp with h0 | h0
  · rw [h0]; exact isDir_nil _
  · exact he.dirs _ h0

/-- every new file path is a slot once the directories are in place -/
theorem Ensured.slot_of_newfile {old new : Build} (ho : BWF old) (hn : BWF new) (hk : NKC old new)
    {t₁ : Tree} (he : Ensured new (treeOfBuild old) t₁) {p : Path} (hp : p ∈ new.files.map (·.1)) :
    Slot t₁ p := by
  have hpn : p ∈ pathsOf new := mem_pathsOf.mpr (Or.inr (Or.inr hp))
  refine ⟨he.plain_of_new hn hpn, ?_⟩
  rw [he.other p (fun h => hn.dir_not_file h hp)]
  by_cases hpo : p ∈ pathsOf old
  · obtain ⟨e, he1, he2⟩ := List.mem_map.mp (hk.file ho hn hp hpo)
    rw [← he2, get_file_treeOfBuild ho (p := e.1) (d := e.2) he1]
    rfl
  · rw [get_none_treeOfBuild (hn.ne hpn) hpo]
    rfl

/-- the tree after the transposition phase, relative to the tree `t₁` after `ensureDirs` -/
structure Transposed (old new : Build) (w : Work) (t₁ t₂ : Tree) : Prop where
  inv : TInv t₂
  same : SameNF t₁ t₂
  outputs : ∀ st ∈ w.transpositions, ∀ p d, new.files[st.1]? = some (p, d) → t₂.get p = some (.file d)
  overlays : ∀ i ∈ w.overlayFiles, ∀ p d, new.files[i]? = some (p, d) → ∃ d', t₂.get p = some (.file d')
  frame : ∀ q, q ∉ old.files.map (·.1) → q ∉ new.files.map (·.1) → t₂.get q = t₁.get q

theorem finish_spec {old new : Build} {w : Work} (ho : BWF old) (hn : BWF new) (hk : NKC old new)
    (hw : WOK old new w) {t₁ t₂ : Tree} (he : Ensured new (treeOfBuild old) t₁)
    (ht : Transposed old new w t₁ t₂) :
    ∃ t₃ t₄ t₅ t₆, applyMoves new w t₂ = .ok t₃ ∧ applyOverlays new w t₃ = .ok t₄ ∧
      new.symlinks.foldlM (fun t (p, d) => ensureSymlink t p d) t₄ = .ok t₅ ∧
      deleteGhosts old new t₅ = .ok t₆ ∧ TInv t₆ ∧ ∀ p, t₆.get p = (treeOfBuild new).get p := by
  have hinj := hn.filesInj
  -- staged moves
  obtain ⟨t₃, h3, hI3, hnf3, ha3, hf3⟩ := stageFold_spec hinj w.moveFiles t₂ ht.inv hw.nodupM (by
    intro i hi
    obtain ⟨p, d, hf, _⟩ := hw.move i hi
    have hp : p ∈ new.files.map (·.1) := List.mem_map.mpr ⟨_, mem_files_of_getElem? hf, rfl⟩
    exact ⟨p, d, hf, (he.slot_of_newfile ho hn hk hp).sameNF ht.same⟩)
  -- overlays
  obtain ⟨t₄, h4, hI4, hnf4, ha4, hf4⟩ := overlayFold_spec hinj w.overlayFiles t₃ hI3 hw.nodupO (by
    intro i hi
    obtain ⟨p, d, hf, _⟩ := hw.overlay i hi
    have hp : p ∈ new.files.map (·.1) := List.mem_map.mpr ⟨_, mem_files_of_getElem? hf, rfl⟩
    obtain ⟨d', hd'⟩ := ht.overlays i hi p d hf
    refine ⟨p, d, d', hf, ((he.slot_of_newfile ho hn hk hp).toPlain.sameNF ht.same).sameNF hnf3, ?_⟩
    rw [hf3 p, hd']
    intro j hj p' d'' hf' hpp
    have := hinj _ _ _ _ _ _ hf hf' hpp
    subst this
    exact hw.excl₂ i hi hj)
  have hnf14 : SameNF t₁ t₄ := (ht.same.trans hnf3).trans hnf4
  -- outside the regular files of the two builds `t₄` is `t₁`
  have h14 : ∀ q, q ∉ old.files.map (·.1) → q ∉ new.files.map (·.1) → t₄.get q = t₁.get q := by
    intro q hqo hqf
    have hnotfile : ∀ (i : Nat) (p : Path) (d : List Byte), new.files[i]? = some (p, d) → q ≠ p := by
      intro i p d hf hqp
      apply hqf
      rw [hqp]
      exact List.mem_map.mpr ⟨_, mem_files_of_getElem? hf, rfl⟩
    rw [hf4 q (fun i _ p d hf => hnotfile i p d hf), hf3 q (fun i _ p d hf => hnotfile i p d hf),
      ht.frame q hqo hqf]
  -- the new files are in place
  have hfiles4 : ∀ e ∈ new.files, t₄.get e.1 = some (.file e.2) := by
    intro e he1
    obtain ⟨i, hi, hie⟩ := List.mem_iff_getElem.mp he1
    have hfi : new.files[i]? = some (e.1, e.2) := by
      rw [List.getElem?_eq_getElem hi, hie]
    rcases hw.cover i hi with hc | hc | hc
    · -- output of a transposition
      obtain ⟨st, hst, hsti⟩ := List.mem_map.mp hc
      have h2 := ht.outputs st hst e.1 e.2 (by rw [hsti]; exact hfi)
      have hx := hw.excl₁ i hc
      rw [hf4, hf3, h2]
      · intro j hj p' d' hf' hpp
        have := hinj _ _ _ _ _ _ hfi hf' hpp
        subst this
        exact hx.2 hj
      · intro j hj p' d' hf' hpp
        have := hinj _ _ _ _ _ _ hfi hf' hpp
        subst this
        exact hx.1 hj
    · exact ha4 i hc e.1 e.2 hfi
    · rw [hf4, ha3 i hc e.1 e.2 hfi]
      intro j hj p' d' hf' hpp
      have := hinj _ _ _ _ _ _ hfi hf' hpp
      subst this
      exact hw.excl₂ i hj hc
  -- the new symlinks: each of them finds nothing or the old symlink at its path (`NKC`)
  obtain ⟨t₅, h5, hI5, hs5, hf5⟩ := ensureSymlinks_spec new.symlinks t₄ hI4 hn.symlinks_nodup (by
    intro e he'
    have hes : e.1 ∈ new.symlinks.map (·.1) := List.mem_map.mpr ⟨e, he', rfl⟩
    have hep : e.1 ∈ pathsOf new := mem_pathsOf.mpr (Or.inr (Or.inl hes))
    refine ⟨(he.plain_of_new hn hep).sameNF hnf14, ?_⟩
    have hnd : e.1 ∉ new.dirs := fun h => hn.dir_not_symlink h hes
    have hnf : e.1 ∉ new.files.map (·.1) := hn.symlink_not_file hes
    have hof : e.1 ∉ old.files.map (·.1) := fun h => (hk.old_file ho hn h).2 hes
    rw [h14 _ hof hnf, he.other _ hnd]
    by_cases hqo : e.1 ∈ pathsOf old
    · obtain ⟨e', he'1, he'2⟩ := List.mem_map.mp (hk.symlink ho hn hes hqo)
      right
      refine ⟨e'.2, ?_⟩
      rw [← he'2]
      exact get_symlink_treeOfBuild ho he'1
    · exact Or.inl (get_none_treeOfBuild (hn.ne hep) hqo))
  have h45 : ∀ q, q ∉ pathsOf new → t₅.get q = t₄.get q :=
    fun q hq => hf5 q (fun h => hq (mem_pathsOf.mpr (Or.inr (Or.inl h))))
  have hpre : PreGhost old new t₅ := by
    refine ⟨hI5, ?_, ?_, ?_, ?_⟩
    · intro p hp
      rcases mem_pathsOf.mp hp with hd | hs | hf
      · rw [get_dir_treeOfBuild hn hd, hf5 p (hn.dir_not_symlink hd)]
        have := hnf14 p
        rw [he.dirs p hd] at this
        exact nf_eq_dir.mp this
      · obtain ⟨e, he1, he2⟩ := List.mem_map.mp hs
        rw [← he2, get_symlink_treeOfBuild hn (p := e.1) (d := e.2) he1]
        exact hs5 e he1
      · obtain ⟨e, he1, he2⟩ := List.mem_map.mp hf
        rw [hf5 p (fun h => hn.symlink_not_file h hf), ← he2,
          get_file_treeOfBuild hn (p := e.1) (d := e.2) he1]
        exact hfiles4 e he1
    · intro q hq0 hqn hqo
      rw [h45 q hqn, h14 q (fun h => hqo (mem_pathsOf.mpr (Or.inr (Or.inr h))))
          (fun h => hqn (mem_pathsOf.mpr (Or.inr (Or.inr h)))),
        he.other q (fun h => hqn (mem_pathsOf.mpr (Or.inl h)))]
      exact get_none_treeOfBuild hq0 hqo
    · intro q0 hq0o _ _
      intro j hj
      by_cases hj0 : j = 0
      · subst hj0; simpa using isDir_nil t₅
      have hq : q0.take j ∈ old.dirs := ho.parents _ hq0o j (by omega) hj
      generalize q0.take j = q at hq
      have hqo : q ∈ pathsOf old := mem_pathsOf.mpr (Or.inl hq)
      have hqs : q ∉ new.symlinks.map (·.1) := fun hs =>
        ho.dir_not_symlink hq (hk.symlink ho hn hs hqo)
      have h1 : t₁.get q = some .dir := by
        by_cases hqn : q ∈ new.dirs
        · exact he.dirs q hqn
        · rw [he.other q hqn]
          exact get_dir_treeOfBuild ho hq
      have := hnf14 q
      rw [h1] at this
      simp only [IsDir]
      rw [hf5 q hqs]
      exact nf_eq_dir.mp this
    · intro q hqo hqn hqd hd5
      rw [h45 q hqn] at hd5
      have h1 : t₁.get q = some .dir := by
        have := hnf14 q
        rw [hd5] at this
        exact nf_eq_dir.mp this.symm
      rw [he.other q (fun h => hqn (mem_pathsOf.mpr (Or.inl h)))] at h1
      rcases mem_pathsOf.mp hqo with h | h | h
      · exact hqd h
      · obtain ⟨e, he1, he2⟩ := List.mem_map.mp h
        rw [← he2, get_symlink_treeOfBuild ho (p := e.1) (d := e.2) he1] at h1
        cases h1
      · obtain ⟨e, he1, he2⟩ := List.mem_map.mp h
        rw [← he2, get_file_treeOfBuild ho (p := e.1) (d := e.2) he1] at h1
        cases h1
  obtain ⟨t₆, h6, hI6, hg6⟩ := deleteGhosts_spec ho hn hpre
  exact ⟨t₃, t₄, t₅, t₆, by rw [applyMoves_eq]; exact h3, by rw [applyOverlays_eq]; exact h4, h5, h6,
    hI6, hg6⟩


/-! ### `moveSourcesAside` when no transposition source becomes a directory: nothing moves -/

theorem asideOf_nil (p : Path) : asideOf [] p = p := rfl

theorem map_asideOf_nil (l : List Path) : l.map (asideOf []) = l := by
  induction l with
  | nil => rfl
  | cons a l ih => rw [List.map_cons, ih, asideOf_nil]

/-- the body of the loop of `moveSourcesAside` -/
def asideStep (old new : Build) (st : Tree × List (Path × Path) × Nat) (x : Nat × Nat) :
    Except Err (Tree × List (Path × Path) × Nat) :=
  match old.files[x.2]? with
  | none => .error .einval
  | some (op, _) =>
    if !new.dirs.contains op || st.2.1.any (·.1 == op) then .ok st
    else
      let seed := nextFreeAside (pathsInUse old new) op ((pathsInUse old new).length + 1) (st.2.2 + 1)
      match moveFile st.1 op (asideName op seed) with
      | .ok t' => .ok (t', st.2.1 ++ [(op, asideName op seed)], seed)
      | .error e => .error e

theorem moveSourcesAside_eq (old new : Build) (w : Work) (t : Tree) :
    moveSourcesAside old new w t =
      (do let r ← w.transpositions.foldlM (asideStep old new) (t, [], 0)
          pure (r.1, r.2.1)) := rfl

/-- if no transposition source is a directory of the new build, `moveSourcesAside` does nothing: the map is empty
    and `commit` is what it was before the repair of finding F8 (3) -/
theorem moveSourcesAside_nil_of_sources {old new : Build} {w : Work}
    (h : ∀ st ∈ w.transpositions, ∃ op d, old.files[st.2]? = some (op, d) ∧ op ∉ new.dirs) (t : Tree) :
    moveSourcesAside old new w t = .ok (t, []) := by
  have key : ∀ (L : List (Nat × Nat)) (seed : Nat),
      (∀ st ∈ L, ∃ op d, old.files[st.2]? = some (op, d) ∧ op ∉ new.dirs) →
      L.foldlM (asideStep old new) (t, [], seed) = .ok (t, [], seed) := by
    intro L
    induction L with
    | nil => intro seed _; rfl
    | cons x L ih =>
      intro seed hL
      obtain ⟨op, d, hf, hnd⟩ := hL x (by simp)
      have hc : new.dirs.contains op = false := by
        cases hh : new.dirs.contains op with
        | false => rfl
        | true => exact absurd (List.contains_iff_mem.mp hh) hnd
      have hstep : asideStep old new (t, [], seed) x = .ok (t, [], seed) := by
        simp only [asideStep, hf, hc, Bool.not_false, Bool.true_or, if_true]
      rw [List.foldlM_cons, hstep]
      exact ih seed (fun st hst => hL st (by simp [hst]))
  rw [moveSourcesAside_eq, key _ 0 h]
  rfl

/-! ### stages A and B: no transpositions -/

theorem applyTranspositions_nil (old new : Build) (w : Work) (hT : w.transpositions = []) (t : Tree) :
    applyTranspositions old new w [] [] t = .ok t := by
  simp only [applyTranspositions, hT, List.filterMap_nil, List.map_nil, List.eraseDups_nil, groupsOf]
  rfl

theorem commit_notransp {old new : Build} {w : Work} (ho : BWF old) (hn : BWF new) (hk : NKC old new)
    (hw : WOK old new w) (hT : w.transpositions = []) :
    ∃ t', commit old new w [] [] (treeOfBuild old) = .ok t' ∧ TInv t' ∧
      ∀ p, t'.get p = (treeOfBuild new).get p := by
  obtain ⟨t₁, h1, he⟩ := ensureDirsPhase_spec ho hn hk
  have ht : Transposed old new w t₁ t₁ := by
    refine ⟨he.inv, SameNF.refl _, ?_, ?_, fun _ _ _ => rfl⟩
    · intro st hst
      rw [hT] at hst
      cases hst
    · intro i hi p d hf
      obtain ⟨p', d', hf', hp'⟩ := hw.overlay i hi
      rw [hf] at hf'
      cases hf'
      have hpn : p ∈ new.files.map (·.1) := List.mem_map.mpr ⟨_, mem_files_of_getElem? hf, rfl⟩
      obtain ⟨e, he1, he2⟩ := List.mem_map.mp hp'
      refine ⟨e.2, ?_⟩
      rw [he.other p (fun h => hn.dir_not_file h hpn), ← he2]
      exact get_file_treeOfBuild ho (p := e.1) (d := e.2) he1
  obtain ⟨t₃, t₄, t₅, t₆, h3, h4, h5, h6, hI6, hg6⟩ := finish_spec ho hn hk hw he ht
  refine ⟨t₆, ?_, hI6, hg6⟩
  have h0 : moveSourcesAside old new w (treeOfBuild old) = .ok (treeOfBuild old, []) :=
    moveSourcesAside_nil_of_sources (by rw [hT]; intro st hst; cases hst) _
  simp only [commit, bind, Except.bind, h0, h1, applyTranspositions_nil old new w hT, h3, h4, h5, h6]


/-! ### stage C: temporary names -/

theorem sep_unique {c : Char} : ∀ {a a' d d' : List Char}, c ∉ d → c ∉ d' →
    a ++ c :: d = a' ++ c :: d' → a = a' ∧ d = d'
  | [], [], _, _, _, _, h => by simpa using h
  | [], y :: a', d, d', hd, _, h => by
    simp only [List.nil_append, List.cons_append, List.cons.injEq] at h
    exfalso; apply hd; rw [h.2]; simp
  | x :: a, [], d, d', _, hd', h => by
    simp only [List.nil_append, List.cons_append, List.cons.injEq] at h
    exfalso; apply hd'; rw [← h.2]; simp
  | x :: a, y :: a', d, d', hd, hd', h => by
    simp only [List.cons_append, List.cons.injEq] at h
    obtain ⟨h1, h2⟩ := sep_unique hd hd' h.2
    exact ⟨by rw [h.1, h1], h2⟩

theorem dash_not_digit (k : Nat) : '-' ∉ Nat.toDigits 10 k := by
  intro h
  have := Nat.isDigit_of_mem_toDigits (by decide) (by decide) h
  revert this
  decide

theorem tempName_inj {l l' : String} {k k' : Nat}
    (h : l ++ ".butler-rename-" ++ toString k = l' ++ ".butler-rename-" ++ toString k') :
    l = l' ∧ k = k' := by
  have h' := congrArg String.toList h
  simp only [String.toList_append, Nat.toString_eq_repr, Nat.toList_repr] at h'
  have hs : (".butler-rename-" : String).toList = ".butler-rename".toList ++ ['-'] := by decide
  rw [hs] at h'
  simp only [List.append_assoc, List.singleton_append] at h'
  rw [← List.append_assoc, ← List.append_assoc l'.toList] at h'
  obtain ⟨h1, h2⟩ := sep_unique (dash_not_digit k) (dash_not_digit k') h'
  refine ⟨String.toList_injective (List.append_cancel_right h1), ?_⟩
  have := congrArg (fun d => Nat.ofDigitChars 10 d 0) h2
  simpa using this

theorem seedName_of_ne {p : Path} (hp : p ≠ []) (k : Nat) :
    seedName p k = p.dropLast ++ [p.getLast hp ++ ".butler-rename-" ++ toString k] := by
  simp only [seedName, List.getLast?_eq_some_getLast hp]

theorem seedName_inj {p p' : Path} {k k' : Nat} (hp : p ≠ []) (hp' : p' ≠ [])
    (h : seedName p k = seedName p' k') : p = p' ∧ k = k' := by
  rw [seedName_of_ne hp, seedName_of_ne hp'] at h
  have h1 := List.append_inj' h (by simp)
  simp only [List.cons.injEq, and_true] at h1
  obtain ⟨hl, hk⟩ := tempName_inj h1.2
  refine ⟨?_, hk⟩
  rw [← List.dropLast_concat_getLast hp, ← List.dropLast_concat_getLast hp', h1.1, hl]

theorem seedName_dropLast {p : Path} (hp : p ≠ []) (k : Nat) : (seedName p k).dropLast = p.dropLast := by
  rw [seedName_of_ne hp]; simp

theorem seedName_ne_nil {p : Path} (hp : p ≠ []) (k : Nat) : seedName p k ≠ [] := by
  rw [seedName_of_ne hp]; simp


/-! ### the skip loop (`nextFree`) -/

/-- pigeonhole, the form needed here: a duplicate-free list included in `u` is not longer than `u` -/
theorem nodup_subset_length_le {α} [DecidableEq α] : ∀ (l u : List α), l.Nodup → (∀ a ∈ l, a ∈ u) →
    l.length ≤ u.length
  | [], _, _, _ => Nat.zero_le _
  | a :: l, u, hnd, hsub => by
    simp only [List.nodup_cons] at hnd
    have hau : a ∈ u := hsub a (by simp)
    have ih := nodup_subset_length_le l (u.erase a) hnd.2 (by
      intro b hb
      have hba : b ≠ a := fun h => hnd.1 (h ▸ hb)
      exact (List.mem_erase_of_ne hba).mpr (hsub b (by simp [hb])))
    rw [List.length_erase_of_mem hau] at ih
    have : 0 < u.length := List.length_pos_of_mem hau
    simp only [List.length_cons]
    omega

/-- what the fuelled loop does, whatever the fuel: it stops at the first free number, or at `seed + fuel`
    after having seen `fuel` names in use -/
theorem nextFree_run (used : List Path) (p : Path) : ∀ (fuel seed : Nat),
    seed ≤ nextFree used p fuel seed ∧
    (∀ k, seed ≤ k → k < nextFree used p fuel seed → seedName p k ∈ used) ∧
    (seedName p (nextFree used p fuel seed) ∉ used ∨ nextFree used p fuel seed = seed + fuel) := by
  intro fuel
  induction fuel with
  | zero =>
    intro seed
    refine ⟨Nat.le_refl _, ?_, Or.inr rfl⟩
    intro k h1 h2
    simp only [nextFree] at h2
    omega
  | succ fuel ih =>
    intro seed
    by_cases h : used.contains (seedName p seed) = true
    · obtain ⟨a1, a2, a3⟩ := ih (seed + 1)
      simp only [nextFree, if_pos h]
      refine ⟨by omega, ?_, ?_⟩
      · intro k h1 h2
        by_cases hk : k = seed
        · subst hk; simpa using h
        · exact a2 k (by omega) h2
      · rcases a3 with a3 | a3
        · exact Or.inl a3
        · exact Or.inr (by omega)
    · simp only [nextFree, if_neg h]
      refine ⟨Nat.le_refl _, ?_, Or.inl (by simpa using h)⟩
      intro k h1 h2
      omega

/-- The skip loop with fuel `used.length + 1` (as `safePass` calls it) computes what the unbounded Go loop
    computes: the LEAST number `≥ seed` whose temporary name for `p` is not in use.  In particular that name is
    not in use.  (Pigeonhole: the `used.length + 1` names tried are pairwise distinct by `seedName_inj`.) -/
theorem nextFree_spec (used : List Path) {p : Path} (hp : p ≠ []) (seed : Nat) :
    seed ≤ nextFree used p (used.length + 1) seed ∧
    seedName p (nextFree used p (used.length + 1) seed) ∉ used ∧
    ∀ k, seed ≤ k → k < nextFree used p (used.length + 1) seed → seedName p k ∈ used := by
  obtain ⟨a1, a2, a3⟩ := nextFree_run used p (used.length + 1) seed
  refine ⟨a1, ?_, a2⟩
  rcases a3 with a3 | a3
  · exact a3
  · exfalso
    have hnd : ((List.range' seed (used.length + 1)).map (seedName p)).Nodup := by
      rw [List.Nodup, List.pairwise_map]
      exact (List.nodup_range' (step := 1) (by omega)).imp (fun hab h => hab (seedName_inj hp hp h).2)
    have := nodup_subset_length_le _ used hnd (by
      intro a ha
      obtain ⟨k, hk, rfl⟩ := List.mem_map.mp ha
      simp only [List.mem_range'_1] at hk
      exact a2 k hk.1 (by omega))
    simp only [List.length_map, List.length_range'] at this
    omega

theorem nextFree_fresh (used : List Path) {p : Path} (hp : p ≠ []) (seed : Nat) :
    seedName p (nextFree used p (used.length + 1) seed) ∉ used :=
  (nextFree_spec used hp seed).2.1


/-! ### the first pass as a pure function -/

/-- the number the skip loop settles on when entered after `renameSeed++` -/
abbrev nxt (used : List Path) (o : Path) (seed : Nat) : Nat := nextFree used o (used.length + 1) (seed + 1)

abbrev InnerSt := Nat × Array Transpo × Array Transpo
abbrev OuterSt := Nat × Array (Path × List Transpo) × Array Transpo

def innerBody (sources od used : List Path) (tr : Transpo) (s : InnerSt) : Id (ForInStep InnerSt) :=
  if (tr.targetPath == tr.outputPath) = true then
    pure (ForInStep.yield (s.fst, s.snd.fst, s.snd.snd.push tr))
  else
    if (sources.contains tr.outputPath || od.contains tr.outputPath) = true then
      pure (ForInStep.yield
        (nxt used tr.outputPath s.fst,
          s.snd.fst.push { targetPath := seedName tr.outputPath (nxt used tr.outputPath s.fst), outputPath := tr.outputPath },
          s.snd.snd.push { targetPath := tr.targetPath, outputPath := seedName tr.outputPath (nxt used tr.outputPath s.fst) }))
    else pure (ForInStep.yield (s.fst, s.snd.fst, s.snd.snd.push tr))

def outerBody (sources od used : List Path) (x : Path × List Transpo) (s : OuterSt) : Id (ForInStep OuterSt) := do
  let s1 ← forIn x.snd (s.fst, s.snd.snd, #[]) (innerBody sources od used)
  pure (ForInStep.yield (s1.fst, s.snd.fst.push (x.fst, s1.snd.snd.toList), s1.snd.fst))

theorem safePass_eq (groups : List (Path × List Transpo)) (sources used od : List Path) :
    safePass groups sources used od =
      ((Id.run (forIn groups (0, #[], #[]) (outerBody sources od used))).snd.fst.toList,
       (Id.run (forIn groups (0, #[], #[]) (outerBody sources od used))).snd.snd.toList) := rfl

/-- the flagged outputs of the first pass: the sources and — since the repair of finding F8 (1)/(2) — the
    directories of the old build, as ONE list (`rwTr` … `rwGroups_ren` below take that list for `sources`) -/
theorem contains_flagged (sources od : List Path) (o : Path) :
    (sources ++ od).contains o = (sources.contains o || od.contains o) := by
  rw [Bool.eq_iff_iff]
  simp

/-- pure version of the rewriting of one transposition: new seed, cleanup entries, rewritten transposition -/
def rwTr (sources used : List Path) (seed : Nat) (tr : Transpo) : Nat × List Transpo × Transpo :=
  if tr.targetPath == tr.outputPath then (seed, [], tr)
  else if sources.contains tr.outputPath then
    (nxt used tr.outputPath seed, [{ targetPath := seedName tr.outputPath (nxt used tr.outputPath seed), outputPath := tr.outputPath }],
      { targetPath := tr.targetPath, outputPath := seedName tr.outputPath (nxt used tr.outputPath seed) })
  else (seed, [], tr)

def rwGroup (sources used : List Path) : Nat → List Transpo → Nat × List Transpo × List Transpo
  | seed, [] => (seed, [], [])
  | seed, tr :: g =>
    let r := rwTr sources used seed tr
    let r2 := rwGroup sources used r.1 g
    (r2.1, r.2.1 ++ r2.2.1, r.2.2 :: r2.2.2)

def rwGroups (sources used : List Path) : Nat → List (Path × List Transpo) → List (Path × List Transpo) × List Transpo
  | _, [] => ([], [])
  | seed, (gp, g) :: gs =>
    let r := rwGroup sources used seed g
    let r2 := rwGroups sources used r.1 gs
    ((gp, r.2.2) :: r2.1, r.2.1 ++ r2.2)

theorem rwTr_noop {sources used : List Path} {seed : Nat} {tr : Transpo}
    (h : (tr.targetPath == tr.outputPath) = true) : rwTr sources used seed tr = (seed, [], tr) := by
  simp only [rwTr, if_pos h]

theorem rwTr_clash {sources used : List Path} {seed : Nat} {tr : Transpo}
    (h : ¬ (tr.targetPath == tr.outputPath) = true) (h2 : sources.contains tr.outputPath = true) :
    rwTr sources used seed tr =
      (nxt used tr.outputPath seed, [{ targetPath := seedName tr.outputPath (nxt used tr.outputPath seed), outputPath := tr.outputPath }],
        { targetPath := tr.targetPath, outputPath := seedName tr.outputPath (nxt used tr.outputPath seed) }) := by
  simp only [rwTr, if_neg h, if_pos h2]

theorem rwTr_keep {sources used : List Path} {seed : Nat} {tr : Transpo}
    (h : ¬ (tr.targetPath == tr.outputPath) = true) (h2 : ¬ sources.contains tr.outputPath = true) :
    rwTr sources used seed tr = (seed, [], tr) := by
  simp only [rwTr, if_neg h, if_neg h2]

theorem inner_eq (sources od used : List Path) : ∀ (g : List Transpo) (s : InnerSt),
    (fun r : InnerSt => (r.1, r.2.1.toList, r.2.2.toList)) (Id.run (forIn g s (innerBody sources od used))) =
      ((rwGroup (sources ++ od) used s.1 g).1, s.2.1.toList ++ (rwGroup (sources ++ od) used s.1 g).2.1,
        s.2.2.toList ++ (rwGroup (sources ++ od) used s.1 g).2.2) := by
  intro g
  induction g with
  | nil => intro s; simp [rwGroup, Id.run]; exact ⟨rfl, rfl, rfl⟩
  | cons tr g ih =>
    intro s
    simp only [List.forIn_cons, innerBody]
    by_cases h1 : (tr.targetPath == tr.outputPath) = true
    · simp only [if_pos h1, pure_bind]
      have := ih (s.fst, s.snd.fst, s.snd.snd.push tr)
      simp only at this
      rw [this]
      simp [rwGroup, rwTr_noop h1]
    · simp only [if_neg h1]
      by_cases h2 : (sources.contains tr.outputPath || od.contains tr.outputPath) = true
      · simp only [if_pos h2, pure_bind]
        have := ih (nxt used tr.outputPath s.fst,
          s.snd.fst.push { targetPath := seedName tr.outputPath (nxt used tr.outputPath s.fst), outputPath := tr.outputPath },
          s.snd.snd.push { targetPath := tr.targetPath, outputPath := seedName tr.outputPath (nxt used tr.outputPath s.fst) })
        simp only at this
        rw [this]
        have h2' : (sources ++ od).contains tr.outputPath = true := by rw [contains_flagged]; exact h2
        simp [rwGroup, rwTr_clash h1 h2']
      · simp only [if_neg h2, pure_bind]
        have := ih (s.fst, s.snd.fst, s.snd.snd.push tr)
        simp only at this
        rw [this]
        have h2' : ¬ (sources ++ od).contains tr.outputPath = true := by rw [contains_flagged]; exact h2
        simp [rwGroup, rwTr_keep h1 h2']

theorem outer_eq (sources od used : List Path) : ∀ (gs : List (Path × List Transpo)) (s : OuterSt),
    (fun r : OuterSt => (r.2.1.toList, r.2.2.toList)) (Id.run (forIn gs s (outerBody sources od used))) =
      (s.2.1.toList ++ (rwGroups (sources ++ od) used s.1 gs).1,
        s.2.2.toList ++ (rwGroups (sources ++ od) used s.1 gs).2) := by
  intro gs
  induction gs with
  | nil => intro s; simp [rwGroups, Id.run]; exact ⟨rfl, rfl⟩
  | cons x gs ih =>
    intro s
    obtain ⟨gp, g⟩ := x
    have hin := inner_eq sources od used g (s.fst, s.snd.snd, #[])
    simp only [Prod.mk.injEq] at hin
    obtain ⟨h1, h2, h3⟩ := hin
    simp only [List.forIn_cons, outerBody, bind_assoc, pure_bind, Id.run_bind]
    have := ih ((forIn g (s.fst, s.snd.snd, #[]) (innerBody sources od used)).run.fst,
      s.snd.fst.push (gp, (forIn g (s.fst, s.snd.snd, #[]) (innerBody sources od used)).run.snd.snd.toList),
      (forIn g (s.fst, s.snd.snd, #[]) (innerBody sources od used)).run.snd.fst)
    simp only at this
    rw [this, h1, h2, h3]
    simp [rwGroups]

/-- the first pass is the pure rewriting with the sources and the old directories as the flagged outputs -/
theorem safePass_spec (groups : List (Path × List Transpo)) (sources used od : List Path) :
    safePass groups sources used od = rwGroups (sources ++ od) used 0 groups := by
  rw [safePass_eq]
  have := outer_eq sources od used groups (0, #[], #[])
  simp only [Prod.mk.injEq] at this
  apply Prod.ext
  · simpa using this.1
  · simpa using this.2


theorem transpo_beq {a b : Transpo} : (a == b) = true ↔ a = b := by
  cases a; cases b
  simp only [BEq.beq, instBEqTranspo.beq, Bool.and_eq_true, Transpo.mk.injEq]
  have h : ∀ x y : Path, List.beq x y = true ↔ x = y := by
    intro x y
    have : List.beq x y = (x == y) := rfl
    rw [this]; simp
  rw [h, h]


/-! ### soft destinations

  Since the repair of finding F26 `copy` (like `move`) replaces a symlink or an empty directory standing where
  its output goes.  `S` is a set of paths at which that may happen: the file paths of the new build when paths
  change kind (Wharf/Proofs/CommitKinds.lean), nothing under `NKC`. -/

/-- `t'` differs from `t` only in regular files — except that at a path of `S` a symlink or a directory may have
    given way to a regular file or to nothing — and nothing has appeared below a path of `S`. -/
structure SameX (S : Path → Prop) (t t' : Tree) : Prop where
  out : ∀ q, ¬ S q → nf (t'.get q) = nf (t.get q)
  soft : ∀ q, S q → t'.get q = t.get q ∨ nf (t'.get q) = none
  below : ∀ s q, S s → isPrefix s q = true → t.get q = none → t'.get q = none

theorem SameX.refl (S : Path → Prop) (t : Tree) : SameX S t t :=
  ⟨fun _ _ => rfl, fun _ _ => Or.inl rfl, fun _ _ _ _ h => h⟩

theorem SameX.trans {S : Path → Prop} {a b c : Tree} (h1 : SameX S a b) (h2 : SameX S b c) : SameX S a c := by
  refine ⟨fun q hq => (h2.out q hq).trans (h1.out q hq), ?_,
    fun s q hs hpre h => h2.below s q hs hpre (h1.below s q hs hpre h)⟩
  intro q hq
  rcases h2.soft q hq with e | e
  · rcases h1.soft q hq with e1 | e1
    · exact Or.inl (e.trans e1)
    · exact Or.inr (by rw [e]; exact e1)
  · exact Or.inr e

/-- a step that only turns places holding nothing or a regular file — or places of `S`, whatever they hold — into
    places holding nothing or a regular file, none of them below a path of `S` -/
theorem SameX.of_frame {S : Path → Prop} {t t' : Tree}
    (h : ∀ q, t'.get q = t.get q ∨
      (nf (t'.get q) = none ∧ (nf (t.get q) = none ∨ S q) ∧ ∀ s, S s → isPrefix s q = false)) :
    SameX S t t' := by
  refine ⟨?_, ?_, ?_⟩
  · intro q hq
    rcases h q with e | ⟨e1, e2, _⟩
    · rw [e]
    · rcases e2 with e2 | e2
      · rw [e1, e2]
      · exact absurd e2 hq
  · intro q _
    rcases h q with e | ⟨e1, _, _⟩
    · exact Or.inl e
    · exact Or.inr e1
  · intro s q hs hpre hn
    rcases h q with e | ⟨_, _, e3⟩
    · rw [e, hn]
    · have := e3 s hs
      rw [hpre] at this
      cases this

theorem SameX.isDir {S : Path → Prop} {t t' : Tree} (h : SameX S t t') {q : Path} (hq : ¬ S q) :
    IsDir t' q ↔ IsDir t q := by
  simp only [IsDir]
  rw [← nf_eq_dir, h.out q hq, nf_eq_dir]

theorem sameX_false {t t' : Tree} : SameX (fun _ => False) t t' ↔ SameNF t t' :=
  ⟨fun h q => h.out q (fun h => h), fun h => ⟨fun q _ => h q, fun _ hf => hf.elim, fun _ _ hf => hf.elim⟩⟩

/-- a plain path that is not below a path of `S` -/
structure XPlain (S : Path → Prop) (t : Tree) (p : Path) : Prop extends Plain t p where
  free : ∀ s, S s → isPrefix s p = false

/-- a place where `copy` and `move` can put a regular file: nothing is below it, and it holds nothing or a regular
    file — or, when it is a path of `S`, a symlink or a directory (hence an empty one) -/
structure XSlot (S : Path → Prop) (t : Tree) (p : Path) : Prop extends XPlain S t p where
  kind : nf (t.get p) = none ∨ S p
  empty : ∀ q, isPrefix p q = true → t.get q = none

theorem XPlain.sameX {S : Path → Prop} {t t' : Tree} {p : Path} (h : SameX S t t') (hp : XPlain S t p) :
    XPlain S t' p := by
  refine ⟨⟨hp.ne, ?_, hp.nodd⟩, hp.free⟩
  have hns : ¬ S p.dropLast := by
    intro hs
    have := hp.free _ hs
    rw [isPrefix_dropLast_self hp.ne] at this
    cases this
  exact (h.isDir hns).mpr hp.parent

theorem XSlot.sameX {S : Path → Prop} {t t' : Tree} {p : Path} (hI' : TInv t') (h : SameX S t t')
    (hp : XSlot S t p) : XSlot S t' p := by
  refine ⟨hp.toXPlain.sameX h, ?_, ?_⟩
  · by_cases hs : S p
    · exact Or.inr hs
    · left
      rw [h.out p hs]
      exact hp.kind.resolve_right hs
  · intro q hq
    by_cases hs : S p
    · exact h.below p q hs hq (hp.empty q hq)
    · apply get_none_under_nondir hI' _ hq
      intro hd
      have := h.out p hs
      rw [hd, hp.kind.resolve_right hs] at this
      simp at this

theorem xplain_of_plain {t : Tree} {p : Path} (h : Plain t p) : XPlain (fun _ => False) t p :=
  ⟨h, fun _ hf => hf.elim⟩

theorem xslot_of_slot {t : Tree} {p : Path} (hI : TInv t) (h : Slot t p) : XSlot (fun _ => False) t p :=
  ⟨xplain_of_plain h.toPlain, Or.inl h.nofile, fun _ hq => get_none_under_nondir hI h.not_dir hq⟩

/-! ### copy, move, one group of the second pass -/

theorem copyFile_spec {t : Tree} (hI : TInv t) {o n : Path} {d : List Byte} (ho : Plain t o)
    (hg : t.get o = some (.file d)) (hs : Slot t n) (b : Bool) :
    copyFile t o n b = .ok (t.set n (.file d)) := by
  obtain ⟨hm, hw⟩ := write_slot hI hs d
  -- the destination holds nothing or a regular file: nothing is removed
  rcases nf_eq_none.mp hs.nofile with hn | ⟨d', hn⟩
  · have hl := lstat_none hI hs.toPlain hn
    cases b with
    | true => simp only [copyFile, if_true, hm, bind, Except.bind, readFile_plain hI ho hg, hl, hw]
    | false =>
      simp only [copyFile, bind, Except.bind, readFile_plain hI ho hg, hl, hw]
      rfl
  · have hl := lstat_some hI hs.toPlain hn
    cases b with
    | true => simp only [copyFile, if_true, hm, bind, Except.bind, readFile_plain hI ho hg, hl, hw]
    | false =>
      simp only [copyFile, bind, Except.bind, readFile_plain hI ho hg, hl, hw]
      rfl

/-- `copy` onto an `XSlot`: a symlink or an empty directory standing there is removed first -/
theorem copyFile_specX {S : Path → Prop} {t : Tree} (hI : TInv t) {o n : Path} {d : List Byte} (ho : Plain t o)
    (hg : t.get o = some (.file d)) (hs : XSlot S t n) (b : Bool) :
    ∃ t', copyFile t o n b = .ok t' ∧ TInv t' ∧ SameX S t t' ∧
      ∀ q, t'.get q = if q = n then some (.file d) else t.get q := by
  have hframe : ∀ t' : Tree, (∀ q, t'.get q = if q = n then some (.file d) else t.get q) → SameX S t t' := by
    intro t' hget
    apply SameX.of_frame
    intro q
    rw [hget]
    by_cases hq : q = n
    · right
      rw [if_pos hq, hq]
      exact ⟨rfl, hs.kind, hs.free⟩
    · left
      rw [if_neg hq]
  by_cases hnf : nf (t.get n) = none
  · -- nothing or a regular file: written in place
    have hsl : Slot t n := ⟨hs.toPlain, hnf⟩
    obtain ⟨s1, _, s3⟩ := set_file_spec hI hsl d
    exact ⟨_, copyFile_spec hI ho hg hsl b, s1, hframe _ s3, s3⟩
  · -- a symlink or an empty directory: removed first
    have hm : mkdirs t n.dropLast = .ok t := mkdirs_noop hI hs.parent hs.nodd
    have hr := readFile_plain hI ho hg
    have hnue : ∀ e ∈ t.entries, isPrefix n e.1 = false := by
      intro e he
      cases hh : isPrefix n e.1 with
      | false => rfl
      | true =>
        have := hI.get e he
        rw [hs.empty _ hh] at this
        cases this
    have hI0 : TInv (t.erase n) := hI.erase hs.ne (dropLast_ne_of_no_under hI hnue)
    have hs0 : Slot (t.erase n) n := by
      refine ⟨⟨hs.ne, ?_, hs.nodd⟩, by rw [get_erase hs.ne, if_pos rfl]; rfl⟩
      simp only [IsDir]
      rw [get_erase hs.ne, if_neg hs.toPlain.dropLast_ne]
      exact hs.parent
    have hw := writeFile_slot hI0 hs0 d
    obtain ⟨s1, _, s3⟩ := set_file_spec hI0 hs0 d
    have hget : ∀ q, ((t.erase n).set n (.file d)).get q = if q = n then some (.file d) else t.get q := by
      intro q
      rw [s3, get_erase hs.ne]
      by_cases hq : q = n <;> simp [hq]
    refine ⟨_, ?_, s1, hframe _ hget, hget⟩
    cases hgn : t.get n with
    | none => rw [hgn] at hnf; exact absurd rfl hnf
    | some nd =>
      have hl := lstat_some hI hs.toPlain hgn
      cases nd with
      | file d' => rw [hgn] at hnf; exact absurd rfl hnf
      | dir =>
        have hrm := remove_emptydir hI hs.toPlain hgn hnue
        cases b with
        | true => simp only [copyFile, if_true, hm, bind, Except.bind, hr, hl, hrm, hw]
        | false =>
          simp only [copyFile, bind, Except.bind, hr, hl, hrm, hw]
          rfl
      | symlink d' =>
        have hrm := remove_nondir hI hs.toPlain hgn (by simp)
        cases b with
        | true => simp only [copyFile, if_true, hm, bind, Except.bind, hr, hl, hrm, hw]
        | false =>
          simp only [copyFile, bind, Except.bind, hr, hl, hrm, hw]
          rfl

/-- `move` of a regular file onto a plain path, whatever stands there — nothing, a regular file, a symlink, a
    directory with all that is below it (`clearDest`) — provided the source is not below the destination -/
theorem moveFile_specD {t : Tree} (hI : TInv t) {o n : Path} {d : List Byte}
    (ho : Plain t o) (hg : t.get o = some (.file d)) (hn : Plain t n) (hne : o ≠ n)
    (hnb : isPrefix n o = false) :
    ∃ t', moveFile t o n = .ok t' ∧ TInv t' ∧
      ∀ q, t'.get q = if q = n then some (.file d) else if q = o then none
        else if isPrefix n q = true then none else t.get q := by
  obtain ⟨t0, hr, hI0, hg0⟩ := clearDest_spec hI hn
  have hgn0 : t0.get n = none := by rw [hg0, if_pos (Or.inl rfl)]
  have hkeep : ∀ q, q ≠ n → isPrefix n q = false → t0.get q = t.get q := by
    intro q h1 h2
    rw [hg0, if_neg]
    rintro (h | h)
    · exact h1 h
    · rw [h2] at h; cases h
  have hs0 : Slot t0 n := by
    refine ⟨⟨hn.ne, ?_, hn.nodd⟩, by rw [hgn0]; rfl⟩
    simp only [IsDir]
    rw [hkeep _ hn.dropLast_ne (not_isPrefix_dropLast n)]
    exact hn.parent
  have ho0 : Plain t0 o := by
    refine ⟨ho.ne, ?_, ho.nodd⟩
    simp only [IsDir]
    rw [hkeep]
    · exact ho.parent
    · intro h
      have := isPrefix_dropLast_self ho.ne
      rw [h, hnb] at this
      cases this
    · cases hh : isPrefix n o.dropLast with
      | false => rfl
      | true => rw [isPrefix_of_dropLast hh] at hnb; cases hnb
  have hgo0 : t0.get o = some (.file d) := by rw [hkeep o hne hnb]; exact hg
  obtain ⟨hm, _⟩ := write_slot hI0 hs0 d
  have hrn := rename_file hI0 ho0 hs0.toPlain hgo0 hgn0
  obtain ⟨e1, e2, e3⟩ := erase_file_spec hI0 ho.ne hgo0
  have hs1 : Slot (t0.erase o) n := hs0.sameNF e2
  obtain ⟨s1, _, s3⟩ := set_file_spec e1 hs1 d
  refine ⟨(t0.erase o).set n (.file d), ?_, s1, ?_⟩
  · simp only [moveFile, hr, bind, Except.bind, hm, hrn]
  · intro q
    rw [s3, e3]
    by_cases hq : q = n
    · simp [hq]
    · simp only [if_neg hq]
      by_cases hq2 : q = o
      · simp [hq2]
      · simp only [if_neg hq2]
        rw [hg0]
        by_cases hq3 : isPrefix n q = true
        · simp [hq3]
        · simp [hq, hq3]

/-- `move` onto an `XSlot`: whatever stands there is removed first -/
theorem moveFile_specX {S : Path → Prop} {t : Tree} (hI : TInv t) {o n : Path} {d : List Byte}
    (ho : XPlain S t o) (hg : t.get o = some (.file d)) (hs : XSlot S t n) (hne : o ≠ n) :
    ∃ t', moveFile t o n = .ok t' ∧ TInv t' ∧ SameX S t t' ∧
      ∀ q, t'.get q = if q = n then some (.file d) else if q = o then none else t.get q := by
  have hnb : isPrefix n o = false := by
    cases hh : isPrefix n o with
    | false => rfl
    | true =>
      have := hs.empty o hh
      rw [hg] at this
      cases this
  obtain ⟨t', h1, h2, h3⟩ := moveFile_specD hI ho.toPlain hg hs.toPlain hne hnb
  have hget : ∀ q, t'.get q = if q = n then some (.file d) else if q = o then none else t.get q := by
    intro q
    rw [h3]
    by_cases hq : q = n
    · simp [hq]
    · by_cases hq2 : q = o
      · simp [hq, hq2]
      · rw [if_neg hq, if_neg hq2, if_neg hq, if_neg hq2]
        split
        · rename_i h; exact (hs.empty q h).symm
        · rfl
  refine ⟨t', h1, h2, ?_, hget⟩
  apply SameX.of_frame
  intro q
  rw [hget]
  by_cases hq : q = n
  · right
    rw [if_pos hq, hq]
    exact ⟨rfl, hs.kind, hs.free⟩
  · rw [if_neg hq]
    by_cases hq2 : q = o
    · right
      rw [if_pos hq2, hq2]
      exact ⟨rfl, Or.inl (by rw [hg]; rfl), ho.free⟩
    · left
      rw [if_neg hq2]

/-- the copies of a group: every non-skipped output receives the content of the source -/
theorem copies_spec {S : Path → Prop} {gp : Path} {d : List Byte} (skip : Transpo → Bool) :
    ∀ (l : List Transpo) (t : Tree), TInv t → XPlain S t gp → t.get gp = some (.file d) →
    (∀ tr ∈ l, XSlot S t tr.outputPath) →
    ∃ t', l.foldlM (fun t tr => if skip tr then .ok t else copyFile t gp tr.outputPath true) t = .ok t' ∧
      TInv t' ∧ SameX S t t' ∧
      (∀ tr ∈ l, skip tr = false → t'.get tr.outputPath = some (.file d)) ∧
      (∀ q, (∀ tr ∈ l, skip tr = false → tr.outputPath ≠ q) → t'.get q = t.get q) := by
  intro l
  induction l with
  | nil =>
    intro t hI _ _ _
    exact ⟨t, rfl, hI, SameX.refl S t, by simp, fun _ _ => rfl⟩
  | cons tr l ih =>
    intro t hI hp hg hs
    cases hsk : skip tr with
    | true =>
      obtain ⟨t', h1, h2, h3, h4, h5⟩ := ih t hI hp hg (fun x hx => hs x (by simp [hx]))
      refine ⟨t', by simp only [List.foldlM_cons, hsk, if_true, bind, Except.bind, h1], h2, h3, ?_, ?_⟩
      · intro x hx hskx
        simp only [List.mem_cons] at hx
        rcases hx with rfl | hx
        · rw [hsk] at hskx; cases hskx
        · exact h4 x hx hskx
      · intro q hq
        exact h5 q (fun x hx => hq x (by simp [hx]))
    | false =>
      have hs1 := hs tr (by simp)
      obtain ⟨t1, c1, s1, s2, s3⟩ := copyFile_specX hI hp.toPlain hg hs1 true
      have hg1 : t1.get gp = some (.file d) := by
        rw [s3]
        by_cases h : gp = tr.outputPath
        · rw [if_pos h]
        · rw [if_neg h]; exact hg
      obtain ⟨t', h1, h2, h3, h4, h5⟩ := ih _ s1 (hp.sameX s2) hg1
        (fun x hx => (hs x (by simp [hx])).sameX s1 s2)
      refine ⟨t', ?_, h2, s2.trans h3, ?_, ?_⟩
      · simp only [List.foldlM_cons, hsk, bind, Except.bind, c1]
        exact h1
      · intro x hx hskx
        simp only [List.mem_cons] at hx
        rcases hx with rfl | hx
        · by_cases hex : ∃ y ∈ l, skip y = false ∧ y.outputPath = x.outputPath
          · obtain ⟨y, hy, hy1, hy2⟩ := hex
            rw [← hy2]
            exact h4 y hy hy1
          · rw [h5, s3, if_pos rfl]
            intro y hy hy1 hy2
            exact hex ⟨y, hy, hy1, hy2⟩
        · exact h4 x hx hskx
      · intro q hq
        rw [h5 q (fun x hx => hq x (by simp [hx])), s3, if_neg (fun h => hq tr (by simp) hsk h.symm)]

theorem zip_fold_skip' {α} (F : α → Nat × Transpo → Except Err α) (f : α → Transpo → Except Err α)
    (hF : ∀ a i tr, F a (i, tr) = f a tr) :
    ∀ (l : List Transpo) (il : List Nat) (a : α), l.length ≤ il.length →
    (il.zip l).foldlM F a = l.foldlM f a := by
  intro l
  induction l with
  | nil => intro il a _; simp
  | cons tr l ih =>
    intro il a hl
    cases il with
    | nil => simp at hl
    | cons i il =>
      simp only [List.zip_cons_cons, List.foldlM_cons, hF]
      congr 1
      funext a'
      exact ih il a' (by simpa using hl)

theorem zip_fold_pos' (F : Tree → Nat × Transpo → Except Err Tree) (f : Tree → Transpo → Except Err Tree)
    (hF : ∀ t i tr, i ≠ 0 → F t (i, tr) = f t tr) :
    ∀ (l : List Transpo) (s : Nat) (t : Tree), 0 < s →
    ((List.range' s l.length).zip l).foldlM F t = l.foldlM f t := by
  intro l
  induction l with
  | nil => intro s t _; simp
  | cons tr l ih =>
    intro s t hs
    have : s ≠ 0 := by omega
    simp only [List.length_cons, List.range'_succ, List.zip_cons_cons, List.foldlM_cons, hF _ _ _ this]
    congr 1
    funext t'
    exact ih (s + 1) t' (by omega)

/-- the `first :: _` branch of `applyGroup` -/
def applyMany (t : Tree) (hasOverlay : Bool) (gp : Path) (first : Transpo) (g : List Transpo) :
    Except Err Tree := do
  let noop := g.find? (fun tr => gp == tr.outputPath)
  let t ← (List.range g.length).zip g |>.foldlM (fun t (i, tr) =>
    match noop with
    | none => if i = 0 then .ok t else copyFile t gp tr.outputPath true
    | some n => if tr == n then .ok t else copyFile t gp tr.outputPath true) t
  match noop with
  | some _ => .ok t
  | none =>
    if hasOverlay then copyFile t gp first.outputPath false
    else moveFile t gp first.outputPath

theorem applyGroup_many (t : Tree) (ov : Bool) (gp : Path) (a b : Transpo) (r : List Transpo) :
    applyGroup t ov gp (a :: b :: r) = applyMany t ov gp a (a :: b :: r) := rfl

/-- the last step for a group without a no-op member: copy (overlay) or move the source to `out` -/
theorem lastStep_spec {S : Path → Prop} {t : Tree} (hI : TInv t) {gp out : Path} {d : List Byte} (ov : Bool)
    (hp : XPlain S t gp) (hg : t.get gp = some (.file d)) (hs : XSlot S t out) (hne : gp ≠ out) :
    ∃ t', (if ov then copyFile t gp out false else moveFile t gp out) = .ok t' ∧ TInv t' ∧ SameX S t t' ∧
      ∀ q, t'.get q = if q = out then some (.file d) else if q = gp ∧ ov = false then none else t.get q := by
  cases ov with
  | true =>
    obtain ⟨t', c1, s1, s2, s3⟩ := copyFile_specX hI hp.toPlain hg hs false
    refine ⟨t', by simp only [if_true]; exact c1, s1, s2, ?_⟩
    intro q
    rw [s3]
    simp
  | false =>
    obtain ⟨t', h1, h2, h3, h4⟩ := moveFile_specX hI hp hg hs hne
    refine ⟨t', by simpa using h1, h2, h3, ?_⟩
    intro q
    rw [h4]
    simp

theorem applyGroup_spec {S : Path → Prop} {t : Tree} (hI : TInv t) {gp : Path} {g : List Transpo} {d : List Byte}
    (ov : Bool) (hgne : g ≠ []) (htg : ∀ tr ∈ g, tr.targetPath = gp)
    (hp : XPlain S t gp) (hget : t.get gp = some (.file d)) (hslots : ∀ tr ∈ g, XSlot S t tr.outputPath) :
    ∃ t', applyGroup t ov gp g = .ok t' ∧ TInv t' ∧ SameX S t t' ∧
      (∀ tr ∈ g, t'.get tr.outputPath = some (.file d)) ∧
      (ov = false → (∀ tr ∈ g, tr.outputPath ≠ gp) → t'.get gp = none) ∧
      (∀ q, (∀ tr ∈ g, tr.outputPath ≠ q) → (ov = false → q ≠ gp) → t'.get q = t.get q) := by
  match g, hgne with
  | [tr], _ =>
    have htr := htg tr (by simp)
    by_cases hno : (tr.targetPath == tr.outputPath) = true
    · have hout : tr.outputPath = gp := by
        rw [← htr]; exact (by simpa using hno : tr.targetPath = tr.outputPath).symm
      refine ⟨t, by simp only [applyGroup, if_pos hno], hI, SameX.refl S t, ?_, ?_, fun _ _ _ => rfl⟩
      · intro x hx
        simp only [List.mem_singleton] at hx
        rw [hx, hout]; exact hget
      · intro _ h
        exact absurd hout (h tr (by simp))
    · have hne : gp ≠ tr.outputPath := by
        rw [← htr]; simpa using hno
      obtain ⟨t', h1, h2, h3, h4⟩ := lastStep_spec hI ov hp hget (hslots tr (by simp)) hne
      refine ⟨t', ?_, h2, h3, ?_, ?_, ?_⟩
      · simp only [applyGroup, if_neg hno]
        rw [htr]
        exact h1
      · intro x hx
        simp only [List.mem_singleton] at hx
        rw [hx, h4, if_pos rfl]
      · intro hov _
        rw [h4, if_neg hne, if_pos ⟨rfl, hov⟩]
      · intro q hq hq2
        rw [h4, if_neg (fun h => hq tr (by simp) h.symm)]
        by_cases hov : ov = false
        · rw [if_neg (fun h => hq2 hov h.1)]
        · rw [if_neg (fun h => hov h.2)]
  | a :: b :: r, _ =>
    rw [applyGroup_many]
    cases hno : (a :: b :: r).find? (fun tr => gp == tr.outputPath) with
    | some n =>
      have hn1 : gp = n.outputPath := by simpa using List.find?_some hno
      obtain ⟨t', h1, h2, h3, h4, h5⟩ := copies_spec (gp := gp) (d := d) (fun tr => tr == n)
        (a :: b :: r) t hI hp hget hslots
      have hskip : ∀ x : Transpo, (x == n) = true → x.outputPath = gp := by
        intro x hx
        rw [transpo_beq.mp hx, ← hn1]
      have hgp' : t'.get gp = some (.file d) := by
        by_cases hex : ∃ y ∈ a :: b :: r, (y == n) = false ∧ y.outputPath = gp
        · obtain ⟨y, hy, hy1, hy2⟩ := hex
          rw [← hy2]
          exact h4 y hy hy1
        · rw [h5, hget]
          intro y hy hy1 hy2
          exact hex ⟨y, hy, hy1, hy2⟩
      refine ⟨t', ?_, h2, h3, ?_, ?_, ?_⟩
      · simp only [applyMany, hno, bind, Except.bind]
        rw [zip_fold_skip' _ (fun t tr => if tr == n then .ok t else copyFile t gp tr.outputPath true)
          (fun _ _ _ => rfl) _ _ _ (by simp)]
        simp only [h1]
      · intro x hx
        cases hsk : (x == n) with
        | true => rw [hskip x hsk]; exact hgp'
        | false => exact h4 x hx hsk
      · intro _ h
        exact absurd hn1.symm (h n (List.mem_of_find?_eq_some hno))
      · intro q hq _
        exact h5 q (fun x hx _ => hq x hx)
    | none =>
      have hnone : ∀ x ∈ a :: b :: r, gp ≠ x.outputPath := by
        intro x hx
        have := List.find?_eq_none.mp hno x hx
        simpa using this
      obtain ⟨t1, h1, h2, h3, h4, h5⟩ := copies_spec (gp := gp) (d := d) (fun _ => false)
        (b :: r) t hI hp hget (fun x hx => hslots x (by simp [hx]))
      have hg1 : t1.get gp = some (.file d) := by
        rw [h5, hget]
        intro x hx _ h
        exact hnone x (by simp [hx]) h.symm
      obtain ⟨t', l1, l2, l3, l4⟩ := lastStep_spec h2 ov (hp.sameX h3) hg1
        ((hslots a (by simp)).sameX h2 h3) (hnone a (by simp))
      refine ⟨t', ?_, l2, h3.trans l3, ?_, ?_, ?_⟩
      · simp only [applyMany, hno, bind, Except.bind]
        have hz : (List.range (a :: b :: r).length).zip (a :: b :: r) =
            (0, a) :: (List.range' 1 (b :: r).length).zip (b :: r) := by
          simp only [List.length_cons, List.range_eq_range', List.range'_succ, List.zip_cons_cons]
        rw [hz]
        simp only [List.foldlM_cons, if_true, bind, Except.bind]
        rw [zip_fold_pos' _ (fun t tr => if (fun _ => false) tr then .ok t else copyFile t gp tr.outputPath true)
          (by intro t i tr hi; simp only [if_neg hi]; rfl) _ _ _ (by omega)]
        simp only [h1]
        exact l1
      · intro x hx
        rw [l4]
        by_cases hxa : x.outputPath = a.outputPath
        · rw [if_pos hxa]
        · rw [if_neg hxa, if_neg (fun h => hnone x hx h.1.symm)]
          simp only [List.mem_cons] at hx
          rcases hx with rfl | hx
          · exact absurd rfl hxa
          · exact h4 x (by simpa using hx) rfl
      · intro hov _
        rw [l4, if_neg (hnone a (by simp)), if_pos ⟨rfl, hov⟩]
      · intro q hq hq2
        rw [l4, if_neg (fun h => hq a (by simp) h.symm)]
        have : ¬ (q = gp ∧ ov = false) := fun h => hq2 h.2 h.1
        rw [if_neg this]
        exact h5 q (fun x hx _ => hq x (by simp [hx]))


/-! ### the second pass, by induction over the visited keys; the conclusion only mentions membership -/

theorem secondPass_spec (S : Path → Prop) (G : Path → List Transpo) (c : Path → List Byte) (ov : Path → Bool)
    (hG : ∀ p, ∀ tr ∈ G p, tr.targetPath = p) :
    ∀ (L : List Path) (t : Tree), TInv t → L.Nodup → (∀ p ∈ L, G p ≠ []) →
    (∀ p ∈ L, ∀ p' ∈ L, p ≠ p' → ∀ tr ∈ G p, ∀ tr' ∈ G p', tr.outputPath ≠ tr'.outputPath) →
    (∀ p ∈ L, ∀ tr ∈ G p, ∀ p' ∈ L, tr.outputPath = p' → p' = p) →
    (∀ p ∈ L, XPlain S t p ∧ t.get p = some (.file (c p))) →
    (∀ p ∈ L, ∀ tr ∈ G p, XSlot S t tr.outputPath) →
    ∃ t', L.foldlM (fun t p => applyGroup t (ov p) p (G p)) t = .ok t' ∧ TInv t' ∧ SameX S t t' ∧
      (∀ p ∈ L, ∀ tr ∈ G p, t'.get tr.outputPath = some (.file (c p))) ∧
      (∀ p ∈ L, ov p = false → (∀ tr ∈ G p, tr.outputPath ≠ p) → t'.get p = none) ∧
      (∀ q, (∀ p ∈ L, ∀ tr ∈ G p, tr.outputPath ≠ q) → (∀ p ∈ L, ov p = false → q ≠ p) →
        t'.get q = t.get q) := by
  intro L
  induction L with
  | nil =>
    intro t hI _ _ _ _ _ _
    exact ⟨t, rfl, hI, SameX.refl S t, by simp, by simp, fun _ _ _ => rfl⟩
  | cons p L ih =>
    intro t hI hnd hne hK3 hK4 hsrc hslot
    simp only [List.nodup_cons] at hnd
    obtain ⟨hpp, hpg⟩ := hsrc p (by simp)
    obtain ⟨t1, a1, a2, a3, a4, a5, a6⟩ := applyGroup_spec hI (ov p) (hne p (by simp)) (hG p) hpp hpg
      (hslot p (by simp))
    have hpL : ∀ p' ∈ L, p' ≠ p := fun p' hp' h => hnd.1 (h ▸ hp')
    obtain ⟨t', b1, b2, b3, b4, b5, b6⟩ := ih t1 a2 hnd.2 (fun q hq => hne q (by simp [hq]))
      (fun q hq q' hq' => hK3 q (by simp [hq]) q' (by simp [hq']))
      (fun q hq tr htr q' hq' => hK4 q (by simp [hq]) tr htr q' (by simp [hq']))
      (by
        intro p' hp'
        obtain ⟨h1, h2⟩ := hsrc p' (by simp [hp'])
        refine ⟨h1.sameX a3, ?_⟩
        rw [a6 p' ?_ (fun _ => hpL p' hp'), h2]
        intro tr htr h
        exact hpL p' hp' (hK4 p (by simp) tr htr p' (by simp [hp']) h))
      (fun q hq tr htr => (hslot q (by simp [hq]) tr htr).sameX a2 a3)
    refine ⟨t', by simp only [List.foldlM_cons, bind, Except.bind, a1, b1], b2, a3.trans b3, ?_, ?_, ?_⟩
    · intro p0 hp0 tr htr
      simp only [List.mem_cons] at hp0
      rcases hp0 with rfl | hp0
      · rw [b6, a4 tr htr]
        · intro p' hp' tr' htr' h
          exact hK3 p0 (by simp) p' (by simp [hp']) (fun h => hpL p' hp' h.symm) tr htr tr' htr' h.symm
        · intro p' hp' _ h
          exact hpL p' hp' (hK4 p0 (by simp) tr htr p' (by simp [hp']) h)
      · exact b4 p0 hp0 tr htr
    · intro p0 hp0 hov hno
      simp only [List.mem_cons] at hp0
      rcases hp0 with rfl | hp0
      · rw [b6, a5 hov hno]
        · intro p' hp' tr' htr' h
          exact hpL p' hp' (hK4 p' (by simp [hp']) tr' htr' p0 (by simp) h).symm
        · intro p' hp' _ h
          exact hpL p' hp' h.symm
      · exact b5 p0 hp0 hov hno
    · intro q hq1 hq2
      rw [b6 q (fun p' hp' => hq1 p' (by simp [hp'])) (fun p' hp' => hq2 p' (by simp [hp'])),
        a6 q (hq1 p (by simp)) (hq2 p (by simp))]

/-- The cleanup renames, each onto whatever stands at its destination — nothing, a regular file, a symlink, a
    directory with all that is still below it (`moveFile_specD`).  `K` is a set of directories the renames leave
    alone and that holds the parents of all sources and destinations. -/
theorem cleanup_specD (c : Transpo → List Byte) (K : Path → Prop) : ∀ (C : List Transpo) (t : Tree), TInv t →
    (C.map (·.targetPath)).Nodup → (C.map (·.outputPath)).Nodup →
    (∀ x ∈ C, ∀ y ∈ C, x.targetPath ≠ y.outputPath ∧ isPrefix y.outputPath x.targetPath = false ∧
      isPrefix y.outputPath x.outputPath = false) →
    (∀ x ∈ C, x.targetPath ≠ [] ∧ x.outputPath ≠ [] ∧ ".." ∉ x.targetPath.dropLast ∧
      ".." ∉ x.outputPath.dropLast ∧ K x.targetPath.dropLast ∧ K x.outputPath.dropLast) →
    (∀ q, K q → IsDir t q) →
    (∀ x ∈ C, ∀ q, K q → q ≠ x.targetPath ∧ q ≠ x.outputPath ∧ isPrefix x.outputPath q = false) →
    (∀ x ∈ C, t.get x.targetPath = some (.file (c x))) →
    ∃ t', C.foldlM (fun t x => moveFile t x.targetPath x.outputPath) t = .ok t' ∧ TInv t' ∧
      (∀ x ∈ C, t'.get x.outputPath = some (.file (c x)) ∧ t'.get x.targetPath = none) ∧
      (∀ q, (∀ x ∈ C, q ≠ x.targetPath ∧ q ≠ x.outputPath ∧ isPrefix x.outputPath q = false) →
        t'.get q = t.get q) := by
  intro C
  induction C with
  | nil =>
    intro t hI _ _ _ _ _ _ _
    exact ⟨t, rfl, hI, by simp, fun _ _ => rfl⟩
  | cons x C ih =>
    intro t hI hnt hno hdis hC hK hKx hg
    simp only [List.map_cons, List.nodup_cons, List.mem_map, not_exists, not_and] at hnt hno
    obtain ⟨x1, x2, x3, x4, x5, x6⟩ := hC x (by simp)
    obtain ⟨d1, d2, _⟩ := hdis x (by simp) x (by simp)
    obtain ⟨t1, a1, a2, a4⟩ := moveFile_specD hI ⟨x1, hK _ x5, x3⟩ (hg x (by simp)) ⟨x2, hK _ x6, x4⟩ d1 d2
    have hkeep : ∀ q, q ≠ x.targetPath → q ≠ x.outputPath → isPrefix x.outputPath q = false →
        t1.get q = t.get q := by
      intro q h1 h2 h3
      rw [a4, if_neg h2, if_neg h1, if_neg (by rw [h3]; simp)]
    obtain ⟨t', b1, b2, b4, b5⟩ := ih t1 a2 hnt.2 hno.2
      (fun y hy z hz => hdis y (by simp [hy]) z (by simp [hz]))
      (fun y hy => hC y (by simp [hy]))
      (by
        intro q hq
        obtain ⟨k1, k2, k3⟩ := hKx x (by simp) q hq
        simp only [IsDir]
        rw [hkeep q k1 k2 k3]
        exact hK q hq)
      (fun y hy => hKx y (by simp [hy]))
      (by
        intro y hy
        obtain ⟨e1, e2, _⟩ := hdis y (by simp [hy]) x (by simp)
        rw [hkeep _ (hnt.1 y hy) e1 e2]
        exact hg y (by simp [hy]))
    refine ⟨t', by simp only [List.foldlM_cons, bind, Except.bind, a1, b1], b2, ?_, ?_⟩
    · intro y hy
      simp only [List.mem_cons] at hy
      rcases hy with rfl | hy
      · constructor
        · rw [b5, a4, if_pos rfl]
          intro z hz
          obtain ⟨e1, _, e3⟩ := hdis z (by simp [hz]) y (by simp)
          obtain ⟨_, _, f3⟩ := hdis y (by simp) z (by simp [hz])
          exact ⟨fun h => e1 h.symm, fun h => hno.1 z hz h.symm, f3⟩
        · rw [b5, a4, if_neg d1, if_pos rfl]
          intro z hz
          obtain ⟨f1, f2, _⟩ := hdis y (by simp) z (by simp [hz])
          exact ⟨fun h => hnt.1 z hz h.symm, f1, f2⟩
      · exact b4 y hy
    · intro q hq
      obtain ⟨q1, q2, q3⟩ := hq x (by simp)
      rw [b5 q (fun y hy => hq y (by simp [hy])), hkeep q q1 q2 q3]

/-! ### the first pass as a renaming `ρ` of output paths -/

def ren (ρ : Path → Path) (tr : Transpo) : Transpo :=
  { targetPath := tr.targetPath, outputPath := ρ tr.outputPath }

/-- a clash-prone transposition: it is not a no-op and its output is some group's source -/
def Clash (sources : List Path) (tr : Transpo) : Prop :=
  tr.targetPath ≠ tr.outputPath ∧ tr.outputPath ∈ sources

instance (sources : List Path) (tr : Transpo) : Decidable (Clash sources tr) := by
  unfold Clash; infer_instance

def clOf (sources : List Path) (ρ : Path → Path) (tr : Transpo) : Option Transpo :=
  if Clash sources tr then some { targetPath := ρ tr.outputPath, outputPath := tr.outputPath } else none

/-- what the first pass guarantees about the renaming: an output that is not clash-prone keeps its path; a
    clash-prone one gets a temporary name which (for a non-empty output path) is not a path in use — the
    postcondition of the skip loop -/
def Good (sources used : List Path) (ρ : Path → Path) (tr : Transpo) : Prop :=
  (¬ Clash sources tr → ρ tr.outputPath = tr.outputPath) ∧
  (Clash sources tr → ∃ k, ρ tr.outputPath = seedName tr.outputPath k ∧
    (tr.outputPath ≠ [] → seedName tr.outputPath k ∉ used))

theorem ren_congr {ρ ρ' : Path → Path} {tr : Transpo} (h : ρ tr.outputPath = ρ' tr.outputPath) :
    ren ρ tr = ren ρ' tr := by simp only [ren, h]

theorem clOf_congr {sources : List Path} {ρ ρ' : Path → Path} {tr : Transpo}
    (h : ρ tr.outputPath = ρ' tr.outputPath) : clOf sources ρ tr = clOf sources ρ' tr := by
  simp only [clOf, h]

theorem Good_congr {sources used : List Path} {ρ ρ' : Path → Path} {tr : Transpo}
    (h : ρ tr.outputPath = ρ' tr.outputPath) (hg : Good sources used ρ tr) : Good sources used ρ' tr := by
  simp only [Good, ← h]; exact hg

theorem rwTr_ren {sources used : List Path} {seed : Nat} {tr : Transpo} {ρ : Path → Path}
    (h : ρ tr.outputPath = (rwTr sources used seed tr).2.2.outputPath) :
    (rwTr sources used seed tr).2.2 = ren ρ tr ∧ (rwTr sources used seed tr).2.1 = (clOf sources ρ tr).toList ∧
      Good sources used ρ tr := by
  by_cases h1 : (tr.targetPath == tr.outputPath) = true
  · have hc : ¬ Clash sources tr := fun hc => hc.1 (by simpa using h1)
    rw [rwTr_noop h1] at h ⊢
    simp only at h
    refine ⟨?_, ?_, ?_⟩
    · simp only [ren, h]
    · simp only [clOf, if_neg hc, Option.toList_none]
    · exact ⟨fun _ => h, fun hc' => absurd hc' hc⟩
  · by_cases h2 : sources.contains tr.outputPath = true
    · have hc : Clash sources tr := ⟨by simpa using h1, by simpa using h2⟩
      rw [rwTr_clash h1 h2] at h ⊢
      simp only at h
      refine ⟨?_, ?_, ?_⟩
      · simp only [ren, h]
      · simp only [clOf, if_pos hc, Option.toList_some, h]
      · exact ⟨fun hc' => absurd hc hc', fun _ => ⟨_, h, fun hne => nextFree_fresh used hne _⟩⟩
    · have hc : ¬ Clash sources tr := fun hc => h2 (by simpa using hc.2)
      rw [rwTr_keep h1 h2] at h ⊢
      simp only at h
      refine ⟨?_, ?_, ?_⟩
      · simp only [ren, h]
      · simp only [clOf, if_neg hc, Option.toList_none]
      · exact ⟨fun _ => h, fun hc' => absurd hc' hc⟩

theorem filterMap_cons_toList {α β} (f : α → Option β) (a : α) (l : List α) :
    (a :: l).filterMap f = (f a).toList ++ l.filterMap f := by
  cases h : f a <;> simp [h]

theorem filterMap_congr' {α β} {f g : α → Option β} : ∀ {l : List α}, (∀ a ∈ l, f a = g a) →
    l.filterMap f = l.filterMap g
  | [], _ => rfl
  | a :: l, h => by
    rw [filterMap_cons_toList, filterMap_cons_toList, h a (by simp),
      filterMap_congr' (l := l) (fun b hb => h b (by simp [hb]))]

theorem rwGroup_ren (sources used : List Path) : ∀ (g : List Transpo) (seed : Nat),
    (g.map (·.outputPath)).Nodup →
    ∃ ρ : Path → Path, (rwGroup sources used seed g).2.2 = g.map (ren ρ) ∧
      (rwGroup sources used seed g).2.1 = g.filterMap (clOf sources ρ) ∧ ∀ tr ∈ g, Good sources used ρ tr := by
  intro g
  induction g with
  | nil => intro seed _; exact ⟨id, rfl, rfl, by simp⟩
  | cons tr g ih =>
    intro seed hnd
    simp only [List.map_cons, List.nodup_cons, List.mem_map, not_exists, not_and] at hnd
    obtain ⟨ρ1, h1, h2, h3⟩ := ih (rwTr sources used seed tr).1 hnd.2
    let ρ : Path → Path := fun o => if o = tr.outputPath then (rwTr sources used seed tr).2.2.outputPath else ρ1 o
    have hρtr : ρ tr.outputPath = (rwTr sources used seed tr).2.2.outputPath := by simp [ρ]
    have hρg : ∀ x ∈ g, ρ1 x.outputPath = ρ x.outputPath := by
      intro x hx
      have : x.outputPath ≠ tr.outputPath := hnd.1 x hx
      simp [ρ, this]
    obtain ⟨a1, a2, a3⟩ := rwTr_ren hρtr
    refine ⟨ρ, ?_, ?_, ?_⟩
    · simp only [rwGroup, List.map_cons, a1, h1]
      congr 1
      exact List.map_congr_left (fun x hx => ren_congr (hρg x hx))
    · simp only [rwGroup, filterMap_cons_toList, a2, h2]
      congr 1
      exact filterMap_congr' (fun x hx => clOf_congr (hρg x hx))
    · intro x hx
      simp only [List.mem_cons] at hx
      rcases hx with rfl | hx
      · exact a3
      · exact Good_congr (hρg x hx) (h3 x hx)

theorem rwGroups_ren (sources used : List Path) : ∀ (gs : List (Path × List Transpo)) (seed : Nat),
    ((gs.flatMap (·.2)).map (·.outputPath)).Nodup →
    ∃ ρ : Path → Path, (rwGroups sources used seed gs).1 = gs.map (fun x => (x.1, x.2.map (ren ρ))) ∧
      (rwGroups sources used seed gs).2 = (gs.flatMap (·.2)).filterMap (clOf sources ρ) ∧
      ∀ tr ∈ gs.flatMap (·.2), Good sources used ρ tr := by
  intro gs
  induction gs with
  | nil => intro seed _; exact ⟨id, rfl, rfl, by simp⟩
  | cons x gs ih =>
    intro seed hnd
    obtain ⟨gp, g⟩ := x
    simp only [List.flatMap_cons, List.map_append, List.nodup_append] at hnd
    obtain ⟨hnd1, hnd2, hdis⟩ := hnd
    obtain ⟨ρh, a1, a2, a3⟩ := rwGroup_ren sources used g seed hnd1
    obtain ⟨ρt, b1, b2, b3⟩ := ih (rwGroup sources used seed g).1 hnd2
    let ρ : Path → Path := fun o => if o ∈ g.map (·.outputPath) then ρh o else ρt o
    have hρh : ∀ y ∈ g, ρh y.outputPath = ρ y.outputPath := by
      intro y hy
      have : y.outputPath ∈ g.map (·.outputPath) := List.mem_map.mpr ⟨y, hy, rfl⟩
      show _ = if _ then _ else _
      rw [if_pos this]
    have hρt : ∀ y ∈ gs.flatMap (·.2), ρt y.outputPath = ρ y.outputPath := by
      intro y hy
      have : y.outputPath ∉ g.map (·.outputPath) := by
        intro hm
        exact hdis _ hm _ (List.mem_map.mpr ⟨y, hy, rfl⟩) rfl
      show _ = if _ then _ else _
      rw [if_neg this]
    refine ⟨ρ, ?_, ?_, ?_⟩
    · simp only [rwGroups, List.map_cons, a1, b1]
      congr 1
      · congr 1
        exact List.map_congr_left (fun y hy => ren_congr (hρh y hy))
      · apply List.map_congr_left
        intro x hx
        congr 1
        apply List.map_congr_left
        intro y hy
        exact ren_congr (hρt y (List.mem_flatMap.mpr ⟨x, hx, hy⟩))
    · simp only [rwGroups, List.flatMap_cons, List.filterMap_append, a2, b2]
      congr 1
      · exact filterMap_congr' (fun y hy => clOf_congr (hρh y hy))
      · exact filterMap_congr' (fun y hy => clOf_congr (hρt y hy))
    · intro y hy
      simp only [List.flatMap_cons, List.mem_append] at hy
      rcases hy with hy | hy
      · exact Good_congr (hρh y hy) (a3 y hy)
      · exact Good_congr (hρt y hy) (b3 y hy)


/-! ### list bookkeeping for the transposition phase -/

theorem nodup_eraseDups {α} [BEq α] [LawfulBEq α] : ∀ (n : Nat) (l : List α), l.length ≤ n → l.eraseDups.Nodup := by
  intro n
  induction n with
  | zero =>
    intro l hl
    have : l = [] := List.eq_nil_of_length_eq_zero (by omega)
    subst this
    simp
  | succ n ih =>
    intro l hl
    cases l with
    | nil => simp
    | cons a l =>
      rw [List.eraseDups_cons, List.nodup_cons]
      constructor
      · rw [List.mem_eraseDups, List.mem_filter]
        simp
      · apply ih
        have := List.length_filter_le (fun b => !b == a) l
        simp only [List.length_cons] at hl
        omega

theorem inj_of_nodup_map {α β} (f : α → β) : ∀ {l : List α}, (l.map f).Nodup → ∀ {a b : α}, a ∈ l → b ∈ l →
    f a = f b → a = b
  | [], _, _, _, h, _, _ => by cases h
  | x :: l, hnd, a, b, ha, hb, hab => by
    simp only [List.map_cons, List.nodup_cons, List.mem_map, not_exists, not_and] at hnd
    simp only [List.mem_cons] at ha hb
    rcases ha with rfl | ha <;> rcases hb with rfl | hb
    · rfl
    · exact absurd hab.symm (hnd.1 b hb)
    · exact absurd hab (hnd.1 a ha)
    · exact inj_of_nodup_map f hnd.2 ha hb hab

theorem filterMap_eq_map' {α β} {f : α → Option β} {g : α → β} : ∀ {l : List α},
    (∀ a ∈ l, f a = some (g a)) → l.filterMap f = l.map g
  | [], _ => rfl
  | a :: l, h => by
    rw [filterMap_cons_toList, h a (by simp), List.map_cons,
      filterMap_eq_map' (l := l) (fun b hb => h b (by simp [hb]))]
    rfl

theorem find?_map_key {β} (f : Path → β) : ∀ {L : List Path} {p : Path}, p ∈ L →
    (L.map (fun q => (q, f q))).find? (fun x => x.1 == p) = some (p, f p)
  | [], _, h => by cases h
  | q :: L, p, h => by
    by_cases hq : q = p
    · subst hq; simp
    · have : (q == p) = false := by simpa using hq
      simp only [List.map_cons, List.find?_cons, this]
      simp only [List.mem_cons] at h
      rcases h with h | h
      · exact absurd h.symm hq
      · exact find?_map_key f h

def tsOf (old new : Build) (w : Work) : List Transpo :=
  w.transpositions.filterMap fun (s, tg) =>
    match new.files[s]?, old.files[tg]? with
    | some (np, _), some (op, _) => some { targetPath := op, outputPath := np }
    | _, _ => none

def ovPaths (new : Build) (w : Work) : List Path :=
  w.overlayFiles.filterMap fun i => (new.files[i]?).map (·.1)

def srcsOf (old new : Build) (w : Work) : List Path := ((tsOf old new w).map (·.targetPath)).eraseDups

/-- the transpositions as `applyTranspositions` sees them after `moveSourcesAside`: a source that stepped aside
    is read from its aside path -/
def tsOfA (aside : List (Path × Path)) (old new : Build) (w : Work) : List Transpo :=
  w.transpositions.filterMap fun (s, tg) =>
    match new.files[s]?, old.files[tg]? with
    | some (np, _), some (op, _) => some { targetPath := asideOf aside op, outputPath := np }
    | _, _ => none

def srcsOfA (aside : List (Path × Path)) (old new : Build) (w : Work) : List Path :=
  ((tsOfA aside old new w).map (·.targetPath)).eraseDups

theorem applyTranspositions_eqA (old new : Build) (w : Work) (o₁ o₂ : List Path) (t : Tree)
    (aside : List (Path × Path)) :
    applyTranspositions old new w o₁ o₂ t aside =
      (do
        let t ← ((o₂.map (asideOf aside)).filterMap fun p =>
            (safePass (groupsOf (tsOfA aside old new w) (o₁.map (asideOf aside))) (srcsOfA aside old new w)
              (pathsOf old ++ pathsOf new) old.dirs).1.find? (·.1 == p)).foldlM
          (fun t (x : Path × List Transpo) => applyGroup t ((ovPaths new w).contains x.1) x.1 x.2) t
        (safePass (groupsOf (tsOfA aside old new w) (o₁.map (asideOf aside))) (srcsOfA aside old new w)
            (pathsOf old ++ pathsOf new) old.dirs).2.foldlM
          (fun t c => moveFile t c.targetPath c.outputPath) t) := rfl

theorem tsOfA_nil (old new : Build) (w : Work) : tsOfA [] old new w = tsOf old new w := rfl

theorem srcsOfA_nil (old new : Build) (w : Work) : srcsOfA [] old new w = srcsOf old new w := rfl

theorem applyTranspositions_eq (old new : Build) (w : Work) (o₁ o₂ : List Path) (t : Tree) :
    applyTranspositions old new w o₁ o₂ t =
      (do
        let t ← (o₂.filterMap fun p =>
            (safePass (groupsOf (tsOf old new w) o₁) (srcsOf old new w) (pathsOf old ++ pathsOf new) old.dirs).1.find? (·.1 == p)).foldlM
          (fun t (x : Path × List Transpo) => applyGroup t ((ovPaths new w).contains x.1) x.1 x.2) t
        (safePass (groupsOf (tsOf old new w) o₁) (srcsOf old new w) (pathsOf old ++ pathsOf new) old.dirs).2.foldlM
          (fun t c => moveFile t c.targetPath c.outputPath) t) := by
  rw [applyTranspositions_eqA, map_asideOf_nil, map_asideOf_nil, tsOfA_nil, srcsOfA_nil]

theorem mem_tsOf {old new : Build} {w : Work} {tr : Transpo} :
    tr ∈ tsOf old new w ↔ ∃ st ∈ w.transpositions, ∃ d d', new.files[st.1]? = some (tr.outputPath, d) ∧
      old.files[st.2]? = some (tr.targetPath, d') := by
  simp only [tsOf, List.mem_filterMap]
  constructor
  · rintro ⟨⟨s, tg⟩, hst, h⟩
    refine ⟨(s, tg), hst, ?_⟩
    simp only at h ⊢
    split at h
    · rename_i np d op d' h1 h2
      cases h
      exact ⟨d, d', h1, h2⟩
    · cases h
  · rintro ⟨⟨s, tg⟩, hst, d, d', h1, h2⟩
    refine ⟨(s, tg), hst, ?_⟩
    simp only at h1 h2 ⊢
    rw [h1, h2]

theorem tsOf_outputs_nodup {old new : Build} {w : Work} (hn : BWF new) (hw : WOK old new w) :
    ((tsOf old new w).map (·.outputPath)).Nodup := by
  have h1 : w.transpositions.Pairwise (fun a b => a.1 ≠ b.1) := by
    have := hw.nodupT
    rwa [List.Nodup, List.pairwise_map] at this
  rw [List.Nodup, List.pairwise_map, tsOf, List.pairwise_filterMap]
  apply h1.imp
  intro a b hab x hx y hy hxy
  obtain ⟨s, tg⟩ := a
  obtain ⟨s', tg'⟩ := b
  simp only at hx hy hab
  split at hx
  · rename_i np d op d' e1 e2
    split at hy
    · rename_i np' d2 op' d2' e1' e2'
      simp only [Option.some.injEq] at hx hy
      subst hx; subst hy
      simp only at hxy
      exact hab (hn.filesInj _ _ _ _ _ _ e1 e1' hxy)
    · cases hy
  · cases hx


theorem mem_flat_groups {ts : List Transpo} {o : List Path} {tr : Transpo} :
    tr ∈ o.flatMap (fun p => ts.filter (·.targetPath == p)) ↔ tr ∈ ts ∧ tr.targetPath ∈ o := by
  simp only [List.mem_flatMap, List.mem_filter, beq_iff_eq]
  constructor
  · rintro ⟨p, hp, h1, h2⟩
    exact ⟨h1, h2 ▸ hp⟩
  · rintro ⟨h1, h2⟩
    exact ⟨_, h2, h1, rfl⟩

theorem flat_groupsOf (ts : List Transpo) (o : List Path) :
    (groupsOf ts o).flatMap (·.2) = o.flatMap (fun p => ts.filter (·.targetPath == p)) := by
  simp only [groupsOf, List.flatMap_map]

theorem flat_groups_nodup {ts : List Transpo} (hts : (ts.map (·.outputPath)).Nodup) :
    ∀ {o : List Path}, o.Nodup →
    ((o.flatMap (fun p => ts.filter (·.targetPath == p))).map (·.outputPath)).Nodup := by
  intro o
  induction o with
  | nil => intro _; simp
  | cons p o ih =>
    intro hnd
    simp only [List.nodup_cons] at hnd
    simp only [List.flatMap_cons, List.map_append, List.nodup_append]
    refine ⟨?_, ih hnd.2, ?_⟩
    · exact List.Nodup.sublist (List.Sublist.map _ List.filter_sublist) hts
    · intro a ha b hb hab
      obtain ⟨x, hx, rfl⟩ := List.mem_map.mp ha
      obtain ⟨y, hy, rfl⟩ := List.mem_map.mp hb
      simp only [List.mem_filter, beq_iff_eq] at hx
      obtain ⟨hy1, hy2⟩ := mem_flat_groups.mp hy
      have := inj_of_nodup_map _ hts hx.1 hy1 hab
      subst this
      rw [hx.2] at hy2
      exact hnd.1 hy2

/-- an old directory is still a directory after `ensureDirs` (whatever kinds change) -/
theorem Ensured.oldDir {old new : Build} (ho : BWF old) {t₁ : Tree}
    (he : Ensured new (treeOfBuild old) t₁) {q : Path} (hq : q ∈ old.dirs) : t₁.get q = some .dir := by
  by_cases hqn : q ∈ new.dirs
  · exact he.dirs q hqn
  · rw [he.other q hqn]
    exact get_dir_treeOfBuild ho hq

/-- an old regular file is still there, with its old content, after `ensureDirs` -/
theorem Ensured.oldFile {old new : Build} (ho : BWF old) (hn : BWF new) (hk : NKC old new) {t₁ : Tree}
    (he : Ensured new (treeOfBuild old) t₁) {p : Path} {d : List Byte} (hp : (p, d) ∈ old.files) :
    Plain t₁ p ∧ t₁.get p = some (.file d) := by
  have hpf : p ∈ old.files.map (·.1) := List.mem_map.mpr ⟨_, hp, rfl⟩
  have hpo : p ∈ pathsOf old := mem_pathsOf.mpr (Or.inr (Or.inr hpf))
  obtain ⟨h1, h2⟩ := hk.old_file ho hn hpf
  refine ⟨⟨ho.ne hpo, ?_, fun h => ho.nodd hpo (mem_of_mem_dropLast h)⟩, ?_⟩
  · rcases ho.parent_mem hpo with h0 | h0
    · rw [h0]; exact isDir_nil _
    · exact he.oldDir ho h0
  · rw [he.other p h1]
    exact get_file_treeOfBuild ho hp

/-- a temporary name that is not a path of either build (what the skip loop guarantees) is a free slot after
    `ensureDirs` -/
theorem Ensured.slot_of_temp {old new : Build} (hn : BWF new) {t₁ : Tree}
    (he : Ensured new (treeOfBuild old) t₁) {p : Path} (hp : p ∈ new.files.map (·.1)) {k : Nat}
    (hnot : seedName p k ∉ pathsOf old ++ pathsOf new) :
    Slot t₁ (seedName p k) ∧ t₁.get (seedName p k) = none := by
  have hpn : p ∈ pathsOf new := mem_pathsOf.mpr (Or.inr (Or.inr hp))
  have hne := hn.ne hpn
  have hpl := he.plain_of_new hn hpn
  simp only [List.mem_append, not_or] at hnot
  have hg : t₁.get (seedName p k) = none := by
    rw [he.other _ (fun h => hnot.2 (mem_pathsOf.mpr (Or.inl h)))]
    exact get_none_treeOfBuild (seedName_ne_nil hne k) hnot.1
  refine ⟨⟨⟨seedName_ne_nil hne k, ?_, ?_⟩, by rw [hg]; rfl⟩, hg⟩
  · rw [seedName_dropLast hne]; exact hpl.parent
  · rw [seedName_dropLast hne]; exact hpl.nodd


/-- content of an old file -/
def oldContent (old : Build) (p : Path) : List Byte :=
  ((old.files.find? (fun e => e.1 == p)).map (·.2)).getD []

theorem oldContent_of_mem {old : Build} (ho : BWF old) {p : Path} {d : List Byte} (h : (p, d) ∈ old.files) :
    oldContent old p = d := by
  simp only [oldContent, find?_key_of_nodup ho.files_nodup h, Option.map_some, Option.getD_some]

theorem files_content_unique {b : Build} (hb : BWF b) {p : Path} {d d' : List Byte}
    (h : (p, d) ∈ b.files) (h' : (p, d') ∈ b.files) : d = d' := by
  have := inj_of_nodup_map (·.1) hb.files_nodup h h' rfl
  exact (Prod.mk.inj this).2

/-- The transposition phase on a tree `t₁` in which every output path is a slot, every temporary name that is
    not a path of either build is a free slot, and every source still holds its old content.  (Stated without
    reference to how `t₁` came about, so that it serves both under `NKC` and under the weaker `BKC` of
    Wharf/Proofs/CommitKinds.lean.) -/
theorem transp_core {old new : Build} (ho : BWF old) (hn : BWF new) (S : Path → Prop)
    (ts : List Transpo) (srcs od o₁ o₂ ovp : List Path)
    (hT1 : (ts.map (·.outputPath)).Nodup)
    (hT2 : ∀ tr ∈ ts, ∃ d, (tr.targetPath, d) ∈ old.files ∧ (tr.outputPath, d) ∈ new.files)
    (hsrc : ∀ p, p ∈ srcs ↔ ∃ tr ∈ ts, tr.targetPath = p)
    (ho₁ : o₁.Nodup) (hm₁ : ∀ p, p ∈ o₁ ↔ p ∈ srcs) (ho₂ : o₂.Nodup) (hm₂ : ∀ p, p ∈ o₂ ↔ p ∈ srcs)
    (hov : ∀ p ∈ ovp, ∀ tr ∈ ts, tr.outputPath ≠ p ∧ isPrefix tr.outputPath p = false)
    {t₁ : Tree} (hI₁ : TInv t₁)
    (hS : ∀ q, S q → q ∈ new.files.map (·.1))
    (hdirs : ∀ q ∈ new.dirs, t₁.get q = some .dir)
    (hslot : ∀ tr ∈ ts, ¬ Clash (srcs ++ od) tr → XSlot S t₁ tr.outputPath)
    (htemp : ∀ tr ∈ ts, ∀ k, seedName tr.outputPath k ∉ pathsOf old ++ pathsOf new →
      XSlot S t₁ (seedName tr.outputPath k) ∧ t₁.get (seedName tr.outputPath k) = none)
    (hsrcOK : ∀ p ∈ srcs, ∀ d, (p, d) ∈ old.files → XPlain S t₁ p ∧ t₁.get p = some (.file d)) :
    ∃ t₂,
      (do
        let t ← (o₂.filterMap fun p =>
            (safePass (groupsOf ts o₁) srcs (pathsOf old ++ pathsOf new) od).1.find? (fun (x : Path × List Transpo) => x.1 == p)).foldlM
          (fun t (x : Path × List Transpo) => applyGroup t (ovp.contains x.1) x.1 x.2) t₁
        (safePass (groupsOf ts o₁) srcs (pathsOf old ++ pathsOf new) od).2.foldlM
          (fun t (c : Transpo) => moveFile t c.targetPath c.outputPath) t) =
        .ok t₂ ∧
      TInv t₂ ∧
      (∀ q, ¬ S q →
        (∀ tr ∈ ts, Clash (srcs ++ od) tr → q ≠ tr.outputPath ∧ isPrefix tr.outputPath q = false) →
        nf (t₂.get q) = nf (t₁.get q)) ∧
      (∀ tr ∈ ts, ∀ d, (tr.outputPath, d) ∈ new.files → t₂.get tr.outputPath = some (.file d)) ∧
      (∀ p ∈ ovp, p ∈ old.files.map (·.1) → t₂.get p = t₁.get p) ∧
      (∀ q, q ∉ srcs → (∀ tr ∈ ts, tr.outputPath ≠ q) →
        (∀ tr ∈ ts, Clash (srcs ++ od) tr → isPrefix tr.outputPath q = false) → t₂.get q = t₁.get q) ∧
      -- a source that is not patched through an overlay, is not a path of the new build and does not look like a
      -- temporary name is gone: the last member of its group was a rename
      (∀ p ∈ srcs, ovp.contains p = false → p ∉ pathsOf new →
        (∀ tr ∈ ts, ∀ k, seedName tr.outputPath k ≠ p) → (∀ tr ∈ ts, isPrefix tr.outputPath p = false) →
        t₂.get p = none) := by
  -- basic facts about the transpositions
  have hout_new : ∀ tr ∈ ts, tr.outputPath ∈ new.files.map (·.1) := by
    intro tr htr
    obtain ⟨d, _, h⟩ := hT2 tr htr
    exact List.mem_map.mpr ⟨_, h, rfl⟩
  have htgt_old : ∀ tr ∈ ts, tr.targetPath ∈ old.files.map (·.1) := by
    intro tr htr
    obtain ⟨d, h, _⟩ := hT2 tr htr
    exact List.mem_map.mpr ⟨_, h, rfl⟩
  have hsrc_old : ∀ p ∈ srcs, p ∈ old.files.map (·.1) := by
    intro p hp
    obtain ⟨tr, htr, rfl⟩ := (hsrc p).mp hp
    exact htgt_old tr htr
  have hnewpath : ∀ tr ∈ ts, tr.outputPath ∈ pathsOf new := fun tr htr =>
    mem_pathsOf.mpr (Or.inr (Or.inr (hout_new tr htr)))
  -- the first pass
  have hF := flat_groups_nodup hT1 ho₁
  obtain ⟨ρ, r1, r2, r3⟩ := rwGroups_ren (srcs ++ od) (pathsOf old ++ pathsOf new) (groupsOf ts o₁) 0 (by rw [flat_groupsOf]; exact hF)
  rw [flat_groupsOf] at r2 r3
  have hgood : ∀ tr ∈ ts, Good (srcs ++ od) (pathsOf old ++ pathsOf new) ρ tr := by
    intro tr htr
    apply r3
    exact mem_flat_groups.mpr ⟨htr, (hm₁ _).mpr ((hsrc _).mpr ⟨tr, htr, rfl⟩)⟩
  have hρ_keep : ∀ tr ∈ ts, ¬ Clash (srcs ++ od) tr → ρ tr.outputPath = tr.outputPath :=
    fun tr htr hc => (hgood tr htr).1 hc
  -- the temporary names are not paths of either build: the postcondition of the skip loop (`nextFree_spec`)
  have hρ_temp : ∀ tr ∈ ts, Clash (srcs ++ od) tr → ∃ k, ρ tr.outputPath = seedName tr.outputPath k ∧
      seedName tr.outputPath k ∉ pathsOf old ++ pathsOf new := by
    intro tr htr hc
    obtain ⟨k, h1, h2⟩ := (hgood tr htr).2 hc
    exact ⟨k, h1, h2 (hn.ne (hnewpath tr htr))⟩
  have hρ_fresh : ∀ tr ∈ ts, Clash (srcs ++ od) tr → ρ tr.outputPath ∉ pathsOf old ∧ ρ tr.outputPath ∉ pathsOf new := by
    intro tr htr hc
    obtain ⟨k, hk', this⟩ := hρ_temp tr htr hc
    simp only [List.mem_append, not_or] at this
    rw [hk']
    exact this
  have hρ_inj : ∀ tr ∈ ts, ∀ tr' ∈ ts, ρ tr.outputPath = ρ tr'.outputPath → tr = tr' := by
    intro tr htr tr' htr' h
    apply inj_of_nodup_map _ hT1 htr htr'
    show tr.outputPath = tr'.outputPath
    by_cases hc : Clash (srcs ++ od) tr <;> by_cases hc' : Clash (srcs ++ od) tr'
    · obtain ⟨k, hk1, _⟩ := hρ_temp tr htr hc
      obtain ⟨k', hk2, _⟩ := hρ_temp tr' htr' hc'
      rw [hk1, hk2] at h
      exact (seedName_inj (hn.ne (hnewpath tr htr)) (hn.ne (hnewpath tr' htr')) h).1
    · rw [hρ_keep tr' htr' hc'] at h
      exact absurd (h ▸ hnewpath tr' htr') (hρ_fresh tr htr hc).2
    · rw [hρ_keep tr htr hc] at h
      exact absurd (h.symm ▸ hnewpath tr htr) (hρ_fresh tr' htr' hc').2
    · rw [hρ_keep tr htr hc, hρ_keep tr' htr' hc'] at h
      exact h
  have hρ_slot : ∀ tr ∈ ts, XSlot S t₁ (ρ tr.outputPath) := by
    intro tr htr
    by_cases hc : Clash (srcs ++ od) tr
    · obtain ⟨k, hk1, hfr⟩ := hρ_temp tr htr hc
      rw [hk1]
      exact (htemp tr htr k hfr).1
    · rw [hρ_keep tr htr hc]
      exact hslot tr htr hc
  -- an output that lands on a build path was not renamed
  have hρ_old : ∀ tr ∈ ts, ρ tr.outputPath ∈ pathsOf old → ρ tr.outputPath = tr.outputPath ∧ ¬ Clash (srcs ++ od) tr := by
    intro tr htr h
    by_cases hc : Clash (srcs ++ od) tr
    · exact absurd h (hρ_fresh tr htr hc).1
    · exact ⟨hρ_keep tr htr hc, hc⟩
  -- the groups of the second pass
  let G : Path → List Transpo := fun p => (ts.filter (·.targetPath == p)).map (ren ρ)
  have hmemG : ∀ p tr', tr' ∈ G p ↔ ∃ x ∈ ts, x.targetPath = p ∧ tr' = ren ρ x := by
    intro p tr'
    simp only [G, List.mem_map, List.mem_filter, beq_iff_eq]
    constructor
    · rintro ⟨x, ⟨h1, h2⟩, rfl⟩; exact ⟨x, h1, h2, rfl⟩
    · rintro ⟨x, h1, h2, rfl⟩; exact ⟨x, ⟨h1, h2⟩, rfl⟩
  have hg1 : (groupsOf ts o₁).map (fun x => (x.1, x.2.map (ren ρ))) = o₁.map (fun p => (p, G p)) := by
    simp only [groupsOf, List.map_map]
    rfl
  have hg2 : o₂.filterMap (fun p => (o₁.map (fun p => (p, G p))).find? (·.1 == p)) =
      o₂.map (fun p => (p, G p)) :=
    filterMap_eq_map' (fun p hp => find?_map_key G ((hm₁ p).mpr ((hm₂ p).mp hp)))
  rw [safePass_spec, r1, r2, hg1, hg2, List.foldlM_map]
  -- second pass
  obtain ⟨t2, s1, s2, s3, s4, s5, s6⟩ := secondPass_spec S G (oldContent old) (fun p => ovp.contains p)
    (by
      intro p tr' htr'
      obtain ⟨x, _, hx, rfl⟩ := (hmemG p tr').mp htr'
      exact hx)
    o₂ t₁ hI₁ ho₂
    (by
      intro p hp
      obtain ⟨tr, htr, hp'⟩ := (hsrc p).mp ((hm₂ p).mp hp)
      intro h0
      have : ren ρ tr ∈ G p := (hmemG p _).mpr ⟨tr, htr, hp', rfl⟩
      rw [h0] at this
      cases this)
    (by
      intro p _ p' _ hpp tr htr tr' htr' h
      obtain ⟨x, hx, hxp, rfl⟩ := (hmemG p tr).mp htr
      obtain ⟨x', hx', hxp', rfl⟩ := (hmemG p' tr').mp htr'
      have := hρ_inj x hx x' hx' h
      subst this
      exact hpp (hxp.symm.trans hxp'))
    (by
      intro p _ tr htr p' hp' h
      obtain ⟨x, hx, hxp, rfl⟩ := (hmemG p tr).mp htr
      have hp's : p' ∈ srcs := (hm₂ p').mp hp'
      have hold : ρ x.outputPath ∈ pathsOf old := by
        show (ren ρ x).outputPath ∈ _
        rw [h]
        exact mem_pathsOf.mpr (Or.inr (Or.inr (hsrc_old p' hp's)))
      obtain ⟨e1, e2⟩ := hρ_old x hx hold
      have h' : x.outputPath = p' := by rw [← e1]; exact h
      have : x.targetPath = x.outputPath := by
        apply Classical.byContradiction
        intro hne
        exact e2 ⟨hne, List.mem_append.mpr (Or.inl (h' ▸ hp's))⟩
      rw [← h', ← this, hxp])
    (by
      intro p hp
      obtain ⟨e, he1, he2⟩ := List.mem_map.mp (hsrc_old p ((hm₂ p).mp hp))
      have hmem : (p, e.2) ∈ old.files := by rw [← he2]; exact he1
      rw [oldContent_of_mem ho hmem]
      exact hsrcOK p ((hm₂ p).mp hp) _ hmem)
    (by
      intro p _ tr htr
      obtain ⟨x, hx, _, rfl⟩ := (hmemG p tr).mp htr
      exact hρ_slot x hx)
  -- cleanup
  have hCmem : ∀ x, x ∈ List.filterMap (clOf (srcs ++ od) ρ) (o₁.flatMap fun p => ts.filter (·.targetPath == p)) ↔
      ∃ tr ∈ ts, Clash (srcs ++ od) tr ∧ x = { targetPath := ρ tr.outputPath, outputPath := tr.outputPath } := by
    intro x
    simp only [List.mem_filterMap, clOf]
    constructor
    · rintro ⟨tr, htr, h⟩
      split at h
      · rename_i hc
        cases h
        exact ⟨tr, (mem_flat_groups.mp htr).1, hc, rfl⟩
      · cases h
    · rintro ⟨tr, htr, hc, rfl⟩
      refine ⟨tr, mem_flat_groups.mpr ⟨htr, (hm₁ _).mpr ((hsrc _).mpr ⟨tr, htr, rfl⟩)⟩, ?_⟩
      rw [if_pos hc]
  have hpw : (o₁.flatMap fun p => ts.filter (·.targetPath == p)).Pairwise
      (fun a b => a ∈ ts ∧ b ∈ ts ∧ a.outputPath ≠ b.outputPath) := by
    have h0 : (o₁.flatMap fun p => ts.filter (·.targetPath == p)).Pairwise
        (fun a b => a.outputPath ≠ b.outputPath) := by
      have := hF
      rwa [List.Nodup, List.pairwise_map] at this
    exact h0.imp_of_mem (fun ha hb hab => ⟨(mem_flat_groups.mp ha).1, (mem_flat_groups.mp hb).1, hab⟩)
  -- the cleanup renames `temporary name → output`, each onto whatever stands there: a vacated source, a source
  -- that was copied, a directory of the old build with the ghosts left in it
  have hnb_temp : ∀ tr ∈ ts, ∀ tr' ∈ ts, Clash (srcs ++ od) tr →
      isPrefix tr'.outputPath (ρ tr.outputPath) = false := by
    intro tr htr tr' htr' hc
    obtain ⟨k, hk1, _⟩ := hρ_temp tr htr hc
    have hne := hn.ne (hnewpath tr htr)
    cases hh : isPrefix tr'.outputPath (ρ tr.outputPath) with
    | false => rfl
    | true =>
      exfalso
      rw [hk1] at hh
      have hsp : isPrefix tr'.outputPath tr.outputPath = true := by
        rcases isPrefix_cases hh with h | h
        · rw [h, seedName_dropLast hne]; exact isPrefix_dropLast_self hne
        · rw [seedName_dropLast hne] at h; exact isPrefix_of_dropLast h
      have := hn.not_below_file (hnewpath tr htr) (hout_new tr' htr')
      rw [hsp] at this
      cases this
  have hK2 : ∀ q, (q = [] ∨ q ∈ new.dirs) → IsDir t2 q := by
    rintro q (rfl | hq)
    · exact isDir_nil _
    · exact (s3.isDir (fun hs => hn.dir_not_file hq (hS q hs))).mpr (hdirs q hq)
  have hfind : ∀ tr ∈ ts, ts.find? (fun tr' => tr'.outputPath == tr.outputPath) = some tr := by
    intro tr htr
    cases hf : ts.find? (fun tr' => tr'.outputPath == tr.outputPath) with
    | none =>
      have := List.find?_eq_none.mp hf tr htr
      simp at this
    | some tr' =>
      have h1 := List.find?_some hf
      have h2 := List.mem_of_find?_eq_some hf
      rw [inj_of_nodup_map _ hT1 h2 htr (by simpa using h1)]
  obtain ⟨t3, c1, c2, c4, c5⟩ := cleanup_specD (fun x => oldContent old
      ((ts.find? (fun tr => tr.outputPath == x.outputPath)).map (·.targetPath)).get!)
    (fun q => q = [] ∨ q ∈ new.dirs)
    (List.filterMap (clOf (srcs ++ od) ρ) (o₁.flatMap fun p => ts.filter (·.targetPath == p))) t2 s2
    (by
      rw [List.Nodup, List.pairwise_map, List.pairwise_filterMap]
      apply hpw.imp
      intro a b ⟨ha, hb, hab⟩ x hx y hy hxy
      simp only [clOf] at hx hy
      split at hx
      · split at hy
        · simp only [Option.some.injEq] at hx hy
          subst hx; subst hy
          exact hab (congrArg (·.outputPath) (hρ_inj a ha b hb hxy))
        · cases hy
      · cases hx)
    (by
      rw [List.Nodup, List.pairwise_map, List.pairwise_filterMap]
      apply hpw.imp
      intro a b ⟨ha, hb, hab⟩ x hx y hy hxy
      simp only [clOf] at hx hy
      split at hx
      · split at hy
        · simp only [Option.some.injEq] at hx hy
          subst hx; subst hy
          exact hab hxy
        · cases hy
      · cases hx)
    (by
      intro x hx y hy
      obtain ⟨tr, htr, hc, rfl⟩ := (hCmem x).mp hx
      obtain ⟨tr', htr', _, rfl⟩ := (hCmem y).mp hy
      exact ⟨fun h => (hρ_fresh tr htr hc).2 ((show ρ tr.outputPath = tr'.outputPath from h) ▸ hnewpath tr' htr'),
        hnb_temp tr htr tr' htr' hc,
        hn.not_below_file (hnewpath tr htr) (hout_new tr' htr')⟩)
    (by
      intro x hx
      obtain ⟨tr, htr, hc, rfl⟩ := (hCmem x).mp hx
      obtain ⟨k, hk1, _⟩ := hρ_temp tr htr hc
      have hne := hn.ne (hnewpath tr htr)
      have hpar : tr.outputPath.dropLast = [] ∨ tr.outputPath.dropLast ∈ new.dirs :=
        hn.parent_mem (hnewpath tr htr)
      have hdd : ".." ∉ tr.outputPath.dropLast := fun h => hn.nodd (hnewpath tr htr) (mem_of_mem_dropLast h)
      simp only
      rw [hk1, seedName_dropLast hne]
      exact ⟨seedName_ne_nil hne k, hne, hdd, hdd, hpar, hpar⟩)
    hK2
    (by
      intro x hx q hq
      obtain ⟨tr, htr, hc, rfl⟩ := (hCmem x).mp hx
      simp only
      rcases hq with rfl | hq
      · obtain ⟨k, hk1, _⟩ := hρ_temp tr htr hc
        refine ⟨?_, fun h => hn.ne (hnewpath tr htr) h.symm, isPrefix_false_nil _⟩
        rw [hk1]
        exact fun h => seedName_ne_nil (hn.ne (hnewpath tr htr)) k h.symm
      · have hqn : q ∈ pathsOf new := mem_pathsOf.mpr (Or.inl hq)
        exact ⟨fun h => (hρ_fresh tr htr hc).2 (h ▸ hqn), fun h => hn.dir_not_file hq (h ▸ hout_new tr htr),
          hn.not_below_file hqn (hout_new tr htr)⟩)
    (by
      intro x hx
      obtain ⟨tr, htr, hc, rfl⟩ := (hCmem x).mp hx
      simp only
      rw [hfind tr htr]
      have hsrcm : tr.targetPath ∈ o₂ := (hm₂ _).mpr ((hsrc _).mpr ⟨tr, htr, rfl⟩)
      exact s4 tr.targetPath hsrcm (ren ρ tr) ((hmemG _ _).mpr ⟨tr, htr, rfl, rfl⟩))
  refine ⟨t3, ?_, c2, ?_, ?_, ?_, ?_, ?_⟩
  · simp only [bind, Except.bind, s1, c1]
  · -- outside the soft paths, the flagged outputs and what is below them, only regular files have changed
    intro q hqS hq
    by_cases hex : ∃ tr ∈ ts, Clash (srcs ++ od) tr ∧ q = ρ tr.outputPath
    · obtain ⟨tr, htr, hc, rfl⟩ := hex
      have hx := (hCmem _).mpr ⟨tr, htr, hc, rfl⟩
      have := (c4 _ hx).2
      simp only at this
      rw [this]
      obtain ⟨k, hk1, hfr⟩ := hρ_temp tr htr hc
      rw [hk1, (htemp tr htr k hfr).2]
    · rw [c5, s3.out q hqS]
      intro x hx
      obtain ⟨tr, htr, hc, rfl⟩ := (hCmem x).mp hx
      simp only
      exact ⟨fun h => hex ⟨tr, htr, hc, h⟩, (hq tr htr hc).1, (hq tr htr hc).2⟩
  · -- outputs
    intro tr htr d hd
    obtain ⟨d', hd1, hd2⟩ := hT2 tr htr
    have hdd : d' = d := files_content_unique hn hd2 hd
    subst hdd
    have hsrcm : tr.targetPath ∈ o₂ := (hm₂ _).mpr ((hsrc _).mpr ⟨tr, htr, rfl⟩)
    have h2 := s4 tr.targetPath hsrcm (ren ρ tr) ((hmemG _ _).mpr ⟨tr, htr, rfl, rfl⟩)
    rw [oldContent_of_mem ho hd1] at h2
    by_cases hc : Clash (srcs ++ od) tr
    · have hx := (hCmem _).mpr ⟨tr, htr, hc, rfl⟩
      have := (c4 _ hx).1
      simp only at this
      rw [this, hfind tr htr]
      simp only [Option.map_some, Option.get!_some, oldContent_of_mem ho hd1]
    · have hk1 := hρ_keep tr htr hc
      simp only [ren, hk1] at h2
      rw [c5, h2]
      intro x hx
      obtain ⟨tr', htr', hc', rfl⟩ := (hCmem x).mp hx
      simp only
      refine ⟨?_, ?_, hn.not_below_file (hnewpath tr htr) (hout_new tr' htr')⟩
      · intro h
        exact (hρ_fresh tr' htr' hc').2 (h ▸ hnewpath tr htr)
      · intro h
        have := inj_of_nodup_map _ hT1 htr htr' h
        subst this
        exact hc hc'
  · -- overlay paths
    intro p hp hpo
    have hpold : p ∈ pathsOf old := mem_pathsOf.mpr (Or.inr (Or.inr hpo))
    rw [c5, s6]
    · intro p' _ tr' htr' h
      obtain ⟨x, hx, _, rfl⟩ := (hmemG p' tr').mp htr'
      have : ρ x.outputPath = p := h
      obtain ⟨e1, _⟩ := hρ_old x hx (this ▸ hpold)
      exact (hov p hp x hx).1 (e1 ▸ this)
    · intro p' _ hovf hpp
      subst hpp
      have : ovp.contains p = true := by simpa using hp
      rw [this] at hovf
      cases hovf
    · intro x hx
      obtain ⟨tr, htr, hc, rfl⟩ := (hCmem x).mp hx
      simp only
      refine ⟨?_, ?_, (hov p hp tr htr).2⟩
      · intro h
        exact (hρ_fresh tr htr hc).1 (h ▸ hpold)
      · intro h
        exact (hov p hp tr htr).1 h.symm
  · -- frame
    intro q hqo hqn hqb
    by_cases hex : ∃ tr ∈ ts, Clash (srcs ++ od) tr ∧ q = ρ tr.outputPath
    · obtain ⟨tr, htr, hc, rfl⟩ := hex
      have hx := (hCmem _).mpr ⟨tr, htr, hc, rfl⟩
      have := (c4 _ hx).2
      simp only at this
      rw [this]
      obtain ⟨k, hk1, hfr⟩ := hρ_temp tr htr hc
      rw [hk1]
      exact (htemp tr htr k hfr).2.symm
    · rw [c5, s6]
      · intro p' _ tr' htr' h
        obtain ⟨x, hx, _, rfl⟩ := (hmemG p' tr').mp htr'
        have h' : ρ x.outputPath = q := h
        by_cases hc : Clash (srcs ++ od) x
        · exact hex ⟨x, hx, hc, h'.symm⟩
        · rw [hρ_keep x hx hc] at h'
          exact hqn x hx h'
      · intro p' hp' _ hpp
        exact hqo (hpp ▸ (hm₂ p').mp hp')
      · intro x hx
        obtain ⟨tr, htr, hc, rfl⟩ := (hCmem x).mp hx
        simp only
        refine ⟨?_, ?_, hqb tr htr hc⟩
        · intro h
          exact hex ⟨tr, htr, hc, h⟩
        · intro h
          exact hqn tr htr h.symm
  · -- consumed sources
    intro p hp hov' hpn hsd hpre
    have hpo₂ := (hm₂ p).mpr hp
    have hne_out : ∀ x ∈ ts, ρ x.outputPath ≠ p := by
      intro x hx h
      by_cases hc : Clash (srcs ++ od) x
      · obtain ⟨k, hk1, _⟩ := hρ_temp x hx hc
        exact hsd x hx k (hk1 ▸ h)
      · rw [hρ_keep x hx hc] at h
        exact hpn (h ▸ hnewpath x hx)
    rw [c5, s5 p hpo₂ hov']
    · intro tr htr h
      obtain ⟨x, hx, _, rfl⟩ := (hmemG p tr).mp htr
      exact hne_out x hx h
    · intro x hx
      obtain ⟨tr, htr, hc, rfl⟩ := (hCmem x).mp hx
      exact ⟨fun h => hne_out tr htr h.symm, fun h => hpn (h ▸ hnewpath tr htr), hpre tr htr⟩


theorem mem_srcsOf {old new : Build} {w : Work} {p : Path} :
    p ∈ srcsOf old new w ↔ ∃ tr ∈ tsOf old new w, tr.targetPath = p := by
  simp only [srcsOf, List.mem_eraseDups, List.mem_map]

theorem srcsOf_nodup (old new : Build) (w : Work) : (srcsOf old new w).Nodup :=
  nodup_eraseDups _ _ (Nat.le_refl _)

theorem transpositions_spec {old new : Build} {w : Work} (ho : BWF old) (hn : BWF new) (hk : NKC old new)
    (hw : WOK old new w) {o₁ o₂ : List Path}
    (h₁ : o₁.Perm (srcsOf old new w)) (h₂ : o₂.Perm (srcsOf old new w)) {t₁ : Tree}
    (he : Ensured new (treeOfBuild old) t₁) :
    ∃ t₂, applyTranspositions old new w o₁ o₂ t₁ = .ok t₂ ∧ Transposed old new w t₁ t₂ := by
  have hT2 : ∀ tr ∈ tsOf old new w, ∃ d, (tr.targetPath, d) ∈ old.files ∧ (tr.outputPath, d) ∈ new.files := by
    intro tr htr
    obtain ⟨st, hst, d, d', e1, e2⟩ := mem_tsOf.mp htr
    obtain ⟨np, op, d2, f1, f2⟩ := hw.transp st hst
    rw [e1] at f1
    rw [e2] at f2
    cases f1
    cases f2
    exact ⟨d, List.mem_of_getElem? e2, List.mem_of_getElem? e1⟩
  have hout_new : ∀ tr ∈ tsOf old new w, tr.outputPath ∈ new.files.map (·.1) := by
    intro tr htr
    obtain ⟨d, _, h⟩ := hT2 tr htr
    exact List.mem_map.mpr ⟨_, h, rfl⟩
  have hov : ∀ p ∈ ovPaths new w, ∀ tr ∈ tsOf old new w,
      tr.outputPath ≠ p ∧ isPrefix tr.outputPath p = false := by
    intro p hp tr htr
    simp only [ovPaths, List.mem_filterMap, Option.map_eq_some_iff] at hp
    obtain ⟨i, hi, e, hie, rfl⟩ := hp
    constructor
    · intro hpp
      obtain ⟨st, hst, d, d', e1, _⟩ := mem_tsOf.mp htr
      have : st.1 = i := hn.filesInj _ _ _ _ _ _ e1 (by rw [hie]) hpp
      exact (hw.excl₁ i (this ▸ List.mem_map.mpr ⟨st, hst, rfl⟩)).1 hi
    · exact hn.not_below_file
        (mem_pathsOf.mpr (Or.inr (Or.inr (List.mem_map.mpr ⟨e, List.mem_of_getElem? hie, rfl⟩))))
        (hout_new tr htr)
  obtain ⟨t₂, a1, a2, a3, a4, a5, a6, _⟩ := transp_core ho hn (fun _ => False) (tsOf old new w) (srcsOf old new w)
    old.dirs o₁ o₂ (ovPaths new w) (tsOf_outputs_nodup hn hw) hT2 (fun _ => mem_srcsOf)
    (h₁.nodup_iff.mpr (srcsOf_nodup old new w)) (fun _ => h₁.mem_iff)
    (h₂.nodup_iff.mpr (srcsOf_nodup old new w)) (fun _ => h₂.mem_iff) hov he.inv
    (fun _ h => h.elim) he.dirs
    (fun tr htr _ => xslot_of_slot he.inv (he.slot_of_newfile ho hn hk (hout_new tr htr)))
    (fun tr htr k hfr => ⟨xslot_of_slot he.inv (he.slot_of_temp hn (hout_new tr htr) hfr).1,
      (he.slot_of_temp hn (hout_new tr htr) hfr).2⟩)
    (fun p _ d hmem => ⟨xplain_of_plain (he.oldFile ho hn hk hmem).1, (he.oldFile ho hn hk hmem).2⟩)
  -- a flagged output is a source (no new file is a directory of the old build, `NKC`): it holds a regular file
  -- before and after, and nothing is below it
  have hcl : ∀ tr ∈ tsOf old new w, Clash (srcsOf old new w ++ old.dirs) tr →
      (∃ d, t₁.get tr.outputPath = some (.file d)) ∧ (∃ d, t₂.get tr.outputPath = some (.file d)) := by
    intro tr htr hc
    obtain ⟨d, _, hd2⟩ := hT2 tr htr
    have hof : tr.outputPath ∈ old.files.map (·.1) := by
      rcases List.mem_append.mp hc.2 with h | h
      · obtain ⟨tr', htr', e⟩ := mem_srcsOf.mp h
        obtain ⟨d', h', _⟩ := hT2 tr' htr'
        rw [← e]
        exact List.mem_map.mpr ⟨_, h', rfl⟩
      · cases hk _ _ _ (kindOf_dir h) (kindOf_file hn (hout_new tr htr))
    obtain ⟨e, he1, he2⟩ := List.mem_map.mp hof
    exact ⟨⟨e.2, by rw [← he2]; exact (he.oldFile ho hn hk (p := e.1) (d := e.2) he1).2⟩, ⟨d, a4 tr htr d hd2⟩⟩
  have hbelow : ∀ tr ∈ tsOf old new w, Clash (srcsOf old new w ++ old.dirs) tr → ∀ q,
      isPrefix tr.outputPath q = true → t₂.get q = none ∧ t₁.get q = none := by
    intro tr htr hc q hq
    obtain ⟨⟨d1, h1⟩, ⟨d2, h2⟩⟩ := hcl tr htr hc
    exact ⟨get_none_under_nondir a2 (by rw [h2]; simp) hq, get_none_under_nondir he.inv (by rw [h1]; simp) hq⟩
  refine ⟨t₂, by rw [applyTranspositions_eq]; exact a1, a2, ?_, ?_, ?_, ?_⟩
  · intro q
    by_cases hex : ∃ tr ∈ tsOf old new w, Clash (srcsOf old new w ++ old.dirs) tr ∧
        (q = tr.outputPath ∨ isPrefix tr.outputPath q = true)
    · obtain ⟨tr, htr, hc, hq⟩ := hex
      rcases hq with rfl | hq
      · obtain ⟨⟨d1, h1⟩, ⟨d2, h2⟩⟩ := hcl tr htr hc
        rw [h1, h2]
        rfl
      · obtain ⟨h2, h1⟩ := hbelow tr htr hc q hq
        rw [h1, h2]
    · apply a3 q (fun h => h)
      intro tr htr hc
      refine ⟨fun h => hex ⟨tr, htr, hc, Or.inl h⟩, ?_⟩
      cases hh : isPrefix tr.outputPath q with
      | false => rfl
      | true => exact absurd ⟨tr, htr, hc, Or.inr hh⟩ hex
  · intro st hst p d hf
    obtain ⟨np, op, d2, f1, f2⟩ := hw.transp st hst
    rw [hf] at f1
    cases f1
    have htr : ({ targetPath := op, outputPath := p } : Transpo) ∈ tsOf old new w :=
      mem_tsOf.mpr ⟨st, hst, d, d, hf, f2⟩
    exact a4 _ htr d (List.mem_of_getElem? hf)
  · intro i hi p d hf
    obtain ⟨p', d', f1, f2⟩ := hw.overlay i hi
    rw [hf] at f1
    cases f1
    have hp : p ∈ ovPaths new w := by
      simp only [ovPaths, List.mem_filterMap, Option.map_eq_some_iff]
      exact ⟨i, hi, (p, d), hf, rfl⟩
    obtain ⟨e, he1, he2⟩ := List.mem_map.mp f2
    refine ⟨e.2, ?_⟩
    rw [a5 p hp f2, ← he2]
    exact (he.oldFile ho hn hk (p := e.1) (d := e.2) he1).2
  · intro q hqo hqn
    by_cases hex : ∃ tr ∈ tsOf old new w, Clash (srcsOf old new w ++ old.dirs) tr ∧
        isPrefix tr.outputPath q = true
    · obtain ⟨tr, htr, hc, hq⟩ := hex
      obtain ⟨h2, h1⟩ := hbelow tr htr hc q hq
      rw [h1, h2]
    · apply a6 q
      · intro hq
        obtain ⟨tr, htr, rfl⟩ := mem_srcsOf.mp hq
        obtain ⟨d, h, _⟩ := hT2 tr htr
        exact hqo (List.mem_map.mpr ⟨_, h, rfl⟩)
      · intro tr htr h
        exact hqn (h ▸ hout_new tr htr)
      · intro tr htr hc
        cases hh : isPrefix tr.outputPath q with
        | false => rfl
        | true => exact absurd ⟨tr, htr, hc, hh⟩ hex

/-- C02 in full: the commit over the tree holding the old build yields a tree holding the new build. -/
theorem commit_spec {old new : Build} {w : Work} (ho : BWF old) (hn : BWF new) (hk : NKC old new)
    (hw : WOK old new w) {o₁ o₂ : List Path}
    (h₁ : o₁.Perm (srcsOf old new w)) (h₂ : o₂.Perm (srcsOf old new w)) :
    ∃ t', commit old new w o₁ o₂ (treeOfBuild old) = .ok t' ∧ TInv t' ∧
      ∀ p, t'.get p = (treeOfBuild new).get p := by
  obtain ⟨t₁, e1, he⟩ := ensureDirsPhase_spec ho hn hk
  obtain ⟨t₂, e2, ht⟩ := transpositions_spec ho hn hk hw h₁ h₂ he
  obtain ⟨t₃, t₄, t₅, t₆, e3, e4, e5, e6, hI6, hg6⟩ := finish_spec ho hn hk hw he ht
  refine ⟨t₆, ?_, hI6, hg6⟩
  have e0 : moveSourcesAside old new w (treeOfBuild old) = .ok (treeOfBuild old, []) :=
    moveSourcesAside_nil_of_sources (by
      intro st hst
      obtain ⟨np, op, d, _, f2⟩ := hw.transp st hst
      exact ⟨op, d, f2, (hk.old_file ho hn (List.mem_map.mpr ⟨_, List.mem_of_getElem? f2, rfl⟩)).1⟩) _
  simp only [commit, bind, Except.bind, e0, e1, e2, e3, e4, e5, e6]


end Wharf.Commit
