import Wharf.Model.Patch
import Wharf.Props.C11

namespace Wharf.Patch
open Wharf Wharf.Rsync

/-! ### typed views of the writer's messages -/

theorem toInt32_zero : toInt32 0 = 0 := by decide
theorem toInt32_one : toInt32 1 = 1 := by decide
theorem toInt32_hey : toInt32 2049 = 2049 := by decide

theorem asSyncHeader_mk (i : Int) : asSyncHeader (mkSyncHeader kindRsync i) = ⟨0, i⟩ := by
  simp [asSyncHeader, mkSyncHeader, getVarint, fSyncHeaderType, fSyncHeaderFileIndex, kindRsync, toInt32_zero]

theorem asSyncOp_mkRange (f i s : Int) : asSyncOp (mkRange f i s) = ⟨0, f, i, s, []⟩ := by
  simp [asSyncOp, mkRange, getVarint, getBytes, fOpType, fOpFileIndex, fOpBlockIndex, fOpBlockSpan, fOpData,
    opBlockRange, toInt32_zero]

theorem asSyncOp_mkData (d : List Byte) : asSyncOp (mkData d) = ⟨1, 0, 0, 0, d⟩ := by
  simp [asSyncOp, mkData, getVarint, getBytes, fOpType, fOpFileIndex, fOpBlockIndex, fOpBlockSpan, fOpData,
    opData, toInt32_one]

theorem asSyncOp_mkHey : asSyncOp mkHey = ⟨2049, 0, 0, 0, []⟩ := by
  simp [asSyncOp, mkHey, getVarint, getBytes, fOpType, fOpFileIndex, fOpBlockIndex, fOpBlockSpan, fOpData,
    heyYouDidIt, toInt32_hey]

theorem opMsg_type_ne_hey (src : Content) (op : Op) : (asSyncOp (opMsg src op)).type ≠ heyYouDidIt := by
  cases op <;> simp [opMsg, asSyncOp_mkRange, asSyncOp_mkData, heyYouDidIt]

/-! ### contents, slices and the plain pool -/


theorem drop_take_toList (c : Content) (a n : Nat) :
    (c.toList.drop a).take n = c.slice a (min n (c.size - a)) := by
  apply List.ext_getElem?
  intro k
  rw [List.getElem?_take, List.getElem?_drop, Content.toList, slice_getElem?, slice_getElem?]
  by_cases h1 : k < n
  · by_cases h2 : a + k < c.size
    · have : k < min n (c.size - a) := by omega
      simp [h1, h2, this]
    · have : ¬ k < min n (c.size - a) := by omega
      simp [h1, h2, this]
  · have : ¬ k < min n (c.size - a) := by omega
    simp [h1, this]

theorem toList_length (c : Content) : c.toList.length = c.size := by
  simp [Content.toList, slice_length]



theorem opSize_cast (bs size i k : Nat) :
    (((k + 1 : Nat) : Int) - 1) * (bs : Int) +
      (if (bs : Int) * ((i : Int) + (((k + 1 : Nat) : Int) - 1) + 1) > (size : Int) then Int.tmod size bs else bs)
    = (((k + 1 - 1) * bs + blockLen bs size (i + (k + 1) - 1) : Nat) : Int) := by
  have e1 : (((k + 1 : Nat) : Int) - 1) = (k : Int) := by omega
  have e2 : i + (k + 1) - 1 = i + k := by omega
  rw [e1, e2, Nat.add_sub_cancel]
  unfold blockLen
  have e3 : ((bs : Int) * ((i : Int) + (k : Int) + 1) > (size : Int)) ↔ (bs * (i + k + 1) > size) := by
    rw [gt_iff_lt, gt_iff_lt, ← Int.ofNat_lt]
    push_cast
    exact Iff.rfl
  by_cases h : bs * (i + k + 1) > size
  · rw [if_pos h, if_pos (e3.2 h), ← Int.ofNat_tmod]
    push_cast
    rfl
  · rw [if_neg h, if_neg (fun h' => h (e3.1 h'))]
    push_cast
    rfl

theorem ok_bind {α β} (a : α) (g : α → Outcome β) : (Outcome.ok a >>= g) = g a := rfl
theorem ok_bind' {α β} (a : α) (g : α → Outcome β) : (Outcome.ok a).bind g = g a := rfl

/-- Same as `Wharf.C01.envOf` (which lives in the property file). -/
def freshEnv (bs : Nat) (olds news : List (String × Content)) (wl : Option (List Nat)) : Env :=
  { bs := bs
    oldSizes := (olds.map (·.2.size)).toArray
    newSizes := (news.map (·.2.size)).toArray
    pool := plainPool (olds.map (·.2.toList)).toArray
    whitelist := wl }

theorem olds_get {olds : List (String × Content)} {f : Nat} {old : Content}
    (h : (olds.map (·.2)).toArray[f]? = some old) :
    f < olds.length ∧ (olds.map (·.2.toList)).toArray.getD f [] = old.toList ∧
      (olds.map (·.2.size)).toArray.getD f 0 = old.size := by
  simp only [List.getElem?_toArray, List.getElem?_map, Option.map_eq_some_iff] at h
  obtain ⟨p, hp, rfl⟩ := h
  have hf := lt_of_getElem?_eq_some hp
  refine ⟨hf, ?_, ?_⟩
  · simp [Array.getD_eq_getD_getElem?, hp]
  · simp [Array.getD_eq_getD_getElem?, hp]

theorem applyOp_opMsg {bs : Nat} (olds news : List (String × Content)) (wl : Option (List Nat))
    (src : Content) (op : Op) (hv : VOp bs (olds.map (·.2)).toArray src op) (w : List Byte) (reads : List Nat) :
    ∃ reads', applyOp (freshEnv bs olds news wl) (asSyncOp (opMsg src op)) w reads =
      .ok (w ++ opBytes bs (olds.map (·.2)).toArray src op, reads') := by
  cases op with
  | data st len =>
    refine ⟨reads, ?_⟩
    simp [opMsg, asSyncOp_mkData, applyOp, opBlockRange, opData, opBytes]
  | range f i sp =>
    obtain ⟨old, ho, hsp, hnb⟩ := hv
    obtain ⟨hf, hl, hs⟩ := olds_get ho
    obtain ⟨k, rfl⟩ : ∃ k, sp = k + 1 := ⟨sp - 1, by omega⟩
    refine ⟨reads ++ [f], ?_⟩
    have hidx : idx (freshEnv bs olds news wl).pool.nfiles (f : Int) "ApplySingleFull pool.GetSize(op.FileIndex)" = .ok f := by
      simp [idx, freshEnv, plainPool, hf]
    simp only [opMsg, asSyncOp_mkRange, applyOp, opBlockRange, if_true, hidx]
    have hcs : (freshEnv bs olds news wl).pool.csize f = old.size := by
      simp only [freshEnv, plainPool, hl, toList_length]
    have hread : ∀ a n, (freshEnv bs olds news wl).pool.read f a n = .ok ((old.toList.drop a).take n) := by
      intro a n
      simp only [freshEnv, plainPool, hl]
    have hb : (freshEnv bs olds news wl).bs = bs := rfl
    rw [ok_bind, hcs, hb, opSize_cast, hread]
    have hoff : ¬ ((bs : Int) * (i : Int) < 0) := by
      have : (0 : Int) ≤ ((bs * i : Nat) : Int) := Int.natCast_nonneg _
      push_cast at this
      omega
    have hoff' : ((bs : Int) * (i : Int)).toNat = bs * i := by
      rw [← Int.natCast_mul, Int.toNat_natCast]
    rw [if_neg hoff, hoff', Int.toNat_natCast, drop_take_toList]
    simp only [opBytes, ho]

/-! ### relaying and skipping a series -/


theorem rsyncLoop_ops {bs : Nat} (olds news : List (String × Content)) (wl : Option (List Nat))
    (src : Content) (rest : List WMsg) :
    ∀ (ops : List Op), (∀ op ∈ ops, VOp bs (olds.map (·.2)).toArray src op) → ∀ (w : List Byte) (reads : List Nat),
    ∃ reads', rsyncLoop (freshEnv bs olds news wl) (ops.map (opMsg src) ++ mkHey :: rest) w reads =
      .ok (rest, w ++ replay bs (olds.map (·.2)).toArray src ops, reads')
  | [], _, w, reads => by
    refine ⟨reads, ?_⟩
    simp [rsyncLoop, asSyncOp_mkHey, heyYouDidIt, replay_nil]
  | op :: ops, hv, w, reads => by
    obtain ⟨r1, h1⟩ := applyOp_opMsg olds news wl src op (hv op List.mem_cons_self) w reads
    obtain ⟨r2, h2⟩ := rsyncLoop_ops olds news wl src rest ops (fun o ho => hv o (List.mem_cons_of_mem _ ho))
      (w ++ opBytes bs (olds.map (·.2)).toArray src op) r1
    refine ⟨r2, ?_⟩
    rw [List.map_cons, List.cons_append, rsyncLoop]
    simp only [if_neg (opMsg_type_ne_hey src op), h1, h2]
    have : replay bs (olds.map (·.2)).toArray src (op :: ops) =
        opBytes bs (olds.map (·.2)).toArray src op ++ replay bs (olds.map (·.2)).toArray src ops := by
      simp [replay]
    rw [this, List.append_assoc]

theorem skipOps_ops (src : Content) (rest : List WMsg) :
    ∀ (ops : List Op), skipOps (ops.map (opMsg src) ++ mkHey :: rest) = .ok rest
  | [] => by simp [skipOps, asSyncOp_mkHey, heyYouDidIt]
  | op :: ops => by
    rw [List.map_cons, List.cons_append, skipOps, if_neg (opMsg_type_ne_hey src op)]
    exact skipOps_ops src rest ops

/-- A range over all blocks of a file covers exactly the file. -/
theorem full_span {bs : Nat} (hbs : 0 < bs) (size sp : Nat) (hsp : 0 < sp) (h : sp = numBlocks bs size) :
    (sp - 1) * bs + blockLen bs size (0 + sp - 1) = size := by
  have h1 : bs * (sp - 1) < size := (lt_numBlocks_iff hbs size (sp - 1)).1 (by omega)
  have h2 : ¬ bs * sp < size := fun h' => by
    have := (lt_numBlocks_iff hbs size sp).2 h'
    omega
  obtain ⟨k, rfl⟩ : ∃ k, sp = k + 1 := ⟨sp - 1, by omega⟩
  simp only [Nat.zero_add, Nat.add_sub_cancel] at *
  unfold blockLen
  rw [Nat.mul_comm k bs]
  split
  · rename_i h3
    have hq : size / bs = k := by
      apply Nat.div_eq_of_lt_le
      · rw [Nat.mul_comm]; omega
      · rw [Nat.mul_comm]; exact h3
    have := Nat.div_add_mod size bs
    rw [hq] at this
    omega
  · rename_i h3
    rw [Nat.mul_add] at h2 h3
    omega

/-! ### one file -/


theorem freshEnv_bs (bs : Nat) (olds news : List (String × Content)) (wl : Option (List Nat)) :
    (freshEnv bs olds news wl).bs = bs := rfl
theorem freshEnv_oldSizes (bs : Nat) (olds news : List (String × Content)) (wl : Option (List Nat)) :
    (freshEnv bs olds news wl).oldSizes = (olds.map (·.2.size)).toArray := rfl
theorem freshEnv_newSizes (bs : Nat) (olds news : List (String × Content)) (wl : Option (List Nat)) :
    (freshEnv bs olds news wl).newSizes = (news.map (·.2.size)).toArray := rfl
theorem freshEnv_whitelist (bs : Nat) (olds news : List (String × Content)) (wl : Option (List Nat)) :
    (freshEnv bs olds news wl).whitelist = wl := rfl

theorem isFullFileOp_cases (bs : Nat) (olds news : List (String × Content)) (wl : Option (List Nat))
    (i : Nat) (src : Content) (op : Op) :
    isFullFileOp (freshEnv bs olds news wl) i (asSyncOp (opMsg src op)) = .ok none ∨
    ∃ t sp, op = .range t 0 sp ∧
      (olds.map (·.2.size)).toArray.getD t 0 = (news.map (·.2.size)).toArray.getD i 0 ∧
      sp = numBlocks bs ((news.map (·.2.size)).toArray.getD i 0) ∧
      isFullFileOp (freshEnv bs olds news wl) i (asSyncOp (opMsg src op)) = .ok (some t) := by
  cases op with
  | data st len =>
    left
    simp [opMsg, asSyncOp_mkData, isFullFileOp, opBlockRange]
  | range f i' sp =>
    simp only [opMsg, asSyncOp_mkRange, isFullFileOp, opBlockRange, ne_eq, not_true_eq_false, if_false]
    rw [Int.toNat_natCast]
    simp only [freshEnv_oldSizes, freshEnv_newSizes, freshEnv_bs]
    by_cases h1 : (i' : Int) = 0
    · by_cases h2 : (0 ≤ (f : Int) ∧ (f : Int) < ((olds.map (·.2.size)).toArray.size : Int))
      · by_cases h3 : (olds.map (·.2.size)).toArray.getD f 0 = (news.map (·.2.size)).toArray.getD i 0
        · by_cases h4 : (sp : Int) = ((numBlocks bs ((news.map (·.2.size)).toArray.getD i 0) : Nat) : Int)
          · right
            refine ⟨f, sp, ?_, h3, by omega, ?_⟩
            · have : i' = 0 := by omega
              rw [this]
            · simp only [h1, h2, h3, h4, not_true_eq_false, if_false, if_true, and_self]
          · left
            simp only [h1, h2, h3, h4, not_true_eq_false, if_false, and_self]
        · left
          simp only [h1, h2, h3, not_true_eq_false, not_false_eq_true, if_false, if_true, and_self]
      · left
        simp only [h1, h2, not_true_eq_false, not_false_eq_true, if_false, if_true]
    · left
      simp only [h1, not_false_eq_true, if_true]

theorem processFile_series {bs : Nat} (hbs : 0 < bs) (olds news : List (String × Content)) (i : Nat)
    (src : Content) (hsz : (news.map (·.2.size)).toArray.getD i 0 = src.size)
    (ops : List Op) (hne : ops ≠ []) (hv : ∀ op ∈ ops, VOp bs (olds.map (·.2)).toArray src op)
    (hr : replay bs (olds.map (·.2)).toArray src ops = src.toList) (rest : List WMsg) (r : Res) :
    ∃ r', processFile (freshEnv bs olds news none) i
        (mkSyncHeader kindRsync i :: (ops.map (opMsg src) ++ mkHey :: rest)) r = .ok (rest, r') ∧
      r'.out = r.out ++ [(i, src.toList)] ∧ r'.touched = r.touched + 1 := by
  cases ops with
  | nil => exact absurd rfl hne
  | cons op ops' =>
    have hrep : opBytes bs (olds.map (·.2)).toArray src op ++ replay bs (olds.map (·.2)).toArray src ops' =
        src.toList := by
      rw [← hr]; simp [replay]
    rw [List.map_cons, List.cons_append, processFile]
    simp only [asSyncHeader_mk]
    simp only [freshEnv_whitelist, kindRsync, ne_eq, not_true_eq_false, if_false, false_and,
      if_true, Bool.false_eq_true]
    rcases isFullFileOp_cases bs olds news none i src op with hnone | ⟨t, sp, rfl, hs, hsp, hfull⟩
    · rw [hnone, ok_bind']
      simp only [if_neg (opMsg_type_ne_hey src op)]
      obtain ⟨r1, h1⟩ := applyOp_opMsg olds news none src op (hv op List.mem_cons_self) [] r.reads
      obtain ⟨r2, h2⟩ := rsyncLoop_ops olds news none src rest ops'
        (fun o ho => hv o (List.mem_cons_of_mem _ ho)) ([] ++ opBytes bs (olds.map (·.2)).toArray src op) r1
      rw [h1, ok_bind']
      simp only
      rw [h2, ok_bind']
      simp only [List.nil_append, hrep]
      exact ⟨_, rfl, rfl, rfl⟩
    · obtain ⟨old, ho, hsp0, hnb⟩ := hv _ List.mem_cons_self
      obtain ⟨hf, hl, hsz'⟩ := olds_get ho
      have hsize : old.size = src.size := by rw [← hsz', hs, hsz]
      have hob : opBytes bs (olds.map (·.2)).toArray src (.range t 0 sp) = old.toList := by
        rw [opBytes_range hbs src ho hsp0 hnb, full_span hbs old.size sp hsp0 (by rw [hsp, hsz, hsize]),
          Nat.mul_zero]
        rfl
      have hold : old.toList = src.toList := by
        rw [hob] at hrep
        have hlen := congrArg List.length hrep
        rw [List.length_append, toList_length, toList_length, hsize] at hlen
        have hnil : replay bs (olds.map (·.2)).toArray src ops' = [] := List.eq_nil_of_length_eq_zero (by omega)
        rw [hnil, List.append_nil] at hrep
        exact hrep
      have hread : (freshEnv bs olds news none).pool.readAll t = .ok old.toList := by
        simp only [freshEnv, plainPool, hl]
      rw [hfull, ok_bind']
      simp only [hread, skipOps_ops, ok_bind', hold]
      exact ⟨_, rfl, rfl, rfl⟩

/-! ### all files -/


/-- An empty source gives exactly the leading empty data op. -/
theorem computeDiffWith_empty (P : Params) (hbs : 0 < P.bs) (olds : Array Content) (lookup : UInt32 → List Entry)
    (src : Content) (pref : Option Nat) (h0 : src.size = 0) :
    computeDiffWith P olds lookup src pref = [.data 0 0] := by
  have hbl : ¬ (P.bs > P.bufLen) := by unfold Params.bufLen; omega
  simp [computeDiffWith, loop, iter, refill, hashStep, findUnique, advance, emitTail, enqueue, emit, flush, h0,
    hbs, hbl]

/-- The differ always sends at least one op. -/
theorem computeDiff_ne_nil (P : Params) (hbs : 0 < P.bs) (hmx : 0 < P.maxDataOp) (olds : List Content)
    (src : Content) (pref : Option Nat) : computeDiff P olds src pref ≠ [] := by
  by_cases h0 : src.size = 0
  · unfold computeDiff
    simp only
    rw [computeDiffWith_empty P hbs _ _ src pref h0]
    exact List.cons_ne_nil _ _
  · intro h
    have hr := C11.roundtrip P hbs hmx olds src pref
    rw [h, replay_nil] at hr
    have := congrArg List.length hr
    rw [toList_length, List.length_nil] at this
    omega

theorem newSize_get (pre post : List (String × Content)) (path : String) (src : Content) :
    ((pre ++ (path, src) :: post).map (·.2.size)).toArray.getD pre.length 0 = src.size := by
  simp [Array.getD_eq_getD_getElem?]

/-- The messages written for one new file. -/
def series (x : Nat × Content × List Op) : List WMsg :=
  (mkSyncHeader kindRsync x.1 :: x.2.2.map (opMsg x.2.1)) ++ [mkHey]

theorem writePatch_eq (P : Params) (olds news : List (String × Content)) :
    writePatch P olds news = (diffAll P olds 0 news).flatMap series := rfl

theorem patchFrom_fresh (P : Params) (hbs : 0 < P.bs) (hmx : 0 < P.maxDataOp)
    (olds news : List (String × Content)) :
    ∀ (post pre : List (String × Content)), news = pre ++ post → ∀ (r : Res),
    ∃ r', patchFrom (freshEnv P.bs olds news none) post.length pre.length
        ((diffAll P olds pre.length post).flatMap series) r = .ok r' ∧
      r'.out = r.out ++ (List.range' pre.length post.length).zip (post.map (·.2.toList)) ∧
      r'.touched = r.touched + post.length
  | [], pre, _, r => ⟨r, by simp [patchFrom]⟩
  | (path, src) :: post, pre, hn, r => by
    obtain ⟨hgood, hrep⟩ := C11.computeDiff_spec P hbs hmx (olds.map (·.2)) src (prefOf (olds.map (·.1)) path)
    have hne := computeDiff_ne_nil P hbs hmx (olds.map (·.2)) src (prefOf (olds.map (·.1)) path)
    have hsz : (news.map (·.2.size)).toArray.getD pre.length 0 = src.size := by
      rw [hn]; exact newSize_get pre post path src
    obtain ⟨r1, h1, ho1, ht1⟩ := processFile_series hbs olds news pre.length src hsz _ hne hgood.valid hrep
      ((diffAll P olds (pre.length + 1) post).flatMap series) r
    obtain ⟨r2, h2, ho2, ht2⟩ := patchFrom_fresh P hbs hmx olds news post (pre ++ [(path, src)])
      (by rw [hn]; simp) r1
    rw [List.length_append, List.length_singleton] at h2 ho2
    refine ⟨r2, ?_, ?_, ?_⟩
    · rw [diffAll, List.flatMap_cons, List.length_cons, patchFrom]
      simp only [series, List.cons_append, List.append_assoc, List.nil_append]
      rw [h1]
      exact h2
    · rw [ho2, ho1, List.length_cons, List.range'_succ, List.map_cons, List.zip_cons_cons]
      simp
    · rw [ht2, ht1, List.length_cons]; omega

/-- C01 for `freshEnv` (which is `Wharf.C01.envOf`). -/
theorem patch_fresh (P : Params) (hbs : 0 < P.bs) (hmx : 0 < P.maxDataOp)
    (olds news : List (String × Content)) :
    ∃ r, patch (freshEnv P.bs olds news none) (writePatch P olds news) = .ok r ∧
      r.out = (List.range news.length).zip (news.map (·.2.toList)) ∧
      r.touched = news.length := by
  obtain ⟨r, h, ho, ht⟩ := patchFrom_fresh P hbs hmx olds news news [] rfl {}
  refine ⟨r, ?_, ?_, ?_⟩
  · rw [patch, writePatch_eq, freshEnv_newSizes, List.size_toArray, List.length_map]
    exact h
  · rw [ho, List.range_eq_range']
    simp
  · rw [ht]
    simp

end Wharf.Patch
