/-
  Tie (a): the definitions regenerated from /repo's source by wvextract (Wharf.Gen.*) agree with
  the hand-written model.  If the source changes a constant, a comparison or an arithmetic
  expression, these theorems stop checking.
-/
import Wharf.Gen.Constants
import Wharf.Gen.Kernels
import Wharf.Model.Rsync
import Wharf.Model.Patch
import Wharf.Model.Overlay
import Wharf.Model.Sign
import Wharf.Model.Bsdiff
import Wharf.Model.Lru

namespace Wharf.GenTies
open Wharf

/-- Side conditions on the constants that the parametric theorems are instantiated with. -/
theorem constants_ok :
    0 < Gen.pwr_BlockSize ∧ 0 < Gen.wsync_MaxDataOp ∧ Gen.wsync__M = 65536 ∧
    Gen.overlay_overlaySameThreshold < Gen.overlay_overlayBufSize ∧
    0 < Gen.bsdiff_lruChunkSize ∧ 0 < Gen.bsdiff_lruNumEntries ∧
    0 < Gen.pwr_MaxWoundSize ∧ 0 < Gen.pwr_woundChanCap ∧
    Gen.SyncOp_Type_HEY_YOU_DID_IT = 2049 ∧ Gen.SyncOp_type = 1 ∧ Gen.BsdiffHeader_targetIndex = 1 ∧
    Gen.SyncOp_Type_BLOCK_RANGE = 0 ∧ Gen.SyncOp_Type_DATA = 1 := by decide

theorem M_eq : Rsync.M.toNat = Gen.wsync__M := by decide

/-- `pwr.ComputeNumBlocks` is the model's `numBlocks` at the real block size. -/
theorem gen_numBlocks (s : Nat) :
    Gen.computeNumBlocks (s : Int) = (Rsync.numBlocks Gen.pwr_BlockSize s : Nat) := by
  unfold Gen.computeNumBlocks Rsync.numBlocks Gen.pwr_BlockSize
  have h : ((s : Int) + 65536 - 1) = ((s + 65536 - 1 : Nat) : Int) := by omega
  rw [h, Int.tdiv_eq_ediv_of_nonneg (by omega)]
  exact (Int.natCast_ediv _ _).symm

/-- `pwr.ComputeBlockSize` is the model's `blockLen` at the real block size. -/
theorem gen_blockSize (s i : Nat) :
    Gen.computeBlockSize (s : Int) (i : Int) = (Rsync.blockLen Gen.pwr_BlockSize s i : Nat) := by
  unfold Gen.computeBlockSize Rsync.blockLen Gen.pwr_BlockSize
  by_cases h : 65536 * (i + 1) > s
  · have h' : (65536 : Int) * ((i : Int) + 1) > (s : Int) := by omega
    rw [if_pos h', if_pos h, Int.tmod_eq_emod_of_nonneg (by omega)]
    omega
  · have h' : ¬ (65536 : Int) * ((i : Int) + 1) > (s : Int) := by omega
    rw [if_neg h', if_neg h]; rfl

/-- The rolling-checksum update lines of `ComputeDiff` are the model's. -/
theorem gen_roll1 (b1 pop push : UInt32) : Gen.rollBeta1 b1 pop push = Rsync.rollβ1 b1 pop push := rfl
theorem gen_roll2 (b1 b2 pop h t : UInt32) : Gen.rollBeta2 b1 b2 pop h t = Rsync.rollβ2 b1 b2 pop (h - t) := rfl
theorem gen_roll (b1 b2 : UInt32) : Gen.rollBeta b1 b2 = Rsync.rollβ b1 b2 := rfl

/-- `wire.nextPowerOf2` never shrinks its argument (the reader's reusable buffer is large enough). -/
theorem nextPow2_ge (v : Nat) (h : 1 ≤ v) : v ≤ Gen.nextPowerOf2 v := by
  obtain ⟨a, rfl⟩ : ∃ a, v = a + 1 := ⟨v - 1, by omega⟩
  unfold Gen.nextPowerOf2
  simp only [Nat.add_sub_cancel]
  apply Nat.succ_le_succ
  exact Nat.le_trans (Nat.le_trans (Nat.le_trans (Nat.le_trans Nat.left_le_or Nat.left_le_or)
    Nat.left_le_or) Nat.left_le_or) Nat.left_le_or

/-- The field numbers and enum values the message-level model uses are those of pwr.proto / bsdiff.proto. -/
theorem proto_fields :
    Patch.fSyncHeaderType = Gen.SyncHeader_type ∧ Patch.fSyncHeaderFileIndex = Gen.SyncHeader_fileIndex ∧
    Patch.fBsdiffTargetIndex = Gen.BsdiffHeader_targetIndex ∧
    Patch.fOpType = Gen.SyncOp_type ∧ Patch.fOpFileIndex = Gen.SyncOp_fileIndex ∧
    Patch.fOpBlockIndex = Gen.SyncOp_blockIndex ∧ Patch.fOpBlockSpan = Gen.SyncOp_blockSpan ∧
    Patch.fOpData = Gen.SyncOp_data ∧
    Patch.fCtrlAdd = Gen.Control_add ∧ Patch.fCtrlCopy = Gen.Control_copy ∧
    Patch.fCtrlSeek = Gen.Control_seek ∧ Patch.fCtrlEof = Gen.Control_eof ∧
    Patch.opBlockRange = (Gen.SyncOp_Type_BLOCK_RANGE : Int) ∧ Patch.opData = (Gen.SyncOp_Type_DATA : Int) ∧
    Patch.heyYouDidIt = (Gen.SyncOp_Type_HEY_YOU_DID_IT : Int) ∧
    Patch.kindRsync = (Gen.SyncHeader_Type_RSYNC : Int) ∧ Patch.kindBsdiff = (Gen.SyncHeader_Type_BSDIFF : Int) := by
  decide

/-- The overlay constants the C14 theorems are instantiated with. -/
theorem overlay_consts :
    Gen.overlay_overlayBufSize = 131072 ∧ Gen.overlay_overlaySameThreshold = 8192 ∧ 0 < Gen.overlay_overlayBufSize := by
  decide

set_option linter.unusedSimpArgs false

/-! ## Slices: straight-line arithmetic inside larger functions, regenerated from the source

  `wvextract` cuts these statement runs out of `ApplySingleFull`, `ReadSignature`, `DiffContext.Do`, `lruFile.Read` and
  `safeKeeper.validateBlock` on every run (Gen/Kernels.lean); the theorems below identify each with the expression the
  hand-written model uses at that place, for all arguments. -/


private theorem tmod_nat (a b : Nat) : Int.tmod (a : Int) (b : Int) = ((a % b : Nat) : Int) := by
  rw [Int.tmod_eq_emod_of_nonneg (by omega)]; exact (Int.natCast_emod a b).symm

private theorem tdiv_nat (a b : Nat) : Int.tdiv (a : Int) (b : Int) = ((a / b : Nat) : Int) := by
  rw [Int.tdiv_eq_ediv_of_nonneg (by omega)]; exact (Int.natCast_ediv a b).symm

/-- `ApplySingleFull`'s byte count of a block range is the model's `(span-1)*bs + blockLen …` (`Rsync.opBytes`,
    `Rsync.reusedOf`), for every block size, file size, index and span ≥ 1. -/
theorem gen_applyRangeSize (bs size i sp : Nat) (hsp : 1 ≤ sp) :
    Gen.applyRangeSize (bs : Int) (size : Int) (i : Int) (sp : Int)
      = (((sp - 1) * bs + Rsync.blockLen bs size (i + sp - 1) : Nat) : Int) := by
  obtain ⟨k, rfl⟩ : ∃ k, sp = k + 1 := ⟨sp - 1, by omega⟩
  unfold Gen.applyRangeSize Rsync.blockLen
  simp only [Nat.add_sub_cancel]
  have e1 : ((i : Int) + (((k + 1 : Nat) : Int) - (1 : Int)) + (1 : Int)) = ((i + (k + 1) - 1 + 1 : Nat) : Int) := by omega
  have e2 : (((k + 1 : Nat) : Int) - (1 : Int)) = (k : Int) := by omega
  rw [e1, e2, tmod_nat]
  by_cases h : bs * (i + (k + 1) - 1 + 1) > size
  · have h' : (bs : Int) * ((i + (k + 1) - 1 + 1 : Nat) : Int) > (size : Int) := by exact_mod_cast h
    simp only [if_pos h', if_pos h]; push_cast; rfl
  · have h' : ¬ (bs : Int) * ((i + (k + 1) - 1 + 1 : Nat) : Int) > (size : Int) := by exact_mod_cast h
    simp only [if_neg h', if_neg h]; push_cast; rfl

/-- `ReadSignature`'s re-derived ShortSize is the model's `Sign.rederivedShort` at the real block size. -/
theorem gen_sigShortSize (size i : Nat) :
    Gen.sigShortSize (i : Int) (size : Int) = ((Sign.rederivedShort Gen.pwr_BlockSize size i : Nat) : Int) := by
  unfold Gen.sigShortSize Sign.rederivedShort Gen.pwr_BlockSize
  have e : (((i : Int) + (1 : Int)) * (65536 : Int)) = (((i + 1) * 65536 : Nat) : Int) := by omega
  have e65 : (65536 : Int) = ((65536 : Nat) : Int) := rfl
  rw [e]
  by_cases h : (i + 1) * 65536 > size
  · have h' : (((i + 1) * 65536 : Nat) : Int) > (size : Int) := by exact_mod_cast h
    simp only [if_pos h', if_pos h]; rw [e65, tmod_nat]
  · have h' : ¬ (((i + 1) * 65536 : Nat) : Int) > (size : Int) := by exact_mod_cast h
    simp only [if_neg h', if_neg h]; rfl

/-- `safeKeeper.validateBlock`: the block an offset falls into, and where it starts. -/
theorem gen_skBlock (off : Nat) :
    Gen.skBlockIndex (off : Int) = ((off / Gen.pwr_BlockSize : Nat) : Int) ∧
    Gen.skBlockOffset ((off / Gen.pwr_BlockSize : Nat) : Int) = ((off / Gen.pwr_BlockSize * Gen.pwr_BlockSize : Nat) : Int) := by
  unfold Gen.skBlockIndex Gen.skBlockOffset Gen.pwr_BlockSize
  constructor
  · exact tdiv_nat off 65536
  · omega




/-- the lets of the generated `scanPlan` spelled out -/
theorem scanPlan_explicit (n p : Int) : Gen.scanPlan n p =
  (if Int.tdiv (n + 131072 - 1) 131072 < p then
     ((if Int.tdiv n p < 1 then 1 else Int.tdiv n p),
      Int.tdiv (n + (if Int.tdiv n p < 1 then 1 else Int.tdiv n p) - 1) (if Int.tdiv n p < 1 then 1 else Int.tdiv n p))
   else (131072, Int.tdiv (n + 131072 - 1) 131072)) := by
  simp only [Gen.scanPlan]
  have e0 : ((128 : Int) * (1024 : Int)) = 131072 := by rfl
  rw [e0]

/-- How `DiffContext.Do` cuts the new file into scan blocks is the model's `blockPlan` (at the real scan block
    size, for every partition count, old and new length). -/
theorem gen_scanPlan (parts ob n : Nat) :
    Gen.scanPlan (n : Int) (((Bsdiff.blockPlan Gen.bsdiff_scanBlockSize parts ob n).1 : Nat) : Int)
      = ((((Bsdiff.blockPlan Gen.bsdiff_scanBlockSize parts ob n).2.1 : Nat) : Int),
         (((Bsdiff.blockPlan Gen.bsdiff_scanBlockSize parts ob n).2.2 : Nat) : Int)) := by
  rw [scanPlan_explicit]
  unfold Bsdiff.blockPlan Gen.bsdiff_scanBlockSize
  generalize hp : (if parts = 0 ∨ parts + 1 ≥ ob then 1 else parts) = p
  have hp1 : 1 ≤ p := by subst hp; split <;> omega
  simp only []
  have e1 : ((n : Int) + 131072) - 1 = ((n + 131072 - 1 : Nat) : Int) := by omega
  have e65 : (131072 : Int) = ((131072 : Nat) : Int) := rfl
  by_cases h : (n + 131072 - 1) / 131072 < p
  · simp only [if_pos h]
    rw [e1, e65, tdiv_nat, tdiv_nat]
    have h' : (((n + 131072 - 1) / 131072 : Nat) : Int) < (p : Int) := by omega
    simp only [if_pos h']
    by_cases h2 : n / p < 1
    · have h2' : ((n / p : Nat) : Int) < (1 : Int) := by omega
      simp only [if_pos h2, if_pos h2']
      have e2 : ((n : Int) + 1) - 1 = ((n + 1 - 1 : Nat) : Int) := by omega
      have e3 : (1 : Int) = ((1 : Nat) : Int) := rfl
      rw [e2]; rw [e3, tdiv_nat]
    · have h2' : ¬ ((n / p : Nat) : Int) < (1 : Int) := by omega
      simp only [if_neg h2, if_neg h2']
      have e2 : ((n : Int) + ((n / p : Nat) : Int)) - 1 = ((n + n / p - 1 : Nat) : Int) := by omega
      rw [e2, tdiv_nat]
  · simp only [if_neg h]
    rw [e1, e65, tdiv_nat]
    have h' : ¬ (((n + 131072 - 1) / 131072 : Nat) : Int) < (p : Int) := by omega
    simp only [if_neg h']





/-- The scan worker's block `k` of `nb` starts at `bs*k` and is `bs` long, except the last, which takes what is
    left — `Bsdiff.allMatches` (`len := if nb = 0 then nbuf.size - boundary else blockSize`, counting down). -/
theorem gen_scanBlockExtent (bs nb n k : Nat) (hk : k < nb) (hle : bs * k ≤ n) :
    Gen.scanBlockExtent (bs : Int) (nb : Int) (n : Int) (k : Int)
      = (((bs * k : Nat) : Int), (((if nb - 1 - k = 0 then n - bs * k else bs) : Nat) : Int)) := by
  simp only [Gen.scanBlockExtent]
  by_cases h : nb - 1 - k = 0
  · have h' : (k : Int) = (nb : Int) - 1 := by omega
    simp only [if_pos h, if_pos h']
    refine Prod.ext ?_ ?_
    · simp only [Int.natCast_mul]
    · simp only []
      rw [← Int.natCast_mul]; omega
  · have h' : ¬ (k : Int) = (nb : Int) - 1 := by omega
    simp only [if_neg h, if_neg h', Int.natCast_mul]

/-- One turn of `lruFile.Read`'s loop in the model's terms (the `let`s of `Lru.read`). -/
def lruTurnNat (off cs size remaining : Nat) : Nat × Nat × Nat × Bool :=
  let chunkIndex := off / cs
  let start := off % cs
  let chunkStart := chunkIndex * cs
  let lastChunk := chunkStart + cs > size
  let chunkEnd := if lastChunk then size else chunkStart + cs
  let csz := chunkEnd - chunkStart
  let endWanted := start + remaining
  (chunkIndex, start, if endWanted > csz then csz else endWanted, decide (endWanted > csz ∧ lastChunk))

theorem gen_lruTurn (off cs size remaining : Nat) (hoff : off ≤ size) :
    Gen.lruTurn (off : Int) (cs : Int) (size : Int) (remaining : Int) false
      = ((((lruTurnNat off cs size remaining).1 : Nat) : Int), (((lruTurnNat off cs size remaining).2.1 : Nat) : Int),
         (((lruTurnNat off cs size remaining).2.2.1 : Nat) : Int), (lruTurnNat off cs size remaining).2.2.2) := by
  simp only [Gen.lruTurn, lruTurnNat, tdiv_nat, tmod_nat]
  have hcs : off / cs * cs ≤ off := Nat.div_mul_le_self off cs
  have e1 : ((off / cs : Nat) : Int) * (cs : Int) = ((off / cs * cs : Nat) : Int) := by simp only [Int.natCast_mul]
  rw [e1]
  generalize off / cs * cs = a at *
  generalize off % cs = s at *
  by_cases h1 : a + cs > size
  · have h1' : (a : Int) + (cs : Int) > (size : Int) := by omega
    by_cases h2 : s + remaining > size - a
    · have h2' : (s : Int) + (remaining : Int) > (size : Int) - (a : Int) := by omega
      simp only [if_pos h1', if_pos h1, if_pos h2', if_pos h2, h1, h2, and_self, decide_true, if_true, if_false, and_true]
      refine Prod.ext rfl (Prod.ext rfl (Prod.ext ?_ rfl)); simp only []; omega
    · have h2' : ¬ (s : Int) + (remaining : Int) > (size : Int) - (a : Int) := by omega
      simp only [if_pos h1', if_pos h1, if_neg h2', if_neg h2, h1, h2, false_and, decide_false, if_true, if_false, and_true]
      refine Prod.ext rfl (Prod.ext rfl (Prod.ext ?_ rfl)); simp only []; omega
  · have h1' : ¬ (a : Int) + (cs : Int) > (size : Int) := by omega
    by_cases h2 : s + remaining > a + cs - a
    · have h2' : (s : Int) + (remaining : Int) > (a : Int) + (cs : Int) - (a : Int) := by omega
      simp only [if_neg h1', if_neg h1, if_pos h2', if_pos h2, h1, and_false, decide_false, if_true, if_false]
      refine Prod.ext rfl (Prod.ext rfl (Prod.ext ?_ ?_))
      · simp only []; omega
      · simp
    · have h2' : ¬ (s : Int) + (remaining : Int) > (a : Int) + (cs : Int) - (a : Int) := by omega
      simp only [if_neg h1', if_neg h1, if_neg h2', if_neg h2, h1, and_false, decide_false, if_true, if_false]
      refine Prod.ext rfl (Prod.ext rfl (Prod.ext ?_ rfl)); simp only []; omega


section
open Wharf.Lru
/-- `Lru.read` takes its turn exactly as `lruTurnNat` says (so `gen_lruTurn` ties the arithmetic of the real loop
    body to the arithmetic of the model's). -/
theorem lru_read_turn (lf : LruFile) (fuel rem : Nat) (acc : List Byte) (h : rem ≠ 0) (lf' : LruFile)
    (chunk : List Byte) (hg : getChunk lf (lf.offset.toNat / lf.chunkSize) = .ok (lf', chunk))
    (hcs : lf'.chunkSize = lf.chunkSize) :
    read lf (fuel + 1) rem acc =
      (let t := lruTurnNat lf.offset.toNat lf.chunkSize lf'.file.length rem
       let piece := (chunk.drop t.2.1).take (t.2.2.1 - t.2.1)
       let lf2 := { lf' with offset := lf'.offset + piece.length }
       if t.2.2.2 then .ok (lf2, acc ++ piece, true) else read lf2 fuel (rem - piece.length) (acc ++ piece)) := by
  simp only [Wharf.Lru.read, h, if_false, hg, hcs, lruTurnNat, decide_eq_true_eq]
end

end Wharf.GenTies
