/-
  Tie (a): the definitions regenerated from /repo's source by wvextract (Wharf.Gen.*) agree with
  the hand-written model.  If the source changes a constant, a comparison or an arithmetic
  expression, these theorems stop checking.
-/
import Wharf.Gen.Constants
import Wharf.Gen.Kernels
import Wharf.Model.Rsync
import Wharf.Model.Patch
import Wharf.Model.Overlay

namespace Wharf.GenTies
open Wharf

/-- Side conditions on the constants that the parametric theorems are instantiated with. -/
theorem constants_ok :
    0 < Gen.pwr_BlockSize ∧ 0 < Gen.wsync_MaxDataOp ∧ Gen.wsync__M = 65536 ∧
    Gen.overlay_overlaySameThreshold < Gen.overlay_overlayBufSize ∧
    0 < Gen.bsdiff_lruChunkSize ∧ 0 < Gen.bsdiff_lruNumEntries ∧
    0 < Gen.pwr_MaxWoundSize ∧ 0 < Gen.pwr_woundChanCap ∧
    Gen.SyncOp_Type_HEY_YOU_DID_IT = 2049 ∧ Gen.SyncOp_type = 1 ∧ Gen.BsdiffHeader_targetIndex = 1 ∧
    Gen.SyncOp_Type_BLOCK_RANGE = 0 ∧ Gen.SyncOp_Type_DATA = 1 := by decide

theorem M_eq : Rsync.M.toNat = Gen.wsync__M := by decide

/-- `pwr.ComputeNumBlocks` is the model's `numBlocks` at the real block size. -/
theorem gen_numBlocks (s : Nat) :
    Gen.computeNumBlocks (s : Int) = (Rsync.numBlocks Gen.pwr_BlockSize s : Nat) := by
  unfold Gen.computeNumBlocks Rsync.numBlocks Gen.pwr_BlockSize
  have h : ((s : Int) + 65536 - 1) = ((s + 65536 - 1 : Nat) : Int) := by omega
  rw [h, Int.tdiv_eq_ediv_of_nonneg (by omega)]
  exact (Int.natCast_ediv _ _).symm

/-- `pwr.ComputeBlockSize` is the model's `blockLen` at the real block size. -/
theorem gen_blockSize (s i : Nat) :
    Gen.computeBlockSize (s : Int) (i : Int) = (Rsync.blockLen Gen.pwr_BlockSize s i : Nat) := by
  unfold Gen.computeBlockSize Rsync.blockLen Gen.pwr_BlockSize
  by_cases h : 65536 * (i + 1) > s
  · have h' : (65536 : Int) * ((i : Int) + 1) > (s : Int) := by omega
    rw [if_pos h', if_pos h, Int.tmod_eq_emod_of_nonneg (by omega)]
    omega
  · have h' : ¬ (65536 : Int) * ((i : Int) + 1) > (s : Int) := by omega
    rw [if_neg h', if_neg h]; rfl

/-- The rolling-checksum update lines of `ComputeDiff` are the model's. -/
theorem gen_roll1 (b1 pop push : UInt32) : Gen.rollBeta1 b1 pop push = Rsync.rollβ1 b1 pop push := rfl
theorem gen_roll2 (b1 b2 pop h t : UInt32) : Gen.rollBeta2 b1 b2 pop h t = Rsync.rollβ2 b1 b2 pop (h - t) := rfl
theorem gen_roll (b1 b2 : UInt32) : Gen.rollBeta b1 b2 = Rsync.rollβ b1 b2 := rfl

/-- `wire.nextPowerOf2` never shrinks its argument (the reader's reusable buffer is large enough). -/
theorem nextPow2_ge (v : Nat) (h : 1 ≤ v) : v ≤ Gen.nextPowerOf2 v := by
  obtain ⟨a, rfl⟩ : ∃ a, v = a + 1 := ⟨v - 1, by omega⟩
  unfold Gen.nextPowerOf2
  simp only [Nat.add_sub_cancel]
  apply Nat.succ_le_succ
  exact Nat.le_trans (Nat.le_trans (Nat.le_trans (Nat.le_trans Nat.left_le_or Nat.left_le_or)
    Nat.left_le_or) Nat.left_le_or) Nat.left_le_or

/-- The field numbers and enum values the message-level model uses are those of pwr.proto / bsdiff.proto. -/
theorem proto_fields :
    Patch.fSyncHeaderType = Gen.SyncHeader_type ∧ Patch.fSyncHeaderFileIndex = Gen.SyncHeader_fileIndex ∧
    Patch.fBsdiffTargetIndex = Gen.BsdiffHeader_targetIndex ∧
    Patch.fOpType = Gen.SyncOp_type ∧ Patch.fOpFileIndex = Gen.SyncOp_fileIndex ∧
    Patch.fOpBlockIndex = Gen.SyncOp_blockIndex ∧ Patch.fOpBlockSpan = Gen.SyncOp_blockSpan ∧
    Patch.fOpData = Gen.SyncOp_data ∧
    Patch.fCtrlAdd = Gen.Control_add ∧ Patch.fCtrlCopy = Gen.Control_copy ∧
    Patch.fCtrlSeek = Gen.Control_seek ∧ Patch.fCtrlEof = Gen.Control_eof ∧
    Patch.opBlockRange = (Gen.SyncOp_Type_BLOCK_RANGE : Int) ∧ Patch.opData = (Gen.SyncOp_Type_DATA : Int) ∧
    Patch.heyYouDidIt = (Gen.SyncOp_Type_HEY_YOU_DID_IT : Int) ∧
    Patch.kindRsync = (Gen.SyncHeader_Type_RSYNC : Int) ∧ Patch.kindBsdiff = (Gen.SyncHeader_Type_BSDIFF : Int) := by
  decide

/-- The overlay constants the C14 theorems are instantiated with. -/
theorem overlay_consts :
    Gen.overlay_overlayBufSize = 131072 ∧ Gen.overlay_overlaySameThreshold = 8192 ∧ 0 < Gen.overlay_overlayBufSize := by
  decide

end Wharf.GenTies
