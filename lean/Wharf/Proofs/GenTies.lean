/-
  Tie (a): the definitions regenerated from /repo's source by wvextract (Wharf.Gen.*) agree with
  the hand-written model.  If the source changes a constant, a comparison or an arithmetic
  expression, these theorems stop checking.
-/
import Wharf.Gen.Constants
import Wharf.Gen.Kernels
import Wharf.Model.Rsync

namespace Wharf.GenTies
open Wharf

/-- Side conditions on the constants that the parametric theorems are instantiated with. -/
theorem constants_ok :
    0 < Gen.pwr_BlockSize ∧ 0 < Gen.wsync_MaxDataOp ∧ Gen.wsync__M = 65536 ∧
    Gen.overlay_overlaySameThreshold < Gen.overlay_overlayBufSize ∧
    0 < Gen.bsdiff_lruChunkSize ∧ 0 < Gen.bsdiff_lruNumEntries ∧
    0 < Gen.pwr_MaxWoundSize ∧ 0 < Gen.pwr_woundChanCap ∧
    Gen.SyncOp_Type_HEY_YOU_DID_IT = 2049 ∧ Gen.SyncOp_type = 1 ∧ Gen.BsdiffHeader_targetIndex = 1 ∧
    Gen.SyncOp_Type_BLOCK_RANGE = 0 ∧ Gen.SyncOp_Type_DATA = 1 := by decide

theorem M_eq : Rsync.M.toNat = Gen.wsync__M := by decide

/-- `pwr.ComputeNumBlocks` is the model's `numBlocks` at the real block size. -/
theorem gen_numBlocks (s : Nat) :
    Gen.computeNumBlocks (s : Int) = (Rsync.numBlocks Gen.pwr_BlockSize s : Nat) := by
  unfold Gen.computeNumBlocks Rsync.numBlocks Gen.pwr_BlockSize
  have h : ((s : Int) + 65536 - 1) = ((s + 65536 - 1 : Nat) : Int) := by omega
  rw [h, Int.tdiv_eq_ediv_of_nonneg (by omega)]
  exact (Int.natCast_ediv _ _).symm

/-- `pwr.ComputeBlockSize` is the model's `blockLen` at the real block size. -/
theorem gen_blockSize (s i : Nat) :
    Gen.computeBlockSize (s : Int) (i : Int) = (Rsync.blockLen Gen.pwr_BlockSize s i : Nat) := by
  unfold Gen.computeBlockSize Rsync.blockLen Gen.pwr_BlockSize
  by_cases h : 65536 * (i + 1) > s
  · have h' : (65536 : Int) * ((i : Int) + 1) > (s : Int) := by omega
    rw [if_pos h', if_pos h, Int.tmod_eq_emod_of_nonneg (by omega)]
    omega
  · have h' : ¬ (65536 : Int) * ((i : Int) + 1) > (s : Int) := by omega
    rw [if_neg h', if_neg h]; rfl

/-- The rolling-checksum update lines of `ComputeDiff` are the model's. -/
theorem gen_roll1 (b1 pop push : UInt32) : Gen.rollBeta1 b1 pop push = Rsync.rollβ1 b1 pop push := rfl
theorem gen_roll2 (b1 b2 pop h t : UInt32) : Gen.rollBeta2 b1 b2 pop h t = Rsync.rollβ2 b1 b2 pop (h - t) := rfl
theorem gen_roll (b1 b2 : UInt32) : Gen.rollBeta b1 b2 = Rsync.rollβ b1 b2 := rfl

/-- `wire.nextPowerOf2` never shrinks its argument (the reader's reusable buffer is large enough). -/
theorem nextPow2_ge (v : Nat) (h : 1 ≤ v) : v ≤ Gen.nextPowerOf2 v := by
  obtain ⟨a, rfl⟩ : ∃ a, v = a + 1 := ⟨v - 1, by omega⟩
  unfold Gen.nextPowerOf2
  simp only [Nat.add_sub_cancel]
  apply Nat.succ_le_succ
  exact Nat.le_trans (Nat.le_trans (Nat.le_trans (Nat.le_trans Nat.left_le_or Nat.left_le_or)
    Nat.left_le_or) Nat.left_le_or) Nat.left_le_or

end Wharf.GenTies
