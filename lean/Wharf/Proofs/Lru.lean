/-
  Helper lemmas for C12 (chunked LRU read cache).  Core Lean only.
-/
import Wharf.Model.Lru

namespace Wharf.Lru
open Wharf

/-! ### `simplelru` model: `cacheGet` / `cacheAdd` -/

theorem cacheGet_none {c : List (Nat × Int)} {k : Nat} (h : cacheGet c k = none) :
    ∀ e ∈ c, e.1 ≠ k := by
  unfold cacheGet at h
  split at h
  · cases h
  · rename_i hf
    intro e he hek
    have := List.find?_eq_none.mp hf e he
    simp [hek] at this

theorem cacheGet_some {c : List (Nat × Int)} {k : Nat} {si : Int} {c' : List (Nat × Int)}
    (h : cacheGet c k = some (si, c')) :
    (k, si) ∈ c ∧ c' = (k, si) :: c.filter (fun e => e.1 != k) := by
  unfold cacheGet at h
  split at h
  · rename_i e hf
    have hm := List.mem_of_find?_eq_some hf
    have hp := List.find?_some hf
    simp only [beq_iff_eq] at hp
    simp only [Option.some.injEq, Prod.mk.injEq] at h
    obtain ⟨h1, h2⟩ := h
    obtain ⟨e1, e2⟩ := e
    simp only at hp h1
    subst hp; subst h1
    exact ⟨hm, h2.symm⟩
  · cases h

theorem any_key_false {c : List (Nat × Int)} {k : Nat} (hk : ∀ e ∈ c, e.1 ≠ k) :
    c.any (fun e => e.1 == k) = false := by
  rw [List.any_eq_false]
  intro e he
  simp [hk e he]

theorem filter_key_self {c : List (Nat × Int)} {k : Nat} (hk : ∀ e ∈ c, e.1 ≠ k) :
    c.filter (fun e => e.1 != k) = c := by
  rw [List.filter_eq_self]
  intro e he
  simp [hk e he]

theorem cacheAdd_fresh_lt {cap : Nat} {c : List (Nat × Int)} {k : Nat} {v : Int}
    (hk : ∀ e ∈ c, e.1 ≠ k) (hl : c.length < cap) :
    cacheAdd cap c k v = ((k, v) :: c, none) := by
  have h2 : ¬ (c.length + 1 > cap) := by omega
  simp only [cacheAdd, any_key_false hk, Bool.false_eq_true, if_false, List.length_cons, h2]

theorem cacheAdd_fresh_full {cap : Nat} {c : List (Nat × Int)} {k : Nat} {v : Int}
    (hk : ∀ e ∈ c, e.1 ≠ k) (hl : c.length = cap) (hne : c ≠ []) :
    cacheAdd cap c k v = ((k, v) :: c.dropLast, some (c.getLast hne)) := by
  obtain ⟨x, xs, rfl⟩ := List.exists_cons_of_ne_nil hne
  have h2 : xs.length + 1 + 1 > cap := by simp only [List.length_cons] at hl; omega
  simp only [cacheAdd, any_key_false hk, Bool.false_eq_true, if_false, List.length_cons, h2, if_true,
    List.dropLast_cons_cons, List.getLast?_cons_cons, List.getLast?_eq_some_getLast hne]

theorem cacheAdd_head {cap : Nat} {c : List (Nat × Int)} {k : Nat} {v w : Int}
    (hk : ∀ e ∈ c, e.1 ≠ k) :
    cacheAdd cap ((k, w) :: c) k v = ((k, v) :: c, none) := by
  simp [cacheAdd, filter_key_self hk]

/-- With distinct keys, removing a present key removes exactly one entry. -/
theorem length_filter_key {c : List (Nat × Int)} (hnd : (c.map (·.1)).Nodup) {k : Nat} {si : Int}
    (hm : (k, si) ∈ c) : (c.filter (fun e => e.1 != k)).length + 1 = c.length := by
  induction c with
  | nil => cases hm
  | cons x xs ih =>
    simp only [List.map_cons, List.nodup_cons, List.mem_map, not_exists, not_and] at hnd
    obtain ⟨hx, hnd'⟩ := hnd
    by_cases hxk : x.1 = k
    · have hk : ∀ e ∈ xs, e.1 ≠ k := fun e he h => hx e he (h.trans hxk.symm)
      simp [hxk, filter_key_self hk]
    · have hm' : (k, si) ∈ xs := by
        rcases List.mem_cons.mp hm with h | h
        · exact absurd (by rw [← h]) hxk
        · exact h
      have := ih hnd' hm'
      simp [hxk, this]

/-! ### `firstFree` -/

theorem firstFree_spec {l : List Int} {n k : Nat} (h : firstFree l n = some k) :
    n ≤ k ∧ ∃ v, l[k - n]? = some v ∧ v < 0 := by
  induction l generalizing n with
  | nil => cases h
  | cons v vs ih =>
    simp only [firstFree] at h
    split at h
    · rename_i hv
      cases h
      exact ⟨Nat.le_refl _, v, by simp, hv⟩
    · obtain ⟨h1, w, h2, h3⟩ := ih h
      refine ⟨by omega, w, ?_, h3⟩
      have : k - n = (k - (n + 1)) + 1 := by omega
      rw [this, List.getElem?_cons_succ]; exact h2

theorem firstFree_exists {l : List Int} (n : Nat) (h : ∃ v ∈ l, v < 0) :
    ∃ k, firstFree l n = some k := by
  induction l generalizing n with
  | nil => obtain ⟨v, hv, _⟩ := h; cases hv
  | cons v vs ih =>
    simp only [firstFree]
    split
    · exact ⟨n, rfl⟩
    · rename_i hv
      obtain ⟨w, hw, hw0⟩ := h
      rcases List.mem_cons.mp hw with rfl | hw
      · exact absurd hw0 hv
      · exact ih (n + 1) ⟨w, hw, hw0⟩

theorem countP_set_le (p : Int → Bool) (l : List Int) (i : Nat) (v : Int) :
    l.countP p ≤ (l.set i v).countP p + 1 := by
  induction l generalizing i with
  | nil => simp
  | cons x xs ih =>
    cases i with
    | zero =>
      simp only [List.set_cons_zero, List.countP_cons]
      split <;> split <;> omega
    | succ i =>
      have := ih i
      simp only [List.set_cons_succ, List.countP_cons]
      omega

/-! ### The cache invariant -/

/-- Invariant tying the LRU list, the slot allocation table and the slot storage together. -/
structure CInv (cs cap : Nat) (file : List Byte) (cache : List (Nat × Int)) (alloc : List Int)
    (storage : List (List Byte)) : Prop where
  alloc_len : alloc.length = cap
  storage_len : storage.length = cap
  nodup : (cache.map (·.1)).Nodup
  cache_len : cache.length ≤ cap
  free : cap ≤ cache.length + alloc.countP (fun v => decide (v < 0))
  entry : ∀ k si, (k, si) ∈ cache → ∃ s : Nat, si = (s : Int) ∧ s < cap ∧
    alloc[s]? = some (k : Int) ∧ storage[s]? = some ((file.drop (k * cs)).take cs)

theorem CInv.init (cs cap : Nat) (file : List Byte) :
    CInv cs cap file [] (List.replicate cap (-1)) (List.replicate cap []) where
  alloc_len := by simp
  storage_len := by simp
  nodup := by simp
  cache_len := by simp
  free := by
    have : List.countP (fun v : Int => decide (v < 0)) (List.replicate cap (-1)) = cap := by
      rw [List.countP_replicate]; simp
    simp [this]
  entry := by intro k si h; cases h

/-- A hit moves the entry to the front. -/
theorem CInv.hit {cs cap file cache alloc storage} (h : CInv cs cap file cache alloc storage)
    {k : Nat} {si : Int} (hm : (k, si) ∈ cache) :
    CInv cs cap file ((k, si) :: cache.filter (fun e => e.1 != k)) alloc storage where
  alloc_len := h.alloc_len
  storage_len := h.storage_len
  nodup := by
    simp only [List.map_cons, List.nodup_cons]
    refine ⟨?_, ?_⟩
    · intro hk
      obtain ⟨e, he, hek⟩ := List.mem_map.mp hk
      have := (List.mem_filter.mp he).2
      simp [hek] at this
    · exact h.nodup.sublist (List.filter_sublist.map _)
  cache_len := by
    have := length_filter_key h.nodup hm
    have := h.cache_len
    simp only [List.length_cons]; omega
  free := by
    have := length_filter_key h.nodup hm
    have := h.free
    simp only [List.length_cons]; omega
  entry := by
    intro k' si' hm'
    rcases List.mem_cons.mp hm' with heq | hm'
    · simp only [Prod.mk.injEq] at heq
      obtain ⟨rfl, rfl⟩ := heq
      exact h.entry _ _ hm
    · exact h.entry k' si' (List.mem_filter.mp hm').1

/-- Evicting the oldest entry of a full cache frees its slot. -/
theorem CInv.evict {cs cap file init alloc storage} {ke : Nat} {sie : Int}
    (h : CInv cs cap file (init ++ [(ke, sie)]) alloc storage) (hfull : init.length + 1 = cap) :
    ∃ s : Nat, sie = (s : Int) ∧ CInv cs cap file init (alloc.set s (-1)) storage := by
  obtain ⟨s, hs, hslt, hal, _⟩ := h.entry ke sie (by simp)
  refine ⟨s, hs, ?_⟩
  have hnd := h.nodup
  simp only [List.map_append, List.map_cons, List.map_nil] at hnd
  rw [List.nodup_append] at hnd
  obtain ⟨hnd1, _, hdisj⟩ := hnd
  refine ⟨by simp [h.alloc_len], h.storage_len, hnd1, by omega, ?_, ?_⟩
  · have hpos : 0 < (alloc.set s (-1)).countP (fun v => decide (v < 0)) := by
      rw [List.countP_pos_iff]
      refine ⟨-1, ?_, by decide⟩
      apply List.mem_of_getElem? (i := s)
      rw [List.getElem?_set_self]; rw [h.alloc_len]; exact hslt
    omega
  · intro k' si' hm'
    obtain ⟨s', hs', hslt', hal', hst'⟩ := h.entry k' si' (List.mem_append_left _ hm')
    refine ⟨s', hs', hslt', ?_, hst'⟩
    have hne : s ≠ s' := by
      intro heq
      subst heq
      rw [hal] at hal'
      have hkk : ke = k' := by
        simp only [Option.some.injEq] at hal'; omega
      exact hdisj k' (List.mem_map.mpr ⟨(k', si'), hm', rfl⟩) ke (by simp) hkk.symm
    rw [List.getElem?_set_ne hne]; exact hal'

/-- Installing a fresh chunk into a free slot. -/
theorem CInv.insert {cs cap file rest alloc storage} (h : CInv cs cap file rest alloc storage)
    (hlt : rest.length < cap) {k : Nat} (hk : ∀ e ∈ rest, e.1 ≠ k) {s : Nat} {v : Int}
    (hs : alloc[s]? = some v) (hv : v < 0) :
    CInv cs cap file ((k, (s : Int)) :: rest) (alloc.set s (k : Int))
      (storage.set s ((file.drop (k * cs)).take cs)) := by
  have hslt : s < cap := by
    have := (List.getElem?_eq_some_iff.mp hs).1
    rw [h.alloc_len] at this; exact this
  refine ⟨by simp [h.alloc_len], by simp [h.storage_len], ?_, by simp only [List.length_cons]; omega,
    ?_, ?_⟩
  · simp only [List.map_cons, List.nodup_cons]
    refine ⟨?_, h.nodup⟩
    intro hk'
    obtain ⟨e, he, hek⟩ := List.mem_map.mp hk'
    exact hk e he hek
  · have := countP_set_le (fun v => decide (v < 0)) alloc s (k : Int)
    have := h.free
    simp only [List.length_cons]; omega
  · intro k' si' hm'
    rcases List.mem_cons.mp hm' with heq | hm'
    · simp only [Prod.mk.injEq] at heq
      obtain ⟨rfl, rfl⟩ := heq
      refine ⟨s, rfl, hslt, ?_, ?_⟩
      · rw [List.getElem?_set_self]; rw [h.alloc_len]; exact hslt
      · rw [List.getElem?_set_self]; rw [h.storage_len]; exact hslt
    · obtain ⟨s', hs', hslt', hal', hst'⟩ := h.entry k' si' hm'
      have hne : s ≠ s' := by
        intro heq
        subst heq
        rw [hs] at hal'
        have : v = (k' : Int) := by simpa using hal'
        omega
      refine ⟨s', hs', hslt', ?_, ?_⟩
      · rw [List.getElem?_set_ne hne]; exact hal'
      · rw [List.getElem?_set_ne hne]; exact hst'

/-! ### `getChunk` -/

/-- Invariant of a reachable `LruFile` (everything except the offset). -/
structure Inv (cs cap : Nat) (file : List Byte) (lf : LruFile) : Prop where
  hcs : lf.chunkSize = cs
  hcap : lf.cap = cap
  hfile : lf.file = file
  core : CInv cs cap file lf.cache lf.alloc lf.storage

theorem Inv.new (cs cap : Nat) (file : List Byte) : Inv cs cap file (new cs cap file) :=
  ⟨rfl, rfl, rfl, CInv.init cs cap file⟩

/-- `getChunk` never fails, returns the true bytes of the chunk and preserves the invariant. -/
theorem getChunk_spec {cs cap : Nat} {file : List Byte} {lf : LruFile} (h : Inv cs cap file lf)
    (hcap : 1 ≤ cap) (k : Nat) :
    ∃ lf', getChunk lf k = .ok (lf', (file.drop (k * cs)).take cs) ∧ Inv cs cap file lf' ∧
      lf'.offset = lf.offset := by
  obtain ⟨cs', cap', file', offset, cache, alloc, storage, hits, misses⟩ := lf
  obtain ⟨h1, h2, h3, hc⟩ := h
  simp only at h1 h2 h3 hc
  subst h1 h2 h3
  cases hg : cacheGet cache k with
  | some r =>
    obtain ⟨si, c'⟩ := r
    obtain ⟨hm, rfl⟩ := cacheGet_some hg
    obtain ⟨s, hs, _, _, hst⟩ := hc.entry k si hm
    refine ⟨{ chunkSize := cs', cap := cap', file := file', offset := offset,
              cache := (k, si) :: cache.filter (fun e => e.1 != k), alloc := alloc,
              storage := storage, hits := hits + 1, misses := misses }, ?_,
            ⟨rfl, rfl, rfl, hc.hit hm⟩, rfl⟩
    simp only [getChunk, hg]
    subst hs
    simp [List.getD_eq_getElem?_getD, hst]
  | none =>
    have hk := cacheGet_none hg
    by_cases hl : cache.length < cap'
    · -- room left: nothing is evicted
      obtain ⟨v, hv, hv0⟩ : ∃ v ∈ alloc, v < 0 := by
        have hpos : 0 < alloc.countP (fun v => decide (v < 0)) := by have := hc.free; omega
        obtain ⟨v, hv, hv0⟩ := List.countP_pos_iff.mp hpos
        exact ⟨v, hv, by simpa using hv0⟩
      obtain ⟨s, hs⟩ := firstFree_exists 0 ⟨v, hv, hv0⟩
      obtain ⟨_, w, hw, hw0⟩ := firstFree_spec hs
      refine ⟨{ chunkSize := cs', cap := cap', file := file', offset := offset,
                cache := (k, (s : Int)) :: cache, alloc := alloc.set s (k : Int),
                storage := storage.set s ((file'.drop (k * cs')).take cs'),
                hits := hits, misses := misses + 1 }, ?_,
              ⟨rfl, rfl, rfl, hc.insert hl hk hw hw0⟩, rfl⟩
      simp only [getChunk, hg, cacheAdd_fresh_lt hk hl, hs, cacheAdd_head hk, Bool.false_eq_true,
        if_false]
    · -- full: the oldest entry is evicted and its slot freed
      have hfull : cache.length = cap' := by have := hc.cache_len; omega
      have hne : cache ≠ [] := by
        intro h0; rw [h0] at hfull; simp only [List.length_nil] at hfull; omega
      have hsplit : cache.dropLast ++ [cache.getLast hne] = cache := List.dropLast_concat_getLast hne
      obtain ⟨ke, sie, hlast⟩ : ∃ ke sie, cache.getLast hne = (ke, sie) := ⟨_, _, rfl⟩
      rw [hlast] at hsplit
      have hilen : cache.dropLast.length + 1 = cap' := by
        rw [List.length_dropLast]; omega
      have hc' := hc
      rw [← hsplit] at hc'
      obtain ⟨se, hse, hce⟩ := hc'.evict hilen
      have hk' : ∀ e ∈ cache.dropLast, e.1 ≠ k := fun e he => hk e (List.dropLast_subset _ he)
      obtain ⟨s, hs⟩ := firstFree_exists (l := alloc.set se (-1)) 0 ⟨-1, by
        apply List.mem_of_getElem? (i := se)
        rw [List.getElem?_set_self]
        obtain ⟨s2, hs2, hlt2, _, _⟩ := hc.entry ke sie (by rw [← hsplit]; simp)
        rw [hc.alloc_len]; omega, by decide⟩
      obtain ⟨_, w, hw, hw0⟩ := firstFree_spec hs
      refine ⟨{ chunkSize := cs', cap := cap', file := file', offset := offset,
                cache := (k, (s : Int)) :: cache.dropLast, alloc := (alloc.set se (-1)).set s (k : Int),
                storage := storage.set s ((file'.drop (k * cs')).take cs'),
                hits := hits, misses := misses + 1 }, ?_,
              ⟨rfl, rfl, rfl, hce.insert (by omega) hk' hw hw0⟩, rfl⟩
      have hnn : ¬ ((se : Int) < 0) := by omega
      subst hse
      simp only [getChunk, hg, cacheAdd_fresh_full hk hfull hne, hlast, hnn, if_false, decide_false,
        Int.toNat_natCast, hs, cacheAdd_head hk', Bool.false_eq_true]

/-! ### `read` -/

theorem plainRead_length (file : List Byte) (off n : Nat) :
    (plainRead file off n).length = min n (file.length - off) := by
  simp [plainRead, List.length_take, List.length_drop]

/-- The part of a cached chunk handed out by one loop iteration, as a plain read. -/
theorem piece_eq (file : List Byte) (a st cs e : Nat) (he : e ≤ cs) :
    List.take (e - st) (List.drop st (List.take cs (List.drop a file)))
      = plainRead file (a + st) (e - st) := by
  rw [List.drop_take, List.take_take, List.drop_drop, Nat.min_eq_left (by omega)]
  rfl

/-- A plain read of `n` bytes is a plain read of `m ≤ n` bytes followed by the rest. -/
theorem plainRead_split (file : List Byte) (off n m : Nat) (h : m ≤ n) :
    plainRead file off n = plainRead file off m ++
      plainRead file (off + (plainRead file off m).length) (n - (plainRead file off m).length) := by
  rw [plainRead_length]
  by_cases hm : m ≤ file.length - off
  · rw [Nat.min_eq_left hm]
    have : n = m + (n - m) := by omega
    conv => lhs; rw [this]
    simp only [plainRead, List.take_add, List.drop_drop]
  · have hlen : (file.drop off).length ≤ m := by rw [List.length_drop]; omega
    have hlen' : (file.drop off).length ≤ n := by omega
    have hnil : file.drop (off + min m (file.length - off)) = [] := by
      apply List.drop_eq_nil_of_le; omega
    simp only [plainRead, List.take_of_length_le hlen, List.take_of_length_le hlen', hnil,
      List.take_nil, List.append_nil]

theorem plainRead_of_le (file : List Byte) (off n : Nat) (h : file.length - off ≤ n) :
    plainRead file off n = file.drop off := by
  apply List.take_of_length_le; rw [List.length_drop]; exact h

theorem Inv.setOffset {cs cap file lf} (h : Inv cs cap file lf) (o : Int) :
    Inv cs cap file { lf with offset := o } := ⟨h.hcs, h.hcap, h.hfile, h.core⟩

theorem read_spec {cs cap : Nat} {file : List Byte} (hcs : 1 ≤ cs) (hcap : 1 ≤ cap)
    (fuel remaining : Nat) (lf : LruFile) (acc : List Byte) (off : Nat)
    (hinv : Inv cs cap file lf) (hoff : lf.offset = (off : Int)) (hle : off ≤ file.length)
    (hfuel : remaining < fuel) :
    ∃ lf' eof, read lf fuel remaining acc = .ok (lf', acc ++ plainRead file off remaining, eof) ∧
      Inv cs cap file lf' ∧
      lf'.offset = ((off + (plainRead file off remaining).length : Nat) : Int) := by
  induction fuel generalizing remaining lf acc off with
  | zero => omega
  | succ fuel ih =>
    by_cases hr : remaining = 0
    · subst hr
      exact ⟨lf, false, by simp [read, plainRead], hinv, by simp [plainRead, hoff]⟩
    · obtain ⟨lf1, hg, hinv1, hoff1⟩ := getChunk_spec hinv hcap (off / cs)
      have e1 : lf.offset.toNat = off := by rw [hoff]; exact Int.toNat_natCast _
      have hds : off / cs * cs + off % cs = off := Nat.div_add_mod' off cs
      have hst : off % cs < cs := Nat.mod_lt _ (by omega)
      rw [read]
      simp only [hr, if_false, e1, hinv.hcs, hg, hinv1.hcs, hinv1.hfile, hoff1]
      generalize off / cs * cs = a at *
      generalize off % cs = st at *
      generalize hcsz : (if a + cs > file.length then file.length else a + cs) - a = csz
      generalize he : (if st + remaining > csz then csz else st + remaining) = e
      have hcsz' : csz = if a + cs > file.length then file.length - a else cs := by
        rw [← hcsz]; split <;> omega
      have he' : e ≤ cs := by
        rw [← he, hcsz']; split <;> split <;> omega
      rw [piece_eq file a st cs e he', hds]
      have hpl := plainRead_length file off (e - st)
      by_cases heof : st + remaining > csz ∧ a + cs > file.length
      · rw [if_pos heof]
        obtain ⟨hw, hlast⟩ := heof
        rw [if_pos hlast] at hcsz'
        rw [if_pos hw] at he
        have h1 : plainRead file off (e - st) = plainRead file off remaining := by
          rw [plainRead_of_le _ _ _ (by omega), plainRead_of_le _ _ _ (by omega)]
        rw [h1]
        refine ⟨{ chunkSize := cs, cap := lf1.cap, file := file,
                  offset := lf.offset + ((plainRead file off remaining).length : Int),
                  cache := lf1.cache, alloc := lf1.alloc, storage := lf1.storage, hits := lf1.hits,
                  misses := lf1.misses }, true, rfl, ⟨rfl, hinv1.hcap, rfl, hinv1.core⟩, ?_⟩
        simp only [hoff]
        omega
      · rw [if_neg heof]
        have hm : e - st ≤ remaining := by
          rw [← he]; split <;> omega
        have hsplit := plainRead_split file off remaining (e - st) hm
        generalize hp : plainRead file off (e - st) = piece at *
        have hprog : remaining - piece.length < fuel := by
          rw [hpl]
          by_cases hw : st + remaining > csz
          · have hnl : ¬ (a + cs > file.length) := fun hl => heof ⟨hw, hl⟩
            rw [if_neg hnl] at hcsz'
            rw [if_pos hw] at he
            rw [Nat.min_eq_left (by omega)]; omega
          · rw [if_neg hw] at he
            have : csz ≤ file.length - a := by rw [hcsz']; split <;> omega
            rw [Nat.min_eq_left (by omega)]; omega
        obtain ⟨lf', eof, hrd, hinv', hoff'⟩ := ih (remaining - piece.length)
          { chunkSize := cs, cap := lf1.cap, file := file, offset := lf.offset + (piece.length : Int),
            cache := lf1.cache, alloc := lf1.alloc, storage := lf1.storage, hits := lf1.hits,
            misses := lf1.misses } (acc ++ piece) (off + piece.length)
          ⟨rfl, hinv1.hcap, rfl, hinv1.core⟩ (by simp only [hoff]; omega) (by rw [hpl]; omega) hprog
        refine ⟨lf', eof, ?_, hinv', ?_⟩
        · rw [hrd, List.append_assoc, ← hsplit]
        · rw [hoff', hsplit, List.length_append]; omega

/-! ### `run` -/

theorem run_spec {cs cap : Nat} {file : List Byte} (hcs : 1 ≤ cs) (hcap : 1 ≤ cap) (ops : List Op)
    (lf : LruFile) (off : Nat) (hinv : Inv cs cap file lf) (hoff : lf.offset = (off : Int))
    (hle : off ≤ file.length) :
    ∃ lf', run lf ops = .ok (lf', runPlain file off ops) ∧ Inv cs cap file lf' := by
  induction ops generalizing lf off with
  | nil => exact ⟨lf, rfl, hinv⟩
  | cons op ops ih =>
    cases op with
    | seek o =>
      by_cases ho : o < 0 ∨ o > (file.length : Int)
      · obtain ⟨lf', hrun, hinv'⟩ := ih { lf with offset := 0 } 0 (hinv.setOffset 0) rfl (Nat.zero_le _)
        refine ⟨lf', ?_, hinv'⟩
        have ho' : o < 0 ∨ o > (lf.file.length : Int) := by rw [hinv.hfile]; exact ho
        simp only [run, seekStart, ho', ho, if_true, hrun, runPlain, Bool.false_eq_true, if_false]
      · obtain ⟨lf', hrun, hinv'⟩ := ih { lf with offset := o } o.toNat (hinv.setOffset o)
          (by simp only; omega) (by omega)
        refine ⟨lf', ?_, hinv'⟩
        have ho' : ¬ (o < 0 ∨ o > (lf.file.length : Int)) := by rw [hinv.hfile]; exact ho
        simp only [run, seekStart, ho', ho, if_false, hrun, runPlain, if_true]
    | read n =>
      obtain ⟨lf1, eof, hrd, hinv1, hoff1⟩ :=
        read_spec hcs hcap (n + 1) n lf [] off hinv hoff hle (Nat.lt_succ_self n)
      have hle1 : off + (plainRead file off n).length ≤ file.length := by
        rw [plainRead_length]; omega
      obtain ⟨lf', hrun, hinv'⟩ := ih lf1 _ hinv1 hoff1 hle1
      refine ⟨lf', ?_, hinv'⟩
      simp only [run, hrd, List.nil_append, hrun, runPlain]

end Wharf.Lru
