/-
  Completeness of the rsync scanner (helper lemmas for Wharf/Props/C08Bound.lean).

  * the weak hash only depends on the bytes of the window, wherever the window lies;
  * `findUnique` over the executable block library is complete for full blocks (`match_found`);
  * a trace invariant of the differ's loop: in every iteration that is not the last run the scanner either
    jumps over a block it found (which is then covered by a range) or moves by one byte, and it only does
    the latter at positions where no old block matches or where the `skip` optimisation fired;
  * two consequences: a position at which an old block matches is never covered by a data op
    (`computeDiff_no_data_at_hit`), and the number of fresh bytes is bounded by any potential function
    that decreases along byte steps (`computeDiff_fresh_le_potential`).
-/
import Wharf.Model.Rsync
import Wharf.Proofs.Rsync
import Wharf.Proofs.Reuse

namespace Wharf.Rsync
open Wharf

/-! ### The weak hash only depends on the bytes of the window -/

theorem S1_congr_shift (c d : Content) : ∀ (n a b : Nat),
    (∀ k, k < n → c.get (a + k) = d.get (b + k)) → S1 c a n = S1 d b n
  | 0, _, _, _ => rfl
  | n + 1, a, b, h => by
    rw [S1, S1]
    have h0 := h 0 (by omega)
    rw [Nat.add_zero, Nat.add_zero] at h0
    rw [h0, S1_congr_shift c d n (a + 1) (b + 1)]
    intro k hk
    have := h (k + 1) (by omega)
    have e1 : a + 1 + k = a + (k + 1) := by omega
    have e2 : b + 1 + k = b + (k + 1) := by omega
    rw [e1, e2]; exact this

theorem S2_congr_shift (c d : Content) : ∀ (n a b : Nat),
    (∀ k, k < n → c.get (a + k) = d.get (b + k)) → S2 c a n = S2 d b n
  | 0, _, _, _ => rfl
  | n + 1, a, b, h => by
    rw [S2, S2]
    have h0 := h 0 (by omega)
    rw [Nat.add_zero, Nat.add_zero] at h0
    rw [h0, S2_congr_shift c d n (a + 1) (b + 1)]
    intro k hk
    have := h (k + 1) (by omega)
    have e1 : a + 1 + k = a + (k + 1) := by omega
    have e2 : b + 1 + k = b + (k + 1) := by omega
    rw [e1, e2]; exact this

theorem betaHash_congr_shift (c d : Content) (a b n : Nat)
    (h : ∀ k, k < n → c.get (a + k) = d.get (b + k)) : betaHash c a n = betaHash d b n := by
  rw [betaHash_eq, betaHash_eq, S1_congr_shift c d n a b h, S2_congr_shift c d n a b h]

/-! ### Completeness of `findUnique` over the block library -/

/-- Some full block of some old file equals the window `src[x, x+bs)`. -/
def Match (bs : Nat) (olds : List Content) (src : Content) (x : Nat) : Prop :=
  ∃ (f : Nat) (old : Content) (k : Nat), olds[f]? = some old ∧ (k + 1) * bs ≤ old.size ∧
    ∀ j, j < bs → old.get (k * bs + j) = src.get (x + j)

/-- The `skip` optimisation cannot fire at `x`: the window at `x` is the first one, or its weak hash
    differs from that of the window one byte before. -/
def SkipOK (bs : Nat) (src : Content) (x : Nat) : Prop :=
  x = 0 ∨ (betaHash src x bs).1 ≠ (betaHash src (x - 1) bs).1

/-- A position where the scanner, if it gets there in an iteration that is not the last run, finds a block. -/
def Hit (bs : Nat) (olds : List Content) (src : Content) (x : Nat) : Prop :=
  SkipOK bs src x ∧ Match bs olds src x

theorem blockLen_of_full {bs size k : Nat} (h : (k + 1) * bs ≤ size) : blockLen bs size k = bs := by
  unfold blockLen
  rw [if_neg]
  rw [Nat.mul_comm]
  omega

/-- `findUniqueHash` is complete: if a full block of an old file equals the (full) window and the block
    library is asked with the true weak hash of the window, some entry is returned (whatever the
    preferred file). -/
theorem match_found {P : Params} (hbs : 0 < P.bs) {olds : List Content} {src : Content} {x : Nat}
    (pref : Option Nat) (hm : Match P.bs olds src x) :
    (findUnique P.bs olds.toArray src x P.bs 0 pref (betaHash src x P.bs).1
      (lookupFast (buildBuckets ((signature P.bs olds).length + 1) (signature P.bs olds))
        (betaHash src x P.bs).1)).isSome = true := by
  obtain ⟨f, old, k, hf, hk, hbytes⟩ := hm
  have hk' : k * P.bs + P.bs ≤ old.size := by
    rw [Nat.add_mul, Nat.one_mul] at hk; exact hk
  have hbl : blockLen P.bs old.size k = P.bs := blockLen_of_full hk
  have hnb : k < numBlocks P.bs old.size := by
    rw [lt_numBlocks_iff hbs, Nat.mul_comm]; omega
  have hfe := mem_fileEntries_of (bs := P.bs) (fi := f) (c := old) (by omega) hnb
  have hsig := mem_signatureFrom_of (bs := P.bs) olds 0 f old _ hf (by rw [Nat.zero_add]; exact hfe)
  have hw := betaHash_congr_shift old src (k * P.bs) x P.bs hbytes
  have hlk := lookupFast_complete (n := (signature P.bs olds).length + 1) (by omega)
    (signature P.bs olds) _ hsig
  rw [hbl] at hlk
  dsimp only at hlk
  rw [hw] at hlk
  refine findUnique_isSome pref (by omega) hlk rfl ?_ ?_
  · show shortOf P.bs P.bs = 0
    unfold shortOf
    rw [if_neg (by omega)]
  · unfold blockMatches
    dsimp only
    rw [List.getElem?_toArray, hf]
    dsimp only
    rw [hbl, sameBytes_of_get old src _ _ _ hbytes]
    simp

/-! ### Data ops of the output queue -/

/-- Source position `p` is covered by a data op of `l` (data ops carry `(start, len)` into the source). -/
def dataCover (l : List Op) (p : Nat) : Prop :=
  ∃ st len, Op.data st len ∈ l ∧ st ≤ p ∧ p < st + len

/-- Every data op of `l` lies below `c`. -/
def DataBelow (l : List Op) (c : Nat) : Prop :=
  ∀ st len, Op.data st len ∈ l → st + len ≤ c

/-- `l'` is `l` after `n` fresh bytes were sent, all of them at source positions in `[lo, hi)`:
    the data ops of `l'` are those of `l` or lie in `[lo, hi)`. -/
structure Sent (l l' : List Op) (lo hi n : Nat) : Prop where
  grow : ∀ st len, Op.data st len ∈ l' → Op.data st len ∈ l ∨ (lo ≤ st ∧ st + len ≤ hi)
  fresh : fresh l' = fresh l + n

theorem Sent.refl (l : List Op) (lo hi : Nat) : Sent l l lo hi 0 :=
  ⟨fun _ _ h => Or.inl h, rfl⟩

theorem Sent.trans {a b c : List Op} {lo hi n lo' hi' m lo'' hi'' : Nat}
    (h1 : Sent a b lo hi n) (h2 : Sent b c lo' hi' m)
    (l1 : lo'' ≤ lo) (l2 : lo'' ≤ lo') (u1 : hi ≤ hi'') (u2 : hi' ≤ hi'') :
    Sent a c lo'' hi'' (n + m) := by
  constructor
  · intro st len h
    cases h2.grow st len h with
    | inl h =>
      cases h1.grow st len h with
      | inl h => exact Or.inl h
      | inr h => exact Or.inr ⟨by omega, by omega⟩
    | inr h => exact Or.inr ⟨by omega, by omega⟩
  · rw [h2.fresh, h1.fresh, Nat.add_assoc]

theorem Sent.dataBelow {l l' : List Op} {lo hi n c c' : Nat} (h : Sent l l' lo hi n)
    (hb : DataBelow l c) (h1 : c ≤ c') (h2 : hi ≤ c') : DataBelow l' c' := by
  intro st len hm
  cases h.grow st len hm with
  | inl hm => have := hb st len hm; omega
  | inr hm => omega

theorem Sent.not_cover {l l' : List Op} {lo hi n p : Nat} (h : Sent l l' lo hi n)
    (hc : ¬ dataCover l p) (hp : p < lo ∨ hi ≤ p) : ¬ dataCover l' p := by
  intro ⟨st, len, hm, h1, h2⟩
  cases h.grow st len hm with
  | inl hm => exact hc ⟨st, len, hm, h1, h2⟩
  | inr hm => omega

theorem DataBelow.not_cover {l : List Op} {c p : Nat} (h : DataBelow l c) (hp : c ≤ p) :
    ¬ dataCover l p := by
  intro ⟨st, len, hm, h1, h2⟩
  have := h st len hm
  omega

theorem fresh_snoc (l : List Op) (op : Op) : fresh (l ++ [op]) = fresh l + freshOf op := by
  rw [fresh_append]
  simp [fresh]

theorem enqueue_data_sent {s : DState} (hq : QInv s) (c len : Nat) :
    Sent (pend s) (pend (enqueue s (.data c len))) c (c + len) len ∧
    QInv (enqueue s (.data c len)) := by
  obtain ⟨_, hp, hs, hpend⟩ := enqueue_data_char hq c len
  refine ⟨?_, ⟨hs, by simp [hp]⟩⟩
  rw [hpend]
  split
  · rename_i h
    rw [h.1]
    exact Sent.refl _ _ _
  · constructor
    · intro st len' hm
      rw [List.mem_append, List.mem_singleton] at hm
      cases hm with
      | inl hm => exact Or.inl hm
      | inr hm =>
        simp only [Op.data.injEq] at hm
        exact Or.inr ⟨by omega, by omega⟩
    · rw [fresh_snoc]; rfl

theorem enqueue_range_sent {s : DState} (hq : QInv s) (f i sp lo hi : Nat) :
    Sent (pend s) (pend (enqueue s (.range f i sp))) lo hi 0 ∧
    QInv (enqueue s (.range f i sp)) := by
  obtain ⟨_, hq', _, hcase⟩ := enqueue_range_char hq f i sp
  refine ⟨?_, hq'⟩
  cases hcase with
  | inl hc =>
    obtain ⟨pi, ps, hprev, _, hpend⟩ := hc
    have hps : pend s = s.out.toList ++ [.range f pi ps] := by simp [pend, hprev]
    rw [hpend, hps]
    constructor
    · intro st len hm
      rw [List.mem_append, List.mem_singleton] at hm
      cases hm with
      | inl hm => exact Or.inl (List.mem_append_left _ hm)
      | inr hm => cases hm
    · rw [fresh_snoc, fresh_snoc]; rfl
  | inr hc =>
    rw [hc.2]
    constructor
    · intro st len hm
      rw [List.mem_append, List.mem_singleton] at hm
      cases hm with
      | inl hm => exact Or.inl hm
      | inr hm => cases hm
    · rw [fresh_snoc]; rfl

/-! ### The hash fields are not touched by the output queue -/

def HFrame (s s' : DState) : Prop :=
  s'.β = s.β ∧ s'.β1 = s.β1 ∧ s'.β2 = s.β2 ∧ s'.αPop = s.αPop ∧ s'.rolling = s.rolling

theorem HFrame.rfl' (s : DState) : HFrame s s := ⟨rfl, rfl, rfl, rfl, rfl⟩

theorem HFrame.trans {a b c : DState} (h1 : HFrame a b) (h2 : HFrame b c) : HFrame a c := by
  obtain ⟨a1, a2, a3, a4, a5⟩ := h1
  obtain ⟨b1, b2, b3, b4, b5⟩ := h2
  exact ⟨b1.trans a1, b2.trans a2, b3.trans a3, b4.trans a4, b5.trans a5⟩

theorem emit_hframe (s : DState) (op : Op) : HFrame s (emit s op) := by
  unfold emit
  split
  · split <;> exact ⟨rfl, rfl, rfl, rfl, rfl⟩
  · exact ⟨rfl, rfl, rfl, rfl, rfl⟩

theorem enqueue_hframe (s : DState) (op : Op) : HFrame s (enqueue s op) := by
  unfold enqueue
  repeat' split
  all_goals first
    | exact ⟨rfl, rfl, rfl, rfl, rfl⟩
    | exact emit_hframe _ _
    | exact (emit_hframe _ _).trans ⟨rfl, rfl, rfl, rfl, rfl⟩
    | exact HFrame.trans (b := emit { s with prev := none } _) (emit_hframe { s with prev := none } _) (emit_hframe _ _)

theorem Sent.mono {l l' : List Op} {lo hi n lo' hi' n' : Nat} (h : Sent l l' lo hi n)
    (h1 : lo' ≤ lo) (h2 : hi ≤ hi') (h3 : n = n') : Sent l l' lo' hi' n' := by
  subst h3
  exact ⟨fun st len hm => (h.grow st len hm).imp id (fun h => ⟨by omega, by omega⟩), h.fresh⟩

/-! ### Ghost state of the scan -/

/-- Ghost invariant of the rolling hash at the loop head: when `rolling` is set, the hash fields hold the
    weak hash of the full window one byte before the scan position, and `αPop` is that window's first
    byte. -/
def RollOK (P : Params) (src : Content) (s : DState) : Prop :=
  s.rolling = true → ∃ k, s.base + s.sumTail = k + 1 ∧
    s.β = S1 src k P.bs % M + M * (S2 src k P.bs % M) ∧
    s.β1 = S1 src k P.bs % M ∧ s.β2 = S2 src k P.bs % M ∧
    s.αPop = (src.get k).toUInt32

/-- Fresh bytes so far: those in data ops of the queue plus the buffered ones `[dataTail, dataHead)`. -/
def F (s : DState) : Nat := fresh (pend s) + (s.dataHead - s.dataTail)

/-! ### refill -/

theorem readMore_same (P : Params) (src : Content) (s : DState) :
    pend (readMore P src s) = pend s ∧ (readMore P src s).base = s.base ∧
    (readMore P src s).sumTail = s.sumTail ∧ (readMore P src s).dataTail = s.dataTail ∧
    (readMore P src s).dataHead = s.dataHead ∧ HFrame s (readMore P src s) := by
  unfold readMore
  split <;> exact ⟨rfl, rfl, rfl, rfl, rfl, rfl, rfl, rfl, rfl, rfl⟩

theorem wrapFlush_sent {P : Params} {olds : Array Content} {src : Content} {s : DState}
    (hc : Core P olds src s) :
    Sent (pend s) (pend (wrapFlush s)) (s.base + s.dataTail) (s.base + s.dataHead)
      (s.dataHead - s.dataTail) ∧ HFrame s (wrapFlush s) := by
  have h1 := hc.h1
  unfold wrapFlush
  by_cases hd : s.dataTail < s.dataHead
  · rw [if_pos hd]
    exact ⟨(enqueue_data_sent hc.o.q _ _).1.mono (Nat.le_refl _) (by omega) rfl, enqueue_hframe _ _⟩
  · rw [if_neg hd]
    exact ⟨(Sent.refl _ _ _).mono (Nat.le_refl _) (Nat.le_refl _) (by omega), HFrame.rfl' s⟩

theorem refill_trace {P : Params} {olds : Array Content} {src : Content} {s : DState}
    (hi : Inv P olds src s) :
    (refill P src s).base + (refill P src s).sumTail = s.base + s.sumTail ∧
    HFrame s (refill P src s) ∧
    (∃ n, Sent (pend s) (pend (refill P src s)) (s.base + s.dataTail)
      ((refill P src s).base + (refill P src s).dataTail) n) ∧
    F (refill P src s) = F s ∧
    s.base + s.dataTail ≤ (refill P src s).base + (refill P src s).dataTail := by
  obtain ⟨hc, _, _⟩ := hi
  have h1 := hc.h1
  have h2 := hc.h2
  rw [refill_eq]
  by_cases hr : s.sumTail + P.bs > s.validTo
  · rw [if_pos hr]
    by_cases hw : s.validTo + P.bs > P.bufLen
    · rw [if_pos hw]
      obtain ⟨r1, r2, r3, r4, r5, r6⟩ := readMore_same P src (wrap s)
      obtain ⟨ws, wh⟩ := wrapFlush_sent hc
      obtain ⟨⟨f1, f2, f3, f4, f5, f6, f7⟩, _, _⟩ := wrapFlush_spec hc
      have hp : pend (wrap s) = pend (wrapFlush s) := rfl
      have hb : (wrap s).base = (wrapFlush s).base + (wrapFlush s).sumTail := rfl
      have hst : (wrap s).sumTail = 0 := rfl
      have hdt : (wrap s).dataTail = 0 := rfl
      have hdh : (wrap s).dataHead = 0 := rfl
      have hh : HFrame (wrapFlush s) (wrap s) := ⟨rfl, rfl, rfl, rfl, rfl⟩
      refine ⟨by omega, (wh.trans hh).trans r6, ⟨s.dataHead - s.dataTail, ?_⟩, ?_, by omega⟩
      · rw [r1, hp]
        exact ws.mono (Nat.le_refl _) (by omega) rfl
      · unfold F
        rw [r1, hp, r4, r5, hdt, hdh, ws.fresh]
        rfl
    · rw [if_neg hw]
      obtain ⟨r1, r2, r3, r4, r5, r6⟩ := readMore_same P src s
      refine ⟨by omega, r6, ⟨0, ?_⟩, ?_, by omega⟩
      · rw [r1]; exact Sent.refl _ _ _
      · unfold F
        rw [r1, r4, r5]
  · rw [if_neg hr]
    exact ⟨rfl, HFrame.rfl' s, ⟨0, Sent.refl _ _ _⟩, rfl, Nat.le_refl _⟩

/-! ### hashStep -/

/-- On a full window, `hashStep` leaves the true weak hash of the window in the state, and `skip` is only
    raised when this hash equals that of the window one byte before. -/
theorem hashStep_full {P : Params} (hbs : 0 < P.bs) {src : Content} {s : DState} (hr : RollOK P src s) :
    ∃ a b c r, (hashStep src s (s.sumTail + P.bs)).1 = { s with β := a, β1 := b, β2 := c, rolling := r } ∧
      r = true ∧ a = (betaHash src (s.base + s.sumTail) P.bs).1 ∧
      a = b + M * c ∧ b = S1 src (s.base + s.sumTail) P.bs % M ∧
      c = S2 src (s.base + s.sumTail) P.bs % M ∧
      ((hashStep src s (s.sumTail + P.bs)).2 = true → ¬ SkipOK P.bs src (s.base + s.sumTail)) := by
  cases hroll : s.rolling with
  | false =>
    rw [hashStep_scratch src s _ hroll, Nat.add_sub_cancel_left, betaHash_eq]
    exact ⟨_, _, _, _, rfl, rfl, rfl, rfl, rfl, rfl, fun h => by cases h⟩
  | true =>
    obtain ⟨k, hk, hβ, hβ1, hβ2, hα⟩ := hr hroll
    have hpush : s.base + (s.sumTail + P.bs) - 1 = k + P.bs := by omega
    obtain ⟨q1, q2⟩ := roll_eq src k P.bs
    have e1 : rollβ1 s.β1 s.αPop (src.get (s.base + (s.sumTail + P.bs) - 1)).toUInt32 =
        S1 src (k + 1) P.bs % M := by
      rw [hβ1, hα, hpush]; exact q1
    have e2 : rollβ2 (S1 src (k + 1) P.bs % M)
        s.β2 s.αPop (s.sumTail + P.bs - s.sumTail).toUInt32 = S2 src (k + 1) P.bs % M := by
      rw [hβ2, hα, Nat.add_sub_cancel_left]; exact q2
    unfold hashStep
    rw [if_pos hroll, if_neg (by omega)]
    dsimp only
    refine ⟨_, _, _, s.rolling, rfl, hroll, ?_, rfl, ?_, ?_, ?_⟩
    · rw [e1, e2, hk, betaHash_eq]; rfl
    · rw [e1, hk]
    · rw [e1, e2, hk]
    · intro hskip
      rw [beq_iff_eq, e1, e2, hβ] at hskip
      intro hok
      cases hok with
      | inl h0 => omega
      | inr hne =>
        apply hne
        rw [hk, Nat.add_sub_cancel, betaHash_eq, betaHash_eq]
        exact hskip

/-! ### advance -/

theorem advFlush_trace {P : Params} {olds : Array Content} {src : Content} {s : DState}
    (hc : Core P olds src s) (found : Option Entry) :
    (∃ n, Sent (pend s) (pend (advFlush P s found)) (s.base + s.dataTail)
      (s.base + (advFlush P s found).dataTail) n) ∧
    F (advFlush P s found) = F s ∧ s.dataTail ≤ (advFlush P s found).dataTail ∧
    (advFlush P s found).dataTail ≤ s.dataHead ∧ HFrame s (advFlush P s found) := by
  have h1 := hc.h1
  unfold advFlush
  by_cases hd : s.dataTail < s.dataHead ∧ (found.isSome ∨ s.dataHead - s.dataTail ≥ P.maxDataOp)
  · rw [if_pos hd]
    obtain ⟨es, _⟩ := enqueue_data_sent hc.o.q (s.base + s.dataTail) (s.dataHead - s.dataTail)
    obtain ⟨f1, f2, f3, f4, f5, f6, f7⟩ :=
      enqueue_frame s (.data (s.base + s.dataTail) (s.dataHead - s.dataTail))
    refine ⟨⟨s.dataHead - s.dataTail, es.mono (Nat.le_refl _) (by dsimp only [advSet]; omega) rfl⟩,
      ?_, ?_, ?_, (enqueue_hframe _ _).trans ⟨rfl, rfl, rfl, rfl, rfl⟩⟩
    · show fresh (pend (enqueue s (.data (s.base + s.dataTail) (s.dataHead - s.dataTail)))) + (_ - _) = _
      rw [es.fresh]
      unfold F
      dsimp only [advSet]
      omega
    · show s.dataTail ≤ (enqueue s (.data (s.base + s.dataTail) (s.dataHead - s.dataTail))).dataHead
      omega
    · show (enqueue s (.data (s.base + s.dataTail) (s.dataHead - s.dataTail))).dataHead ≤ s.dataHead
      omega
  · rw [if_neg hd]
    exact ⟨⟨0, Sent.refl _ _ _⟩, rfl, Nat.le_refl _, h1, HFrame.rfl' s⟩

theorem advSome_trace {P : Params} {olds : Array Content} {src : Content} {s : DState}
    (hc : Core P olds src s) (e : Entry) :
    (∃ n, Sent (pend s) (pend (advance P src s (some e))) (s.base + s.dataTail) (s.base + s.sumTail) n) ∧
    F (advance P src s (some e)) = F s ∧ (advance P src s (some e)).base = s.base ∧
    (advance P src s (some e)).sumTail = s.sumTail + P.bs ∧
    (advance P src s (some e)).dataTail = s.sumTail + P.bs ∧
    (advance P src s (some e)).dataHead = s.sumTail + P.bs ∧
    (advance P src s (some e)).rolling = false := by
  obtain ⟨⟨n, fs⟩, fF, ft1, ft2, fh⟩ := advFlush_trace hc (some e)
  obtain ⟨⟨g1, g2, g3, g4, g5, g6⟩, o1, _, hdt⟩ := advFlush_spec hc (some e)
  have h1 := hc.h1
  have h2 := hc.h2
  have hdt' : (advFlush P s (some e)).dataTail = s.sumTail := by
    cases hdt with
    | inl h => omega
    | inr h =>
      have := h.2
      simp only [Option.isSome_some, true_or, and_true] at this
      omega
  obtain ⟨rs, _⟩ := enqueue_range_sent o1.q e.file e.index 1 (s.base + s.dataTail) (s.base + s.sumTail)
  obtain ⟨f1, f2, f3, f4, f5, f6, f7⟩ :=
    enqueue_frame (advFlush P s (some e)) (.range e.file e.index 1)
  rw [advance_some]
  unfold advSome advSomeSet
  refine ⟨⟨n + 0, fs.trans rs (Nat.le_refl _) (Nat.le_refl _) (by omega) (Nat.le_refl _)⟩,
    ?_, ?_, ?_, ?_, ?_, rfl⟩
  · show fresh (pend (enqueue (advFlush P s (some e)) (.range e.file e.index 1))) + (_ - _) = _
    rw [rs.fresh]
    unfold F at fF ⊢
    somega
  all_goals somega

theorem advNone_trace {P : Params} {olds : Array Content} {src : Content} {s : DState}
    (hc : Core P olds src s) (hl : s.lastRun = false) (hroll : s.rolling = true) :
    (∃ n, Sent (pend s) (pend (advance P src s none)) (s.base + s.dataTail)
      (s.base + (advance P src s none).dataTail) n) ∧
    F (advance P src s none) = F s + 1 ∧ (advance P src s none).base = s.base ∧
    (advance P src s none).sumTail = s.sumTail + 1 ∧
    s.dataTail ≤ (advance P src s none).dataTail ∧ (advance P src s none).dataTail ≤ s.sumTail ∧
    (advance P src s none).rolling = true ∧ (advance P src s none).β = s.β ∧
    (advance P src s none).β1 = s.β1 ∧ (advance P src s none).β2 = s.β2 ∧
    (advance P src s none).αPop = (src.get (s.base + s.sumTail)).toUInt32 := by
  obtain ⟨⟨n, fs⟩, fF, ft1, ft2, k1, k2, k3, k4, k5⟩ := advFlush_trace hc none
  obtain ⟨g1, g2, g3, g4, g5, g6⟩ := advFlush_frame P s none
  have h1 := hc.h1
  have h2 := hc.h2
  rw [advance_none]
  unfold advNone
  rw [if_neg (by rw [g5, hl]; exact Bool.false_ne_true)]
  unfold advPop
  rw [if_pos (k5.trans hroll)]
  unfold advStep
  refine ⟨⟨n, fs⟩, ?_, ?_, ?_, ?_, ?_, k5.trans hroll, k1, k2, k3, ?_⟩
  · show fresh (pend (advFlush P s none)) + (_ - _) = _
    unfold F at fF ⊢
    somega
  · somega
  · somega
  · somega
  · somega
  · show (src.get ((advFlush P s none).base + (advFlush P s none).sumTail)).toUInt32 = _
    rw [g1, g2]

theorem emitTail_sent (P : Params) : ∀ (fuel : Nat) (s : DState), QInv s → s.dataTail ≤ s.validTo →
    Sent (pend s) (pend (emitTail P fuel s)) (s.base + s.dataTail) (s.base + s.validTo)
      (s.validTo - s.dataTail)
  | 0, s, hq, h => by
    unfold emitTail
    exact (enqueue_data_sent hq _ _).1.mono (Nat.le_refl _) (by omega) rfl
  | fuel + 1, s, hq, h => by
    unfold emitTail
    by_cases hgt : s.validTo - s.dataTail > P.maxDataOp
    · rw [if_pos hgt]
      obtain ⟨es, eq⟩ := enqueue_data_sent hq (s.base + s.dataTail) P.maxDataOp
      obtain ⟨f1, f2, f3, f4, f5, f6, f7⟩ := enqueue_frame s (.data (s.base + s.dataTail) P.maxDataOp)
      have ih := emitTail_sent P fuel
        { enqueue s (.data (s.base + s.dataTail) P.maxDataOp) with
          dataTail := (enqueue s (.data (s.base + s.dataTail) P.maxDataOp)).dataTail + P.maxDataOp }
        ⟨eq.sent, eq.prevRange⟩ (by somega)
      refine (es.trans ih (Nat.le_refl _) ?_ ?_ ?_).mono (Nat.le_refl _) (Nat.le_refl _) ?_
      all_goals somega
    · rw [if_neg hgt]
      exact (enqueue_data_sent hq _ _).1.mono (Nat.le_refl _) (by omega) rfl

theorem advNone_last_trace {P : Params} {olds : Array Content} {src : Content} {s : DState}
    (hc : Core P olds src s) (hl : s.lastRun = true) :
    ∃ n, Sent (pend s) (pend (advance P src s none)) (s.base + s.dataTail) (s.base + s.validTo) n ∧
      fresh (pend s) + n = F s + (s.validTo - s.sumTail) := by
  obtain ⟨⟨n, fs⟩, fF, ft1, ft2, _⟩ := advFlush_trace hc none
  obtain ⟨⟨g1, g2, g3, g4, g5, g6⟩, o1, _, _⟩ := advFlush_spec hc none
  have h1 := hc.h1
  have h2 := hc.h2
  have h3 := hc.h3
  rw [advance_none]
  unfold advNone
  rw [if_pos (g5.trans hl)]
  have es := emitTail_sent P (advFlush P s none).validTo (advFlush P s none) o1.q (by omega)
  refine ⟨_, fs.trans es (Nat.le_refl _) (by omega) (by omega) (by omega), ?_⟩
  have := fs.fresh
  unfold F at fF ⊢
  omega

/-! ### One iteration -/

/-- The executable block library of `computeDiff`. -/
def lib (P : Params) (olds : List Content) : UInt32 → List Entry :=
  lookupFast (buildBuckets ((signature P.bs olds).length + 1) (signature P.bs olds))

theorem computeDiff_eq (P : Params) (olds : List Content) (src : Content) (pref : Option Nat) :
    computeDiff P olds src pref = computeDiffWith P olds.toArray (lib P olds) src pref := rfl

theorem lib_ok (P : Params) (olds : List Content) :
    ∀ β e, e ∈ lib P olds β → EntryOK P.bs olds.toArray e :=
  fun β e h => entryOK_of_mem_signature (Wharf.C11.lookupFast_sound P.bs olds _ β e h)

/-- What one iteration does, seen from outside.  Either it is not the last run: then a full window was
    available, and the scanner either jumps over a whole block that is now covered by a range (all data ops
    sent lie below the old scan position `base + sumTail`), or moves by one byte, buffering one more fresh
    byte, and the latter only at a position that is no `Hit`.  Or it is the last run: then fewer than two
    blocks were left. -/
theorem iter_trace {P : Params} (hbs : 0 < P.bs) {olds : List Content} {src : Content}
    (pref : Option Nat) {s : DState} (hi : Inv P olds.toArray src s) (hr : RollOK P src s) :
    ∀ s', s' = iter P olds.toArray (lib P olds) src pref s →
    (s'.lastRun = false ∧ RollOK P src s' ∧ s.base + s.sumTail + P.bs ≤ src.size ∧
      s.base + s.dataTail ≤ s'.base + s'.dataTail ∧
      (((∃ n, Sent (pend s) (pend s') (s.base + s.dataTail) (s.base + s.sumTail) n) ∧
          s'.base + s'.sumTail = s.base + s.sumTail + P.bs ∧
          s'.base + s'.dataTail = s'.base + s'.sumTail ∧ F s' = F s) ∨
       ((∃ n, Sent (pend s) (pend s') (s.base + s.dataTail) (s'.base + s'.dataTail) n) ∧
          s'.base + s'.sumTail = s.base + s.sumTail + 1 ∧
          s'.base + s'.dataTail ≤ s.base + s.sumTail ∧ F s' = F s + 1 ∧
          ¬ Hit P.bs olds src (s.base + s.sumTail)))) ∨
    (s'.lastRun = true ∧ src.size + 2 ≤ s.base + s.sumTail + 2 * P.bs ∧
      ∃ n, Sent (pend s) (pend s') (s.base + s.dataTail) src.size n ∧
        fresh (pend s) + n ≤ F s + (src.size - (s.base + s.sumTail))) := by
  intro s' hs'
  have hm := refill_spec hi
  obtain ⟨t1, th, ⟨n1, ts⟩, tF, tc⟩ := refill_trace hi
  have hr1 : RollOK P src (refill P src s) := by
    intro h
    obtain ⟨q1, q2, q3, q4, q5⟩ := th
    rw [q5] at h
    obtain ⟨k, hk, a, b, c, d⟩ := hr h
    exact ⟨k, by omega, q1.trans a, q2.trans b, q3.trans c, q4.trans d⟩
  have h2s := hi.1.h2
  have h1s := hi.1.h1
  rw [iter_eq] at hs'
  generalize refill P src s = s1 at *
  have g1 := hm.1.h1
  have g2 := hm.1.h2
  have g3 := hm.1.h3
  have g4 := hm.1.h4
  cases hm.2 with
  | inl hnl =>
    obtain ⟨r1, r2, r3⟩ := hnl
    refine Or.inl ?_
    have hmin : min (s1.sumTail + P.bs) s1.validTo = s1.sumTail + P.bs := Nat.min_eq_left r3
    rw [hmin] at hs'
    obtain ⟨a, b, c, r, he, hrt, ha, hab, hb, hc', hskip⟩ := hashStep_full hbs hr1
    rw [he] at hs'
    subst hrt
    dsimp only at hs'
    rw [Nat.add_sub_cancel_left] at hs'
    have hm2 := hm.hash a b c true
    -- the scanner moves by one byte
    have none_case : ¬ Hit P.bs olds src (s.base + s.sumTail) →
        s' = advance P src { s1 with β := a, β1 := b, β2 := c, rolling := true } none →
        s'.lastRun = false ∧ RollOK P src s' ∧ s.base + s.sumTail + P.bs ≤ src.size ∧
        s.base + s.dataTail ≤ s'.base + s'.dataTail ∧
        (((∃ n, Sent (pend s) (pend s') (s.base + s.dataTail) (s.base + s.sumTail) n) ∧
            s'.base + s'.sumTail = s.base + s.sumTail + P.bs ∧
            s'.base + s'.dataTail = s'.base + s'.sumTail ∧ F s' = F s) ∨
         ((∃ n, Sent (pend s) (pend s') (s.base + s.dataTail) (s'.base + s'.dataTail) n) ∧
            s'.base + s'.sumTail = s.base + s.sumTail + 1 ∧
            s'.base + s'.dataTail ≤ s.base + s.sumTail ∧ F s' = F s + 1 ∧
            ¬ Hit P.bs olds src (s.base + s.sumTail))) := by
      intro hnh hs
      obtain ⟨⟨n, as⟩, aF, a1, a2, a3, a4, a5, a6, a7, a8, a9⟩ := advNone_trace hm2.1 r1 rfl
      have al := (advance_num P src { s1 with β := a, β1 := b, β2 := c, rolling := true } none).1
      rw [← hs] at as aF a1 a2 a3 a4 a5 a6 a7 a8 a9 al
      dsimp only at a1 a2 a3 a4 a6 a7 a8 a9 al
      have aF' : F s' = F s1 + 1 := aF
      have as' : Sent (pend s1) (pend s') (s1.base + s1.dataTail) (s1.base + s'.dataTail) n := as
      refine ⟨al.trans r1, ?_, by omega, by omega,
        Or.inr ⟨⟨n1 + n, ts.trans as' (Nat.le_refl _) tc (by omega) (by omega)⟩,
          by omega, by omega, by omega, hnh⟩⟩
      intro _
      refine ⟨s1.base + s1.sumTail, by omega, ?_, ?_, ?_, a9⟩
      · rw [a6, hab, hb, hc']
      · rw [a7, hb]
      · rw [a8, hc']
    cases hsk : (hashStep src s1 (s1.sumTail + P.bs)).2 with
    | true =>
      rw [hsk] at hs'
      simp only [if_true] at hs'
      exact none_case (fun h => hskip hsk (t1 ▸ h.1)) hs'
    | false =>
      rw [hsk] at hs'
      simp only [Bool.false_eq_true, if_false] at hs'
      cases hf : findUnique P.bs olds.toArray src (s1.base + s1.sumTail) P.bs s1.shortSize pref a
          (lib P olds a) with
      | none =>
        rw [hf] at hs'
        refine none_case (fun h => ?_) hs'
        have := match_found hbs pref h.2
        rw [← t1, ← ha] at this
        unfold lib at hf
        rw [r2] at hf
        rw [hf] at this
        cases this
      | some e =>
        rw [hf] at hs'
        obtain ⟨⟨n, as⟩, aF, a1, a2, a3, a4, a5⟩ :=
          advSome_trace (e := e) hm2.1
        have al := (advance_num P src { s1 with β := a, β1 := b, β2 := c, rolling := true } (some e)).1
        rw [← hs'] at as aF a1 a2 a3 a4 a5 al
        dsimp only at a1 a2 a3 a4 al
        have aF' : F s' = F s1 := aF
        have as' : Sent (pend s1) (pend s') (s1.base + s1.dataTail) (s1.base + s1.sumTail) n := as
        refine ⟨al.trans r1, ?_, by omega, by omega,
          Or.inl ⟨⟨n1 + n, ts.trans as' (Nat.le_refl _) tc (by omega) (by omega)⟩,
            by omega, by omega, by omega⟩⟩
        intro h
        rw [a5] at h
        cases h
  | inr hl =>
    obtain ⟨r1, r2, r3, r4, r5⟩ := hl
    refine Or.inr ?_
    obtain ⟨a, b, c, r, he⟩ := hashStep_fst src s1 (min (s1.sumTail + P.bs) s1.validTo)
    rw [he] at hs'
    have hm2 := hm.hash a b c r
    generalize (if (hashStep src s1 (min (s1.sumTail + P.bs) s1.validTo)).2 = true then none else _)
      = found at hs'
    have al := (advance_num P src { s1 with β := a, β1 := b, β2 := c, rolling := r } found).1
    rw [← hs'] at al
    refine ⟨al.trans r1, by omega, ?_⟩
    have tsf := ts.fresh
    cases found with
    | none =>
      obtain ⟨n, as, an⟩ := advNone_last_trace hm2.1 r1
      rw [← hs'] at as
      have as' : Sent (pend s1) (pend s') (s1.base + s1.dataTail) (s1.base + s1.validTo) n := as
      have an' : fresh (pend s1) + n = F s1 + (s1.validTo - s1.sumTail) := an
      exact ⟨n1 + n, ts.trans as' (Nat.le_refl _) tc (by omega) (by omega), by omega⟩
    | some e =>
      obtain ⟨⟨n, as⟩, aF, a1, a2, a3, a4, a5⟩ := advSome_trace (e := e) hm2.1
      rw [← hs'] at as aF a3 a4
      have aF' : F s' = F s1 := aF
      have as' : Sent (pend s1) (pend s') (s1.base + s1.dataTail) (s1.base + s1.sumTail) n := as
      have asf := as'.fresh
      refine ⟨n1 + n, ts.trans as' (Nat.le_refl _) tc (by omega) (by omega), ?_⟩
      unfold F at aF' tF ⊢
      dsimp only at a3 a4
      omega

theorem lastRun_false_of_ne {s : DState} (h : ¬ s.lastRun = true) : s.lastRun = false := by
  cases hs : s.lastRun with
  | true => exact absurd hs h
  | false => rfl

theorem inv_of_post {P : Params} {olds : Array Content} {src : Content} {s : DState}
    (hp : Post P olds src s) (hl : s.lastRun = false) : Inv P olds src s := by
  cases hp with
  | inl h => exact h.2
  | inr h => rw [h.1] at hl; cases hl

/-! ### First consequence: no data op covers a position where the scanner must find a block -/

/-- History invariant at the loop head: every `Hit` position already passed lies in the part of the source
    that has been sent, and no data op covers it. -/
structure Hist (P : Params) (olds : List Content) (src : Content) (s : DState) : Prop where
  roll : RollOK P src s
  below : DataBelow (pend s) (s.base + s.dataTail)
  clean : ∀ p, Hit P.bs olds src p → p < s.base + s.sumTail →
    p < s.base + s.dataTail ∧ ¬ dataCover (pend s) p

theorem iter_hist {P : Params} (hbs : 0 < P.bs) {olds : List Content} {src : Content}
    (pref : Option Nat) {s : DState} (hi : Inv P olds.toArray src s) (hh : Hist P olds src s) :
    ((iter P olds.toArray (lib P olds) src pref s).lastRun = false →
      Hist P olds src (iter P olds.toArray (lib P olds) src pref s)) ∧
    ((iter P olds.toArray (lib P olds) src pref s).lastRun = true →
      ∀ p, Hit P.bs olds src p → p + 2 * P.bs ≤ src.size →
        ¬ dataCover (pend (iter P olds.toArray (lib P olds) src pref s)) p) := by
  have ht := iter_trace hbs pref hi hh.roll _ rfl
  generalize iter P olds.toArray (lib P olds) src pref s = s' at *
  have h1 := hi.1.h1
  have h2 := hi.1.h2
  cases ht with
  | inl ht =>
    obtain ⟨hl, hroll, _, hcov, hcase⟩ := ht
    refine ⟨fun _ => ?_, fun h => by rw [hl] at h; cases h⟩
    cases hcase with
    | inl hj =>
      obtain ⟨⟨n, hs⟩, j1, j2, _⟩ := hj
      refine ⟨hroll, hs.dataBelow hh.below hcov (by omega), ?_⟩
      intro p hp hlt
      refine ⟨by omega, ?_⟩
      by_cases hps : p < s.base + s.sumTail
      · obtain ⟨c1, c2⟩ := hh.clean p hp hps
        exact hs.not_cover c2 (Or.inl c1)
      · exact (hs.dataBelow hh.below (by omega) (Nat.le_refl _)).not_cover (by omega)
    | inr hst =>
      obtain ⟨⟨n, hs⟩, j1, j2, _, hnh⟩ := hst
      refine ⟨hroll, hs.dataBelow hh.below hcov (Nat.le_refl _), ?_⟩
      intro p hp hlt
      have hps : p < s.base + s.sumTail := by
        by_cases he : p = s.base + s.sumTail
        · rw [he] at hp; exact absurd hp hnh
        · omega
      obtain ⟨c1, c2⟩ := hh.clean p hp hps
      exact ⟨by omega, hs.not_cover c2 (Or.inl c1)⟩
  | inr ht =>
    obtain ⟨hl, hsz, n, hs, _⟩ := ht
    refine ⟨fun h => (by rw [hl] at h; cases h), fun _ p hp hlt => ?_⟩
    obtain ⟨c1, c2⟩ := hh.clean p hp (by omega)
    exact hs.not_cover c2 (Or.inl c1)

theorem loop_hist {P : Params} (hbs : 0 < P.bs) (hmx : 0 < P.maxDataOp) {olds : List Content}
    {src : Content} (pref : Option Nat) :
    ∀ (fuel : Nat) (s : DState),
      (s.lastRun = false → Inv P olds.toArray src s ∧ Hist P olds src s) →
      (s.lastRun = true → ∀ p, Hit P.bs olds src p → p + 2 * P.bs ≤ src.size →
        ¬ dataCover (pend s) p) →
      (loop P olds.toArray (lib P olds) src pref fuel s).lastRun = true →
      ∀ p, Hit P.bs olds src p → p + 2 * P.bs ≤ src.size →
        ¬ dataCover (pend (loop P olds.toArray (lib P olds) src pref fuel s)) p
  | 0, s, _, h2, hlast => by
    unfold loop at hlast ⊢
    exact h2 hlast
  | fuel + 1, s, h1, h2, hlast => by
    unfold loop at hlast ⊢
    by_cases hl : s.lastRun = true
    · rw [if_pos hl]; exact h2 hl
    · rw [if_neg hl] at hlast ⊢
      obtain ⟨hi, hh⟩ := h1 (lastRun_false_of_ne hl)
      obtain ⟨i1, i2⟩ := iter_hist hbs pref hi hh
      have hp := iter_spec hbs hmx (lib_ok P olds) pref hi
      exact loop_hist hbs hmx pref fuel _ (fun h => ⟨inv_of_post hp h, i1 h⟩) i2 hlast

theorem Hist_init (P : Params) (olds : List Content) (src : Content) : Hist P olds src {} := by
  refine ⟨fun h => (by cases h), fun st len h => (by cases h), fun p _ h => ?_⟩
  exact absurd h (Nat.not_lt_zero _)

/-- No data op of the patch covers a position `p` (at least two blocks before the end of the source) at
    which a full block of an old file equals the window and the `skip` optimisation cannot fire. -/
theorem computeDiff_no_data_at_hit {P : Params} (hbs : 0 < P.bs) (hmx : 0 < P.maxDataOp)
    (olds : List Content) (src : Content) (pref : Option Nat) (p : Nat)
    (hh : Hit P.bs olds src p) (hp : p + 2 * P.bs ≤ src.size) :
    ¬ dataCover (computeDiff P olds src pref) p := by
  have hlast := loop_lastRun hbs olds.toArray (lib P olds) src pref
  have ho := loop_spec hbs hmx (lib_ok P olds) pref (src.size + 2) {}
    (Or.inl ⟨rfl, Inv_init P olds.toArray src⟩) hlast
  have := loop_hist hbs hmx pref (src.size + 2) {}
    (fun _ => ⟨Inv_init P olds.toArray src, Hist_init P olds src⟩) (fun h => by cases h) hlast p hh hp
  rw [computeDiff_eq]
  unfold computeDiffWith
  rw [flush_out ho.q]
  exact this

/-! ### Second consequence: fresh bytes are bounded by any potential that pays for byte steps -/

theorem iter_potential {P : Params} (hbs : 0 < P.bs) {olds : List Content} {src : Content}
    (pref : Option Nat) (Φ : Nat → Nat) (C : Nat)
    (hjump : ∀ p, p + P.bs ≤ src.size → Φ (p + P.bs) ≤ Φ p)
    (hstep : ∀ p, p + P.bs ≤ src.size → ¬ Hit P.bs olds src p → Φ (p + 1) + 1 ≤ Φ p)
    {s : DState} (hi : Inv P olds.toArray src s) (hr : RollOK P src s)
    (hpot : F s + Φ (s.base + s.sumTail) ≤ C) :
    ((iter P olds.toArray (lib P olds) src pref s).lastRun = false →
      RollOK P src (iter P olds.toArray (lib P olds) src pref s) ∧
      F (iter P olds.toArray (lib P olds) src pref s) +
        Φ ((iter P olds.toArray (lib P olds) src pref s).base +
           (iter P olds.toArray (lib P olds) src pref s).sumTail) ≤ C) ∧
    ((iter P olds.toArray (lib P olds) src pref s).lastRun = true →
      fresh (pend (iter P olds.toArray (lib P olds) src pref s)) + 2 ≤ C + 2 * P.bs) := by
  have ht := iter_trace hbs pref hi hr _ rfl
  generalize iter P olds.toArray (lib P olds) src pref s = s' at *
  cases ht with
  | inl ht =>
    obtain ⟨hl, hroll, hsz, _, hcase⟩ := ht
    refine ⟨fun _ => ⟨hroll, ?_⟩, fun h => by rw [hl] at h; cases h⟩
    cases hcase with
    | inl hj =>
      obtain ⟨_, j1, _, j3⟩ := hj
      have := hjump _ hsz
      rw [j1, j3]
      omega
    | inr hst =>
      obtain ⟨_, j1, _, j3, hnh⟩ := hst
      have := hstep _ hsz hnh
      rw [j1, j3]
      omega
  | inr ht =>
    obtain ⟨hl, hsz, n, hs, hn⟩ := ht
    refine ⟨fun h => (by rw [hl] at h; cases h), fun _ => ?_⟩
    rw [hs.fresh]
    omega

theorem loop_potential {P : Params} (hbs : 0 < P.bs) (hmx : 0 < P.maxDataOp) {olds : List Content}
    {src : Content} (pref : Option Nat) (Φ : Nat → Nat) (C : Nat)
    (hjump : ∀ p, p + P.bs ≤ src.size → Φ (p + P.bs) ≤ Φ p)
    (hstep : ∀ p, p + P.bs ≤ src.size → ¬ Hit P.bs olds src p → Φ (p + 1) + 1 ≤ Φ p) :
    ∀ (fuel : Nat) (s : DState),
      (s.lastRun = false → Inv P olds.toArray src s ∧ RollOK P src s ∧
        F s + Φ (s.base + s.sumTail) ≤ C) →
      (s.lastRun = true → fresh (pend s) + 2 ≤ C + 2 * P.bs) →
      (loop P olds.toArray (lib P olds) src pref fuel s).lastRun = true →
      fresh (pend (loop P olds.toArray (lib P olds) src pref fuel s)) + 2 ≤ C + 2 * P.bs
  | 0, s, _, h2, hlast => by
    unfold loop at hlast ⊢
    exact h2 hlast
  | fuel + 1, s, h1, h2, hlast => by
    unfold loop at hlast ⊢
    by_cases hl : s.lastRun = true
    · rw [if_pos hl]; exact h2 hl
    · rw [if_neg hl] at hlast ⊢
      obtain ⟨hi, hr, hpot⟩ := h1 (lastRun_false_of_ne hl)
      obtain ⟨i1, i2⟩ := iter_potential hbs pref Φ C hjump hstep hi hr hpot
      have hp := iter_spec hbs hmx (lib_ok P olds) pref hi
      exact loop_potential hbs hmx pref Φ C hjump hstep fuel _
        (fun h => ⟨inv_of_post hp h, (i1 h).1, (i1 h).2⟩) i2 hlast

/-- Potential bound.  Let `Φ` be any function on scan positions that does not increase over a jump of one
    block and decreases by at least one over a byte step taken at a position that is no `Hit` (both only
    for positions with a full window left).  Then the patch contains at most `Φ 0` fresh bytes plus what
    the last run sends, which is less than two blocks. -/
theorem computeDiff_fresh_le_potential {P : Params} (hbs : 0 < P.bs) (hmx : 0 < P.maxDataOp)
    (olds : List Content) (src : Content) (pref : Option Nat) (Φ : Nat → Nat)
    (hjump : ∀ p, p + P.bs ≤ src.size → Φ (p + P.bs) ≤ Φ p)
    (hstep : ∀ p, p + P.bs ≤ src.size → ¬ Hit P.bs olds src p → Φ (p + 1) + 1 ≤ Φ p) :
    fresh (computeDiff P olds src pref) + 2 ≤ Φ 0 + 2 * P.bs := by
  have hlast := loop_lastRun hbs olds.toArray (lib P olds) src pref
  have ho := loop_spec hbs hmx (lib_ok P olds) pref (src.size + 2) {}
    (Or.inl ⟨rfl, Inv_init P olds.toArray src⟩) hlast
  have := loop_potential hbs hmx pref Φ (Φ 0) hjump hstep (src.size + 2) {}
    (fun _ => ⟨Inv_init P olds.toArray src, fun h => (by cases h),
      (by show 0 + (0 - 0) + Φ 0 ≤ Φ 0; omega)⟩)
    (fun h => by cases h) hlast
  rw [computeDiff_eq]
  unfold computeDiffWith
  rw [flush_out ho.q]
  exact this

/-! ### One localized edit: the potential function -/

/-- Distance from `q` to the next multiple of `bs`. -/
def gap (bs q : Nat) : Nat := (bs - q % bs) % bs

theorem gap_lt {bs : Nat} (h : 0 < bs) (q : Nat) : gap bs q < bs := Nat.mod_lt _ h

theorem gap_add_bs (bs q : Nat) : gap bs (q + bs) = gap bs q := by
  unfold gap; rw [Nat.add_mod_right]

theorem gap_of_aligned {bs q : Nat} (h : q % bs = 0) : gap bs q = 0 := by
  unfold gap; rw [h, Nat.sub_zero, Nat.mod_self]

theorem gap_succ {bs q : Nat} (hbs : 0 < bs) (h : q % bs ≠ 0) : gap bs (q + 1) + 1 = gap bs q := by
  unfold gap
  have hr : q % bs < bs := Nat.mod_lt _ hbs
  have h1 : (bs - q % bs) % bs = bs - q % bs := Nat.mod_eq_of_lt (by omega)
  have h2 : 1 % bs = 1 := Nat.mod_eq_of_lt (by omega)
  rw [h1, Nat.add_mod, h2]
  by_cases hc : q % bs + 1 = bs
  · rw [hc, Nat.mod_self, Nat.sub_zero, Nat.mod_self]; omega
  · have h3 : (q % bs + 1) % bs = q % bs + 1 := Nat.mod_eq_of_lt (by omega)
    have h4 : (bs - (q % bs + 1)) % bs = bs - (q % bs + 1) := Nat.mod_eq_of_lt (by omega)
    rw [h3, h4]; omega

theorem aligned_step {bs p K : Nat} (hp : p % bs = 0) (hK : K % bs = 0) (h : p < K) : p + bs ≤ K := by
  have h1 : (K - p) % bs = 0 := Nat.sub_mod_eq_zero_of_mod_eq (by rw [hp, hK])
  have := Nat.le_of_dvd (by omega) (Nat.dvd_of_mod_eq_zero h1)
  omega

/-- Potential of scan position `p` for a source `A ++ X ++ B` against the old file `A ++ Y ++ B`
    (`a = |A|`, `n = |X|`, `m = |Y|`): an upper bound on the number of byte steps still to come.
    In `B` the scanner needs fewer than `bs` byte steps to align with the old blocks; in `A`, up to the last
    aligned block of `A`, it only has to reach the next block boundary, and then at most the rest of `A`, all
    of `X` and the alignment steps in `B` are stepped through. -/
def editPot (bs a n m : Nat) (p : Nat) : Nat :=
  if a + n ≤ p then gap bs (p + m - n)
  else if p ≤ a / bs * bs then gap bs p + (a + n - a / bs * bs) + (bs - 1)
  else (a + n - p) + (bs - 1)

theorem editPot_jump {bs : Nat} (hbs : 0 < bs) (a n m p : Nat) :
    editPot bs a n m (p + bs) ≤ editPot bs a n m p := by
  unfold editPot
  have hK1 := Nat.div_mul_le_self a bs
  have hK2 := Nat.lt_div_mul_add (a := a) hbs
  generalize a / bs * bs = K at *
  by_cases h1 : a + n ≤ p
  · rw [if_pos h1, if_pos (by omega : a + n ≤ p + bs)]
    have e : p + bs + m - n = (p + m - n) + bs := by omega
    rw [e, gap_add_bs]
    exact Nat.le_refl _
  · rw [if_neg h1]
    have g1 := gap_lt hbs (p + bs + m - n)
    by_cases h2 : a + n ≤ p + bs
    · rw [if_pos h2]; split <;> omega
    · rw [if_neg h2]
      by_cases h3 : p ≤ K
      · rw [if_pos h3]
        by_cases h4 : p + bs ≤ K
        · rw [if_pos h4, gap_add_bs]; omega
        · rw [if_neg h4]; omega
      · rw [if_neg h3, if_neg (by omega)]; omega

theorem editPot_step {bs : Nat} (hbs : 0 < bs) (a n m p : Nat)
    (hA : p % bs = 0 → p + bs ≤ a → False)
    (hB : a + n ≤ p → (p + m - n) % bs = 0 → False) :
    editPot bs a n m (p + 1) + 1 ≤ editPot bs a n m p := by
  unfold editPot
  have hK1 := Nat.div_mul_le_self a bs
  have hK2 := Nat.lt_div_mul_add (a := a) hbs
  have hK3 := Nat.mul_mod_left (a / bs) bs
  generalize a / bs * bs = K at *
  by_cases h1 : a + n ≤ p
  · rw [if_pos h1, if_pos (by omega : a + n ≤ p + 1)]
    have hne : (p + m - n) % bs ≠ 0 := fun h => hB h1 h
    have := gap_succ hbs hne
    have e : p + 1 + m - n = p + m - n + 1 := by omega
    rw [e]; omega
  · rw [if_neg h1]
    have g1 := gap_lt hbs (p + 1 + m - n)
    by_cases h3 : p ≤ K
    · rw [if_pos h3]
      by_cases h5 : p % bs = 0
      · have hpK : p = K := by
          by_cases hlt : p < K
          · have := aligned_step h5 hK3 hlt
            exact (hA h5 (by omega)).elim
          · omega
        rw [gap_of_aligned h5]
        by_cases h2 : a + n ≤ p + 1
        · rw [if_pos h2]; omega
        · rw [if_neg h2, if_neg (by omega)]; omega
      · have gs := gap_succ hbs h5
        have hlt : p < K := by
          by_cases he : p = K
          · rw [he] at h5; exact absurd hK3 h5
          · omega
        by_cases h2 : a + n ≤ p + 1
        · rw [if_pos h2]; omega
        · rw [if_neg h2, if_pos (by omega)]; omega
    · rw [if_neg h3]
      by_cases h2 : a + n ≤ p + 1
      · rw [if_pos h2]; omega
      · rw [if_neg h2, if_neg (by omega)]; omega

theorem editPot_zero {bs : Nat} (hbs : 0 < bs) (a n m : Nat) :
    editPot bs a n m 0 + 2 ≤ n + 2 * bs := by
  unfold editPot
  have hK2 := Nat.lt_div_mul_add (a := a) hbs
  generalize a / bs * bs = K at *
  have g1 := gap_lt hbs (0 + m - n)
  have g0 : gap bs 0 = 0 := gap_of_aligned (Nat.zero_mod _)
  by_cases h1 : a + n ≤ 0
  · rw [if_pos h1]; omega
  · rw [if_neg h1, if_pos (Nat.zero_le _), g0]; omega

/-! ### One localized edit: where old blocks match -/

theorem ofList_get_left (A X B : List Byte) (i : Nat) (h : i < A.length) :
    (Content.ofList (A ++ X ++ B)).get i = A.getD i 0 := by
  show (A ++ X ++ B).getD i 0 = A.getD i 0
  rw [List.getD_eq_getElem?_getD, List.getD_eq_getElem?_getD, List.append_assoc,
    List.getElem?_append_left h]

theorem ofList_get_right (A X B : List Byte) (i : Nat) (h : A.length + X.length ≤ i) :
    (Content.ofList (A ++ X ++ B)).get i = B.getD (i - (A.length + X.length)) 0 := by
  show (A ++ X ++ B).getD i 0 = B.getD (i - (A.length + X.length)) 0
  rw [List.getD_eq_getElem?_getD, List.getD_eq_getElem?_getD,
    List.getElem?_append_right (by rw [List.length_append]; exact h), List.length_append]

theorem ofList_size (l : List Byte) : (Content.ofList l).size = l.length := rfl

/-- In the common prefix `A`, every block-aligned window that lies inside `A` equals an old block. -/
theorem match_left {bs : Nat} {olds : List Content} {f : Nat} (A X Y B : List Byte)
    (hf : olds[f]? = some (Content.ofList (A ++ Y ++ B))) (p : Nat) (hp : p % bs = 0)
    (h : p + bs ≤ A.length) :
    Match bs olds (Content.ofList (A ++ X ++ B)) p := by
  have hk : p / bs * bs = p := Nat.div_mul_cancel (Nat.dvd_of_mod_eq_zero hp)
  refine ⟨f, _, p / bs, hf, ?_, ?_⟩
  · rw [Nat.add_mul, Nat.one_mul, hk, ofList_size]
    simp only [List.length_append]
    omega
  · intro j hj
    rw [hk, ofList_get_left A Y B _ (by omega), ofList_get_left A X B _ (by omega)]

/-- In the common suffix `B`, every window that is block-aligned IN THE OLD FILE equals an old block. -/
theorem match_right {bs : Nat} {olds : List Content} {f : Nat} (A X Y B : List Byte)
    (hf : olds[f]? = some (Content.ofList (A ++ Y ++ B))) (p : Nat) (h1 : A.length + X.length ≤ p)
    (hp : (p + Y.length - X.length) % bs = 0) (h : p + bs ≤ (Content.ofList (A ++ X ++ B)).size) :
    Match bs olds (Content.ofList (A ++ X ++ B)) p := by
  have hk : (p + Y.length - X.length) / bs * bs = p + Y.length - X.length :=
    Nat.div_mul_cancel (Nat.dvd_of_mod_eq_zero hp)
  rw [ofList_size] at h
  simp only [List.length_append] at h
  refine ⟨f, _, (p + Y.length - X.length) / bs, hf, ?_, ?_⟩
  · rw [Nat.add_mul, Nat.one_mul, hk, ofList_size]
    simp only [List.length_append]
    omega
  · intro j hj
    rw [hk, ofList_get_right A Y B _ (by omega), ofList_get_right A X B _ (by omega)]
    congr 1
    omega

/-- No two consecutive full windows of `src` have the same weak hash (so `skip` never fires on a full
    window). -/
def NoWeakRepeat (bs : Nat) (src : Content) : Prop :=
  ∀ x, 0 < x → x + bs ≤ src.size → (betaHash src x bs).1 ≠ (betaHash src (x - 1) bs).1

theorem skipOK_of_noWeakRepeat {bs : Nat} {src : Content} (h : NoWeakRepeat bs src) (x : Nat)
    (hx : x + bs ≤ src.size) : SkipOK bs src x := by
  by_cases h0 : x = 0
  · exact Or.inl h0
  · exact Or.inr (h x (by omega) hx)

/-- One localized edit: the source `A ++ X ++ B` against old files among which is `A ++ Y ++ B` costs at
    most `|X| + 4·bs - 4` fresh bytes. -/
theorem computeDiff_single_edit {P : Params} (hbs : 0 < P.bs) (hmx : 0 < P.maxDataOp)
    (olds : List Content) (f : Nat) (A X Y B : List Byte) (pref : Option Nat)
    (hf : olds[f]? = some (Content.ofList (A ++ Y ++ B)))
    (hnr : NoWeakRepeat P.bs (Content.ofList (A ++ X ++ B))) :
    fresh (computeDiff P olds (Content.ofList (A ++ X ++ B)) pref) + 4 ≤ X.length + 4 * P.bs := by
  have h := computeDiff_fresh_le_potential hbs hmx olds
    (Content.ofList (A ++ X ++ B)) pref (editPot P.bs A.length X.length Y.length)
    (fun p _ => editPot_jump hbs _ _ _ p)
    (fun p hp hnh => editPot_step hbs _ _ _ p
      (fun h5 h6 => hnh ⟨skipOK_of_noWeakRepeat hnr p hp, match_left A X Y B hf p h5 h6⟩)
      (fun h1 h2 => hnh ⟨skipOK_of_noWeakRepeat hnr p hp, match_right A X Y B hf p h1 h2 hp⟩))
  have h0 := editPot_zero hbs A.length X.length Y.length
  omega

/-! ### Data ops are replayed at their source position

  Justification of reading "fresh position" off the `(start, len)` of the data ops: in the replay of the
  patch, the bytes of the data op `data st len` land exactly at offsets `[st, st + len)`. -/

/-- Every data op of `l` is preceded by ops that replay to exactly `st` bytes. -/
def Placed (bs : Nat) (olds : Array Content) (src : Content) (l : List Op) : Prop :=
  ∀ k st len, l[k]? = some (Op.data st len) → (replay bs olds src (l.take k)).length = st

theorem Placed.snoc_data {bs : Nat} {olds : Array Content} {src : Content} {l : List Op}
    (h : Placed bs olds src l) (c len : Nat) (hc : (replay bs olds src l).length = c) :
    Placed bs olds src (l ++ [.data c len]) := by
  intro k st len' hk
  rw [getElem?_snoc] at hk
  cases hk with
  | inl hk =>
    have hlt := lt_of_getElem?_eq_some hk
    rw [List.take_append_of_le_length (by omega)]
    exact h k st len' hk
  | inr hk =>
    obtain ⟨hk1, he⟩ := hk
    simp only [Op.data.injEq] at he
    rw [List.take_left' hk1.symm, hc]
    exact he.1

theorem Placed.snoc_range {bs : Nat} {olds : Array Content} {src : Content} {l : List Op}
    (h : Placed bs olds src l) (f i sp : Nat) : Placed bs olds src (l ++ [.range f i sp]) := by
  intro k st len' hk
  rw [getElem?_snoc] at hk
  cases hk with
  | inl hk =>
    have hlt := lt_of_getElem?_eq_some hk
    rw [List.take_append_of_le_length (by omega)]
    exact h k st len' hk
  | inr hk => cases hk.2

theorem Placed.replaceLast {bs : Nat} {olds : Array Content} {src : Content} {l : List Op}
    {f i sp : Nat} (h : Placed bs olds src (l ++ [.range f i sp])) (sp' : Nat) :
    Placed bs olds src (l ++ [.range f i sp']) := by
  intro k st len' hk
  rw [getElem?_snoc] at hk
  cases hk with
  | inl hk =>
    have hlt := lt_of_getElem?_eq_some hk
    have := h k st len' ((getElem?_snoc _ _ _ _).2 (Or.inl hk))
    rw [List.take_append_of_le_length (by omega)] at this ⊢
    exact this
  | inr hk => cases hk.2

theorem enqueue_data_placed {P : Params} {olds : Array Content} {src : Content} {s : DState} {c : Nat}
    (h : OInv P olds src s c) (hp : Placed P.bs olds src (pend s)) (len : Nat) :
    Placed P.bs olds src (pend (enqueue s (.data c len))) := by
  obtain ⟨_, _, _, hpend⟩ := enqueue_data_char h.q c len
  rw [hpend]
  split
  · exact hp
  · exact hp.snoc_data c len (by rw [h.cov, slice_length])

theorem enqueue_range_placed {bs : Nat} {olds : Array Content} {src : Content} {s : DState}
    (hq : QInv s) (hp : Placed bs olds src (pend s)) (f i sp : Nat) :
    Placed bs olds src (pend (enqueue s (.range f i sp))) := by
  obtain ⟨_, _, _, hcase⟩ := enqueue_range_char hq f i sp
  cases hcase with
  | inl hc =>
    obtain ⟨pi, ps, hprev, _, hpend⟩ := hc
    have hps : pend s = s.out.toList ++ [.range f pi ps] := by simp [pend, hprev]
    rw [hps] at hp
    rw [hpend]
    exact hp.replaceLast _
  | inr hc =>
    rw [hc.2]
    exact hp.snoc_range f i sp

theorem wrapFlush_placed {P : Params} {olds : Array Content} {src : Content} {s : DState}
    (hc : Core P olds src s) (hp : Placed P.bs olds src (pend s)) :
    Placed P.bs olds src (pend (wrapFlush s)) := by
  unfold wrapFlush
  split
  · exact enqueue_data_placed hc.o hp _
  · exact hp

theorem refill_placed {P : Params} {olds : Array Content} {src : Content} {s : DState}
    (hi : Inv P olds src s) (hp : Placed P.bs olds src (pend s)) :
    Placed P.bs olds src (pend (refill P src s)) := by
  rw [refill_eq]
  split
  · split
    · rw [(readMore_same P src (wrap s)).1]
      exact wrapFlush_placed hi.1 hp
    · rw [(readMore_same P src s).1]
      exact hp
  · exact hp

theorem advFlush_placed {P : Params} {olds : Array Content} {src : Content} {s : DState}
    (hc : Core P olds src s) (hp : Placed P.bs olds src (pend s)) (found : Option Entry) :
    Placed P.bs olds src (pend (advFlush P s found)) := by
  unfold advFlush
  split
  · exact enqueue_data_placed hc.o hp _
  · exact hp

theorem emitTail_placed {P : Params} {olds : Array Content} {src : Content} :
    ∀ (fuel : Nat) (s : DState), OInv P olds src s (s.base + s.dataTail) → s.dataTail ≤ s.validTo →
      s.base + s.validTo ≤ src.size → Placed P.bs olds src (pend s) →
      Placed P.bs olds src (pend (emitTail P fuel s))
  | 0, s, o, _, _, hp => by
    unfold emitTail
    exact enqueue_data_placed o hp _
  | fuel + 1, s, o, h1, h2, hp => by
    unfold emitTail
    by_cases hgt : s.validTo - s.dataTail > P.maxDataOp
    · rw [if_pos hgt]
      obtain ⟨⟨f1, f2, f3, f4, f5, f6, f7⟩, ho, _⟩ :=
        enqueue_data o P.maxDataOp (by omega) (Nat.le_refl _)
      exact emitTail_placed fuel
        { enqueue s (.data (s.base + s.dataTail) P.maxDataOp) with
          dataTail := (enqueue s (.data (s.base + s.dataTail) P.maxDataOp)).dataTail + P.maxDataOp }
        (ho.congr rfl rfl rfl (by somega)) (by somega) (by somega)
        (enqueue_data_placed o hp _)
    · rw [if_neg hgt]
      exact enqueue_data_placed o hp _

theorem advance_placed {P : Params} {olds : Array Content} {src : Content} {s : DState}
    (hm : Mid P olds src s) (hp : Placed P.bs olds src (pend s)) (found : Option Entry) :
    Placed P.bs olds src (pend (advance P src s found)) := by
  obtain ⟨hc, _⟩ := hm
  obtain ⟨⟨g1, g2, g3, g4, g5, g6⟩, o1, _, hdt⟩ := advFlush_spec hc found
  have hp1 := advFlush_placed hc hp found
  have h1 := hc.h1
  have h2 := hc.h2
  have h3 := hc.h3
  have h4 := hc.h4
  cases found with
  | some e =>
    rw [advance_some]
    exact enqueue_range_placed o1.q hp1 _ _ _
  | none =>
    rw [advance_none]
    unfold advNone
    split
    · exact emitTail_placed _ _ o1 (by cases hdt <;> omega) (by omega) hp1
    · have : pend (advStep (advPop src (advFlush P s none))) = pend (advFlush P s none) := by
        unfold advPop
        split <;> rfl
      rw [this]
      exact hp1

theorem iter_placed {P : Params} {olds : Array Content} {lookup : UInt32 → List Entry} {src : Content}
    (pref : Option Nat) {s : DState} (hi : Inv P olds src s) (hp : Placed P.bs olds src (pend s)) :
    Placed P.bs olds src (pend (iter P olds lookup src pref s)) := by
  have hm := refill_spec hi
  have hp1 := refill_placed hi hp
  obtain ⟨a, b, c, r, he⟩ := hashStep_fst src (refill P src s)
    (min ((refill P src s).sumTail + P.bs) (refill P src s).validTo)
  rw [iter_eq, he]
  exact advance_placed (hm.hash a b c r) hp1 _

theorem loop_placed {P : Params} (hbs : 0 < P.bs) (hmx : 0 < P.maxDataOp) {olds : Array Content}
    {lookup : UInt32 → List Entry} (hl : ∀ β e, e ∈ lookup β → EntryOK P.bs olds e)
    {src : Content} (pref : Option Nat) :
    ∀ (fuel : Nat) (s : DState), Post P olds src s → Placed P.bs olds src (pend s) →
      Placed P.bs olds src (pend (loop P olds lookup src pref fuel s))
  | 0, s, _, hp => by
    unfold loop
    exact hp
  | fuel + 1, s, hpost, hp => by
    unfold loop
    by_cases hlr : s.lastRun = true
    · rw [if_pos hlr]; exact hp
    · rw [if_neg hlr]
      have hi := inv_of_post hpost (lastRun_false_of_ne hlr)
      exact loop_placed hbs hmx hl pref fuel _ (iter_spec hbs hmx hl pref hi) (iter_placed pref hi hp)

/-- In the patch computed by `computeDiff`, the ops in front of a data op `data st len` replay to exactly
    `st` bytes: the op writes the bytes `[st, st + len)` of the new file. -/
theorem computeDiff_placed {P : Params} (hbs : 0 < P.bs) (hmx : 0 < P.maxDataOp) (olds : List Content)
    (src : Content) (pref : Option Nat) :
    Placed P.bs olds.toArray src (computeDiff P olds src pref) := by
  have hlast := loop_lastRun hbs olds.toArray (lib P olds) src pref
  have ho := loop_spec hbs hmx (lib_ok P olds) pref (src.size + 2) {}
    (Or.inl ⟨rfl, Inv_init P olds.toArray src⟩) hlast
  have := loop_placed hbs hmx (lib_ok P olds) pref (src.size + 2) {}
    (Or.inl ⟨rfl, Inv_init P olds.toArray src⟩) (fun k st len h => by cases h)
  rw [computeDiff_eq]
  unfold computeDiffWith
  rw [flush_out ho.q]
  exact this

end Wharf.Rsync
