/-
  Helper lemmas for C06 (a)+(b): validate-then-heal restores the signed build.

  Layers: (1) `get`-extensional descriptions of the primitive tree edits (`erase`, `eraseTree`, `set`) and
  preservation of the tree invariant `TInv`; (2) `canon`/`lstat` along a path without symlinks;
  (3) the heal steps `healDir`, `healSymlink`, `healFile`; (4) sequences of heal steps and how
  `processWounds`/`healFiles` decompose into them; (5) the assembly used by Props/C06Restore.lean.
-/
import Wharf.Model.Heal
import Wharf.Proofs.Archive
import Wharf.Proofs.TreeValidate
import Wharf.Proofs.Heal

namespace Wharf.Heal
open Wharf Wharf.FS Wharf.Validate Wharf.TreeValidate Wharf.Archive

/-! ### paths -/

theorem isPrefix_iff (p q : Path) : isPrefix p q = true ↔ p.length < q.length ∧ q.take p.length = p := by
  simp [isPrefix]

theorem dropLast_ne_self {p : Path} (hp : p ≠ []) : p.dropLast ≠ p := by
  intro h
  have := congrArg List.length h
  have hl : 0 < p.length := List.length_pos_iff.mpr hp
  simp at this
  omega

theorem isPrefix_dropLast_self {p : Path} (hp : p ≠ []) : isPrefix p.dropLast p = true := by
  rw [isPrefix_iff]
  have hl : 0 < p.length := List.length_pos_iff.mpr hp
  refine ⟨by simp; omega, ?_⟩
  rw [List.dropLast_eq_take]
  simp

theorem not_isPrefix_dropLast (p : Path) : isPrefix p p.dropLast = false := by
  cases h : isPrefix p p.dropLast with
  | false => rfl
  | true =>
    rw [isPrefix_iff] at h
    simp at h
    omega

theorem below_of_parent_eq {p q : Path} (hq : q ≠ []) (h : q.dropLast = p) : isPrefix p q = true := by
  subst h; exact isPrefix_dropLast_self hq

theorem below_of_parent_below {p q : Path} (h : isPrefix p q.dropLast = true) : isPrefix p q = true := by
  rw [isPrefix_iff] at h ⊢
  obtain ⟨h1, h2⟩ := h
  simp at h1
  refine ⟨by omega, ?_⟩
  rw [List.dropLast_eq_take, List.take_take, Nat.min_eq_left (by omega)] at h2
  exact h2

/-! ### `get` of edited trees -/

theorem get_nil (t : Tree) : t.get [] = some .dir := by simp [Tree.get]

theorem get_filter (t : Tree) (f : Path → Bool) {q : Path} (hq : q ≠ []) :
    ({ entries := t.entries.filter (fun e => f e.1) } : Tree).get q = if f q = true then t.get q else none := by
  simp only [Tree.get, if_neg hq, List.find?_filter]
  by_cases hf : f q = true
  · rw [if_pos hf]
    congr 2
    funext a
    by_cases h : a.1 = q
    · simp [h, hf]
    · simp [h]
  · rw [if_neg hf]
    have : t.entries.find? (fun a => decide (f a.1 = true ∧ (a.1 == q) = true)) = none := by
      rw [List.find?_eq_none]
      intro a _
      by_cases h : a.1 = q
      · simp [h, hf]
      · simp [h]
    simpa using this

theorem get_erase (t : Tree) (p : Path) {q : Path} (hq : q ≠ []) :
    (t.erase p).get q = if q = p then none else t.get q := by
  have := get_filter t (fun x => x != p) hq
  simp only [Tree.erase]
  rw [this]
  by_cases h : q = p <;> simp [h]

theorem get_eraseTree (t : Tree) (p : Path) {q : Path} (hq : q ≠ []) :
    (t.eraseTree p).get q = if q = p ∨ isPrefix p q = true then none else t.get q := by
  have := get_filter t (fun x => x != p && !isPrefix p x) hq
  simp only [Tree.eraseTree]
  rw [this]
  by_cases h : q = p
  · simp [h]
  · by_cases h2 : isPrefix p q = true <;> simp [h, h2]

theorem get_set (t : Tree) {p : Path} (hp : p ≠ []) (n : Node) (q : Path) :
    (t.set p n).get q = if q = p then some n else t.get q := by
  by_cases hq : q = []
  · subst hq
    rw [if_neg (fun h => hp h.symm)]
    simp [Tree.get]
  · have he := get_erase t p hq
    simp only [Tree.get, if_neg hq, Tree.set, List.find?_append] at he ⊢
    by_cases h : q = p
    · subst h
      rw [if_pos rfl] at he
      rw [if_pos rfl]
      simp only [Option.map_eq_none_iff] at he
      simp [he]
    · rw [if_neg h] at he
      rw [if_neg h, ← he]
      have : ((p, n).1 == q) = false := by simpa using fun h' => h h'.symm
      simp [List.find?, this]

/-! ### the tree invariant under edits -/

/-- an entry's parent is a directory (as a statement about `get`) -/
theorem parent_isDir {t : Tree} (hI : TInv t) {q : Path} {x : Node} (h : t.get q = some x) :
    IsDir t q.dropLast := by
  by_cases hq : q = []
  · subst hq; exact isDir_nil t
  · exact hI.parent _ (get_mem hq h)

/-- anything with an entry below it is a directory -/
theorem isDir_of_below {t : Tree} (hI : TInv t) {p q : Path} {x : Node} (h : t.get q = some x)
    (hpre : isPrefix p q = true) : IsDir t p := by
  rw [isPrefix_iff] at hpre
  have hd := parent_isDir hI h
  have := isDir_take hI hd p.length
  rw [List.dropLast_eq_take, List.take_take, Nat.min_eq_left (by omega), hpre.2] at this
  exact this

theorem get_below_none {t : Tree} (hI : TInv t) {p q : Path} (hp : ¬ IsDir t p)
    (hpre : isPrefix p q = true) : t.get q = none := by
  cases h : t.get q with
  | none => rfl
  | some x => exact absurd (isDir_of_below hI h hpre) hp

theorem tinv_filter {t : Tree} (hI : TInv t) (f : Path → Bool)
    (hcl : ∀ e ∈ t.entries, f e.1 = true → e.1.dropLast = [] ∨ f e.1.dropLast = true) :
    TInv { entries := t.entries.filter (fun e => f e.1) } := by
  constructor
  · intro e he
    exact hI.ne e (List.mem_filter.mp he).1
  · intro e he
    obtain ⟨h1, h2⟩ := List.mem_filter.mp he
    rw [get_filter t f (hI.ne e h1), if_pos h2]
    exact hI.get e h1
  · intro e he
    obtain ⟨h1, h2⟩ := List.mem_filter.mp he
    rcases hcl e h1 h2 with h | h
    · rw [h]; exact isDir_nil _
    · by_cases hne : e.1.dropLast = []
      · rw [hne]; exact isDir_nil _
      · unfold IsDir
        rw [get_filter t f hne, if_pos h]
        exact hI.parent e h1

theorem tinv_eraseTree {t : Tree} (hI : TInv t) (p : Path) : TInv (t.eraseTree p) := by
  have := tinv_filter hI (fun x => x != p && !isPrefix p x) (by
    intro e _ hk
    right
    simp only [Bool.and_eq_true, bne_iff_ne, ne_eq, Bool.not_eq_true'] at hk ⊢
    obtain ⟨h1, h2⟩ := hk
    by_cases he : e.1 = []
    · rw [he] at h1 h2 ⊢
      exact ⟨by simpa using h1, by simpa using h2⟩
    constructor
    · intro h
      rw [below_of_parent_eq he h] at h2
      cases h2
    · cases hb : isPrefix p e.1.dropLast with
      | false => rfl
      | true =>
        rw [below_of_parent_below hb] at h2
        cases h2)
  exact this

/-- erasing a single entry that has nothing below it -/
theorem tinv_erase {t : Tree} (hI : TInv t) {p : Path} (hp : ¬ IsDir t p) : TInv (t.erase p) := by
  have := tinv_filter hI (fun x => x != p) (by
    intro e he _
    right
    simp only [bne_iff_ne, ne_eq]
    intro h
    apply hp
    rw [← h]
    exact hI.parent e he)
  exact this

/-- placing a node at a path that has nothing below it and whose parent is a directory -/
theorem tinv_set {t : Tree} (hI : TInv t) {p : Path} (hp : p ≠ []) (hpar : IsDir t p.dropLast)
    (hleaf : ¬ IsDir t p) (n : Node) : TInv (t.set p n) := by
  constructor
  · intro e he
    simp only [Tree.set, Tree.erase, List.mem_append, List.mem_filter, List.mem_singleton] at he
    rcases he with ⟨he, _⟩ | rfl
    · exact hI.ne e he
    · exact hp
  · intro e he
    simp only [Tree.set, Tree.erase, List.mem_append, List.mem_filter, List.mem_singleton] at he
    rw [get_set t hp]
    rcases he with ⟨he, hne⟩ | rfl
    · have : e.1 ≠ p := by simpa using hne
      rw [if_neg this]
      exact hI.get e he
    · rw [if_pos rfl]
  · intro e he
    simp only [Tree.set, Tree.erase, List.mem_append, List.mem_filter, List.mem_singleton] at he
    unfold IsDir
    rw [get_set t hp]
    rcases he with ⟨he, _⟩ | rfl
    · have hd := hI.parent e he
      have : e.1.dropLast ≠ p := by
        intro h; rw [h] at hd; exact hleaf hd
      rw [if_neg this]
      exact hd
    · rw [if_neg (dropLast_ne_self hp)]
      exact hpar

/-! ### `canon` and `lstat` along a path without symlinks -/

/-- no proper, non-empty prefix of `done ++ rest` beyond `done` is a symlink -/
def PlainFrom (t : Tree) (done rest : Path) : Prop :=
  ∀ j, 1 ≤ j → j < rest.length → ∀ d, t.get (done ++ rest.take j) ≠ some (.symlink d)

theorem resolve_plain (t : Tree) : ∀ (rest done : Path) (fuel : Nat) (q : Path),
    ".." ∉ rest.dropLast → PlainFrom t done rest → resolve t fuel done rest = .ok q →
    q = done ++ rest ∧ ∀ j, 1 ≤ j → j < rest.length → IsDir t (done ++ rest.take j) := by
  intro rest
  induction rest with
  | nil =>
    intro done fuel q _ _ h
    cases fuel with
    | zero => simp [resolve] at h
    | succ f =>
      simp only [resolve, Except.ok.injEq] at h
      exact ⟨by simp [h], by intro j h1 h2; simp at h2⟩
  | cons c r ih =>
    intro done fuel q hdd hpl h
    cases fuel with
    | zero => simp [resolve] at h
    | succ f =>
      cases r with
      | nil =>
        simp only [resolve, Except.ok.injEq] at h
        exact ⟨h.symm, by intro j h1 h2; simp at h2; omega⟩
      | cons c2 r2 =>
        have hc : c ≠ ".." := by
          intro h; apply hdd; simp [h]
        simp only [resolve, if_neg hc] at h
        cases hg : t.get (done ++ [c]) with
        | none => simp [hg] at h
        | some x =>
          cases x with
          | file d => simp [hg] at h
          | symlink d =>
            exfalso
            exact hpl 1 (by omega) (by simp) d (by simpa using hg)
          | dir =>
            simp only [hg] at h
            have := ih (done ++ [c]) f q (by
                intro h; apply hdd
                have : (c :: c2 :: r2).dropLast = c :: (c2 :: r2).dropLast := rfl
                rw [this]; exact List.mem_cons_of_mem _ h)
              (by
                intro j hj1 hj2 d
                have := hpl (j + 1) (by omega) (by simp at hj2 ⊢; omega) d
                simpa using this) h
            obtain ⟨hq, hdirs⟩ := this
            refine ⟨by simpa using hq, ?_⟩
            intro j hj1 hj2
            cases j with
            | zero => omega
            | succ j =>
              cases j with
              | zero => simpa [IsDir] using hg
              | succ j =>
                have := hdirs (j + 1) (by omega) (by simp at hj2 ⊢; omega)
                simpa using this

/-- no proper non-empty prefix of `p` is a symlink, and `p` is free of `".."` -/
def Plain (t : Tree) (p : Path) : Prop :=
  ".." ∉ p ∧ ∀ j, 1 ≤ j → j < p.length → ∀ d, t.get (p.take j) ≠ some (.symlink d)

theorem canon_plain {t : Tree} {p q : Path} (hp : Plain t p) (h : canon t p = .ok q) :
    q = p ∧ IsDir t p.dropLast := by
  unfold canon at h
  have := resolve_plain t p [] _ q (fun h => hp.1 (mem_of_mem_dropLast h))
    (by intro j h1 h2 d; simpa using hp.2 j h1 h2 d) h
  obtain ⟨hq, hd⟩ := this
  refine ⟨by simpa using hq, ?_⟩
  by_cases hl : p.length ≤ 1
  · have : p.dropLast = [] := by
      apply List.eq_nil_of_length_eq_zero
      simp; omega
    rw [this]; exact isDir_nil t
  · have := hd (p.length - 1) (by omega) (by omega)
    rw [List.dropLast_eq_take]
    simpa using this

theorem lstat_plain {t : Tree} {p : Path} {n : Node} (hp : Plain t p) (h : lstat t p = .ok n) :
    t.get p = some n ∧ IsDir t p.dropLast := by
  unfold lstat at h
  cases hc : canon t p with
  | error e => simp [hc, bind, Except.bind] at h
  | ok q =>
    obtain ⟨hq, hd⟩ := canon_plain hp hc
    subst hq
    simp only [hc, bind, Except.bind] at h
    cases hg : t.get q with
    | none => simp [hg] at h
    | some x =>
      simp only [hg, Except.ok.injEq] at h
      subst h
      exact ⟨rfl, hd⟩

/-- `lstat` when the parent is a directory: a plain lookup -/
theorem lstat_of_parent {t : Tree} (hI : TInv t) {p : Path} (hd : IsDir t p.dropLast) (hdd : ".." ∉ p) :
    lstat t p = match t.get p with | some n => .ok n | none => .error .enoent := by
  have hc := canon_ok hI hd (fun h => hdd (mem_of_mem_dropLast h))
  simp only [lstat, hc, bind, Except.bind]
  cases t.get p <;> rfl

theorem lstat_of_get {t : Tree} (hI : TInv t) {p : Path} {n : Node} (hdd : ".." ∉ p)
    (h : t.get p = some n) : lstat t p = .ok n := by
  rw [lstat_of_parent hI (parent_isDir hI h) hdd, h]

/-! ### `mkdirs` along a path without symlinks -/

theorem statFollow_at {t : Tree} (hI : TInv t) {q : Path} (hd : IsDir t q.dropLast) (hdd : ".." ∉ q.dropLast) :
    statFollow t 8 q = match t.get q with
      | none => .error .enoent
      | some (.symlink dest) =>
        if dest.startsWith "/" then .error .enoent else statFollow t 7 (q.dropLast ++ splitDest dest)
      | some n => .ok (q, n) := by
  have hc := canon_ok hI hd hdd
  simp only [statFollow, hc, bind, Except.bind]
  cases t.get q with
  | none => rfl
  | some n => cases n <;> rfl

/-- What a successful `mkdirAll` along a symlink-free path does: every prefix becomes a directory, nothing
    that exists is changed, nothing else is created. -/
theorem mkdirAll_spec : ∀ (rest : Path) (t : Tree) (done : Path) (fuel : Nat) (t' : Tree),
    TInv t → IsDir t done → ".." ∉ done → ".." ∉ rest →
    (∀ j, 1 ≤ j → j ≤ rest.length → ∀ d, t.get (done ++ rest.take j) ≠ some (.symlink d)) →
    mkdirAll t fuel done rest = .ok t' →
    TInv t' ∧ (∀ j, j ≤ rest.length → IsDir t' (done ++ rest.take j)) ∧
      (∀ q x, t.get q = some x → t'.get q = some x) ∧
      (∀ q, (∀ j, 1 ≤ j → j ≤ rest.length → q ≠ done ++ rest.take j) → t'.get q = t.get q) := by
  intro rest
  induction rest with
  | nil =>
    intro t done fuel t' hI hd _ _ _ h
    cases fuel with
    | zero => simp [mkdirAll] at h
    | succ f =>
      simp only [mkdirAll, Except.ok.injEq] at h
      subst h
      exact ⟨hI, by intro j _; simpa using hd, fun _ _ h => h, fun _ _ => rfl⟩
  | cons c rest ih =>
    intro t done fuel t' hI hd hdd hdr hpl h
    cases fuel with
    | zero => simp [mkdirAll] at h
    | succ f =>
      have hc : c ≠ ".." := by intro h; apply hdr; simp [h]
      have hdr' : ".." ∉ rest := fun h => hdr (List.mem_cons_of_mem _ h)
      have hdl : (done ++ [c]).dropLast = done := by simp
      have hdd' : ".." ∉ done ++ [c] := by
        intro h
        rcases List.mem_append.mp h with h | h
        · exact hdd h
        · simp at h; exact hc h.symm
      have hne : done ++ [c] ≠ [] := by simp
      have hsf := statFollow_at hI (q := done ++ [c]) (by rw [hdl]; exact hd) (by rw [hdl]; exact hdd)
      have hcan : canon t (done ++ [c]) = .ok (done ++ [c]) :=
        canon_ok hI (by rw [hdl]; exact hd) (by rw [hdl]; exact hdd)
      simp only [mkdirAll] at h
      -- transfer of the conclusion from the recursive call
      have wrap : ∀ (t₁ : Tree), (∀ q x, t.get q = some x → t₁.get q = some x) →
          (∀ q, q ≠ done ++ [c] → t₁.get q = t.get q) →
          (TInv t' ∧ (∀ j, j ≤ rest.length → IsDir t' ((done ++ [c]) ++ rest.take j)) ∧
            (∀ q x, t₁.get q = some x → t'.get q = some x) ∧
            (∀ q, (∀ j, 1 ≤ j → j ≤ rest.length → q ≠ (done ++ [c]) ++ rest.take j) → t'.get q = t₁.get q)) →
          TInv t' ∧ (∀ j, j ≤ (c :: rest).length → IsDir t' (done ++ (c :: rest).take j)) ∧
            (∀ q x, t.get q = some x → t'.get q = some x) ∧
            (∀ q, (∀ j, 1 ≤ j → j ≤ (c :: rest).length → q ≠ done ++ (c :: rest).take j) →
              t'.get q = t.get q) := by
        intro t₁ hmono hother ⟨h1, h2, h3, h4⟩
        refine ⟨h1, ?_, fun q x hq => h3 q x (hmono q x hq), ?_⟩
        · intro j hj
          cases j with
          | zero =>
            simp only [List.take_zero, List.append_nil]
            exact h3 _ _ (hmono _ _ hd)
          | succ j =>
            have := h2 j (by simpa using hj)
            simpa using this
        · intro q hq
          rw [h4 q, hother q]
          · have := hq 1 (by omega) (by simp)
            simpa using this
          · intro j hj1 hj2
            have := hq (j + 1) (by omega) (by simp; omega)
            simpa using this
      have hpl' : ∀ (t₁ : Tree), (∀ q, q ≠ done ++ [c] → t₁.get q = t.get q) →
          ∀ j, 1 ≤ j → j ≤ rest.length → ∀ d, t₁.get ((done ++ [c]) ++ rest.take j) ≠ some (.symlink d) := by
        intro t₁ hother j hj1 hj2 d
        rw [hother]
        · have := hpl (j + 1) (by omega) (by simp; omega) d
          simpa using this
        · intro he
          have := congrArg List.length he
          simp only [List.length_append, List.length_take, List.length_singleton] at this
          omega
      cases hg : t.get (done ++ [c]) with
      | none =>
        rw [hg] at hsf
        simp only [hsf, hcan] at h
        have hnd : ¬ IsDir t (done ++ [c]) := by rw [IsDir, hg]; intro h; cases h
        have hI₁ : TInv (t.set (done ++ [c]) .dir) := tinv_set hI hne (by rw [hdl]; exact hd) hnd _
        have hother : ∀ q, q ≠ done ++ [c] → (t.set (done ++ [c]) .dir).get q = t.get q := by
          intro q hq; rw [get_set t hne, if_neg hq]
        have hmono : ∀ q x, t.get q = some x → (t.set (done ++ [c]) .dir).get q = some x := by
          intro q x hq
          rw [hother q]
          · exact hq
          · intro he; rw [he, hg] at hq; cases hq
        exact wrap _ hmono hother (ih _ _ _ _ hI₁ (by rw [IsDir, get_set t hne, if_pos rfl]) hdd' hdr'
          (hpl' _ hother) h)
      | some x =>
        rw [hg] at hsf
        cases x with
        | symlink d =>
          exfalso
          exact hpl 1 (by omega) (by simp) d (by simpa using hg)
        | file d =>
          simp only [hsf] at h
          cases h
        | dir =>
          simp only [hsf] at h
          exact wrap t (fun _ _ h => h) (fun _ _ => rfl) (ih _ _ _ _ hI hg hdd' hdr' (hpl' t (fun _ _ => rfl)) h)

theorem prefix_iff_take {q d : Path} : q <+: d ↔ ∃ j, j ≤ d.length ∧ q = d.take j := by
  constructor
  · intro h
    exact ⟨q.length, h.length_le, List.prefix_iff_eq_take.mp h⟩
  · rintro ⟨j, _, rfl⟩
    exact List.take_prefix _ _

/-- no non-empty prefix of `p`, `p` included, is a symlink, and `p` is free of `".."` -/
def PlainAll (t : Tree) (p : Path) : Prop :=
  ".." ∉ p ∧ ∀ j, 1 ≤ j → j ≤ p.length → ∀ d, t.get (p.take j) ≠ some (.symlink d)

theorem PlainAll.plain {t : Tree} {p : Path} (h : PlainAll t p) : Plain t p :=
  ⟨h.1, fun j h1 h2 => h.2 j h1 (Nat.le_of_lt h2)⟩

theorem mkdirs_spec {t t' : Tree} {d : Path} (hI : TInv t) (hp : PlainAll t d) (h : mkdirs t d = .ok t') :
    TInv t' ∧ (∀ q, q <+: d → IsDir t' q) ∧ (∀ q x, t.get q = some x → t'.get q = some x) ∧
      (∀ q, ¬ q <+: d → t'.get q = t.get q) := by
  unfold mkdirs at h
  obtain ⟨h1, h2, h3, h4⟩ := mkdirAll_spec d t [] _ t' hI (isDir_nil t) (by simp) hp.1
    (by intro j hj1 hj2 x; simpa using hp.2 j hj1 hj2 x) h
  refine ⟨h1, ?_, h3, ?_⟩
  · intro q hq
    obtain ⟨j, hj, rfl⟩ := prefix_iff_take.mp hq
    simpa using h2 j hj
  · intro q hq
    apply h4
    intro j _ hj2 he
    apply hq
    rw [he]
    simpa using List.take_prefix j d

/-! ### healing a directory -/

theorem remove_nondir {t : Tree} (hI : TInv t) {p : Path} (hd : IsDir t p.dropLast) (hdd : ".." ∉ p)
    {x : Node} (hg : t.get p = some x) (hx : x ≠ .dir) : remove t p = .ok (t.erase p) := by
  have hc := canon_ok hI hd (fun h => hdd (mem_of_mem_dropLast h))
  simp only [remove, hc, bind, Except.bind, hg]

theorem healDir_spec {t t' : Tree} {d : Path} (hI : TInv t) (hne : d ≠ []) (hp : PlainAll t d)
    (h : healDir t d = .ok t') :
    TInv t' ∧ (∀ q, q <+: d → IsDir t' q) ∧ (∀ q x, q ≠ d → t.get q = some x → t'.get q = some x) ∧
      (∀ q, ¬ q <+: d → t'.get q = t.get q) := by
  unfold healDir at h
  cases hl : lstat t d with
  | error e =>
    simp only [hl] at h
    obtain ⟨h1, h2, h3, h4⟩ := mkdirs_spec hI hp h
    exact ⟨h1, h2, fun q x _ hq => h3 q x hq, h4⟩
  | ok n =>
    obtain ⟨hg, hpar⟩ := lstat_plain hp.plain hl
    cases n with
    | dir =>
      simp only [hl, Except.ok.injEq] at h
      subst h
      refine ⟨hI, ?_, fun _ _ _ h => h, fun _ _ => rfl⟩
      intro q hq
      obtain ⟨j, _, rfl⟩ := prefix_iff_take.mp hq
      exact isDir_take hI hg j
    | symlink x =>
      exfalso
      exact hp.2 d.length (List.length_pos_iff.mpr hne) (Nat.le_refl _) x (by simpa using hg)
    | file x =>
      simp only [hl, remove_nondir hI hpar hp.1 hg (by intro h; cases h), bind, Except.bind] at h
      have hnd : ¬ IsDir t d := by rw [IsDir, hg]; intro h; cases h
      have hI₁ : TInv (t.erase d) := tinv_erase hI hnd
      have hge : ∀ q, q ≠ d → (t.erase d).get q = t.get q := by
        intro q hq
        by_cases hq0 : q = []
        · subst hq0; simp [get_nil]
        · rw [get_erase t d hq0, if_neg hq]
      have hp₁ : PlainAll (t.erase d) d := by
        refine ⟨hp.1, ?_⟩
        intro j hj1 hj2 y
        have hne' : d.take j ≠ [] := by
          intro h0
          have := congrArg List.length h0
          simp only [List.length_take, List.length_nil] at this
          have := List.length_pos_iff.mpr hne
          omega
        rw [get_erase t d hne']
        by_cases he : d.take j = d
        · rw [if_pos he]; intro h; cases h
        · rw [if_neg he]; exact hp.2 j hj1 hj2 y
      obtain ⟨h1, h2, h3, h4⟩ := mkdirs_spec hI₁ hp₁ h
      refine ⟨h1, h2, ?_, ?_⟩
      · intro q y hq hy
        exact h3 q y (by rw [hge q hq]; exact hy)
      · intro q hq
        rw [h4 q hq, hge q]
        intro he; apply hq; rw [he]; exact List.prefix_refl _

/-- With the parent a directory and no symlink in the way, healing a directory succeeds. -/
theorem healDir_ok {t : Tree} {d : Path} (hI : TInv t) (hne : d ≠ []) (hdd : ".." ∉ d)
    (hpar : IsDir t d.dropLast) (hns : ∀ x, t.get d ≠ some (.symlink x)) : ∃ t', healDir t d = .ok t' := by
  have hdd' : ".." ∉ d.dropLast := fun h => hdd (mem_of_mem_dropLast h)
  unfold healDir
  rw [lstat_of_parent hI hpar hdd]
  cases hg : t.get d with
  | none =>
    refine ⟨_, mkdirs_new hI ⟨hne, ?_, hpar, hdd'⟩⟩
    intro e he h
    have := hI.get e he
    rw [h, hg] at this
    cases this
  | some n =>
    cases n with
    | dir => exact ⟨t, rfl⟩
    | symlink x => exact absurd hg (hns x)
    | file x =>
      simp only [remove_nondir hI hpar hdd hg (by intro h; cases h), bind, Except.bind]
      have hnd : ¬ IsDir t d := by rw [IsDir, hg]; intro h; cases h
      have hI₁ : TInv (t.erase d) := tinv_erase hI hnd
      refine ⟨_, mkdirs_new hI₁ ⟨hne, ?_, ?_, hdd'⟩⟩
      · intro e he
        simp only [Tree.erase, List.mem_filter, bne_iff_ne, ne_eq] at he
        exact he.2
      · by_cases h0 : d.dropLast = []
        · rw [h0]; exact isDir_nil _
        · rw [IsDir, get_erase t d h0, if_neg (dropLast_ne_self hne)]
          exact hpar

/-! ### healing a symlink or a file: clear the path, then place the node -/

/-- `t'` is `t` with node `n` at `p`, nothing below `p`, and everything else as it was. -/
structure StepAt (t : Tree) (p : Path) (n : Node) (t' : Tree) : Prop where
  tinv : TInv t'
  at_ : t'.get p = some n
  below : ∀ q, isPrefix p q = true → t'.get q = none
  other : ∀ q, q ≠ p → isPrefix p q = false → t'.get q = t.get q

/-- `c` is `t` with whatever was at or below `p` cleared away, except possibly a regular file at `p`. -/
structure Cleared (t : Tree) (p : Path) (c : Tree) : Prop where
  tinv : TInv c
  at_ : c.get p = none ∨ ∃ x, c.get p = some (.file x)
  below : ∀ q, isPrefix p q = true → c.get q = none
  other : ∀ q, q ≠ p → isPrefix p q = false → c.get q = t.get q

theorem cleared_self {t : Tree} (hI : TInv t) {p : Path}
    (h : t.get p = none ∨ ∃ x, t.get p = some (.file x)) : Cleared t p t := by
  refine ⟨hI, h, ?_, fun _ _ _ => rfl⟩
  intro q hq
  apply get_below_none hI _ hq
  rw [IsDir]
  rcases h with h | ⟨x, h⟩ <;> rw [h] <;> intro h' <;> cases h'

theorem cleared_erase {t : Tree} (hI : TInv t) {p : Path} (hp : p ≠ []) (hnd : ¬ IsDir t p) :
    Cleared t p (t.erase p) := by
  refine ⟨tinv_erase hI hnd, .inl (by rw [get_erase t p hp, if_pos rfl]), ?_, ?_⟩
  · intro q hq
    have hq0 : q ≠ [] := by
      intro h; subst h; simp [isPrefix] at hq
    have hqp : q ≠ p := by
      intro h; subst h; simp [isPrefix] at hq
    rw [get_erase t p hq0, if_neg hqp]
    exact get_below_none hI hnd hq
  · intro q hq _
    by_cases hq0 : q = []
    · subst hq0; simp [get_nil]
    · rw [get_erase t p hq0, if_neg hq]

theorem cleared_eraseTree {t : Tree} (hI : TInv t) {p : Path} (hp : p ≠ []) :
    Cleared t p (t.eraseTree p) := by
  refine ⟨tinv_eraseTree hI p, .inl (by rw [get_eraseTree t p hp, if_pos (.inl rfl)]), ?_, ?_⟩
  · intro q hq
    have hq0 : q ≠ [] := by
      intro h; subst h; simp [isPrefix] at hq
    rw [get_eraseTree t p hq0, if_pos (.inr hq)]
  · intro q hq hb
    by_cases hq0 : q = []
    · subst hq0; simp [get_nil]
    · rw [get_eraseTree t p hq0, if_neg]
      rintro (h | h)
      · exact hq h
      · rw [hb] at h; cases h

theorem Cleared.parent {t c : Tree} {p : Path} (h : Cleared t p c) (hp : p ≠ []) (hpar : IsDir t p.dropLast) :
    IsDir c p.dropLast := by
  rw [IsDir, h.other _ (dropLast_ne_self hp) (not_isPrefix_dropLast p)]
  exact hpar

theorem Cleared.notDir {t c : Tree} {p : Path} (h : Cleared t p c) : ¬ IsDir c p := by
  rw [IsDir]
  rcases h.at_ with h | ⟨x, h⟩ <;> rw [h] <;> intro h' <;> cases h'

/-- placing a node on a cleared path -/
theorem Cleared.set {t c : Tree} {p : Path} (h : Cleared t p c) (hp : p ≠ []) (hpar : IsDir t p.dropLast)
    (n : Node) : StepAt t p n (c.set p n) := by
  refine ⟨tinv_set h.tinv hp (h.parent hp hpar) h.notDir n, by rw [get_set c hp, if_pos rfl], ?_, ?_⟩
  · intro q hq
    have hqp : q ≠ p := by
      intro h; subst h; simp [isPrefix] at hq
    rw [get_set c hp, if_neg hqp]
    exact h.below q hq
  · intro q hq hb
    rw [get_set c hp, if_neg hq]
    exact h.other q hq hb

theorem removeAll_at {t : Tree} (hI : TInv t) {p : Path} (hd : IsDir t p.dropLast) (hdd : ".." ∉ p) :
    removeAll t p = .ok (t.eraseTree p) := by
  have hc := canon_ok hI hd (fun h => hdd (mem_of_mem_dropLast h))
  simp only [removeAll, hc]

theorem symlink_cleared {c : Tree} (hI : TInv c) {p : Path} (hd : IsDir c p.dropLast) (hdd : ".." ∉ p)
    (hg : c.get p = none) (dest : String) : FS.symlink c dest p = .ok (c.set p (.symlink dest)) := by
  have hc := canon_ok hI hd (fun h => hdd (mem_of_mem_dropLast h))
  have hd' : c.get p.dropLast = some .dir := hd
  simp only [FS.symlink, hc, bind, Except.bind, hd', hg]

theorem writeFile_cleared {c : Tree} (hI : TInv c) {p : Path} (hd : IsDir c p.dropLast) (hdd : ".." ∉ p)
    (hg : c.get p = none ∨ ∃ x, c.get p = some (.file x)) (data : List Byte) :
    writeFile c p data = .ok (c.set p (.file data)) := by
  have hc := canon_ok hI hd (fun h => hdd (mem_of_mem_dropLast h))
  have hd' : c.get p.dropLast = some .dir := hd
  rcases hg with hg | ⟨x, hg⟩ <;> simp only [writeFile, hc, bind, Except.bind, hd', hg]

/-- `healSymlink` at a path whose parent is a directory always succeeds and is a `StepAt`. -/
theorem healSymlink_step {t : Tree} (hI : TInv t) {p : Path} (hp : p ≠ []) (hdd : ".." ∉ p)
    (hpar : IsDir t p.dropLast) (dest : String) :
    ∃ t', healSymlink t p dest = .ok t' ∧ StepAt t p (.symlink dest) t' := by
  have hdd' : ".." ∉ p.dropLast := fun h => hdd (mem_of_mem_dropLast h)
  have fin : ∀ c, Cleared t p c → c.get p = none →
      FS.symlink c dest p = .ok (c.set p (.symlink dest)) ∧ StepAt t p (.symlink dest) (c.set p (.symlink dest)) :=
    fun c hc hg => ⟨symlink_cleared hc.tinv (hc.parent hp hpar) hdd hg dest, hc.set hp hpar _⟩
  unfold healSymlink
  simp only [mkdirs_noop hI hpar hdd', bind, Except.bind, lstat_of_parent hI hpar hdd]
  cases hg : t.get p with
  | none =>
    obtain ⟨h1, h2⟩ := fin t (cleared_self hI (.inl hg)) hg
    exact ⟨_, by simpa using h1, h2⟩
  | some n =>
    cases n with
    | dir =>
      have hcl := cleared_eraseTree hI (p := p) hp
      obtain ⟨h1, h2⟩ := fin _ hcl (by rw [get_eraseTree t p hp, if_pos (.inl rfl)])
      exact ⟨_, by simpa [removeAll_at hI hpar hdd] using h1, h2⟩
    | file x =>
      have hnd : ¬ IsDir t p := by rw [IsDir, hg]; intro h; cases h
      have hcl := cleared_erase hI hp hnd
      obtain ⟨h1, h2⟩ := fin _ hcl (by rw [get_erase t p hp, if_pos rfl])
      exact ⟨_, by simpa [remove_nondir hI hpar hdd hg (by intro h; cases h)] using h1, h2⟩
    | symlink x =>
      have hnd : ¬ IsDir t p := by rw [IsDir, hg]; intro h; cases h
      have hcl := cleared_erase hI hp hnd
      obtain ⟨h1, h2⟩ := fin _ hcl (by rw [get_erase t p hp, if_pos rfl])
      exact ⟨_, by simpa [remove_nondir hI hpar hdd hg (by intro h; cases h)] using h1, h2⟩

/-- `healFile` at a path whose parent is a directory always succeeds and is a `StepAt`. -/
theorem healFile_step {t : Tree} (hI : TInv t) {p : Path} (hp : p ≠ []) (hdd : ".." ∉ p)
    (hpar : IsDir t p.dropLast) (data : List Byte) :
    ∃ t', healFile t p data = .ok t' ∧ StepAt t p (.file data) t' := by
  have hdd' : ".." ∉ p.dropLast := fun h => hdd (mem_of_mem_dropLast h)
  have fin : ∀ c, Cleared t p c →
      writeFile c p data = .ok (c.set p (.file data)) ∧ StepAt t p (.file data) (c.set p (.file data)) :=
    fun c hc => ⟨writeFile_cleared hc.tinv (hc.parent hp hpar) hdd hc.at_ data, hc.set hp hpar _⟩
  unfold healFile
  simp only [mkdirs_noop hI hpar hdd', bind, Except.bind, lstat_of_parent hI hpar hdd]
  cases hg : t.get p with
  | none =>
    obtain ⟨h1, h2⟩ := fin t (cleared_self hI (.inl hg))
    exact ⟨_, by simpa using h1, h2⟩
  | some n =>
    cases n with
    | dir =>
      obtain ⟨h1, h2⟩ := fin _ (cleared_eraseTree hI (p := p) hp)
      exact ⟨_, by simpa [removeAll_at hI hpar hdd] using h1, h2⟩
    | file x =>
      obtain ⟨h1, h2⟩ := fin t (cleared_self hI (.inr ⟨x, hg⟩))
      exact ⟨_, by simpa using h1, h2⟩
    | symlink x =>
      have hnd : ¬ IsDir t p := by rw [IsDir, hg]; intro h; cases h
      obtain ⟨h1, h2⟩ := fin _ (cleared_erase hI hp hnd)
      exact ⟨_, by simpa [remove_nondir hI hpar hdd hg (by intro h; cases h)] using h1, h2⟩

/-! ### well-formed signed builds -/

/-- all paths of a signed build -/
def allPaths (s : Signed) : List Path := s.dirs ++ s.symlinks.map (·.1) ++ s.files.map (·.1)

/-- Well-formedness of a signed build (mirrors `Wharf.C06.SignedWF`). -/
structure WF (s : Signed) : Prop where
  clean : ∀ p ∈ allPaths s, p ≠ [] ∧ ∀ c ∈ p, c ≠ ".." ∧ c ≠ "." ∧ c ≠ ""
  distinct : (allPaths s).Nodup
  parents : ∀ p ∈ allPaths s, ∀ j, 0 < j → j < p.length → p.take j ∈ s.dirs

/-- the signed symlinks and files as (path, node) pairs -/
def leaves (s : Signed) : List (Path × Node) :=
  s.symlinks.map (fun e => (e.1, Node.symlink e.2)) ++ s.files.map (fun e => (e.1, Node.file e.2))

/-- every signed directory is a directory -/
def AllDirs (s : Signed) (t : Tree) : Prop := ∀ d ∈ s.dirs, IsDir t d

theorem nodup_map_inj {α β} {f : α → β} : ∀ {l : List α}, (l.map f).Nodup →
    ∀ {x y}, x ∈ l → y ∈ l → f x = f y → x = y := by
  intro l
  induction l with
  | nil => intro _ x y hx; cases hx
  | cons a l ih =>
    intro h x y hx hy hxy
    simp only [List.map_cons, List.nodup_cons, List.mem_map, not_exists, not_and] at h
    rcases List.mem_cons.mp hx with hx | hx <;> rcases List.mem_cons.mp hy with hy | hy
    · rw [hx, hy]
    · rw [hx] at hxy; exact absurd hxy.symm (h.1 y hy)
    · rw [hy] at hxy; exact absurd hxy (h.1 x hx)
    · exact ih h.2 hx hy hxy

theorem mem_allPaths_dir {s : Signed} {d : Path} (h : d ∈ s.dirs) : d ∈ allPaths s := by
  simp [allPaths, h]

theorem mem_leaves {s : Signed} {e : Path × Node} (h : e ∈ leaves s) :
    (∃ x ∈ s.symlinks, e = (x.1, .symlink x.2)) ∨ (∃ x ∈ s.files, e = (x.1, .file x.2)) := by
  simp only [leaves, List.mem_append, List.mem_map] at h
  rcases h with ⟨x, hx, rfl⟩ | ⟨x, hx, rfl⟩
  · exact .inl ⟨x, hx, rfl⟩
  · exact .inr ⟨x, hx, rfl⟩

theorem leaf_mem_allPaths {s : Signed} {e : Path × Node} (h : e ∈ leaves s) : e.1 ∈ allPaths s := by
  rcases mem_leaves h with ⟨x, hx, rfl⟩ | ⟨x, hx, rfl⟩
  · simp only [allPaths, List.mem_append, List.mem_map]
    exact .inl (.inr ⟨x, hx, rfl⟩)
  · simp only [allPaths, List.mem_append, List.mem_map]
    exact .inr ⟨x, hx, rfl⟩

theorem leaf_ne_dir {s : Signed} {e : Path × Node} (h : e ∈ leaves s) : e.2 ≠ .dir := by
  rcases mem_leaves h with ⟨x, _, rfl⟩ | ⟨x, _, rfl⟩ <;> intro h' <;> cases h'

theorem WF.nodd {s : Signed} (hs : WF s) {p : Path} (hp : p ∈ allPaths s) : ".." ∉ p :=
  fun h => ((hs.clean p hp).2 _ h).1 rfl

theorem WF.leaf_not_dir {s : Signed} (hs : WF s) {e : Path × Node} (h : e ∈ leaves s) : e.1 ∉ s.dirs := by
  intro hd
  have hnd := hs.distinct
  simp only [allPaths, List.append_assoc] at hnd
  rw [List.nodup_append] at hnd
  have hm : e.1 ∈ s.symlinks.map (·.1) ++ s.files.map (·.1) := by
    rcases mem_leaves h with ⟨x, hx, rfl⟩ | ⟨x, hx, rfl⟩
    · exact List.mem_append_left _ (List.mem_map.mpr ⟨x, hx, rfl⟩)
    · exact List.mem_append_right _ (List.mem_map.mpr ⟨x, hx, rfl⟩)
  exact hnd.2.2 _ hd _ hm rfl

/-- nothing signed lies below a signed symlink or file -/
theorem WF.leaf_not_below {s : Signed} (hs : WF s) {e : Path × Node} (h : e ∈ leaves s) {p : Path}
    (hp : p ∈ allPaths s) : isPrefix e.1 p = false := by
  cases hb : isPrefix e.1 p with
  | false => rfl
  | true =>
    exfalso
    rw [isPrefix_iff] at hb
    have hne : e.1 ≠ [] := (hs.clean _ (leaf_mem_allPaths h)).1
    have := hs.parents p hp e.1.length (List.length_pos_iff.mpr hne) hb.1
    rw [hb.2] at this
    exact hs.leaf_not_dir h this

/-- a path is signed at most once among symlinks and files -/
theorem WF.leaf_fun {s : Signed} (hs : WF s) {a b : Path × Node} (ha : a ∈ leaves s) (hb : b ∈ leaves s)
    (hab : a.1 = b.1) : a = b := by
  have hnd := hs.distinct
  simp only [allPaths, List.append_assoc] at hnd
  rw [List.nodup_append] at hnd
  have hnd2 := hnd.2.1
  rw [List.nodup_append] at hnd2
  obtain ⟨hA, hB, hAB⟩ := hnd2
  rcases mem_leaves ha with ⟨x, hx, rfl⟩ | ⟨x, hx, rfl⟩ <;>
    rcases mem_leaves hb with ⟨y, hy, rfl⟩ | ⟨y, hy, rfl⟩
  · have := nodup_map_inj hA hx hy hab
    subst this; rfl
  · exact absurd hab (hAB _ (List.mem_map.mpr ⟨x, hx, rfl⟩) _ (List.mem_map.mpr ⟨y, hy, rfl⟩))
  · exact absurd hab.symm (hAB _ (List.mem_map.mpr ⟨y, hy, rfl⟩) _ (List.mem_map.mpr ⟨x, hx, rfl⟩))
  · have := nodup_map_inj hB hx hy hab
    subst this; rfl

/-- with every signed directory in place, the parent of any signed path is a directory -/
theorem WF.parent_dir {s : Signed} (hs : WF s) {t : Tree} (hA : AllDirs s t) {p : Path}
    (hp : p ∈ allPaths s) : IsDir t p.dropLast := by
  by_cases hl : p.length ≤ 1
  · have : p.dropLast = [] := by
      apply List.eq_nil_of_length_eq_zero
      simp; omega
    rw [this]; exact isDir_nil t
  · rw [List.dropLast_eq_take]
    exact hA _ (hs.parents p hp _ (by omega) (by omega))

/-! ### sequences of leaf heal steps -/

def healLeaf (t : Tree) : Path × Node → Except Err Tree
  | (p, .symlink d) => healSymlink t p d
  | (p, .file S) => healFile t p S
  | (_, .dir) => .error .einval

def healLeaves : List (Path × Node) → Tree → Except Err Tree
  | [], t => .ok t
  | e :: es, t =>
    match healLeaf t e with
    | .ok t' => healLeaves es t'
    | .error err => .error err

theorem healLeaves_append (a b : List (Path × Node)) : ∀ t, healLeaves (a ++ b) t =
    match healLeaves a t with
    | .ok t' => healLeaves b t'
    | .error err => .error err := by
  induction a with
  | nil => intro t; rfl
  | cons e es ih =>
    intro t
    simp only [List.cons_append, healLeaves]
    cases healLeaf t e with
    | error err => rfl
    | ok t' => exact ih t'

theorem healLeaf_step {s : Signed} (hs : WF s) {t : Tree} (hI : TInv t) (hA : AllDirs s t)
    {e : Path × Node} (he : e ∈ leaves s) : ∃ t', healLeaf t e = .ok t' ∧ StepAt t e.1 e.2 t' := by
  have hp := leaf_mem_allPaths he
  have hne := (hs.clean _ hp).1
  have hdd := hs.nodd hp
  have hpar := hs.parent_dir hA hp
  obtain ⟨p, n⟩ := e
  cases n with
  | dir => exact absurd rfl (leaf_ne_dir he)
  | symlink d => exact healSymlink_step hI hne hdd hpar d
  | file S => exact healFile_step hI hne hdd hpar S

theorem StepAt.allDirs {s : Signed} (hs : WF s) {t t' : Tree} {e : Path × Node} (he : e ∈ leaves s)
    (h : StepAt t e.1 e.2 t') (hA : AllDirs s t) : AllDirs s t' := by
  intro d hd
  rw [IsDir, h.other d (fun h' => hs.leaf_not_dir he (h' ▸ hd)) (hs.leaf_not_below he (mem_allPaths_dir hd))]
  exact hA d hd

/-- A sequence of leaf heal steps, started with every signed directory in place: succeeds, keeps the
    directories, leaves alone what is neither at nor below a healed path, and establishes every healed
    entry. -/
theorem healLeaves_spec {s : Signed} (hs : WF s) : ∀ (L : List (Path × Node)) (t : Tree),
    (∀ e ∈ L, e ∈ leaves s) → TInv t → AllDirs s t →
    ∃ t', healLeaves L t = .ok t' ∧ TInv t' ∧ AllDirs s t' ∧
      (∀ x, (∀ e ∈ L, x ≠ e.1 ∧ isPrefix e.1 x = false) → t'.get x = t.get x) ∧
      (∀ e ∈ L, t'.get e.1 = some e.2) := by
  intro L
  induction L with
  | nil => intro t _ hI hA; exact ⟨t, rfl, hI, hA, fun _ _ => rfl, by simp⟩
  | cons a L ih =>
    intro t hL hI hA
    have ha : a ∈ leaves s := hL a (by simp)
    obtain ⟨t₁, h₁, hst⟩ := healLeaf_step hs hI hA ha
    obtain ⟨t', h', hI', hA', hoth, hest⟩ :=
      ih t₁ (fun e he => hL e (List.mem_cons_of_mem _ he)) hst.tinv (hst.allDirs hs ha hA)
    refine ⟨t', by simp only [healLeaves, h₁, h'], hI', hA', ?_, ?_⟩
    · intro x hx
      rw [hoth x (fun e he => hx e (List.mem_cons_of_mem _ he))]
      exact hst.other x (hx a (by simp)).1 (hx a (by simp)).2
    · intro e he
      by_cases hex : ∃ b ∈ L, b.1 = e.1
      · obtain ⟨b, hb, hbe⟩ := hex
        have : b = e := hs.leaf_fun (hL b (List.mem_cons_of_mem _ hb)) (hL e he) hbe
        subst this
        exact hest b hb
      · have hea : e = a := by
          rcases List.mem_cons.mp he with h | h
          · exact h
          · exact absurd ⟨e, h, rfl⟩ hex
        subst hea
        rw [hoth e.1]
        · exact hst.at_
        · intro b hb
          refine ⟨fun h => hex ⟨b, hb, h.symm⟩, ?_⟩
          exact hs.leaf_not_below (hL b (List.mem_cons_of_mem _ hb)) (leaf_mem_allPaths ha)

/-! ### sequences of directory heal steps -/

def healDirs : List Path → Tree → Except Err Tree
  | [], t => .ok t
  | d :: ds, t =>
    match healDir t d with
    | .ok t' => healDirs ds t'
    | .error err => .error err

/-- no signed directory is a symlink (as a statement about `get`) -/
def NoSymDirs (s : Signed) (t : Tree) : Prop := ∀ d ∈ s.dirs, ∀ x, t.get d ≠ some (.symlink x)

theorem WF.plainAll {s : Signed} (hs : WF s) {t : Tree} (hn : NoSymDirs s t) {d : Path} (hd : d ∈ s.dirs) :
    PlainAll t d := by
  refine ⟨hs.nodd (mem_allPaths_dir hd), ?_⟩
  intro j hj1 hj2 x
  by_cases hj : j = d.length
  · subst hj
    rw [List.take_length]
    exact hn d hd x
  · exact hn _ (hs.parents d (mem_allPaths_dir hd) j (by omega) (by omega)) x

/-- every signed path is free of symlinks on the way -/
theorem WF.plain {s : Signed} (hs : WF s) {t : Tree} (hn : NoSymDirs s t) {p : Path} (hp : p ∈ allPaths s) :
    Plain t p :=
  ⟨hs.nodd hp, fun j hj1 hj2 x => hn _ (hs.parents p hp j (by omega) hj2) x⟩

theorem healDirs_spec {s : Signed} (hs : WF s) : ∀ (W : List Path) (t t' : Tree),
    (∀ d ∈ W, d ∈ s.dirs) → TInv t → NoSymDirs s t → healDirs W t = .ok t' →
    TInv t' ∧ NoSymDirs s t' ∧ (∀ d ∈ W, IsDir t' d) ∧ (∀ q, IsDir t q → IsDir t' q) ∧
      (∀ q x, q ∉ s.dirs → t.get q = some x → t'.get q = some x) ∧
      (∀ q, (∀ d ∈ W, ¬ q <+: d) → t'.get q = t.get q) := by
  intro W
  induction W with
  | nil =>
    intro t t' _ hI hn h
    simp only [healDirs, Except.ok.injEq] at h
    subst h
    exact ⟨hI, hn, by simp, fun _ h => h, fun _ _ _ h => h, fun _ _ => rfl⟩
  | cons d W ih =>
    intro t t' hW hI hn h
    have hd : d ∈ s.dirs := hW d (by simp)
    have hne : d ≠ [] := (hs.clean d (mem_allPaths_dir hd)).1
    simp only [healDirs] at h
    cases h₁ : healDir t d with
    | error e => simp [h₁] at h
    | ok t₁ =>
      simp only [h₁] at h
      obtain ⟨a1, a2, a3, a4⟩ := healDir_spec hI hne (hs.plainAll hn hd) h₁
      have hmono : ∀ q, IsDir t q → IsDir t₁ q := by
        intro q hq
        by_cases hqd : q = d
        · subst hqd; exact a2 q (List.prefix_refl _)
        · exact a3 q _ hqd hq
      have hn₁ : NoSymDirs s t₁ := by
        intro d' hd' x hx
        by_cases hpre : d' <+: d
        · have := a2 d' hpre
          rw [IsDir, hx] at this
          cases this
        · rw [a4 d' hpre] at hx
          exact hn d' hd' x hx
      obtain ⟨b1, b2, b3, b4, b5, b6⟩ :=
        ih t₁ t' (fun x hx => hW x (List.mem_cons_of_mem _ hx)) a1 hn₁ h
      refine ⟨b1, b2, ?_, fun q hq => b4 q (hmono q hq), ?_, ?_⟩
      · intro x hx
        rcases List.mem_cons.mp hx with rfl | hx
        · exact b4 _ (a2 _ (List.prefix_refl _))
        · exact b3 x hx
      · intro q x hq hx
        exact b5 q x hq (a3 q x (fun h' => hq (h' ▸ hd)) hx)
      · intro q hq
        rw [b6 q (fun x hx => hq x (List.mem_cons_of_mem _ hx)), a4 q (hq d (by simp))]

/-- The order condition under which a sequence of directory heals succeeds: every proper ancestor of a
    directory to heal is a directory already or is healed earlier in the sequence. -/
def Ready (t : Tree) (W : List Path) : Prop :=
  ∀ W₁ d W₂, W = W₁ ++ d :: W₂ → ∀ j, 0 < j → j < d.length → IsDir t (d.take j) ∨ d.take j ∈ W₁

theorem healDirs_ok {s : Signed} (hs : WF s) : ∀ (W : List Path) (t : Tree),
    (∀ d ∈ W, d ∈ s.dirs) → TInv t → NoSymDirs s t → Ready t W → ∃ t', healDirs W t = .ok t' := by
  intro W
  induction W with
  | nil => intro t _ _ _ _; exact ⟨t, rfl⟩
  | cons d W ih =>
    intro t hW hI hn hr
    have hd : d ∈ s.dirs := hW d (by simp)
    have hne : d ≠ [] := (hs.clean d (mem_allPaths_dir hd)).1
    have hpar : IsDir t d.dropLast := by
      by_cases hl : d.length ≤ 1
      · have : d.dropLast = [] := by
          apply List.eq_nil_of_length_eq_zero
          simp; omega
        rw [this]; exact isDir_nil t
      · rw [List.dropLast_eq_take]
        rcases hr [] d W rfl (d.length - 1) (by omega) (by omega) with h | h
        · exact h
        · cases h
    obtain ⟨t₁, h₁⟩ := healDir_ok hI hne (hs.nodd (mem_allPaths_dir hd)) hpar (hn d hd)
    obtain ⟨a1, a2, a3, a4⟩ := healDir_spec hI hne (hs.plainAll hn hd) h₁
    have hmono : ∀ q, IsDir t q → IsDir t₁ q := by
      intro q hq
      by_cases hqd : q = d
      · subst hqd; exact a2 q (List.prefix_refl _)
      · exact a3 q _ hqd hq
    have hn₁ : NoSymDirs s t₁ := by
      intro d' hd' x hx
      by_cases hpre : d' <+: d
      · have := a2 d' hpre
        rw [IsDir, hx] at this
        cases this
      · rw [a4 d' hpre] at hx
        exact hn d' hd' x hx
    have hr₁ : Ready t₁ W := by
      intro W₁ d' W₂ hW' j hj1 hj2
      rcases hr (d :: W₁) d' W₂ (by rw [hW']; rfl) j hj1 hj2 with h | h
      · exact .inl (hmono _ h)
      · rcases List.mem_cons.mp h with h | h
        · left; rw [h]; exact a2 d (List.prefix_refl _)
        · exact .inr h
    obtain ⟨t', h'⟩ := ih t₁ (fun x hx => hW x (List.mem_cons_of_mem _ hx)) a1 hn₁ hr₁
    exact ⟨t', by simp only [healDirs, h₁, h']⟩

/-! ### how `processWounds` and `healFiles` decompose into heal steps -/

def isDirOk : Except Err Node → Bool
  | .ok .dir => true
  | _ => false

def symOk (dest : String) : Except Err Node → Bool
  | .ok (.symlink d) => d == dest
  | _ => false

theorem isDirOk_iff (r : Except Err Node) : isDirOk r = true ↔ r = .ok .dir := by
  cases r with
  | error e => simp [isDirOk]
  | ok n => cases n <;> simp [isDirOk]

theorem symOk_iff (dest : String) (r : Except Err Node) : symOk dest r = true ↔ r = .ok (.symlink dest) := by
  cases r with
  | error e => simp [symOk]
  | ok n => cases n <;> simp [symOk]

theorem outcome_bind_ok {α β} {x : Outcome α} {f : α → Outcome β} {b : β} (h : x.bind f = .ok b) :
    ∃ a, x = .ok a ∧ f a = .ok b := by
  cases x with
  | ok a => exact ⟨a, rfl, h⟩
  | err e => cases h
  | panic e => cases h

/-- the signed directories the validator wounds in `t0` -/
def woundedDirs (t0 : Tree) (ps : List Path) : List Path := ps.filter (fun d => !isDirOk (lstat t0 d))

/-- the signed symlinks the validator wounds in `t0`, as leaves -/
def woundedSyms (t0 : Tree) (sl : List (Path × String)) : List (Path × Node) :=
  (sl.filter (fun e => !symOk e.2 (lstat t0 e.1))).map (fun e => (e.1, Node.symlink e.2))

theorem dirPass (s : Signed) (t0 : Tree) : ∀ (ps pre : List Path) (dw : List Wound),
    s.dirs = pre ++ ps → dirWounds t0 pre.length ps = .ok dw →
    ∀ (rest : List Wound) (t : Tree) (q : List Nat), processWounds s (dw ++ rest) t q =
      match healDirs (woundedDirs t0 ps) t with
      | .ok t' => processWounds s rest t' q
      | .error err => .error err := by
  intro ps
  induction ps with
  | nil =>
    intro pre dw _ h rest t q
    simp only [dirWounds, Outcome.ok.injEq] at h
    subst h
    rfl
  | cons p ps ih =>
    intro pre dw hsd h rest t q
    have hidx : s.dirs[pre.length]? = some p := by rw [hsd]; simp
    have hsd' : s.dirs = (pre ++ [p]) ++ ps := by simp [hsd]
    have hlen : (pre ++ [p]).length = pre.length + 1 := by simp
    have wound : isDirOk (lstat t0 p) = false →
        ((dirWounds t0 (pre.length + 1) ps).bind fun ws => .ok (⟨.dir, pre.length, 0, 0⟩ :: ws)) = .ok dw →
        processWounds s (dw ++ rest) t q =
          match healDirs (woundedDirs t0 (p :: ps)) t with
          | .ok t' => processWounds s rest t' q
          | .error err => .error err := by
      intro hw hb
      obtain ⟨dw', h1, h2⟩ := outcome_bind_ok hb
      simp only [Outcome.ok.injEq] at h2
      subst h2
      have hf : woundedDirs t0 (p :: ps) = p :: woundedDirs t0 ps := by
        simp [woundedDirs, hw]
      rw [hf, List.cons_append, processWounds]
      simp only [hidx, bind, Except.bind, healDirs]
      cases healDir t p with
      | error e => rfl
      | ok t₁ =>
        simp only
        exact ih (pre ++ [p]) dw' hsd' (by rw [hlen]; exact h1) rest t₁ q
    unfold dirWounds at h
    cases hl : lstat t0 p with
    | error e =>
      simp only [hl] at h
      by_cases hn : notExist e = true
      · simp only [hn, if_true] at h
        exact wound (by rw [hl]; rfl) h
      · simp only [hn] at h
        cases h
    | ok n =>
      simp only [hl] at h
      cases n with
      | dir =>
        have hf : woundedDirs t0 (p :: ps) = woundedDirs t0 ps := by
          simp [woundedDirs, hl, isDirOk]
        rw [hf]
        exact ih (pre ++ [p]) dw hsd' (by rw [hlen]; exact h) rest t q
      | file x => exact wound (by rw [hl]; rfl) h
      | symlink x => exact wound (by rw [hl]; rfl) h

theorem symPass (s : Signed) (t0 : Tree) : ∀ (sl pre : List (Path × String)) (sw : List Wound),
    s.symlinks = pre ++ sl → symlinkWounds t0 pre.length sl = .ok sw →
    ∀ (rest : List Wound) (t : Tree) (q : List Nat), processWounds s (sw ++ rest) t q =
      match healLeaves (woundedSyms t0 sl) t with
      | .ok t' => processWounds s rest t' q
      | .error err => .error err := by
  intro sl
  induction sl with
  | nil =>
    intro pre sw _ h rest t q
    simp only [symlinkWounds, Outcome.ok.injEq] at h
    subst h
    rfl
  | cons e sl ih =>
    intro pre sw hsd h rest t q
    obtain ⟨p, dest⟩ := e
    have hidx : s.symlinks[pre.length]? = some (p, dest) := by rw [hsd]; simp
    have hsd' : s.symlinks = (pre ++ [(p, dest)]) ++ sl := by simp [hsd]
    have hlen : (pre ++ [(p, dest)]).length = pre.length + 1 := by simp
    have wound : symOk dest (lstat t0 p) = false →
        ((symlinkWounds t0 (pre.length + 1) sl).bind fun ws => .ok (⟨.symlink, pre.length, 0, 0⟩ :: ws)) = .ok sw →
        processWounds s (sw ++ rest) t q =
          match healLeaves (woundedSyms t0 ((p, dest) :: sl)) t with
          | .ok t' => processWounds s rest t' q
          | .error err => .error err := by
      intro hw hb
      obtain ⟨sw', h1, h2⟩ := outcome_bind_ok hb
      simp only [Outcome.ok.injEq] at h2
      subst h2
      have hf : woundedSyms t0 ((p, dest) :: sl) = (p, .symlink dest) :: woundedSyms t0 sl := by
        simp [woundedSyms, hw]
      rw [hf, List.cons_append, processWounds]
      simp only [hidx, bind, Except.bind, healLeaves, healLeaf]
      cases healSymlink t p dest with
      | error e => rfl
      | ok t₁ =>
        simp only
        exact ih (pre ++ [(p, dest)]) sw' hsd' (by rw [hlen]; exact h1) rest t₁ q
    unfold symlinkWounds at h
    cases hl : lstat t0 p with
    | error e =>
      simp only [hl] at h
      by_cases hn : notExist e = true
      · simp only [hn, if_true] at h
        exact wound (by rw [hl]; rfl) h
      · simp only [hn] at h
        cases h
    | ok n =>
      simp only [hl] at h
      cases n with
      | dir => exact wound (by rw [hl]; rfl) h
      | file x => exact wound (by rw [hl]; rfl) h
      | symlink x =>
        by_cases hx : x = dest
        · simp only [hx, if_true] at h
          have hf : woundedSyms t0 ((p, dest) :: sl) = woundedSyms t0 sl := by
            simp [woundedSyms, hl, symOk, hx]
          rw [hf]
          exact ih (pre ++ [(p, dest)]) sw hsd' (by rw [hlen]; exact h) rest t q
        · simp only [hx, if_false] at h
          exact wound (by rw [hl]; simp [symOk, hx]) h

/-- the per-file pass only queues: the tree is untouched and the queue is the fold of `enqueue` -/
theorem filePass_queue (s : Signed) : ∀ (fw : List Wound) (t : Tree) (q₀ : List Nat),
    (∀ w ∈ fw, w.kind = .file ∨ w.kind = .closedFile) →
    processWounds s fw t q₀ = .ok (t, (fileIdx fw).foldl enqueue q₀) := by
  intro fw
  induction fw with
  | nil => intro t q₀ _; rfl
  | cons w fw ih =>
    intro t q₀ hk
    have hk' : ∀ w' ∈ fw, w'.kind = .file ∨ w'.kind = .closedFile :=
      fun w' hw' => hk w' (List.mem_cons_of_mem _ hw')
    rw [processWounds]
    rcases hk w (by simp) with h | h
    · simp only [h]
      rw [fileIdx_cons_file w fw h, List.foldl_cons]
      exact ih t _ hk'
    · simp only [h]
      rw [fileIdx_cons_other w fw (by rw [h]; intro h'; cases h')]
      exact ih t _ hk'

theorem mem_foldl_enqueue (l : List Nat) : ∀ (q₀ : List Nat) (i : Nat),
    i ∈ l.foldl enqueue q₀ ↔ i ∈ q₀ ∨ i ∈ l := by
  induction l with
  | nil => intro q₀ i; simp
  | cons a l ih =>
    intro q₀ i
    rw [List.foldl_cons, ih, mem_enqueue]
    simp only [List.mem_cons]
    constructor
    · rintro ((h | h) | h)
      · exact .inl h
      · exact .inr (.inl h)
      · exact .inr (.inr h)
    · rintro (h | h | h)
      · exact .inl (.inl h)
      · exact .inl (.inr h)
      · exact .inr h

theorem mem_fileIdx (ws : List Wound) (i : Nat) :
    i ∈ fileIdx ws ↔ ∃ w ∈ ws, w.kind = .file ∧ w.index = i := by
  simp [fileIdx, List.mem_map, List.mem_filter, and_assoc]

/-- the `i`-th signed file as a leaf -/
def fileLeaf (s : Signed) (i : Nat) : Option (Path × Node) :=
  (s.files[i]?).map fun e => (e.1, Node.file e.2)

theorem healFiles_eq (s : Signed) : ∀ (q : List Nat) (t : Tree), (∀ i ∈ q, i < s.files.length) →
    healFiles s q t = healLeaves (q.filterMap (fileLeaf s)) t := by
  intro q
  induction q with
  | nil => intro t _; rfl
  | cons i q ih =>
    intro t hq
    have hi : i < s.files.length := hq i (by simp)
    have hget : s.files[i]? = some s.files[i] := List.getElem?_eq_getElem hi
    have hfl : fileLeaf s i = some ((s.files[i]).1, Node.file (s.files[i]).2) := by
      simp [fileLeaf, hget]
    rw [List.filterMap_cons, hfl]
    simp only [healFiles, hget, healLeaves, healLeaf, bind, Except.bind]
    cases healFile t (s.files[i]).1 (s.files[i]).2 with
    | error e => rfl
    | ok t₁ => exact ih t₁ (fun j hj => hq j (List.mem_cons_of_mem _ hj))

/-- Validation followed by healing, as: heal the wounded directories in order, then a list `L` of wounded
    symlinks and files; every signed symlink or file NOT in `L` was found intact by the validator. -/
theorem validateAndHeal_decomp (bs : Nat) (hbs : 0 < bs) (maxSize : Nat) (s : Signed) (t0 : Tree)
    (ws : List Wound) (hv : validate bs maxSize s t0 = .ok ws) :
    ∃ L, (∀ e ∈ L, e ∈ leaves s) ∧ (∀ e ∈ leaves s, e ∉ L → lstat t0 e.1 = .ok e.2) ∧
      validateAndHeal bs maxSize s t0 =
        match healDirs (woundedDirs t0 s.dirs) t0 with
        | .ok t₁ =>
          (match healLeaves L t₁ with
           | .ok t₂ => .ok t₂
           | .error _ => .err "healer failed")
        | .error _ => .err "healer failed" := by
  have hv' := hv
  unfold validate at hv'
  obtain ⟨dw, hdw, hv'⟩ := outcome_bind_ok hv'
  obtain ⟨sw, hsw, hv'⟩ := outcome_bind_ok hv'
  simp only [Outcome.ok.injEq] at hv'
  generalize hfw : filePassWounds bs maxSize t0 0 s.files = fw at hv'
  have hkind : ∀ w ∈ fw, w.kind = .file ∨ w.kind = .closedFile := by
    intro w hw
    rw [← hfw] at hw
    obtain ⟨j, p, S, _, hw⟩ := (mem_filePassWounds bs maxSize t0 w s.files 0).mp hw
    exact fileWounds_kind bs hbs maxSize S (0 + j) (onDisk t0 p) w hw
  let q := (fileIdx fw).foldl enqueue []
  have hq : ∀ i, i ∈ q ↔ ∃ w ∈ fw, w.kind = .file ∧ w.index = i := by
    intro i
    rw [mem_foldl_enqueue, mem_fileIdx]
    simp
  have hqlt : ∀ i ∈ q, i < s.files.length := by
    intro i hi
    obtain ⟨w, hw, _, hwi⟩ := (hq i).mp hi
    rw [← hfw] at hw
    obtain ⟨j, p, S, hj, hw⟩ := (mem_filePassWounds bs maxSize t0 w s.files 0).mp hw
    have := (C05.file_wellformed bs hbs maxSize S (0 + j) (onDisk t0 p) w hw).2
    have hlt : j < s.files.length := (List.getElem?_eq_some_iff.mp hj).1
    omega
  refine ⟨woundedSyms t0 s.symlinks ++ q.filterMap (fileLeaf s), ?_, ?_, ?_⟩
  · intro e he
    rcases List.mem_append.mp he with he | he
    · simp only [woundedSyms, List.mem_map, List.mem_filter] at he
      obtain ⟨x, ⟨hx, _⟩, rfl⟩ := he
      simp only [leaves, List.mem_append, List.mem_map]
      exact .inl ⟨x, hx, rfl⟩
    · simp only [List.mem_filterMap, fileLeaf, Option.map_eq_some_iff] at he
      obtain ⟨i, _, x, hx, rfl⟩ := he
      simp only [leaves, List.mem_append, List.mem_map]
      exact .inr ⟨x, List.mem_of_getElem? hx, rfl⟩
  · intro e he hnot
    rw [List.mem_append, not_or] at hnot
    rcases mem_leaves he with ⟨x, hx, rfl⟩ | ⟨x, hx, rfl⟩
    · have h1 := hnot.1
      simp only [woundedSyms, List.mem_map, List.mem_filter, not_exists, not_and] at h1
      apply (symOk_iff x.2 _).mp
      cases hso : symOk x.2 (lstat t0 x.1) with
      | true => rfl
      | false =>
        exfalso
        exact h1 x ⟨hx, by simp [hso]⟩ rfl
    · obtain ⟨i, hi⟩ := List.getElem?_of_mem hx
      have hiq : i ∉ q := by
        intro hi'
        apply hnot.2
        simp only [List.mem_filterMap, fileLeaf, Option.map_eq_some_iff]
        exact ⟨i, hi', x, hi, rfl⟩
      apply Classical.byContradiction
      intro hne
      obtain ⟨w, hw, hk, hwi⟩ := filePass_detects bs hbs maxSize t0 0 s.files i x.1 x.2 hi hne
      rw [hfw] at hw
      exact hiq ((hq i).mpr ⟨w, hw, hk, by omega⟩)
  · unfold validateAndHeal
    rw [hv]
    simp only
    rw [← hv', List.append_assoc, dirPass s t0 s.dirs [] dw rfl hdw]
    cases healDirs (woundedDirs t0 s.dirs) t0 with
    | error e => rfl
    | ok t₁ =>
      simp only
      rw [symPass s t0 s.symlinks [] sw rfl hsw, healLeaves_append]
      cases healLeaves (woundedSyms t0 s.symlinks) t₁ with
      | error e => rfl
      | ok t₂ =>
        simp only
        rw [filePass_queue s fw t₂ [] hkind]
        simp only
        rw [healFiles_eq s _ t₂ hqlt]
        cases healLeaves (List.filterMap (fileLeaf s) q) t₂ <;> rfl

/-! ### assembly -/

theorem prefix_cases {q d : Path} (h : q <+: d) : q = d ∨ isPrefix q d = true := by
  have hle := h.length_le
  have ht := List.prefix_iff_eq_take.mp h
  by_cases hl : q.length = d.length
  · left
    rw [ht, hl, List.take_length]
  · right
    rw [isPrefix_iff]
    exact ⟨by omega, ht.symm⟩

/-- from the `lstat` form of the exclusion to the `get` form -/
theorem noSymDirs_of_lstat {s : Signed} (hs : WF s) {t : Tree} (hI : TInv t)
    (hno : ∀ p ∈ s.dirs, ∀ d, lstat t p ≠ .ok (.symlink d)) : NoSymDirs s t := by
  intro d hd x hx
  exact hno d hd x (lstat_of_get hI (hs.nodd (mem_allPaths_dir hd)) hx)

theorem woundedDirs_sub {t0 : Tree} {ps : List Path} : ∀ d ∈ woundedDirs t0 ps, d ∈ ps := by
  intro d hd
  exact (List.mem_filter.mp hd).1

/-- after the directory heals every signed directory is a directory -/
theorem allDirs_after {s : Signed} (hs : WF s) {t0 t₁ : Tree} (hn : NoSymDirs s t0)
    (hW : ∀ d ∈ woundedDirs t0 s.dirs, IsDir t₁ d) (hmono : ∀ q, IsDir t0 q → IsDir t₁ q) : AllDirs s t₁ := by
  intro d hd
  by_cases hw : d ∈ woundedDirs t0 s.dirs
  · exact hW d hw
  · simp only [woundedDirs, List.mem_filter, not_and, Bool.not_eq_true', Bool.not_eq_false] at hw
    have := (isDirOk_iff _).mp (by simpa using hw hd)
    exact hmono d (lstat_plain (hs.plain hn (mem_allPaths_dir hd)) this).1

/-- The healed tree: invariant, every signed directory a directory, every signed symlink and file exactly as
    signed, and everything unrelated to the signed paths untouched. -/
theorem restore_main (bs : Nat) (hbs : 0 < bs) (maxSize : Nat) (s : Signed) (t0 t' : Tree)
    (hs : WF s) (hI : TInv t0) (hn : NoSymDirs s t0) (h : validateAndHeal bs maxSize s t0 = .ok t') :
    TInv t' ∧ AllDirs s t' ∧ (∀ e ∈ leaves s, t'.get e.1 = some e.2) ∧
      (∀ q, (∀ p ∈ allPaths s, p ≠ q ∧ isPrefix p q = false ∧ isPrefix q p = false) → t'.get q = t0.get q) := by
  cases hv : validate bs maxSize s t0 with
  | err e => simp [validateAndHeal, hv] at h
  | panic e => simp [validateAndHeal, hv] at h
  | ok ws =>
    obtain ⟨L, hL, hint, heq⟩ := validateAndHeal_decomp bs hbs maxSize s t0 ws hv
    rw [heq] at h
    cases hd : healDirs (woundedDirs t0 s.dirs) t0 with
    | error e => simp [hd] at h
    | ok t₁ =>
      simp only [hd] at h
      obtain ⟨b1, _, b3, b4, b5, b6⟩ :=
        healDirs_spec hs _ t0 t₁ (fun d hd => woundedDirs_sub d hd) hI hn hd
      have hA₁ := allDirs_after hs hn b3 b4
      obtain ⟨t₂, h₂, c1, c2, c3, c4⟩ := healLeaves_spec hs L t₁ hL b1 hA₁
      simp only [h₂, Outcome.ok.injEq] at h
      subst h
      refine ⟨c1, c2, ?_, ?_⟩
      · intro e he
        by_cases heL : e ∈ L
        · exact c4 e heL
        · have hp := leaf_mem_allPaths he
          have h0 := (lstat_plain (hs.plain hn hp) (hint e he heL)).1
          have h1 := b5 e.1 e.2 (hs.leaf_not_dir he) h0
          rw [c3 e.1]
          · exact h1
          · intro b hb
            refine ⟨fun hbe => heL ?_, hs.leaf_not_below (hL b hb) hp⟩
            have := hs.leaf_fun he (hL b hb) hbe
            rw [this]; exact hb
      · intro q hq
        rw [c3 q, b6 q]
        · intro d hd hpre
          have hq' := hq d (mem_allPaths_dir (woundedDirs_sub d hd))
          rcases prefix_cases hpre with h | h
          · exact hq'.1 h.symm
          · rw [hq'.2.2] at h; cases h
        · intro e he
          have hq' := hq e.1 (leaf_mem_allPaths (hL e he))
          exact ⟨fun h => hq'.1 h.symm, hq'.2.1⟩

/-- directories are listed parents-first (mirrors `Wharf.C06.ParentsFirst`) -/
def PFirst (s : Signed) : Prop :=
  ∀ i (h : i < s.dirs.length), ∀ j, 0 < j → j < (s.dirs[i]).length → (s.dirs[i]).take j ∈ s.dirs.take i

theorem ready_of_pfirst {s : Signed} (hs : WF s) (hpf : PFirst s) {t0 : Tree} (hn : NoSymDirs s t0) :
    Ready t0 (woundedDirs t0 s.dirs) := by
  intro W₁ d W₂ hW j hj1 hj2
  unfold woundedDirs at hW
  obtain ⟨l₁, l₂, hl, hf₁, hf₂⟩ := List.filter_eq_append_iff.mp hW
  obtain ⟨l₃, l₄, hl₂, hnot, _, _⟩ := List.filter_eq_cons_iff.mp hf₂
  have hsd : s.dirs = (l₁ ++ l₃) ++ d :: l₄ := by rw [hl, hl₂]; simp
  have hi : (l₁ ++ l₃).length < s.dirs.length := by rw [hsd]; simp
  have hgi : s.dirs[(l₁ ++ l₃).length] = d := by
    have : s.dirs[(l₁ ++ l₃).length]? = some d := by rw [hsd]; simp
    exact (List.getElem?_eq_some_iff.mp this).2
  have := hpf _ hi j hj1 (by rw [hgi]; exact hj2)
  rw [hgi] at this
  have htake : s.dirs.take (l₁ ++ l₃).length = l₁ ++ l₃ := by
    rw [hsd]; exact List.take_left
  rw [htake] at this
  have hmem : d.take j ∈ s.dirs := by rw [hsd]; exact List.mem_append_left _ this
  have intact : isDirOk (lstat t0 (d.take j)) = true → IsDir t0 (d.take j) := by
    intro h
    exact (lstat_plain (hs.plain hn (mem_allPaths_dir hmem)) ((isDirOk_iff _).mp h)).1
  cases hok : isDirOk (lstat t0 (d.take j)) with
  | true => exact .inl (intact hok)
  | false =>
    rcases List.mem_append.mp this with h | h
    · right
      rw [← hf₁]
      exact List.mem_filter.mpr ⟨h, by simp [hok]⟩
    · exact absurd (by simp [hok]) (hnot _ h)

theorem complete_main (bs : Nat) (hbs : 0 < bs) (maxSize : Nat) (s : Signed) (t0 : Tree) (ws : List Wound)
    (hs : WF s) (hpf : PFirst s) (hI : TInv t0) (hn : NoSymDirs s t0)
    (hv : validate bs maxSize s t0 = .ok ws) : ∃ t', validateAndHeal bs maxSize s t0 = .ok t' := by
  obtain ⟨L, hL, _, heq⟩ := validateAndHeal_decomp bs hbs maxSize s t0 ws hv
  obtain ⟨t₁, hd⟩ := healDirs_ok hs _ t0 (fun d hd => woundedDirs_sub d hd) hI hn (ready_of_pfirst hs hpf hn)
  obtain ⟨b1, _, b3, b4, _, _⟩ :=
    healDirs_spec hs _ t0 t₁ (fun d hd => woundedDirs_sub d hd) hI hn hd
  obtain ⟨t₂, h₂, _⟩ := healLeaves_spec hs L t₁ hL b1 (allDirs_after hs hn b3 b4)
  exact ⟨t₂, by rw [heq]; simp only [hd, h₂]⟩

/-! ### the F15 witness (a signed directory replaced by a symlink)

  `decide` cannot evaluate `splitDest` (`String.splitOn` is defined by well-founded recursion), so the one
  symlink that validation follows is resolved by hand; everything else is evaluated. -/

theorem splitOn_b : "b".splitOn "/" = ["b"] := by
  unfold String.splitOn
  rw [if_neg (by decide +kernel)]
  rw [String.splitOnAux]
  rw [if_neg (by decide +kernel)]
  rw [if_neg (by decide +kernel)]
  rw [String.splitOnAux]
  rw [if_pos (by decide +kernel)]
  decide +kernel

theorem splitDest_b : splitDest "b" = ["b"] := by
  unfold splitDest
  rw [splitOn_b]
  decide

theorem startsWith_b : ("b".startsWith "/") = false := by decide +kernel

theorem resolve_symlink_step (t : Tree) (fuel : Nat) (done : Path) (c c2 : String) (rest : Path) (dest : String)
    (hc : c ≠ "..") (hg : t.get (done ++ [c]) = some (.symlink dest)) (hs : dest.startsWith "/" = false) :
    resolve t (fuel + 1) done (c :: c2 :: rest) = resolve t fuel done (splitDest dest ++ c2 :: rest) := by
  simp [resolve, hc, hg, hs]

def f15Signed : Signed := { dirs := [["a"]], files := [(["a", "f"], [1, 2, 3])] }
def f15Tree : Tree :=
  { entries := [(["b"], .dir), (["b", "f"], .file [1, 2, 3]), (["a"], .symlink "b")] }

theorem f15_lstat_a : lstat f15Tree ["a"] = .ok (.symlink "b") := by rfl

/-- the signed file is found THROUGH the symlink -/
theorem f15_lstat_af : lstat f15Tree ["a", "f"] = .ok (.file [1, 2, 3]) := by
  have hc : canon f15Tree ["a", "f"] = .ok ["b", "f"] := by
    show resolve f15Tree (39 + 1) [] ("a" :: "f" :: []) = _
    rw [resolve_symlink_step _ _ _ _ _ _ "b" (by decide) (by rfl) startsWith_b, splitDest_b]
    rfl
  unfold lstat
  rw [hc]
  rfl

/-- … so validation reports the directory wound only -/
theorem f15_validate : validate 2 100 f15Signed f15Tree =
    .ok [⟨.dir, 0, 0, 0⟩, ⟨.closedFile, 0, 0, 2⟩, ⟨.closedFile, 0, 2, 3⟩] := by
  simp only [validate, f15Signed, dirWounds, symlinkWounds, filePassWounds, onDisk, f15_lstat_a, f15_lstat_af,
    Outcome.bind]
  rfl

end Wharf.Heal
