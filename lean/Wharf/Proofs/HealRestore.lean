/-
  Helper lemmas for C06 (a)+(b): the heal steps over the abstract filesystem.

  Layers: (1) `get`-extensional descriptions of the primitive tree edits (`erase`, `eraseTree`, `set`) and
  preservation of the tree invariant `TInv`; (2) `canon`/`lstat` along a path without symlinks;
  (3) the heal steps `healDir` (three cases, `healDir_cases`), `healSymlink`, `healFile`; (4) well-formed signed
  builds; (5) `healBelow` — what a directory wound does when something else stands at the directory's path
  (`healDir_replaced`, the repair of finding F15); (6) the evaluation lemmas for the F15 instances.
  The restoration theorems themselves are proved for every interleaving in Proofs/HealTS.lean; the
  validator-first schedule of `validateAndHeal` is one of them (`sequential_reach`).
-/
import Wharf.Model.Heal
import Wharf.Proofs.Archive
import Wharf.Proofs.TreeValidate
import Wharf.Proofs.Heal

namespace Wharf.Heal
open Wharf Wharf.FS Wharf.Validate Wharf.TreeValidate Wharf.Archive

/-! ### paths -/

theorem isPrefix_iff (p q : Path) : isPrefix p q = true ↔ p.length < q.length ∧ q.take p.length = p := by
  simp [isPrefix]

theorem dropLast_ne_self {p : Path} (hp : p ≠ []) : p.dropLast ≠ p := by
  intro h
  have := congrArg List.length h
  have hl : 0 < p.length := List.length_pos_iff.mpr hp
  simp at this
  omega

theorem isPrefix_dropLast_self {p : Path} (hp : p ≠ []) : isPrefix p.dropLast p = true := by
  rw [isPrefix_iff]
  have hl : 0 < p.length := List.length_pos_iff.mpr hp
  refine ⟨by simp; omega, ?_⟩
  rw [List.dropLast_eq_take]
  simp

theorem not_isPrefix_dropLast (p : Path) : isPrefix p p.dropLast = false := by
  cases h : isPrefix p p.dropLast with
  | false => rfl
  | true =>
    rw [isPrefix_iff] at h
    simp at h
    omega

theorem below_of_parent_eq {p q : Path} (hq : q ≠ []) (h : q.dropLast = p) : isPrefix p q = true := by
  subst h; exact isPrefix_dropLast_self hq

theorem below_of_parent_below {p q : Path} (h : isPrefix p q.dropLast = true) : isPrefix p q = true := by
  rw [isPrefix_iff] at h ⊢
  obtain ⟨h1, h2⟩ := h
  simp at h1
  refine ⟨by omega, ?_⟩
  rw [List.dropLast_eq_take, List.take_take, Nat.min_eq_left (by omega)] at h2
  exact h2

/-! ### `get` of edited trees -/

theorem get_nil (t : Tree) : t.get [] = some .dir := by simp [Tree.get]

theorem get_filter (t : Tree) (f : Path → Bool) {q : Path} (hq : q ≠ []) :
    ({ entries := t.entries.filter (fun e => f e.1) } : Tree).get q = if f q = true then t.get q else none := by
  simp only [Tree.get, if_neg hq, List.find?_filter]
  by_cases hf : f q = true
  · rw [if_pos hf]
    congr 2
    funext a
    by_cases h : a.1 = q
    · simp [h, hf]
    · simp [h]
  · rw [if_neg hf]
    have : t.entries.find? (fun a => decide (f a.1 = true ∧ (a.1 == q) = true)) = none := by
      rw [List.find?_eq_none]
      intro a _
      by_cases h : a.1 = q
      · simp [h, hf]
      · simp [h]
    simpa using this

theorem get_erase (t : Tree) (p : Path) {q : Path} (hq : q ≠ []) :
    (t.erase p).get q = if q = p then none else t.get q := by
  have := get_filter t (fun x => x != p) hq
  simp only [Tree.erase]
  rw [this]
  by_cases h : q = p <;> simp [h]

theorem get_eraseTree (t : Tree) (p : Path) {q : Path} (hq : q ≠ []) :
    (t.eraseTree p).get q = if q = p ∨ isPrefix p q = true then none else t.get q := by
  have := get_filter t (fun x => x != p && !isPrefix p x) hq
  simp only [Tree.eraseTree]
  rw [this]
  by_cases h : q = p
  · simp [h]
  · by_cases h2 : isPrefix p q = true <;> simp [h, h2]

theorem get_set (t : Tree) {p : Path} (hp : p ≠ []) (n : Node) (q : Path) :
    (t.set p n).get q = if q = p then some n else t.get q := by
  by_cases hq : q = []
  · subst hq
    rw [if_neg (fun h => hp h.symm)]
    simp [Tree.get]
  · have he := get_erase t p hq
    simp only [Tree.get, if_neg hq, Tree.set, List.find?_append] at he ⊢
    by_cases h : q = p
    · subst h
      rw [if_pos rfl] at he
      rw [if_pos rfl]
      simp only [Option.map_eq_none_iff] at he
      simp [he]
    · rw [if_neg h] at he
      rw [if_neg h, ← he]
      have : ((p, n).1 == q) = false := by simpa using fun h' => h h'.symm
      simp [List.find?, this]

/-! ### the tree invariant under edits -/

/-- an entry's parent is a directory (as a statement about `get`) -/
theorem parent_isDir {t : Tree} (hI : TInv t) {q : Path} {x : Node} (h : t.get q = some x) :
    IsDir t q.dropLast := by
  by_cases hq : q = []
  · subst hq; exact isDir_nil t
  · exact hI.parent _ (get_mem hq h)

/-- anything with an entry below it is a directory -/
theorem isDir_of_below {t : Tree} (hI : TInv t) {p q : Path} {x : Node} (h : t.get q = some x)
    (hpre : isPrefix p q = true) : IsDir t p := by
  rw [isPrefix_iff] at hpre
  have hd := parent_isDir hI h
  have := isDir_take hI hd p.length
  rw [List.dropLast_eq_take, List.take_take, Nat.min_eq_left (by omega), hpre.2] at this
  exact this

theorem get_below_none {t : Tree} (hI : TInv t) {p q : Path} (hp : ¬ IsDir t p)
    (hpre : isPrefix p q = true) : t.get q = none := by
  cases h : t.get q with
  | none => rfl
  | some x => exact absurd (isDir_of_below hI h hpre) hp

theorem tinv_filter {t : Tree} (hI : TInv t) (f : Path → Bool)
    (hcl : ∀ e ∈ t.entries, f e.1 = true → e.1.dropLast = [] ∨ f e.1.dropLast = true) :
    TInv { entries := t.entries.filter (fun e => f e.1) } := by
  constructor
  · intro e he
    exact hI.ne e (List.mem_filter.mp he).1
  · intro e he
    obtain ⟨h1, h2⟩ := List.mem_filter.mp he
    rw [get_filter t f (hI.ne e h1), if_pos h2]
    exact hI.get e h1
  · intro e he
    obtain ⟨h1, h2⟩ := List.mem_filter.mp he
    rcases hcl e h1 h2 with h | h
    · rw [h]; exact isDir_nil _
    · by_cases hne : e.1.dropLast = []
      · rw [hne]; exact isDir_nil _
      · unfold IsDir
        rw [get_filter t f hne, if_pos h]
        exact hI.parent e h1

theorem tinv_eraseTree {t : Tree} (hI : TInv t) (p : Path) : TInv (t.eraseTree p) := by
  have := tinv_filter hI (fun x => x != p && !isPrefix p x) (by
    intro e _ hk
    right
    simp only [Bool.and_eq_true, bne_iff_ne, ne_eq, Bool.not_eq_true'] at hk ⊢
    obtain ⟨h1, h2⟩ := hk
    by_cases he : e.1 = []
    · rw [he] at h1 h2 ⊢
      exact ⟨by simpa using h1, by simpa using h2⟩
    constructor
    · intro h
      rw [below_of_parent_eq he h] at h2
      cases h2
    · cases hb : isPrefix p e.1.dropLast with
      | false => rfl
      | true =>
        rw [below_of_parent_below hb] at h2
        cases h2)
  exact this

/-- erasing a single entry that has nothing below it -/
theorem tinv_erase {t : Tree} (hI : TInv t) {p : Path} (hp : ¬ IsDir t p) : TInv (t.erase p) := by
  have := tinv_filter hI (fun x => x != p) (by
    intro e he _
    right
    simp only [bne_iff_ne, ne_eq]
    intro h
    apply hp
    rw [← h]
    exact hI.parent e he)
  exact this

/-- placing a node at a path that has nothing below it and whose parent is a directory -/
theorem tinv_set {t : Tree} (hI : TInv t) {p : Path} (hp : p ≠ []) (hpar : IsDir t p.dropLast)
    (hleaf : ¬ IsDir t p) (n : Node) : TInv (t.set p n) := by
  constructor
  · intro e he
    simp only [Tree.set, Tree.erase, List.mem_append, List.mem_filter, List.mem_singleton] at he
    rcases he with ⟨he, _⟩ | rfl
    · exact hI.ne e he
    · exact hp
  · intro e he
    simp only [Tree.set, Tree.erase, List.mem_append, List.mem_filter, List.mem_singleton] at he
    rw [get_set t hp]
    rcases he with ⟨he, hne⟩ | rfl
    · have : e.1 ≠ p := by simpa using hne
      rw [if_neg this]
      exact hI.get e he
    · rw [if_pos rfl]
  · intro e he
    simp only [Tree.set, Tree.erase, List.mem_append, List.mem_filter, List.mem_singleton] at he
    unfold IsDir
    rw [get_set t hp]
    rcases he with ⟨he, _⟩ | rfl
    · have hd := hI.parent e he
      have : e.1.dropLast ≠ p := by
        intro h; rw [h] at hd; exact hleaf hd
      rw [if_neg this]
      exact hd
    · rw [if_neg (dropLast_ne_self hp)]
      exact hpar

/-! ### `canon` and `lstat` along a path without symlinks -/

/-- no proper, non-empty prefix of `done ++ rest` beyond `done` is a symlink -/
def PlainFrom (t : Tree) (done rest : Path) : Prop :=
  ∀ j, 1 ≤ j → j < rest.length → ∀ d, t.get (done ++ rest.take j) ≠ some (.symlink d)

theorem resolve_plain (t : Tree) : ∀ (rest done : Path) (fuel : Nat) (q : Path),
    ".." ∉ rest.dropLast → PlainFrom t done rest → resolve t fuel done rest = .ok q →
    q = done ++ rest ∧ ∀ j, 1 ≤ j → j < rest.length → IsDir t (done ++ rest.take j) := by
  intro rest
  induction rest with
  | nil =>
    intro done fuel q _ _ h
    cases fuel with
    | zero => simp [resolve] at h
    | succ f =>
      simp only [resolve, Except.ok.injEq] at h
      exact ⟨by simp [h], by intro j h1 h2; simp at h2⟩
  | cons c r ih =>
    intro done fuel q hdd hpl h
    cases fuel with
    | zero => simp [resolve] at h
    | succ f =>
      cases r with
      | nil =>
        simp only [resolve, Except.ok.injEq] at h
        exact ⟨h.symm, by intro j h1 h2; simp at h2; omega⟩
      | cons c2 r2 =>
        have hc : c ≠ ".." := by
          intro h; apply hdd; simp [h]
        simp only [resolve, if_neg hc] at h
        cases hg : t.get (done ++ [c]) with
        | none => simp [hg] at h
        | some x =>
          cases x with
          | file d => simp [hg] at h
          | symlink d =>
            exfalso
            exact hpl 1 (by omega) (by simp) d (by simpa using hg)
          | dir =>
            simp only [hg] at h
            have := ih (done ++ [c]) f q (by
                intro h; apply hdd
                have : (c :: c2 :: r2).dropLast = c :: (c2 :: r2).dropLast := rfl
                rw [this]; exact List.mem_cons_of_mem _ h)
              (by
                intro j hj1 hj2 d
                have := hpl (j + 1) (by omega) (by simp at hj2 ⊢; omega) d
                simpa using this) h
            obtain ⟨hq, hdirs⟩ := this
            refine ⟨by simpa using hq, ?_⟩
            intro j hj1 hj2
            cases j with
            | zero => omega
            | succ j =>
              cases j with
              | zero => simpa [IsDir] using hg
              | succ j =>
                have := hdirs (j + 1) (by omega) (by simp at hj2 ⊢; omega)
                simpa using this

/-- no proper non-empty prefix of `p` is a symlink, and `p` is free of `".."` -/
def Plain (t : Tree) (p : Path) : Prop :=
  ".." ∉ p ∧ ∀ j, 1 ≤ j → j < p.length → ∀ d, t.get (p.take j) ≠ some (.symlink d)

theorem canon_plain {t : Tree} {p q : Path} (hp : Plain t p) (h : canon t p = .ok q) :
    q = p ∧ IsDir t p.dropLast := by
  unfold canon at h
  have := resolve_plain t p [] _ q (fun h => hp.1 (mem_of_mem_dropLast h))
    (by intro j h1 h2 d; simpa using hp.2 j h1 h2 d) h
  obtain ⟨hq, hd⟩ := this
  refine ⟨by simpa using hq, ?_⟩
  by_cases hl : p.length ≤ 1
  · have : p.dropLast = [] := by
      apply List.eq_nil_of_length_eq_zero
      simp; omega
    rw [this]; exact isDir_nil t
  · have := hd (p.length - 1) (by omega) (by omega)
    rw [List.dropLast_eq_take]
    simpa using this

theorem lstat_plain {t : Tree} {p : Path} {n : Node} (hp : Plain t p) (h : lstat t p = .ok n) :
    t.get p = some n ∧ IsDir t p.dropLast := by
  unfold lstat at h
  cases hc : canon t p with
  | error e => simp [hc, bind, Except.bind] at h
  | ok q =>
    obtain ⟨hq, hd⟩ := canon_plain hp hc
    subst hq
    simp only [hc, bind, Except.bind] at h
    cases hg : t.get q with
    | none => simp [hg] at h
    | some x =>
      simp only [hg, Except.ok.injEq] at h
      subst h
      exact ⟨rfl, hd⟩

/-- `lstat` when the parent is a directory: a plain lookup -/
theorem lstat_of_parent {t : Tree} (hI : TInv t) {p : Path} (hd : IsDir t p.dropLast) (hdd : ".." ∉ p) :
    lstat t p = match t.get p with | some n => .ok n | none => .error .enoent := by
  have hc := canon_ok hI hd (fun h => hdd (mem_of_mem_dropLast h))
  simp only [lstat, hc, bind, Except.bind]
  cases t.get p <;> rfl

theorem lstat_of_get {t : Tree} (hI : TInv t) {p : Path} {n : Node} (hdd : ".." ∉ p)
    (h : t.get p = some n) : lstat t p = .ok n := by
  rw [lstat_of_parent hI (parent_isDir hI h) hdd, h]

/-! ### `mkdirs` along a path without symlinks -/

theorem statFollow_at {t : Tree} (hI : TInv t) {q : Path} (hd : IsDir t q.dropLast) (hdd : ".." ∉ q.dropLast) :
    statFollow t 8 q = match t.get q with
      | none => .error .enoent
      | some (.symlink dest) =>
        if dest.startsWith "/" then .error .enoent else statFollow t 7 (q.dropLast ++ splitDest dest)
      | some n => .ok (q, n) := by
  have hc := canon_ok hI hd hdd
  simp only [statFollow, hc, bind, Except.bind]
  cases t.get q with
  | none => rfl
  | some n => cases n <;> rfl

/-- What a successful `mkdirAll` along a symlink-free path does: every prefix becomes a directory, nothing
    that exists is changed, nothing else is created. -/
theorem mkdirAll_spec : ∀ (rest : Path) (t : Tree) (done : Path) (fuel : Nat) (t' : Tree),
    TInv t → IsDir t done → ".." ∉ done → ".." ∉ rest →
    (∀ j, 1 ≤ j → j ≤ rest.length → ∀ d, t.get (done ++ rest.take j) ≠ some (.symlink d)) →
    mkdirAll t fuel done rest = .ok t' →
    TInv t' ∧ (∀ j, j ≤ rest.length → IsDir t' (done ++ rest.take j)) ∧
      (∀ q x, t.get q = some x → t'.get q = some x) ∧
      (∀ q, (∀ j, 1 ≤ j → j ≤ rest.length → q ≠ done ++ rest.take j) → t'.get q = t.get q) := by
  intro rest
  induction rest with
  | nil =>
    intro t done fuel t' hI hd _ _ _ h
    cases fuel with
    | zero => simp [mkdirAll] at h
    | succ f =>
      simp only [mkdirAll, Except.ok.injEq] at h
      subst h
      exact ⟨hI, by intro j _; simpa using hd, fun _ _ h => h, fun _ _ => rfl⟩
  | cons c rest ih =>
    intro t done fuel t' hI hd hdd hdr hpl h
    cases fuel with
    | zero => simp [mkdirAll] at h
    | succ f =>
      have hc : c ≠ ".." := by intro h; apply hdr; simp [h]
      have hdr' : ".." ∉ rest := fun h => hdr (List.mem_cons_of_mem _ h)
      have hdl : (done ++ [c]).dropLast = done := by simp
      have hdd' : ".." ∉ done ++ [c] := by
        intro h
        rcases List.mem_append.mp h with h | h
        · exact hdd h
        · simp at h; exact hc h.symm
      have hne : done ++ [c] ≠ [] := by simp
      have hsf := statFollow_at hI (q := done ++ [c]) (by rw [hdl]; exact hd) (by rw [hdl]; exact hdd)
      have hcan : canon t (done ++ [c]) = .ok (done ++ [c]) :=
        canon_ok hI (by rw [hdl]; exact hd) (by rw [hdl]; exact hdd)
      simp only [mkdirAll] at h
      -- transfer of the conclusion from the recursive call
      have wrap : ∀ (t₁ : Tree), (∀ q x, t.get q = some x → t₁.get q = some x) →
          (∀ q, q ≠ done ++ [c] → t₁.get q = t.get q) →
          (TInv t' ∧ (∀ j, j ≤ rest.length → IsDir t' ((done ++ [c]) ++ rest.take j)) ∧
            (∀ q x, t₁.get q = some x → t'.get q = some x) ∧
            (∀ q, (∀ j, 1 ≤ j → j ≤ rest.length → q ≠ (done ++ [c]) ++ rest.take j) → t'.get q = t₁.get q)) →
          TInv t' ∧ (∀ j, j ≤ (c :: rest).length → IsDir t' (done ++ (c :: rest).take j)) ∧
            (∀ q x, t.get q = some x → t'.get q = some x) ∧
            (∀ q, (∀ j, 1 ≤ j → j ≤ (c :: rest).length → q ≠ done ++ (c :: rest).take j) →
              t'.get q = t.get q) := by
        intro t₁ hmono hother ⟨h1, h2, h3, h4⟩
        refine ⟨h1, ?_, fun q x hq => h3 q x (hmono q x hq), ?_⟩
        · intro j hj
          cases j with
          | zero =>
            simp only [List.take_zero, List.append_nil]
            exact h3 _ _ (hmono _ _ hd)
          | succ j =>
            have := h2 j (by simpa using hj)
            simpa using this
        · intro q hq
          rw [h4 q, hother q]
          · have := hq 1 (by omega) (by simp)
            simpa using this
          · intro j hj1 hj2
            have := hq (j + 1) (by omega) (by simp; omega)
            simpa using this
      have hpl' : ∀ (t₁ : Tree), (∀ q, q ≠ done ++ [c] → t₁.get q = t.get q) →
          ∀ j, 1 ≤ j → j ≤ rest.length → ∀ d, t₁.get ((done ++ [c]) ++ rest.take j) ≠ some (.symlink d) := by
        intro t₁ hother j hj1 hj2 d
        rw [hother]
        · have := hpl (j + 1) (by omega) (by simp; omega) d
          simpa using this
        · intro he
          have := congrArg List.length he
          simp only [List.length_append, List.length_take, List.length_singleton] at this
          omega
      cases hg : t.get (done ++ [c]) with
      | none =>
        rw [hg] at hsf
        simp only [hsf, hcan] at h
        have hnd : ¬ IsDir t (done ++ [c]) := by rw [IsDir, hg]; intro h; cases h
        have hI₁ : TInv (t.set (done ++ [c]) .dir) := tinv_set hI hne (by rw [hdl]; exact hd) hnd _
        have hother : ∀ q, q ≠ done ++ [c] → (t.set (done ++ [c]) .dir).get q = t.get q := by
          intro q hq; rw [get_set t hne, if_neg hq]
        have hmono : ∀ q x, t.get q = some x → (t.set (done ++ [c]) .dir).get q = some x := by
          intro q x hq
          rw [hother q]
          · exact hq
          · intro he; rw [he, hg] at hq; cases hq
        exact wrap _ hmono hother (ih _ _ _ _ hI₁ (by rw [IsDir, get_set t hne, if_pos rfl]) hdd' hdr'
          (hpl' _ hother) h)
      | some x =>
        rw [hg] at hsf
        cases x with
        | symlink d =>
          exfalso
          exact hpl 1 (by omega) (by simp) d (by simpa using hg)
        | file d =>
          simp only [hsf] at h
          cases h
        | dir =>
          simp only [hsf] at h
          exact wrap t (fun _ _ h => h) (fun _ _ => rfl) (ih _ _ _ _ hI hg hdd' hdr' (hpl' t (fun _ _ => rfl)) h)

theorem prefix_iff_take {q d : Path} : q <+: d ↔ ∃ j, j ≤ d.length ∧ q = d.take j := by
  constructor
  · intro h
    exact ⟨q.length, h.length_le, List.prefix_iff_eq_take.mp h⟩
  · rintro ⟨j, _, rfl⟩
    exact List.take_prefix _ _

/-- no non-empty prefix of `p`, `p` included, is a symlink, and `p` is free of `".."` -/
def PlainAll (t : Tree) (p : Path) : Prop :=
  ".." ∉ p ∧ ∀ j, 1 ≤ j → j ≤ p.length → ∀ d, t.get (p.take j) ≠ some (.symlink d)

theorem PlainAll.plain {t : Tree} {p : Path} (h : PlainAll t p) : Plain t p :=
  ⟨h.1, fun j h1 h2 => h.2 j h1 (Nat.le_of_lt h2)⟩

theorem mkdirs_spec {t t' : Tree} {d : Path} (hI : TInv t) (hp : PlainAll t d) (h : mkdirs t d = .ok t') :
    TInv t' ∧ (∀ q, q <+: d → IsDir t' q) ∧ (∀ q x, t.get q = some x → t'.get q = some x) ∧
      (∀ q, ¬ q <+: d → t'.get q = t.get q) := by
  unfold mkdirs at h
  obtain ⟨h1, h2, h3, h4⟩ := mkdirAll_spec d t [] _ t' hI (isDir_nil t) (by simp) hp.1
    (by intro j hj1 hj2 x; simpa using hp.2 j hj1 hj2 x) h
  refine ⟨h1, ?_, h3, ?_⟩
  · intro q hq
    obtain ⟨j, hj, rfl⟩ := prefix_iff_take.mp hq
    simpa using h2 j hj
  · intro q hq
    apply h4
    intro j _ hj2 he
    apply hq
    rw [he]
    simpa using List.take_prefix j d

/-! ### healing a directory -/

theorem remove_nondir {t : Tree} (hI : TInv t) {p : Path} (hd : IsDir t p.dropLast) (hdd : ".." ∉ p)
    {x : Node} (hg : t.get p = some x) (hx : x ≠ .dir) : remove t p = .ok (t.erase p) := by
  have hc := canon_ok hI hd (fun h => hdd (mem_of_mem_dropLast h))
  simp only [remove, hc, bind, Except.bind, hg]

/-- What `healDir` amounts to on a path without symlinks on the way (`Plain`): the directory is there and
    nothing happens; or `lstat` fails and the directory and its missing ancestors are created (`mkdirs`); or
    something that is not a directory stands at the path itself (its parent being a directory) — the case in
    which `healBelow` runs, see `healDir_replaced`. -/
theorem healDir_cases (s : Signed) {t : Tree} (hI : TInv t) {p : Path} (hp : Plain t p) (k : Nat)
    (q : List Nat) :
    (IsDir t p ∧ healDir s (k + 1) t q p = .ok (t, q)) ∨
    (PlainAll t p ∧ ¬ IsDir t p ∧ healDir s (k + 1) t q p =
      match mkdirs t p with
      | .ok t₁ => .ok (t₁, q)
      | .error e => .error e) ∨
    (∃ n, n ≠ .dir ∧ t.get p = some n ∧ IsDir t p.dropLast) := by
  cases hl : lstat t p with
  | error e =>
    right; left
    refine ⟨⟨hp.1, ?_⟩, ?_, ?_⟩
    · intro j hj1 hj2 x hx
      by_cases hj : j = p.length
      · subst hj
        rw [List.take_length] at hx
        rw [lstat_of_get hI hp.1 hx] at hl
        cases hl
      · exact hp.2 j hj1 (by omega) x hx
    · intro hd
      rw [lstat_of_get hI hp.1 hd] at hl
      cases hl
    · simp only [healDir, hl]
      cases mkdirs t p <;> rfl
  | ok n =>
    obtain ⟨hg, hpar⟩ := lstat_plain hp hl
    cases n with
    | dir => exact .inl ⟨hg, by simp only [healDir, hl]⟩
    | file x => exact .inr (.inr ⟨.file x, (by intro h; cases h), hg, hpar⟩)
    | symlink x => exact .inr (.inr ⟨.symlink x, (by intro h; cases h), hg, hpar⟩)

/-- `os.Remove(path)`, `os.MkdirAll(path)` where something that is not a directory stands at `p` (its parent
    being a directory): both succeed, and the result is `t` with an empty directory at `p`. -/
theorem replace_by_dir {t : Tree} (hI : TInv t) {p : Path} (hne : p ≠ []) (hdd : ".." ∉ p)
    (hpar : IsDir t p.dropLast) {n : Node} (hg : t.get p = some n) (hn : n ≠ .dir) :
    remove t p = .ok (t.erase p) ∧ mkdirs (t.erase p) p = .ok ((t.erase p).set p .dir) ∧
      TInv ((t.erase p).set p .dir) ∧
      ∀ x, ((t.erase p).set p .dir).get x = if x = p then some .dir else t.get x := by
  have hdd' : ".." ∉ p.dropLast := fun h => hdd (mem_of_mem_dropLast h)
  have hnd : ¬ IsDir t p := by rw [IsDir, hg]; intro h; cases h; exact hn rfl
  have hI₁ : TInv (t.erase p) := tinv_erase hI hnd
  have hpar₁ : IsDir (t.erase p) p.dropLast := by
    by_cases h0 : p.dropLast = []
    · rw [h0]; exact isDir_nil _
    · rw [IsDir, get_erase t p h0, if_neg (dropLast_ne_self hne)]
      exact hpar
  have hnd₁ : ¬ IsDir (t.erase p) p := by
    rw [IsDir, get_erase t p hne, if_pos rfl]; intro h; cases h
  refine ⟨remove_nondir hI hpar hdd hg hn, mkdirs_new hI₁ ⟨hne, ?_, hpar₁, hdd'⟩,
    tinv_set hI₁ hne hpar₁ hnd₁ _, ?_⟩
  · intro e he
    simp only [Tree.erase, List.mem_filter, bne_iff_ne, ne_eq] at he
    exact he.2
  · intro x
    rw [get_set _ hne]
    by_cases hx : x = p
    · rw [if_pos hx, if_pos hx]
    · rw [if_neg hx, if_neg hx]
      by_cases hx0 : x = []
      · subst hx0; simp [get_nil]
      · rw [get_erase t p hx0, if_neg hx]

/-! ### healing a symlink or a file: clear the path, then place the node -/

/-- `t'` is `t` with node `n` at `p`, nothing below `p`, and everything else as it was. -/
structure StepAt (t : Tree) (p : Path) (n : Node) (t' : Tree) : Prop where
  tinv : TInv t'
  at_ : t'.get p = some n
  below : ∀ q, isPrefix p q = true → t'.get q = none
  other : ∀ q, q ≠ p → isPrefix p q = false → t'.get q = t.get q

/-- `c` is `t` with whatever was at or below `p` cleared away, except possibly a regular file at `p`. -/
structure Cleared (t : Tree) (p : Path) (c : Tree) : Prop where
  tinv : TInv c
  at_ : c.get p = none ∨ ∃ x, c.get p = some (.file x)
  below : ∀ q, isPrefix p q = true → c.get q = none
  other : ∀ q, q ≠ p → isPrefix p q = false → c.get q = t.get q

theorem cleared_self {t : Tree} (hI : TInv t) {p : Path}
    (h : t.get p = none ∨ ∃ x, t.get p = some (.file x)) : Cleared t p t := by
  refine ⟨hI, h, ?_, fun _ _ _ => rfl⟩
  intro q hq
  apply get_below_none hI _ hq
  rw [IsDir]
  rcases h with h | ⟨x, h⟩ <;> rw [h] <;> intro h' <;> cases h'

theorem cleared_erase {t : Tree} (hI : TInv t) {p : Path} (hp : p ≠ []) (hnd : ¬ IsDir t p) :
    Cleared t p (t.erase p) := by
  refine ⟨tinv_erase hI hnd, .inl (by rw [get_erase t p hp, if_pos rfl]), ?_, ?_⟩
  · intro q hq
    have hq0 : q ≠ [] := by
      intro h; subst h; simp [isPrefix] at hq
    have hqp : q ≠ p := by
      intro h; subst h; simp [isPrefix] at hq
    rw [get_erase t p hq0, if_neg hqp]
    exact get_below_none hI hnd hq
  · intro q hq _
    by_cases hq0 : q = []
    · subst hq0; simp [get_nil]
    · rw [get_erase t p hq0, if_neg hq]

theorem cleared_eraseTree {t : Tree} (hI : TInv t) {p : Path} (hp : p ≠ []) :
    Cleared t p (t.eraseTree p) := by
  refine ⟨tinv_eraseTree hI p, .inl (by rw [get_eraseTree t p hp, if_pos (.inl rfl)]), ?_, ?_⟩
  · intro q hq
    have hq0 : q ≠ [] := by
      intro h; subst h; simp [isPrefix] at hq
    rw [get_eraseTree t p hq0, if_pos (.inr hq)]
  · intro q hq hb
    by_cases hq0 : q = []
    · subst hq0; simp [get_nil]
    · rw [get_eraseTree t p hq0, if_neg]
      rintro (h | h)
      · exact hq h
      · rw [hb] at h; cases h

theorem Cleared.parent {t c : Tree} {p : Path} (h : Cleared t p c) (hp : p ≠ []) (hpar : IsDir t p.dropLast) :
    IsDir c p.dropLast := by
  rw [IsDir, h.other _ (dropLast_ne_self hp) (not_isPrefix_dropLast p)]
  exact hpar

theorem Cleared.notDir {t c : Tree} {p : Path} (h : Cleared t p c) : ¬ IsDir c p := by
  rw [IsDir]
  rcases h.at_ with h | ⟨x, h⟩ <;> rw [h] <;> intro h' <;> cases h'

/-- placing a node on a cleared path -/
theorem Cleared.set {t c : Tree} {p : Path} (h : Cleared t p c) (hp : p ≠ []) (hpar : IsDir t p.dropLast)
    (n : Node) : StepAt t p n (c.set p n) := by
  refine ⟨tinv_set h.tinv hp (h.parent hp hpar) h.notDir n, by rw [get_set c hp, if_pos rfl], ?_, ?_⟩
  · intro q hq
    have hqp : q ≠ p := by
      intro h; subst h; simp [isPrefix] at hq
    rw [get_set c hp, if_neg hqp]
    exact h.below q hq
  · intro q hq hb
    rw [get_set c hp, if_neg hq]
    exact h.other q hq hb

theorem removeAll_at {t : Tree} (hI : TInv t) {p : Path} (hd : IsDir t p.dropLast) (hdd : ".." ∉ p) :
    removeAll t p = .ok (t.eraseTree p) := by
  have hc := canon_ok hI hd (fun h => hdd (mem_of_mem_dropLast h))
  simp only [removeAll, hc]

theorem symlink_cleared {c : Tree} (hI : TInv c) {p : Path} (hd : IsDir c p.dropLast) (hdd : ".." ∉ p)
    (hg : c.get p = none) (dest : String) : FS.symlink c dest p = .ok (c.set p (.symlink dest)) := by
  have hc := canon_ok hI hd (fun h => hdd (mem_of_mem_dropLast h))
  have hd' : c.get p.dropLast = some .dir := hd
  simp only [FS.symlink, hc, bind, Except.bind, hd', hg]

theorem writeFile_cleared {c : Tree} (hI : TInv c) {p : Path} (hd : IsDir c p.dropLast) (hdd : ".." ∉ p)
    (hg : c.get p = none ∨ ∃ x, c.get p = some (.file x)) (data : List Byte) :
    writeFile c p data = .ok (c.set p (.file data)) := by
  have hc := canon_ok hI hd (fun h => hdd (mem_of_mem_dropLast h))
  have hd' : c.get p.dropLast = some .dir := hd
  rcases hg with hg | ⟨x, hg⟩ <;> simp only [writeFile, hc, bind, Except.bind, hd', hg]

/-- `healSymlink` at a path whose parent is a directory always succeeds and is a `StepAt`. -/
theorem healSymlink_step {t : Tree} (hI : TInv t) {p : Path} (hp : p ≠ []) (hdd : ".." ∉ p)
    (hpar : IsDir t p.dropLast) (dest : String) :
    ∃ t', healSymlink t p dest = .ok t' ∧ StepAt t p (.symlink dest) t' := by
  have hdd' : ".." ∉ p.dropLast := fun h => hdd (mem_of_mem_dropLast h)
  have fin : ∀ c, Cleared t p c → c.get p = none →
      FS.symlink c dest p = .ok (c.set p (.symlink dest)) ∧ StepAt t p (.symlink dest) (c.set p (.symlink dest)) :=
    fun c hc hg => ⟨symlink_cleared hc.tinv (hc.parent hp hpar) hdd hg dest, hc.set hp hpar _⟩
  unfold healSymlink
  simp only [mkdirs_noop hI hpar hdd', bind, Except.bind, lstat_of_parent hI hpar hdd]
  cases hg : t.get p with
  | none =>
    obtain ⟨h1, h2⟩ := fin t (cleared_self hI (.inl hg)) hg
    exact ⟨_, by simpa using h1, h2⟩
  | some n =>
    cases n with
    | dir =>
      have hcl := cleared_eraseTree hI (p := p) hp
      obtain ⟨h1, h2⟩ := fin _ hcl (by rw [get_eraseTree t p hp, if_pos (.inl rfl)])
      exact ⟨_, by simpa [removeAll_at hI hpar hdd] using h1, h2⟩
    | file x =>
      have hnd : ¬ IsDir t p := by rw [IsDir, hg]; intro h; cases h
      have hcl := cleared_erase hI hp hnd
      obtain ⟨h1, h2⟩ := fin _ hcl (by rw [get_erase t p hp, if_pos rfl])
      exact ⟨_, by simpa [remove_nondir hI hpar hdd hg (by intro h; cases h)] using h1, h2⟩
    | symlink x =>
      have hnd : ¬ IsDir t p := by rw [IsDir, hg]; intro h; cases h
      have hcl := cleared_erase hI hp hnd
      obtain ⟨h1, h2⟩ := fin _ hcl (by rw [get_erase t p hp, if_pos rfl])
      exact ⟨_, by simpa [remove_nondir hI hpar hdd hg (by intro h; cases h)] using h1, h2⟩

/-- `healFile` at a path whose parent is a directory always succeeds and is a `StepAt`. -/
theorem healFile_step {t : Tree} (hI : TInv t) {p : Path} (hp : p ≠ []) (hdd : ".." ∉ p)
    (hpar : IsDir t p.dropLast) (data : List Byte) :
    ∃ t', healFile t p data = .ok t' ∧ StepAt t p (.file data) t' := by
  have hdd' : ".." ∉ p.dropLast := fun h => hdd (mem_of_mem_dropLast h)
  have fin : ∀ c, Cleared t p c →
      writeFile c p data = .ok (c.set p (.file data)) ∧ StepAt t p (.file data) (c.set p (.file data)) :=
    fun c hc => ⟨writeFile_cleared hc.tinv (hc.parent hp hpar) hdd hc.at_ data, hc.set hp hpar _⟩
  unfold healFile
  simp only [mkdirs_noop hI hpar hdd', bind, Except.bind, lstat_of_parent hI hpar hdd]
  cases hg : t.get p with
  | none =>
    obtain ⟨h1, h2⟩ := fin t (cleared_self hI (.inl hg))
    exact ⟨_, by simpa using h1, h2⟩
  | some n =>
    cases n with
    | dir =>
      obtain ⟨h1, h2⟩ := fin _ (cleared_eraseTree hI (p := p) hp)
      exact ⟨_, by simpa [removeAll_at hI hpar hdd] using h1, h2⟩
    | file x =>
      obtain ⟨h1, h2⟩ := fin t (cleared_self hI (.inr ⟨x, hg⟩))
      exact ⟨_, by simpa using h1, h2⟩
    | symlink x =>
      have hnd : ¬ IsDir t p := by rw [IsDir, hg]; intro h; cases h
      obtain ⟨h1, h2⟩ := fin _ (cleared_erase hI hp hnd)
      exact ⟨_, by simpa [remove_nondir hI hpar hdd hg (by intro h; cases h)] using h1, h2⟩

/-! ### well-formed signed builds -/

/-- all paths of a signed build -/
def allPaths (s : Signed) : List Path := s.dirs ++ s.symlinks.map (·.1) ++ s.files.map (·.1)

/-- Well-formedness of a signed build (mirrors `Wharf.C06.SignedWF`). -/
structure WF (s : Signed) : Prop where
  clean : ∀ p ∈ allPaths s, p ≠ [] ∧ ∀ c ∈ p, c ≠ ".." ∧ c ≠ "." ∧ c ≠ ""
  distinct : (allPaths s).Nodup
  parents : ∀ p ∈ allPaths s, ∀ j, 0 < j → j < p.length → p.take j ∈ s.dirs

/-- the signed symlinks and files as (path, node) pairs -/
def leaves (s : Signed) : List (Path × Node) :=
  s.symlinks.map (fun e => (e.1, Node.symlink e.2)) ++ s.files.map (fun e => (e.1, Node.file e.2))

/-- every signed directory is a directory -/
def AllDirs (s : Signed) (t : Tree) : Prop := ∀ d ∈ s.dirs, IsDir t d

theorem nodup_map_inj {α β} {f : α → β} : ∀ {l : List α}, (l.map f).Nodup →
    ∀ {x y}, x ∈ l → y ∈ l → f x = f y → x = y := by
  intro l
  induction l with
  | nil => intro _ x y hx; cases hx
  | cons a l ih =>
    intro h x y hx hy hxy
    simp only [List.map_cons, List.nodup_cons, List.mem_map, not_exists, not_and] at h
    rcases List.mem_cons.mp hx with hx | hx <;> rcases List.mem_cons.mp hy with hy | hy
    · rw [hx, hy]
    · rw [hx] at hxy; exact absurd hxy.symm (h.1 y hy)
    · rw [hy] at hxy; exact absurd hxy (h.1 x hx)
    · exact ih h.2 hx hy hxy

theorem mem_allPaths_dir {s : Signed} {d : Path} (h : d ∈ s.dirs) : d ∈ allPaths s := by
  simp [allPaths, h]

theorem mem_leaves {s : Signed} {e : Path × Node} (h : e ∈ leaves s) :
    (∃ x ∈ s.symlinks, e = (x.1, .symlink x.2)) ∨ (∃ x ∈ s.files, e = (x.1, .file x.2)) := by
  simp only [leaves, List.mem_append, List.mem_map] at h
  rcases h with ⟨x, hx, rfl⟩ | ⟨x, hx, rfl⟩
  · exact .inl ⟨x, hx, rfl⟩
  · exact .inr ⟨x, hx, rfl⟩

theorem leaf_mem_allPaths {s : Signed} {e : Path × Node} (h : e ∈ leaves s) : e.1 ∈ allPaths s := by
  rcases mem_leaves h with ⟨x, hx, rfl⟩ | ⟨x, hx, rfl⟩
  · simp only [allPaths, List.mem_append, List.mem_map]
    exact .inl (.inr ⟨x, hx, rfl⟩)
  · simp only [allPaths, List.mem_append, List.mem_map]
    exact .inr ⟨x, hx, rfl⟩

theorem leaf_ne_dir {s : Signed} {e : Path × Node} (h : e ∈ leaves s) : e.2 ≠ .dir := by
  rcases mem_leaves h with ⟨x, _, rfl⟩ | ⟨x, _, rfl⟩ <;> intro h' <;> cases h'

theorem WF.nodd {s : Signed} (hs : WF s) {p : Path} (hp : p ∈ allPaths s) : ".." ∉ p :=
  fun h => ((hs.clean p hp).2 _ h).1 rfl

theorem WF.leaf_not_dir {s : Signed} (hs : WF s) {e : Path × Node} (h : e ∈ leaves s) : e.1 ∉ s.dirs := by
  intro hd
  have hnd := hs.distinct
  simp only [allPaths, List.append_assoc] at hnd
  rw [List.nodup_append] at hnd
  have hm : e.1 ∈ s.symlinks.map (·.1) ++ s.files.map (·.1) := by
    rcases mem_leaves h with ⟨x, hx, rfl⟩ | ⟨x, hx, rfl⟩
    · exact List.mem_append_left _ (List.mem_map.mpr ⟨x, hx, rfl⟩)
    · exact List.mem_append_right _ (List.mem_map.mpr ⟨x, hx, rfl⟩)
  exact hnd.2.2 _ hd _ hm rfl

/-- nothing signed lies below a signed symlink or file -/
theorem WF.leaf_not_below {s : Signed} (hs : WF s) {e : Path × Node} (h : e ∈ leaves s) {p : Path}
    (hp : p ∈ allPaths s) : isPrefix e.1 p = false := by
  cases hb : isPrefix e.1 p with
  | false => rfl
  | true =>
    exfalso
    rw [isPrefix_iff] at hb
    have hne : e.1 ≠ [] := (hs.clean _ (leaf_mem_allPaths h)).1
    have := hs.parents p hp e.1.length (List.length_pos_iff.mpr hne) hb.1
    rw [hb.2] at this
    exact hs.leaf_not_dir h this

/-- a path is signed at most once among symlinks and files -/
theorem WF.leaf_fun {s : Signed} (hs : WF s) {a b : Path × Node} (ha : a ∈ leaves s) (hb : b ∈ leaves s)
    (hab : a.1 = b.1) : a = b := by
  have hnd := hs.distinct
  simp only [allPaths, List.append_assoc] at hnd
  rw [List.nodup_append] at hnd
  have hnd2 := hnd.2.1
  rw [List.nodup_append] at hnd2
  obtain ⟨hA, hB, hAB⟩ := hnd2
  rcases mem_leaves ha with ⟨x, hx, rfl⟩ | ⟨x, hx, rfl⟩ <;>
    rcases mem_leaves hb with ⟨y, hy, rfl⟩ | ⟨y, hy, rfl⟩
  · have := nodup_map_inj hA hx hy hab
    subst this; rfl
  · exact absurd hab (hAB _ (List.mem_map.mpr ⟨x, hx, rfl⟩) _ (List.mem_map.mpr ⟨y, hy, rfl⟩))
  · exact absurd hab.symm (hAB _ (List.mem_map.mpr ⟨y, hy, rfl⟩) _ (List.mem_map.mpr ⟨x, hx, rfl⟩))
  · have := nodup_map_inj hB hx hy hab
    subst this; rfl

/-- with every signed directory in place, the parent of any signed path is a directory -/
theorem WF.parent_dir {s : Signed} (hs : WF s) {t : Tree} (hA : AllDirs s t) {p : Path}
    (hp : p ∈ allPaths s) : IsDir t p.dropLast := by
  by_cases hl : p.length ≤ 1
  · have : p.dropLast = [] := by
      apply List.eq_nil_of_length_eq_zero
      simp; omega
    rw [this]; exact isDir_nil t
  · rw [List.dropLast_eq_take]
    exact hA _ (hs.parents p hp _ (by omega) (by omega))

/-- no signed directory is a symlink (as a statement about `get`) -/
def NoSymDirs (s : Signed) (t : Tree) : Prop := ∀ d ∈ s.dirs, ∀ x, t.get d ≠ some (.symlink x)

theorem WF.plainAll {s : Signed} (hs : WF s) {t : Tree} (hn : NoSymDirs s t) {d : Path} (hd : d ∈ s.dirs) :
    PlainAll t d := by
  refine ⟨hs.nodd (mem_allPaths_dir hd), ?_⟩
  intro j hj1 hj2 x
  by_cases hj : j = d.length
  · subst hj
    rw [List.take_length]
    exact hn d hd x
  · exact hn _ (hs.parents d (mem_allPaths_dir hd) j (by omega) (by omega)) x

/-- every signed path is free of symlinks on the way -/
theorem WF.plain {s : Signed} (hs : WF s) {t : Tree} (hn : NoSymDirs s t) {p : Path} (hp : p ∈ allPaths s) :
    Plain t p :=
  ⟨hs.nodd hp, fun j hj1 hj2 x => hn _ (hs.parents p hp j (by omega) hj2) x⟩

theorem outcome_bind_ok {α β} {x : Outcome α} {f : α → Outcome β} {b : β} (h : x.bind f = .ok b) :
    ∃ a, x = .ok a ∧ f a = .ok b := by
  cases x with
  | ok a => exact ⟨a, rfl, h⟩
  | err e => cases h
  | panic e => cases h


/-! ### prefixes, parents-first listing -/

theorem prefix_cases {q d : Path} (h : q <+: d) : q = d ∨ isPrefix q d = true := by
  have hle := h.length_le
  have ht := List.prefix_iff_eq_take.mp h
  by_cases hl : q.length = d.length
  · left
    rw [ht, hl, List.take_length]
  · right
    rw [isPrefix_iff]
    exact ⟨by omega, ht.symm⟩

/-- from the `lstat` form of the exclusion to the `get` form -/
theorem noSymDirs_of_lstat {s : Signed} (hs : WF s) {t : Tree} (hI : TInv t)
    (hno : ∀ p ∈ s.dirs, ∀ d, lstat t p ≠ .ok (.symlink d)) : NoSymDirs s t := by
  intro d hd x hx
  exact hno d hd x (lstat_of_get hI (hs.nodd (mem_allPaths_dir hd)) hx)

/-- directories are listed parents-first (mirrors `Wharf.C06.ParentsFirst`) -/
def PFirst (s : Signed) : Prop :=
  ∀ i (h : i < s.dirs.length), ∀ j, 0 < j → j < (s.dirs[i]).length → (s.dirs[i]).take j ∈ s.dirs.take i

/-! ### healing a directory that something else had replaced: `healBelow` -/

theorem isPrefix_prefix {p x : Path} (h : isPrefix p x = true) : p <+: x := by
  rw [isPrefix_iff] at h
  rw [← h.2]
  exact List.take_prefix _ _

theorem isPrefix_ne {p x : Path} (h : isPrefix p x = true) : x ≠ p := by
  intro he; subst he; simp [isPrefix] at h

theorem isPrefix_irrefl (p : Path) : isPrefix p p = false := by simp [isPrefix]

/-- a prefix of something below `p` is a prefix of `p` or lies below `p` -/
theorem prefix_below_cases {p d x : Path} (hd : isPrefix p d = true) (hx : x <+: d) :
    x <+: p ∨ isPrefix p x = true := by
  rcases List.prefix_or_prefix_of_prefix hx (isPrefix_prefix hd) with h | h
  · exact .inl h
  · rcases prefix_cases h with h' | h'
    · left; rw [h']; exact List.prefix_refl _
    · exact .inr h'

/-- the tree while `healBelow(p)` runs, relative to the tree `t` in which something else stood at `p`: `p` is a
    directory, nothing outside `p` has changed, and below `p` there is nothing but signed directories (as
    directories) and what stands at or below signed symlink paths -/
structure Below (s : Signed) (t : Tree) (p : Path) (t' : Tree) : Prop where
  tinv : TInv t'
  self : IsDir t' p
  outside : ∀ x, x ≠ p → isPrefix p x = false → t'.get x = t.get x
  inside : ∀ x, isPrefix p x = true →
    t'.get x = none ∨ (IsDir t' x ∧ x ∈ s.dirs) ∨ ∃ l ∈ s.symlinks.map (·.1), l = x ∨ isPrefix l x = true

theorem WF.dir_not_symPath {s : Signed} (hs : WF s) {d : Path} (hd : d ∈ s.dirs) :
    ¬ ∃ l ∈ s.symlinks.map (·.1), l = d ∨ isPrefix l d = true := by
  rintro ⟨l, hl, hld⟩
  obtain ⟨e, he, rfl⟩ := List.mem_map.mp hl
  have hleaf : (e.1, Node.symlink e.2) ∈ leaves s := by
    simp only [leaves, List.mem_append, List.mem_map]
    exact .inl ⟨e, he, rfl⟩
  rcases hld with h | h
  · exact hs.leaf_not_dir hleaf (h ▸ hd)
  · have := hs.leaf_not_below hleaf (mem_allPaths_dir hd)
    simp only at this
    rw [this] at h; cases h

/-- while `healBelow(p)` runs, a signed directory below `p` has no symlink on the way and is missing or a
    directory -/
theorem Below.plain_dir {s : Signed} (hs : WF s) {t t₁ : Tree} {p d : Path} (hB : Below s t p t₁)
    (hd : d ∈ s.dirs) (hpd : isPrefix p d = true) :
    Plain t₁ d ∧ (t₁.get d = none ∨ IsDir t₁ d) := by
  have key : ∀ x, x ∈ s.dirs → isPrefix p x = true → t₁.get x = none ∨ IsDir t₁ x := by
    intro x hx hpx
    rcases hB.inside x hpx with h | h | h
    · exact .inl h
    · exact .inr h.1
    · exact absurd h (hs.dir_not_symPath hx)
  refine ⟨⟨hs.nodd (mem_allPaths_dir hd), ?_⟩, key d hd hpd⟩
  intro j hj1 hj2 y hy
  rcases prefix_below_cases hpd (List.take_prefix j d) with h | h
  · have := prefix_dirs hB.tinv _ p rfl hB.self (d.take j).length
    rw [← List.prefix_iff_eq_take.mp h, IsDir, hy] at this
    cases this
  · rcases key _ (hs.parents d (mem_allPaths_dir hd) j (by omega) hj2) h with h' | h'
    · rw [h'] at hy; cases hy
    · rw [IsDir, hy] at h'; cases h'

/-- A directory wound for a signed directory below `p` while `healBelow(p)` runs: nothing can stand in its way;
    it is there already, or `MkdirAll` creates it (and missing signed directories between `p` and it). -/
theorem Below.dirWound {s : Signed} (hs : WF s) {t t₁ t₂ : Tree} {p d : Path} (hB : Below s t p t₁)
    (hd : d ∈ s.dirs) (hpd : isPrefix p d = true) (k : Nat) {q q₂ : List Nat}
    (h : healDir s (k + 1) t₁ q d = .ok (t₂, q₂)) :
    Below s t p t₂ ∧ q₂ = q ∧ IsDir t₂ d ∧ (∀ x, IsDir t₁ x → IsDir t₂ x) := by
  obtain ⟨hpl, hnd⟩ := hB.plain_dir hs hd hpd
  rcases healDir_cases s hB.tinv hpl k q with ⟨h1, h2⟩ | ⟨h1, h2, h3⟩ | ⟨n, hn, hg, _⟩
  · rw [h2] at h
    simp only [Except.ok.injEq, Prod.mk.injEq] at h
    obtain ⟨rfl, rfl⟩ := h
    exact ⟨hB, rfl, h1, fun _ hx => hx⟩
  · rw [h3] at h
    cases hm : mkdirs t₁ d with
    | error e => simp [hm] at h
    | ok t₃ =>
      simp only [hm, Except.ok.injEq, Prod.mk.injEq] at h
      obtain ⟨rfl, rfl⟩ := h
      obtain ⟨a1, a2, a3, a4⟩ := mkdirs_spec hB.tinv h1 hm
      have hmono : ∀ x, IsDir t₁ x → IsDir t₃ x := fun x hx => a3 x _ hx
      refine ⟨⟨a1, hmono p hB.self, ?_, ?_⟩, rfl, a2 d (List.prefix_refl _), hmono⟩
      · intro x hxp hxb
        rw [← hB.outside x hxp hxb]
        by_cases hxd : x <+: d
        · rcases prefix_below_cases hpd hxd with h' | h'
          · have hdx : IsDir t₁ x := by
              have := prefix_dirs hB.tinv _ p rfl hB.self x.length
              rwa [← List.prefix_iff_eq_take.mp h'] at this
            rw [show t₃.get x = some .dir from hmono x hdx, show t₁.get x = some .dir from hdx]
          · rw [hxb] at h'; cases h'
        · exact a4 x hxd
      · intro x hpx
        by_cases hxd : x <+: d
        · right; left
          refine ⟨a2 x hxd, ?_⟩
          rcases prefix_cases hxd with h' | h'
          · rw [h']; exact hd
          · rw [isPrefix_iff] at h'
            rw [← h'.2]
            have hx0 : 0 < x.length := by
              rw [isPrefix_iff] at hpx; omega
            exact hs.parents d (mem_allPaths_dir hd) x.length hx0 h'.1
        · rw [a4 x hxd]
          rcases hB.inside x hpx with h' | h' | h'
          · exact .inl h'
          · exact .inr (.inl ⟨hmono x h'.1, h'.2⟩)
          · exact .inr (.inr h')
  · exfalso
    rcases hnd with h' | h'
    · rw [h'] at hg; cases hg
    · rw [IsDir, hg] at h'; cases h'; exact hn rfl

/-- first loop of `healBelow(p)`: every signed directory below `p` ends up a directory, the queue is untouched -/
theorem Below.dirsLoop {s : Signed} (hs : WF s) {t : Tree} {p : Path} (k : Nat) :
    ∀ (ds : List Path) (t₁ t₂ : Tree) (q q₂ : List Nat), (∀ d ∈ ds, d ∈ s.dirs) → Below s t p t₁ →
      healDirsBelow (healDir s (k + 1)) p ds t₁ q = .ok (t₂, q₂) →
      Below s t p t₂ ∧ q₂ = q ∧ (∀ x, IsDir t₁ x → IsDir t₂ x) ∧
        ∀ d ∈ ds, isPrefix p d = true → IsDir t₂ d := by
  intro ds
  induction ds with
  | nil =>
    intro t₁ t₂ q q₂ _ hB h
    simp only [healDirsBelow, Except.ok.injEq, Prod.mk.injEq] at h
    obtain ⟨rfl, rfl⟩ := h
    exact ⟨hB, rfl, fun _ hx => hx, by simp⟩
  | cons d ds ih =>
    intro t₁ t₂ q q₂ hds hB h
    have hds' : ∀ d' ∈ ds, d' ∈ s.dirs := fun d' hd' => hds d' (List.mem_cons_of_mem _ hd')
    simp only [healDirsBelow] at h
    by_cases hb : isPrefix p d = true
    · rw [if_pos hb] at h
      cases hr : healDir s (k + 1) t₁ q d with
      | error e => simp [hr] at h
      | ok r =>
        obtain ⟨t₃, q₃⟩ := r
        simp only [hr] at h
        obtain ⟨b1, rfl, b3, b4⟩ := hB.dirWound hs (hds d (by simp)) hb k hr
        obtain ⟨c1, c2, c3, c4⟩ := ih t₃ t₂ q₃ q₂ hds' b1 h
        refine ⟨c1, c2, fun x hx => c3 x (b4 x hx), ?_⟩
        intro d' hd' hpd'
        rcases List.mem_cons.mp hd' with rfl | hd'
        · exact c3 _ b3
        · exact c4 d' hd' hpd'
    · rw [if_neg hb] at h
      obtain ⟨c1, c2, c3, c4⟩ := ih t₁ t₂ q q₂ hds' hB h
      refine ⟨c1, c2, c3, ?_⟩
      intro d' hd' hpd'
      rcases List.mem_cons.mp hd' with rfl | hd'
      · exact absurd hpd' hb
      · exact c4 d' hd' hpd'

/-- with parents-first listing the first loop of `healBelow(p)` cannot fail -/
theorem Below.dirsLoop_ok {s : Signed} (hs : WF s) (hpf : PFirst s) {t : Tree} {p : Path} (k : Nat) :
    ∀ (ds pre : List Path) (t₁ : Tree) (q : List Nat), s.dirs = pre ++ ds → Below s t p t₁ →
      (∀ d ∈ pre, isPrefix p d = true → IsDir t₁ d) →
      ∃ t₂ q₂, healDirsBelow (healDir s (k + 1)) p ds t₁ q = .ok (t₂, q₂) := by
  intro ds
  induction ds with
  | nil => intro pre t₁ q _ _ _; exact ⟨t₁, q, rfl⟩
  | cons d ds ih =>
    intro pre t₁ q hsd hB hpre
    have hd : d ∈ s.dirs := by rw [hsd]; simp
    have hsd' : s.dirs = (pre ++ [d]) ++ ds := by simp [hsd]
    simp only [healDirsBelow]
    by_cases hb : isPrefix p d = true
    · rw [if_pos hb]
      obtain ⟨hpl, hnd⟩ := hB.plain_dir hs hd hb
      -- the parent of `d` is `p` or a signed directory below `p` listed before `d`
      have hpar : IsDir t₁ d.dropLast := by
        have hb' := hb
        rw [isPrefix_iff] at hb'
        by_cases hl : d.length = p.length + 1
        · have : d.dropLast = p := by
            rw [List.dropLast_eq_take, ← hb'.2]; congr 1; omega
          rw [this]; exact hB.self
        · have hi : pre.length < s.dirs.length := by rw [hsd]; simp
          have hgi : s.dirs[pre.length] = d := by
            have : s.dirs[pre.length]? = some d := by rw [hsd]; simp
            exact (List.getElem?_eq_some_iff.mp this).2
          have hm := hpf _ hi (d.length - 1) (by omega) (by rw [hgi]; omega)
          rw [hgi, ← List.dropLast_eq_take] at hm
          have htake : s.dirs.take pre.length = pre := by rw [hsd]; exact List.take_left
          rw [htake] at hm
          refine hpre _ hm ?_
          rw [isPrefix_iff]
          refine ⟨by simp; omega, ?_⟩
          rw [List.dropLast_eq_take, List.take_take, Nat.min_eq_left (by omega)]
          exact hb'.2
      have hstep : ∃ t₃, healDir s (k + 1) t₁ q d = .ok (t₃, q) := by
        rcases healDir_cases s hB.tinv hpl k q with ⟨_, h2⟩ | ⟨_, h2, h3⟩ | ⟨n, hn, hg, _⟩
        · exact ⟨t₁, h2⟩
        · have hg : t₁.get d = none := by
            rcases hnd with h' | h'
            · exact h'
            · exact absurd h' h2
          have hfresh : Fresh t₁ d := by
            refine ⟨(hs.clean d (mem_allPaths_dir hd)).1, ?_, hpar,
              fun h => hs.nodd (mem_allPaths_dir hd) (mem_of_mem_dropLast h)⟩
            intro e he hed
            have := hB.tinv.get e he
            rw [hed, hg] at this
            cases this
          rw [h3, mkdirs_new hB.tinv hfresh]
          exact ⟨_, rfl⟩
        · exfalso
          rcases hnd with h' | h'
          · rw [h'] at hg; cases hg
          · rw [IsDir, hg] at h'; cases h'; exact hn rfl
      obtain ⟨t₃, hr⟩ := hstep
      obtain ⟨b1, _, b3, b4⟩ := hB.dirWound hs hd hb k hr
      rw [hr]
      simp only
      refine ih (pre ++ [d]) t₃ q hsd' b1 ?_
      intro d' hd' hpd'
      rcases List.mem_append.mp hd' with hd' | hd'
      · exact b4 _ (hpre d' hd' hpd')
      · rw [List.mem_singleton] at hd'; subst hd'; exact b3
    · rw [if_neg hb]
      refine ih (pre ++ [d]) t₁ q hsd' hB ?_
      intro d' hd' hpd'
      rcases List.mem_append.mp hd' with hd' | hd'
      · exact hpre d' hd' hpd'
      · rw [List.mem_singleton] at hd'; subst hd'; exact absurd hpd' hb

theorem sym_leaf' {s : Signed} {e : Path × String} (h : e ∈ s.symlinks) :
    (e.1, Node.symlink e.2) ∈ leaves s := by
  simp only [leaves, List.mem_append, List.mem_map]
  exact .inl ⟨e, h, rfl⟩

/-- second loop of `healBelow(p)`, run with every signed directory below `p` in place: it cannot fail, and every
    signed symlink below `p` ends up as signed -/
theorem Below.symsLoop {s : Signed} (hs : WF s) {t : Tree} {p : Path} (hp : p ∈ s.dirs) :
    ∀ (ls : List (Path × String)) (t₁ : Tree), (∀ e ∈ ls, e ∈ s.symlinks) → Below s t p t₁ →
      (∀ d ∈ s.dirs, isPrefix p d = true → IsDir t₁ d) →
      ∃ t₂, healSymlinksBelow p ls t₁ = .ok t₂ ∧ Below s t p t₂ ∧
        (∀ d ∈ s.dirs, isPrefix p d = true → IsDir t₂ d) ∧
        (∀ e ∈ s.symlinks, t₁.get e.1 = some (.symlink e.2) → t₂.get e.1 = some (.symlink e.2)) ∧
        ∀ e ∈ ls, isPrefix p e.1 = true → t₂.get e.1 = some (.symlink e.2) := by
  intro ls
  induction ls with
  | nil => intro t₁ _ hB hA; exact ⟨t₁, rfl, hB, hA, fun _ _ h => h, by simp⟩
  | cons e ls ih =>
    intro t₁ hls hB hA
    obtain ⟨l, dest⟩ := e
    have hls' : ∀ e' ∈ ls, e' ∈ s.symlinks := fun e' he' => hls e' (List.mem_cons_of_mem _ he')
    have he : (l, dest) ∈ s.symlinks := hls _ (by simp)
    have hleaf := sym_leaf' he
    have hm := leaf_mem_allPaths hleaf
    simp only [healSymlinksBelow]
    by_cases hb : isPrefix p l = true
    · rw [if_pos hb]
      have hb' := hb
      rw [isPrefix_iff] at hb'
      have hp0 : 0 < p.length := List.length_pos_iff.mpr (hs.clean p (mem_allPaths_dir hp)).1
      -- the parent of the symlink is `p` or a signed directory below `p`
      have hpar : IsDir t₁ l.dropLast := by
        by_cases hl : l.length = p.length + 1
        · have : l.dropLast = p := by
            rw [List.dropLast_eq_take, ← hb'.2]; congr 1; omega
          rw [this]; exact hB.self
        · have hmem := hs.parents l hm (l.length - 1) (by omega) (by omega)
          rw [← List.dropLast_eq_take] at hmem
          refine hA _ hmem ?_
          rw [isPrefix_iff]
          refine ⟨by simp; omega, ?_⟩
          rw [List.dropLast_eq_take, List.take_take, Nat.min_eq_left (by omega)]
          exact hb'.2
      obtain ⟨t₃, h3, hst⟩ := healSymlink_step hB.tinv (hs.clean l hm).1 (hs.nodd hm) hpar dest
      have hlp : l ≠ p := isPrefix_ne hb
      have hnlp : isPrefix l p = false := hs.leaf_not_below hleaf (mem_allPaths_dir hp)
      have hB₃ : Below s t p t₃ := by
        refine ⟨hst.tinv, ?_, ?_, ?_⟩
        · rw [IsDir, hst.other p (fun h => hlp h.symm) hnlp]; exact hB.self
        · intro x hxp hxb
          rw [hst.other x, hB.outside x hxp hxb]
          · intro h; rw [h, hb] at hxb; cases hxb
          · cases hlx : isPrefix l x with
            | false => rfl
            | true => rw [isPrefix_trans' hb hlx] at hxb; cases hxb
        · intro x hpx
          by_cases hxl : x = l
          · exact .inr (.inr ⟨l, List.mem_map.mpr ⟨_, he, rfl⟩, .inl hxl.symm⟩)
          · cases hlx : isPrefix l x with
            | true => exact .inr (.inr ⟨l, List.mem_map.mpr ⟨_, he, rfl⟩, .inr hlx⟩)
            | false =>
              rw [hst.other x hxl hlx]
              rcases hB.inside x hpx with h' | h' | h'
              · exact .inl h'
              · right; left
                refine ⟨?_, h'.2⟩
                rw [IsDir, hst.other x hxl hlx]; exact h'.1
              · exact .inr (.inr h')
      have hA₃ : ∀ d ∈ s.dirs, isPrefix p d = true → IsDir t₃ d := by
        intro d hd hpd
        rw [IsDir, hst.other d (fun h => hs.leaf_not_dir hleaf (h ▸ hd))
          (hs.leaf_not_below hleaf (mem_allPaths_dir hd))]
        exact hA d hd hpd
      have hkeep : ∀ e' ∈ s.symlinks, t₁.get e'.1 = some (.symlink e'.2) →
          t₃.get e'.1 = some (.symlink e'.2) := by
        intro e' he' hg
        by_cases hpe : e'.1 = l
        · have := hs.leaf_fun (sym_leaf' he') hleaf hpe
          simp only [Prod.mk.injEq] at this
          rw [hpe]
          have h2 : e'.2 = dest := by
            have := this.2; injection this
          rw [h2]; exact hst.at_
        · rw [hst.other e'.1 hpe (hs.leaf_not_below hleaf (leaf_mem_allPaths (sym_leaf' he')))]
          exact hg
      obtain ⟨t₂, c1, c2, c3, c4, c5⟩ := ih t₃ hls' hB₃ hA₃
      refine ⟨t₂, by rw [h3]; exact c1, c2, c3, fun e' he' hg => c4 e' he' (hkeep e' he' hg), ?_⟩
      intro e' he' hpe'
      rcases List.mem_cons.mp he' with rfl | he'
      · exact c4 _ he hst.at_
      · exact c5 e' he' hpe'
    · rw [if_neg hb]
      obtain ⟨t₂, c1, c2, c3, c4, c5⟩ := ih t₁ hls' hB hA
      refine ⟨t₂, c1, c2, c3, c4, ?_⟩
      intro e' he' hpe'
      rcases List.mem_cons.mp he' with rfl | he'
      · exact absurd hpe' hb
      · exact c5 e' he' hpe'

/-- the tree right after `Remove`, `MkdirAll` satisfies the loop invariant of `healBelow` -/
theorem below_start {s : Signed} {t : Tree} (hI : TInv t) {p : Path} (hne : p ≠ []) (hdd : ".." ∉ p)
    (hpar : IsDir t p.dropLast) {n : Node} (hg : t.get p = some n) (hn : n ≠ .dir) :
    Below s t p ((t.erase p).set p .dir) := by
  obtain ⟨_, _, hI₂, hget⟩ := replace_by_dir hI hne hdd hpar hg hn
  have hnd : ¬ IsDir t p := by rw [IsDir, hg]; intro h; cases h; exact hn rfl
  refine ⟨hI₂, by rw [IsDir, hget, if_pos rfl], ?_, ?_⟩
  · intro x hxp _
    rw [hget, if_neg hxp]
  · intro x hpx
    left
    rw [hget, if_neg (isPrefix_ne hpx)]
    exact get_below_none hI hnd hpx

/-- THE REPAIR OF F15.  A directory wound for the signed directory `p` that finds something else standing at `p`
    (the parent of `p` being a directory): whenever the call returns, `p` and every signed directory below it are
    directories, every signed symlink below it is as signed, every signed file below it is queued, nothing
    outside `p` has changed, and below `p` there is nothing but signed directories and signed symlinks.
    The recursion never goes deeper than one nested level (`k + 2` suffices). -/
theorem healDir_replaced {s : Signed} (hs : WF s) {t : Tree} (hI : TInv t) {p : Path} (hp : p ∈ s.dirs)
    (hpar : IsDir t p.dropLast) {n : Node} (hg : t.get p = some n) (hn : n ≠ .dir) (k : Nat) (q : List Nat)
    {t' : Tree} {q' : List Nat} (h : healDir s (k + 2) t q p = .ok (t', q')) :
    Below s t p t' ∧ (∀ d ∈ s.dirs, isPrefix p d = true → IsDir t' d) ∧
      (∀ e ∈ s.symlinks, isPrefix p e.1 = true → t'.get e.1 = some (.symlink e.2)) ∧
      q' = queueFilesBelow p 0 s.files q := by
  have hne : p ≠ [] := (hs.clean p (mem_allPaths_dir hp)).1
  have hdd : ".." ∉ p := hs.nodd (mem_allPaths_dir hp)
  obtain ⟨hrm, hmk, _, _⟩ := replace_by_dir hI hne hdd hpar hg hn
  have hB₀ : Below s t p ((t.erase p).set p .dir) := below_start hI hne hdd hpar hg hn
  have hl : lstat t p = .ok n := lstat_of_get hI hdd hg
  have hunf : healDir s (k + 2) t q p =
      match healDirsBelow (healDir s (k + 1)) p s.dirs ((t.erase p).set p .dir) q with
      | .error e => .error e
      | .ok (t₃, q₃) =>
        match healSymlinksBelow p s.symlinks t₃ with
        | .error e => .error e
        | .ok t₄ => .ok (t₄, queueFilesBelow p 0 s.files q₃) := by
    rw [healDir]
    cases n with
    | dir => exact absurd rfl hn
    | file x => simp only [hl, hrm, hmk]; rfl
    | symlink x => simp only [hl, hrm, hmk]; rfl
  rw [hunf] at h
  cases hd : healDirsBelow (healDir s (k + 1)) p s.dirs ((t.erase p).set p .dir) q with
  | error e => simp [hd] at h
  | ok r =>
    obtain ⟨t₃, q₃⟩ := r
    simp only [hd] at h
    obtain ⟨b1, rfl, _, b4⟩ := hB₀.dirsLoop hs k s.dirs _ t₃ q q₃ (fun _ h => h) hd
    obtain ⟨t₄, c0, c1, c2, _, c4⟩ := b1.symsLoop hs hp s.symlinks t₃ (fun _ h => h) b4
    simp only [c0, Except.ok.injEq, Prod.mk.injEq] at h
    obtain ⟨rfl, rfl⟩ := h
    exact ⟨c1, c2, c4, rfl⟩

/-- … and with parents-first listing the call does return. -/
theorem healDir_replaced_ok {s : Signed} (hs : WF s) (hpf : PFirst s) {t : Tree} (hI : TInv t) {p : Path}
    (hp : p ∈ s.dirs) (hpar : IsDir t p.dropLast) {n : Node} (hg : t.get p = some n) (hn : n ≠ .dir) (k : Nat)
    (q : List Nat) : ∃ t', healDir s (k + 2) t q p = .ok (t', queueFilesBelow p 0 s.files q) := by
  have hne : p ≠ [] := (hs.clean p (mem_allPaths_dir hp)).1
  have hdd : ".." ∉ p := hs.nodd (mem_allPaths_dir hp)
  obtain ⟨hrm, hmk, _, _⟩ := replace_by_dir hI hne hdd hpar hg hn
  have hB₀ : Below s t p ((t.erase p).set p .dir) := below_start hI hne hdd hpar hg hn
  have hl : lstat t p = .ok n := lstat_of_get hI hdd hg
  obtain ⟨t₃, q₃, hd⟩ := hB₀.dirsLoop_ok hs hpf k s.dirs [] _ q rfl (by simp)
  obtain ⟨b1, rfl, _, b4⟩ := hB₀.dirsLoop hs k s.dirs _ t₃ q q₃ (fun _ h => h) hd
  obtain ⟨t₄, c0, _⟩ := b1.symsLoop hs hp s.symlinks t₃ (fun _ h => h) b4
  refine ⟨t₄, ?_⟩
  rw [healDir]
  cases n with
  | dir => exact absurd rfl hn
  | file x => simp only [hl, hrm, hmk, hd, c0]
  | symlink x => simp only [hl, hrm, hmk, hd, c0]

/-- With the parent a directory, a directory wound is healed without error (parents-first listing). -/
theorem healDir_ok {s : Signed} (hs : WF s) (hpf : PFirst s) {t : Tree} (hI : TInv t) {p : Path}
    (hp : p ∈ s.dirs) (hpar : IsDir t p.dropLast) (k : Nat) (q : List Nat) :
    ∃ r, healDir s (k + 2) t q p = .ok r := by
  have hne : p ≠ [] := (hs.clean p (mem_allPaths_dir hp)).1
  have hdd : ".." ∉ p := hs.nodd (mem_allPaths_dir hp)
  have hdd' : ".." ∉ p.dropLast := fun h => hdd (mem_of_mem_dropLast h)
  cases hg : t.get p with
  | none =>
    have hl : lstat t p = .error .enoent := by rw [lstat_of_parent hI hpar hdd, hg]
    have hfresh : Fresh t p := by
      refine ⟨hne, ?_, hpar, hdd'⟩
      intro e he hep
      have := hI.get e he
      rw [hep, hg] at this
      cases this
    exact ⟨(t.set p .dir, q), by simp only [healDir, hl, mkdirs_new hI hfresh]⟩
  | some n =>
    by_cases hn : n = .dir
    · subst hn
      have hl : lstat t p = .ok .dir := lstat_of_get hI hdd hg
      exact ⟨(t, q), by simp only [healDir, hl]⟩
    · obtain ⟨t', ht'⟩ := healDir_replaced_ok hs hpf hI hp hpar hg hn k q
      exact ⟨_, ht'⟩

/-! ### the F15 instances (a signed directory replaced by a symlink)

  `decide` cannot evaluate `splitDest` (`String.splitOn` is defined by well-founded recursion), so the one
  symlink that validation follows is resolved by hand; everything else is evaluated. -/

theorem splitOn_b : "b".splitOn "/" = ["b"] := by
  unfold String.splitOn
  rw [if_neg (by decide +kernel)]
  rw [String.splitOnAux]
  rw [if_neg (by decide +kernel)]
  rw [if_neg (by decide +kernel)]
  rw [String.splitOnAux]
  rw [if_pos (by decide +kernel)]
  decide +kernel

theorem splitDest_b : splitDest "b" = ["b"] := by
  unfold splitDest
  rw [splitOn_b]
  decide

theorem startsWith_b : ("b".startsWith "/") = false := by decide +kernel

theorem resolve_symlink_step (t : Tree) (fuel : Nat) (done : Path) (c c2 : String) (rest : Path) (dest : String)
    (hc : c ≠ "..") (hg : t.get (done ++ [c]) = some (.symlink dest)) (hs : dest.startsWith "/" = false) :
    resolve t (fuel + 1) done (c :: c2 :: rest) = resolve t fuel done (splitDest dest ++ c2 :: rest) := by
  simp [resolve, hc, hg, hs]

def f15Signed : Signed := { dirs := [["a"]], files := [(["a", "f"], [1, 2, 3])] }
def f15Tree : Tree :=
  { entries := [(["b"], .dir), (["b", "f"], .file [1, 2, 3]), (["a"], .symlink "b")] }

theorem f15_lstat_a : lstat f15Tree ["a"] = .ok (.symlink "b") := by rfl

/-- the signed file is found THROUGH the symlink -/
theorem f15_lstat_af : lstat f15Tree ["a", "f"] = .ok (.file [1, 2, 3]) := by
  have hc : canon f15Tree ["a", "f"] = .ok ["b", "f"] := by
    show resolve f15Tree (39 + 1) [] ("a" :: "f" :: []) = _
    rw [resolve_symlink_step _ _ _ _ _ _ "b" (by decide) (by rfl) startsWith_b, splitDest_b]
    rfl
  unfold lstat
  rw [hc]
  rfl

/-- … so validation reports the directory wound only -/
theorem f15_validate : validate 2 100 f15Signed f15Tree =
    .ok [⟨.dir, 0, 0, 0⟩, ⟨.closedFile, 0, 0, 2⟩, ⟨.closedFile, 0, 2, 3⟩] := by
  simp only [validate, f15Signed, dirWounds, symlinkWounds, filePassWounds, onDisk, f15_lstat_a, f15_lstat_af,
    Outcome.bind]
  rfl

/-- following one symlink in `statFollow` -/
theorem statFollow_link_step (t : Tree) (fuel : Nat) (p q : Path) (dest : String) (hc : canon t p = .ok q)
    (hg : t.get q = some (.symlink dest)) (hs : dest.startsWith "/" = false) :
    statFollow t (fuel + 1) p = statFollow t fuel (q.dropLast ++ splitDest dest) := by
  simp [statFollow, hc, hg, hs, bind, Except.bind]

/-! #### a richer instance of the repaired F15

  Signed: directory `a` with a nested directory `a/c`, a symlink `a/l → c/g`, files `a/f`, `a/c/g`.  On disk `a` is
  a symlink to `b`, a moved copy of the directory in which `f` is damaged as well.  Validation goes THROUGH the
  link: `a/c`, `a/l`, `a/c/g` look healthy, `a/f` gets a file wound. -/

def richSigned : Signed :=
  { dirs := [["a"], ["a", "c"]], symlinks := [(["a", "l"], "c/g")],
    files := [(["a", "f"], [1, 2, 3]), (["a", "c", "g"], [4, 5])] }

def richTree : Tree :=
  { entries := [(["b"], .dir), (["b", "c"], .dir), (["b", "l"], .symlink "c/g"), (["b", "f"], .file [1, 9, 3]),
      (["b", "c", "g"], .file [4, 5]), (["a"], .symlink "b")] }

theorem rich_canon (c : String) (rest : Path) (fuel : Nat) :
    resolve richTree (fuel + 1) [] ("a" :: c :: rest) = resolve richTree fuel [] ("b" :: c :: rest) := by
  rw [resolve_symlink_step _ _ _ _ _ _ "b" (by decide) (by rfl) startsWith_b, splitDest_b]
  rfl

theorem rich_lstat_a : lstat richTree ["a"] = .ok (.symlink "b") := by rfl

theorem rich_lstat_ac : lstat richTree ["a", "c"] = .ok .dir := by
  have hc : canon richTree ["a", "c"] = .ok ["b", "c"] := by
    show resolve richTree (39 + 1) [] ("a" :: "c" :: []) = _
    rw [rich_canon]; rfl
  unfold lstat; rw [hc]; rfl

theorem rich_lstat_al : lstat richTree ["a", "l"] = .ok (.symlink "c/g") := by
  have hc : canon richTree ["a", "l"] = .ok ["b", "l"] := by
    show resolve richTree (39 + 1) [] ("a" :: "l" :: []) = _
    rw [rich_canon]; rfl
  unfold lstat; rw [hc]; rfl

theorem rich_lstat_af : lstat richTree ["a", "f"] = .ok (.file [1, 9, 3]) := by
  have hc : canon richTree ["a", "f"] = .ok ["b", "f"] := by
    show resolve richTree (39 + 1) [] ("a" :: "f" :: []) = _
    rw [rich_canon]; rfl
  unfold lstat; rw [hc]; rfl

theorem rich_lstat_acg : lstat richTree ["a", "c", "g"] = .ok (.file [4, 5]) := by
  have hc : canon richTree ["a", "c", "g"] = .ok ["b", "c", "g"] := by
    show resolve richTree (43 + 1) [] ("a" :: "c" :: "g" :: []) = _
    rw [rich_canon]; rfl
  unfold lstat; rw [hc]; rfl

/-- the directory wound of the link, and the one file wound that shows through it -/
theorem rich_validate : validate 2 100 richSigned richTree =
    .ok [⟨.dir, 0, 0, 0⟩, ⟨.file, 0, 0, 2⟩, ⟨.closedFile, 0, 2, 3⟩, ⟨.closedFile, 1, 0, 2⟩] := by
  simp only [validate, richSigned, dirWounds, symlinkWounds, filePassWounds, onDisk, rich_lstat_a, rich_lstat_ac,
    rich_lstat_al, rich_lstat_af, rich_lstat_acg, Outcome.bind]
  rfl

/-! #### children listed before their parent, and the parent replaced by a symlink

  `a/c` is listed before `a`; on disk `a` is a symlink to `b`, where `b/c` is a signed regular FILE that is
  intact.  The directory wound of `a/c` is handled first, while `a` is still a link: `Lstat(a/c)` finds the file
  `b/c` through the link, removes it and creates the directory `b/c` in its place — destroying an entry that had
  validated and that nothing heals afterwards. -/

def pfSigned : Signed := { dirs := [["a", "c"], ["a"], ["b"]], files := [(["b", "c"], [1, 2, 3])] }
def pfTree : Tree := { entries := [(["b"], .dir), (["b", "c"], .file [1, 2, 3]), (["a"], .symlink "b")] }
def pfTree₁ : Tree := { entries := [(["b"], .dir), (["a"], .symlink "b")] }
def pfTree₂ : Tree := { entries := [(["b"], .dir), (["a"], .symlink "b"), (["b", "c"], .dir)] }

theorem pf_canon_ac : canon pfTree ["a", "c"] = .ok ["b", "c"] := by
  show resolve pfTree (39 + 1) [] ("a" :: "c" :: []) = _
  rw [resolve_symlink_step _ _ _ _ _ _ "b" (by decide) (by rfl) startsWith_b, splitDest_b]
  rfl

theorem pf_lstat_ac : lstat pfTree ["a", "c"] = .ok (.file [1, 2, 3]) := by
  unfold lstat; rw [pf_canon_ac]; rfl

theorem pf_validate : validate 2 100 pfSigned pfTree =
    .ok [⟨.dir, 0, 0, 0⟩, ⟨.dir, 1, 0, 0⟩, ⟨.closedFile, 0, 0, 2⟩, ⟨.closedFile, 0, 2, 3⟩] := by
  have h1 : lstat pfTree ["a"] = .ok (.symlink "b") := by rfl
  have h2 : lstat pfTree ["b"] = .ok .dir := by rfl
  have h3 : lstat pfTree ["b", "c"] = .ok (.file [1, 2, 3]) := by rfl
  simp only [validate, pfSigned, dirWounds, symlinkWounds, filePassWounds, onDisk, pf_lstat_ac, h1, h2, h3,
    Outcome.bind]
  rfl

/-- `os.Remove("a/c")` removes `b/c` -/
theorem pf_remove : remove pfTree ["a", "c"] = .ok pfTree₁ := by
  unfold remove; rw [pf_canon_ac]; rfl

/-- `os.MkdirAll("a/c")` creates the directory `b/c` -/
theorem pf_mkdirs : mkdirs pfTree₁ ["a", "c"] = .ok pfTree₂ := by
  have hs : statFollow pfTree₁ 8 ["a"] = .ok (["b"], .dir) := by
    rw [statFollow_link_step pfTree₁ 7 ["a"] ["a"] "b" (by rfl) (by rfl) startsWith_b, splitDest_b]
    rfl
  show mkdirAll pfTree₁ (39 + 1) [] ("a" :: ["c"]) = _
  rw [mkdirAll]
  simp only [List.nil_append, hs]
  rfl

/-- the directory wound of `a/c`, handled through the link -/
theorem pf_healDir : healDir pfSigned (healDepth pfSigned) pfTree [] ["a", "c"] = .ok (pfTree₂, []) := by
  show healDir pfSigned (3 + 1) pfTree [] ["a", "c"] = _
  rw [healDir]
  simp only [pf_lstat_ac, pf_remove, pf_mkdirs]
  rfl

theorem pf_heal : (match validateAndHeal 2 100 pfSigned pfTree with
     | .ok t => (t.entries, failFastOk 2 100 pfSigned t) | _ => ([], true)) =
     ([(["b"], .dir), (["b", "c"], .dir), (["a"], .dir), (["a", "c"], .dir)], false) := by
  unfold validateAndHeal
  rw [show validate 2 100 pfSigned pfTree = _ from pf_validate]
  have h : processWounds pfSigned [⟨.dir, 0, 0, 0⟩, ⟨.dir, 1, 0, 0⟩, ⟨.closedFile, 0, 0, 2⟩, ⟨.closedFile, 0, 2, 3⟩]
      pfTree [] = processWounds pfSigned [⟨.dir, 1, 0, 0⟩, ⟨.closedFile, 0, 0, 2⟩, ⟨.closedFile, 0, 2, 3⟩]
      pfTree₂ [] := by
    rw [processWounds]
    show (match healDir pfSigned (healDepth pfSigned) pfTree [] ["a", "c"] with
      | .ok (t', q') => processWounds pfSigned _ t' q'
      | .error e => .error e) = _
    rw [pf_healDir]
  simp only [h]
  decide

end Wharf.Heal

