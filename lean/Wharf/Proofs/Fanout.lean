/-
  Helper lemmas for C15 (Wharf/Model/Fanout.lean): inductive invariants, enabledness (deadlock freedom) and
  termination measures of the two transition systems `MultiTS` (multiread fan-out + taskgroup) and `ScanTS`
  (bsdiff dispatcher / workers / collector).

  `ScanTS` is handled through a view-level system: `view f s` keeps the dispatcher's and collector's
  registers and, per worker, only (1) the token slot and (2) `stream`, the sequence of values the collector
  will still receive from that worker if nothing more is dispatched.  Worker-internal steps (`wPick`, `wSend`,
  `wExit`) do not change the view; `sstep_view` shows that the concrete system refines `VStep`; the
  invariant `VInv` is proved on views.  The worker-side facts needed only for deadlock freedom (`SAux`) are
  proved on the concrete state.  The last section ties `seqOut` to `Bsdiff.allMatches`.
-/
import Wharf.Model.Fanout
import Wharf.Model.Bsdiff
namespace Wharf.Fanout
open Wharf

/-! ## MultiTS -/

theorem afterRead_getD (b : List Byte) (m : Nat) : (afterRead b m).getD [] = b.drop m := by
  unfold afterRead; split <;> simp_all [List.isEmpty_iff]

@[simp] theorem take_drop_app {α : Type} (m : Nat) (b x : List α) : b.take m ++ (b.drop m ++ x) = b ++ x := by
  rw [← List.append_assoc, List.take_append_drop]

def b2n (b : Bool) : Nat := if b then 1 else 0

/-- The inductive invariant of `MultiTS` for upstream content `c`: the two data equations (nothing dropped,
    duplicated or reordered on either side), where a `Write` may be pending (only on the pipe the copier is
    currently writing to), the meaning of `eof`, when each pipe is closed (`c0`, `c1`), that a consumer
    finishes only after its pipe was closed, and the bookkeeping of taskgroup's `done` channel. -/
structure MInv (c : List Byte) (s : MSt) : Prop where
  data0 : s.reads0.flatten ++ (s.pipe0.getD [] ++ s.up) = c
  data1 : s.reads1.flatten ++ (s.pipe1.getD [] ++ ((if s.pc = .write0 then s.hand else []) ++ s.up)) = c
  p0 : s.pc ≠ .write0 → s.pipe0 = none
  p1 : s.pc ≠ .write1 → s.pipe1 = none
  eofUp : s.eof = true → s.up = []
  rdEof : s.pc = .read → s.eof = false
  clEof : s.pc = .close0 ∨ s.pc = .close1 ∨ s.pc = .done → s.eof = true
  c0 : s.closed0 = true ↔ (s.pc = .close1 ∨ s.pc = .done)
  c1 : s.closed1 = true ↔ s.pc = .done
  f0 : s.fin0 = true → s.closed0 = true
  f1 : s.fin1 = true → s.closed1 = true
  cnt : s.doneQ + s.recvd = b2n s.fin0 + b2n s.fin1 + (if s.pc = .done then 1 else 0)
  mkr : s.marker = true → s.recvd = 3

theorem minv_init (c : List Byte) : MInv c (minit c) := by
  constructor <;> simp [minit, b2n]

theorem minv_step {c : List Byte} {s s' : MSt} {l : MLbl} (hi : MInv c s) (hs : mstep s l = some s') :
    MInv c s' := by
  obtain ⟨h1, h2, h3, h4, h5, h6, h7, h8, h9, h10, h11, h12, h13⟩ := hi
  rcases s with ⟨up, eof, hand, pc, pipe0, pipe1, cl0, cl1, r0, r1, f0, f1, dq, rc, mk⟩
  dsimp only at h1 h2 h3 h4 h5 h6 h7 h8 h9 h10 h11 h12 h13
  cases l <;> simp only [mstep] at hs <;> (repeat' split at hs) <;>
    first
    | (cases hs; done)
    | (cases hs; constructor <;> simp_all [afterRead_getD, b2n] <;> first | omega | grind)

theorem minv_reach {c : List Byte} {s : MSt} (h : MReach c s) : MInv c s := by
  induction h with
  | init => exact minv_init c
  | step _ hs ih => exact minv_step ih hs

/-! ### termination measure -/

def pcCost (hand : List Byte) : RPc → Nat
  | .read => 0
  | .write0 => hand.length + 5
  | .write1 => 3
  | .close0 => 2
  | .close1 => 1
  | .done => 0

def pipeCost : Option (List Byte) → Nat
  | none => 0
  | some b => b.length + 1

def mmu (s : MSt) : Nat :=
  10 * s.up.length + (if s.eof then 0 else 10) + pcCost s.hand s.pc + pipeCost s.pipe0 + pipeCost s.pipe1
    + (if s.fin0 then 0 else 1) + (if s.fin1 then 0 else 1) + (3 - s.recvd) + (if s.marker then 0 else 1)

theorem pipeCost_afterRead (b : List Byte) (m : Nat) (hm : 1 ≤ m) :
    pipeCost (afterRead b m) < pipeCost (some b) := by
  unfold afterRead
  split
  · simp [pipeCost]
  · rename_i h
    have : b.drop m ≠ [] := by simpa [List.isEmpty_iff] using h
    have hl : 0 < (b.drop m).length := List.length_pos_iff.mpr this
    simp only [pipeCost, List.length_drop] at *
    omega

theorem mmu_step {c : List Byte} {s s' : MSt} {l : MLbl} (hi : MInv c s) (hs : mstep s l = some s') :
    mmu s' < mmu s := by
  have h3 := hi.p0
  have h4 := hi.p1
  have h6 := hi.rdEof
  rcases s with ⟨up, eof, hand, pc, pipe0, pipe1, cl0, cl1, r0, r1, f0, f1, dq, rc, mk⟩
  dsimp only at h3 h4 h6
  cases l with
  | cRead0 m =>
    simp only [mstep] at hs
    split at hs
    · rename_i x b
      split at hs
      · rename_i hh
        cases hs
        have := pipeCost_afterRead b m hh.1
        simp only [mmu]
        omega
      · cases hs
    · cases hs
  | cRead1 m =>
    simp only [mstep] at hs
    split at hs
    · rename_i x b
      split at hs
      · rename_i hh
        cases hs
        have := pipeCost_afterRead b m hh.1
        simp only [mmu]
        omega
      · cases hs
    · cases hs
  | _ =>
    simp only [mstep] at hs <;> (repeat' split at hs) <;>
    first
    | (cases hs; done)
    | (cases hs; simp_all [mmu, pcCost, pipeCost] <;> (try split) <;> omega)

/-! ### enabledness -/

theorem menabled {s : MSt} (l : MLbl) (h : (mstep s l).isSome = true) : ∃ l s', mstep s l = some s' :=
  ⟨l, (mstep s l).get h, by simp⟩

theorem minv_progress {c : List Byte} {s : MSt} (hi : MInv c s) (hm : s.marker = false) :
    ∃ l s', mstep s l = some s' := by
  obtain ⟨h1, h2, h3, h4, h5, h6, h7, h8, h9, h10, h11, h12, h13⟩ := hi
  rcases s with ⟨up, eof, hand, pc, pipe0, pipe1, cl0, cl1, r0, r1, f0, f1, dq, rc, mk⟩
  dsimp only at h1 h2 h3 h4 h5 h6 h7 h8 h9 h10 h11 h12 h13 hm
  cases pc with
  | read =>
    cases up with
    | nil => exact menabled .rEof (by simp [mstep])
    | cons x xs => exact menabled (.rRead 1 false) (by simp [mstep])
  | write0 =>
    cases pipe0 with
    | none => exact menabled .wNext (by simp [mstep])
    | some b =>
      have : cl0 = false := by cases cl0 <;> simp_all
      have : f0 = false := by cases f0 <;> simp_all
      exact menabled (.cRead0 1) (by simp [mstep, *])
  | write1 =>
    cases pipe1 with
    | none => exact menabled .wLoop (by simp [mstep])
    | some b =>
      have : cl1 = false := by cases cl1 <;> simp_all
      have : f1 = false := by cases f1 <;> simp_all
      exact menabled (.cRead1 1) (by simp [mstep, *])
  | close0 => exact menabled .rClose0 (by simp [mstep])
  | close1 =>
    have : dq < 3 := by
      simp [b2n] at h12; cases f0 <;> cases f1 <;> simp_all <;> omega
    exact menabled .rClose1 (by simp [mstep, *])
  | done =>
    have hc0 : cl0 = true := by simp_all
    have hc1 : cl1 = true := by simp_all
    cases hf0 : f0 with
    | false =>
      have : dq < 3 := by simp [b2n, hf0] at h12; cases f1 <;> simp_all <;> omega
      exact menabled .cEof0 (by simp [mstep, *])
    | true =>
      cases hf1 : f1 with
      | false =>
        have : dq < 3 := by simp [b2n, hf0, hf1] at h12; omega
        exact menabled .cEof1 (by simp [mstep, *])
      | true =>
        simp [b2n, hf0, hf1] at h12
        by_cases hr : rc < 3
        · exact menabled .tgRecv (by simp [mstep, hr]; omega)
        · exact menabled .tgMarker (by simp [mstep, hm]; omega)

/-- once the end marker is written nothing can move any more: terminal states are final -/
theorem minv_terminal_stuck {c : List Byte} {s : MSt} (hi : MInv c s) (hm : s.marker = true) (l : MLbl) :
    mstep s l = none := by
  obtain ⟨h1, h2, h3, h4, h5, h6, h7, h8, h9, h10, h11, h12, h13⟩ := hi
  rcases s with ⟨up, eof, hand, pc, pipe0, pipe1, cl0, cl1, r0, r1, f0, f1, dq, rc, mk⟩
  dsimp only at h1 h2 h3 h4 h5 h6 h7 h8 h9 h10 h11 h12 h13 hm
  have hrc := h13 hm
  subst hrc hm
  have hall : f0 = true ∧ f1 = true ∧ pc = .done ∧ dq = 0 := by
    simp only [b2n] at h12
    refine ⟨?_, ?_, ?_, ?_⟩ <;> (repeat' split at h12) <;> first | omega | simp_all
  obtain ⟨rfl, rfl, rfl, rfl⟩ := hall
  have hp0 := h3 (by decide)
  have hp1 := h4 (by decide)
  subst hp0 hp1
  cases l <;> simp [mstep]

/-! ### running a concrete schedule -/

theorem mreach_run {c : List Byte} {s s' : MSt} (h : MReach c s) (ls : List MLbl) (hr : mrun s ls = some s') :
    MReach c s' := by
  induction ls generalizing s with
  | nil =>
    simp only [mrun, Option.some.injEq] at hr
    exact hr ▸ h
  | cons l ls ih =>
    simp only [mrun] at hr
    cases hl : mstep s l with
    | none => simp [hl] at hr
    | some s1 =>
      rw [hl] at hr
      exact ih (.step h hl) hr

theorem mexists_of_run (c : List Byte) (ls : List MLbl) (p : MSt → Prop) [DecidablePred p]
    (h : (mrun (minit c) ls).any (fun s => decide (p s)) = true) : ∃ s, MReach c s ∧ p s := by
  cases hr : mrun (minit c) ls with
  | none => simp [hr] at h
  | some s =>
    rw [hr] at h
    exact ⟨s, mreach_run .init ls hr, by simpa using h⟩

/-! ## ScanTS -/

section Scan
variable {M : Type}

def updf {α : Type} (g : Nat → α) (w : Nat) (v : α) : Nat → α := fun k => if k = w then v else g k

@[simp] theorem updf_same {α : Type} (g : Nat → α) (w : Nat) (v : α) : updf g w v w = v := by simp [updf]
theorem updf_other {α : Type} (g : Nat → α) {w k : Nat} (h : k ≠ w) (v : α) : updf g w v k = g k := by
  simp [updf, h]

theorem mod_ne_of_lt {W a b : Nat} (h1 : a < b) (h2 : b < a + W) : a % W ≠ b % W := by
  intro h
  have h0 := Nat.sub_mod_eq_zero_of_mod_eq h.symm
  have h3 : (b - a) % W = b - a := Nat.mod_eq_of_lt (by omega)
  omega

theorem seqOut_succ (f : Nat → List M) (k : Nat) : seqOut f (k + 1) = seqOut f k ++ f k := by
  simp [seqOut, List.range_succ, List.flatMap_append]

theorem items_length (r : List M) : (items r).length = r.length + 1 := by simp [items]

theorem items_drop_lt (r : List M) (k : Nat) (h : k < r.length) :
    (items r).drop k = Item.m r[k] :: (items r).drop (k + 1) := by
  have hk : k < (items r).length := by rw [items_length]; omega
  rw [List.drop_eq_getElem_cons hk]
  congr 1
  simp [items, List.getElem_append_left, h]

theorem items_drop_eq (r : List M) : (items r).drop r.length = [Item.eoc] := by
  simp [items]

/-- what the dispatcher and the collector can observe of the workers: the token slot and, per worker, the
    stream of values the collector will still receive from it if nothing more is dispatched -/
def stream (f : Nat → List M) (wk : Worker M) : List (Item M) :=
  wk.out ++ (wk.rest ++ (match wk.work with | some j => items (f j) | none => []))

structure View (M : Type) where
  di : Nat
  dw : Nat
  dpc : DPc
  ci : Nat
  cw : Nat
  cpc : CPc
  fwd : List M
  closed : Bool
  str : Nat → List (Item M)
  tok : Nat → Bool

def view (f : Nat → List M) (s : SSt M) : View M :=
  { di := s.di, dw := s.dw, dpc := s.dpc, ci := s.ci, cw := s.cw, cpc := s.cpc, fwd := s.fwd,
    closed := s.closed, str := fun w => stream f (s.ws w), tok := fun w => (s.ws w).token }

/-- the transitions as seen on views (`tau`: the worker-internal steps `wPick`, `wSend`, `wExit`, which leave
    the view unchanged; `close`: `close(work)` only moves the dispatcher's program counter) -/
inductive VStep (W n : Nat) (f : Nat → List M) : View M → View M → Prop where
  | tau (v : View M) : VStep W n f v v
  | take (v : View M) : v.dpc = .take → v.di < n → v.tok v.dw = true →
      VStep W n f v { v with tok := updf v.tok v.dw false, dpc := .send }
  | send (v : View M) : v.dpc = .send →
      VStep W n f v { v with str := updf v.str v.dw (v.str v.dw ++ items (f v.di)),
                             di := v.di + 1, dw := (v.dw + 1) % W, dpc := .take }
  | loopEnd (v : View M) : v.dpc = .take → ¬ v.di < n → VStep W n f v { v with dpc := .closing 0 }
  | close (v : View M) (k : Nat) (p : DPc) : v.dpc = .closing k → (p = .closing (k + 1) ∨ p = .done) →
      VStep W n f v { v with dpc := p }
  | recvM (v : View M) (y : M) (r : List (Item M)) : v.cpc = .recv → v.ci < n → v.str v.cw = .m y :: r →
      VStep W n f v { v with str := updf v.str v.cw r, fwd := v.fwd ++ [y] }
  | recvE (v : View M) (r : List (Item M)) : v.cpc = .recv → v.ci < n → v.str v.cw = .eoc :: r →
      VStep W n f v { v with str := updf v.str v.cw r, cpc := .handback }
  | hand (v : View M) : v.cpc = .handback → v.tok v.cw = false →
      VStep W n f v { v with tok := updf v.tok v.cw true, ci := v.ci + 1, cw := (v.cw + 1) % W, cpc := .recv }
  | cclose (v : View M) : v.cpc = .recv → ¬ v.ci < n → VStep W n f v { v with closed := true, cpc := .done }

/-- The inductive invariant on views.  Blocks `ci ≤ j < di` are "in flight" (handed out, not yet handed
    back); at most `W` of them (`le3`), block `j` lives in worker `j % W` (`infl`): that worker's token is out
    and, unless it is the block the collector is reading, the collector will receive from it exactly
    `items (f j)`.  All other workers are empty and hold their token unless the dispatcher has just taken it
    (`idle`).  `cur` describes the block being collected: `k` of its matches have been forwarded and the
    rest (with the end-of-chunk marker) is still to come from worker `cw`. -/
structure VInv (W n : Nat) (f : Nat → List M) (v : View M) : Prop where
  le1 : v.ci ≤ v.di
  le2 : v.di ≤ n
  le3 : v.di ≤ v.ci + W
  dwEq : v.dw = v.di % W
  cwEq : v.cw = v.ci % W
  sendLt : v.dpc = .send → v.di < n ∧ v.di < v.ci + W
  dEnd : v.dpc = .take ∨ v.dpc = .send ∨ v.di = n
  hbLt : v.cpc = .handback → v.ci < v.di
  cDone : v.cpc = .done → v.ci = n
  clDone : v.closed = true ↔ v.cpc = .done
  infl : ∀ j, v.ci ≤ j → j < v.di →
    v.tok (j % W) = false ∧ (j ≠ v.ci → v.str (j % W) = items (f j))
  idle : ∀ w, w < W → (∀ j, v.ci ≤ j → j < v.di → j % W ≠ w) →
    v.str w = [] ∧ (v.tok w = true ↔ ¬ (v.dpc = .send ∧ v.dw = w))
  cur : ∃ k, k ≤ (f v.ci).length ∧ v.fwd = seqOut f v.ci ++ (f v.ci).take k ∧
      (v.di ≤ v.ci → k = 0) ∧
      (v.cpc = .recv → v.ci < v.di → v.str v.cw = (items (f v.ci)).drop k) ∧
      (v.cpc = .handback → k = (f v.ci).length ∧ v.str v.cw = [])

theorem vinv_init (W n : Nat) (f : Nat → List M) : VInv W n f (view f (sinit M)) := by
  constructor <;> simp [view, sinit, stream, seqOut]

theorem vinv_take {W n : Nat} {f : Nat → List M} {v : View M} (hW : 0 < W) (hi : VInv W n f v)
    (hpc : v.dpc = .take) (hlt : v.di < n) (htok : v.tok v.dw = true) :
    VInv W n f { v with tok := updf v.tok v.dw false, dpc := .send } := by
  have hlt2 : v.di < v.ci + W := by
    rcases Nat.lt_or_ge v.di (v.ci + W) with h | h
    · exact h
    · have he : v.di = v.ci + W := Nat.le_antisymm hi.le3 h
      have h1 := (hi.infl v.ci (Nat.le_refl _) (by omega)).1
      have h2 : v.dw = v.ci % W := by rw [hi.dwEq, he, Nat.add_mod_right]
      rw [h2] at htok
      rw [h1] at htok
      cases htok
  refine { hi with sendLt := ?_, dEnd := ?_, infl := ?_, idle := ?_ }
  · intro _; exact ⟨hlt, hlt2⟩
  · exact Or.inr (Or.inl rfl)
  · intro j h1 h2
    have := hi.infl j h1 h2
    refine ⟨?_, this.2⟩
    show updf v.tok v.dw false (j % W) = false
    by_cases h : j % W = v.dw
    · rw [h]; simp
    · rw [updf_other _ h]; exact this.1
  · intro w hw hj
    have := hi.idle w hw hj
    refine ⟨this.1, ?_⟩
    show updf v.tok v.dw false w = true ↔ ¬ (DPc.send = DPc.send ∧ v.dw = w)
    by_cases h : w = v.dw
    · subst h; simp
    · rw [updf_other _ h]
      have h' : ¬ v.dw = w := fun e => h e.symm
      simp [this.2, hpc, h']

theorem vinv_send {W n : Nat} {f : Nat → List M} {v : View M} (hW : 0 < W) (hi : VInv W n f v)
    (hpc : v.dpc = .send) :
    VInv W n f { v with str := updf v.str v.dw (v.str v.dw ++ items (f v.di)),
                        di := v.di + 1, dw := (v.dw + 1) % W, dpc := .take } := by
  obtain ⟨hlt, hlt2⟩ := hi.sendLt hpc
  have hle1 := hi.le1
  have hA : ∀ j, v.ci ≤ j → j < v.di → j % W ≠ v.dw := by
    intro j h1 h2
    rw [hi.dwEq]
    exact mod_ne_of_lt h2 (by omega)
  have hdwW : v.dw < W := by rw [hi.dwEq]; exact Nat.mod_lt _ hW
  have hB := hi.idle v.dw hdwW hA
  have hB1 : v.str v.dw = [] := hB.1
  have hB2 : v.tok v.dw = false := by
    have := hB.2
    cases h : v.tok v.dw with
    | false => rfl
    | true => rw [h] at this; simp [hpc] at this
  obtain ⟨k, hk1, hk2, hk3, hk4, hk5⟩ := hi.cur
  refine { le1 := ?_, le2 := ?_, le3 := ?_, dwEq := ?_, cwEq := hi.cwEq, sendLt := ?_, dEnd := ?_, hbLt := ?_,
           cDone := hi.cDone, clDone := hi.clDone, infl := ?_, idle := ?_, cur := ?_ }
  · show v.ci ≤ v.di + 1
    omega
  · show v.di + 1 ≤ n
    omega
  · show v.di + 1 ≤ v.ci + W
    omega
  · show (v.dw + 1) % W = (v.di + 1) % W
    rw [hi.dwEq, Nat.mod_add_mod]
  · intro h; cases h
  · exact Or.inl rfl
  · intro _
    show v.ci < v.di + 1
    omega
  · intro j h1 h2
    show v.tok (j % W) = false ∧ (j ≠ v.ci → updf v.str v.dw (v.str v.dw ++ items (f v.di)) (j % W) = items (f j))
    have h2' : j < v.di + 1 := h2
    by_cases hj : j = v.di
    · subst hj
      rw [← hi.dwEq]
      refine ⟨hB2, fun _ => ?_⟩
      simp [hB1]
    · have hj2 : j < v.di := by omega
      have hne := hA j h1 hj2
      rw [updf_other _ hne]
      exact hi.infl j h1 hj2
  · intro w hw hj
    show updf v.str v.dw (v.str v.dw ++ items (f v.di)) w = [] ∧ (v.tok w = true ↔ ¬ (DPc.take = DPc.send ∧ (v.dw + 1) % W = w))
    have hj' : ∀ j, v.ci ≤ j → j < v.di + 1 → j % W ≠ w := hj
    have hne : w ≠ v.dw := by
      intro e
      exact hj' v.di hle1 (by omega) (by rw [e, hi.dwEq])
    have hne' : ¬ v.dw = w := fun e => hne e.symm
    have := hi.idle w hw (fun j h1 h2 => hj' j h1 (by omega))
    rw [updf_other _ hne]
    refine ⟨this.1, ?_⟩
    simp [this.2, hpc, hne']
  · refine ⟨k, hk1, hk2, ?_, ?_, ?_⟩
    · intro h
      have h' : v.di + 1 ≤ v.ci := h
      omega
    · intro hc hlt3
      show updf v.str v.dw (v.str v.dw ++ items (f v.di)) v.cw = (items (f v.ci)).drop k
      have hlt3' : v.ci < v.di + 1 := hlt3
      by_cases hcd : v.ci < v.di
      · have hne : v.cw ≠ v.dw := by rw [hi.cwEq]; exact hA v.ci (Nat.le_refl _) hcd
        rw [updf_other _ hne]
        exact hk4 hc hcd
      · have he : v.ci = v.di := by omega
        have hk0 : k = 0 := hk3 (by omega)
        have hcw : v.cw = v.dw := by rw [hi.cwEq, hi.dwEq, he]
        rw [hcw, hk0, he]
        simp [hB1]
    · intro hc
      show k = (f v.ci).length ∧ updf v.str v.dw (v.str v.dw ++ items (f v.di)) v.cw = []
      have hcd := hi.hbLt hc
      have hne : v.cw ≠ v.dw := by rw [hi.cwEq]; exact hA v.ci (Nat.le_refl _) hcd
      rw [updf_other _ hne]
      exact hk5 hc

theorem vinv_dpc {W n : Nat} {f : Nat → List M} {v : View M} (hi : VInv W n f v) (p : DPc)
    (h1 : v.dpc ≠ .send) (h2 : p ≠ .send) (h3 : p = .take ∨ v.di = n) :
    VInv W n f { v with dpc := p } := by
  refine { hi with sendLt := ?_, dEnd := ?_, idle := ?_ }
  · intro h; exact absurd h h2
  · rcases h3 with h | h
    · exact Or.inl h
    · exact Or.inr (Or.inr h)
  · intro w hw hj
    have := hi.idle w hw hj
    refine ⟨this.1, ?_⟩
    show v.tok w = true ↔ ¬ (p = DPc.send ∧ v.dw = w)
    simp [this.2, h1, h2]

/-- the collector's worker holds block `ci` whenever it has something to deliver -/
theorem vinv_cw_busy {W n : Nat} {f : Nat → List M} {v : View M} (hW : 0 < W) (hi : VInv W n f v)
    (hne : v.str v.cw ≠ []) : v.ci < v.di := by
  rcases Nat.lt_or_ge v.ci v.di with h | h
  · exact h
  · exfalso
    have hcw : v.cw < W := by rw [hi.cwEq]; exact Nat.mod_lt _ hW
    exact hne (hi.idle v.cw hcw (fun j h1 h2 => by omega)).1

theorem vinv_other {W : Nat} {v : View M} {j : Nat} (hcw : v.cw = v.ci % W) (h1 : v.ci ≤ j) (h2 : j < v.di)
    (h3 : v.di ≤ v.ci + W) (hne : j ≠ v.ci) : j % W ≠ v.cw := by
  rw [hcw]
  exact fun e => mod_ne_of_lt (a := v.ci) (b := j) (by omega) (by omega) e.symm

theorem vinv_recvM {W n : Nat} {f : Nat → List M} {v : View M} (hW : 0 < W) (hi : VInv W n f v)
    (y : M) (r : List (Item M)) (hpc : v.cpc = .recv) (hs : v.str v.cw = .m y :: r) :
    VInv W n f { v with str := updf v.str v.cw r, fwd := v.fwd ++ [y] } := by
  have hcd : v.ci < v.di := vinv_cw_busy hW hi (by rw [hs]; simp)
  obtain ⟨k, hk1, hk2, hk3, hk4, hk5⟩ := hi.cur
  have hk4' := hk4 hpc hcd
  rw [hs] at hk4'
  have hklt : k < (f v.ci).length := by
    rcases Nat.lt_or_ge k (f v.ci).length with h | h
    · exact h
    · have : k = (f v.ci).length := by omega
      rw [this, items_drop_eq] at hk4'
      simp at hk4'
  rw [items_drop_lt _ _ hklt] at hk4'
  have hy : y = (f v.ci)[k] := by simpa using (List.cons.inj hk4').1
  have hr : r = (items (f v.ci)).drop (k + 1) := (List.cons.inj hk4').2
  refine { hi with infl := ?_, idle := ?_, cur := ?_ }
  · intro j h1 h2
    have := hi.infl j h1 h2
    refine ⟨this.1, fun hne => ?_⟩
    show updf v.str v.cw r (j % W) = items (f j)
    rw [updf_other _ (vinv_other hi.cwEq h1 h2 hi.le3 hne)]
    exact this.2 hne
  · intro w hw hj
    have := hi.idle w hw hj
    refine ⟨?_, this.2⟩
    show updf v.str v.cw r w = []
    have hne : w ≠ v.cw := by
      intro e
      exact hj v.ci (Nat.le_refl _) hcd (by rw [e, hi.cwEq])
    rw [updf_other _ hne]
    exact this.1
  · refine ⟨k + 1, hklt, ?_, ?_, ?_, ?_⟩
    · show v.fwd ++ [y] = seqOut f v.ci ++ (f v.ci).take (k + 1)
      rw [hk2, hy, List.take_succ_eq_append_getElem hklt, List.append_assoc]
    · intro h
      have h' : v.di ≤ v.ci := h
      omega
    · intro _ _
      show updf v.str v.cw r v.cw = _
      rw [updf_same, hr]
    · intro h
      have h' : v.cpc = .handback := h
      rw [hpc] at h'
      cases h'

theorem vinv_recvE {W n : Nat} {f : Nat → List M} {v : View M} (hW : 0 < W) (hi : VInv W n f v)
    (r : List (Item M)) (hpc : v.cpc = .recv) (hs : v.str v.cw = .eoc :: r) :
    VInv W n f { v with str := updf v.str v.cw r, cpc := .handback } := by
  have hcd : v.ci < v.di := vinv_cw_busy hW hi (by rw [hs]; simp)
  obtain ⟨k, hk1, hk2, hk3, hk4, hk5⟩ := hi.cur
  have hk4' := hk4 hpc hcd
  rw [hs] at hk4'
  have hke : k = (f v.ci).length := by
    rcases Nat.lt_or_ge k (f v.ci).length with h | h
    · rw [items_drop_lt _ _ h] at hk4'
      simp at hk4'
    · omega
  rw [hke, items_drop_eq] at hk4'
  have hr : r = [] := (List.cons.inj hk4').2
  have hcl : v.closed = false := by
    cases h : v.closed with
    | false => rfl
    | true =>
      have := hi.clDone.mp h
      rw [hpc] at this
      cases this
  refine { hi with hbLt := ?_, cDone := ?_, clDone := ?_, infl := ?_, idle := ?_, cur := ?_ }
  · intro _; exact hcd
  · intro h; cases h
  · show v.closed = true ↔ CPc.handback = CPc.done
    simp [hcl]
  · intro j h1 h2
    have := hi.infl j h1 h2
    refine ⟨this.1, fun hne => ?_⟩
    show updf v.str v.cw r (j % W) = items (f j)
    rw [updf_other _ (vinv_other hi.cwEq h1 h2 hi.le3 hne)]
    exact this.2 hne
  · intro w hw hj
    have := hi.idle w hw hj
    refine ⟨?_, this.2⟩
    show updf v.str v.cw r w = []
    have hne : w ≠ v.cw := by
      intro e
      exact hj v.ci (Nat.le_refl _) hcd (by rw [e, hi.cwEq])
    rw [updf_other _ hne]
    exact this.1
  · refine ⟨k, hk1, hk2, hk3, ?_, ?_⟩
    · intro h; cases h
    · intro _
      show k = (f v.ci).length ∧ updf v.str v.cw r v.cw = []
      rw [updf_same]
      exact ⟨hke, hr⟩

theorem vinv_hand {W n : Nat} {f : Nat → List M} {v : View M} (hi : VInv W n f v)
    (hpc : v.cpc = .handback) :
    VInv W n f { v with tok := updf v.tok v.cw true, ci := v.ci + 1, cw := (v.cw + 1) % W, cpc := .recv } := by
  have hcd : v.ci < v.di := hi.hbLt hpc
  have hle3 := hi.le3
  obtain ⟨k, hk1, hk2, hk3, hk4, hk5⟩ := hi.cur
  obtain ⟨hke, hse⟩ := hk5 hpc
  have hcl : v.closed = false := by
    cases h : v.closed with
    | false => rfl
    | true =>
      have := hi.clDone.mp h
      rw [hpc] at this
      cases this
  refine { le1 := ?_, le2 := hi.le2, le3 := ?_, dwEq := hi.dwEq, cwEq := ?_, sendLt := ?_, dEnd := hi.dEnd,
           hbLt := ?_, cDone := ?_, clDone := ?_, infl := ?_, idle := ?_, cur := ?_ }
  · show v.ci + 1 ≤ v.di
    omega
  · show v.di ≤ v.ci + 1 + W
    omega
  · show (v.cw + 1) % W = (v.ci + 1) % W
    rw [hi.cwEq, Nat.mod_add_mod]
  · intro h
    have := hi.sendLt h
    show v.di < n ∧ v.di < v.ci + 1 + W
    omega
  · intro h; cases h
  · intro h; cases h
  · show v.closed = true ↔ CPc.recv = CPc.done
    simp [hcl]
  · intro j h1 h2
    have h1' : v.ci + 1 ≤ j := h1
    have := hi.infl j (by omega) h2
    have hne : j ≠ v.ci := by omega
    show updf v.tok v.cw true (j % W) = false ∧ (j ≠ v.ci + 1 → v.str (j % W) = items (f j))
    rw [updf_other _ (vinv_other hi.cwEq (by omega) h2 hi.le3 hne)]
    exact ⟨this.1, fun _ => this.2 hne⟩
  · intro w hw hj
    have hj' : ∀ j, v.ci + 1 ≤ j → j < v.di → j % W ≠ w := hj
    show v.str w = [] ∧ (updf v.tok v.cw true w = true ↔ ¬ (v.dpc = .send ∧ v.dw = w))
    by_cases hwc : w = v.cw
    · subst hwc
      refine ⟨hse, ?_⟩
      rw [updf_same]
      simp only [true_iff]
      intro ⟨hs, he⟩
      have := (hi.sendLt hs).2
      rw [hi.dwEq, hi.cwEq] at he
      exact mod_ne_of_lt hcd this he.symm
    · rw [updf_other _ hwc]
      refine hi.idle w hw (fun j h1 h2 => ?_)
      by_cases hjc : j = v.ci
      · rw [hjc, ← hi.cwEq]; exact fun e => hwc e.symm
      · exact hj' j (by omega) h2
  · refine ⟨0, Nat.zero_le _, ?_, fun _ => rfl, ?_, ?_⟩
    · show v.fwd = seqOut f (v.ci + 1) ++ (f (v.ci + 1)).take 0
      rw [hk2, hke, seqOut_succ]
      simp
    · intro _ hlt
      have hlt' : v.ci + 1 < v.di := hlt
      show v.str ((v.cw + 1) % W) = (items (f (v.ci + 1))).drop 0
      have := (hi.infl (v.ci + 1) (by omega) hlt').2 (by omega)
      rw [hi.cwEq, Nat.mod_add_mod, this]
      rfl
    · intro h; cases h

theorem vinv_cclose {W n : Nat} {f : Nat → List M} {v : View M} (hi : VInv W n f v)
    (hn : ¬ v.ci < n) :
    VInv W n f { v with closed := true, cpc := .done } := by
  obtain ⟨k, hk1, hk2, hk3, hk4, hk5⟩ := hi.cur
  refine { hi with hbLt := ?_, cDone := ?_, clDone := ?_, cur := ?_ }
  · intro h; cases h
  · intro _
    have := hi.le1
    have := hi.le2
    show v.ci = n
    omega
  · simp
  · refine ⟨k, hk1, hk2, hk3, ?_, ?_⟩
    · intro h; cases h
    · intro h; cases h

theorem vinv_step {W n : Nat} {f : Nat → List M} {v v' : View M} (hW : 0 < W) (hi : VInv W n f v)
    (hs : VStep W n f v v') : VInv W n f v' := by
  cases hs with
  | tau => exact hi
  | take h1 h2 h3 => exact vinv_take hW hi h1 h2 h3
  | send h1 => exact vinv_send hW hi h1
  | loopEnd h1 h2 =>
    refine vinv_dpc hi _ (by rw [h1]; decide) (by decide) (Or.inr ?_)
    have := hi.le2
    omega
  | close k p h1 h2 =>
    refine vinv_dpc hi p (by rw [h1]; exact fun h => by cases h) ?_ (Or.inr ?_)
    · rcases h2 with h | h <;> (rw [h]; exact fun h => by cases h)
    · rcases hi.dEnd with h | h | h
      · rw [h1] at h; cases h
      · rw [h1] at h; cases h
      · exact h
  | recvM y r h1 _ h3 => exact vinv_recvM hW hi y r h1 h3
  | recvE r h1 _ h3 => exact vinv_recvE hW hi r h1 h3
  | hand h1 _ => exact vinv_hand hi h1
  | cclose _ h2 => exact vinv_cclose hi h2

/-! ### the concrete system refines the view-level system -/

theorem str_upd (f : Nat → List M) (ws : Nat → Worker M) (w : Nat) (wk : Worker M) :
    (fun k => stream f (upd ws w wk k)) = updf (fun k => stream f (ws k)) w (stream f wk) := by
  funext k
  simp only [upd, updf]
  split <;> rfl

theorem tok_upd (ws : Nat → Worker M) (w : Nat) (wk : Worker M) :
    (fun k => (upd ws w wk k).token) = updf (fun k => (ws k).token) w wk.token := by
  funext k
  simp only [upd, updf]
  split <;> rfl

theorem updf_self {α : Type} (g : Nat → α) (w : Nat) (x : α) (h : x = g w) : updf g w x = g := by
  funext k
  simp only [updf]
  split
  · rename_i e; rw [e, h]
  · rfl

theorem vstep_cast {W n : Nat} {f : Nat → List M} {v v' v'' : View M} (h : VStep W n f v v') (e : v'' = v') :
    VStep W n f v v'' := e ▸ h

theorem sstep_view {W n cap : Nat} {f : Nat → List M} {s s' : SSt M} {l : SLbl}
    (hs : sstep W n cap f s l = some s') : VStep W n f (view f s) (view f s') := by
  cases l with
  | dTake =>
    simp only [sstep] at hs
    split at hs
    · rename_i h
      cases hs
      refine vstep_cast (VStep.take (view f s) h.1 h.2.1 h.2.2) ?_
      simp only [view, str_upd, tok_upd]
      congr 1
      exact updf_self _ _ _ rfl
    · cases hs
  | dSend =>
    simp only [sstep] at hs
    split at hs
    · rename_i h
      cases hs
      refine vstep_cast (VStep.send (view f s) h.1) ?_
      simp only [view, str_upd, tok_upd]
      congr 1
      · congr 1
        simp [stream, h.2]
      · exact updf_self _ _ _ rfl
    · cases hs
  | dLoopEnd =>
    simp only [sstep] at hs
    split at hs
    · rename_i h
      cases hs
      exact VStep.loopEnd (view f s) h.1 h.2
    · cases hs
  | dClose =>
    simp only [sstep] at hs
    split at hs
    · rename_i k hk
      split at hs
      · cases hs
        refine vstep_cast (VStep.close (view f s) k (.closing (k + 1)) hk (Or.inl rfl)) ?_
        simp only [view, str_upd, tok_upd]
        congr 1
        · exact updf_self _ _ _ rfl
        · exact updf_self _ _ _ rfl
      · cases hs
        exact VStep.close (view f s) k .done hk (Or.inr rfl)
    · cases hs
  | wPick w =>
    simp only [sstep] at hs
    split at hs
    · rename_i j hj
      split at hs
      · rename_i h
        cases hs
        refine vstep_cast (VStep.tau (view f s)) ?_
        simp only [view, str_upd, tok_upd]
        congr 1
        · refine updf_self _ _ _ ?_
          have hr : (s.ws w).rest = [] := by simpa [List.isEmpty_iff] using h.2.2
          simp [stream, hj, hr]
        · exact updf_self _ _ _ rfl
      · cases hs
    · cases hs
  | wSend w =>
    simp only [sstep] at hs
    split at hs
    · rename_i x r hx
      split at hs
      · cases hs
        refine vstep_cast (VStep.tau (view f s)) ?_
        simp only [view, str_upd, tok_upd]
        congr 1
        · refine updf_self _ _ _ ?_
          simp [stream, hx]
        · exact updf_self _ _ _ rfl
      · cases hs
    · cases hs
  | wExit w =>
    simp only [sstep] at hs
    split at hs
    · cases hs
      refine vstep_cast (VStep.tau (view f s)) ?_
      simp only [view, str_upd, tok_upd]
      congr 1
      · exact updf_self _ _ _ rfl
      · exact updf_self _ _ _ rfl
    · cases hs
  | cRecv =>
    simp only [sstep] at hs
    split at hs
    · rename_i h
      split at hs
      · rename_i y o ho
        cases hs
        refine vstep_cast (VStep.recvM (view f s) y
          (o ++ ((s.ws s.cw).rest ++ (match (s.ws s.cw).work with | some j => items (f j) | none => [])))
          h.1 h.2 (by simp [view, stream, ho])) ?_
        simp only [view, str_upd, tok_upd]
        congr 1
        exact updf_self _ _ _ rfl
      · rename_i o ho
        cases hs
        refine vstep_cast (VStep.recvE (view f s)
          (o ++ ((s.ws s.cw).rest ++ (match (s.ws s.cw).work with | some j => items (f j) | none => [])))
          h.1 h.2 (by simp [view, stream, ho])) ?_
        simp only [view, str_upd, tok_upd]
        congr 1
        exact updf_self _ _ _ rfl
      · cases hs
    · cases hs
  | cHand =>
    simp only [sstep] at hs
    split at hs
    · rename_i h
      cases hs
      refine vstep_cast (VStep.hand (view f s) h.1 h.2) ?_
      simp only [view, str_upd, tok_upd]
      congr 1
      exact updf_self _ _ _ rfl
    · cases hs
  | cClose =>
    simp only [sstep] at hs
    split at hs
    · rename_i h
      cases hs
      exact VStep.cclose (view f s) h.1 h.2
    · cases hs

theorem vinv_reach {W n cap : Nat} {f : Nat → List M} {s : SSt M} (hW : 0 < W) (h : SReach W n cap f s) :
    VInv W n f (view f s) := by
  induction h with
  | init => exact vinv_init W n f
  | step _ hs ih => exact vinv_step hW ih (sstep_view hs)

/-! ### worker-side bookkeeping (on the concrete state) -/

/-- `work` channels are closed only by the dispatcher's final loop, in worker order; a worker that has
    returned found its `work` closed and empty and is not inside `analyzeBlock`. -/
structure SAux (W : Nat) (s : SSt M) : Prop where
  openWhile : s.dpc = .take ∨ s.dpc = .send → ∀ w, (s.ws w).workClosed = false
  exitedImp : ∀ w, (s.ws w).exited = true →
    (s.ws w).workClosed = true ∧ (s.ws w).rest = [] ∧ (s.ws w).work = none
  closingImp : ∀ k, s.dpc = .closing k → ∀ w, w < k → (s.ws w).workClosed = true
  doneImp : s.dpc = .done → ∀ w, w < W → (s.ws w).workClosed = true

theorem saux_init (W : Nat) : SAux W (sinit M) := by
  constructor <;> simp [sinit]

theorem saux_step {W n cap : Nat} {f : Nat → List M} {s s' : SSt M} {l : SLbl} (hi : SAux W s)
    (hs : sstep W n cap f s l = some s') : SAux W s' := by
  obtain ⟨h1, h2, h3, h4⟩ := hi
  cases l with
  | dClose =>
    simp only [sstep] at hs
    split at hs
    · rename_i k hk
      have h3' := h3 k hk
      split at hs
      · cases hs
        constructor
        · intro h; cases h <;> rename_i h <;> cases h
        · intro w hw
          simp only [upd] at hw ⊢
          split
          · rename_i e
            subst e
            simp only [if_true] at hw
            exact ⟨rfl, (h2 w hw).2⟩
          · rename_i e
            simp only [if_neg e] at hw
            exact h2 w hw
        · intro k' hk' w hw
          cases hk'
          simp only [upd]
          split
          · rfl
          · rename_i e
            exact h3' w (by omega)
        · intro h; cases h
      · cases hs
        constructor
        · intro h; cases h <;> rename_i h <;> cases h
        · exact h2
        · intro k' hk'; cases hk'
        · intro _ w hw
          exact h3' w (by omega)
    · cases hs
  | _ =>
    simp only [sstep] at hs <;> (repeat' split at hs) <;>
    first
    | (cases hs; done)
    | (cases hs; constructor <;> simp only [upd] <;> grind)

/-! ### enabledness -/

theorem items_ne_nil (r : List M) : items r ≠ [] := by simp [items]

theorem stream_nil {f : Nat → List M} {wk : Worker M} (h : stream f wk = []) :
    wk.out = [] ∧ wk.rest = [] ∧ wk.work = none := by
  simp only [stream, List.append_eq_nil_iff] at h
  refine ⟨h.1, h.2.1, ?_⟩
  cases hw : wk.work with
  | none => rfl
  | some j =>
    rw [hw] at h
    exact absurd h.2.2 (items_ne_nil _)

theorem senabled {W n cap : Nat} {f : Nat → List M} {s : SSt M} (l : SLbl)
    (h : (sstep W n cap f s l).isSome = true) : ∃ l s', sstep W n cap f s l = some s' :=
  ⟨l, (sstep W n cap f s l).get h, by simp⟩

theorem sprogress {W n cap : Nat} {f : Nat → List M} {s : SSt M} (hW : 0 < W) (hcap : 0 < cap)
    (hv : VInv W n f (view f s)) (ha : SAux W s) (hq : ¬ s.quiescent W) :
    ∃ l s', sstep W n cap f s l = some s' := by
  have hle1 : s.ci ≤ s.di := hv.le1
  have hle2 : s.di ≤ n := hv.le2
  have hdw : s.dw = s.di % W := hv.dwEq
  have hcw : s.cw = s.ci % W := hv.cwEq
  have hdwW : s.dw < W := by rw [hdw]; exact Nat.mod_lt _ hW
  have hcwW : s.cw < W := by rw [hcw]; exact Nat.mod_lt _ hW
  have hidle : ∀ w, w < W → (∀ j, s.ci ≤ j → j < s.di → j % W ≠ w) →
      stream f (s.ws w) = [] ∧ ((s.ws w).token = true ↔ ¬ (s.dpc = .send ∧ s.dw = w)) := hv.idle
  cases hc : s.cpc with
  | recv =>
    by_cases hlt : s.ci < n
    · cases ho : (s.ws s.cw).out with
      | cons x o =>
        cases x with
        | m y => exact senabled .cRecv (by simp [sstep, hc, hlt, ho])
        | eoc => exact senabled .cRecv (by simp [sstep, hc, hlt, ho])
      | nil =>
        by_cases hcd : s.ci < s.di
        · obtain ⟨k, hk1, _, _, hk4, _⟩ := hv.cur
          have hstr : stream f (s.ws s.cw) = (items (f s.ci)).drop k := hk4 hc hcd
          have hne : stream f (s.ws s.cw) ≠ [] := by
            rw [hstr]
            intro h
            have := congrArg List.length h
            simp [items_length] at this
            have hk1' : k ≤ (f s.ci).length := hk1
            omega
          cases hr : (s.ws s.cw).rest with
          | cons x r =>
            exact senabled (.wSend s.cw) (by simp [sstep, hr, ho, hcwW, hcap])
          | nil =>
            cases hw : (s.ws s.cw).work with
            | none => exact absurd (by simp [stream, ho, hr, hw]) hne
            | some j =>
              have hex : (s.ws s.cw).exited = false := by
                cases he : (s.ws s.cw).exited with
                | false => rfl
                | true =>
                  have := (ha.exitedImp _ he).2.2
                  rw [hw] at this
                  cases this
              exact senabled (.wPick s.cw) (by simp [sstep, hw, hr, hex, hcwW])
        · have hid := hidle s.dw hdwW (fun j h1 h2 => by omega)
          cases hd : s.dpc with
          | take =>
            have ht : (s.ws s.dw).token = true := hid.2.mpr (by simp [hd])
            have hdn : s.di < n := by omega
            exact senabled .dTake (by simp [sstep, hd, hdn, ht])
          | send =>
            have hwk := (stream_nil hid.1).2.2
            exact senabled .dSend (by simp [sstep, hd, hwk])
          | closing k =>
            rcases hv.dEnd with h | h | h
            · have h' : s.dpc = .take := h
              rw [hd] at h'; cases h'
            · have h' : s.dpc = .send := h
              rw [hd] at h'; cases h'
            · have h' : s.di = n := h
              omega
          | done =>
            rcases hv.dEnd with h | h | h
            · have h' : s.dpc = .take := h
              rw [hd] at h'; cases h'
            · have h' : s.dpc = .send := h
              rw [hd] at h'; cases h'
            · have h' : s.di = n := h
              omega
    · exact senabled .cClose (by simp [sstep, hc, hlt])
  | handback =>
    have hcd : s.ci < s.di := hv.hbLt hc
    have ht : (s.ws (s.ci % W)).token = false := (hv.infl s.ci (Nat.le_refl _) hcd).1
    rw [← hcw] at ht
    exact senabled .cHand (by simp [sstep, hc, ht])
  | done =>
    have hcn : s.ci = n := hv.cDone hc
    have hdn : s.di = n := by omega
    cases hd : s.dpc with
    | take => exact senabled .dLoopEnd (by simp [sstep, hd, hdn])
    | send =>
      have := (hv.sendLt hd).1
      have h' : s.di < n := this
      omega
    | closing k =>
      by_cases hk : k < W
      · exact senabled .dClose (by simp [sstep, hd, hk])
      · exact senabled .dClose (by simp [sstep, hd, hk])
    | done =>
      have : ∃ w, w < W ∧ (s.ws w).exited = false := by
        apply Classical.byContradiction
        intro hno
        apply hq
        refine ⟨hd, hc, fun w hw => ?_⟩
        cases he : (s.ws w).exited with
        | true => rfl
        | false => exact absurd ⟨w, hw, he⟩ hno
      obtain ⟨w, hw, he⟩ := this
      have hid := hidle w hw (fun j h1 h2 => by omega)
      obtain ⟨_, hr, hwk⟩ := stream_nil hid.1
      have hcl := ha.doneImp hd w hw
      exact senabled (.wExit w) (by simp [sstep, hw, he, hr, hwk, hcl])

/-! ### termination measure of the scanner -/

/-- steps still owed by a block that has been handed out but not picked up: one pick-up, one send and one
    receive per value (matches and the end-of-chunk marker) -/
def blockCost (f : Nat → List M) (j : Nat) : Nat := 2 * ((f j).length + 1) + 1

def total (f : Nat → List M) : Nat → Nat
  | 0 => 0
  | k + 1 => total f k + blockCost f k

theorem total_mono (f : Nat → List M) {a b : Nat} (h : a ≤ b) : total f a ≤ total f b := by
  induction b with
  | zero =>
    have : a = 0 := by omega
    rw [this]; exact Nat.le_refl _
  | succ b ih =>
    by_cases hab : a = b + 1
    · rw [hab]; exact Nat.le_refl _
    · have := ih (by omega)
      simp only [total]
      omega

def sumTo (g : Nat → Nat) : Nat → Nat
  | 0 => 0
  | k + 1 => sumTo g k + g k

theorem sumTo_congr {g g' : Nat → Nat} (W : Nat) (h : ∀ k, k < W → g' k = g k) : sumTo g' W = sumTo g W := by
  induction W with
  | zero => rfl
  | succ W ih =>
    simp only [sumTo]
    rw [ih (fun k hk => h k (by omega)), h W (by omega)]

theorem sumTo_upd {g g' : Nat → Nat} {W w : Nat} (hw : w < W) (h : ∀ k, k ≠ w → g' k = g k) :
    sumTo g' W + g w = sumTo g W + g' w := by
  induction W with
  | zero => omega
  | succ W ih =>
    simp only [sumTo]
    by_cases hwW : w = W
    · subst hwW
      rw [sumTo_congr w (fun k hk => h k (by omega))]
      omega
    · have := ih (by omega)
      rw [h W (fun e => hwW e.symm)]
      omega

def wcost (f : Nat → List M) (wk : Worker M) : Nat :=
  (match wk.work with | some j => blockCost f j | none => 0) + 2 * wk.rest.length + wk.out.length
    + (if wk.exited then 0 else 1)

def dcost (W n di : Nat) : DPc → Nat
  | .take => 2 * (n - di) + W + 3
  | .send => 2 * (n - di) + W + 2
  | .closing k => (W - k) + 1
  | .done => 0

def ccost (n ci : Nat) : CPc → Nat
  | .recv => 2 * (n - ci) + 1
  | .handback => 2 * (n - ci)
  | .done => 0

def smu (W n : Nat) (f : Nat → List M) (s : SSt M) : Nat :=
  dcost W n s.di s.dpc + ccost n s.ci s.cpc + sumTo (fun w => wcost f (s.ws w)) W
    + (total f n - total f s.di)

theorem sum_upd (f : Nat → List M) (ws : Nat → Worker M) {W w : Nat} (wk : Worker M) (hw : w < W) :
    sumTo (fun k => wcost f (upd ws w wk k)) W + wcost f (ws w)
      = sumTo (fun k => wcost f (ws k)) W + wcost f wk := by
  have := sumTo_upd (g := fun k => wcost f (ws k)) (g' := fun k => wcost f (upd ws w wk k)) hw
    (fun k hk => by simp [upd, hk])
  simpa [upd] using this

theorem smu_step {W n cap : Nat} {f : Nat → List M} {s s' : SSt M} {l : SLbl} (hW : 0 < W)
    (hv : VInv W n f (view f s)) (hs : sstep W n cap f s l = some s') : smu W n f s' < smu W n f s := by
  have hle1 : s.ci ≤ s.di := hv.le1
  have hle2 : s.di ≤ n := hv.le2
  have hdw : s.dw = s.di % W := hv.dwEq
  have hcw : s.cw = s.ci % W := hv.cwEq
  have hdwW : s.dw < W := by rw [hdw]; exact Nat.mod_lt _ hW
  have hcwW : s.cw < W := by rw [hcw]; exact Nat.mod_lt _ hW
  cases l with
  | dTake =>
    simp only [sstep] at hs
    split at hs
    · rename_i h
      cases hs
      have := sum_upd f s.ws { s.ws s.dw with token := false } hdwW
      simp only [smu, h.1, dcost]
      simp only [wcost] at this ⊢
      omega
    · cases hs
  | dSend =>
    simp only [sstep] at hs
    split at hs
    · rename_i h
      cases hs
      have hlt : s.di < n := (hv.sendLt h.1).1
      have := sum_upd f s.ws { s.ws s.dw with work := some s.di } hdwW
      have hm := total_mono f (a := s.di + 1) (b := n) (by omega)
      simp only [smu, h.1, dcost, total] at hm ⊢
      simp only [wcost, h.2] at this ⊢
      omega
    · cases hs
  | dLoopEnd =>
    simp only [sstep] at hs
    split at hs
    · rename_i h
      cases hs
      simp only [smu, h.1, dcost]
      omega
    · cases hs
  | dClose =>
    simp only [sstep] at hs
    split at hs
    · rename_i k hk
      split at hs
      · rename_i hkW
        cases hs
        have := sum_upd f s.ws { s.ws k with workClosed := true } hkW
        simp only [smu, hk, dcost]
        simp only [wcost] at this ⊢
        omega
      · cases hs
        simp only [smu, hk, dcost]
        omega
    · cases hs
  | wPick w =>
    simp only [sstep] at hs
    split at hs
    · rename_i j hj
      split at hs
      · rename_i h
        cases hs
        have hr : (s.ws w).rest = [] := by simpa [List.isEmpty_iff] using h.2.2
        have := sum_upd f s.ws { s.ws w with work := none, rest := items (f j) } h.1
        simp only [smu]
        simp only [wcost, hj, hr, items_length, blockCost, List.length_nil] at this ⊢
        omega
      · cases hs
    · cases hs
  | wSend w =>
    simp only [sstep] at hs
    split at hs
    · rename_i x r hx
      split at hs
      · rename_i h
        cases hs
        have := sum_upd f s.ws { s.ws w with rest := r, out := (s.ws w).out ++ [x] } h.1
        simp only [smu]
        simp only [wcost, hx, List.length_cons, List.length_append, List.length_nil] at this ⊢
        omega
      · cases hs
    · cases hs
  | wExit w =>
    simp only [sstep] at hs
    split at hs
    · rename_i h
      cases hs
      have := sum_upd f s.ws { s.ws w with exited := true } h.1
      simp only [smu]
      simp only [wcost, h.2.1] at this ⊢
      simp at this
      omega
    · cases hs
  | cRecv =>
    simp only [sstep] at hs
    split at hs
    · rename_i h
      split at hs
      · rename_i y o ho
        cases hs
        have := sum_upd f s.ws { s.ws s.cw with out := o } hcwW
        simp only [smu]
        simp only [wcost, ho, List.length_cons] at this ⊢
        omega
      · rename_i o ho
        cases hs
        have := sum_upd f s.ws { s.ws s.cw with out := o } hcwW
        simp only [smu, h.1, ccost]
        simp only [wcost, ho, List.length_cons] at this ⊢
        omega
      · cases hs
    · cases hs
  | cHand =>
    simp only [sstep] at hs
    split at hs
    · rename_i h
      cases hs
      have hlt : s.ci < s.di := hv.hbLt h.1
      have := sum_upd f s.ws { s.ws s.cw with token := true } hcwW
      simp only [smu, h.1, ccost]
      simp only [wcost] at this ⊢
      omega
    · cases hs
  | cClose =>
    simp only [sstep] at hs
    split at hs
    · rename_i h
      cases hs
      simp only [smu, h.1, ccost]
      omega
    · cases hs

/-! ### running a concrete schedule -/

theorem sreach_run {W n cap : Nat} {f : Nat → List M} {s s' : SSt M} (h : SReach W n cap f s) (ls : List SLbl)
    (hr : srun W n cap f s ls = some s') : SReach W n cap f s' := by
  induction ls generalizing s with
  | nil =>
    simp only [srun, Option.some.injEq] at hr
    exact hr ▸ h
  | cons l ls ih =>
    simp only [srun] at hr
    cases hl : sstep W n cap f s l with
    | none => simp [hl] at hr
    | some s1 =>
      rw [hl] at hr
      exact ih (.step h hl) hr

theorem sexists_of_run (W n cap : Nat) (f : Nat → List M) (ls : List SLbl) (p : SSt M → Prop) [DecidablePred p]
    (h : (srun W n cap f (sinit M) ls).any (fun s => decide (p s)) = true) :
    ∃ s, SReach W n cap f s ∧ p s := by
  cases hr : srun W n cap f (sinit M) ls with
  | none => simp [hr] at h
  | some s =>
    rw [hr] at h
    exact ⟨s, sreach_run .init ls hr, by simpa using h⟩

end Scan

/-! ## tie to the sequential model of `bsdiff.DiffContext.Do` (Wharf/Model/Bsdiff.lean) -/

open Wharf.Bsdiff in
/-- the matches of block `j` in the sequential model: `analyzeBlock` on the block's slice -/
def blockMatches (obuf nbuf : Bytes) (searchFor : Nat → Nat → Nat → Nat × Nat) (blockSize n j : Nat) :
    List Match :=
  let boundary := j * blockSize
  let len := if j + 1 = n then nbuf.size - boundary else blockSize
  (analyzeBlock obuf (nbuf.extract boundary (boundary + len)) (searchFor boundary len) boundary).getD []

open Wharf.Bsdiff in
/-- the sequential model's `allMatches` from block `j0` on is the concatenation of `blockMatches` of the
    remaining blocks, in block order -/
theorem allMatches_eq (obuf nbuf : Bytes) (searchFor : Nat → Nat → Nat → Nat × Nat) (blockSize n : Nat)
    (nb j0 : Nat) (hn : j0 + nb = n) (ms : List Match)
    (h : allMatches obuf nbuf searchFor blockSize nb (j0 * blockSize) = some ms) :
    seqOut (blockMatches obuf nbuf searchFor blockSize n) j0 ++ ms
      = seqOut (blockMatches obuf nbuf searchFor blockSize n) n := by
  induction nb generalizing j0 ms with
  | zero =>
    simp only [allMatches, Option.some.injEq] at h
    have : j0 = n := by omega
    rw [← h, this]
    simp
  | succ nb ih =>
    simp only [allMatches] at h
    split at h
    · cases h
    · rename_i ms1 h1
      split at h
      · cases h
      · rename_i rest h2
        cases h
        have hb : (j0 + 1) * blockSize = j0 * blockSize + blockSize := by
          rw [Nat.add_mul, Nat.one_mul]
        rw [← hb] at h2
        have := ih (j0 + 1) (by omega) rest h2
        rw [← this, seqOut_succ, List.append_assoc]
        congr 2
        have hcond : (nb = 0) = (j0 + 1 = n) := by
          apply propext
          constructor <;> intro <;> omega
        simp only [blockMatches]
        simp only [hcond] at h1
        rw [h1]
        rfl

end Wharf.Fanout
