/-
  C13 (message level) — a patch message written with `proto.Marshal` is read back by `proto.Unmarshal` as the
  same message: the protobuf step between frame bodies and the field records of the patcher model.
  Property theorems only (helper lemmas live in Wharf/Proofs/Proto.lean).
-/
import Wharf.Model.Proto
import Wharf.Proofs.Proto

namespace Wharf.C13Proto
open Wharf Wharf.Wire Wharf.Patch Wharf.Proto

/-- Any well-formed field record is decoded back exactly, whatever the field order, with repeated and unknown
    fields included. -/
theorem proto_roundtrip (m : WMsg) (h : WF m) : unmarshal (encode m) = some m := by
  exact unmarshal_encode m h

/-- ... also when followed by nothing else inside a frame: body bytes → frame → parse → decode. -/
theorem framed_proto_roundtrip (ms : List WMsg) (h : ∀ m ∈ ms, WF m)
    (hlen : ∀ m ∈ ms, (encode m).length < 2 ^ 64) :
    parseFrames (ms.length + 1) (frames (ms.map encode)) = .ok (ms.map encode) ∧
      (ms.map encode).map unmarshal = ms.map some := by
  constructor
  · have hl : ∀ b ∈ ms.map encode, b.length < 2 ^ 64 := by
      intro b hb
      obtain ⟨m, hm, rfl⟩ := List.mem_map.mp hb
      exact hlen m hm
    have hp := parseFrames_frames_append (ms.map encode) hl 1 []
    rw [List.append_nil, parseFrames_nil, List.length_map] at hp
    rw [hp]
    simp [liftParse]
  · rw [List.map_map]
    apply List.map_congr_left
    intro m hm
    exact unmarshal_encode m (h m hm)

/-- Typed round trips: what the Go structs hold is what comes back (enum `type` is an int32). -/
theorem syncOp_roundtrip (o : SyncOp) (ht : Int32 o.type) (hf : Int64 o.fileIndex) (hi : Int64 o.blockIndex)
    (hs : Int64 o.blockSpan) (hd : o.data.length < two64) :
    (unmarshal (encode (ofSyncOp o))).map asSyncOp = some o := by
  rw [unmarshal_encode _ (WF_ofSyncOp o ht hf hi hs hd), Option.map_some, asSyncOp_of o ht]

theorem syncHeader_roundtrip (h : SyncHeader) (ht : Int32 h.type) (hf : Int64 h.fileIndex) :
    (unmarshal (encode (ofSyncHeader h))).map asSyncHeader = some h := by
  rw [unmarshal_encode _ (WF_ofSyncHeader h ht hf), Option.map_some, asSyncHeader_of h ht]

theorem control_roundtrip (c : Control) (hs : Int64 c.seek) (ha : c.add.length < two64) (hc : c.copy.length < two64) :
    (unmarshal (encode (ofControl c))).map asControl = some c := by
  rw [unmarshal_encode _ (WF_ofControl c hs ha hc), Option.map_some, asControl_of c]

theorem bsdiffHeader_roundtrip (t : Int) (ht : Int64 t) :
    (unmarshal (encode (ofBsdiffHeader t))).map asBsdiffHeader = some t := by
  rw [unmarshal_encode _ (WF_ofBsdiffHeader t ht), Option.map_some, asBsdiffHeader_of t]

/-- A record cut strictly inside its last field is a decoding error, never a shorter record
    (fields of wire type 0 and 2 only, which is all a writer produces). -/
theorem truncated_field_is_error (m : WMsg) (p : Nat × WVal) (h : WF m) (hp : FieldWF p) (k : Nat) (hk0 : 0 < k)
    (hk : k < (encField p).length) :
    unmarshal (encode m ++ (encField p).take k) = none := by
  exact unmarshal_encode_take m p h hp k hk0 hk

-- non-vacuity: a concrete record with negative, repeated and unknown fields meets the hypotheses
example : unmarshal (encode [(1, .varint (-1)), (5, .bytes [1, 2, 3]), (1, .varint 2049), (77, .bytes [])])
    = some [(1, .varint (-1)), (5, .bytes [1, 2, 3]), (1, .varint 2049), (77, .bytes [])] := by decide +kernel

/-- The message-level models (C01, C03, C07, C10, C12, C17) build their messages with `Patch.mk*` (every field
    listed once, zero values included); on the wire the zero values are omitted (`canon`). Reading the wire form
    gives the same typed views: for every record that lists each field number at most once. -/
theorem views_canon (m : WMsg) (hnd : (m.map Prod.fst).Nodup) (f : Nat) :
    getVarint (canon m) f = getVarint m f ∧ getBytes (canon m) f = getBytes m f := by
  exact ⟨getVarint_canon m hnd f, getBytes_canon m hnd f⟩

theorem wire_view_syncOp (m : WMsg) (h : WF m) (hnd : (m.map Prod.fst).Nodup) :
    (unmarshal (encode (canon m))).map asSyncOp = some (asSyncOp m) := by
  rw [proto_roundtrip _ (WF_canon m h), Option.map_some]
  simp only [asSyncOp, getVarint_canon m hnd, getBytes_canon m hnd]

theorem wire_view_syncHeader (m : WMsg) (h : WF m) (hnd : (m.map Prod.fst).Nodup) :
    (unmarshal (encode (canon m))).map asSyncHeader = some (asSyncHeader m) := by
  rw [proto_roundtrip _ (WF_canon m h), Option.map_some]
  simp only [asSyncHeader, getVarint_canon m hnd]

theorem wire_view_control (m : WMsg) (h : WF m) (hnd : (m.map Prod.fst).Nodup) :
    (unmarshal (encode (canon m))).map asControl = some (asControl m) := by
  rw [proto_roundtrip _ (WF_canon m h), Option.map_some]
  simp only [asControl, getVarint_canon m hnd, getBytes_canon m hnd]

theorem wire_view_bsdiffHeader (m : WMsg) (h : WF m) (hnd : (m.map Prod.fst).Nodup) :
    (unmarshal (encode (canon m))).map asBsdiffHeader = some (asBsdiffHeader m) := by
  rw [proto_roundtrip _ (WF_canon m h), Option.map_some]
  simp only [asBsdiffHeader, getVarint_canon m hnd]

/-- An unknown group (deprecated wire type 3) in front of a record is skipped whole — whatever well-formed fields it
    holds — and the record behind it is read as if the group were not there (forward compatibility: a newer writer
    may add fields the reader does not know). -/
theorem group_is_skipped (f : Nat) (hf1 : 1 ≤ f) (hf2 : f < maxField) (inner m : WMsg) (hi : WF inner) (hm : WF m) :
    unmarshal (uvarint (f * 8 + 3) ++ (encode inner ++ (uvarint (f * 8 + 4) ++ encode m))) = some m := by
  exact unmarshal_group f hf1 hf2 inner m hi hm

end Wharf.C13Proto
