/-
  C17 — Partial application by whitelist produces exactly the selected files.
  C10 (applier part) — malformed message lists yield an error, never a panic.
  Property theorems only (helper lemmas live in Wharf/Proofs/PatchMsg.lean).
-/
import Wharf.Model.Patch
import Wharf.Model.Rediff
import Wharf.Model.Validate
import Wharf.Proofs.PatchMsg

namespace Wharf.C17
open Wharf Wharf.Patch

/-- C17: for ANY message list (plain or optimized patch, whatever its content) on which full application
    succeeds, application with a whitelist `wl` succeeds as well; it produces exactly the whitelisted files,
    each identical to what full application produces, in the same order; it reports as touched exactly the
    whitelisted indices; it asks the bowl only for whitelisted files; and the old files it reads are a
    subsequence of those full application reads (none at all for an empty whitelist). -/
theorem whitelist_exact (E : Env) (msgs : List WMsg) (r : Res) (wl : List Nat)
    (hfull : patch { E with whitelist := none } msgs = .ok r) :
    ∃ r', patch { E with whitelist := some wl } msgs = .ok r' ∧
      r'.out = r.out.filter (fun p => wl.contains p.1) ∧
      r'.touched = ((List.range E.newSizes.size).filter (fun i => wl.contains i)).length ∧
      (∀ c ∈ r'.calls, match c with
        | .getWriter i => i ∈ wl
        | .transpose s _ => s ∈ wl) ∧
      r'.reads.Sublist r.reads ∧
      (wl = [] → r'.reads = [] ∧ r'.calls = [] ∧ r'.out = []) := by
  unfold patch at hfull ⊢
  obtain ⟨D, D', hr, ⟨hout, htouched, hcalls, hreads, hempty⟩, hall⟩ :=
    PatchMsg.patchFrom_whitelist E wl E.newSizes.size 0 msgs {} r hfull
  rw [PatchMsg.Res.empty_add] at hr
  subst hr
  refine ⟨D', ?_, hout, ?_, hcalls, hreads, hempty⟩
  · have := hall {}
    rw [PatchMsg.Res.empty_add] at this
    exact this
  · rw [htouched, List.range_eq_range']

/-- Skipping consumes exactly what processing consumes: after a successfully processed file and after the
    same file skipped, the remaining messages are the same. -/
theorem skip_consumes_like_process (E : Env) (i : Nat) (msgs rest : List WMsg) (r r1 : Res)
    (h : processFile { E with whitelist := none } i msgs r = .ok (rest, r1)) :
    ∃ r2, processFile { E with whitelist := some [] } i msgs r = .ok (rest, r2) ∧ r2 = r := by
  have := (PatchMsg.processFile_spec _ i msgs rest r r1 (PatchMsg.skipOf_none E i) h).2 (some []) r rfl
  exact ⟨r, this, rfl⟩

/-- The full whitelist behaves like no whitelist. -/
theorem whitelist_full (E : Env) (msgs : List WMsg) :
    patch { E with whitelist := some (List.range E.newSizes.size) } msgs = patch { E with whitelist := none } msgs := by
  unfold patch
  apply PatchMsg.patchFrom_full
  intro j _ hj
  simp only [List.contains_iff_mem, List.mem_range]
  simpa using hj

/-! Non-vacuity: a concrete three-file patch (a relayed rsync series, a bsdiff series, a whole-file transposition)
    on which full application succeeds, and what the whitelists `[1]`, `[2, 0]` and `[]` yield. -/

def exE : Env :=
  { bs := 2, oldSizes := #[4, 2], newSizes := #[5, 2, 4], pool := plainPool #[[1, 2, 3, 4], [5, 6]], whitelist := none }

def exMsgs : List WMsg :=
  [ mkSyncHeader kindRsync 0, mkData [9, 9, 9], mkRange 1 0 1, mkHey,
    mkSyncHeader kindBsdiff 1, mkBsdiffHeader 1, mkControl [1, 1] [] 0, mkControlEof, mkHey,
    mkSyncHeader kindRsync 2, mkRange 0 0 2, mkHey ]

example : patch { exE with whitelist := none } exMsgs =
    .ok { out := [(0, [9, 9, 9, 5, 6]), (1, [6, 7]), (2, [1, 2, 3, 4])], touched := 3,
          calls := [.getWriter 0, .getWriter 1, .transpose 2 0], reads := [1, 1, 0] } := by rfl

example : patch { exE with whitelist := some [1] } exMsgs =
    .ok { out := [(1, [6, 7])], touched := 1, calls := [.getWriter 1], reads := [1] } := by rfl

example : patch { exE with whitelist := some [2, 0] } exMsgs =
    .ok { out := [(0, [9, 9, 9, 5, 6]), (2, [1, 2, 3, 4])], touched := 2,
          calls := [.getWriter 0, .transpose 2 0], reads := [1, 0] } := by rfl

example : patch { exE with whitelist := some [] } exMsgs = .ok {} := by rfl

/-- the hypothesis of `whitelist_exact` is satisfiable, and its conclusion pins the result down. -/
example : ∃ r, patch { exE with whitelist := none } exMsgs = .ok r ∧
    ∃ r', patch { exE with whitelist := some [1] } exMsgs = .ok r' ∧ r'.out = [(1, [6, 7])] ∧ r'.touched = 1 := by
  refine ⟨_, rfl, ?_⟩
  obtain ⟨r', h, hout, ht, _⟩ := whitelist_exact exE exMsgs _ [1] rfl
  exact ⟨r', h, hout, ht⟩

end Wharf.C17

namespace Wharf.C10
open Wharf Wharf.Patch

/-- A pool that may fail but never panics (true of the filesystem pool and of the checking pool). -/
def PoolNoPanic (p : Pool) : Prop :=
  (∀ f off len s, p.read f off len ≠ .panic s) ∧ (∀ f s, p.flen f ≠ .panic s) ∧ (∀ f s, p.readAll f ≠ .panic s)

/-- C10 (applier): for ANY list of messages with arbitrary field values (indices and spans negative, zero
    or huge, unknown types, swapped series kinds, missing or duplicated end markers, controls seeking
    anywhere) the applier returns a result or an error; it never panics.  Termination is by
    construction: every model function is total and consumes the message list structurally. -/
theorem apply_never_panics (E : Env) (hp : PoolNoPanic E.pool) (msgs : List WMsg) (s : String) :
    patch E msgs ≠ .panic s := by
  exact PatchMsg.patchFrom_ne_panic E hp _ _ _ _ _

/-- C10 (optimizer analysis): never panics on arbitrary messages. -/
theorem analyze_never_panics (P : Rediff.Params) (oldPaths : Array String) (oldSizes : Array Nat)
    (news : List (String × Nat)) (i : Nat) (msgs : List WMsg) (s : String) :
    Rediff.analyze P oldPaths oldSizes news i msgs ≠ .panic s := by
  exact PatchMsg.analyze_ne_panic P oldPaths oldSizes news i msgs s

/-- C10 (hash grouping): never panics, and succeeds only when the number of hashes is exactly what the
    container needs (one per block, one per empty file). -/
theorem hashGroups_exact (bs : Nat) (sizes : List Nat) (n : Nat) :
    (∀ s, Validate.hashGroups bs sizes 0 n ≠ .panic s) ∧
    ((∃ gs, Validate.hashGroups bs sizes 0 n = .ok gs) ↔
      n = (sizes.map fun sz => if sz = 0 then 1 else Rsync.numBlocks bs sz).sum) := by
  refine ⟨fun s => PatchMsg.hashGroups_ne_panic bs sizes 0 n s, ?_⟩
  rw [PatchMsg.hashGroups_ok_iff]
  unfold PatchMsg.needed
  omega

/-- C10: a truncated signature never yields more hashes than were present, and reading stops quietly. -/
theorem readSigCount_le (bs : Nat) (sizes : List Nat) (avail : Nat) :
    Validate.readSigCount bs sizes avail ≤ avail := by
  exact PatchMsg.readSigCount_le bs sizes avail

end Wharf.C10
