/-
  C02 with path-kind changes, end to end: the work record is the one derived from the patcher model
  (Props/C02E2E.lean), the hypothesis on kinds is `BenignKindChanges` (Props/C02Kinds.lean) instead of
  `NoKindClash`.  `BenignKindChanges` used to speak about the recorded work (which old files are transposition
  sources), so it is stated for the work the patcher returns; since the repair of finding F8 (3) its only clause
  is `DirOrder new old`, which does not mention the work: `inplace_commit_of_patch` is the statement with that
  hypothesis alone.
-/
import Wharf.Props.C02E2E
import Wharf.Props.C02Kinds

namespace Wharf.C02
open Wharf Wharf.FS Wharf.Commit Wharf.Patch

/-- Any successful result of the patcher model on the written patch leads to a commit that ends with exactly the
    new build, for every pair of visiting orders — also when paths change kind, within `BenignKindChanges`. -/
theorem inplace_commit_of_patch_kinds_partial (P : Rsync.Params) (hbs : 0 < P.bs) (hmx : 0 < P.maxDataOp)
    (old new : Build) (r : Res) (order₁ order₂ : List Path)
    (hold : BuildWF old) (hnew : BuildWF new)
    (hb : BenignKindChanges old new (workOf old new r.calls))
    (h : patch (C01.envOf P.bs (poolFiles old) (poolFiles new) none)
          (writePatch P (poolFiles old) (poolFiles new)) = .ok r)
    (ho₁ : order₁.Perm (sourcesOf old new (workOf old new r.calls)))
    (ho₂ : order₂.Perm (sourcesOf old new (workOf old new r.calls))) :
    ∃ t', commit old new (workOf old new r.calls) order₁ order₂ (treeOfBuild old) = .ok t' ∧ Holds t' new :=
  commit_correct_kinds_partial old new _ order₁ order₂ hold hnew hb (work_of_patch_ok P hbs hmx old new r h)
    ho₁ ho₂

/-- C02 end to end, the headline statement: for well-formed builds whose new directories are listed parents
    first (`DirOrder`, as `tlc.Walk` lists them), any successful result of the patcher model on the written patch
    leads to a commit that ends with exactly the new build, for every pair of visiting orders — whatever paths
    change kind between the builds (since the repair of finding F8 (3)). -/
theorem inplace_commit_of_patch (P : Rsync.Params) (hbs : 0 < P.bs) (hmx : 0 < P.maxDataOp)
    (old new : Build) (r : Res) (order₁ order₂ : List Path)
    (hold : BuildWF old) (hnew : BuildWF new) (hdo : DirOrder new old)
    (h : patch (C01.envOf P.bs (poolFiles old) (poolFiles new) none)
          (writePatch P (poolFiles old) (poolFiles new)) = .ok r)
    (ho₁ : order₁.Perm (sourcesOf old new (workOf old new r.calls)))
    (ho₂ : order₂.Perm (sourcesOf old new (workOf old new r.calls))) :
    ∃ t', commit old new (workOf old new r.calls) order₁ order₂ (treeOfBuild old) = .ok t' ∧ Holds t' new :=
  commit_correct old new _ order₁ order₂ hold hnew hdo (work_of_patch_ok P hbs hmx old new r h) ho₁ ho₂

-- #print axioms inplace_commit_of_patch_kinds_partial   -- [propext, Classical.choice, Quot.sound]
-- #print axioms inplace_commit_of_patch                 -- [propext, Classical.choice, Quot.sound]

end Wharf.C02
