/-
  C02 with path-kind changes, end to end: the work record is the one derived from the patcher model
  (Props/C02E2E.lean), the hypothesis on kinds is `BenignKindChanges` (Props/C02Kinds.lean) instead of
  `NoKindClash`.  `BenignKindChanges` speaks about the recorded work (which new files are transposition outputs,
  which old files are sources), so it is stated for the work the patcher returns.
-/
import Wharf.Props.C02E2E
import Wharf.Props.C02Kinds

namespace Wharf.C02
open Wharf Wharf.FS Wharf.Commit Wharf.Patch

/-- Any successful result of the patcher model on the written patch leads to a commit that ends with exactly the
    new build, for every pair of visiting orders — also when paths change kind, within `BenignKindChanges`. -/
theorem inplace_commit_of_patch_kinds_partial (P : Rsync.Params) (hbs : 0 < P.bs) (hmx : 0 < P.maxDataOp)
    (old new : Build) (r : Res) (order₁ order₂ : List Path)
    (hold : BuildWF old) (hnew : BuildWF new)
    (hb : BenignKindChanges old new (workOf old new r.calls))
    (h : patch (C01.envOf P.bs (poolFiles old) (poolFiles new) none)
          (writePatch P (poolFiles old) (poolFiles new)) = .ok r)
    (ho₁ : order₁.Perm (sourcesOf old new (workOf old new r.calls)))
    (ho₂ : order₂.Perm (sourcesOf old new (workOf old new r.calls))) :
    ∃ t', commit old new (workOf old new r.calls) order₁ order₂ (treeOfBuild old) = .ok t' ∧ Holds t' new :=
  commit_correct_kinds_partial old new _ order₁ order₂ hold hnew hb (work_of_patch_ok P hbs hmx old new r h)
    ho₁ ho₂

-- #print axioms inplace_commit_of_patch_kinds_partial   -- [propext, Classical.choice, Quot.sound]

end Wharf.C02
