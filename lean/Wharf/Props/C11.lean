/-
  C11 — Rsync operations always reconstruct the source and stay within the old files.
  Property theorems only (helper lemmas live in Wharf/Proofs/Rsync.lean).
-/
import Wharf.Model.Rsync
import Wharf.Proofs.Rsync

namespace Wharf.C11
open Wharf Wharf.Rsync

/-- Every entry handed out by the block library comes from the signature of `olds`. -/
def LookupSound (bs : Nat) (olds : List Content) (lookup : UInt32 → List Entry) : Prop :=
  ∀ β e, e ∈ lookup β → e ∈ signature bs olds

/-- A range names an existing old file and existing blocks of it; a data op lies inside the source. -/
def ValidOp (bs : Nat) (olds : Array Content) (src : Content) : Op → Prop
  | .range f i sp => ∃ old, olds[f]? = some old ∧ 0 < sp ∧ i + sp ≤ numBlocks bs old.size
  | .data st len => st + len ≤ src.size

/-- Two consecutive ops that `enqueue` would have combined. -/
def Mergeable : Op → Op → Prop
  | .range f i sp, .range f' i' _ => f = f' ∧ i + sp = i'
  | _, _ => False

/-- The executable block library only hands out signature entries. -/
theorem lookupFast_sound (bs : Nat) (olds : List Content) (n : Nat) :
    LookupSound bs olds (lookupFast (buildBuckets n (signature bs olds))) := by
  intro β e h
  exact mem_buildBuckets n (signature bs olds) _ e h

/-- The loop reaches its last run within `src.size + 2` iterations (the fuel of `computeDiffWith` suffices). -/
theorem fuel (P : Params) (hbs : 0 < P.bs) (olds : Array Content) (lookup : UInt32 → List Entry)
    (src : Content) (pref : Option Nat) :
    (loop P olds lookup src pref (src.size + 2) {}).lastRun = true :=
  loop_lastRun hbs olds lookup src pref

/-- Round trip, for any block library that is sound (whatever the weak hashes are). -/
theorem roundtrip_with (P : Params) (hbs : 0 < P.bs) (hmx : 0 < P.maxDataOp) (olds : List Content)
    (lookup : UInt32 → List Entry) (hl : LookupSound P.bs olds lookup) (src : Content) (pref : Option Nat) :
    replay P.bs olds.toArray src (computeDiffWith P olds.toArray lookup src pref) = src.toList :=
  (computeDiffWith_spec hbs hmx (fun β e h => entryOK_of_mem_signature (hl β e h)) src pref).2

/-- `ValidOp` is the `VOp` of the helper file. -/
theorem validOp_iff (bs : Nat) (olds : Array Content) (src : Content) (op : Op) :
    ValidOp bs olds src op ↔ VOp bs olds src op := by
  cases op <;> exact Iff.rfl

/-- `Mergeable` is the `Mrg` of the helper file. -/
theorem mergeable_iff (a b : Op) : Mergeable a b ↔ Mrg a b := by
  cases a <;> cases b <;> exact Iff.rfl

/-- All of C11 for `computeDiff` in the vocabulary of the helper file. -/
theorem computeDiff_spec (P : Params) (hbs : 0 < P.bs) (hmx : 0 < P.maxDataOp) (olds : List Content)
    (src : Content) (pref : Option Nat) :
    Good P.bs P.maxDataOp olds.toArray src (computeDiff P olds src pref) ∧
    replay P.bs olds.toArray src (computeDiff P olds src pref) = src.toList :=
  computeDiffWith_spec hbs hmx
    (fun β e h => entryOK_of_mem_signature (lookupFast_sound P.bs olds _ β e h)) src pref

/-- C11 (a): replaying the emitted operations against the old files yields exactly the new content. -/
theorem roundtrip (P : Params) (hbs : 0 < P.bs) (hmx : 0 < P.maxDataOp) (olds : List Content)
    (src : Content) (pref : Option Nat) :
    replay P.bs olds.toArray src (computeDiff P olds src pref) = src.toList :=
  (computeDiff_spec P hbs hmx olds src pref).2

/-- C11 (b): every block range addresses blocks that exist in the named old file. -/
theorem ranges_valid (P : Params) (hbs : 0 < P.bs) (hmx : 0 < P.maxDataOp) (olds : List Content)
    (src : Content) (pref : Option Nat) :
    ∀ op ∈ computeDiff P olds src pref, ValidOp P.bs olds.toArray src op := by
  intro op h
  exact (validOp_iff _ _ _ op).2 ((computeDiff_spec P hbs hmx olds src pref).1.valid op h)

/-- C11 (c): consecutive ranges of the same file are merged. -/
theorem merged (P : Params) (hbs : 0 < P.bs) (hmx : 0 < P.maxDataOp) (olds : List Content)
    (src : Content) (pref : Option Nat) (k : Nat) (a b : Op)
    (ha : (computeDiff P olds src pref)[k]? = some a) (hb : (computeDiff P olds src pref)[k+1]? = some b) :
    ¬ Mergeable a b := by
  intro hm
  exact (computeDiff_spec P hbs hmx olds src pref).1.nomerge k a b ha hb ((mergeable_iff a b).1 hm)

/-- C11 (d): no data operation exceeds the limit. -/
theorem data_limit (P : Params) (hbs : 0 < P.bs) (hmx : 0 < P.maxDataOp) (olds : List Content)
    (src : Content) (pref : Option Nat) (st len : Nat)
    (h : Op.data st len ∈ computeDiff P olds src pref) : len ≤ P.maxDataOp :=
  (computeDiff_spec P hbs hmx olds src pref).1.lim st len h

/-- C11 (e): the only empty data operation is a leading one. -/
theorem empty_data_only_leading (P : Params) (hbs : 0 < P.bs) (hmx : 0 < P.maxDataOp) (olds : List Content)
    (src : Content) (pref : Option Nat) (k st : Nat)
    (h : (computeDiff P olds src pref)[k]? = some (Op.data st 0)) : k = 0 :=
  (computeDiff_spec P hbs hmx olds src pref).1.empty k st h

/-- Non-vacuity: a concrete diff with a range, a data op and a shifted tail. -/
example : computeDiff ⟨2, 8⟩ [Content.ofList [1, 2, 3, 4]] (Content.ofList [1, 2, 5, 3, 4]) none
    = [.range 0 0 1, .data 2 3] := by
  decide

end Wharf.C11
