/-
  C12 — A bsdiff series applied to the old file yields the new file (differ + applier).
  Property theorems only (helper lemmas live in Wharf/Proofs/Bsdiff.lean).
-/
import Wharf.Model.Bsdiff
import Wharf.Proofs.Bsdiff

namespace Wharf.C12
open Wharf Wharf.Bsdiff

/-- The only thing the differ needs from the suffix-array search: positions inside the old file and
    match lengths that do not run past the end of the block being scanned.  (`search scan` is
    `psa.search(nbuf[scan:])` for a block `nbuf`.) -/
def SearchOK (obuflen blocklen : Nat) (search : Nat → Nat × Nat) : Prop :=
  ∀ scan, scan < blocklen → (search scan).1 ≤ obuflen ∧ (search scan).2 ≤ blocklen - scan

/-- Matches are in bounds and tile `[offset, offset+len)` of the new file in order. -/
def Tiles (obuflen : Nat) : Nat → Nat → List Match → Prop
  | a, b, [] => a = b
  | a, b, m :: ms => m.addNewStart = a ∧ m.addOldStart + m.addLength ≤ obuflen ∧
      m.copyStart ≤ m.copyEnd ∧ m.copyEnd ≤ b ∧ Tiles obuflen m.copyEnd b ms

/-- `Tiles` is the `TilesP` of the helper file. -/
theorem tiles_iff (obuflen a b : Nat) (ms : List Match) :
    Tiles obuflen a b ms ↔ TilesP obuflen a b ms := by
  induction ms generalizing a with
  | nil => exact Iff.rfl
  | cons m ms ih =>
    simp only [Tiles, TilesP]
    rw [ih]

/-- The scan of one block terminates (the fuel of `analyzeBlock` suffices) and its matches tile the block,
    whatever the search returns within `SearchOK`. -/
theorem analyzeBlock_tiles (obuf blk : Bytes) (search : Nat → Nat × Nat) (offset : Nat)
    (hs : SearchOK obuf.size blk.size search) :
    ∃ ms, analyzeBlock obuf blk search offset = some ms ∧ Tiles obuf.size offset (offset + blk.size) ms := by
  obtain ⟨ms, h1, h2, _⟩ := analyzeBlock_spec obuf blk search offset hs
  exact ⟨ms, h1, (tiles_iff _ _ _ _).2 h2⟩

/-- Applying the messages written for a tiling reproduces the tiled range of the new file, starting from
    old offset `m₀.addOldStart` of the first match, and ends with `eof`. -/
theorem apply_writeMessages (obuf nbuf : Bytes) (ms : List Match) (a : Nat) (pre : List Byte)
    (ht : Tiles obuf.size a nbuf.size ms) (hne : ms ≠ []) :
    ∃ st, applySeries obuf (writeMessages obuf nbuf ms) ⟨(ms.head hne).addOldStart, pre⟩ = .ok (st, []) ∧
      st.out = pre ++ (nbuf.toList.drop a) := by
  exact apply_writeMessagesP obuf nbuf ms a pre ((tiles_iff _ _ _ _).1 ht) hne

/-- C12 (a): for ANY old and new byte strings (old may be empty), any partition setting and any search
    results within `SearchOK`, the differ terminates with an end-of-series message and applying its controls
    to the old string from offset 0 yields exactly the new string. -/
theorem roundtrip (scanBlock : Nat) (hsb : 0 < scanBlock) (partitions : Nat) (obuf nbuf : Bytes)
    (searchFor : Nat → Nat → Nat → Nat × Nat)
    (hs : ∀ boundary len, SearchOK obuf.size len (searchFor boundary len)) :
    ∃ cs st, diff scanBlock partitions obuf nbuf searchFor = .ok cs ∧
      cs.getLast? = some .eof ∧
      applySeries obuf cs ⟨0, []⟩ = .ok (st, []) ∧ st.out = nbuf.toList := by
  exact roundtripP scanBlock hsb partitions obuf nbuf searchFor hs

/-- The block plan is always usable: positive block size, and the blocks cover the new file exactly. -/
theorem blockPlan_ok (scanBlock : Nat) (hsb : 0 < scanBlock) (partitions obuflen nbuflen : Nat) (hn : 0 < nbuflen) :
    0 < (blockPlan scanBlock partitions obuflen nbuflen).2.1 ∧
    (blockPlan scanBlock partitions obuflen nbuflen).2.2 =
      (nbuflen + (blockPlan scanBlock partitions obuflen nbuflen).2.1 - 1) / (blockPlan scanBlock partitions obuflen nbuflen).2.1 := by
  have _ := hn  -- not needed: the clamp makes the plan usable for every length
  exact blockPlan_props scanBlock hsb partitions obuflen nbuflen

/-- C12 (c): applying a series in two parts, the second resumed from the old offset saved after the
    first, gives the same result as applying it in one go. -/
theorem resume_mid (obuf : Bytes) (cs₁ cs₂ : List Ctrl) (st : PState) (h : Ctrl.eof ∉ cs₁) :
    applySeries obuf (cs₁ ++ cs₂) st =
      (match applySeries obuf (cs₁ ++ [.eof]) st with
       | .ok (st', _) => applySeries obuf cs₂ st'
       | .err e => .err e
       | .panic p => .panic p) := by
  exact applySeries_resume obuf cs₁ cs₂ st h

/-- Non-vacuity: a concrete diff/apply through the executable search. -/
example : (match diffExec 4 0 #[1, 2, 3, 4, 5, 6] #[1, 2, 9, 4, 5, 6, 7] with
    | .ok cs => (match applySeries #[1, 2, 3, 4, 5, 6] cs ⟨0, []⟩ with
                 | .ok (st, _) => st.out
                 | _ => [])
    | _ => []) = [1, 2, 9, 4, 5, 6, 7] := by
  rw [diffExec_example]
  decide +kernel

/-- The diff of the example is not trivial: an add of two matching bytes, a backwards seek, copies. -/
example : (match diffExec 4 0 #[1, 2, 3, 4, 5, 6] #[1, 2, 9, 4, 5, 6, 7] with
    | .ok cs => cs
    | _ => []) = [.op [0, 0] [9, 4] (-2), .op [] [5, 6, 7] 0, .eof] := by
  rw [diffExec_example]
  decide +kernel

end Wharf.C12
