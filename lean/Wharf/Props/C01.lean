/-
  C01 — Diff then apply reproduces the new build exactly (file contents, fresh bowl, message level).
  Property theorems only (helper lemmas live in Wharf/Proofs/PatchFresh.lean).
-/
import Wharf.Model.Patch
import Wharf.Props.C11
import Wharf.Proofs.PatchFresh

namespace Wharf.C01
open Wharf Wharf.Patch

/-- The patcher's view of a pristine old build and of the new build's container. -/
def envOf (bs : Nat) (olds news : List (String × Content)) (wl : Option (List Nat)) : Env :=
  { bs := bs
    oldSizes := (olds.map (·.2.size)).toArray
    newSizes := (news.map (·.2.size)).toArray
    pool := plainPool (olds.map (·.2.toList)).toArray
    whitelist := wl }

/-- C01: applying the patch written for (old, new) to the pristine old build produces, for every file of
    the new build in order, exactly its content; every file is touched; nothing fails. Holds for every
    block size, every set of old and new files (any paths, any contents). -/
theorem fresh_roundtrip (P : Rsync.Params) (hbs : 0 < P.bs) (hmx : 0 < P.maxDataOp)
    (olds news : List (String × Content)) :
    ∃ r, patch (envOf P.bs olds news none) (writePatch P olds news) = .ok r ∧
      r.out = (List.range news.length).zip (news.map (·.2.toList)) ∧
      r.touched = news.length :=
  patch_fresh P hbs hmx olds news

/-- Non-vacuity: a rename (whole-file copy), an edited file and a new file. -/
example :
    let olds := [("a", Content.ofList [1, 2, 3, 4, 5]), ("b", Content.ofList [7, 7, 7])]
    let news := [("a", Content.ofList [1, 2, 9, 4, 5]), ("c", Content.ofList [7, 7, 7]), ("d", Content.ofList [])]
    (match patch (envOf 2 olds news none) (writePatch ⟨2, 8⟩ olds news) with
     | .ok r => r.out
     | _ => []) = [(0, [1, 2, 9, 4, 5]), (1, [7, 7, 7]), (2, [])] := by
  decide

/-- Both paths of the patcher are exercised: file 1 is a whole-file copy of old file 1, files 0 and 2 are relayed. -/
example :
    let olds := [("a", Content.ofList [1, 2, 3, 4, 5]), ("b", Content.ofList [7, 7, 7])]
    let news := [("a", Content.ofList [1, 2, 9, 4, 5]), ("c", Content.ofList [7, 7, 7]), ("d", Content.ofList [])]
    (match patch (envOf 2 olds news none) (writePatch ⟨2, 8⟩ olds news) with
     | .ok r => r.calls
     | _ => []) = [.getWriter 0, .transpose 1 1, .getWriter 2] := by
  decide

end Wharf.C01
