/-
  C04 — A build validates against its own signature, however that was produced.
  Property theorems only (helper lemmas live in Wharf/Proofs/Sign.lean).
-/
import Wharf.Model.Sign
import Wharf.Props.C05
import Wharf.Proofs.Sign

namespace Wharf.C04
open Wharf Wharf.Sign

/-- C04 (a): the blocks that get hashed do not depend on how the reader slices its reads (diff-time
    signing through a pipe with arbitrarily short reads = stand-alone signing). -/
theorem scan_chunk_independent (bs : Nat) (hbs : 0 < bs) (reads : List (List Byte)) :
    scanBlocks bs reads = scanBlocks bs [reads.flatten] := by
  have _ := hbs  -- not needed: slicing independence holds for every block size
  rw [Sign.scanBlocks_eq, Sign.scanBlocks_eq]
  simp

/-- C04 (b): they are the full blocks of the content followed by a shorter final block; one empty block
    for an empty file. -/
theorem scan_blocks (bs : Nat) (hbs : 0 < bs) (D : List Byte) :
    scanBlocks bs [D] = if D = [] then [[]] else Validate.chunks bs D.length D := by
  exact Sign.scanBlocks_single hbs D

/-- C04 (c): block `i` of the scan is the signed block `i` that validation compares against, there are
    `numBlocks` of them (one for an empty file), and the ShortSize recorded by `CreateSignature` is what
    `ReadSignature` re-derives from the container's file size. -/
theorem scan_block_at (bs : Nat) (hbs : 0 < bs) (D : List Byte) (hD : D ≠ []) :
    (scanBlocks bs [D]).length = Rsync.numBlocks bs D.length ∧
    ∀ i, i < Rsync.numBlocks bs D.length →
      (scanBlocks bs [D])[i]? = some (Validate.signedBlock bs D i) ∧
      (Validate.signedBlock bs D i).length = Rsync.blockLen bs D.length i ∧
      Rsync.shortOf bs (Validate.signedBlock bs D i).length = rederivedShort bs D.length i := by
  rw [Sign.scanBlocks_single hbs D, if_neg hD]
  refine ⟨Sign.chunks_length hbs D.length D (Nat.le_refl _), ?_⟩
  intro i hi
  have hi' : i * bs < D.length := (Sign.lt_numBlocks_iff hbs D.length i).mp hi
  have hlen := Sign.signedBlock_length D i hi'
  refine ⟨Sign.chunks_getElem? hbs D.length D i (Nat.le_refl _) hi', hlen, ?_⟩
  rw [hlen, Sign.shortOf_blockLen hbs]

/-- C04 (d): hash groups are consecutive slices of the flat hash list in container order; empty files
    consume one entry and get no group; exactly the right number of hashes is accepted. -/
theorem hashGroups_layout (bs : Nat) (sizes : List Nat) (k n : Nat) (gs : List (Option (Nat × Nat)))
    (h : Validate.hashGroups bs sizes k n = .ok gs) :
    gs.length = sizes.length ∧
    ∀ j, j < sizes.length →
      gs[j]? = some (if sizes.getD j 0 = 0 then none
        else some (k + ((sizes.take j).map fun sz => if sz = 0 then 1 else Rsync.numBlocks bs sz).sum,
                   Rsync.numBlocks bs (sizes.getD j 0))) := by
  exact Sign.hashGroups_layout sizes k n gs h

/-- C04 (d'), extra: a successful grouping consumed exactly the `n` hashes that were read. -/
theorem hashGroups_total (bs : Nat) (sizes : List Nat) (k n : Nat) (gs : List (Option (Nat × Nat)))
    (h : Validate.hashGroups bs sizes k n = .ok gs) :
    k + (sizes.map fun sz => if sz = 0 then 1 else Rsync.numBlocks bs sz).sum = n :=
  Sign.hashGroups_total sizes k n gs h

/-- C04 (e): an undamaged file produces no wound (re-export of the validator theorem). -/
theorem pristine_no_wound (bs : Nat) (hbs : 0 < bs) (maxSize : Nat) (S : List Byte) (fi : Nat) :
    Validate.realWounds (Validate.fileWounds bs maxSize S fi (.file S)) = [] :=
  C05.valid_no_wound bs hbs maxSize S fi

/-- Non-vacuity. -/
example : scanBlocks 2 [[1], [2, 3, 4], [], [5]] = [[1, 2], [3, 4], [5]] := by
  decide

end Wharf.C04
