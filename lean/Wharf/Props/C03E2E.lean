/-
  C03 end to end — "Whenever the patcher hands a checkpoint to its save consumer, stopping there — or crashing any
  time later, leaving writes made after the checkpoint wholly or partly on disk — and resuming from a serialized
  copy of that checkpoint in a brand-new patcher and bowl completes successfully and produces exactly what an
  uninterrupted application produces."

  Message-level composition of the pieces proved elsewhere (message reader: C13.resume_exact; entry writer at
  chunk level: C03.resume_fresh; bsdiff offset: C12.resume_mid): the model of the patcher's checkpoints and of
  `Resume(checkpoint)` into a fresh bowl is Wharf/Model/PatchResume.lean, which also lists the exact points of
  the Go code at which a checkpoint can be offered and what is abstracted.
  Property theorems only (helper lemmas live in Wharf/Proofs/PatchResume.lean).
-/
import Wharf.Model.PatchResume
import Wharf.Proofs.PatchResume

namespace Wharf.C03
open Wharf Wharf.Patch Wharf.PatchResume

/-- The instrumented copies of the loops (`rsyncLoopCk`, `bsdiffLoopCk`, … `patchCk`) from which `checkpoints` is
    read off compute exactly what the original model computes (same result, same error, same panic); for the
    loops themselves see `PatchResume.rsyncLoopCk_fst`, `bsdiffLoopCk_fst`, `processFileCk_fst`,
    `patchFromCk_fst`. -/
theorem checkpoints_instrumentation_exact (E : Env) (msgs : List WMsg) :
    dropCks (patchCk E msgs) = patch E msgs ∧
    (∀ T i ms w reads, dropCks (rsyncLoopCk E T i ms w reads) = rsyncLoop E ms w reads) ∧
    (∀ T i t flen ms off w, dropCks (bsdiffLoopCk E T i t flen ms off w) = bsdiffLoop E t flen ms off w) :=
  ⟨patchCk_fst E msgs, fun T i ms w reads => rsyncLoopCk_fst E T i ms w reads,
   fun T i t flen ms off w => bsdiffLoopCk_fst E T i t flen ms off w⟩

/-- C03 end to end (fresh bowl, no whitelist).  If the uninterrupted application of `msgs` succeeds with result
    `R`, then for EVERY checkpoint `ck` the patcher can hand out during it (rsync and bsdiff series, any number
    of files, any target pool) and EVERY crash state `disk` of the output directory — completed files present,
    the first `written` bytes of the file being written present, everything else arbitrary: that file longer,
    shorter or full of garbage beyond the offset, later files absent, partial or garbage — a brand-new patcher
    and fresh bowl resumed from `ck` complete successfully and leave exactly the uninterrupted contents.

    Restrictions, both stated as hypotheses:
    * `E.whitelist = none` (resuming with a source-index whitelist is not modelled);
    * `SizesOK E R.out`: every file the uninterrupted application produces has the size its container entry
      declares.  The patcher checks this for bsdiff series only; for rsync series and transpositions it holds
      for patches made by the differ (C01).  It cannot be dropped: see `resume_needs_sizes_long` and
      `resume_needs_sizes_short` below. -/
theorem resume_e2e (E : Env) (msgs : List WMsg) (R : Res) (ck : Ckpt) (disk : Nat → List Byte)
    (hp : patch E msgs = .ok R) (hwl : E.whitelist = none) (hsz : SizesOK E R.out)
    (hck : ck ∈ checkpoints E msgs) (hcrash : CrashOK E msgs ck disk) :
    resumeFrom E msgs ck disk = .ok R.out := by
  obtain ⟨pre, tail, hsplit⟩ := List.append_of_mem hck
  unfold CrashOK at hcrash
  rw [hp] at hcrash
  unfold resumeFrom
  rw [(resumeRun_eq E msgs R hp hwl hsz pre ck tail hsplit disk hcrash).1]
  rfl

/-- The checkpoints a resumed run can offer are the checkpoints of the uninterrupted run from `ck` on (same
    file, message index, offsets): a suffix of `checkpoints E msgs` that starts with `ck`.  (`checkpoints` is
    strictly ordered — `checkpoint_state_exact` — so that suffix is unique.) -/
theorem resumed_checkpoints (E : Env) (msgs : List WMsg) (R : Res) (ck : Ckpt) (disk : Nat → List Byte)
    (hp : patch E msgs = .ok R) (hwl : E.whitelist = none) (hsz : SizesOK E R.out)
    (hck : ck ∈ checkpoints E msgs) (hcrash : CrashOK E msgs ck disk) :
    resumedCheckpoints E msgs ck disk <:+ checkpoints E msgs ∧
    (resumedCheckpoints E msgs ck disk).head? = some ck := by
  obtain ⟨pre, tail, hsplit⟩ := List.append_of_mem hck
  unfold CrashOK at hcrash
  rw [hp] at hcrash
  have h := (resumeRun_eq E msgs R hp hwl hsz pre ck tail hsplit disk hcrash).1
  unfold resumedCheckpoints
  rw [h, hsplit]
  exact ⟨List.suffix_append pre (ck :: tail), rfl⟩

/-- Chains of interruptions: resume from `ck₁` over crash state `disk₁`; the resumed run hands out `ck₂`; crash
    again, leaving `disk₂` (any state that agrees, in the sense of `CrashOKFor`, with what the RESUMED run
    produces, `out₁`); resume again from `ck₂`: the result is still the uninterrupted one, `ck₂` is one of the
    uninterrupted run's checkpoints and is not earlier than `ck₁`.  By induction any number of interruptions. -/
theorem resume_e2e_chain (E : Env) (msgs : List WMsg) (R : Res) (ck₁ ck₂ : Ckpt) (disk₁ disk₂ : Nat → List Byte)
    (out₁ : List (Nat × List Byte))
    (hp : patch E msgs = .ok R) (hwl : E.whitelist = none) (hsz : SizesOK E R.out)
    (hck₁ : ck₁ ∈ checkpoints E msgs) (hcrash₁ : CrashOK E msgs ck₁ disk₁)
    (hout₁ : resumeFrom E msgs ck₁ disk₁ = .ok out₁)
    (hck₂ : ck₂ ∈ resumedCheckpoints E msgs ck₁ disk₁) (hcrash₂ : CrashOKFor out₁ ck₂ disk₂) :
    resumeFrom E msgs ck₂ disk₂ = .ok R.out ∧ ck₂ ∈ checkpoints E msgs ∧ ck₁.msgIndex ≤ ck₂.msgIndex := by
  have h1 := resume_e2e E msgs R ck₁ disk₁ hp hwl hsz hck₁ hcrash₁
  rw [h1] at hout₁
  cases hout₁
  obtain ⟨hsuf, hhead⟩ := resumed_checkpoints E msgs R ck₁ disk₁ hp hwl hsz hck₁ hcrash₁
  have hmem : ck₂ ∈ checkpoints E msgs := List.IsSuffix.mem hck₂ hsuf
  have hcrash₂' : CrashOK E msgs ck₂ disk₂ := by unfold CrashOK; rw [hp]; exact hcrash₂
  refine ⟨resume_e2e E msgs R ck₂ disk₂ hp hwl hsz hmem hcrash₂', hmem, ?_⟩
  -- `ck₂` comes at or after `ck₁` in an ordered list
  have hsorted := checkpoints_sorted E msgs R hp hwl
  obtain ⟨pre, hpre⟩ := hsuf
  rw [← hpre] at hsorted
  have hs2 := (List.pairwise_append.mp hsorted).2.1
  cases hl : resumedCheckpoints E msgs ck₁ disk₁ with
  | nil => rw [hl] at hck₂; cases hck₂
  | cons c cs =>
    rw [hl] at hhead hck₂ hs2
    cases hhead
    rcases List.mem_cons.mp hck₂ with rfl | hin
    · exact Nat.le_refl _
    · exact Nat.le_of_lt ((List.pairwise_cons.mp hs2).1 ck₂ hin).1

/-- The content of every checkpoint is exactly the state of the uninterrupted run at that point.
    The list is strictly ordered by the number of messages consumed (and weakly by file).  Every checkpoint `ck`
    lies in a file `ck.fileIndex` of the new build whose final content is some `w`, at a position
    `msgs = before ++ hm :: (consumed ++ ms)` with `hm` the file's SyncHeader, `ck.msgIndex` = the number of
    messages in `before ++ hm :: consumed`, `ms ≠ []`, and (`Located`, `StateExact`):
    * `written ≤ w.length`, and the loop run on just the consumed messages (series cut there by an end marker /
      `eof` control) produces exactly `w.take written`: `written` is the length of the bytes the uninterrupted
      run has written to the file after consuming `ck.msgIndex` messages, and those bytes are a prefix of the
      final content;
    * (bsdiff) `target` is the series' target file and `oldOffset` is the sum of the consumed controls'
      `len(add) + seek`;
    * from that state the remaining messages `ms` complete the file to `w`. -/
theorem checkpoint_state_exact (E : Env) (msgs : List WMsg) (R : Res)
    (hp : patch E msgs = .ok R) (hwl : E.whitelist = none) :
    (checkpoints E msgs).Pairwise Before ∧
    ∀ ck ∈ checkpoints E msgs,
      ck.fileIndex < E.newSizes.size ∧ ck.msgIndex < msgs.length ∧
      ∃ w, (ck.fileIndex, w) ∈ R.out ∧ ck.written ≤ w.length ∧ Located E msgs ck w := by
  refine ⟨checkpoints_sorted E msgs R hp hwl, ?_⟩
  intro ck hck
  obtain ⟨h1, h2, w, hmem, hloc⟩ := checkpoint_facts E msgs R hp hwl ck hck
  refine ⟨h1, h2, w, hmem, ?_, hloc⟩
  obtain ⟨_, _, _, _, _, _, _, _, hst⟩ := hloc
  exact hst.written_le

/-! ### non-vacuity: a concrete two-file patch (one rsync series with 3 ops, one bsdiff series with 2 controls) -/

/-- old build: two files -/
def exOlds : Array (List Byte) := #[[1, 2, 3, 4, 5, 6, 7, 8], [10, 20, 30, 40]]

def exEnv : Env :=
  { bs := 4, oldSizes := #[8, 4], newSizes := #[10, 5], pool := plainPool exOlds, whitelist := none }

def exMsgs : List WMsg :=
  [mkSyncHeader kindRsync 0, mkRange 0 0 1, mkData [9, 9], mkRange 0 1 1, mkHey,
   mkSyncHeader kindBsdiff 1, mkBsdiffHeader 1, mkControl [1, 1] [7] 0, mkControl [0, 0] [] 0, mkControlEof, mkHey]

/-- what the uninterrupted application produces -/
def exOut : List (Nat × List Byte) := [(0, [1, 2, 3, 4, 9, 9, 5, 6, 7, 8]), (1, [11, 21, 7, 30, 40])]

example : (match patch exEnv exMsgs with | .ok R => R.out | _ => []) = exOut := by decide

/-- six checkpoints: after each of the 3 ops of the rsync series (none before the first op), before each of the
    2 controls and before the `eof` control of the bsdiff series -/
example : checkpoints exEnv exMsgs =
    [⟨0, 2, .rsync 4⟩, ⟨0, 3, .rsync 6⟩, ⟨0, 4, .rsync 10⟩,
     ⟨1, 7, .bsdiff 1 0 0⟩, ⟨1, 8, .bsdiff 1 2 3⟩, ⟨1, 9, .bsdiff 1 4 5⟩] := by decide

/-- crash after the second rsync checkpoint: the file being written is LONGER than its final size and full of
    garbage beyond the checkpointed offset 6, the later file is garbage of the wrong size -/
def exDisk1 : Nat → List Byte := fun k =>
  if k = 0 then [1, 2, 3, 4, 9, 9, 0xAA, 0xBB, 0xCC, 0xDD, 0xEE, 0xFF, 0x99] else [0xDE, 0xAD, 0xBE, 0xEF, 0xDE, 0xAD, 0xBE]

example : CrashOK exEnv exMsgs ⟨0, 3, .rsync 6⟩ exDisk1 := by decide

example : resumeFrom exEnv exMsgs ⟨0, 3, .rsync 6⟩ exDisk1 = .ok exOut := by decide

/-- crash after the middle bsdiff checkpoint (old offset 2, 3 bytes written): first file complete, second one
    longer than final and garbage beyond offset 3 -/
def exDisk2 : Nat → List Byte := fun k =>
  if k = 0 then [1, 2, 3, 4, 9, 9, 5, 6, 7, 8] else [11, 21, 7, 0xAA, 0xBB, 0xCC, 0xDD, 0xEE]

example : CrashOK exEnv exMsgs ⟨1, 8, .bsdiff 1 2 3⟩ exDisk2 := by decide

example : resumeFrom exEnv exMsgs ⟨1, 8, .bsdiff 1 2 3⟩ exDisk2 = .ok exOut := by decide

/-- the hypotheses of `resume_e2e` hold for the example -/
example : SizesOK exEnv exOut := by decide

/-- the resumed run offers the later checkpoints -/
example : resumedCheckpoints exEnv exMsgs ⟨0, 3, .rsync 6⟩ exDisk1 =
    [⟨0, 3, .rsync 6⟩, ⟨0, 4, .rsync 10⟩, ⟨1, 7, .bsdiff 1 0 0⟩, ⟨1, 8, .bsdiff 1 2 3⟩, ⟨1, 9, .bsdiff 1 4 5⟩] := by
  decide

/-! ### the size hypothesis cannot be dropped (malformed patches: an rsync series whose ops do not add up to the
  size the container declares — the patcher does not check that, `processRsync` has no final-size test) -/

def exEnvLong : Env := { exEnv with newSizes := #[5, 5] }
def exEnvShort : Env := { exEnv with newSizes := #[12, 5] }
def exDiskExact : Nat → List Byte := fun k => if k = 0 then [1, 2, 3, 4, 9, 9] else []
def exDiskGarbage : Nat → List Byte := fun k => if k = 0 then [1, 2, 3, 4, 9, 9, 77, 77, 77, 77, 77, 77, 77] else []

/-- The series writes 10 bytes into a file declared with 5.  Uninterrupted: 10 bytes.  Checkpoint at offset 6, the
    disk EXACTLY as the run left it at that moment (no garbage involved); the new bowl's `Prepare` truncates the
    file to 5 bytes, the writer seeks to 6 and byte 5 becomes a zero: the resumed result differs. -/
theorem resume_needs_sizes_long :
    (match patch exEnvLong exMsgs with | .ok R => R.out | _ => []) = exOut ∧ (⟨0, 3, .rsync 6⟩ : Ckpt) ∈ checkpoints exEnvLong exMsgs ∧
    CrashOK exEnvLong exMsgs ⟨0, 3, .rsync 6⟩ exDiskExact ∧ ¬ SizesOK exEnvLong exOut ∧
    resumeFrom exEnvLong exMsgs ⟨0, 3, .rsync 6⟩ exDiskExact
      = .ok [(0, [1, 2, 3, 4, 9, 0, 5, 6, 7, 8]), (1, [11, 21, 7, 30, 40])] := by
  refine ⟨by decide, by decide, by decide, by decide, by decide⟩

/-- The series writes 10 bytes into a file declared with 12.  Uninterrupted: the 10 bytes (followed on disk by the
    2 zero bytes of the first `Prepare`).  A crash state with garbage beyond the checkpointed offset keeps its
    last 2 garbage bytes after resuming, because no message ever overwrites them. -/
theorem resume_needs_sizes_short :
    (match patch exEnvShort exMsgs with | .ok R => R.out | _ => []) = exOut ∧ (⟨0, 3, .rsync 6⟩ : Ckpt) ∈ checkpoints exEnvShort exMsgs ∧
    CrashOK exEnvShort exMsgs ⟨0, 3, .rsync 6⟩ exDiskGarbage ∧ ¬ SizesOK exEnvShort exOut ∧
    resumeFrom exEnvShort exMsgs ⟨0, 3, .rsync 6⟩ exDiskGarbage
      = .ok [(0, [1, 2, 3, 4, 9, 9, 5, 6, 7, 8, 77, 77]), (1, [11, 21, 7, 30, 40])] := by
  refine ⟨by decide, by decide, by decide, by decide, by decide⟩

end Wharf.C03
