/-
  C06, unconditional form (after the repair of finding F23).

  Before the repair, `Validate` stopped with an error when an `Lstat` of the directory pass or of the symlink pass
  failed with ELOOP (a signed directory replaced by a symlink that leads back to itself: every path below it fails
  to resolve), so healing such a directory was impossible and every theorem of Props/C06Restore.lean carried the
  hypothesis `validate … = .ok ws` / `validateAndHeal … = .ok t'`.  Running the real code at that excluded point
  confirmed the failure (class `heal-error:dir->symlink-loop`).  `IsNotExist` now counts ELOOP as "not there", the
  model follows (`TreeValidate.notExist`), and the hypothesis can be DISCHARGED: on this filesystem model every
  error of `lstat` is one of ENOENT, ENOTDIR, ELOOP, so validation never stops with an error, and for every
  well-formed signed build listed parents-first and EVERY tree (`TInv`: the invariant of all trees reachable
  by filesystem operations) validation with an archive healer terminates without error and leaves exactly the
  signed build.
-/
import Wharf.Props.C06Restore
import Wharf.Props.C06Sched

namespace Wharf.C06
open Wharf Wharf.FS Wharf.Validate Wharf.TreeValidate Wharf.Heal Wharf.HealTS

theorem resolve_error (t : Tree) : ∀ (fuel : Nat) (done p : Path) (e : Err),
    resolve t fuel done p = .error e → e = .eloop ∨ e = .enoent ∨ e = .enotdir := by
  intro fuel
  induction fuel with
  | zero => intro done p e h; simp only [resolve] at h; cases h; exact Or.inl rfl
  | succ n ih =>
    intro done p e h
    match p with
    | [] => simp only [resolve] at h; cases h
    | [last] => simp only [resolve] at h; cases h
    | c :: c' :: rest =>
      simp only [resolve] at h
      split at h
      · exact ih _ _ _ h
      · split at h
        · cases h; exact Or.inr (Or.inl rfl)
        · cases h; exact Or.inr (Or.inr rfl)
        · exact ih _ _ _ h
        · split at h
          · cases h; exact Or.inr (Or.inl rfl)
          · exact ih _ _ _ h

/-- every error of `lstat` is one the (repaired) validator treats as "not there" -/
theorem lstat_error_notExist (t : Tree) (p : Path) (e : Err) (h : lstat t p = .error e) : notExist e = true := by
  unfold lstat at h
  cases hc : canon t p with
  | error e' =>
    rw [hc] at h
    have he : e' = e := by simpa [bind, Except.bind] using h
    subst he
    rcases resolve_error t _ _ _ _ hc with rfl | rfl | rfl <;> rfl
  | ok q =>
    rw [hc] at h
    simp only [bind, Except.bind] at h
    split at h
    · cases h
    · cases h; rfl

theorem dirWounds_total (t : Tree) : ∀ (ps : List Path) (i : Nat), ∃ ws, dirWounds t i ps = .ok ws := by
  intro ps
  induction ps with
  | nil => intro i; exact ⟨[], rfl⟩
  | cons p rest ih =>
    intro i
    obtain ⟨ws, hws⟩ := ih (i + 1)
    simp only [dirWounds]
    cases hl : lstat t p with
    | error e =>
      simp only [lstat_error_notExist t p e hl, if_true, hws, Outcome.bind]
      exact ⟨_, rfl⟩
    | ok n =>
      cases n with
      | dir => exact ⟨ws, hws⟩
      | file d => simp only [hws, Outcome.bind]; exact ⟨_, rfl⟩
      | symlink d => simp only [hws, Outcome.bind]; exact ⟨_, rfl⟩

theorem symlinkWounds_total (t : Tree) : ∀ (ls : List (Path × String)) (i : Nat),
    ∃ ws, symlinkWounds t i ls = .ok ws := by
  intro ls
  induction ls with
  | nil => intro i; exact ⟨[], rfl⟩
  | cons l rest ih =>
    intro i
    obtain ⟨p, dest⟩ := l
    obtain ⟨ws, hws⟩ := ih (i + 1)
    simp only [symlinkWounds]
    cases hl : lstat t p with
    | error e =>
      simp only [lstat_error_notExist t p e hl, if_true, hws, Outcome.bind]
      exact ⟨_, rfl⟩
    | ok n =>
      cases n with
      | dir => simp only [hws, Outcome.bind]; exact ⟨_, rfl⟩
      | file d => simp only [hws, Outcome.bind]; exact ⟨_, rfl⟩
      | symlink d =>
        simp only []
        split
        · exact ⟨ws, hws⟩
        · simp only [hws, Outcome.bind]; exact ⟨_, rfl⟩

/-- Validation never stops with an error, whatever the tree looks like. -/
theorem validate_total (bs maxSize : Nat) (s : Signed) (t : Tree) : ∃ ws, validate bs maxSize s t = .ok ws := by
  obtain ⟨dw, hd⟩ := dirWounds_total t s.dirs 0
  obtain ⟨sw, hsw⟩ := symlinkWounds_total t s.symlinks 0
  exact ⟨dw ++ sw ++ filePassWounds bs maxSize t 0 s.files, by simp only [validate, hd, hsw, Outcome.bind]⟩

/-- **C06, unconditional.**  For every well-formed signed build listed parents-first and EVERY tree, validation
    with an archive healer terminates without error, and the tree it leaves holds exactly the signed build (so
    fail-fast validation passes afterwards). -/
theorem heal_always_restores (bs : Nat) (hbs : 0 < bs) (maxSize : Nat) (s : Signed) (t : Tree)
    (hs : SignedWF s) (hpf : ParentsFirst s) (ht : Wharf.Archive.TInv t) :
    ∃ t', validateAndHeal bs maxSize s t = .ok t' ∧ C05Tree.Matches s t' ∧ failFastOk bs maxSize s t' = true := by
  obtain ⟨ws, hv⟩ := validate_total bs maxSize s t
  obtain ⟨t', h⟩ := heal_completes_any_tree bs hbs maxSize s t ws hs hpf ht hv
  exact ⟨t', h, heal_restores_any_tree bs hbs maxSize s t t' hs hpf ht h,
    heal_then_valid_any_tree bs hbs maxSize s t t' hs hpf ht h⟩

/-! ### every schedule -/

theorem dirEntry_total (t : Tree) (i : Nat) (p : Path) : ∃ w, dirEntry t i p = .ok w := by
  unfold dirEntry
  cases hl : lstat t p with
  | error e => simp only [lstat_error_notExist t p e hl, if_true]; exact ⟨_, rfl⟩
  | ok n => cases n <;> exact ⟨_, rfl⟩

theorem symlinkEntry_total (t : Tree) (i : Nat) (p : Path) (dest : String) :
    ∃ w, symlinkEntry t i p dest = .ok w := by
  unfold symlinkEntry
  cases hl : lstat t p with
  | error e => simp only [lstat_error_notExist t p e hl, if_true]; exact ⟨_, rfl⟩
  | ok n =>
    cases n with
    | dir => exact ⟨_, rfl⟩
    | file d => exact ⟨_, rfl⟩
    | symlink d => simp only []; split <;> exact ⟨_, rfl⟩

/-- one transition never produces the validator's error state -/
theorem step_no_validator_error (bs maxSize : Nat) (s : Signed) (σ σ' : State) (l : Label)
    (hσ : σ.status ≠ .validatorError) (h : step bs maxSize s σ l = some σ') : σ'.status ≠ .validatorError := by
  unfold step at h
  split at h
  · cases h
  · rename_i hrun
    have hrun' : σ.status = .running := by
      cases hst : σ.status <;> simp_all
    cases l with
    | vDir =>
      simp only [stepVDir] at h
      split at h
      · cases h
      · rename_i p _
        obtain ⟨w, hw⟩ := dirEntry_total σ.tree σ.dirPos p
        rw [hw] at h
        cases h; simp [hrun']
    | vDirLate =>
      simp only [stepVDirLate] at h
      split at h
      · cases h
      · cases h; simp [hrun']
    | vSymlink =>
      simp only [stepVSymlink] at h
      split at h
      · split at h
        · cases h
        · rename_i p dest _
          obtain ⟨w, hw⟩ := symlinkEntry_total σ.tree σ.symPos p dest
          rw [hw] at h
          cases h; simp [hrun']
      · cases h
    | vSymlinkLate =>
      simp only [stepVSymlinkLate] at h
      split at h
      · split at h
        · cases h
        · cases h; simp [hrun']
      · cases h
    | vFile ws =>
      simp only [stepVFile] at h
      split at h
      · split at h
        · cases h
        · split at h
          · cases h; simp [hrun']
          · cases h
      · cases h
    | vDone =>
      simp only [stepVDone] at h
      split at h
      · cases h; simp [hrun']
      · cases h
    | hWound =>
      simp only [stepHWound] at h
      split at h
      · cases h
      · split at h
        · split at h
          · split at h
            · cases h; simp [hrun']
            · cases h; simp
          · cases h; simp
        · split at h
          · split at h
            · cases h; simp [hrun']
            · cases h; simp
          · cases h; simp
        · cases h; simp [hrun']
        · cases h; simp [hrun']
    | hFile =>
      simp only [stepHFile] at h
      split at h
      · cases h
      · split at h
        · split at h
          · cases h; simp [hrun']
          · cases h; simp
        · cases h; simp

/-- Under no schedule does the validator stop with an error. -/
theorem reach_no_validator_error (bs maxSize : Nat) (s : Signed) (t : Tree) (σ : State)
    (hr : Reach bs maxSize s (HealTS.init t) σ) : σ.status ≠ .validatorError := by
  induction hr with
  | refl => simp [HealTS.init]
  | step _ hs ih => exact step_no_validator_error bs maxSize s _ _ _ ih hs

/-- **C06, unconditional, every schedule.**  For every well-formed signed build listed parents-first and EVERY
    tree: however validator, wound channel, healer and healing goroutine interleave, a run that cannot go on has
    returned (terminal), nothing has failed, and its tree holds exactly the signed build. -/
theorem heal_always_restores_any_schedule (bs : Nat) (hbs : 0 < bs) (maxSize : Nat) (s : Signed) (t : Tree)
    (σ : State) (hs : SignedWF s) (hpf : ParentsFirst s) (ht : Wharf.Archive.TInv t)
    (hr : Reach bs maxSize s (HealTS.init t) σ) (hstuck : ∀ l, step bs maxSize s σ l = none) :
    σ.terminal ∧ σ.failed = false ∧ C05Tree.Matches s σ.tree := by
  rcases heal_any_tree_any_schedule_completes bs hbs maxSize s t σ hs hpf ht hr hstuck with h | h
  · exact absurd h (reach_no_validator_error bs maxSize s t σ hr)
  · exact h

/-! ### the formerly excluded point (finding F23): the signed directory `a` replaced by a symlink to itself -/

def exF23Tree : Tree := { entries := [(["a"], .symlink "a")] }

/-- the hypotheses of `heal_always_restores` hold at that point … -/
theorem f23_hyps : SignedWF exF15Signed ∧ ParentsFirst exF15Signed ∧ Wharf.Archive.TInv exF23Tree := by
  refine ⟨⟨by decide, by decide, ?_⟩, ?_, ⟨by decide, by decide, ?_⟩⟩
  · intro p hp j hj1 hj2
    simp only [allPaths, exF15Signed, List.map_cons, List.map_nil, List.cons_append, List.nil_append,
      List.mem_cons, List.not_mem_nil, or_false] at hp
    rcases hp with rfl | rfl
    · simp at hj2; omega
    · have : j = 1 := by simp at hj2; omega
      subst this; decide
  · intro i h j hj1 hj2
    simp only [exF15Signed, List.length_cons, List.length_nil] at h
    have : i = 0 := by omega
    subst this
    simp [exF15Signed] at hj2; omega
  · unfold Wharf.Archive.IsDir; decide

/-- … so healing it terminates without error and restores the build (before the repair the validator — and the
    model — stopped with ELOOP on `a/f`). -/
theorem f23_heals : ∃ t', validateAndHeal 2 100 exF15Signed exF23Tree = .ok t' ∧ C05Tree.Matches exF15Signed t' ∧
    failFastOk 2 100 exF15Signed t' = true :=
  heal_always_restores 2 (by decide) 100 exF15Signed exF23Tree f23_hyps.1 f23_hyps.2.1 f23_hyps.2.2

end Wharf.C06
