/-
  C16, verdict half — "a clean verdict is never caused by interruption".
  Property theorems only, about the value-carrying goroutine transition system of fail-fast `Validate`
  (Wharf/Model/ValidateVerdictTS.lean); helper lemmas live in Wharf/Proofs/ValidateVerdict.lean.

  Reading guide: `Cfg` describes the directory as a COMPLETE validation would see it (`preBad`, `woundsOf`,
  `realOf`), `Reach c init s` ranges over every interleaving of main / worker / guardian / drain loop, every
  instant of the context cancellation (`ctxCancel` is enabled in every state, also in `init`, i.e. "before the
  start"), every I/O failure instant, every channel capacity and every number of wounds.
  `s.ret = some v` means "`Validate` has returned v" (`none` = nil).
-/
import Wharf.Model.ValidateVerdictTS
import Wharf.Proofs.ValidateVerdict

namespace Wharf.C16
open Wharf.ValidateVerdict

/-! ### the verdict -/

/-- C16 (verdict): whenever fail-fast `Validate` returns nil — under ANY interleaving, ANY cancellation instant
    (never, before the start, between two files, while the last file is being validated, after the worker has
    finished), ANY I/O failure instant, ANY channel capacity and ANY number of wounds — then
    * it returned through its final `return retErr` (so the dir/symlink pass ran to its end) and the worker is
      gone,
    * every file was handed to the worker and validated to the end, no wound send was abandoned on
      `<-cancelled`, no I/O error happened,
    * the guardian returned nil, i.e. it received every wound that was sent and then saw the channel closed
      and empty,
    * and NO wound of a complete validation of the tree is real.
    Equivalently: an interrupted or damaged validation never yields nil. -/
theorem clean_verdict_sound (c : Cfg) (s : St) (h : Reach c init s) (hret : s.ret = some none) :
    (s.main = .returned ∧ s.worker = .gone) ∧
    (s.dispatched = c.nfiles ∧ s.filesDone = c.nfiles ∧ s.dropped = false ∧ s.ioFailed = false) ∧
    (s.doResult = some none ∧ s.wounds = []) ∧
    NoReal c := by
  have f := clean_facts h hret
  exact ⟨⟨f.returned, f.workerGone⟩, ⟨f.allDispatched, f.allFilesDone, f.nothingDropped, f.noIoFailure⟩,
    ⟨f.guardianSawClose, f.channelEmpty⟩, (noReal_iff c).mpr ⟨f.preClean, f.filesClean⟩⟩

/-- C16 (verdict), corollary: if the complete wound list of the tree contains a real wound, `Validate` never
    returns nil — whatever the schedule, the cancellation instant, the capacity. -/
theorem damaged_never_clean (c : Cfg) (hreal : HasReal c) (s : St) (h : Reach c init s) :
    s.ret ≠ some none := by
  intro hret
  exact hasReal_not_noReal hreal (clean_verdict_sound c s h hret).2.2.2

/-- the same with the damage stated on the flat wound list (`true` = a real wound) -/
theorem damaged_never_clean_list (c : Cfg) (hreal : true ∈ woundList c) (s : St) (h : Reach c init s) :
    s.ret ≠ some none :=
  damaged_never_clean c ((hasReal_iff_woundList c).mpr hreal) s h

/-- C16 (verdict), the interruption itself: once the guardian has left `Do` through its `ctx.Done()` arm
    (or with `ErrHasWound`), i.e. before it has seen all the wounds, `Validate` cannot return nil any more —
    also on a perfectly valid tree. -/
theorem interrupted_never_clean (c : Cfg) (s : St) (h : Reach c init s) (e : Err)
    (hdo : s.doResult = some (some e)) : s.ret ≠ some none := by
  intro hret
  have := (clean_facts h hret).guardianSawClose
  rw [hdo] at this
  cases this

/-- C16 (verdict): a worker that stopped early (it skipped files after `<-cancelled`, abandoned a wound send,
    or hit an I/O error), or a failed `targetPool.Close()`, never ends in a nil verdict. -/
theorem early_worker_never_clean (c : Cfg) (s : St) (h : Reach c init s)
    (hearly : s.filesDone ≠ c.nfiles ∨ s.dropped = true ∨ s.ioFailed = true ∨ s.closeFailed = true ∨
      s.cancelled = true) :
    s.ret ≠ some none := by
  intro hret
  have f := clean_facts h hret
  have hcf := (invC_reach h).closeFailedStuck
  rcases hearly with h1 | h1 | h1 | h1 | h1
  · exact h1 f.allFilesDone
  · rw [f.nothingDropped] at h1; cases h1
  · rw [f.noIoFailure] at h1; cases h1
  · have := (hcf h1).2.1
    rw [f.returned] at this
    cases this
  · rw [f.notCancelled] at h1; cases h1

/-- Exact verdict of an undisturbed run (no context cancellation, no I/O failure up to the state — both flags
    are monotone, so this is "no `ctxCancel` and no failure step on the path"): `Validate` returns nil exactly
    when the complete validation has no real wound, and `ErrHasWound` otherwise.  This is the concurrent
    counterpart of `C05Tree.verdict_iff` (`failFastOk … = true ↔ Matches s t`, about the sequential validator):
    with `c` listing the wounds of `TreeValidate.validate`, `NoReal c` is `(realWounds ws).isEmpty`. -/
theorem uncancelled_verdict_exact (c : Cfg) (s : St) (h : Reach c init s)
    (hctx : s.ctxDone = false) (hio : s.ioFailed = false) (r : Option Err) (hret : s.ret = some r) :
    (r = none ↔ NoReal c) ∧ (r ≠ none → r = some .hasWound ∧ HasReal c) := by
  have hq := quiet_ret h hctx hio r hret
  constructor
  · constructor
    · intro hr
      subst hr
      exact (clean_verdict_sound c s h hret).2.2.2
    · intro hn
      rcases hq with hq | ⟨_, hreal⟩
      · exact hq
      · exact absurd hn (hasReal_not_noReal hreal)
  · intro hne
    rcases hq with hq | hq
    · exact absurd hq hne
    · exact hq

/-- the same for runs built only from undisturbed steps -/
theorem uncancelled_verdict_exact' (c : Cfg) (s : St) (h : ReachQuiet c s) (r : Option Err)
    (hret : s.ret = some r) :
    (r = none ↔ NoReal c) ∧ (r ≠ none → r = some .hasWound ∧ HasReal c) := by
  obtain ⟨hr, hctx, hio⟩ := reachQuiet_reach h
  exact uncancelled_verdict_exact c s hr hctx hio r hret

/-- the `<-cancelled` arm of `doWholeSymlinkWound` (validator.go:203) is dead code: `cancelled` is never closed
    while main is in the dir/symlink pass, so that pass never abandons a wound -/
theorem pre_pass_never_cancelled (c : Cfg) (s : St) (h : Reach c init s) (i : Nat) (hm : s.main = .pre i) :
    s.cancelled = false :=
  ((invC_reach h).earlyQuiet (by simp [hm])).1

/-! ### termination, re-proved for the value-carrying system -/

/-- a step other than the environment's context cancellation -/
def VProgramStep (l : Lbl) : Prop := l ≠ .ctxCancel

/-- C16 (a), no deadlock: in every reachable state in which `targetPool.Close()` has not failed, as long as
    `Validate` has not returned, some goroutine can take a step that is neither an environment step
    (`ctxCancel`, an I/O failure) nor an abandoned wound send — for every capacity ≥ 1. -/
theorem verdict_progress (c : Cfg) (hcap : 0 < c.cap) (s : St) (h : Reach c init s)
    (hcf : s.closeFailed = false) (hnr : s.ret = none) :
    ∃ l s', Good l ∧ step c s l = some s' := by
  have hv := invV_reach h
  have hr := hv.retIs
  rw [hnr] at hr
  refine inv_progress (invC_reach h) hv hcap hcf ?_ ?_
  · intro hm; rw [hm] at hr; cases hr
  · intro hm; rw [hm] at hr; cases hr

/-- C16 (a), blocked sends: whenever the wound channel is non-empty (in particular: full) and main has not yet
    closed it, a consumer-side step other than the `ctx.Done()` arm is enabled — a wound send of main's pre-pass
    or of the worker never blocks forever, whatever the guardian did. -/
theorem verdict_full_channel_unblocked (c : Cfg) (s : St) (h : Reach c init s)
    (hne : s.wounds ≠ []) (hopen : s.woundsClosed = false) :
    ∃ l s', CSide l ∧ step c s l = some s' :=
  Wharf.ValidateVerdict.full_channel_unblocked (invV_reach h) hopen hne

/-- C16 (b), no infinite run: a natural-number measure that every step strictly decreases. -/
theorem verdict_variant (c : Cfg) :
    ∃ μ : St → Nat, ∀ s s' l, step c s l = some s' → μ s' < μ s :=
  ⟨mu c, fun _ _ _ hs => mu_step hs⟩

/-- C16: every execution is finite and, when no program step is possible any more (and `targetPool.Close()`
    has not failed), `Validate` has returned a value; if it returned through its final `return retErr`, the
    worker and the consumer goroutine are gone. -/
theorem verdict_returns (c : Cfg) (hcap : 0 < c.cap) (s : St) (h : Reach c init s)
    (hcf : s.closeFailed = false) (hstuck : ∀ l s', VProgramStep l → step c s l ≠ some s') :
    s.ret ≠ none ∧ (s.main = .returned → s.worker = .gone ∧ s.consumer = .gone) := by
  constructor
  · intro hnr
    obtain ⟨l, s', hl, hs⟩ := verdict_progress c hcap s h hcf hnr
    exact absurd hs (hstuck l s' hl.1)
  · intro hr
    exact inv_returned (invC_reach h) (invV_reach h) hr hstuck

/-! ### non-vacuity: concrete schedules (checked by `decide`) -/

/-- one healthy dir, one file emitting a healthy marker and then a REAL wound; 1-slot channel -/
def exDamaged : Cfg :=
  { cap := 1, npre := 1, preBad := fun _ => false, nfiles := 1, woundsOf := fun _ => 2,
    realOf := fun _ k => k == 1 }

/-- one healthy dir, one file emitting two healthy markers; 1-slot channel -/
def exValid : Cfg :=
  { cap := 1, npre := 1, preBad := fun _ => false, nfiles := 1, woundsOf := fun _ => 2,
    realOf := fun _ _ => false }

/-- two files, the first one with a single real wound; 1-slot channel -/
def exTwoFiles : Cfg :=
  { cap := 1, npre := 0, preBad := fun _ => false, nfiles := 2, woundsOf := fun _ => 1,
    realOf := fun i _ => i == 0 }

/-- Damaged tree, the context is cancelled WHILE THE LAST FILE IS BEING VALIDATED (its real wound has not been
    produced yet), the guardian takes its `ctx.Done()` arm: `Validate` returns `ErrCancelled` — not nil — and
    every goroutine ends. -/
theorem witness_cancel_during_last_file : ∃ s, Reach exDamaged init s ∧
    (s.ret = some (some .cancelled) ∧ s.main = .returned ∧ s.worker = .gone ∧ s.consumer = .gone) :=
  exists_reach_of_run exDamaged init
    [.mainPreOk, .mainSpawn, .workerPoolOk, .mainDispatch, .workerSendWound, .guardTakeHealthy, .ctxCancel,
     .guardCtx, .consumerSend, .mainCloseIndices, .workerSendWound, .workerFinishFile, .workerSeesClosed,
     .workerExit, .mainJoinWorker, .mainJoinConsumer, .drainTake, .drainDone]
    (fun s => s.ret = some (some .cancelled) ∧ s.main = .returned ∧ s.worker = .gone ∧ s.consumer = .gone)
    (by decide)

example : ∃ s, Reach exDamaged init s ∧
    (s.ret = some (some .cancelled) ∧ s.main = .returned ∧ s.worker = .gone ∧ s.consumer = .gone) :=
  witness_cancel_during_last_file

/-- Damaged tree, no cancellation: the guardian meets the real wound and `Validate` returns `ErrHasWound`. -/
theorem witness_has_wound : ∃ s, Reach exDamaged init s ∧
    (s.ret = some (some .hasWound) ∧ s.ctxDone = false ∧ s.consumer = .gone) :=
  exists_reach_of_run exDamaged init
    [.mainPreOk, .mainSpawn, .workerPoolOk, .mainDispatch, .workerSendWound, .guardTakeHealthy,
     .workerSendWound, .guardTakeReal, .consumerSend, .workerFinishFile, .mainCloseIndices, .workerSeesClosed,
     .workerExit, .mainJoinWorker, .mainJoinConsumer, .drainDone]
    (fun s => s.ret = some (some .hasWound) ∧ s.ctxDone = false ∧ s.consumer = .gone) (by decide)

example : ∃ s, Reach exDamaged init s ∧
    (s.ret = some (some .hasWound) ∧ s.ctxDone = false ∧ s.consumer = .gone) :=
  witness_has_wound

/-- Fail-fast in the dispatch loop: main receives the guardian's `ErrHasWound` in its `select`
    (validator.go:263-267: puts nil back, `retErr = consumerErr`, closes `cancelled`), the worker sees
    `<-cancelled` and quietly skips the second file, the join reads the nil that was put back — and the value
    returned is still `ErrHasWound`. -/
theorem witness_fail_fast_skips : ∃ s, Reach exTwoFiles init s ∧
    (s.ret = some (some .hasWound) ∧ s.filesDone = 1 ∧ s.cancelled = true ∧ s.consumer = .gone) :=
  exists_reach_of_run exTwoFiles init
    [.mainSpawn, .workerPoolOk, .mainDispatch, .workerSendWound, .guardTakeReal, .consumerSend,
     .mainSeesConsumerErr, .mainCloseIndices, .workerFinishFile, .workerSeesCancelled, .workerExit,
     .mainJoinWorker, .mainJoinConsumer, .drainDone]
    (fun s => s.ret = some (some .hasWound) ∧ s.filesDone = 1 ∧ s.cancelled = true ∧ s.consumer = .gone)
    (by decide)

/-- Valid tree, undisturbed: `Validate` returns nil, with every goroutine gone. -/
theorem witness_clean : ∃ s, Reach exValid init s ∧
    (s.ret = some none ∧ s.main = .returned ∧ s.worker = .gone ∧ s.consumer = .gone) :=
  exists_reach_of_run exValid init
    [.mainPreOk, .mainSpawn, .workerPoolOk, .mainDispatch, .workerSendWound, .guardTakeHealthy,
     .workerSendWound, .guardTakeHealthy, .workerFinishFile, .mainCloseIndices, .workerSeesClosed, .workerExit,
     .mainJoinWorker, .guardSeesClosed, .consumerSend, .mainJoinConsumer, .drainDone]
    (fun s => s.ret = some none ∧ s.main = .returned ∧ s.worker = .gone ∧ s.consumer = .gone) (by decide)

example : ∃ s, Reach exValid init s ∧
    (s.ret = some none ∧ s.main = .returned ∧ s.worker = .gone ∧ s.consumer = .gone) :=
  witness_clean

/-- The intended asymmetry: a cancelled run on a VALID tree may return `ErrCancelled` (here the context is
    cancelled before the start and the guardian takes its `ctx.Done()` arm at once).  The property allows
    this: an interruption may cost a clean verdict, it may never produce one. -/
theorem cancelled_valid_may_error : ∃ s, Reach exValid init s ∧
    (NoReal exValid ∧ s.ret = some (some .cancelled)) := by
  obtain ⟨s, hr, hs⟩ := exists_reach_of_run exValid init
    [.ctxCancel, .guardCtx, .consumerSend, .mainPreOk, .mainSpawn, .workerPoolOk, .mainSeesConsumerErr,
     .mainCloseIndices, .workerSeesCancelled, .workerExit, .mainJoinWorker, .mainJoinConsumer]
    (fun s => s.ret = some (some .cancelled)) (by decide)
  exact ⟨s, hr, ⟨fun _ _ => rfl, fun _ _ _ _ => rfl⟩, hs⟩

example : ∃ s, Reach exValid init s ∧ (NoReal exValid ∧ s.ret = some (some .cancelled)) :=
  cancelled_valid_may_error

/-- …and a cancelled run on a valid tree may also still return nil, but only because the guardian's `select`
    happened to keep taking wounds until it saw the channel closed (here the cancellation comes after the
    worker has finished): nothing was left unseen, as `clean_verdict_sound` demands. -/
theorem witness_cancelled_yet_complete : ∃ s, Reach exValid init s ∧
    (s.ctxDone = true ∧ s.ret = some none ∧ s.doResult = some none) :=
  exists_reach_of_run exValid init
    [.mainPreOk, .mainSpawn, .workerPoolOk, .mainDispatch, .workerSendWound, .guardTakeHealthy,
     .workerSendWound, .workerFinishFile, .mainCloseIndices, .workerSeesClosed, .workerExit, .ctxCancel,
     .guardTakeHealthy, .mainJoinWorker, .guardSeesClosed, .consumerSend, .mainJoinConsumer]
    (fun s => s.ctxDone = true ∧ s.ret = some none ∧ s.doResult = some none) (by decide)

/-! ### observations on the termination half (paths the count-only system `Wharf.ValidateTS` does not have) -/

/-- OBSERVATION (hang): if `targetPool.Close()` fails in the worker's deferred function
    (validator.go:311-315: `retErr = errors.WithStack(err); return`), the worker goroutine ends WITHOUT
    sending on `errs`; main then blocks forever in `err := <-workerErrs` (validator.go:277) and `Validate`
    never returns — here on a valid tree, in a state where not even a context cancellation unblocks anything. -/
theorem close_failure_hangs : ∃ s, Reach exValid init s ∧
    (s.main = .closed ∧ s.ret = none ∧ s.closeFailed = true ∧ ∀ l, step exValid s l = none) := by
  obtain ⟨s, hr, h1, h2, h3, h4⟩ := exists_reach_of_run exValid init
    [.mainPreOk, .mainSpawn, .workerPoolOk, .mainDispatch, .workerSendWound, .guardTakeHealthy,
     .workerSendWound, .guardTakeHealthy, .workerFinishFile, .mainCloseIndices, .workerSeesClosed,
     .workerCloseFails, .ctxCancel, .guardCtx, .consumerSend]
    (fun s => s.main = .closed ∧ s.ret = none ∧ s.closeFailed = true ∧ stuck exValid s = true) (by decide)
  exact ⟨s, hr, h1, h2, h3, stuck_spec h4⟩

/-- OBSERVATION (goroutine leak): the early `return err` of the dir/symlink pass (validator.go:179, 230) returns
    an error — fine for the verdict — but leaves the consumer goroutine behind: `vctx.Wounds` is never closed,
    so the guardian (or, after a cancellation, the drain loop) blocks forever. -/
theorem early_return_leaks_consumer : ∃ s, Reach exValid init s ∧
    (s.ret = some (some .other) ∧ s.consumer = .draining ∧ s.woundsClosed = false ∧
      ∀ l, step exValid s l = none) := by
  obtain ⟨s, hr, h1, h2, h3, h4⟩ := exists_reach_of_run exValid init
    [.mainPreFail, .ctxCancel, .guardCtx, .consumerSend]
    (fun s => s.ret = some (some .other) ∧ s.consumer = .draining ∧ s.woundsClosed = false ∧
      stuck exValid s = true) (by decide)
  exact ⟨s, hr, h1, h2, h3, stuck_spec h4⟩

end Wharf.C16
