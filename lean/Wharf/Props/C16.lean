/-
  C16 — Validation always terminates; a clean verdict is never caused by interruption.
  Property theorems only (helper lemmas live in Wharf/Proofs/ValidateTS.lean).
-/
import Wharf.Model.ValidateTS
import Wharf.Proofs.ValidateTS

namespace Wharf.C16
open Wharf.ValidateTS

/-- a step other than the environment's context cancellation -/
def ProgramStep (l : Lbl) : Prop := l ≠ .ctxCancel

/-- C16 (a), no deadlock: in every state reachable under ANY interleaving, ANY number of wounds per file
    (also more than the channel holds), ANY consumer failure point and ANY cancellation instant, as long as
    `Validate` has not returned some goroutine can take a step (the caller is never left blocked). -/
theorem progress (cap pre nfiles : Nat) (hcap : 0 < cap) (woundsOf : Nat → Nat) (budget : Option Nat) (s : St)
    (h : Reach (init cap pre nfiles woundsOf budget) s) (hnr : s.main ≠ .returned) :
    ∃ l s', ProgramStep l ∧ step s l = some s' := by
  have hi : Inv s := inv_reach (inv_init cap pre nfiles woundsOf budget) h
  have hc : 0 < s.cap := by rw [reach_cap h]; exact hcap
  obtain ⟨l, s', hl, hs⟩ := inv_progress hi hc hnr
  exact ⟨l, s', hl.1, hs⟩

/-- C16 (a), strong form: the step can always be chosen different from the environment's `ctxCancel` AND from
    the worker's spontaneous failure `workerFails` — in particular a worker blocked on the full wound channel
    is always unblocked by the consumer side (consumer, its result send, or the drain loop). -/
theorem progress_strong (cap pre nfiles : Nat) (hcap : 0 < cap) (woundsOf : Nat → Nat) (budget : Option Nat)
    (s : St) (h : Reach (init cap pre nfiles woundsOf budget) s) (hnr : s.main ≠ .returned) :
    ∃ l s', l ≠ .ctxCancel ∧ l ≠ .workerFails ∧ step s l = some s' := by
  have hi : Inv s := inv_reach (inv_init cap pre nfiles woundsOf budget) h
  have hc : 0 < s.cap := by rw [reach_cap h]; exact hcap
  obtain ⟨l, s', hl, hs⟩ := inv_progress hi hc hnr
  exact ⟨l, s', hl.1, hl.2, hs⟩

/-- C16 (a), blocked sends: whenever the wound channel is full and main has not yet closed it (so: during the
    pre-pass, the dispatch loop and the wait for the worker), a consumer-side step (`consumerTake`,
    `consumerFail`, `consumerSend`, `drainTake`, …) is enabled — a wound send of main's pre-pass or of the worker
    never blocks forever, whatever the consumer did (failed, was cancelled, is still running). -/
theorem full_channel_unblocked (cap pre nfiles : Nat) (hcap : 0 < cap) (woundsOf : Nat → Nat)
    (budget : Option Nat) (s : St) (h : Reach (init cap pre nfiles woundsOf budget) s)
    (hfull : s.wounds ≥ s.cap) (hopen : s.woundsClosed = false) :
    ∃ l s', CSide l ∧ step s l = some s' := by
  have hi : Inv s := inv_reach (inv_init cap pre nfiles woundsOf budget) h
  have hc : 0 < s.cap := by rw [reach_cap h]; exact hcap
  exact Wharf.ValidateTS.full_channel_unblocked hi hopen (by omega)

/-- C16 (b), no infinite run: there is a natural-number measure that every step strictly decreases. -/
theorem variant (cap pre nfiles : Nat) (woundsOf : Nat → Nat) (budget : Option Nat) :
    ∃ μ : St → Nat, ∀ s s' l, Reach (init cap pre nfiles woundsOf budget) s → step s l = some s' → μ s' < μ s := by
  exact ⟨mu, fun _ _ _ _ hs => mu_step hs⟩

/-- C16: every execution from the initial state is finite and, when no step is possible any more, `Validate`
    has returned and both the worker and the consumer goroutine are gone (no goroutine is left behind). -/
theorem returns (cap pre nfiles : Nat) (hcap : 0 < cap) (woundsOf : Nat → Nat) (budget : Option Nat) (s : St)
    (h : Reach (init cap pre nfiles woundsOf budget) s)
    (hstuck : ∀ l s', ProgramStep l → step s l ≠ some s') :
    s.main = .returned ∧ s.worker = .gone ∧ s.consumer = .gone := by
  have hi : Inv s := inv_reach (inv_init cap pre nfiles woundsOf budget) h
  have hr : s.main = .returned := by
    by_cases hr : s.main = .returned
    · exact hr
    · obtain ⟨l, s', hl, hs⟩ := progress cap pre nfiles hcap woundsOf budget s h hr
      exact absurd hs (hstuck l s' hl)
  exact ⟨hr, inv_returned hi hr hstuck⟩

/-- named version of the non-vacuity example below (so that its axioms can be printed) -/
theorem witness_returned : ∃ s, Reach (init 1 1 1 (fun _ => 3) (some 1)) s ∧ s.main = .returned := by
  exact exists_reach_of_run _
    [.mainPreWound, .consumerTake, .consumerFail, .consumerSend, .mainSeesConsumerErr, .mainCloseIndices,
     .workerSeesClosed, .workerExit, .mainJoinWorker, .mainJoinConsumer]
    (fun s => s.main = .returned) (by decide)

/-- Non-vacuity: with 1 slot, one pre-pass wound, one file with 3 wounds and a consumer failing after 1
    wound, a concrete interleaving reaches the returned state. -/
example : ∃ s, Reach (init 1 1 1 (fun _ => 3) (some 1)) s ∧ s.main = .returned := by
  exact witness_returned

/-- Non-vacuity, full run: same parameters, the file is dispatched and all its 3 wounds squeeze through the
    1-slot channel (the worker blocks repeatedly), the consumer fails after its first wound and the drain loop
    takes over; the run ends with every goroutine gone and the channel empty. -/
theorem witness_full_run : ∃ s, Reach (init 1 1 1 (fun _ => 3) (some 1)) s ∧
    (s.main = .returned ∧ s.worker = .gone ∧ s.consumer = .gone ∧ s.wounds = 0) := by
  exact exists_reach_of_run _
    [.mainPreWound, .mainDispatch, .consumerTake, .workerSendWound, .consumerFail, .consumerSend, .drainTake,
     .workerSendWound, .mainCloseIndices, .drainTake, .workerSendWound, .workerFinishFile, .workerSeesClosed,
     .workerExit, .mainJoinWorker, .mainJoinConsumer, .drainTake, .drainDone]
    (fun s => s.main = .returned ∧ s.worker = .gone ∧ s.consumer = .gone ∧ s.wounds = 0) (by decide)

end Wharf.C16
