/-
  C08, last clause — "when a new file differs from an old file by localized edits, the fresh bytes in the patch
  are bounded by the bytes the edits introduce plus a constant number of blocks per edit, independent of file
  size and of whether an edit shifts all following data".

  The clause follows from the COMPLETENESS of the scanner of `wsync.ComputeDiff`:
  * `fresh_position_no_old_block` / `data_contains_no_old_block` / `fresh_window_count`: a position that ends
    up in a data operation is never the start of a window equal to a full block of an old file (as long as the
    rolling hash moved at that position and two blocks are left in the source);
  * `data_op_position`: the `(start, len)` of a data op are the offsets at which the replay writes its bytes
    (adequacy of `freshAt`);
  * `fresh_le_potential`: the general counting principle behind the bound;
  * `localized_edits_bound`: `k` edits cost at most `introduced + (2k+2)·blockSize` fresh bytes
    (`localized_edits_bound_sharp`: `(2k+2)·(blockSize-1)`), whatever the sizes of the unchanged stretches and
    of the removed stretches, whatever other old files there are and whatever the preferred file;
  * `single_replace_bound` and its special cases `single_insertion_bound`, `single_deletion_bound`,
    `single_overwrite_bound` (`k = 1`: `fresh ≤ |ins| + 4·blockSize - 4`).

  HYPOTHESIS `NoWeakRepeat` (no two consecutive full windows of the new file have the same weak hash): it is
  NECESSARY.  `ComputeDiff` skips the library lookup when the rolled weak hash equals the previous one; on
  content where this happens at every position at which the scanner could re-align, nothing is found any more.
  See the last `example`: one byte inserted in front of `(2,0,1)^5` with block size 3 makes all 16 bytes
  fresh (checked against the Go code as well: `(2,0,1)^1000` gives 3001 fresh bytes of 3001, while inserting
  the byte `7` instead of `1` gives 4).

  NOT PROVED (and not attempted):
  * any statement about how likely `NoWeakRepeat` is (the "2^-16 per position" heuristic);
  * a bound in the presence of weak-hash repeats away from the re-alignment positions (the potential argument
    only needs `HashMoved` at the block-aligned positions of the unchanged stretches; `NoWeakRepeat` asks
    for it everywhere to keep the statement simple — `fresh_le_potential` is the tool for finer statements);
  * the identity "number of fresh positions = sum of the lengths of the data ops" (the bound is stated for the
    sum of the lengths, which is what `accounting` and the runtime oracle use).

  Helper lemmas live in Wharf/Proofs/RsyncComplete.lean and Wharf/Proofs/RsyncEdits.lean.
-/
import Wharf.Model.Rsync
import Wharf.Props.C08
import Wharf.Proofs.RsyncComplete
import Wharf.Proofs.RsyncEdits

namespace Wharf.C08
open Wharf Wharf.Rsync

/-- Source position `i` is fresh in the patch `ops`: it lies in the source interval `[start, start+len)` of a
    data op (data ops of the model carry `(start, len)` into the source, and the replay puts them exactly
    there: `data_op_position` below and `Wharf.C11.roundtrip`). -/
def freshAt (ops : List Op) (i : Nat) : Prop :=
  ∃ st len, Op.data st len ∈ ops ∧ st ≤ i ∧ i < st + len

/-- Some full block of some old file equals the window `src[x, x+bs)`. -/
def OldBlockAt (bs : Nat) (olds : List Content) (src : Content) (x : Nat) : Prop :=
  ∃ (f : Nat) (old : Content) (k : Nat), olds[f]? = some old ∧ (k + 1) * bs ≤ old.size ∧
    ∀ j, j < bs → old.get (k * bs + j) = src.get (x + j)

/-- The `skip` optimisation cannot hide position `x`: it is the first window, or the weak hash of the window
    at `x` differs from that of the window one byte before (the differ skips the lookup when they are
    equal). -/
def HashMoved (bs : Nat) (src : Content) (x : Nat) : Prop :=
  x = 0 ∨ (betaHash src x bs).1 ≠ (betaHash src (x - 1) bs).1

instance (bs : Nat) (src : Content) (x : Nat) : Decidable (HashMoved bs src x) := by
  unfold HashMoved; exact inferInstance

/-- Adequacy of `freshAt`: in the replay of the patch, the ops in front of a data op `data st len` produce
    exactly `st` bytes, so this op writes the bytes `[st, st + len)` of the new file (the replay of the whole
    patch IS the new file: `Wharf.C11.roundtrip`). -/
theorem data_op_position (P : Params) (hbs : 0 < P.bs) (hmx : 0 < P.maxDataOp)
    (olds : List Content) (src : Content) (pref : Option Nat) (k st len : Nat)
    (h : (computeDiff P olds src pref)[k]? = some (Op.data st len)) :
    (replay P.bs olds.toArray src ((computeDiff P olds src pref).take k)).length = st :=
  computeDiff_placed hbs hmx olds src pref k st len h

/-- Completeness of the scanner, pointwise form: a fresh position `x` (two blocks before the end, rolling
    hash moved) is not the start of a window equal to a full old block.  Only the first byte of the window
    needs to be fresh. -/
theorem fresh_position_no_old_block (P : Params) (hbs : 0 < P.bs) (hmx : 0 < P.maxDataOp)
    (olds : List Content) (src : Content) (pref : Option Nat) (x : Nat)
    (hx : x + 2 * P.bs ≤ src.size)
    (hfresh : freshAt (computeDiff P olds src pref) x)
    (hskip : HashMoved P.bs src x) :
    ¬ OldBlockAt P.bs olds src x :=
  fun hm => computeDiff_no_data_at_hit hbs hmx olds src pref x ⟨hskip, hm⟩ hx hfresh

/-- C08 (d), completeness of the scanner: a stretch of literal data never contains a whole block that the
    old build has.  For every window `[x, x + bs)` of the source that lies at least one block before the end
    (`x + 2·bs ≤ size`: in its last iteration the differ only looks up a short block), all of whose bytes are
    fresh, and at which the rolling hash moved, no full block of any old file equals that window. -/
theorem data_contains_no_old_block (P : Params) (hbs : 0 < P.bs) (hmx : 0 < P.maxDataOp)
    (olds : List Content) (src : Content) (pref : Option Nat) (x : Nat)
    (hx : x + 2 * P.bs ≤ src.size)
    (hfresh : ∀ i, x ≤ i → i < x + P.bs → freshAt (computeDiff P olds src pref) i)
    (hskip : x = 0 ∨ (betaHash src x P.bs).1 ≠ (betaHash src (x - 1) P.bs).1) :
    ¬ ∃ (f : Nat) (old : Content) (k : Nat), olds[f]? = some old ∧ (k + 1) * P.bs ≤ old.size ∧
        ∀ j, j < P.bs → old.get (k * P.bs + j) = src.get (x + j) :=
  fresh_position_no_old_block P hbs hmx olds src pref x hx (hfresh x (Nat.le_refl _) (by omega)) hskip

/-- Restatement for runs: a run `[a, b)` of fresh positions that stays two blocks away from the end of the
    source and contains no position at which the `skip` optimisation fires contains no window equal to a
    full old block (not even one that starts in the run and sticks out of it). -/
theorem fresh_window_count (P : Params) (hbs : 0 < P.bs) (hmx : 0 < P.maxDataOp)
    (olds : List Content) (src : Content) (pref : Option Nat) (a b : Nat)
    (hb : b + 2 * P.bs ≤ src.size + 1)
    (hrun : ∀ i, a ≤ i → i < b → freshAt (computeDiff P olds src pref) i)
    (hskip : ∀ x, a ≤ x → x < b → HashMoved P.bs src x) :
    ∀ x, a ≤ x → x < b → ¬ OldBlockAt P.bs olds src x :=
  fun x h1 h2 =>
    fresh_position_no_old_block P hbs hmx olds src pref x (by omega) (hrun x h1 h2) (hskip x h1 h2)

/-- The counting principle behind the bound.  Let `Φ` be a potential on scan positions that does not increase
    when the scanner jumps over a block and decreases by at least one when it moves by one byte at a position
    where no old block matches or where the `skip` optimisation fires (only positions with a full window
    left matter).  Then the patch has at most `Φ 0 + 2·bs - 2` fresh bytes. -/
theorem fresh_le_potential (P : Params) (hbs : 0 < P.bs) (hmx : 0 < P.maxDataOp)
    (olds : List Content) (src : Content) (pref : Option Nat) (Φ : Nat → Nat)
    (hjump : ∀ p, p + P.bs ≤ src.size → Φ (p + P.bs) ≤ Φ p)
    (hstep : ∀ p, p + P.bs ≤ src.size → ¬ (HashMoved P.bs src p ∧ OldBlockAt P.bs olds src p) →
      Φ (p + 1) + 1 ≤ Φ p) :
    ((computeDiff P olds src pref).map freshOf).sum + 2 ≤ Φ 0 + 2 * P.bs :=
  computeDiff_fresh_le_potential hbs hmx olds src pref Φ hjump hstep

/-! ### The bound of the property for one localized edit -/

/-- No two consecutive full windows of `src` have the same weak hash, so the `skip` optimisation never
    fires on a full window (for high-entropy content two given consecutive windows collide with
    probability `2^-16`). -/
def NoWeakRepeat (bs : Nat) (src : Content) : Prop :=
  ∀ x, 0 < x → x + bs ≤ src.size → (betaHash src x bs).1 ≠ (betaHash src (x - 1) bs).1

/-- C08 (e), the bound for ONE localized edit of any kind: the new file `A ++ X ++ B` diffed against the old
    file `A ++ Y ++ B` (the stretch `Y` was replaced by `X`; `A`, `B` arbitrary, in particular `B` is shifted
    when `|X| ≠ |Y|`) needs at most `|X| + 4·blockSize - 4` fresh bytes: the introduced bytes, fewer than
    one block at the end of `A` (the window that runs into `X`), fewer than one block at the start of `B`
    (until the scanner is aligned with the old blocks again), and fewer than two blocks at the end of the
    file (the last full block and the short tail are not re-found once the alignment has shifted).
    The bound is independent of `|A|`, `|B|`, `|Y|` and of the preferred file. -/
theorem single_replace_bound (P : Params) (hbs : 0 < P.bs) (hmx : 0 < P.maxDataOp)
    (olds : List Content) (f : Nat) (A X Y B : List Byte) (pref : Option Nat)
    (hf : olds[f]? = some (Content.ofList (A ++ Y ++ B)))
    (hnr : NoWeakRepeat P.bs (Content.ofList (A ++ X ++ B))) :
    ((computeDiff P olds (Content.ofList (A ++ X ++ B)) pref).map freshOf).sum + 4
      ≤ X.length + 4 * P.bs :=
  computeDiff_single_edit hbs hmx olds f A X Y B pref hf hnr

/-- Insertion: `ins` was inserted between `A` and `B`; everything after the insertion point is shifted. -/
theorem single_insertion_bound (P : Params) (hbs : 0 < P.bs) (hmx : 0 < P.maxDataOp)
    (A ins B : List Byte) (pref : Option Nat)
    (hnr : NoWeakRepeat P.bs (Content.ofList (A ++ ins ++ B))) :
    ((computeDiff P [Content.ofList (A ++ B)] (Content.ofList (A ++ ins ++ B)) pref).map freshOf).sum
      ≤ ins.length + 4 * P.bs := by
  have h := single_replace_bound P hbs hmx [Content.ofList (A ++ B)] 0 A ins [] B pref
    (by rw [List.append_nil]; rfl) hnr
  omega

/-- Deletion: `del` was removed from between `A` and `B`; a constant number of blocks, whatever was
    deleted. -/
theorem single_deletion_bound (P : Params) (hbs : 0 < P.bs) (hmx : 0 < P.maxDataOp)
    (A del B : List Byte) (pref : Option Nat)
    (hnr : NoWeakRepeat P.bs (Content.ofList (A ++ B))) :
    ((computeDiff P [Content.ofList (A ++ del ++ B)] (Content.ofList (A ++ B)) pref).map freshOf).sum
      ≤ 4 * P.bs := by
  have h := single_replace_bound P hbs hmx [Content.ofList (A ++ del ++ B)] 0 A [] del B pref rfl
    (by rw [List.append_nil]; exact hnr)
  rw [List.append_nil] at h
  simp only [List.length_nil] at h
  omega

/-- Overwrite in place: `Y` was overwritten by `X` of the same length (nothing is shifted). -/
theorem single_overwrite_bound (P : Params) (hbs : 0 < P.bs) (hmx : 0 < P.maxDataOp)
    (A X Y B : List Byte) (pref : Option Nat) (_hlen : X.length = Y.length)
    (hnr : NoWeakRepeat P.bs (Content.ofList (A ++ X ++ B))) :
    ((computeDiff P [Content.ofList (A ++ Y ++ B)] (Content.ofList (A ++ X ++ B)) pref).map freshOf).sum
      ≤ X.length + 4 * P.bs := by
  have h := single_replace_bound P hbs hmx [Content.ofList (A ++ Y ++ B)] 0 A X Y B pref rfl hnr
  omega

/-! ### The bound of the property for `k` localized edits -/

/-- The new file: an unchanged stretch `S0`, then for every edit `e` the introduced bytes `e.ins` followed by
    the unchanged stretch `e.keep` (`Edit` is the record `⟨ins, del, keep⟩` of three byte lists). -/
def newFile (S0 : List Byte) (es : List Edit) : List Byte :=
  S0 ++ (es.map fun e => e.ins ++ e.keep).flatten

/-- The old file: the same unchanged stretches, with `e.del` where the new file has `e.ins`. -/
def oldFile (S0 : List Byte) (es : List Edit) : List Byte :=
  S0 ++ (es.map fun e => e.del ++ e.keep).flatten

/-- Bytes the edits introduce. -/
def introducedBytes (es : List Edit) : Nat := (es.map fun e => e.ins.length).sum

theorem newFile_eq (S0 : List Byte) (es : List Edit) : newFile S0 es = S0 ++ newTail es := by
  unfold newFile
  congr 1
  induction es with
  | nil => rfl
  | cons e es ih => simp [newTail, ih]

theorem oldFile_eq (S0 : List Byte) (es : List Edit) : oldFile S0 es = S0 ++ oldTail es := by
  unfold oldFile
  congr 1
  induction es with
  | nil => rfl
  | cons e es ih => simp [oldTail, ih]

theorem introducedBytes_eq (es : List Edit) : introducedBytes es = introduced es := by
  unfold introducedBytes
  induction es with
  | nil => rfl
  | cons e es ih => simp [introduced, ih]

/-- C08 (e), the bound of the property: when the new file differs from the old file by `k` localized edits
    (each one replaces a stretch `del` by a stretch `ins`; insertions have `del = []`, deletions `ins = []`;
    the unchanged stretches between them are arbitrary and are shifted by every edit that changes the
    length), the fresh bytes of the patch are bounded by the bytes the edits introduce plus `2k + 2` blocks:
    one block at the end of the first unchanged stretch, two for every unchanged stretch between edits
    (alignment at its start, the cut block at its end), one for the alignment in the last stretch and two
    for the last full block and the short tail.  Independent of the size of the file. -/
theorem localized_edits_bound (P : Params) (hbs : 0 < P.bs) (hmx : 0 < P.maxDataOp)
    (olds : List Content) (f : Nat) (S0 : List Byte) (es : List Edit) (pref : Option Nat)
    (hf : olds[f]? = some (Content.ofList (oldFile S0 es)))
    (hnr : NoWeakRepeat P.bs (Content.ofList (newFile S0 es))) :
    ((computeDiff P olds (Content.ofList (newFile S0 es)) pref).map freshOf).sum
      ≤ introducedBytes es + (2 * es.length + 2) * P.bs := by
  rw [newFile_eq] at hnr
  rw [oldFile_eq] at hf
  rw [newFile_eq, introducedBytes_eq]
  have h := computeDiff_edits hbs hmx olds f S0 es pref hf hnr
  have hle : (2 * es.length + 2) * (P.bs - 1) ≤ (2 * es.length + 2) * P.bs :=
    Nat.mul_le_mul_left _ (Nat.sub_le _ _)
  exact Nat.le_trans h (Nat.add_le_add_left hle _)

/-- The sharper form: `2k + 2` times `blockSize - 1`. -/
theorem localized_edits_bound_sharp (P : Params) (hbs : 0 < P.bs) (hmx : 0 < P.maxDataOp)
    (olds : List Content) (f : Nat) (S0 : List Byte) (es : List Edit) (pref : Option Nat)
    (hf : olds[f]? = some (Content.ofList (oldFile S0 es)))
    (hnr : NoWeakRepeat P.bs (Content.ofList (newFile S0 es))) :
    ((computeDiff P olds (Content.ofList (newFile S0 es)) pref).map freshOf).sum
      ≤ introducedBytes es + (2 * es.length + 2) * (P.bs - 1) := by
  rw [newFile_eq] at hnr
  rw [oldFile_eq] at hf
  rw [newFile_eq, introducedBytes_eq]
  exact computeDiff_edits hbs hmx olds f S0 es pref hf hnr

/-! ### Non-vacuity -/

/-- The hypotheses of `data_contains_no_old_block` hold on a concrete input: the window `[2, 4)` of the
    source lies in the data op `data 2 3`, four bytes before the end, and the rolling hash moved there. -/
example :
    let P : Params := ⟨2, 8⟩
    let olds := [Content.ofList [1, 2, 3, 4, 5, 6, 7, 8]]
    let src := Content.ofList [1, 2, 9, 8, 7, 3, 4, 5, 6, 7, 8]
    computeDiff P olds src none = [.range 0 0 1, .data 2 3, .range 0 1 2, .data 9 2] ∧
    2 + 2 * P.bs ≤ src.size ∧
    (∀ i, 2 ≤ i → i < 2 + P.bs → freshAt (computeDiff P olds src none) i) ∧
    HashMoved P.bs src 2 := by
  intro P olds src
  have hc : computeDiff P olds src none = [.range 0 0 1, .data 2 3, .range 0 1 2, .data 9 2] := by
    decide
  refine ⟨hc, by decide, ?_, by decide⟩
  intro i h1 h2
  rw [hc]
  exact ⟨2, 3, by simp, h1, by simp only [P] at h2; omega⟩

/-- The conclusion is not trivial: in the same source the window at `5` IS an old block (block 1, shifted by
    three bytes), the hash moved, so by `fresh_position_no_old_block` position `5` cannot be fresh — and
    indeed the range `range 0 1 2` starts there. -/
example :
    let P : Params := ⟨2, 8⟩
    let olds := [Content.ofList [1, 2, 3, 4, 5, 6, 7, 8]]
    let src := Content.ofList [1, 2, 9, 8, 7, 3, 4, 5, 6, 7, 8]
    OldBlockAt P.bs olds src 5 ∧ HashMoved P.bs src 5 ∧ ¬ freshAt (computeDiff P olds src none) 5 := by
  intro P olds src
  have h1 : OldBlockAt P.bs olds src 5 := ⟨0, _, 1, rfl, by decide, by decide⟩
  have h2 : HashMoved P.bs src 5 := by decide
  exact ⟨h1, h2, fun hf =>
    fresh_position_no_old_block P (by decide) (by decide) olds src none 5 (by decide) hf h2 h1⟩

/-- The `skip` hypothesis matters.  With block size 3 the windows `[1,2,0]` and `[2,0,1]` have the same weak
    hash (`a = 3`, `b = 7`); the first one is no old block, the second one is, but the differ skips the lookup
    at position `1` because the rolled hash did not change, and the old block ends up inside a data op. -/
example :
    let P : Params := ⟨3, 8⟩
    let olds := [Content.ofList [2, 0, 1]]
    let src := Content.ofList [1, 2, 0, 1, 5, 5, 5]
    computeDiff P olds src none = [.data 0 7] ∧
    1 + 2 * P.bs ≤ src.size ∧
    (∀ i, 1 ≤ i → i < 1 + P.bs → freshAt (computeDiff P olds src none) i) ∧
    OldBlockAt P.bs olds src 1 ∧ ¬ HashMoved P.bs src 1 := by
  intro P olds src
  have hc : computeDiff P olds src none = [.data 0 7] := by decide
  refine ⟨hc, by decide, ?_, ⟨0, _, 0, rfl, by decide, by decide⟩, by decide⟩
  intro i h1 h2
  rw [hc]
  exact ⟨0, 7, by simp, by omega, by simp only [P] at h2; omega⟩

/-- Without the weak-hash collision (first byte `7` instead of `1`) the block is found. -/
example : computeDiff ⟨3, 8⟩ [Content.ofList [2, 0, 1]] (Content.ofList [7, 2, 0, 1, 5, 5, 5]) none
    = [.data 0 1, .range 0 0 1, .data 4 3] := by
  decide

/-- The bound of `single_insertion_bound` is attained: one byte inserted into a 12-byte file with block size
    2 costs `1 + 4·2 - 4 = 5` fresh bytes (`NoWeakRepeat` holds for this source). -/
example :
    let A : List Byte := [1, 2, 3, 4, 5]
    let B : List Byte := [6, 7, 8, 9, 10, 11, 12]
    NoWeakRepeat 2 (Content.ofList (A ++ [99] ++ B)) ∧
    computeDiff ⟨2, 8⟩ [Content.ofList (A ++ B)] (Content.ofList (A ++ [99] ++ B)) none
      = [.range 0 0 2, .data 4 3, .range 0 3 2, .data 11 2] ∧
    ((computeDiff ⟨2, 8⟩ [Content.ofList (A ++ B)] (Content.ofList (A ++ [99] ++ B)) none).map freshOf).sum
      = 5 := by
  refine ⟨?_, by decide, by decide⟩
  have h : ∀ x, x < 13 → 0 < x →
      (betaHash (Content.ofList ([1, 2, 3, 4, 5] ++ [99] ++ [6, 7, 8, 9, 10, 11, 12])) x 2).1 ≠
      (betaHash (Content.ofList ([1, 2, 3, 4, 5] ++ [99] ++ [6, 7, 8, 9, 10, 11, 12])) (x - 1) 2).1 := by
    decide
  intro x h1 h2
  have h3 : x + 2 ≤ 13 := h2
  exact h x (by omega) h1

/-- Two edits (an insertion that shifts everything behind it, then a deletion) on a concrete file with block
    size 2: `NoWeakRepeat` holds, 1 byte is introduced and the patch has 4 fresh bytes
    (`[range 0 0 2, data 4 3, range 0 3 3, data 13 1, range 0 7 3]`), within `1 + (2·2+2)·(2-1) = 7`. -/
example :
    let es : List Edit := [⟨[99], [], [6, 7, 8, 9, 10, 11, 12]⟩, ⟨[], [13], [14, 15, 16, 17, 18, 19, 20]⟩]
    let S0 : List Byte := [1, 2, 3, 4, 5]
    NoWeakRepeat 2 (Content.ofList (newFile S0 es)) ∧
    ((computeDiff ⟨2, 8⟩ [Content.ofList (oldFile S0 es)] (Content.ofList (newFile S0 es)) none).map
      freshOf).sum = 4 ∧ introducedBytes es = 1 := by
  refine ⟨?_, by decide, by decide⟩
  have h : ∀ x, x < 20 → 0 < x →
      (betaHash (Content.ofList (newFile [1, 2, 3, 4, 5]
        [⟨[99], [], [6, 7, 8, 9, 10, 11, 12]⟩, ⟨[], [13], [14, 15, 16, 17, 18, 19, 20]⟩])) x 2).1 ≠
      (betaHash (Content.ofList (newFile [1, 2, 3, 4, 5]
        [⟨[99], [], [6, 7, 8, 9, 10, 11, 12]⟩, ⟨[], [13], [14, 15, 16, 17, 18, 19, 20]⟩])) (x - 1) 2).1 := by
    decide
  intro x h1 h2
  have h3 : x + 2 ≤ 20 := h2
  exact h x (by omega) h1

/-- `NoWeakRepeat` is necessary.  Block size 3, old file `(2,0,1)^5`, new file: the byte `1` inserted in
    front.  The windows `[1,2,0]` and `[2,0,1]` have the same weak hash, so at every position where the window
    is the old block `[2,0,1]` the differ skips the lookup: all 16 bytes are fresh, more than
    `1 + 4·3 = 13` — and the same happens for any number of repetitions (the Go code sends 3001 fresh bytes
    for `(2,0,1)^1000`), so no bound independent of the file size holds without the hypothesis. -/
example :
    let old : List Byte := [2, 0, 1, 2, 0, 1, 2, 0, 1, 2, 0, 1, 2, 0, 1]
    computeDiff ⟨3, 64⟩ [Content.ofList ([] ++ old)] (Content.ofList ([] ++ [1] ++ old)) none
      = [.data 0 16] ∧
    ¬ NoWeakRepeat 3 (Content.ofList ([] ++ [1] ++ old)) := by
  refine ⟨by decide, fun h => ?_⟩
  exact h 1 (by decide) (by decide) (by decide)

/-- With the byte `7` instead (no weak-hash repeat at the re-alignment position) the old blocks are found. -/
example :
    let old : List Byte := [2, 0, 1, 2, 0, 1, 2, 0, 1, 2, 0, 1, 2, 0, 1]
    ((computeDiff ⟨3, 64⟩ [Content.ofList old] (Content.ofList ([7] ++ old)) none).map freshOf).sum = 4 := by
  decide

end Wharf.C08
