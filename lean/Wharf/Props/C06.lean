/-
  C06 — Healing from an archive restores a damaged directory to the signed build (validator-first schedule).
  Property theorems only (helper lemmas live in Wharf/Proofs/Heal.lean).
-/
import Wharf.Model.Heal
import Wharf.Props.C05Tree
import Wharf.Proofs.Heal

namespace Wharf.C06
open Wharf Wharf.FS Wharf.Validate Wharf.TreeValidate Wharf.Heal

/-- C06 (c): healing a directory that is already valid changes nothing — validation produces no real wound,
    so the healer performs no filesystem operation at all and the tree is returned as it is. -/
theorem heal_valid_noop (bs : Nat) (hbs : 0 < bs) (maxSize : Nat) (s : Signed) (t : Tree)
    (h : C05Tree.Matches s t) : validateAndHeal bs maxSize s t = .ok t := by
  have hok := (C05Tree.verdict_iff bs hbs maxSize s t).mpr h
  unfold failFastOk at hok
  unfold validateAndHeal
  cases hv : validate bs maxSize s t with
  | err e => rw [hv] at hok; cases hok
  | panic e => rw [hv] at hok; cases hok
  | ok ws =>
    rw [hv] at hok
    have hnil : realWounds ws = [] := List.isEmpty_iff.mp hok
    simp only [processWounds_allClosed s ws t [] ((realWounds_eq_nil ws).mp hnil), healFiles]

/-- The healer only acts on real wounds: healthy markers never touch the tree, and without any real wound
    nothing is queued. -/
theorem processWounds_healthy (s : Signed) (ws : List Wound) (t : Tree) (q : List Nat)
    (h : realWounds ws = []) : processWounds s ws t q = .ok (t, q) :=
  processWounds_allClosed s ws t q ((realWounds_eq_nil ws).mp h)

/-- Every file with a real file wound gets queued exactly once, in order of first appearance; files without a
    file wound are never rewritten. -/
theorem queued_iff (s : Signed) (ws : List Wound) (t t' : Tree) (q : List Nat)
    (h : processWounds s ws t [] = .ok (t', q)) :
    q.Nodup ∧ ∀ i, i ∈ q ↔ ∃ w ∈ ws, w.kind = .file ∧ w.index = i := by
  obtain ⟨hnd, _, hiff⟩ := processWounds_queue s ws t t' [] q List.nodup_nil h
  refine ⟨hnd, fun i => ?_⟩
  rw [hiff i]
  simp only [List.not_mem_nil, false_or]

/-- The queue exactly: the indices of the file wounds in the order the validator reported them, each kept at
    its first occurrence only (so the healer rewrites files in order of first appearance). -/
theorem queue_order (s : Signed) (ws : List Wound) (t t' : Tree) (q : List Nat)
    (h : processWounds s ws t [] = .ok (t', q)) :
    q = ((ws.filter (fun w => w.kind == .file)).map (·.index)).eraseDups := by
  rw [processWounds_queue_foldl s ws t t' [] q h, foldl_enqueue]
  simp only [fileIdx, List.contains_nil, Bool.not_false, List.nil_append]
  rw [List.filter_eq_self.mpr (fun _ _ => rfl)]

/-! ### non-vacuity -/

/-- The damaged tree of C05Tree (symlink missing, one byte of the file flipped) is healed: the result holds
    exactly the entries of the signed build … -/
example : (match validateAndHeal 2 100 C05Tree.exSigned C05Tree.exDamaged with
      | .ok t => t.entries | _ => [])
    = [(["a"], .dir), (["l"], .symlink "a/f"), (["a", "f"], .file [1, 2, 3])] := by decide

/-- … (a permutation of the tree holding the signed build) and validates again. -/
example : (match validateAndHeal 2 100 C05Tree.exSigned C05Tree.exDamaged with
      | .ok t => decide (t.entries.Perm (treeOf C05Tree.exSigned).entries) &&
                 failFastOk 2 100 C05Tree.exSigned t
      | _ => false) = true := by decide

/-- Heavier damage: a file where the directory should be, a non-empty directory where the symlink should be,
    the signed file missing, and an unrelated extra file (which healing leaves alone). -/
def exWrecked : Tree :=
  { entries := [(["a"], .file [7]), (["l"], .dir), (["l", "x"], .file [1]), (["junk"], .file [])] }

example : (match validateAndHeal 2 100 C05Tree.exSigned exWrecked with | .ok t => t.entries | _ => [])
    = [(["junk"], .file []), (["a"], .dir), (["l"], .symlink "a/f"), (["a", "f"], .file [1, 2, 3])] := by
  decide

example : (match validateAndHeal 2 100 C05Tree.exSigned exWrecked with
      | .ok t => failFastOk 2 100 C05Tree.exSigned t | _ => false) = true := by decide

/-- The hypotheses of `queued_iff` / `queue_order` are satisfiable with a non-empty queue. -/
example : (match validate 2 100 C05Tree.exSigned exWrecked with
      | .ok ws => (match processWounds C05Tree.exSigned ws exWrecked [] with
                   | .ok (_, q) => q | .error _ => [])
      | _ => []) = [0] := by decide

end Wharf.C06
