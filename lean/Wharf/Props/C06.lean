/-
  C06 — Healing from an archive restores a damaged directory to the signed build (validator-first schedule).
  Property theorems only (helper lemmas live in Wharf/Proofs/Heal.lean).
-/
import Wharf.Model.Heal
import Wharf.Props.C05Tree
import Wharf.Proofs.Heal

namespace Wharf.C06
open Wharf Wharf.FS Wharf.Validate Wharf.TreeValidate Wharf.Heal

/-- C06 (c): healing a directory that is already valid changes nothing — validation produces no real wound,
    so the healer performs no filesystem operation at all and the tree is returned as it is. -/
theorem heal_valid_noop (bs : Nat) (hbs : 0 < bs) (maxSize : Nat) (s : Signed) (t : Tree)
    (h : C05Tree.Matches s t) : validateAndHeal bs maxSize s t = .ok t := by
  have hok := (C05Tree.verdict_iff bs hbs maxSize s t).mpr h
  unfold failFastOk at hok
  unfold validateAndHeal
  cases hv : validate bs maxSize s t with
  | err e => rw [hv] at hok; cases hok
  | panic e => rw [hv] at hok; cases hok
  | ok ws =>
    rw [hv] at hok
    have hnil : realWounds ws = [] := List.isEmpty_iff.mp hok
    simp only [processWounds_allClosed s ws t [] ((realWounds_eq_nil ws).mp hnil), healFiles]

/-- The healer only acts on real wounds: healthy markers never touch the tree, and without any real wound
    nothing is queued. -/
theorem processWounds_healthy (s : Signed) (ws : List Wound) (t : Tree) (q : List Nat)
    (h : realWounds ws = []) : processWounds s ws t q = .ok (t, q) :=
  processWounds_allClosed s ws t q ((realWounds_eq_nil ws).mp h)

/-- Every file with a file wound gets queued exactly once (the queue is duplicate-free and holds every index
    that has a file wound).  Besides those, the queue holds only files that lie below a directory for which a
    directory wound was reported: since the repair of finding F15, a directory wound that finds something else
    standing at the directory's path re-heals everything below it (`healBelow`).

    CHANGED with the repair of F15.  The former statement (`i ∈ q ↔ ∃ w ∈ ws, w.kind = .file ∧ w.index = i`:
    "files without a file wound are never rewritten") is FALSE for the fixed code, and deliberately so —
    see `queued_without_file_wound` below for the instance. -/
theorem queued_iff (s : Signed) (ws : List Wound) (t t' : Tree) (q : List Nat)
    (h : processWounds s ws t [] = .ok (t', q)) :
    q.Nodup ∧ (∀ i, (∃ w ∈ ws, w.kind = .file ∧ w.index = i) → i ∈ q) ∧
      (∀ i ∈ q, (∃ w ∈ ws, w.kind = .file ∧ w.index = i) ∨
        ∃ w ∈ ws, w.kind = .dir ∧ ∃ p e, s.dirs[w.index]? = some p ∧ s.files[i]? = some e ∧
          isPrefix p e.1 = true) := by
  obtain ⟨hnd, _, hsub, hsup⟩ := processWounds_queue s ws t t' [] q List.nodup_nil h
  refine ⟨hnd, fun i hi => hsub i (.inr hi), fun i hi => ?_⟩
  rcases hsup i hi with h1 | h1 | h1
  · cases h1
  · exact .inl h1
  · exact .inr h1

/-- Without any directory wound the queue is exactly as before the repair: a file is queued iff it has a file
    wound. -/
theorem queued_iff_of_no_dir_wound (s : Signed) (ws : List Wound) (t t' : Tree) (q : List Nat)
    (hnd : ∀ w ∈ ws, w.kind ≠ .dir) (h : processWounds s ws t [] = .ok (t', q)) :
    q.Nodup ∧ ∀ i, i ∈ q ↔ ∃ w ∈ ws, w.kind = .file ∧ w.index = i := by
  obtain ⟨h1, h2, h3⟩ := queued_iff s ws t t' q h
  refine ⟨h1, fun i => ⟨fun hi => ?_, h2 i⟩⟩
  rcases h3 i hi with h4 | ⟨w, hw, hk, _⟩
  · exact h4
  · exact absurd hk (hnd w hw)

/-- The queue exactly, when the validator reported no directory wound: the indices of the file wounds in the
    order the validator reported them, each kept at its first occurrence only (so the healer rewrites files in
    order of first appearance).

    CHANGED with the repair of F15: the hypothesis `hnd` is new.  With a directory wound whose directory had been
    replaced, `healBelow` queues the files below it at that moment — before the files with earlier file wounds
    that are still waiting in the channel — so the unconditional statement is false for the fixed code (same
    instance, `queued_without_file_wound`). -/
theorem queue_order (s : Signed) (ws : List Wound) (t t' : Tree) (q : List Nat)
    (hnd : ∀ w ∈ ws, w.kind ≠ .dir) (h : processWounds s ws t [] = .ok (t', q)) :
    q = ((ws.filter (fun w => w.kind == .file)).map (·.index)).eraseDups := by
  rw [processWounds_queue_foldl s ws t t' [] q hnd h, foldl_enqueue]
  simp only [fileIdx, List.contains_nil, Bool.not_false, List.nil_append]
  rw [List.filter_eq_self.mpr (fun _ _ => rfl)]

/-! ### non-vacuity -/

/-- The damaged tree of C05Tree (symlink missing, one byte of the file flipped) is healed: the result holds
    exactly the entries of the signed build … -/
example : (match validateAndHeal 2 100 C05Tree.exSigned C05Tree.exDamaged with
      | .ok t => t.entries | _ => [])
    = [(["a"], .dir), (["l"], .symlink "a/f"), (["a", "f"], .file [1, 2, 3])] := by decide

/-- … (a permutation of the tree holding the signed build) and validates again. -/
example : (match validateAndHeal 2 100 C05Tree.exSigned C05Tree.exDamaged with
      | .ok t => decide (t.entries.Perm (treeOf C05Tree.exSigned).entries) &&
                 failFastOk 2 100 C05Tree.exSigned t
      | _ => false) = true := by decide

/-- Heavier damage: a file where the directory should be, a non-empty directory where the symlink should be,
    the signed file missing, and an unrelated extra file (which healing leaves alone). -/
def exWrecked : Tree :=
  { entries := [(["a"], .file [7]), (["l"], .dir), (["l", "x"], .file [1]), (["junk"], .file [])] }

example : (match validateAndHeal 2 100 C05Tree.exSigned exWrecked with | .ok t => t.entries | _ => [])
    = [(["junk"], .file []), (["a"], .dir), (["l"], .symlink "a/f"), (["a", "f"], .file [1, 2, 3])] := by
  decide

example : (match validateAndHeal 2 100 C05Tree.exSigned exWrecked with
      | .ok t => failFastOk 2 100 C05Tree.exSigned t | _ => false) = true := by decide

/-- The instance behind the CHANGED statements of `queued_iff` / `queue_order`: the directory wound alone — the
    regular file standing at `a` is removed, `a` recreated, and `healBelow("a")` queues `a/f` although the wound
    list holds no file wound.  (From an actual validation this happens when the entries below were judged
    healthy THROUGH a symlink standing at the directory's path: Props/C06Restore.lean, `f15_heals`.) -/
theorem queued_without_file_wound :
    (match processWounds C05Tree.exSigned [⟨.dir, 0, 0, 0⟩] exWrecked [] with
     | .ok (_, q) => q | .error _ => []) = [0] := by decide

/-- The hypotheses of `queued_iff` / `queue_order` are satisfiable with a non-empty queue. -/
example : (match validate 2 100 C05Tree.exSigned exWrecked with
      | .ok ws => (match processWounds C05Tree.exSigned ws exWrecked [] with
                   | .ok (_, q) => q | .error _ => [])
      | _ => []) = [0] := by decide

end Wharf.C06
