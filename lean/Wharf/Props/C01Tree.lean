/-
  C01, tree level — the directory tree the FRESH bowl produces is exactly the new build.
  Property theorems only; the model is Wharf/Model/FreshBowl.lean (`tlc.Container.Prepare`, the
  `freshEntryWriter`, `fspool.GetWriter`), helper lemmas live in Wharf/Proofs/FreshBowl.lean.

  `C01.fresh_roundtrip` (Wharf/Props/C01.lean) is about contents: the patcher produces, for every new file in
  order, exactly its bytes (`r.out`).  Here those bytes are put on an abstract filesystem the way the fresh
  bowl does it, and the resulting TREE is shown to hold exactly the new build (`C02.Holds`: every directory,
  every file with its bytes, every symlink with its destination, and nothing else).

  Hypotheses
  * `BuildWF new` (Wharf/Props/C02.lean): paths are clean, distinct, and every proper prefix of a path is one
    of the build's directories.  That is what `tlc.Walk` produces (it records every directory it descends
    into).  It is needed: without the `parents` clause `Prepare` fails (`missing_dir_entry_fails` below).
  * NO ordering hypothesis (parents first) is needed: `prepareDir` is `os.MkdirAll`, which makes missing
    parents itself, and those parents are directories of the build by `BuildWF.parents`.  (`tlc.Walk` does list
    parents first — it is `filepath.Walk` — but nothing here depends on it.)
  * nothing is assumed about the old build.
  * the output tree starts EMPTY (`NewFreshBowl`: "a given (initially empty) directory"), or is whatever
    crashed earlier runs over an initially empty tree left (`fresh_resume_tree`).  Over a tree holding
    something else the statement is false: see `leftovers_survive` and `dir_in_the_way_fails`.

  Which writer: the code writes a relayed file through the `freshEntryWriter` (no `O_TRUNC`, nothing removed)
  and a transposed file through `fspool.GetWriter` (`O_TRUNC`, a directory or symlink in the way removed).  All
  theorems hold for EVERY assignment `via` of writers to files, in particular for the one the patcher makes
  (`viaOfCalls r.calls`) and for the default of `freshApply` (entry writer everywhere).
-/
import Wharf.Props.C01
import Wharf.Props.C02
import Wharf.Props.C02E2E
import Wharf.Proofs.FreshBowl

namespace Wharf.C01
open Wharf Wharf.FS Wharf.Commit Wharf.Patch Wharf.FreshBowl
open Wharf.C02 (BuildWF Holds poolFiles)

/-- C01 (tree): for a well-formed new build, `Prepare` followed by one write per file, in container order,
    of that file's content, started on the EMPTY output tree, succeeds and yields a tree that holds exactly
    the new build — whichever of the two writers each file goes through. -/
theorem fresh_tree_correct (new : Build) (hnew : BuildWF new) (via : Nat → Via) :
    ∃ t', freshApply new ((List.range new.files.length).zip (new.files.map (·.2))) {} via = .ok t' ∧
      Holds t' new := by
  obtain ⟨h1, h2⟩ := outs_ok new
  exact freshApply_spec hnew.toBWF via _ (Partial.empty new) h1 h2

/-- The same for any order of the writes, with repetitions allowed: it is enough that every write carries
    the content of the file it is for and that every file is written at least once. -/
theorem fresh_tree_correct_any_order (new : Build) (hnew : BuildWF new) (via : Nat → Via)
    (outs : List (Nat × List Byte))
    (hout : ∀ o ∈ outs, ∃ p, new.files[o.1]? = some (p, o.2))
    (hcov : ∀ i, i < new.files.length → i ∈ outs.map (·.1)) :
    ∃ t', freshApply new outs {} via = .ok t' ∧ Holds t' new :=
  freshApply_spec hnew.toBWF via outs (Partial.empty new) hout hcov

/-- what the patcher model writes for a build's pool files is the build's contents, in container order -/
theorem out_of_roundtrip (new : Build) (r : Res)
    (h : r.out = (List.range (poolFiles new).length).zip ((poolFiles new).map (·.2.toList))) :
    r.out = (List.range new.files.length).zip (new.files.map (·.2)) := by
  rw [h]
  simp only [poolFiles, C02.poolFilesAs, List.length_map, List.map_map]
  congr 1
  apply List.map_congr_left
  intro x _
  exact ofList_toList x.2

/-- C01 end to end (diff, apply with the fresh bowl, look at the directory): for any old build and a
    well-formed new build, the patcher model run over the pristine old build on the patch the differ writes
    for (old, new) succeeds with some `r`, and the fresh bowl fed with what the patcher wrote (`r.out`),
    each file through the writer the patcher used for it (`viaOfCalls r.calls`), started on the empty output
    tree, yields a tree that holds EXACTLY the new build: the same set of files, directories and symlinks,
    every file byte-for-byte equal, every symlink with the same destination.  "Nothing left over from the old
    build" is immediate: the output tree starts empty, the old build is only read through the pool, and
    `Holds` is exact (a path that is not in the new build is absent from the tree). -/
theorem fresh_apply_end_to_end (P : Rsync.Params) (hbs : 0 < P.bs) (hmx : 0 < P.maxDataOp)
    (old new : Build) (hnew : BuildWF new) :
    ∃ r t', patch (envOf P.bs (poolFiles old) (poolFiles new) none)
              (writePatch P (poolFiles old) (poolFiles new)) = .ok r ∧
      freshApply new r.out {} (viaOfCalls r.calls) = .ok t' ∧ Holds t' new := by
  obtain ⟨r, hr, hout, _⟩ := fresh_roundtrip P hbs hmx (poolFiles old) (poolFiles new)
  obtain ⟨t', h1, h2⟩ := fresh_tree_correct new hnew (viaOfCalls r.calls)
  exact ⟨r, t', hr, by rw [out_of_roundtrip new r hout]; exact h1, h2⟩

/-- The same for every assignment of writers — in particular `freshApply new r.out {}` with its default
    (the entry writer for every file). -/
theorem fresh_apply_end_to_end_any_writer (P : Rsync.Params) (hbs : 0 < P.bs) (hmx : 0 < P.maxDataOp)
    (old new : Build) (hnew : BuildWF new) :
    ∃ r, patch (envOf P.bs (poolFiles old) (poolFiles new) none)
              (writePatch P (poolFiles old) (poolFiles new)) = .ok r ∧
      ∀ via, ∃ t', freshApply new r.out {} via = .ok t' ∧ Holds t' new := by
  obtain ⟨r, hr, hout, _⟩ := fresh_roundtrip P hbs hmx (poolFiles old) (poolFiles new)
  refine ⟨r, hr, fun via => ?_⟩
  obtain ⟨t', h1, h2⟩ := fresh_tree_correct new hnew via
  exact ⟨t', by rw [out_of_roundtrip new r hout]; exact h1, h2⟩

/-- C01 (tree), applying again after crashes — the tree-level counterpart of `C03.resume_e2e` for an
    application that starts over (`Resume(nil, …)`): let `tc` be ANY tree left by any number of earlier runs
    of the fresh bowl for this new build, the first one started on the empty tree, each one stopped between
    two steps or in the middle of one (`Crashed`, `CrashState`, `Torn` in Wharf/Model/FreshBowl.lean: some
    directories made, a file created but not sized, a symlink removed but not re-made, the file being written
    holding ANY bytes), whatever those runs were writing (`outs'` is arbitrary, it need not even be the right
    content) and through whichever writers.  Then applying once more with the right contents succeeds and
    yields a tree that holds exactly the new build.  (`Prepare` re-sizes every file to its declared size, so
    the entry writer, which does not truncate, overwrites it completely; symlinks are re-made.) -/
theorem fresh_resume_tree (new : Build) (hnew : BuildWF new) (outs' : List (Nat × List Byte)) (tc : Tree)
    (hc : Crashed new outs' tc) (via : Nat → Via) :
    ∃ t', freshApply new ((List.range new.files.length).zip (new.files.map (·.2))) tc via = .ok t' ∧
      Holds t' new := by
  obtain ⟨h1, h2⟩ := outs_ok new
  exact freshApply_spec hnew.toBWF via _ (crashed_partial hnew.toBWF hc) h1 h2

/-- `fresh_resume_tree`, end to end: after any such crashes, diffing and applying again from the start over
    what was left yields exactly the new build. -/
theorem fresh_resume_end_to_end (P : Rsync.Params) (hbs : 0 < P.bs) (hmx : 0 < P.maxDataOp)
    (old new : Build) (hnew : BuildWF new) (outs' : List (Nat × List Byte)) (tc : Tree)
    (hc : Crashed new outs' tc) :
    ∃ r t', patch (envOf P.bs (poolFiles old) (poolFiles new) none)
              (writePatch P (poolFiles old) (poolFiles new)) = .ok r ∧
      freshApply new r.out tc (viaOfCalls r.calls) = .ok t' ∧ Holds t' new := by
  obtain ⟨r, hr, hout, _⟩ := fresh_roundtrip P hbs hmx (poolFiles old) (poolFiles new)
  obtain ⟨t', h1, h2⟩ := fresh_resume_tree new hnew outs' tc hc (viaOfCalls r.calls)
  exact ⟨r, t', hr, by rw [out_of_roundtrip new r hout]; exact h1, h2⟩

/-- The steps `CrashState` is about are the run: `freshApply` is the fold of `runStep` over `stepsOf`. -/
theorem fresh_apply_is_its_steps (new : Build) (outs : List (Nat × List Byte)) (t : Tree) (via : Nat → Via) :
    freshApply new outs t via = (stepsOf new outs).foldlM (runStep new via) t :=
  freshApply_eq_steps new outs t via

/-! ### non-vacuity

  A build with nested directories listed child first (`d/e` before `d`: no parents-first order is needed), an
  empty directory, an empty file at the top and one in a nested directory, a symlink to a file of the build
  and a dangling one inside a directory. -/

def exNew : Build :=
  { dirs := [["d", "e"], ["d"], ["empty"]],
    symlinks := [(["l"], "d/o"), (["d", "k"], "../nowhere")],
    files := [(["a"], [1, 2]), (["d", "o"], [3, 4, 5]), (["d", "e", "z"], []), (["n"], [])] }

def exOuts : List (Nat × List Byte) := [(0, [1, 2]), (1, [3, 4, 5]), (2, []), (3, [])]

theorem exNew_wf : BuildWF exNew := ⟨by decide, by decide, C02.parents_of_check (by decide)⟩

example : (List.range exNew.files.length).zip (exNew.files.map (·.2)) = exOuts := by decide

/-- the theorem applies -/
example : ∃ t', freshApply exNew exOuts {} = .ok t' ∧ Holds t' exNew :=
  fresh_tree_correct exNew exNew_wf _

/-- and the tree is computed: entry writer everywhere … -/
example :
    (match freshApply exNew exOuts {} with
     | .ok t => t.entries
     | .error _ => []) =
    [(["d"], .dir), (["d", "e"], .dir), (["empty"], .dir), (["l"], .symlink "d/o"),
     (["d", "k"], .symlink "../nowhere"), (["a"], .file [1, 2]), (["d", "o"], .file [3, 4, 5]),
     (["d", "e", "z"], .file []), (["n"], .file [])] := by
  decide

/-- … or files 1 and 3 through `fspool.GetWriter` (as for transpositions) -/
example :
    (match freshApply exNew exOuts {} (fun i => if i = 1 ∨ i = 3 then .transpose else .writer) with
     | .ok t => t.entries
     | .error _ => []) =
    [(["d"], .dir), (["d", "e"], .dir), (["empty"], .dir), (["l"], .symlink "d/o"),
     (["d", "k"], .symlink "../nowhere"), (["a"], .file [1, 2]), (["d", "o"], .file [3, 4, 5]),
     (["d", "e", "z"], .file []), (["n"], .file [])] := by
  decide

/-- end to end on a concrete pair: `b` is renamed to `d/o` (a transposition), `a` is edited (relayed), `gone`
    disappears, a symlink changes destination; the calls are computed and the theorem applies. -/
def e2eOld : Build :=
  { dirs := [["gone"]], symlinks := [(["l"], "a")],
    files := [(["a"], [1, 2, 3, 4, 5]), (["b"], [7, 7, 7]), (["gone", "x"], [4])] }
def e2eNew : Build :=
  { dirs := [["d"], ["empty"]], symlinks := [(["l"], "d/o")],
    files := [(["a"], [1, 2, 9, 4, 5]), (["d", "o"], [7, 7, 7]), (["n"], [])] }

theorem e2eNew_wf : BuildWF e2eNew := ⟨by decide, by decide, C02.parents_of_check (by decide)⟩

example :
    (match patch (envOf 2 (poolFiles e2eOld) (poolFiles e2eNew) none)
        (writePatch ⟨2, 8⟩ (poolFiles e2eOld) (poolFiles e2eNew)) with
     | .ok r => (r.calls, r.out)
     | _ => ([], [])) =
    ([.getWriter 0, .transpose 1 1, .getWriter 2], [(0, [1, 2, 9, 4, 5]), (1, [7, 7, 7]), (2, [])]) := by
  decide

example : ∃ r t', patch (envOf 2 (poolFiles e2eOld) (poolFiles e2eNew) none)
      (writePatch ⟨2, 8⟩ (poolFiles e2eOld) (poolFiles e2eNew)) = .ok r ∧
    freshApply e2eNew r.out {} (viaOfCalls r.calls) = .ok t' ∧ Holds t' e2eNew :=
  fresh_apply_end_to_end ⟨2, 8⟩ (by decide) (by decide) e2eOld e2eNew e2eNew_wf

/-- A crash state: the first run (writing garbage, through the entry writer) stops in the middle of its
    second write: `d/o` holds seven bytes of rubbish, `d/e/z` and `n` are still as `Prepare` made them. -/
def exCrashed : Tree :=
  { entries := [(["d"], .dir), (["d", "e"], .dir), (["empty"], .dir), (["d", "e", "z"], .file []),
                (["n"], .file []), (["l"], .symlink "d/o"), (["d", "k"], .symlink "../nowhere"),
                (["a"], .file [8, 8]), (["d", "o"], .file [9, 9, 9, 9, 9, 9, 9])] }

theorem exCrashed_crashed : Crashed exNew [(0, [8, 8]), (1, [6])] exCrashed := by
  refine .again (via := fun _ => .writer) .start ?_
  refine .during (pre := (stepsOf exNew [(0, [8, 8]), (1, [6])]).take 10) (s := .write (1, [6])) (post := [])
    (tk := { entries := [(["d"], .dir), (["d", "e"], .dir), (["empty"], .dir), (["d", "o"], .file [0, 0, 0]),
      (["d", "e", "z"], .file []), (["n"], .file []), (["l"], .symlink "d/o"),
      (["d", "k"], .symlink "../nowhere"), (["a"], .file [8, 8])] }) rfl rfl ?_
  exact .writeData (p := ["d", "o"]) (d := [3, 4, 5]) (g := [9, 9, 9, 9, 9, 9, 9])
    (t₁ := { entries := [(["d"], .dir), (["d", "e"], .dir), (["empty"], .dir), (["d", "o"], .file [0, 0, 0]),
      (["d", "e", "z"], .file []), (["n"], .file []), (["l"], .symlink "d/o"),
      (["d", "k"], .symlink "../nowhere"), (["a"], .file [8, 8])] }) rfl rfl rfl

/-- applying again over it ends with the new build -/
example : ∃ t', freshApply exNew exOuts exCrashed = .ok t' ∧ Holds t' exNew :=
  fresh_resume_tree exNew exNew_wf _ exCrashed exCrashed_crashed _

example :
    (match freshApply exNew exOuts exCrashed with
     | .ok t => t.entries
     | .error _ => []) =
    [(["d"], .dir), (["d", "e"], .dir), (["empty"], .dir), (["l"], .symlink "d/o"),
     (["d", "k"], .symlink "../nowhere"), (["a"], .file [1, 2]), (["d", "o"], .file [3, 4, 5]),
     (["d", "e", "z"], .file []), (["n"], .file [])] := by
  decide

/-! ### what the hypotheses exclude (machine-checked) -/

/-- `BuildWF.parents` is needed: a file whose directory is not listed makes `Prepare` fail (`OpenFile` →
    ENOENT), in the model as in the code.  `tlc.Walk` never produces such a container. -/
theorem missing_dir_entry_fails :
    freshApply { files := [(["a", "b"], [1])] } [(0, [1])] {} = .error .enoent := by
  rfl

/-- The entry writer does not truncate: what it leaves is right because `Prepare` sized the file to the
    declared size AND the patcher writes exactly that many bytes (`fresh_roundtrip`).  Fed fewer bytes than
    declared, the file keeps the zero padding `Prepare` made (`fspool.GetWriter` would not). -/
theorem entry_writer_keeps_padding :
    (match freshApply { files := [(["a"], [1, 2, 3])] } [(0, [9])] {} with
     | .ok t => t.entries | .error _ => []) = [(["a"], .file [9, 0, 0])] ∧
    (match freshApply { files := [(["a"], [1, 2, 3])] } [(0, [9])] {} (fun _ => .transpose) with
     | .ok t => t.entries | .error _ => []) = [(["a"], .file [9])] := by
  decide

/-- The output tree must start empty: the fresh bowl removes nothing that is not in the way, so anything
    else that was there (say, the old build) is left over. -/
theorem leftovers_survive :
    (match freshApply { files := [(["a"], [2])] } [(0, [2])] { entries := [(["old"], .file [1])] } with
     | .ok t => t.entries | .error _ => []) = [(["old"], .file [1]), (["a"], .file [2])] := by
  decide

/-- … and a directory sitting where a file of the new build goes makes `Prepare` fail (`OpenFile` → EISDIR),
    even though `fspool.GetWriter` would have removed it. -/
theorem dir_in_the_way_fails :
    freshApply { files := [(["a"], [2])] } [(0, [2])] { entries := [(["a"], .dir)] } (fun _ => .transpose) =
      .error .eisdir := by
  rfl

end Wharf.C01
