/-
  C03 — Interrupted patch application resumes from any checkpoint to the same result (writer level and
  bowl work lists; the message reader is C13.resume_exact, the bsdiff offset C12.resume_mid, the overlay
  stream C14.sessions / C14.patch_ignores_suffix).
  Property theorems only (helper lemmas live in Wharf/Proofs/Resume.lean).
-/
import Wharf.Model.Resume
import Wharf.Proofs.Resume

namespace Wharf.C03
open Wharf Wharf.Resume Wharf.Commit

/-- An uninterrupted application writes exactly the concatenation of its chunks when they add up to the
    final size (which the patcher checks for bsdiff series and C01 guarantees for rsync series). -/
theorem uninterrupted_eq (cs : List (List Byte)) (n : Nat) (hn : cs.flatten.length = n) :
    uninterrupted cs n = cs.flatten := by
  unfold uninterrupted
  rw [writeChunks_full _ _ _ (by rw [prepare_length]; omega)]
  simp only [List.take_zero, List.nil_append]

/-- C03 (fresh bowl): for EVERY checkpoint index `j`, EVERY later crash state of the output file — any
    length, any bytes, as long as the bytes below the checkpointed offset are the ones written before the
    checkpoint — resuming in a new writer (prepare again, reopen without truncation, seek to the saved
    offset, write the remaining chunks) produces exactly what the uninterrupted application produces. -/
theorem resume_fresh (cs : List (List Byte)) (n j : Nat) (hj : j ≤ cs.length) (hn : cs.flatten.length = n)
    (crashDisk : List Byte)
    (hdur : crashDisk.take ((cs.take j).flatten.length) = (cs.take j).flatten) :
    resumed cs n j crashDisk = uninterrupted cs n := by
  have _ := hj  -- not needed: `take`/`drop` saturate past the end
  rw [uninterrupted_eq cs n hn]
  have hsplit := flatten_take_drop cs j
  have hlen : cs.flatten.length = (cs.take j).flatten.length + (cs.drop j).flatten.length := by
    rw [← List.length_append, ← hsplit]
  have hle := take_eq_length_le _ _ _ hdur rfl
  unfold resumed
  simp only []
  rw [writeChunks_full _ _ _ (by rw [prepare_length]; omega),
    prepare_take _ _ _ (by omega) hle, hdur, ← hsplit]

/-- Chains of interruptions: resuming from checkpoint `j₂ ≥ j₁` after having resumed from `j₁` is again an
    instance of `resume_fresh` (the state after the first resumption satisfies the durability hypothesis). -/
theorem resume_chain (cs : List (List Byte)) (n j₁ j₂ : Nat) (h12 : j₁ ≤ j₂) (hj : j₂ ≤ cs.length)
    (hn : cs.flatten.length = n) (crashDisk garbage : List Byte)
    (hdur : crashDisk.take ((cs.take j₁).flatten.length) = (cs.take j₁).flatten) :
    let off₁ := (cs.take j₁).flatten.length
    let mid := (writeChunks ((cs.drop j₁).take (j₂ - j₁)) (prepare crashDisk n) off₁).1
    -- a second crash keeps the durable prefix and replaces the rest by garbage
    let crash₂ := mid.take ((cs.take j₂).flatten.length) ++ garbage
    resumed cs n j₂ crash₂ = uninterrupted cs n := by
  intro off₁ mid crash₂
  apply resume_fresh cs n j₂ hj hn
  have hle₁ := take_eq_length_le _ _ _ hdur rfl
  have htake : cs.take j₂ = cs.take j₁ ++ (cs.drop j₁).take (j₂ - j₁) := by
    have : j₂ = j₁ + (j₂ - j₁) := by omega
    conv => lhs; rw [this]
    rw [List.take_add]
  have hfl : (cs.take j₂).flatten
      = (cs.take j₁).flatten ++ ((cs.drop j₁).take (j₂ - j₁)).flatten := by
    rw [htake, List.flatten_append]
  have hsplit := flatten_take_drop cs j₂
  have hlen : cs.flatten.length = (cs.take j₂).flatten.length + (cs.drop j₂).flatten.length := by
    rw [← List.length_append, ← hsplit]
  have hlen₂ : (cs.take j₂).flatten.length
      = off₁ + ((cs.drop j₁).take (j₂ - j₁)).flatten.length := by
    rw [hfl, List.length_append]
  have hbound : off₁ + ((cs.drop j₁).take (j₂ - j₁)).flatten.length ≤ (prepare crashDisk n).length := by
    rw [prepare_length]; omega
  obtain ⟨h1, _, h3⟩ := writeChunks_spec _ _ _ hbound
  have hmid : mid.take ((cs.take j₂).flatten.length) = (cs.take j₂).flatten := by
    show (writeChunks _ _ _).1.take _ = _
    rw [hlen₂, h3, prepare_take _ _ _ (by show (cs.take j₁).flatten.length ≤ n; omega) hle₁, hdur, ← hfl]
  have hk : (mid.take ((cs.take j₂).flatten.length)).length = (cs.take j₂).flatten.length := by
    rw [hmid]
  show (mid.take _ ++ garbage).take _ = _
  rw [List.take_append_of_le_length (by omega), List.take_take, Nat.min_self, hmid]

/-- C03 (overlay bowl work lists): re-processing a file after a resume records nothing twice. -/
theorem markOverlay_idem (w : Work) (i : Nat) : markOverlay (markOverlay w i) i = markOverlay w i := by
  unfold markOverlay
  by_cases h : w.overlayFiles.contains i = true
  · simp only [h, if_true]
  · have hf : w.overlayFiles.contains i = false := (Bool.not_eq_true _).mp h
    have h' : (w.overlayFiles ++ [i]).contains i = true := by simp
    simp only [hf, Bool.false_eq_true, if_false, h', if_true]

theorem markMove_idem (w : Work) (i : Nat) : markMove (markMove w i) i = markMove w i := by
  unfold markMove
  by_cases h : w.moveFiles.contains i = true
  · simp only [h, if_true]
  · have hf : w.moveFiles.contains i = false := (Bool.not_eq_true _).mp h
    have h' : (w.moveFiles ++ [i]).contains i = true := by simp
    simp only [hf, Bool.false_eq_true, if_false, h', if_true]

/-- a transposition recorded again for the same source replaces the earlier record: the list keeps one
    record per source, in its original position -/
theorem recordTranspose_idem (w : Work) (src tgt : Nat) :
    recordTranspose (recordTranspose w src tgt) src tgt = recordTranspose w src tgt := by
  unfold recordTranspose
  by_cases h : w.transpositions.any (·.1 == src) = true
  · have h' : (w.transpositions.map fun (s, t) => if s == src then (src, tgt) else (s, t)).any
        (·.1 == src) = true := by
      rw [List.any_eq_true] at h ⊢
      obtain ⟨⟨s, t⟩, hm, hs⟩ := h
      refine ⟨(src, tgt), ?_, by simp⟩
      rw [List.mem_map]
      exact ⟨(s, t), hm, by simp only [] at hs; simp [hs]⟩
    simp only [h, if_true, h', recordMap_idem]
  · have hf : w.transpositions.any (·.1 == src) = false := (Bool.not_eq_true _).mp h
    have h' : (w.transpositions ++ [(src, tgt)]).any (·.1 == src) = true := by
      simp
    simp only [hf, Bool.false_eq_true, if_false, h', if_true, List.map_append,
      recordMap_of_not_any _ _ _ hf]
    simp

theorem recordTranspose_one_per_source (w : Work) (src tgt : Nat)
    (h : (w.transpositions.map (·.1)).Nodup) :
    ((recordTranspose w src tgt).transpositions.map (·.1)).Nodup ∧
    (src, tgt) ∈ (recordTranspose w src tgt).transpositions := by
  unfold recordTranspose
  by_cases hany : w.transpositions.any (·.1 == src) = true
  · simp only [hany, if_true, map_fst_recordMap]
    refine ⟨h, ?_⟩
    rw [List.any_eq_true] at hany
    obtain ⟨⟨s, t⟩, hm, hs⟩ := hany
    rw [List.mem_map]
    exact ⟨(s, t), hm, by simp only [] at hs; simp [hs]⟩
  · have hf : w.transpositions.any (·.1 == src) = false := (Bool.not_eq_true _).mp hany
    simp only [hf, Bool.false_eq_true, if_false, List.map_append, List.map_cons, List.map_nil]
    refine ⟨?_, by simp⟩
    rw [List.nodup_append]
    refine ⟨h, by simp, ?_⟩
    intro a ha b hb
    simp only [List.mem_singleton] at hb
    subst hb
    rw [List.mem_map] at ha
    obtain ⟨⟨s, t⟩, hm, rfl⟩ := ha
    rw [List.any_eq_false] at hf
    have := hf _ hm
    simpa using this

/-- Non-vacuity: crash after 1 of 3 chunks with a longer, garbage-filled file. -/
example : resumed [[1, 2], [3], [4, 5]] 5 1 [1, 2, 9, 9, 9, 9, 9, 9] = [1, 2, 3, 4, 5] := by
  decide

end Wharf.C03
