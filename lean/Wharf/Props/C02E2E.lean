/-
  C02, end to end — the work record assumed by `commit_correct_partial` (`WorkOK`) is *derived* from the
  message-level patcher model run on the patch the differ writes, and the two halves are composed:

    differ (`writePatch`)  →  patcher (`Patch.patch`, recording the bowl calls)  →  overlay bowl bookkeeping
    (`workOf`: `GetWriter` ↦ `recordWriter`, `Transpose` ↦ `recordTranspose`)  →  `Commit.commit`  =  new build.

  Property theorems only; helper lemmas live in Wharf/Proofs/InPlace.lean (calls of the patcher, invariant of
  the fold) and Wharf/Proofs/Commit.lean (commit).

  How the two models are glued
  * The patcher model sees a build's files as a list of (path string, `Content`); `poolFiles` gives that view of
    a `Commit.Build` (`"/".intercalate` of the components, `Content.ofList` of the bytes), in container order,
    so file index `i` means the same file on both sides.
  * The path strings are only used by the differ to pick the preferred old file (`prefOf`).  That choice
    influences which ops are written but not their correctness (C11 holds for every preference), so NO
    assumption on the path strings is needed: `work_of_patch_ok_names` is proved for an arbitrary naming
    function `Path → String` (not even injective), and `BuildWF` is not needed for deriving `WorkOK`.
    The overlay-vs-move decision of `recordWriter` compares `Path`s, not strings.
  * The stage folder is not part of the commit model's tree; it is represented by the contents staged for each
    new file: `commit` writes `new.files[i].2` for overlay and move files.  This is justified by the `r.out`
    clause of `inplace_correct_partial` (C01: what the patcher writes for file `i` is exactly the new content;
    C14: an applied overlay yields the content that was written through it).

  `_partial`: as for `commit_correct_partial`, the statement carries `NoKindClash` (finding F8).  Nothing else
  is assumed.  (The former hypothesis `NoTempNames` is gone since the fix of F22: the temporary names skip the
  paths in use.  `inplace_lookalike_ok` at the end runs the whole chain on builds that contain files named like
  temporary names.)
-/
import Wharf.Props.C01
import Wharf.Props.C02
import Wharf.Proofs.InPlace

namespace Wharf.C02
open Wharf Wharf.FS Wharf.Commit Wharf.Patch

/-- The path string of a container entry (slash-joined components). -/
def pathStr (p : Path) : String := "/".intercalate p

/-- A build's files as the differ and the patcher see them, for a given naming of paths. -/
def poolFilesAs (name : Path → String) (b : Build) : List (String × Content) :=
  b.files.map fun (p, d) => (name p, Content.ofList d)

/-- A build's files as the differ and the patcher see them: (path string, content), in container order. -/
def poolFiles (b : Build) : List (String × Content) := poolFilesAs pathStr b

/-- The work the overlay bowl records for the calls the patcher makes (the fold of `doCommit` in Main.lean). -/
def workOf (old new : Build) (calls : List BowlCall) : Work :=
  calls.foldl (fun w c => match c with
    | .getWriter i => recordWriter old new w i
    | .transpose s t => recordTranspose w s t) {}

/-! conversions to the mirrored definitions used by the helper lemmas in Wharf/Proofs/InPlace.lean -/

theorem workOf_eq (old new : Build) (calls : List BowlCall) : workOf old new calls = workOfCalls old new calls := by
  rfl

theorem WorkOK.ofWOK {old new : Build} {w : Work} (h : Commit.WOK old new w) : WorkOK old new w :=
  ⟨h.cover, h.excl₁, h.excl₂, h.nodupT, h.nodupO, h.nodupM, h.transp, h.overlay, h.move⟩

/-- The environment the patcher model runs in is the one the executable driver builds (`doCommit` in
    Main.lean): old/new sizes are the byte-list lengths and the pool is the plain pool over the old byte lists.
    (So the `Content` view and the path strings are not visible to the patcher at all.) -/
theorem envOf_poolFilesAs (name : Path → String) (bs : Nat) (old new : Build) :
    C01.envOf bs (poolFilesAs name old) (poolFilesAs name new) none =
      { bs := bs
        oldSizes := (old.files.map (·.2.length)).toArray
        newSizes := (new.files.map (·.2.length)).toArray
        pool := plainPool (old.files.map (·.2)).toArray
        whitelist := none } := by
  have h1 : ∀ b : Build, (poolFilesAs name b).map (·.2.size) = b.files.map (·.2.length) := by
    intro b
    simp only [poolFilesAs, List.map_map]
    apply List.map_congr_left
    intro x _
    rfl
  have h2 : ∀ b : Build, (poolFilesAs name b).map (·.2.toList) = b.files.map (·.2) := by
    intro b
    simp only [poolFilesAs, List.map_map]
    apply List.map_congr_left
    intro x _
    exact ofList_toList x.2
  unfold C01.envOf
  rw [h1, h1, h2]

/-- C02, patching phase, for any naming of paths: if the patcher model, run over the pristine old build on the
    patch written by the differ for (old, new), returns `r`, then the work recorded from `r.calls` is what
    `commit_correct_partial` assumes.  (Every new file gets exactly one call, in order; a `transpose i t` is
    only made when old file `t` has exactly the content of new file `i`; `recordWriter` chooses overlay exactly
    when the path exists among the old files.) -/
theorem work_of_patch_ok_names (name : Path → String) (P : Rsync.Params) (hbs : 0 < P.bs) (hmx : 0 < P.maxDataOp)
    (old new : Build) (r : Res)
    (h : patch (C01.envOf P.bs (poolFilesAs name old) (poolFilesAs name new) none)
          (writePatch P (poolFilesAs name old) (poolFilesAs name new)) = .ok r) :
    WorkOK old new (workOf old new r.calls) := by
  obtain ⟨r', hr', hc⟩ := patch_fresh_calls P hbs hmx (poolFilesAs name old) (poolFilesAs name new)
  have hrr : r' = r := by
    have : (Outcome.ok r' : Outcome Res) = .ok r := hr'.symm.trans h
    cases this
    rfl
  subst hrr
  rw [workOf_eq]
  apply WorkOK.ofWOK
  apply workOfCalls_ok
  exact callsOK_to_callsFor name old new new.files 0 r'.calls (fun k _ => by rw [Nat.zero_add]) hc

/-- C02, patching phase: `WorkOK` is derived from the patcher model (no hypothesis on the builds). -/
theorem work_of_patch_ok (P : Rsync.Params) (hbs : 0 < P.bs) (hmx : 0 < P.maxDataOp) (old new : Build) (r : Res)
    (h : patch (C01.envOf P.bs (poolFiles old) (poolFiles new) none)
          (writePatch P (poolFiles old) (poolFiles new)) = .ok r) :
    WorkOK old new (workOf old new r.calls) :=
  work_of_patch_ok_names pathStr P hbs hmx old new r h

/-- C02 end to end (in-place patching ends with exactly the new build): for well-formed builds without kind
    clash (F8), the patcher model applied to the patch the differ writes
    for (old, new) succeeds with some result `r`; what it wrote for the new files (the stage, represented by
    contents) is exactly the new contents in order; and committing the work recorded from `r.calls` onto the
    tree holding exactly the old build succeeds and yields a tree holding exactly the new build — for every
    pair of visiting orders of the two transposition map loops. -/
theorem inplace_correct_partial (P : Rsync.Params) (hbs : 0 < P.bs) (hmx : 0 < P.maxDataOp) (old new : Build)
    (hold : BuildWF old) (hnew : BuildWF new) (hk : NoKindClash old new) :
    ∃ r, patch (C01.envOf P.bs (poolFiles old) (poolFiles new) none)
            (writePatch P (poolFiles old) (poolFiles new)) = .ok r ∧
      r.out = (List.range new.files.length).zip (new.files.map (·.2)) ∧
      ∀ order₁ order₂ : List Path,
        order₁.Perm (sourcesOf old new (workOf old new r.calls)) →
        order₂.Perm (sourcesOf old new (workOf old new r.calls)) →
        ∃ t', commit old new (workOf old new r.calls) order₁ order₂ (treeOfBuild old) = .ok t' ∧ Holds t' new := by
  obtain ⟨r, hr, hout, _⟩ := C01.fresh_roundtrip P hbs hmx (poolFiles old) (poolFiles new)
  refine ⟨r, hr, ?_, ?_⟩
  · rw [hout]
    simp only [poolFiles, poolFilesAs, List.length_map, List.map_map]
    congr 1
    apply List.map_congr_left
    intro x _
    exact ofList_toList x.2
  · intro order₁ order₂ ho₁ ho₂
    exact commit_correct_partial old new _ order₁ order₂ hold hnew hk
      (work_of_patch_ok P hbs hmx old new r hr) ho₁ ho₂

/-- The same, in the form "whatever the patcher returns": any successful result of the patcher model on the
    written patch leads to a commit that ends with exactly the new build. -/
theorem inplace_commit_of_patch_partial (P : Rsync.Params) (hbs : 0 < P.bs) (hmx : 0 < P.maxDataOp)
    (old new : Build) (r : Res) (order₁ order₂ : List Path)
    (hold : BuildWF old) (hnew : BuildWF new) (hk : NoKindClash old new)
    (h : patch (C01.envOf P.bs (poolFiles old) (poolFiles new) none)
          (writePatch P (poolFiles old) (poolFiles new)) = .ok r)
    (ho₁ : order₁.Perm (sourcesOf old new (workOf old new r.calls)))
    (ho₂ : order₂.Perm (sourcesOf old new (workOf old new r.calls))) :
    ∃ t', commit old new (workOf old new r.calls) order₁ order₂ (treeOfBuild old) = .ok t' ∧ Holds t' new :=
  commit_correct_partial old new _ order₁ order₂ hold hnew hk (work_of_patch_ok P hbs hmx old new r h) ho₁ ho₂

/-! ### non-vacuity

  A concrete pair: a swap `a <-> b` (two transpositions, both needing temporary names), an edited file
  (`d/o`, overlay), a new file in a new directory (`n/s`, staged), a new empty file (`n/e`, staged), an unchanged
  file (`same`, a transposition onto its own path), a deleted directory with a file (`gone/x`) and a symlink
  whose destination changes.  The patcher's calls and the derived work are computed (`decide`), the side
  conditions are decided, and the end-to-end theorem applies for two different visiting orders. -/

def e2eOld : Build :=
  { dirs := [["d"], ["gone"]],
    symlinks := [(["l"], "a")],
    files := [(["a"], [1, 1, 1]), (["b"], [2, 2, 2]), (["d", "o"], [3, 4, 5, 6, 7]), (["gone", "x"], [4]),
              (["same"], [9, 9])] }
def e2eNew : Build :=
  { dirs := [["d"], ["n"]],
    symlinks := [(["l"], "b")],
    files := [(["a"], [2, 2, 2]), (["b"], [1, 1, 1]), (["d", "o"], [3, 4, 8, 6, 7]), (["n", "s"], [6]),
              (["same"], [9, 9]), (["n", "e"], [])] }

theorem e2eOld_wf : BuildWF e2eOld := ⟨by decide, by decide, parents_of_check (by decide)⟩
theorem e2eNew_wf : BuildWF e2eNew := ⟨by decide, by decide, parents_of_check (by decide)⟩
theorem e2e_nkc : NoKindClash e2eOld e2eNew := NoKindClash.of_check (by decide)

/-- the calls the patcher makes on the example (block size 2) -/
theorem e2e_calls :
    (match patch (C01.envOf 2 (poolFiles e2eOld) (poolFiles e2eNew) none)
        (writePatch ⟨2, 8⟩ (poolFiles e2eOld) (poolFiles e2eNew)) with
     | .ok r => r.calls
     | _ => []) =
    [.transpose 0 1, .transpose 1 0, .getWriter 2, .getWriter 3, .transpose 4 4, .getWriter 5] := by
  decide

/-- the work derived from them -/
example :
    let w := workOf e2eOld e2eNew
      [.transpose 0 1, .transpose 1 0, .getWriter 2, .getWriter 3, .transpose 4 4, .getWriter 5]
    w.transpositions = [(0, 1), (1, 0), (4, 4)] ∧ w.overlayFiles = [2] ∧ w.moveFiles = [3, 5] := by
  decide

example :
    ∃ r, patch (C01.envOf 2 (poolFiles e2eOld) (poolFiles e2eNew) none)
            (writePatch ⟨2, 8⟩ (poolFiles e2eOld) (poolFiles e2eNew)) = .ok r ∧
      r.calls = [.transpose 0 1, .transpose 1 0, .getWriter 2, .getWriter 3, .transpose 4 4, .getWriter 5] ∧
      ∃ t', commit e2eOld e2eNew (workOf e2eOld e2eNew r.calls) [["a"], ["same"], ["b"]] [["b"], ["a"], ["same"]]
              (treeOfBuild e2eOld) = .ok t' ∧ Holds t' e2eNew := by
  obtain ⟨r, hr, _, hc⟩ := inplace_correct_partial ⟨2, 8⟩ (by decide) (by decide) e2eOld e2eNew
    e2eOld_wf e2eNew_wf e2e_nkc
  have hcalls : r.calls =
      [.transpose 0 1, .transpose 1 0, .getWriter 2, .getWriter 3, .transpose 4 4, .getWriter 5] := by
    have := e2e_calls
    rw [hr] at this
    exact this
  refine ⟨r, hr, hcalls, hc _ _ ?_ ?_⟩
  · rw [hcalls]; decide
  · rw [hcalls]; decide

/-! ### F22 end to end: builds that contain files named like temporary names

  `laOld`/`laNew` (Props/C02.lean): a swap `a <-> b` next to the files `a.butler-rename-1` and
  `b.butler-rename-2`.  The patcher records the four transpositions by itself, and the commit yields exactly the
  new build for every pair of visiting orders — before the fix of F22 this pair of builds was excluded by
  `NoTempNames`, and the old model/code lost the two look-alike files when `b`'s group was visited first. -/

/-- the calls the patcher makes on the look-alike builds (block size 2) -/
theorem la_calls :
    (match patch (C01.envOf 2 (poolFiles laOld) (poolFiles laNew) none)
        (writePatch ⟨2, 8⟩ (poolFiles laOld) (poolFiles laNew)) with
     | .ok r => r.calls
     | _ => []) =
    [.transpose 0 1, .transpose 1 0, .transpose 2 2, .transpose 3 3] := by
  decide

/-- the work derived from them is `laWork` -/
theorem la_workOf :
    workOf laOld laNew [.transpose 0 1, .transpose 1 0, .transpose 2 2, .transpose 3 3] = laWork := by
  have h : ∀ w : Work, w.transpositions = laWork.transpositions ∧ w.overlayFiles = laWork.overlayFiles ∧
      w.moveFiles = laWork.moveFiles → w = laWork := by
    intro w hw
    cases w
    obtain ⟨h1, h2, h3⟩ := hw
    simp only at h1 h2 h3
    subst h1; subst h2; subst h3
    rfl
  exact h _ (by decide)

theorem inplace_lookalike_ok (order₁ order₂ : List Path)
    (ho₁ : order₁.Perm [["b"], ["a"], ["a.butler-rename-1"], ["b.butler-rename-2"]])
    (ho₂ : order₂.Perm [["b"], ["a"], ["a.butler-rename-1"], ["b.butler-rename-2"]]) :
    ∃ r, patch (C01.envOf 2 (poolFiles laOld) (poolFiles laNew) none)
            (writePatch ⟨2, 8⟩ (poolFiles laOld) (poolFiles laNew)) = .ok r ∧
      workOf laOld laNew r.calls = laWork ∧
      ∃ t', commit laOld laNew (workOf laOld laNew r.calls) order₁ order₂ (treeOfBuild laOld) = .ok t' ∧
        Holds t' laNew := by
  obtain ⟨r, hr, _, hc⟩ := inplace_correct_partial ⟨2, 8⟩ (by decide) (by decide) laOld laNew
    laOld_wf laNew_wf la_nkc
  have hcalls : r.calls = [.transpose 0 1, .transpose 1 0, .transpose 2 2, .transpose 3 3] := by
    have := la_calls
    rw [hr] at this
    exact this
  have hw : workOf laOld laNew r.calls = laWork := by rw [hcalls]; exact la_workOf
  refine ⟨r, hr, hw, hc _ _ ?_ ?_⟩
  · rw [hw, la_sources]; exact ho₁
  · rw [hw, la_sources]; exact ho₂

/-- in particular for the order on which the look-alike files used to be lost, and for another one -/
example : ∃ r, patch (C01.envOf 2 (poolFiles laOld) (poolFiles laNew) none)
            (writePatch ⟨2, 8⟩ (poolFiles laOld) (poolFiles laNew)) = .ok r ∧
      workOf laOld laNew r.calls = laWork ∧
      ∃ t', commit laOld laNew (workOf laOld laNew r.calls)
              [["b"], ["a"], ["a.butler-rename-1"], ["b.butler-rename-2"]]
              [["a"], ["b"], ["a.butler-rename-1"], ["b.butler-rename-2"]] (treeOfBuild laOld) = .ok t' ∧
        Holds t' laNew :=
  inplace_lookalike_ok _ _ (by decide) (by decide)

example : ∃ r, patch (C01.envOf 2 (poolFiles laOld) (poolFiles laNew) none)
            (writePatch ⟨2, 8⟩ (poolFiles laOld) (poolFiles laNew)) = .ok r ∧
      workOf laOld laNew r.calls = laWork ∧
      ∃ t', commit laOld laNew (workOf laOld laNew r.calls)
              [["a"], ["b.butler-rename-2"], ["b"], ["a.butler-rename-1"]]
              [["b.butler-rename-2"], ["b"], ["a.butler-rename-1"], ["a"]] (treeOfBuild laOld) = .ok t' ∧
        Holds t' laNew :=
  inplace_lookalike_ok _ _ (by decide) (by decide)

end Wharf.C02
