/-
  C06 under EVERY schedule — healing restores the signed build whatever the interleaving of the validator
  (`Validate`: directory pass, symlink pass, per-file pass) with the healer (`ArchiveHealer.Do` receiving
  wounds, the `heal` goroutine rewriting queued files), including a file being rewritten while the
  validator is still reading it.  Model: Wharf/Model/HealTS.lean (transition system `Wharf.HealTS.step`,
  racy file verdict `Wharf.HealTS.admissible`); helper lemmas and the invariant: Wharf/Proofs/HealTS.lean.
  Property theorems only.

  AFTER THE REPAIR OF FINDING F15 (see Props/C06Restore.lean).  Every theorem exists in two forms:
    * `…_any_tree…`: NO hypothesis on the damaged tree besides `TInv` — signed directories may have been replaced
      by symlinks to anywhere — with `ParentsFirst s` (directories listed parents-first, as `tlc.Walk` lists them);
    * under its old name with its old hypotheses (`NoDirSymlink s t`, and `ParentsFirst` only where it was
      needed before).
  Both follow from one invariant (`Wharf.HealTS.Inv`), started from `ParentsFirst s ∨ NoDirSymlink s t`.  Why it
  holds: the validator sends directory wounds (in listing order), then symlink wounds, then file wounds, into a
  FIFO channel and the healer handles them in that order.  What the validator sees at an entry below a signed
  directory that is a symlink is seen THROUGH the link — healthy or wounded, the invariant does not care (third /
  fourth disjunct `Linked` of `Inv.dirs` / `syms` / `files`): the link's own DIR wound is ahead of every wound of an
  entry below it (`Inv.head_plain`: a directory wound is handled only when no link is left above its directory),
  the healer replaces the link by an empty directory and `healBelow` heals EVERYTHING below it, whatever the
  verdicts were.  When a symlink wound or file wound is handled, every signed directory is in place
  (`Inv.allDirs_head`); a file is queued only when its parent directory is in place (`Inv.queueReady`), so the
  healing goroutine never writes through a link.  Every heal step keeps every signed entry that is already as
  signed (`Keeps`).

  Two statements had to CHANGE because they are false for the fixed code (instances at the theorems):
  `inspected_entries_accounted` (fourth conjunct: a file may now be queued before the validator reaches it) and
  `verdict_on_untouched_entry` (second conjunct: a symlink below a replaced directory may be healed before the
  validator reaches it).

  Atomicity of the new heal step.  `hWound` for a directory wound is one step of the model although
  `healBelow` is a long sequence of system calls.  For the property this is harmless: while `healBelow(d)`
  runs, every verdict the validator forms on an entry at or below `d` is either "healthy" on an entry that is
  already as signed and stays so, or a wound — and a wound for an entry below `d` that `healBelow` heals anyway
  is a no-op for the healer when it arrives later (directory: "all good"; symlink: removed and re-created; file:
  already queued).  A file `i` below `d` may now be queued and rewritten BEFORE the validator reaches it; if the
  validator then reads it half-written it sends real wounds for `i`, which the healer ignores (`files[i]` is set)
  while the healing goroutine completes the file regardless: in the model the step `vFile` is then placed before
  `hFile` (the file is missing on the tree: any verdict with a real wound is admissible).

  Two over-approximating validator steps cover entries observed missing in the middle of a heal call that the
  model treats as atomic: `vDirLate` (a directory during a multi-level `MkdirAll` or during `healBelow`) and, new
  with `healBelow`, `vSymlinkLate` (a symlink below a replaced directory before `healBelow` has recreated it): the
  validator may report ANY directory / symlink entry as wounded.

  Exhaustive exploration of the transition system (compiled model, every interleaving and three racy verdicts per
  wounded file, builds of at most 5 entries over the paths of Props/C06Restore.lean, a sample of the damaged trees
  with symlinks anywhere): parents-first, any tree — 92 635 instances, 9.2 million states, no terminal state that
  does not match, no healer error (again after adding `vSymlinkLate`: 25 264 instances, 2.8 million states);
  children-first under `NoDirSymlink` — 49 910 instances, no terminal state that does not match.  Children-first
  with symlinked directories: 57 of 35 320 sampled instances have a non-matching terminal state (717 with the
  unrepaired model; parents-first the unrepaired model has 359, the repaired one none).

  The tie to the real code: `sequential_is_a_schedule` — the run of `validateAndHeal`, which the differential
  harness compares with the Go implementation, is one of the runs of this transition system.
-/
import Wharf.Model.HealTS
import Wharf.Proofs.HealTS
import Wharf.Props.C06Restore

namespace Wharf.C06
open Wharf Wharf.FS Wharf.Validate Wharf.TreeValidate Wharf.Heal Wharf.HealTS

/-- the invariant of every interleaving, in every reachable state -/
theorem inv_reach {bs : Nat} (hbs : 0 < bs) {maxSize : Nat} {s : Signed} {t : Tree} {σ : State}
    (hs : SignedWF s) (ht : Wharf.Archive.TInv t) (hm : ParentsFirst s ∨ NoDirSymlink s t)
    (hr : Reach bs maxSize s (HealTS.init t) σ) : Inv s σ :=
  (inv_init hs ht hm).reach bs hbs maxSize hs.wf hr

/-- C06 under any schedule, ANY damaged tree (finding F15 repaired): in EVERY terminal, non-failed state
    reachable from the damaged tree `t` — for every interleaving of validator steps, wound receptions and file
    rewrites, and every admissible racy file verdict — the tree matches the signed build. -/
theorem heal_restores_any_tree_any_schedule (bs : Nat) (hbs : 0 < bs) (maxSize : Nat) (s : Signed) (t : Tree)
    (σ : State) (hs : SignedWF s) (hpf : ParentsFirst s) (ht : Wharf.Archive.TInv t)
    (hr : Reach bs maxSize s (HealTS.init t) σ) (hterm : σ.terminal) (_hok : σ.failed = false) :
    C05Tree.Matches s σ.tree :=
  matches_of_terminal hs (inv_reach hbs hs ht (.inl hpf) hr) hterm

/-- … as first stated (kept; no `ParentsFirst` needed when no signed directory is a symlink). -/
theorem heal_restores_any_schedule (bs : Nat) (hbs : 0 < bs) (maxSize : Nat) (s : Signed) (t : Tree)
    (σ : State) (hs : SignedWF s) (ht : Wharf.Archive.TInv t) (hno : NoDirSymlink s t)
    (hr : Reach bs maxSize s (HealTS.init t) σ) (hterm : σ.terminal) (_hok : σ.failed = false) :
    C05Tree.Matches s σ.tree :=
  matches_of_terminal hs (inv_reach hbs hs ht (.inr hno) hr) hterm

/-! `ParentsFirst` cannot be dropped from `heal_restores_any_tree_any_schedule` (besides the instance of the
    sequential schedule, `any_tree_needs_parents_first`, there is one that only a concurrent schedule shows, and
    that the repair of F15 itself brings about; evaluated with `#eval` on the compiled model, not kernel-checked
    because every step resolves paths through the link):

      signed  dirs = [a/c, a]  (child listed first),  files = [a/c/f = 1 2 3]
      disk    a → b (symlink),  b/ (directory),  b/c (regular file)
      run     [vDir, vDir, hWound, hFile, hWound, vFile [file 0 0..3], hWound, vDone]
      result  terminal, not failed, tree = b/, b/c/, b/c/f, a/, a/c/ — `a/c/f` is MISSING, `Validate` returns nil.

    Go-level: the DIR wound of `a/c` is handled while `a` is still a link; `Lstat(a/c)` finds the file `b/c` through
    it, replaces it by a directory, and `healBelow("a/c")` queues `a/c/f`; the healing goroutine rewrites it at
    once — THROUGH the link, into `b/c/f`.  Then the DIR wound of `a` replaces the link by an empty directory and
    `healBelow("a")` recreates `a/c` but skips `a/c/f` (`files[0]` is set: "already queued"); the wound the
    validator sends afterwards is skipped for the same reason.  The validator-first schedule heals this instance
    (the healing goroutine runs last there), and so did the unrepaired code under every schedule (a file could be
    queued only after all directory wounds had been handled).  With parents-first listing the wound of `a` is ahead
    of the wound of `a/c` in the channel, `a` is a directory before anything below it is handled, and the invariant
    `Inv.queueReady` (a file is queued only when its parent directory is in place) excludes the scenario.  Containers
    listed by `tlc.Walk` are parents-first. -/

/-- … and therefore a second, fail-fast validation of the healed tree succeeds, under any schedule. -/
theorem heal_then_valid_any_tree_any_schedule (bs : Nat) (hbs : 0 < bs) (maxSize : Nat) (s : Signed) (t : Tree)
    (σ : State) (hs : SignedWF s) (hpf : ParentsFirst s) (ht : Wharf.Archive.TInv t)
    (hr : Reach bs maxSize s (HealTS.init t) σ) (hterm : σ.terminal) (hok : σ.failed = false) :
    failFastOk bs maxSize s σ.tree = true :=
  (C05Tree.verdict_iff bs hbs maxSize s σ.tree).mpr
    (heal_restores_any_tree_any_schedule bs hbs maxSize s t σ hs hpf ht hr hterm hok)

theorem heal_then_valid_any_schedule (bs : Nat) (hbs : 0 < bs) (maxSize : Nat) (s : Signed) (t : Tree)
    (σ : State) (hs : SignedWF s) (ht : Wharf.Archive.TInv t) (hno : NoDirSymlink s t)
    (hr : Reach bs maxSize s (HealTS.init t) σ) (hterm : σ.terminal) (hok : σ.failed = false) :
    failFastOk bs maxSize s σ.tree = true :=
  (C05Tree.verdict_iff bs hbs maxSize s σ.tree).mpr
    (heal_restores_any_schedule bs hbs maxSize s t σ hs ht hno hr hterm hok)

theorem heal_any_schedule_unrelated_either (bs : Nat) (hbs : 0 < bs) (maxSize : Nat) (s : Signed) (t : Tree)
    (σ : State) (hs : SignedWF s) (ht : Wharf.Archive.TInv t) (hm : ParentsFirst s ∨ NoDirSymlink s t)
    (hr : Reach bs maxSize s (HealTS.init t) σ) (q : Path)
    (hq : ∀ p ∈ allPaths s, p ≠ q ∧ ¬ isPrefix p q ∧ ¬ isPrefix q p) : σ.tree.get q = t.get q := by
  have hK := (inv_init hs ht hm).reach_keeps bs hbs maxSize hs.wf hr
  apply hK.unrelated q
  intro p hp
  obtain ⟨h1, h2, h3⟩ := hq p hp
  exact ⟨h1, by simpa using h2, by simpa using h3⟩

/-- Under any schedule, in EVERY reachable state (terminal or not, failed or not), ANY damaged tree: a path that
    is neither a signed path, nor below one, nor an ancestor of one, holds what it held at the start.  (A failed
    state of the model carries the tree as it was before the failing call.) -/
theorem heal_any_tree_any_schedule_unrelated (bs : Nat) (hbs : 0 < bs) (maxSize : Nat) (s : Signed) (t : Tree)
    (σ : State) (hs : SignedWF s) (hpf : ParentsFirst s) (ht : Wharf.Archive.TInv t)
    (hr : Reach bs maxSize s (HealTS.init t) σ) (q : Path)
    (hq : ∀ p ∈ allPaths s, p ≠ q ∧ ¬ isPrefix p q ∧ ¬ isPrefix q p) : σ.tree.get q = t.get q :=
  heal_any_schedule_unrelated_either bs hbs maxSize s t σ hs ht (.inl hpf) hr q hq

theorem heal_any_schedule_unrelated (bs : Nat) (hbs : 0 < bs) (maxSize : Nat) (s : Signed) (t : Tree)
    (σ : State) (hs : SignedWF s) (ht : Wharf.Archive.TInv t) (hno : NoDirSymlink s t)
    (hr : Reach bs maxSize s (HealTS.init t) σ) (q : Path)
    (hq : ∀ p ∈ allPaths s, p ≠ q ∧ ¬ isPrefix p q ∧ ¬ isPrefix q p) : σ.tree.get q = t.get q :=
  heal_any_schedule_unrelated_either bs hbs maxSize s t σ hs ht (.inr hno) hr q hq

/-- With directories listed parents-first NO heal call fails, under no schedule, for ANY damaged tree: no
    reachable state has status `healerError` (`Lstat`/`Remove`/`MkdirAll`/`Symlink`/whole-file rewrite, `healBelow`
    included).  The validator may still stop with an error (ELOOP on a chain of links, see Props/C06Restore.lean):
    that is the only way a run can fail. -/
theorem heal_any_tree_no_healer_failure (bs : Nat) (hbs : 0 < bs) (maxSize : Nat) (s : Signed) (t : Tree)
    (σ : State) (hs : SignedWF s) (hpf : ParentsFirst s) (ht : Wharf.Archive.TInv t)
    (hr : Reach bs maxSize s (HealTS.init t) σ) : σ.status ≠ .healerError :=
  (inv_init hs ht (.inl hpf)).reach_no_healer_fail bs hbs maxSize hs.wf hpf (by simp [HealTS.init]) hr

/-- With directories listed parents-first (as `tlc.Walk` lists them) and no signed directory replaced by a symlink
    NO reachable state is failed: under no schedule does the validator stop with an error or a heal call fail.
    (Without `ParentsFirst` a directory wound can be handled while an ancestor is still a regular file, and
    `MkdirAll` fails with ENOTDIR — also in the sequential schedule.) -/
theorem heal_any_schedule_no_failure (bs : Nat) (hbs : 0 < bs) (maxSize : Nat) (s : Signed) (t : Tree)
    (σ : State) (hs : SignedWF s) (hpf : ParentsFirst s) (ht : Wharf.Archive.TInv t) (hno : NoDirSymlink s t)
    (hr : Reach bs maxSize s (HealTS.init t) σ) : σ.failed = false := by
  have := (inv_init hs ht (.inl hpf)).reach_no_fail bs hbs maxSize hs.wf hpf
    (noSymDirs_of_lstat hs.wf ht hno) rfl hr
  simp [State.failed, this]

/-- Every run ends, and with parents-first listing it ends well unless the validator itself stops with an error,
    for ANY damaged tree: a reachable state in which no transition is enabled either carries the validator's
    error, or is terminal, not failed, and its tree matches the signed build. -/
theorem heal_any_tree_any_schedule_completes (bs : Nat) (hbs : 0 < bs) (maxSize : Nat) (s : Signed) (t : Tree)
    (σ : State) (hs : SignedWF s) (hpf : ParentsFirst s) (ht : Wharf.Archive.TInv t)
    (hr : Reach bs maxSize s (HealTS.init t) σ) (hstuck : ∀ l, step bs maxSize s σ l = none) :
    σ.status = .validatorError ∨ (σ.terminal ∧ σ.failed = false ∧ C05Tree.Matches s σ.tree) := by
  have hnh := heal_any_tree_no_healer_failure bs hbs maxSize s t σ hs hpf ht hr
  cases hst : σ.status with
  | validatorError => exact .inl rfl
  | healerError => exact absurd hst hnh
  | running =>
    right
    have hok : σ.failed = false := by simp [State.failed, hst]
    have hterm : σ.terminal := by
      apply Classical.byContradiction
      intro hnt
      obtain ⟨l, σ', hl⟩ := progress bs hbs maxSize s σ hst hnt
      rw [hstuck l] at hl
      cases hl
    exact ⟨hterm, hok, heal_restores_any_tree_any_schedule bs hbs maxSize s t σ hs hpf ht hr hterm hok⟩

/-- as first stated (kept): with `NoDirSymlink` the validator cannot stop with an error either -/
theorem heal_any_schedule_completes (bs : Nat) (hbs : 0 < bs) (maxSize : Nat) (s : Signed) (t : Tree)
    (σ : State) (hs : SignedWF s) (hpf : ParentsFirst s) (ht : Wharf.Archive.TInv t) (hno : NoDirSymlink s t)
    (hr : Reach bs maxSize s (HealTS.init t) σ) (hstuck : ∀ l, step bs maxSize s σ l = none) :
    σ.terminal ∧ σ.failed = false ∧ C05Tree.Matches s σ.tree := by
  have hok := heal_any_schedule_no_failure bs hbs maxSize s t σ hs hpf ht hno hr
  rcases heal_any_tree_any_schedule_completes bs hbs maxSize s t σ hs hpf ht hr hstuck with h | h
  · simp [State.failed, h] at hok
  · exact h

/-- The sequential model is one schedule: if `validateAndHeal` returns `t'`, a terminal, non-failed state with
    tree `t'` is reachable (all validator steps with the exact verdicts, `vDone`, then every `hWound`, then
    every `hFile`).  `validateAndHeal` is what the differential harness compares with the Go code. -/
theorem sequential_is_a_schedule (bs : Nat) (hbs : 0 < bs) (maxSize : Nat) (s : Signed) (t t' : Tree)
    (h : validateAndHeal bs maxSize s t = .ok t') :
    ∃ σ, Reach bs maxSize s (HealTS.init t) σ ∧ σ.terminal ∧ σ.failed = false ∧ σ.tree = t' := by
  obtain ⟨σ, h1, h2, h3, h4⟩ := sequential_reach bs hbs maxSize s t t' h
  exact ⟨σ, h1, h2, by simp [State.failed, h3], h4⟩

/-- … and if the healer fails in the sequential model (after a validation that completed), a failed state is
    reachable: the sequential model fails only where the transition system can. -/
theorem sequential_failure_is_a_schedule (bs : Nat) (hbs : 0 < bs) (maxSize : Nat) (s : Signed) (t : Tree)
    (ws : List Wound) (hv : validate bs maxSize s t = .ok ws)
    (h : ∀ t', validateAndHeal bs maxSize s t ≠ .ok t') :
    ∃ σ, Reach bs maxSize s (HealTS.init t) σ ∧ σ.status = .healerError :=
  sequential_fail_reach bs hbs maxSize s t ws hv h

/-- The per-entry verdicts used by the transition system are those of the whole-pass model: folded over a
    tree that does not change they give `TreeValidate.validate`. -/
theorem verdicts_fold_to_validate (bs maxSize : Nat) (s : Signed) (t : Tree) :
    validate bs maxSize s t =
      (passFold (dirEntry t) 0 s.dirs).bind fun dw =>
      (passFold (fun i e => symlinkEntry t i e.1 e.2) 0 s.symlinks).bind fun sw =>
      .ok (dw ++ sw ++ filePassWounds bs maxSize t 0 s.files) :=
  validate_eq_fold bs maxSize s t

/-- Progress and termination: a state that is neither failed nor terminal has an enabled transition; every
    transition decreases the lexicographic measure (what the validator still has to do, then what the healer
    has to do); hence there is no infinite run. -/
theorem heal_schedule_progress (bs : Nat) (hbs : 0 < bs) (maxSize : Nat) (s : Signed) :
    (∀ σ : State, σ.failed = false → ¬ σ.terminal → ∃ l σ', step bs maxSize s σ l = some σ') ∧
    (∀ (σ σ' : State) (l : Label), step bs maxSize s σ l = some σ' →
      Prod.Lex (· < ·) (· < ·) (HealTS.measure s σ') (HealTS.measure s σ)) ∧
    WellFounded (fun σ' σ : State => ∃ l, step bs maxSize s σ l = some σ') := by
  refine ⟨?_, ?_, step_wf bs maxSize s⟩
  · intro σ hf hnt
    have hrun : σ.status = .running := by
      simpa [State.failed] using hf
    exact progress bs hbs maxSize s σ hrun hnt
  · intro σ σ' l hl
    exact measure_decreases (step_cases hl)

/-- (i) What is in place stays in place, ANY damaged tree, in terms of what is STORED at the signed paths: from
    any reachable state on, under any continuation of the schedule, a signed directory that is a directory
    stays one, a signed symlink / file that is as signed stays so.  (In terms of `lstat` this is false for a tree
    with a symlinked directory, and necessarily so: an entry seen healthy THROUGH the link goes away with the link
    and is healed afterwards — see `healthy_stays_healthy` for the `lstat` form under `NoDirSymlink`.) -/
theorem in_place_stays_in_place_any_tree (bs : Nat) (hbs : 0 < bs) (maxSize : Nat) (s : Signed) (t : Tree)
    (σ σ' : State) (hs : SignedWF s) (hpf : ParentsFirst s) (ht : Wharf.Archive.TInv t)
    (hr : Reach bs maxSize s (HealTS.init t) σ) (hr' : Reach bs maxSize s σ σ') :
    (∀ p ∈ s.dirs, σ.tree.get p = some .dir → σ'.tree.get p = some .dir) ∧
    (∀ e ∈ s.symlinks, σ.tree.get e.1 = some (.symlink e.2) → σ'.tree.get e.1 = some (.symlink e.2)) ∧
    (∀ e ∈ s.files, σ.tree.get e.1 = some (.file e.2) → σ'.tree.get e.1 = some (.file e.2)) := by
  have hK := (inv_reach hbs hs ht (.inl hpf) hr).reach_keeps bs hbs maxSize hs.wf hr'
  refine ⟨fun p hp h => hK.dirs p hp h, ?_, ?_⟩
  · intro e he h
    exact hK.leaves (e.1, .symlink e.2) (sym_leaf' he) h
  · intro e he h
    have hleaf : (e.1, Node.file e.2) ∈ leaves s := by
      simp only [leaves, List.mem_append, List.mem_map]
      exact .inr ⟨e, he, rfl⟩
    exact hK.leaves _ hleaf h

/-- (i) What is healthy stays healthy: from any reachable state on, under any continuation of the schedule, a
    signed directory that is a directory stays one, a signed symlink / file that is as signed stays so. -/
theorem healthy_stays_healthy (bs : Nat) (hbs : 0 < bs) (maxSize : Nat) (s : Signed) (t : Tree)
    (σ σ' : State) (hs : SignedWF s) (ht : Wharf.Archive.TInv t) (hno : NoDirSymlink s t)
    (hr : Reach bs maxSize s (HealTS.init t) σ) (hr' : Reach bs maxSize s σ σ') :
    (∀ p ∈ s.dirs, lstat σ.tree p = .ok .dir → lstat σ'.tree p = .ok .dir) ∧
    (∀ e ∈ s.symlinks, lstat σ.tree e.1 = .ok (.symlink e.2) → lstat σ'.tree e.1 = .ok (.symlink e.2)) ∧
    (∀ e ∈ s.files, lstat σ.tree e.1 = .ok (.file e.2) → lstat σ'.tree e.1 = .ok (.file e.2)) := by
  have hw := hs.wf
  have hI := inv_reach hbs hs ht (.inr hno) hr
  have hnσ : NoSymDirs s σ.tree :=
    ((inv_init hs ht (.inr hno)).reach_keeps bs hbs maxSize hw hr).nosym (noSymDirs_of_lstat hw ht hno)
  have hK := hI.reach_keeps bs hbs maxSize hw hr'
  refine ⟨?_, ?_, ?_⟩
  · intro p hp hl
    have hm := mem_allPaths_dir hp
    exact lstat_of_get hK.tinv (hw.nodd hm) (hK.dirs p hp (lstat_plain (hw.plain hnσ hm) hl).1)
  · intro e he hl
    have hleaf : (e.1, Node.symlink e.2) ∈ leaves s := by
      simp only [leaves, List.mem_append, List.mem_map]
      exact .inl ⟨e, he, rfl⟩
    have hm := leaf_mem_allPaths hleaf
    exact lstat_of_get hK.tinv (hw.nodd hm) (hK.leaves _ hleaf (lstat_plain (hw.plain hnσ hm) hl).1)
  · intro e he hl
    have hleaf : (e.1, Node.file e.2) ∈ leaves s := by
      simp only [leaves, List.mem_append, List.mem_map]
      exact .inr ⟨e, he, rfl⟩
    have hm := leaf_mem_allPaths hleaf
    exact lstat_of_get hK.tinv (hw.nodd hm) (hK.leaves _ hleaf (lstat_plain (hw.plain hnσ hm) hl).1)

/-- some signed directory strictly above `p` is a symlink in `t` (what the validator sees at `p` is seen through
    that link) -/
def BelowLink (s : Signed) (t : Tree) (p : Path) : Prop :=
  ∃ a ∈ s.dirs, isPrefix a p = true ∧ ∃ x, lstat t a = .ok (.symlink x)

theorem belowLink_of_linked {s : Signed} (hs : SignedWF s) {t : Tree} (hI : Wharf.Archive.TInv t) {p : Path}
    (hp : p ∈ Heal.allPaths s) (h : Linked t p) : BelowLink s t p := by
  obtain ⟨a, ha, hap, ⟨x, hx⟩, _⟩ := h.top hs.wf hI hp
  exact ⟨a, ha, hap, x, lstat_of_get hI (hs.wf.nodd (mem_allPaths_dir ha)) hx⟩

/-- (ii) Nothing the validator has inspected is forgotten, ANY damaged tree: in every reachable state, an entry the
    validator has passed is as signed, or its wound is still in the channel, or (a file) its index is queued
    and not yet rewritten, or it lies below a signed directory that is still a symlink — whose own wound is then
    still in the channel (first conjunct, applied to that directory, which lies below no link itself) and whose
    healing will heal the entry (`healBelow`).  Together with termination this is "every wounded entry is
    eventually healed".  Fourth conjunct: a file is queued only when its parent directory is in place (the healing
    goroutine never writes through a link, never fails on a missing parent). -/
theorem inspected_entries_accounted_any_tree (bs : Nat) (hbs : 0 < bs) (maxSize : Nat) (s : Signed) (t : Tree)
    (σ : State) (hs : SignedWF s) (hpf : ParentsFirst s) (ht : Wharf.Archive.TInv t)
    (hr : Reach bs maxSize s (HealTS.init t) σ) :
    (∀ j p, s.dirs[j]? = some p → j < σ.dirPos →
      lstat σ.tree p = .ok .dir ∨ (∃ w ∈ σ.chan, w.kind = .dir ∧ w.index = j) ∨ BelowLink s σ.tree p) ∧
    (∀ j p d, s.symlinks[j]? = some (p, d) → j < σ.symPos →
      lstat σ.tree p = .ok (.symlink d) ∨ (∃ w ∈ σ.chan, w.kind = .symlink ∧ w.index = j) ∨
        BelowLink s σ.tree p) ∧
    (∀ j p S, s.files[j]? = some (p, S) → j < σ.filePos →
      lstat σ.tree p = .ok (.file S) ∨ (∃ w ∈ σ.chan, w.kind = .file ∧ w.index = j) ∨
        j ∈ σ.queue.drop σ.healed ∨ BelowLink s σ.tree p) ∧
    (∀ i ∈ σ.queue, ∃ p S, s.files[i]? = some (p, S) ∧ lstat σ.tree p.dropLast = .ok .dir) := by
  have hw := hs.wf
  have hI := inv_reach hbs hs ht (.inl hpf) hr
  refine ⟨?_, ?_, ?_, ?_⟩
  · intro j p hj hlt
    have hm := mem_allPaths_dir (List.mem_of_getElem? hj)
    rcases hI.dirs j p hj hlt with h | h | h
    · exact .inl (lstat_of_get hI.tinv (hw.nodd hm) h)
    · exact .inr (.inl h)
    · exact .inr (.inr (belowLink_of_linked hs hI.tinv hm h))
  · intro j p d hj hlt
    have hm := leaf_mem_allPaths (sym_leaf hj)
    rcases hI.syms j (p, d) hj hlt with h | h | h
    · exact .inl (lstat_of_get hI.tinv (hw.nodd hm) h)
    · exact .inr (.inl h)
    · exact .inr (.inr (belowLink_of_linked hs hI.tinv hm h))
  · intro j p S hj hlt
    have hm := leaf_mem_allPaths (file_leaf hj)
    rcases hI.files j (p, S) hj hlt with h | h | h | h
    · exact .inl (lstat_of_get hI.tinv (hw.nodd hm) h)
    · exact .inr (.inl h)
    · exact .inr (.inr (.inl h))
    · exact .inr (.inr (.inr (belowLink_of_linked hs hI.tinv hm h)))
  · intro i hi
    obtain ⟨e, he, hpar⟩ := hI.queueReady i hi
    refine ⟨e.1, e.2, he, lstat_of_get hI.tinv ?_ hpar⟩
    intro hdd
    exact hw.nodd (leaf_mem_allPaths (file_leaf he)) (Wharf.Archive.mem_of_mem_dropLast hdd)

/-- (ii) as first stated, under `NoDirSymlink` — first three conjuncts unchanged (nothing is ever seen through a
    link).

    The fourth conjunct CHANGED with the repair of F15.  It used to read `∀ i ∈ σ.queue, i < σ.filePos` ("a file is
    queued only after the validator has sent a wound for it"), which is FALSE for the fixed code, and deliberately
    so: a directory wound whose directory had been replaced by something else (here, `NoDirSymlink`: by a regular
    file) queues every file below it at once — `queued_before_inspected` below: schedule `[vDir, hWound]` on
    `exWrecked` gives `queue = [0]` while `filePos = 0`.  What is true, and what matters for the healing goroutine:
    a file is queued only when its parent directory is in place. -/
theorem inspected_entries_accounted (bs : Nat) (hbs : 0 < bs) (maxSize : Nat) (s : Signed) (t : Tree)
    (σ : State) (hs : SignedWF s) (ht : Wharf.Archive.TInv t) (hno : NoDirSymlink s t)
    (hr : Reach bs maxSize s (HealTS.init t) σ) :
    (∀ j p, s.dirs[j]? = some p → j < σ.dirPos →
      lstat σ.tree p = .ok .dir ∨ ∃ w ∈ σ.chan, w.kind = .dir ∧ w.index = j) ∧
    (∀ j p d, s.symlinks[j]? = some (p, d) → j < σ.symPos →
      lstat σ.tree p = .ok (.symlink d) ∨ ∃ w ∈ σ.chan, w.kind = .symlink ∧ w.index = j) ∧
    (∀ j p S, s.files[j]? = some (p, S) → j < σ.filePos →
      lstat σ.tree p = .ok (.file S) ∨ (∃ w ∈ σ.chan, w.kind = .file ∧ w.index = j) ∨
        j ∈ σ.queue.drop σ.healed) ∧
    (∀ i ∈ σ.queue, ∃ p S, s.files[i]? = some (p, S) ∧ lstat σ.tree p.dropLast = .ok .dir) := by
  have hw := hs.wf
  have hI := inv_reach hbs hs ht (.inr hno) hr
  have hnσ : NoSymDirs s σ.tree :=
    ((inv_init hs ht (.inr hno)).reach_keeps bs hbs maxSize hw hr).nosym (noSymDirs_of_lstat hw ht hno)
  refine ⟨?_, ?_, ?_, ?_⟩
  · intro j p hj hlt
    have hm := mem_allPaths_dir (List.mem_of_getElem? hj)
    rcases hI.dirs j p hj hlt with h | h | h
    · exact .inl (lstat_of_get hI.tinv (hw.nodd hm) h)
    · exact .inr h
    · exact absurd h (not_linked_of_nosym hw hnσ hm)
  · intro j p d hj hlt
    have hm := leaf_mem_allPaths (sym_leaf hj)
    rcases hI.syms j (p, d) hj hlt with h | h | h
    · exact .inl (lstat_of_get hI.tinv (hw.nodd hm) h)
    · exact .inr h
    · exact absurd h (not_linked_of_nosym hw hnσ hm)
  · intro j p S hj hlt
    have hm := leaf_mem_allPaths (file_leaf hj)
    rcases hI.files j (p, S) hj hlt with h | h | h | h
    · exact .inl (lstat_of_get hI.tinv (hw.nodd hm) h)
    · exact .inr (.inl h)
    · exact .inr (.inr h)
    · exact absurd h (not_linked_of_nosym hw hnσ hm)
  · intro i hi
    obtain ⟨e, he, hpar⟩ := hI.queueReady i hi
    refine ⟨e.1, e.2, he, lstat_of_get hI.tinv ?_ hpar⟩
    intro hdd
    exact hw.nodd (leaf_mem_allPaths (file_leaf he)) (Wharf.Archive.mem_of_mem_dropLast hdd)

/-- (iii) What is STORED at the signed paths changes only by healing, ANY damaged tree: in every reachable state,
    a file entry that has not been rewritten holds what it held in `t`; a symlink entry not yet inspected holds
    what it held in `t` or is as signed already (`healBelow`); a directory entry not yet inspected holds what it
    held in `t` or is a directory already.  (The VERDICT on an entry below a symlinked directory does change when
    the link is replaced — from whatever was seen through the link to "missing" — which is exactly why `healBelow`
    heals everything below it; for entries that lie below no link, see `verdict_on_untouched_entry`.) -/
theorem stored_on_untouched_entry_any_tree (bs : Nat) (hbs : 0 < bs) (maxSize : Nat) (s : Signed) (t : Tree)
    (σ : State) (hs : SignedWF s) (hpf : ParentsFirst s) (ht : Wharf.Archive.TInv t)
    (hr : Reach bs maxSize s (HealTS.init t) σ) :
    (∀ j p, s.dirs[j]? = some p → σ.dirPos ≤ j → σ.tree.get p = t.get p ∨ σ.tree.get p = some .dir) ∧
    (∀ j p d, s.symlinks[j]? = some (p, d) → σ.symPos ≤ j →
      σ.tree.get p = t.get p ∨ σ.tree.get p = some (.symlink d)) ∧
    (∀ j p S, s.files[j]? = some (p, S) → j ∉ σ.queue.take σ.healed → σ.tree.get p = t.get p) := by
  have hU := Untouched.reach bs hbs maxSize hs.wf (inv_init hs ht (.inl hpf)) hr
  exact ⟨fun j p hj hle => hU.dirs j p hj hle, fun j p d hj hle => hU.syms j (p, d) hj hle,
    fun j p S hj hnm => hU.files j (p, S) hj hnm⟩

/-- (iii) The validator's verdict on an entry no heal step has touched is its verdict on the initial tree: in
    every reachable state, a file entry not yet rewritten gets the verdict it would have got on `t`; a symlink
    entry not yet inspected gets the verdict it would have got on `t`, or "healthy"; a directory entry not yet
    inspected gets the verdict it would have got on `t`, or "healthy" (an `MkdirAll` for a deeper directory, or
    `healBelow`, has created it meanwhile).  In particular the file the validator is reading does not change
    under its feet until the healing goroutine rewrites that very file — which is what makes the atomic `vFile`
    step sound (see `Wharf.HealTS.admissible`).

    The second conjunct CHANGED with the repair of F15 (the alternative "or healthy" is new): a symlink below a
    directory that had been replaced (here, `NoDirSymlink`: by a regular file) is put in place by `healBelow`,
    possibly before the validator reaches it — `symlink_healed_before_inspected` below.  The former statement
    (`symlinkEntry σ.tree j p d = symlinkEntry t j p d`) is false for the fixed code. -/
theorem verdict_on_untouched_entry (bs : Nat) (hbs : 0 < bs) (maxSize : Nat) (s : Signed) (t : Tree)
    (σ : State) (hs : SignedWF s) (ht : Wharf.Archive.TInv t) (hno : NoDirSymlink s t)
    (hr : Reach bs maxSize s (HealTS.init t) σ) :
    (∀ j p, s.dirs[j]? = some p → σ.dirPos ≤ j →
      dirEntry σ.tree j p = dirEntry t j p ∨ dirEntry σ.tree j p = .ok []) ∧
    (∀ j p d, s.symlinks[j]? = some (p, d) → σ.symPos ≤ j →
      symlinkEntry σ.tree j p d = symlinkEntry t j p d ∨ symlinkEntry σ.tree j p d = .ok []) ∧
    (∀ j p S, s.files[j]? = some (p, S) → j ∉ σ.queue.take σ.healed →
      fileEntry bs maxSize σ.tree j p S = fileEntry bs maxSize t j p S) := by
  have hw := hs.wf
  have hn := noSymDirs_of_lstat hw ht hno
  have hI0 := inv_init hs ht (.inr hno)
  have hI := hI0.reach bs hbs maxSize hw hr
  have hnσ : NoSymDirs s σ.tree := (hI0.reach_keeps bs hbs maxSize hw hr).nosym hn
  have hU := Untouched.reach bs hbs maxSize hw hI0 hr
  refine ⟨?_, ?_, ?_⟩
  · intro j p hj hle
    have hm := mem_allPaths_dir (List.mem_of_getElem? hj)
    rcases hU.dirs j p hj hle with h | h
    · exact .inl (dirEntry_eq_of_get ht hI.tinv (hw.plain hn hm) (hw.plain hnσ hm) h j)
    · right
      rw [dirEntry_of_get hI.tinv (hw.plain hnσ hm), show σ.tree.get p = some .dir from h]
  · intro j p d hj hle
    have hm := leaf_mem_allPaths (sym_leaf hj)
    rcases hU.syms j (p, d) hj hle with h | h
    · exact .inl (symlinkEntry_eq_of_get ht hI.tinv (hw.plain hn hm) (hw.plain hnσ hm) h j d)
    · right
      rw [symlinkEntry_of_get hI.tinv (hw.plain hnσ hm), show σ.tree.get p = some (.symlink d) from h]
      simp
  · intro j p S hj hnm
    have hm := leaf_mem_allPaths (file_leaf hj)
    exact fileEntry_eq_of_get bs maxSize ht hI.tinv (hw.plain hn hm) (hw.plain hnσ hm)
      (hU.files j (p, S) hj hnm) j S

/-! ### non-vacuity: explicit schedules on the wrecked example of C06.lean

  `C05Tree.exSigned`: directory `a`, symlink `l → a/f`, file `a/f = [1,2,3]`.  `exWrecked`: a regular file at `a`,
  a non-empty directory at `l`, `a/f` missing, an unrelated file `junk`.  (Its hypotheses `SignedWF`, `TInv`,
  `NoDirSymlink`, `ParentsFirst` are checked in Props/C06Restore.lean.) -/

/-- validator first: the three passes, `close(Wounds)`, then the healer drains the channel, then the file is
    rewritten — the schedule of `validateAndHeal` -/
def schedValidatorFirst : List Label :=
  [.vDir, .vSymlink, .vFile [⟨.file, 0, 0, 3⟩], .vDone, .hWound, .hWound, .hWound, .hFile]

/-- healer eager: every wound is received and healed before the validator's next step; the validator sees
    the repaired directory `a` when it looks for `a/f` -/
def schedHealerEager : List Label :=
  [.vDir, .hWound, .vSymlink, .hWound, .vFile [⟨.file, 0, 0, 3⟩], .hWound, .hFile, .vDone]

example : (match run 2 100 C05Tree.exSigned (HealTS.init exWrecked) schedValidatorFirst with
      | some σ => (decide σ.terminal && !σ.failed, σ.tree.entries)
      | none => (false, []))
    = (true, [(["junk"], .file []), (["a"], .dir), (["l"], .symlink "a/f"), (["a", "f"], .file [1, 2, 3])]) := by
  decide

example : (match run 2 100 C05Tree.exSigned (HealTS.init exWrecked) schedHealerEager with
      | some σ => (decide σ.terminal && !σ.failed, σ.tree.entries)
      | none => (false, []))
    = (true, [(["junk"], .file []), (["a"], .dir), (["l"], .symlink "a/f"), (["a", "f"], .file [1, 2, 3])]) := by
  decide

/-- both final trees validate (so they match the signed build, `C05Tree.verdict_iff`) -/
example : (match run 2 100 C05Tree.exSigned (HealTS.init exWrecked) schedValidatorFirst with
      | some σ => failFastOk 2 100 C05Tree.exSigned σ.tree | none => false) = true := by decide

example : (match run 2 100 C05Tree.exSigned (HealTS.init exWrecked) schedHealerEager with
      | some σ => failFastOk 2 100 C05Tree.exSigned σ.tree | none => false) = true := by decide

/-- the two schedules differ in what the validator saw: in the eager one the directory `a` is already healed when
    the symlink is inspected (intermediate trees differ), yet both are runs of the system -/
example : ∃ σ, Reach 2 100 C05Tree.exSigned (HealTS.init exWrecked) σ ∧ σ.terminal ∧ σ.failed = false := by
  cases h : run 2 100 C05Tree.exSigned (HealTS.init exWrecked) schedHealerEager with
  | none => exact absurd h (by decide)
  | some σ =>
    refine ⟨σ, reach_of_run _ _ _ .refl h, ?_, ?_⟩
    · have : (match run 2 100 C05Tree.exSigned (HealTS.init exWrecked) schedHealerEager with
          | some σ => decide σ.terminal | none => false) = true := by decide
      rw [h] at this
      exact of_decide_eq_true this
    · have : (match run 2 100 C05Tree.exSigned (HealTS.init exWrecked) schedHealerEager with
          | some σ => σ.failed | none => true) = false := by decide
      rw [h] at this
      exact this

/-- A racy verdict: on `C05Tree.exDamaged` (symlink missing, `a/f = [1,9,3]`) the undisturbed verdict for the
    file is `[file 0..2, healthy 2..3]`; here the validator reports the second block as broken too (as if the
    file had been truncated under it), the file is rewritten while a second wound is still in the channel, and
    that wound is then ignored (`files[wound.Index]` is set). -/
def schedRacy : List Label :=
  [.vDir, .vSymlink, .vFile [⟨.file, 0, 0, 2⟩, ⟨.file, 0, 2, 3⟩], .hWound, .hWound, .hFile, .hWound, .vDone]

example : (match run 2 100 C05Tree.exSigned (HealTS.init C05Tree.exDamaged) schedRacy with
      | some σ => (decide σ.terminal && !σ.failed, σ.queue, σ.tree.entries)
      | none => (false, [], []))
    = (true, [0], [(["a"], .dir), (["l"], .symlink "a/f"), (["a", "f"], .file [1, 2, 3])]) := by decide

/-- … whereas an all-healthy verdict for that damaged file is not allowed (the first real wound is found before
    anyone can have repaired the file), nor a wound carrying another file's index. -/
example : (run 2 100 C05Tree.exSigned (HealTS.init C05Tree.exDamaged)
      [.vDir, .vSymlink, .vFile [⟨.closedFile, 0, 0, 2⟩, ⟨.closedFile, 0, 2, 3⟩]]).isNone = true := by decide

example : (run 2 100 C05Tree.exSigned (HealTS.init C05Tree.exDamaged)
      [.vDir, .vSymlink, .vFile [⟨.file, 1, 0, 2⟩]]).isNone = true := by decide

/-- Without parents-first listing a run can fail (`MkdirAll a/b` while `a` is still a regular file): the
    hypothesis of `heal_any_schedule_no_failure` is needed. -/
example : (match run 2 100 { dirs := [["a", "b"], ["a"]] } (HealTS.init { entries := [(["a"], .file [7])] })
      [.vDir, .hWound] with
      | some σ => σ.failed | none => false) = true := by decide

/-! ### the changed statements: instances; the F15 instance under explicit schedules -/

/-- Behind the CHANGED fourth conjunct of `inspected_entries_accounted`: on `exWrecked` (a regular file stands at
    the signed directory `a`) the schedule `[vDir, hWound]` leaves file 0 (`a/f`) queued while the validator has
    not inspected any file yet — `healBelow("a")` queued it. -/
theorem queued_before_inspected :
    (match run 2 100 C05Tree.exSigned (HealTS.init exWrecked) [.vDir, .hWound] with
     | some σ => (σ.queue, σ.filePos) | none => ([], 1)) = ([0], 0) := by decide

/-- a signed symlink below a signed directory -/
def exSymBelow : Signed := { dirs := [["a"]], symlinks := [(["a", "l"], "x")] }

/-- Behind the CHANGED second conjunct of `verdict_on_untouched_entry`: a regular file stands at `a`; after
    `[vDir, hWound]` the symlink `a/l`, which the validator has not inspected yet, is in place already
    (`healBelow("a")`), so its verdict is "healthy", whereas on the initial tree it is a wound. -/
theorem symlink_healed_before_inspected :
    (match run 2 100 exSymBelow (HealTS.init { entries := [(["a"], .file [7])] }) [.vDir, .hWound] with
     | some σ => (σ.symPos, match symlinkEntry σ.tree 0 ["a", "l"] "x" with | .ok ws => some ws | _ => none)
     | none => (1, none)) = (0, some []) ∧
    (match symlinkEntry { entries := [(["a"], .file [7])] } 0 ["a", "l"] "x" with
     | .ok ws => some ws | _ => none) = some [⟨.symlink, 0, 0, 0⟩] := by
  decide

/-- F15 (`exF15Signed` / `exF15Tree`: `a` is a symlink to the moved copy `b`), healer eager: the directory wound is
    handled before the validator looks at `a/f`; the link is gone by then, the validator finds `a/f` missing and
    sends a wound for a file that `healBelow` has queued already (ignored: `files[0]` is set). -/
def schedF15Eager : List Label :=
  [.vDir, .hWound, .vFile [⟨.file, 0, 0, 3⟩], .hWound, .hFile, .vDone]

/-- F15, the file rewritten BEFORE the validator reaches it: the validator then finds it healthy. -/
def schedF15Early : List Label :=
  [.vDir, .hWound, .hFile, .vFile [⟨.closedFile, 0, 0, 2⟩, ⟨.closedFile, 0, 2, 3⟩], .vDone, .hWound, .hWound]

example : (match run 2 100 exF15Signed (HealTS.init exF15Tree) schedF15Eager with
      | some σ => (decide σ.terminal && !σ.failed, σ.queue, σ.tree.entries, failFastOk 2 100 exF15Signed σ.tree)
      | none => (false, [], [], false))
    = (true, [0], [(["b"], .dir), (["b", "f"], .file [1, 2, 3]), (["a"], .dir), (["a", "f"], .file [1, 2, 3])],
       true) := by
  decide

example : (match run 2 100 exF15Signed (HealTS.init exF15Tree) schedF15Early with
      | some σ => (decide σ.terminal && !σ.failed, σ.queue, σ.tree.entries, failFastOk 2 100 exF15Signed σ.tree)
      | none => (false, [], [], false))
    = (true, [0], [(["b"], .dir), (["b", "f"], .file [1, 2, 3]), (["a"], .dir), (["a", "f"], .file [1, 2, 3])],
       true) := by
  decide

/-- (The validator-first schedule on this instance is `f15_heals`, Props/C06Restore.lean, through
    `sequential_is_a_schedule`; it cannot be evaluated by `decide` because the validator resolves `a/f` through
    the link — `String.splitOn`.)  The hypotheses of the any-tree theorems hold for the F15 instance: -/
example : SignedWF exF15Signed ∧ ParentsFirst exF15Signed ∧ Wharf.Archive.TInv exF15Tree ∧
    ¬ NoDirSymlink exF15Signed exF15Tree := by
  refine ⟨⟨by decide, by decide, ?_⟩, ?_, ⟨by decide, by decide, ?_⟩, ?_⟩
  · intro p hp j hj1 hj2
    simp only [allPaths, exF15Signed, List.map_cons, List.map_nil, List.cons_append, List.nil_append,
      List.mem_cons, List.not_mem_nil, or_false] at hp
    rcases hp with rfl | rfl
    · simp at hj2; omega
    · have : j = 1 := by simp at hj2; omega
      subst this; decide
  · intro i h j hj1 hj2
    simp only [exF15Signed, List.length_cons, List.length_nil] at h
    have : i = 0 := by omega
    subst this
    simp [exF15Signed] at hj2; omega
  · unfold Wharf.Archive.IsDir; decide
  · intro h
    exact h ["a"] (by decide) "b" (by rfl)

end Wharf.C06
