/-
  C06 under EVERY schedule — healing restores the signed build whatever the interleaving of the validator
  (`Validate`: directory pass, symlink pass, per-file pass) with the healer (`ArchiveHealer.Do` receiving
  wounds, the `heal` goroutine rewriting queued files), including a file being rewritten while the
  validator is still reading it.  Model: Wharf/Model/HealTS.lean (transition system `Wharf.HealTS.step`,
  racy file verdict `Wharf.HealTS.admissible`); helper lemmas and the invariant: Wharf/Proofs/HealTS.lean.
  Property theorems only.

  Hypotheses are those of `heal_restores` (Props/C06Restore.lean): `SignedWF s`, `TInv t`, `NoDirSymlink s t`
  (finding F15 stays excluded), `0 < bs`.  No interleaving was found — and none exists in the model — that
  breaks restoration under these hypotheses.  Why: the validator sends directory wounds, then symlink
  wounds, then file wounds, into a FIFO channel and the healer handles them in that order, so whenever a
  symlink or file is healed every signed directory is already in place; every heal step keeps every signed
  entry that is already as signed, and keeps "no signed directory is a symlink"; so an entry found healthy
  stays healthy, an entry found wounded has its wound in the channel (or its file index in the queue) until
  it is healed, and a file can only be rewritten after the validator has sent a real wound for it.

  The tie to the real code: `sequential_is_a_schedule` — the run of `validateAndHeal`, which the differential
  harness compares with the Go implementation, is one of the runs of this transition system.
-/
import Wharf.Model.HealTS
import Wharf.Proofs.HealTS
import Wharf.Props.C06Restore

namespace Wharf.C06
open Wharf Wharf.FS Wharf.Validate Wharf.TreeValidate Wharf.Heal Wharf.HealTS

/-- C06 under any schedule: in EVERY terminal, non-failed state reachable from the damaged tree `t` — for every
    interleaving of validator steps, wound receptions and file rewrites, and every admissible racy file
    verdict — the tree matches the signed build. -/
theorem heal_restores_any_schedule (bs : Nat) (hbs : 0 < bs) (maxSize : Nat) (s : Signed) (t : Tree)
    (σ : State) (hs : SignedWF s) (ht : Wharf.Archive.TInv t) (hno : NoDirSymlink s t)
    (hr : Reach bs maxSize s (HealTS.init t) σ) (hterm : σ.terminal) (_hok : σ.failed = false) :
    C05Tree.Matches s σ.tree := by
  have hw : WF s := ⟨hs.clean, hs.distinct, hs.parents⟩
  have hI := (Inv.init ht (noSymDirs_of_lstat hw ht hno)).reach bs hbs maxSize hw hr
  obtain ⟨hA, hleaf⟩ := hI.terminal hterm
  refine ⟨?_, ?_, ?_⟩
  · intro p hp
    exact lstat_of_get hI.tinv (hw.nodd (mem_allPaths_dir hp)) (hA p hp)
  · intro e he
    have hl : (e.1, Node.symlink e.2) ∈ leaves s := by
      simp only [leaves, List.mem_append, List.mem_map]
      exact .inl ⟨e, he, rfl⟩
    exact lstat_of_get hI.tinv (hw.nodd (leaf_mem_allPaths hl)) (hleaf _ hl)
  · intro e he
    have hl : (e.1, Node.file e.2) ∈ leaves s := by
      simp only [leaves, List.mem_append, List.mem_map]
      exact .inr ⟨e, he, rfl⟩
    exact lstat_of_get hI.tinv (hw.nodd (leaf_mem_allPaths hl)) (hleaf _ hl)

/-- … and therefore a second, fail-fast validation of the healed tree succeeds, under any schedule. -/
theorem heal_then_valid_any_schedule (bs : Nat) (hbs : 0 < bs) (maxSize : Nat) (s : Signed) (t : Tree)
    (σ : State) (hs : SignedWF s) (ht : Wharf.Archive.TInv t) (hno : NoDirSymlink s t)
    (hr : Reach bs maxSize s (HealTS.init t) σ) (hterm : σ.terminal) (hok : σ.failed = false) :
    failFastOk bs maxSize s σ.tree = true :=
  (C05Tree.verdict_iff bs hbs maxSize s σ.tree).mpr
    (heal_restores_any_schedule bs hbs maxSize s t σ hs ht hno hr hterm hok)

/-- Under any schedule, in EVERY reachable state (terminal or not, failed or not): a path that is neither a
    signed path, nor below one, nor an ancestor of one, holds what it held at the start.  (A failed state of the
    model carries the tree as it was before the failing call.) -/
theorem heal_any_schedule_unrelated (bs : Nat) (hbs : 0 < bs) (maxSize : Nat) (s : Signed) (t : Tree)
    (σ : State) (hs : SignedWF s) (ht : Wharf.Archive.TInv t) (hno : NoDirSymlink s t)
    (hr : Reach bs maxSize s (HealTS.init t) σ) (q : Path)
    (hq : ∀ p ∈ allPaths s, p ≠ q ∧ ¬ isPrefix p q ∧ ¬ isPrefix q p) : σ.tree.get q = t.get q := by
  have hw : WF s := ⟨hs.clean, hs.distinct, hs.parents⟩
  have hK := (Inv.init ht (noSymDirs_of_lstat hw ht hno)).reach_keeps bs hbs maxSize hw hr
  apply hK.unrelated q
  intro p hp
  obtain ⟨h1, h2, h3⟩ := hq p hp
  exact ⟨h1, by simpa using h2, by simpa using h3⟩

/-- With directories listed parents-first (as `tlc.Walk` lists them) NO reachable state is failed: under no
    schedule does the validator stop with an error or a heal call (`Lstat`/`Remove`/`MkdirAll`/`Symlink`/
    whole-file rewrite) fail.  (Without `ParentsFirst` a directory wound can be handled while an ancestor is
    still a regular file, and `MkdirAll` fails with ENOTDIR — also in the sequential schedule.) -/
theorem heal_any_schedule_no_failure (bs : Nat) (hbs : 0 < bs) (maxSize : Nat) (s : Signed) (t : Tree)
    (σ : State) (hs : SignedWF s) (hpf : ParentsFirst s) (ht : Wharf.Archive.TInv t) (hno : NoDirSymlink s t)
    (hr : Reach bs maxSize s (HealTS.init t) σ) : σ.failed = false := by
  have hw : WF s := ⟨hs.clean, hs.distinct, hs.parents⟩
  have := (Inv.init ht (noSymDirs_of_lstat hw ht hno)).reach_no_fail bs hbs maxSize hw hpf rfl hr
  simp [State.failed, this]

/-- Every run ends, and with parents-first listing it ends well: a reachable state in which no transition is
    enabled is terminal, not failed, and its tree matches the signed build. -/
theorem heal_any_schedule_completes (bs : Nat) (hbs : 0 < bs) (maxSize : Nat) (s : Signed) (t : Tree)
    (σ : State) (hs : SignedWF s) (hpf : ParentsFirst s) (ht : Wharf.Archive.TInv t) (hno : NoDirSymlink s t)
    (hr : Reach bs maxSize s (HealTS.init t) σ) (hstuck : ∀ l, step bs maxSize s σ l = none) :
    σ.terminal ∧ σ.failed = false ∧ C05Tree.Matches s σ.tree := by
  have hw : WF s := ⟨hs.clean, hs.distinct, hs.parents⟩
  have hrun := (Inv.init ht (noSymDirs_of_lstat hw ht hno)).reach_no_fail bs hbs maxSize hw hpf rfl hr
  have hok := heal_any_schedule_no_failure bs hbs maxSize s t σ hs hpf ht hno hr
  have hterm : σ.terminal := by
    apply Classical.byContradiction
    intro hnt
    obtain ⟨l, σ', hl⟩ := progress bs hbs maxSize s σ hrun hnt
    rw [hstuck l] at hl
    cases hl
  exact ⟨hterm, hok, heal_restores_any_schedule bs hbs maxSize s t σ hs ht hno hr hterm hok⟩

/-- The sequential model is one schedule: if `validateAndHeal` returns `t'`, a terminal, non-failed state with
    tree `t'` is reachable (all validator steps with the exact verdicts, `vDone`, then every `hWound`, then
    every `hFile`).  `validateAndHeal` is what the differential harness compares with the Go code. -/
theorem sequential_is_a_schedule (bs : Nat) (hbs : 0 < bs) (maxSize : Nat) (s : Signed) (t t' : Tree)
    (h : validateAndHeal bs maxSize s t = .ok t') :
    ∃ σ, Reach bs maxSize s (HealTS.init t) σ ∧ σ.terminal ∧ σ.failed = false ∧ σ.tree = t' := by
  obtain ⟨σ, h1, h2, h3, h4⟩ := sequential_reach bs hbs maxSize s t t' h
  exact ⟨σ, h1, h2, by simp [State.failed, h3], h4⟩

/-- The per-entry verdicts used by the transition system are those of the whole-pass model: folded over a
    tree that does not change they give `TreeValidate.validate`. -/
theorem verdicts_fold_to_validate (bs maxSize : Nat) (s : Signed) (t : Tree) :
    validate bs maxSize s t =
      (passFold (dirEntry t) 0 s.dirs).bind fun dw =>
      (passFold (fun i e => symlinkEntry t i e.1 e.2) 0 s.symlinks).bind fun sw =>
      .ok (dw ++ sw ++ filePassWounds bs maxSize t 0 s.files) :=
  validate_eq_fold bs maxSize s t

/-- Progress and termination: a state that is neither failed nor terminal has an enabled transition; every
    transition decreases the lexicographic measure (what the validator still has to do, then what the healer
    has to do); hence there is no infinite run. -/
theorem heal_schedule_progress (bs : Nat) (hbs : 0 < bs) (maxSize : Nat) (s : Signed) :
    (∀ σ : State, σ.failed = false → ¬ σ.terminal → ∃ l σ', step bs maxSize s σ l = some σ') ∧
    (∀ (σ σ' : State) (l : Label), step bs maxSize s σ l = some σ' →
      Prod.Lex (· < ·) (· < ·) (HealTS.measure s σ') (HealTS.measure s σ)) ∧
    WellFounded (fun σ' σ : State => ∃ l, step bs maxSize s σ l = some σ') := by
  refine ⟨?_, ?_, step_wf bs maxSize s⟩
  · intro σ hf hnt
    have hrun : σ.status = .running := by
      simpa [State.failed] using hf
    exact progress bs hbs maxSize s σ hrun hnt
  · intro σ σ' l hl
    exact measure_decreases (step_cases hl)

/-- (i) What is healthy stays healthy: from any reachable state on, under any continuation of the schedule, a
    signed directory that is a directory stays one, a signed symlink / file that is as signed stays so. -/
theorem healthy_stays_healthy (bs : Nat) (hbs : 0 < bs) (maxSize : Nat) (s : Signed) (t : Tree)
    (σ σ' : State) (hs : SignedWF s) (ht : Wharf.Archive.TInv t) (hno : NoDirSymlink s t)
    (hr : Reach bs maxSize s (HealTS.init t) σ) (hr' : Reach bs maxSize s σ σ') :
    (∀ p ∈ s.dirs, lstat σ.tree p = .ok .dir → lstat σ'.tree p = .ok .dir) ∧
    (∀ e ∈ s.symlinks, lstat σ.tree e.1 = .ok (.symlink e.2) → lstat σ'.tree e.1 = .ok (.symlink e.2)) ∧
    (∀ e ∈ s.files, lstat σ.tree e.1 = .ok (.file e.2) → lstat σ'.tree e.1 = .ok (.file e.2)) := by
  have hw : WF s := ⟨hs.clean, hs.distinct, hs.parents⟩
  have hI := (Inv.init ht (noSymDirs_of_lstat hw ht hno)).reach bs hbs maxSize hw hr
  have hK := hI.reach_keeps bs hbs maxSize hw hr'
  refine ⟨?_, ?_, ?_⟩
  · intro p hp hl
    have hm := mem_allPaths_dir hp
    exact lstat_of_get hK.tinv (hw.nodd hm) (hK.dirs p hp (lstat_plain (hw.plain hI.nosym hm) hl).1)
  · intro e he hl
    have hleaf : (e.1, Node.symlink e.2) ∈ leaves s := by
      simp only [leaves, List.mem_append, List.mem_map]
      exact .inl ⟨e, he, rfl⟩
    have hm := leaf_mem_allPaths hleaf
    exact lstat_of_get hK.tinv (hw.nodd hm) (hK.leaves _ hleaf (lstat_plain (hw.plain hI.nosym hm) hl).1)
  · intro e he hl
    have hleaf : (e.1, Node.file e.2) ∈ leaves s := by
      simp only [leaves, List.mem_append, List.mem_map]
      exact .inr ⟨e, he, rfl⟩
    have hm := leaf_mem_allPaths hleaf
    exact lstat_of_get hK.tinv (hw.nodd hm) (hK.leaves _ hleaf (lstat_plain (hw.plain hI.nosym hm) hl).1)

/-- (ii) Nothing the validator has inspected is forgotten: in every reachable state, an entry the validator has
    passed is as signed, or its wound is still in the channel, or (a file) its index is queued and not yet
    rewritten.  Together with termination this is "every wounded entry is eventually healed". -/
theorem inspected_entries_accounted (bs : Nat) (hbs : 0 < bs) (maxSize : Nat) (s : Signed) (t : Tree)
    (σ : State) (hs : SignedWF s) (ht : Wharf.Archive.TInv t) (hno : NoDirSymlink s t)
    (hr : Reach bs maxSize s (HealTS.init t) σ) :
    (∀ j p, s.dirs[j]? = some p → j < σ.dirPos →
      lstat σ.tree p = .ok .dir ∨ ∃ w ∈ σ.chan, w.kind = .dir ∧ w.index = j) ∧
    (∀ j p d, s.symlinks[j]? = some (p, d) → j < σ.symPos →
      lstat σ.tree p = .ok (.symlink d) ∨ ∃ w ∈ σ.chan, w.kind = .symlink ∧ w.index = j) ∧
    (∀ j p S, s.files[j]? = some (p, S) → j < σ.filePos →
      lstat σ.tree p = .ok (.file S) ∨ (∃ w ∈ σ.chan, w.kind = .file ∧ w.index = j) ∨
        j ∈ σ.queue.drop σ.healed) ∧
    (∀ i ∈ σ.queue, i < σ.filePos) := by
  have hw : WF s := ⟨hs.clean, hs.distinct, hs.parents⟩
  have hI := (Inv.init ht (noSymDirs_of_lstat hw ht hno)).reach bs hbs maxSize hw hr
  refine ⟨?_, ?_, ?_, hI.queueLt⟩
  · intro j p hj hlt
    rcases hI.dirs j p hj hlt with h | h
    · exact .inl (lstat_of_get hI.tinv (hw.nodd (mem_allPaths_dir (List.mem_of_getElem? hj))) h)
    · exact .inr h
  · intro j p d hj hlt
    rcases hI.syms j (p, d) hj hlt with h | h
    · exact .inl (lstat_of_get hI.tinv (hw.nodd (leaf_mem_allPaths (sym_leaf hj))) h)
    · exact .inr h
  · intro j p S hj hlt
    rcases hI.files j (p, S) hj hlt with h | h
    · exact .inl (lstat_of_get hI.tinv (hw.nodd (leaf_mem_allPaths (file_leaf hj))) h)
    · exact .inr h

/-- (iii) The validator's verdict on an entry no heal step has touched is its verdict on the initial tree: in
    every reachable state, a symlink entry not yet inspected and a file entry not yet rewritten get the verdict
    they would have got on `t`; a directory entry not yet inspected gets the verdict it would have got on `t`,
    or "healthy" (an `MkdirAll` for a deeper directory has created it meanwhile).  In particular the file the
    validator is reading does not change under its feet until the healing goroutine rewrites that very file —
    which is what makes the atomic `vFile` step sound (see `Wharf.HealTS.admissible`). -/
theorem verdict_on_untouched_entry (bs : Nat) (hbs : 0 < bs) (maxSize : Nat) (s : Signed) (t : Tree)
    (σ : State) (hs : SignedWF s) (ht : Wharf.Archive.TInv t) (hno : NoDirSymlink s t)
    (hr : Reach bs maxSize s (HealTS.init t) σ) :
    (∀ j p, s.dirs[j]? = some p → σ.dirPos ≤ j →
      dirEntry σ.tree j p = dirEntry t j p ∨ dirEntry σ.tree j p = .ok []) ∧
    (∀ j p d, s.symlinks[j]? = some (p, d) → σ.symPos ≤ j →
      symlinkEntry σ.tree j p d = symlinkEntry t j p d) ∧
    (∀ j p S, s.files[j]? = some (p, S) → j ∉ σ.queue.take σ.healed →
      fileEntry bs maxSize σ.tree j p S = fileEntry bs maxSize t j p S) := by
  have hw : WF s := ⟨hs.clean, hs.distinct, hs.parents⟩
  have hn := noSymDirs_of_lstat hw ht hno
  have hI0 := Inv.init ht hn
  have hI := hI0.reach bs hbs maxSize hw hr
  have hU := Untouched.reach bs hbs maxSize hw hI0 hr
  refine ⟨?_, ?_, ?_⟩
  · intro j p hj hle
    have hm := mem_allPaths_dir (List.mem_of_getElem? hj)
    rcases hU.dirs j p hj hle with h | h
    · exact .inl (dirEntry_eq_of_get ht hI.tinv (hw.plain hn hm) (hw.plain hI.nosym hm) h j)
    · right
      rw [dirEntry_of_get hI.tinv (hw.plain hI.nosym hm), show σ.tree.get p = some .dir from h]
  · intro j p d hj hle
    have hm := leaf_mem_allPaths (sym_leaf hj)
    exact symlinkEntry_eq_of_get ht hI.tinv (hw.plain hn hm) (hw.plain hI.nosym hm) (hU.syms j (p, d) hj hle) j d
  · intro j p S hj hnm
    have hm := leaf_mem_allPaths (file_leaf hj)
    exact fileEntry_eq_of_get bs maxSize ht hI.tinv (hw.plain hn hm) (hw.plain hI.nosym hm)
      (hU.files j (p, S) hj hnm) j S

/-! ### non-vacuity: explicit schedules on the wrecked example of C06.lean

  `C05Tree.exSigned`: directory `a`, symlink `l → a/f`, file `a/f = [1,2,3]`.  `exWrecked`: a regular file at `a`,
  a non-empty directory at `l`, `a/f` missing, an unrelated file `junk`.  (Its hypotheses `SignedWF`, `TInv`,
  `NoDirSymlink`, `ParentsFirst` are checked in Props/C06Restore.lean.) -/

/-- validator first: the three passes, `close(Wounds)`, then the healer drains the channel, then the file is
    rewritten — the schedule of `validateAndHeal` -/
def schedValidatorFirst : List Label :=
  [.vDir, .vSymlink, .vFile [⟨.file, 0, 0, 3⟩], .vDone, .hWound, .hWound, .hWound, .hFile]

/-- healer eager: every wound is received and healed before the validator's next step; the validator sees
    the repaired directory `a` when it looks for `a/f` -/
def schedHealerEager : List Label :=
  [.vDir, .hWound, .vSymlink, .hWound, .vFile [⟨.file, 0, 0, 3⟩], .hWound, .hFile, .vDone]

example : (match run 2 100 C05Tree.exSigned (HealTS.init exWrecked) schedValidatorFirst with
      | some σ => (decide σ.terminal && !σ.failed, σ.tree.entries)
      | none => (false, []))
    = (true, [(["junk"], .file []), (["a"], .dir), (["l"], .symlink "a/f"), (["a", "f"], .file [1, 2, 3])]) := by
  decide

example : (match run 2 100 C05Tree.exSigned (HealTS.init exWrecked) schedHealerEager with
      | some σ => (decide σ.terminal && !σ.failed, σ.tree.entries)
      | none => (false, []))
    = (true, [(["junk"], .file []), (["a"], .dir), (["l"], .symlink "a/f"), (["a", "f"], .file [1, 2, 3])]) := by
  decide

/-- both final trees validate (so they match the signed build, `C05Tree.verdict_iff`) -/
example : (match run 2 100 C05Tree.exSigned (HealTS.init exWrecked) schedValidatorFirst with
      | some σ => failFastOk 2 100 C05Tree.exSigned σ.tree | none => false) = true := by decide

example : (match run 2 100 C05Tree.exSigned (HealTS.init exWrecked) schedHealerEager with
      | some σ => failFastOk 2 100 C05Tree.exSigned σ.tree | none => false) = true := by decide

/-- the two schedules differ in what the validator saw: in the eager one the directory `a` is already healed when
    the symlink is inspected (intermediate trees differ), yet both are runs of the system -/
example : ∃ σ, Reach 2 100 C05Tree.exSigned (HealTS.init exWrecked) σ ∧ σ.terminal ∧ σ.failed = false := by
  cases h : run 2 100 C05Tree.exSigned (HealTS.init exWrecked) schedHealerEager with
  | none => exact absurd h (by decide)
  | some σ =>
    refine ⟨σ, reach_of_run _ _ _ .refl h, ?_, ?_⟩
    · have : (match run 2 100 C05Tree.exSigned (HealTS.init exWrecked) schedHealerEager with
          | some σ => decide σ.terminal | none => false) = true := by decide
      rw [h] at this
      exact of_decide_eq_true this
    · have : (match run 2 100 C05Tree.exSigned (HealTS.init exWrecked) schedHealerEager with
          | some σ => σ.failed | none => true) = false := by decide
      rw [h] at this
      exact this

/-- A racy verdict: on `C05Tree.exDamaged` (symlink missing, `a/f = [1,9,3]`) the undisturbed verdict for the
    file is `[file 0..2, healthy 2..3]`; here the validator reports the second block as broken too (as if the
    file had been truncated under it), the file is rewritten while a second wound is still in the channel, and
    that wound is then ignored (`files[wound.Index]` is set). -/
def schedRacy : List Label :=
  [.vDir, .vSymlink, .vFile [⟨.file, 0, 0, 2⟩, ⟨.file, 0, 2, 3⟩], .hWound, .hWound, .hFile, .hWound, .vDone]

example : (match run 2 100 C05Tree.exSigned (HealTS.init C05Tree.exDamaged) schedRacy with
      | some σ => (decide σ.terminal && !σ.failed, σ.queue, σ.tree.entries)
      | none => (false, [], []))
    = (true, [0], [(["a"], .dir), (["l"], .symlink "a/f"), (["a", "f"], .file [1, 2, 3])]) := by decide

/-- … whereas an all-healthy verdict for that damaged file is not allowed (the first real wound is found before
    anyone can have repaired the file), nor a wound carrying another file's index. -/
example : (run 2 100 C05Tree.exSigned (HealTS.init C05Tree.exDamaged)
      [.vDir, .vSymlink, .vFile [⟨.closedFile, 0, 0, 2⟩, ⟨.closedFile, 0, 2, 3⟩]]).isNone = true := by decide

example : (run 2 100 C05Tree.exSigned (HealTS.init C05Tree.exDamaged)
      [.vDir, .vSymlink, .vFile [⟨.file, 1, 0, 2⟩]]).isNone = true := by decide

/-- Without parents-first listing a run can fail (`MkdirAll a/b` while `a` is still a regular file): the
    hypothesis of `heal_any_schedule_no_failure` is needed. -/
example : (match run 2 100 { dirs := [["a", "b"], ["a"]] } (HealTS.init { entries := [(["a"], .file [7])] })
      [.vDir, .hWound] with
      | some σ => σ.failed | none => false) = true := by decide

end Wharf.C06
