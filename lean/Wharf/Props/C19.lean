/-
  C19 — Archive then extract: counts and resume bookkeeping for any concurrency; sequential round trip.
  Property theorems only (helper lemmas live in Wharf/Proofs/Archive.lean).
-/
import Wharf.Model.Archive
import Wharf.Proofs.Archive

namespace Wharf.C19
open Wharf Wharf.FS Wharf.Archive

inductive Reach (workers n : Nat) : PoolSt → Prop where
  | init : Reach workers n { n := n }
  | step {s s' : PoolSt} {l : Lbl} : Reach workers n s → Archive.step workers s l = some s' → Reach workers n s'

/-- every reachable state satisfies the pool invariant (`Wharf.Archive.Inv`) -/
theorem reach_inv {workers n : Nat} {s : PoolSt} (h : Reach workers n s) : Inv n s := by
  induction h with
  | init => exact Inv.init n
  | step _ hs ih => exact ih.step hs

/-- C19 (a): for ANY worker count and ANY interleaving, the counter equals the number of entries extracted,
    every entry is extracted at most once and only entries of the archive are. -/
theorem counts_exact (workers n : Nat) (s : PoolSt) (h : Reach workers n s) :
    s.count = s.done.length ∧ s.done.Nodup ∧ (∀ i ∈ s.done, i < n) ∧
    (∀ i ∈ s.inflight, i < s.next ∧ i ∉ s.done) ∧ s.next ≤ n ∧ s.n = n := by
  have hI := reach_inv h
  have hn := hI.nextLe
  exact ⟨hI.count, hI.doneND, fun i hi => Nat.lt_of_lt_of_le (hI.doneLt i hi) hn, hI.infl, hn, hI.nEq⟩

/-- when extraction is over, the reported count is the number of entries -/
theorem final_count (workers n : Nat) (s : PoolSt) (h : Reach workers n s)
    (hfin : s.next = n ∧ s.inflight = []) : s.count = n :=
  (reach_inv h).final hfin

/-- C19 (b): at ANY instant of ANY interleaving (hence for a crash at any point), every entry the resume file
    vouches for — every index `≤` its value — is completely extracted: a restart never skips an
    unfinished entry. -/
theorem resume_safe (workers n : Nat) (s : PoolSt) (h : Reach workers n s) (k : Nat)
    (hk : s.resumeFile = some k) : ∀ j, j ≤ k → j ∈ s.done :=
  (reach_inv h).resume k hk

/-- C19 (c): the pool never deadlocks before everything is extracted and every run is finite. -/
theorem progress (workers n : Nat) (hw : 0 < workers) (s : PoolSt) (h : Reach workers n s)
    (hnf : ¬ (s.next = n ∧ s.inflight = [])) : ∃ l s', Archive.step workers s l = some s' :=
  (reach_inv h).progress hw hnf

theorem variant (workers n : Nat) (s s' : PoolSt) (l : Lbl) (h : Reach workers n s)
    (hs : Archive.step workers s l = some s') :
    2 * (n - s'.next) + s'.inflight.length < 2 * (n - s.next) + s.inflight.length :=
  step_variant (reach_inv h) hs

/-- A listing is well formed when paths are distinct and every proper prefix of a path is an earlier
    directory entry (what `filepath.Walk` produces). -/
def WFListing : List (Path × Node) → List (Path × Node) → Prop
  | _, [] => True
  | seen, (p, n) :: rest =>
    p ≠ [] ∧ (∀ e ∈ seen, e.1 ≠ p) ∧ (p.dropLast = [] ∨ (p.dropLast, Node.dir) ∈ seen) ∧
    WFListing (seen ++ [(p, n)]) rest

/- C19 (d) AS ORIGINALLY STATED — FALSE (see `extract_roundtrip_counterexample` below): a listing may be
   well formed in the sense of `WFListing` and still contain a `".."` path component, which `canon`/`resolve`
   interpret (they pop a component) instead of treating as a name.

/-- C19 (d), sequential round trip (tar; zip with one worker): extracting the archive of a well-formed
    listing into the empty tree succeeds and yields exactly the listed entries. -/
theorem extract_roundtrip (l : List (Path × Node)) (h : WFListing [] l) :
    ∃ t, extractAll {} (archiveOf l) = .ok t ∧ (∀ e, e ∈ t.entries ↔ e ∈ l)
-/

/-- The listing `[([".."], dir), (["..", "a"], file [])]` is well formed, but extracting its archive puts the
    file at `["a"]`: the original `extract_roundtrip` statement does not hold. -/
theorem extract_roundtrip_counterexample :
    ∃ l, WFListing [] l ∧
      ¬ ∃ t, extractAll {} (archiveOf l) = .ok t ∧ (∀ e, e ∈ t.entries ↔ e ∈ l) := by
  refine ⟨[([".."], .dir), (["..", "a"], .file [])], ?_, ?_⟩
  · simp [WFListing]
  · intro ⟨t, ht, hiff⟩
    have hx : extractAll {} (archiveOf [([".."], .dir), (["..", "a"], .file [])]) =
        .ok { entries := [([".."], .dir), (["a"], .file [])] } := by
      rfl
    rw [hx] at ht
    cases ht
    have := (hiff (["a"], .file [])).1 (by simp)
    simp at this

theorem wfListing_wfl : ∀ (l seen : List (Path × Node)), WFListing seen l →
    (∀ e ∈ l, ".." ∉ e.1.dropLast) → WFL seen l := by
  intro l
  induction l with
  | nil => intro _ _ _; trivial
  | cons e l ih =>
    intro seen h hdd
    obtain ⟨p, n⟩ := e
    obtain ⟨h1, h2, h3, h4⟩ := h
    exact ⟨⟨h1, h2, h3, hdd (p, n) (by simp)⟩, ih _ h4 (fun e he => hdd e (by simp [he]))⟩

/-- C19 (d), sequential round trip (tar; zip with one worker), closest true statement: extracting the
    archive of a well-formed listing none of whose paths has `".."` as a non-final component into the empty
    tree succeeds and yields exactly the listed entries. -/
theorem extract_roundtrip_partial (l : List (Path × Node)) (h : WFListing [] l)
    (hdd : ∀ e ∈ l, ".." ∉ e.1.dropLast) :
    ∃ t, extractAll {} (archiveOf l) = .ok t ∧ (∀ e, e ∈ t.entries ↔ e ∈ l) := by
  refine ⟨{ entries := l }, ?_, fun _ => Iff.rfl⟩
  have := extractAll_wfl l [] TInv.empty (wfListing_wfl l [] h hdd)
  simpa using this

/-- Stronger form: the extracted tree lists the entries in archive order. -/
theorem extract_roundtrip_partial_eq (l : List (Path × Node)) (h : WFListing [] l)
    (hdd : ∀ e ∈ l, ".." ∉ e.1.dropLast) :
    extractAll {} (archiveOf l) = .ok { entries := l } := by
  have := extractAll_wfl l [] TInv.empty (wfListing_wfl l [] h hdd)
  simpa using this

/-- Corollary under the simpler hypothesis that no path component at all is `".."`. -/
theorem extract_roundtrip_partial' (l : List (Path × Node)) (h : WFListing [] l)
    (hdd : ∀ e ∈ l, ".." ∉ e.1) :
    ∃ t, extractAll {} (archiveOf l) = .ok t ∧ (∀ e, e ∈ t.entries ↔ e ∈ l) :=
  extract_roundtrip_partial l h (fun e he hm => hdd e he (mem_of_mem_dropLast hm))

/-- Non-vacuity: two workers, entry 1 finishes before entry 0: the resume file stays empty until 0 is done. -/
example : ∃ s, Reach 2 3 s ∧ s.done = [1] ∧ s.resumeFile = none ∧ s.inflight = [0] := by
  have h0 : Reach 2 3 { n := 3 } := .init
  have h1 : Reach 2 3 { n := 3, next := 1, inflight := [0] } := h0.step (l := .take) (by rfl)
  have h2 : Reach 2 3 { n := 3, next := 2, inflight := [0, 1] } := h1.step (l := .take) (by rfl)
  have h3 : Reach 2 3 { n := 3, next := 2, inflight := [0], done := [1], count := 1 } :=
    h2.step (l := .finish 1) (by rfl)
  exact ⟨_, h3, rfl, rfl, rfl⟩

end Wharf.C19
