/-
  C06 (a)+(b) — Healing restores: after validation followed by healing (validator-first schedule), the
  directory matches the signed build, for EVERY damaged tree (any missing / replaced / corrupted / extra
  entries), provided no signed directory has been replaced by a symlink (finding F15: there the files below
  validate *through* the symlink, only the directory wound is reported and healing it orphans them).
  Property theorems only; helper lemmas live in Wharf/Proofs/HealRestore.lean.

  Status of the hypotheses: `SignedWF`, `TInv` and `NoDirSymlink` (plus `ParentsFirst` for completion) are
  SUFFICIENT exactly as first written — no strengthening was needed and no counterexample was found (besides the
  proofs, all three statements were checked exhaustively on ~87 000 (signed build, damaged tree) pairs over the
  8 paths of length ≤ 3 over {a,b}, with stray files / directories / relative symlinks (`b`, `../a`, `a/b`, `..`)
  anywhere, including at signed file and symlink paths and below signed directories).  Of `SignedWF.clean` only
  `p ≠ []` and `".." ∉ p` are used.  The proof also yields `TInv t'` (`Wharf.Heal.restore_main`).
  Why it works: by `parents` every proper ancestor of a signed path is a signed directory, and by
  `NoDirSymlink` + `TInv` none of those is a symlink, so `lstat`/`mkdirs` on signed paths never follow a
  link: what the validator saw at `p` is what is stored at `p`.
-/
import Wharf.Model.Heal
import Wharf.Props.C05Tree
import Wharf.Proofs.Heal
import Wharf.Proofs.HealRestore
import Wharf.Props.C06

namespace Wharf.C06
open Wharf Wharf.FS Wharf.Validate Wharf.TreeValidate Wharf.Heal

/-- all paths of a signed build -/
def allPaths (s : Signed) : List Path := s.dirs ++ s.symlinks.map (·.1) ++ s.files.map (·.1)

/-- Well-formedness of a signed build as produced by `tlc.Walk`: clean relative paths, every path listed
    once, and every proper ancestor of a listed path is a listed directory (so no listed path passes through a
    listed symlink or file). -/
structure SignedWF (s : Signed) : Prop where
  clean : ∀ p ∈ allPaths s, p ≠ [] ∧ ∀ c ∈ p, c ≠ ".." ∧ c ≠ "." ∧ c ≠ ""
  distinct : (allPaths s).Nodup
  parents : ∀ p ∈ allPaths s, ∀ j, 0 < j → j < p.length → p.take j ∈ s.dirs

/-- The excluded damage (finding F15): a signed directory that is a symlink in the damaged tree. -/
def NoDirSymlink (s : Signed) (t : Tree) : Prop :=
  ∀ p ∈ s.dirs, ∀ d, lstat t p ≠ .ok (.symlink d)

/-- C06 (a): whenever validate-then-heal completes, the healed tree matches the signed build — every signed
    directory is a directory, every signed symlink points where it should, every signed file holds exactly
    its signed bytes. `t` is ANY tree satisfying the model's structural invariant. -/
theorem heal_restores (bs : Nat) (hbs : 0 < bs) (maxSize : Nat) (s : Signed) (t t' : Tree)
    (hs : SignedWF s) (ht : Wharf.Archive.TInv t) (hno : NoDirSymlink s t)
    (h : validateAndHeal bs maxSize s t = .ok t') : C05Tree.Matches s t' := by
  have hw : WF s := ⟨hs.clean, hs.distinct, hs.parents⟩
  obtain ⟨hI', hA, hleaf, _⟩ :=
    restore_main bs hbs maxSize s t t' hw ht (noSymDirs_of_lstat hw ht hno) h
  refine ⟨?_, ?_, ?_⟩
  · intro p hp
    exact lstat_of_get hI' (hw.nodd (mem_allPaths_dir hp)) (hA p hp)
  · intro e he
    have hl : (e.1, Node.symlink e.2) ∈ leaves s := by
      simp only [leaves, List.mem_append, List.mem_map]
      exact .inl ⟨e, he, rfl⟩
    exact lstat_of_get hI' (hw.nodd (leaf_mem_allPaths hl)) (hleaf _ hl)
  · intro e he
    have hl : (e.1, Node.file e.2) ∈ leaves s := by
      simp only [leaves, List.mem_append, List.mem_map]
      exact .inr ⟨e, he, rfl⟩
    exact lstat_of_get hI' (hw.nodd (leaf_mem_allPaths hl)) (hleaf _ hl)

/-- … and therefore a second validation of the healed tree succeeds fail-fast (C06 (b)). -/
theorem heal_then_valid (bs : Nat) (hbs : 0 < bs) (maxSize : Nat) (s : Signed) (t t' : Tree)
    (hs : SignedWF s) (ht : Wharf.Archive.TInv t) (hno : NoDirSymlink s t)
    (h : validateAndHeal bs maxSize s t = .ok t') : failFastOk bs maxSize s t' = true :=
  (C05Tree.verdict_iff bs hbs maxSize s t').mpr (heal_restores bs hbs maxSize s t t' hs ht hno h)

/-- Healing completes whenever validation does, if directories are listed parents-first (as `tlc.Walk`
    lists them). -/
def ParentsFirst (s : Signed) : Prop :=
  ∀ i (h : i < s.dirs.length), ∀ j, 0 < j → j < (s.dirs[i]).length → (s.dirs[i]).take j ∈ s.dirs.take i

theorem heal_completes (bs : Nat) (hbs : 0 < bs) (maxSize : Nat) (s : Signed) (t : Tree) (ws : List Wound)
    (hs : SignedWF s) (hpf : ParentsFirst s) (ht : Wharf.Archive.TInv t) (hno : NoDirSymlink s t)
    (hv : validate bs maxSize s t = .ok ws) : ∃ t', validateAndHeal bs maxSize s t = .ok t' := by
  have hw : WF s := ⟨hs.clean, hs.distinct, hs.parents⟩
  exact complete_main bs hbs maxSize s t ws hw hpf ht (noSymDirs_of_lstat hw ht hno) hv

/-- Entries that healing has no business with stay: a path that is neither a signed path, nor below one,
    nor an ancestor of one, has the same node before and after. -/
theorem heal_leaves_unrelated (bs : Nat) (hbs : 0 < bs) (maxSize : Nat) (s : Signed) (t t' : Tree)
    (hs : SignedWF s) (ht : Wharf.Archive.TInv t) (hno : NoDirSymlink s t)
    (h : validateAndHeal bs maxSize s t = .ok t') (q : Path)
    (hq : ∀ p ∈ allPaths s, p ≠ q ∧ ¬ isPrefix p q ∧ ¬ isPrefix q p) : t'.get q = t.get q := by
  have hw : WF s := ⟨hs.clean, hs.distinct, hs.parents⟩
  obtain ⟨_, _, _, hun⟩ :=
    restore_main bs hbs maxSize s t t' hw ht (noSymDirs_of_lstat hw ht hno) h
  apply hun q
  intro p hp
  obtain ⟨h1, h2, h3⟩ := hq p hp
  exact ⟨h1, by simpa using h2, by simpa using h3⟩

/-- The exclusion is necessary (F15, machine-checked witness): a signed directory replaced by a symlink to a
    moved copy validates below the link, is healed into an empty directory, and the result does NOT match. -/
def exF15Signed : Signed := { dirs := [["a"]], files := [(["a", "f"], [1, 2, 3])] }
def exF15Tree : Tree :=
  { entries := [(["b"], .dir), (["b", "f"], .file [1, 2, 3]), (["a"], .symlink "b")] }

-- (plain `decide` gets stuck on `splitDest "b"` — `String.splitOn` is defined by well-founded recursion —
-- so the validation through the link is computed in `Wharf.Heal.f15_validate`; the healing and the second
-- validation are evaluated by `decide`.)
theorem heal_restores_counterexample :
    (match validateAndHeal 2 100 exF15Signed exF15Tree with
     | .ok t => failFastOk 2 100 exF15Signed t | _ => true) = false := by
  unfold validateAndHeal
  rw [show validate 2 100 exF15Signed exF15Tree = _ from f15_validate]
  decide

/-! ### non-vacuity: the hypotheses hold for the wrecked example of C06.lean -/

example : SignedWF C05Tree.exSigned ∧ Wharf.Archive.TInv exWrecked ∧ NoDirSymlink C05Tree.exSigned exWrecked ∧
    ParentsFirst C05Tree.exSigned := by
  refine ⟨⟨by decide, by decide, ?_⟩, ⟨by decide, by decide, ?_⟩, ?_, ?_⟩
  · intro p hp j hj1 hj2
    simp only [allPaths, C05Tree.exSigned, List.map_cons, List.map_nil, List.cons_append, List.nil_append,
      List.mem_cons, List.not_mem_nil, or_false] at hp
    rcases hp with rfl | rfl | rfl
    · simp at hj2; omega
    · simp at hj2; omega
    · have : j = 1 := by simp at hj2; omega
      subst this
      decide
  · unfold Wharf.Archive.IsDir; decide
  · intro p hp d
    simp only [C05Tree.exSigned, List.mem_singleton] at hp
    subst hp
    have : lstat exWrecked ["a"] = .ok (.file [7]) := by rfl
    rw [this]
    intro h; cases h
  · intro i h j hj1 hj2
    simp only [C05Tree.exSigned, List.length_singleton] at h
    have : i = 0 := by omega
    subst this
    simp only [C05Tree.exSigned, List.getElem_cons_zero, List.length_singleton] at hj2
    omega

end Wharf.C06
