/-
  C06 (a)+(b) — Healing restores: after validation followed by healing (validator-first schedule), the
  directory matches the signed build, for EVERY damaged tree (any missing / replaced / corrupted / extra
  entries).  Property theorems only; helper lemmas live in Wharf/Proofs/HealRestore.lean and (the invariant of
  every interleaving, of which the validator-first schedule is one) Wharf/Proofs/HealTS.lean.

  STATUS AFTER THE REPAIR OF FINDING F15 (`fix: healing a directory that something else had replaced also heals
  what lives below it`, pwr/archive_healer.go `healBelow`).  F15 was: a signed directory replaced by a symlink to
  a (moved) copy of itself — the entries below validate THROUGH the link, only the directory wound is
  reported, and healing it left an empty directory.  The old theorems excluded that damage by the hypothesis
  `NoDirSymlink s t`.  With the fixed code (and the models brought in line with it):

    * `heal_restores_any_tree`, `heal_then_valid_any_tree`, `heal_completes_any_tree`,
      `heal_leaves_unrelated_any_tree`: NO hypothesis on the damaged tree besides the model's structural
      invariant `TInv` — signed directories may be symlinks to anywhere (relative destinations resolving inside
      the tree, dangling, absolute, chains, loops).  They need `ParentsFirst s` (directories listed
      parents-first, as `tlc.Walk` lists them).
    * The old theorems `heal_restores`, `heal_then_valid`, `heal_completes`, `heal_leaves_unrelated` are kept
      under their names with their old hypotheses (`NoDirSymlink`, and no `ParentsFirst` for restoration): they
      hold for the fixed code as well.  So restoration is proved under `ParentsFirst s ∨ NoDirSymlink s t`.
    * `ParentsFirst` cannot be dropped from the any-tree theorems: `any_tree_needs_parents_first` below (a
      container that lists `a/c` before `a`; `a` replaced by a symlink).  That deviation is NOT caused by the
      repair — the unrepaired code behaves the same on that instance — and containers produced by `tlc.Walk` are
      parents-first; it is reported, not excluded silently.
    * Where the validator itself stops with an error, `validateAndHeal` is `.err` and the theorems are vacuous.
      `validate` returns `.err` exactly when an `lstat` of the directory pass or the symlink pass fails with an
      error that is not "not there" (`notExist`: ENOENT, ENOTDIR), which on this filesystem model means ELOOP —
      a chain of links through signed directories that does not end within the fuel of `FS.resolve`, e.g. `a → a`
      while `a/x` is signed.  (An absolute destination and a dangling relative one give ENOENT: a wound, no
      error.)  The per-file pass never stops: every `lstat` error there counts as "missing".  The real validator
      returns the `Lstat`/`Readlink` error in the same places (pwr/validator.go, directory and symlink loops).

  Why it works now.  A heal call acts on the literal path only if no directory above it is a symlink; the
  validator's verdict on an entry below a symlinked directory is evaluated THROUGH the link on the current tree —
  healthy or wounded, it does not matter, because the DIR wound of the link is in the FIFO channel ahead of every
  wound of an entry below it (directories are inspected first, parents first), so the link is replaced by an
  empty directory BEFORE any entry below it is healed, and `healBelow` then heals every signed directory, symlink
  and file below it, whatever the verdicts were.  A file is queued for the healing goroutine only when its parent
  directory is in place (`Wharf.HealTS.Inv.queueReady`), so no write ever goes through a link either.
  Of `SignedWF.clean` only `p ≠ []` and `".." ∉ p` are used.

  Exhaustive evaluation (compiled model, besides the proofs): 394 272 (signed build, damaged tree) pairs over the
  paths a, b, a/a, a/b, b/a, b/b, a/a/a with stray files / directories / symlinks (`b`, `a`, `.`, `..`, `../b`,
  `b/a`, `a/b`, `/x`) anywhere — parents-first: 0 failures, 0 healer errors (36 173 validator errors);
  children-first: 1 458 trees that do not match after healing, none of them under `NoDirSymlink`.
-/
import Wharf.Model.Heal
import Wharf.Props.C05Tree
import Wharf.Proofs.Heal
import Wharf.Proofs.HealRestore
import Wharf.Proofs.HealTS
import Wharf.Props.C06

namespace Wharf.C06
open Wharf Wharf.FS Wharf.Validate Wharf.TreeValidate Wharf.Heal Wharf.HealTS

/-- all paths of a signed build -/
def allPaths (s : Signed) : List Path := s.dirs ++ s.symlinks.map (·.1) ++ s.files.map (·.1)

/-- Well-formedness of a signed build as produced by `tlc.Walk`: clean relative paths, every path listed
    once, and every proper ancestor of a listed path is a listed directory (so no listed path passes through a
    listed symlink or file). -/
structure SignedWF (s : Signed) : Prop where
  clean : ∀ p ∈ allPaths s, p ≠ [] ∧ ∀ c ∈ p, c ≠ ".." ∧ c ≠ "." ∧ c ≠ ""
  distinct : (allPaths s).Nodup
  parents : ∀ p ∈ allPaths s, ∀ j, 0 < j → j < p.length → p.take j ∈ s.dirs

/-- The damage that used to be excluded (finding F15, repaired): a signed directory that is a symlink in the
    damaged tree.  Kept because the old theorems are kept; see `heal_restores_any_tree` for the statement
    without it. -/
def NoDirSymlink (s : Signed) (t : Tree) : Prop :=
  ∀ p ∈ s.dirs, ∀ d, lstat t p ≠ .ok (.symlink d)

/-- Directories are listed parents-first (as `tlc.Walk` lists them). -/
def ParentsFirst (s : Signed) : Prop :=
  ∀ i (h : i < s.dirs.length), ∀ j, 0 < j → j < (s.dirs[i]).length → (s.dirs[i]).take j ∈ s.dirs.take i

theorem SignedWF.wf {s : Signed} (hs : SignedWF s) : WF s := ⟨hs.clean, hs.distinct, hs.parents⟩

/-- either hypothesis starts the invariant of Proofs/HealTS.lean -/
theorem inv_init {s : Signed} {t : Tree} (hs : SignedWF s) (ht : Wharf.Archive.TInv t)
    (hm : ParentsFirst s ∨ NoDirSymlink s t) : Inv s (HealTS.init t) :=
  Inv.init ht (hm.imp id (noSymDirs_of_lstat hs.wf ht))

/-- what the invariant gives in a terminal state, in terms of `lstat` -/
theorem matches_of_terminal {s : Signed} (hs : SignedWF s) {σ : State} (hI : Inv s σ) (hterm : σ.terminal) :
    C05Tree.Matches s σ.tree := by
  have hw := hs.wf
  obtain ⟨hA, hleaf⟩ := hI.terminal hw hterm
  refine ⟨?_, ?_, ?_⟩
  · intro p hp
    exact lstat_of_get hI.tinv (hw.nodd (mem_allPaths_dir hp)) (hA p hp)
  · intro e he
    have hl : (e.1, Node.symlink e.2) ∈ leaves s := by
      simp only [leaves, List.mem_append, List.mem_map]
      exact .inl ⟨e, he, rfl⟩
    exact lstat_of_get hI.tinv (hw.nodd (leaf_mem_allPaths hl)) (hleaf _ hl)
  · intro e he
    have hl : (e.1, Node.file e.2) ∈ leaves s := by
      simp only [leaves, List.mem_append, List.mem_map]
      exact .inr ⟨e, he, rfl⟩
    exact lstat_of_get hI.tinv (hw.nodd (leaf_mem_allPaths hl)) (hleaf _ hl)

/-- restoration under either hypothesis (parents-first listing, or no signed directory replaced by a symlink) -/
theorem heal_restores_either (bs : Nat) (hbs : 0 < bs) (maxSize : Nat) (s : Signed) (t t' : Tree)
    (hs : SignedWF s) (ht : Wharf.Archive.TInv t) (hm : ParentsFirst s ∨ NoDirSymlink s t)
    (h : validateAndHeal bs maxSize s t = .ok t') : C05Tree.Matches s t' := by
  obtain ⟨σ, hr, hterm, _, rfl⟩ := sequential_reach bs hbs maxSize s t t' h
  exact matches_of_terminal hs ((inv_init hs ht hm).reach bs hbs maxSize hs.wf hr) hterm

/-- C06 (a), ANY damaged tree (finding F15 repaired): whenever validate-then-heal completes, the healed tree
    matches the signed build — every signed directory is a directory, every signed symlink points where it
    should, every signed file holds exactly its signed bytes.  `t` is ANY tree satisfying the model's structural
    invariant: signed directories may have been replaced by symlinks to anywhere.  (Where `validate` stops with
    an error — ELOOP, see the header — `validateAndHeal` is `.err` and the statement is vacuous.) -/
theorem heal_restores_any_tree (bs : Nat) (hbs : 0 < bs) (maxSize : Nat) (s : Signed) (t t' : Tree)
    (hs : SignedWF s) (hpf : ParentsFirst s) (ht : Wharf.Archive.TInv t)
    (h : validateAndHeal bs maxSize s t = .ok t') : C05Tree.Matches s t' :=
  heal_restores_either bs hbs maxSize s t t' hs ht (.inl hpf) h

/-- C06 (a) as first stated (kept; no `ParentsFirst` needed when no signed directory is a symlink). -/
theorem heal_restores (bs : Nat) (hbs : 0 < bs) (maxSize : Nat) (s : Signed) (t t' : Tree)
    (hs : SignedWF s) (ht : Wharf.Archive.TInv t) (hno : NoDirSymlink s t)
    (h : validateAndHeal bs maxSize s t = .ok t') : C05Tree.Matches s t' :=
  heal_restores_either bs hbs maxSize s t t' hs ht (.inr hno) h

/-- … and therefore a second validation of the healed tree succeeds fail-fast (C06 (b)), for any damaged tree. -/
theorem heal_then_valid_any_tree (bs : Nat) (hbs : 0 < bs) (maxSize : Nat) (s : Signed) (t t' : Tree)
    (hs : SignedWF s) (hpf : ParentsFirst s) (ht : Wharf.Archive.TInv t)
    (h : validateAndHeal bs maxSize s t = .ok t') : failFastOk bs maxSize s t' = true :=
  (C05Tree.verdict_iff bs hbs maxSize s t').mpr (heal_restores_any_tree bs hbs maxSize s t t' hs hpf ht h)

theorem heal_then_valid (bs : Nat) (hbs : 0 < bs) (maxSize : Nat) (s : Signed) (t t' : Tree)
    (hs : SignedWF s) (ht : Wharf.Archive.TInv t) (hno : NoDirSymlink s t)
    (h : validateAndHeal bs maxSize s t = .ok t') : failFastOk bs maxSize s t' = true :=
  (C05Tree.verdict_iff bs hbs maxSize s t').mpr (heal_restores bs hbs maxSize s t t' hs ht hno h)

/-- Healing completes whenever validation does, for ANY damaged tree, if directories are listed parents-first:
    no `Lstat` / `Remove` / `MkdirAll` / `Symlink` / whole-file rewrite of the healer fails — not in the
    validator-first schedule and not in any other (`heal_any_tree_no_healer_failure`, Props/C06Sched.lean). -/
theorem heal_completes_any_tree (bs : Nat) (hbs : 0 < bs) (maxSize : Nat) (s : Signed) (t : Tree)
    (ws : List Wound) (hs : SignedWF s) (hpf : ParentsFirst s) (ht : Wharf.Archive.TInv t)
    (hv : validate bs maxSize s t = .ok ws) : ∃ t', validateAndHeal bs maxSize s t = .ok t' := by
  apply Classical.byContradiction
  intro hne
  obtain ⟨σ, hr, hfail⟩ := sequential_fail_reach bs hbs maxSize s t ws hv
    (fun t' h' => hne ⟨t', h'⟩)
  exact (inv_init hs ht (.inl hpf)).reach_no_healer_fail bs hbs maxSize hs.wf hpf
    (by simp [HealTS.init]) hr hfail

/-- as first stated (kept; `_hno` is no longer needed) -/
theorem heal_completes (bs : Nat) (hbs : 0 < bs) (maxSize : Nat) (s : Signed) (t : Tree) (ws : List Wound)
    (hs : SignedWF s) (hpf : ParentsFirst s) (ht : Wharf.Archive.TInv t) (_hno : NoDirSymlink s t)
    (hv : validate bs maxSize s t = .ok ws) : ∃ t', validateAndHeal bs maxSize s t = .ok t' :=
  heal_completes_any_tree bs hbs maxSize s t ws hs hpf ht hv

theorem heal_leaves_unrelated_either (bs : Nat) (hbs : 0 < bs) (maxSize : Nat) (s : Signed) (t t' : Tree)
    (hs : SignedWF s) (ht : Wharf.Archive.TInv t) (hm : ParentsFirst s ∨ NoDirSymlink s t)
    (h : validateAndHeal bs maxSize s t = .ok t') (q : Path)
    (hq : ∀ p ∈ allPaths s, p ≠ q ∧ ¬ isPrefix p q ∧ ¬ isPrefix q p) : t'.get q = t.get q := by
  obtain ⟨σ, hr, _, _, rfl⟩ := sequential_reach bs hbs maxSize s t t' h
  have hK := (inv_init hs ht hm).reach_keeps bs hbs maxSize hs.wf hr
  apply hK.unrelated q
  intro p hp
  obtain ⟨h1, h2, h3⟩ := hq p hp
  exact ⟨h1, by simpa using h2, by simpa using h3⟩

/-- Entries that healing has no business with stay, for ANY damaged tree: a path that is neither a signed path,
    nor below one, nor an ancestor of one, has the same node before and after.  (What a replaced directory's
    symlink pointed AT is such a path unless it is signed itself: the moved copy is left alone.) -/
theorem heal_leaves_unrelated_any_tree (bs : Nat) (hbs : 0 < bs) (maxSize : Nat) (s : Signed) (t t' : Tree)
    (hs : SignedWF s) (hpf : ParentsFirst s) (ht : Wharf.Archive.TInv t)
    (h : validateAndHeal bs maxSize s t = .ok t') (q : Path)
    (hq : ∀ p ∈ allPaths s, p ≠ q ∧ ¬ isPrefix p q ∧ ¬ isPrefix q p) : t'.get q = t.get q :=
  heal_leaves_unrelated_either bs hbs maxSize s t t' hs ht (.inl hpf) h q hq

theorem heal_leaves_unrelated (bs : Nat) (hbs : 0 < bs) (maxSize : Nat) (s : Signed) (t t' : Tree)
    (hs : SignedWF s) (ht : Wharf.Archive.TInv t) (hno : NoDirSymlink s t)
    (h : validateAndHeal bs maxSize s t = .ok t') (q : Path)
    (hq : ∀ p ∈ allPaths s, p ≠ q ∧ ¬ isPrefix p q ∧ ¬ isPrefix q p) : t'.get q = t.get q :=
  heal_leaves_unrelated_either bs hbs maxSize s t t' hs ht (.inr hno) h q hq

/-! ### the F15 instance, healed

  A signed directory replaced by a symlink to a moved copy: validation reaches `a/f` THROUGH the link and
  reports the directory wound only; the fixed healer replaces the link by a directory and `healBelow("a")` queues
  `a/f`, which the healing goroutine then rewrites.  (The unrepaired model gave `[(b, dir), (b/f, …), (a, dir)]`
  here, which does not validate: the former `heal_restores_counterexample`.) -/

def exF15Signed : Signed := { dirs := [["a"]], files := [(["a", "f"], [1, 2, 3])] }
def exF15Tree : Tree :=
  { entries := [(["b"], .dir), (["b", "f"], .file [1, 2, 3]), (["a"], .symlink "b")] }

-- (plain `decide` gets stuck on `splitDest "b"` — `String.splitOn` is defined by well-founded recursion —
-- so the validation through the link is computed in `Wharf.Heal.f15_validate`; the healing, which does not go
-- through the link any more once it is removed, and the second validation are evaluated by `decide`.)
theorem f15_heals :
    (match validateAndHeal 2 100 exF15Signed exF15Tree with
     | .ok t => (t.entries, failFastOk 2 100 exF15Signed t)
     | _ => ([], false)) =
    ([(["b"], .dir), (["b", "f"], .file [1, 2, 3]), (["a"], .dir), (["a", "f"], .file [1, 2, 3])], true) := by
  unfold validateAndHeal
  rw [show validate 2 100 exF15Signed exF15Tree = _ from f15_validate]
  decide

/-- … the healed tree matches the signed build (and the moved copy `b` is left alone) -/
example : ∃ t, validateAndHeal 2 100 exF15Signed exF15Tree = .ok t ∧ C05Tree.Matches exF15Signed t := by
  have h := f15_heals
  cases hv : validateAndHeal 2 100 exF15Signed exF15Tree with
  | ok t =>
    rw [hv] at h
    simp only [Prod.mk.injEq] at h
    exact ⟨t, rfl, (C05Tree.verdict_iff 2 (by decide) 100 exF15Signed t).mp h.2⟩
  | err e => rw [hv] at h; simp at h
  | panic e => rw [hv] at h; simp at h

/-- A richer instance (`Wharf.Heal.richSigned` / `richTree`): signed directory `a` with a nested signed directory
    `a/c`, a signed symlink `a/l → c/g` and the files `a/f`, `a/c/g` below it; on disk `a` is a symlink to a moved
    copy `b` in which `f` is also damaged.  Validation through the link reports the directory wound and one file
    wound; healing replaces the link and `healBelow("a")` restores the directory, the symlink and BOTH files (the
    copy `b`, damaged file included, is left alone); the result validates. -/
example : (match validateAndHeal 2 100 richSigned richTree with
     | .ok t => (t.entries, failFastOk 2 100 richSigned t)
     | _ => ([], false)) =
    ([(["b"], .dir), (["b", "c"], .dir), (["b", "l"], .symlink "c/g"), (["b", "f"], .file [1, 9, 3]),
      (["b", "c", "g"], .file [4, 5]), (["a"], .dir), (["a", "c"], .dir), (["a", "l"], .symlink "c/g"),
      (["a", "f"], .file [1, 2, 3]), (["a", "c", "g"], .file [4, 5])], true) := by
  unfold validateAndHeal
  rw [show validate 2 100 richSigned richTree = _ from rich_validate]
  decide

/-- the hypotheses of `heal_restores_any_tree` hold for that instance — although `NoDirSymlink` does not -/
example : SignedWF richSigned ∧ ParentsFirst richSigned ∧ Wharf.Archive.TInv richTree ∧
    ¬ NoDirSymlink richSigned richTree := by
  refine ⟨⟨by decide, by decide, ?_⟩, ?_, ⟨by decide, by decide, ?_⟩, ?_⟩
  · intro p hp j hj1 hj2
    simp only [allPaths, richSigned, List.map_cons, List.map_nil, List.cons_append, List.nil_append,
      List.mem_cons, List.not_mem_nil, or_false] at hp
    rcases hp with rfl | rfl | rfl | rfl | rfl
    · simp at hj2; omega
    · have : j = 1 := by simp at hj2; omega
      subst this; decide
    · have : j = 1 := by simp at hj2; omega
      subst this; decide
    · have : j = 1 := by simp at hj2; omega
      subst this; decide
    · have : j = 1 ∨ j = 2 := by simp at hj2; omega
      rcases this with rfl | rfl <;> decide
  · intro i h j hj1 hj2
    simp only [richSigned, List.length_cons, List.length_nil] at h
    have : i = 0 ∨ i = 1 := by omega
    rcases this with rfl | rfl
    · simp [richSigned] at hj2; omega
    · have : j = 1 := by simp [richSigned] at hj2; omega
      subst this; simp [richSigned]
  · unfold Wharf.Archive.IsDir; decide
  · intro h
    exact h ["a"] (by decide) "b" rich_lstat_a

/-- `ParentsFirst` cannot be dropped from the any-tree theorems (machine-checked instance, `Wharf.Heal.pfSigned` /
    `pfTree`): the container lists `a/c` before `a`; on disk `a` is a symlink to `b`, and `b/c` is a signed regular
    file that is intact.  `SignedWF` and `TInv` hold, validation completes, healing completes — and the healed tree
    has a DIRECTORY at `b/c`: the directory wound of `a/c` was handled while `a` was still a link, so `Lstat(a/c)`
    found the file `b/c` through it, removed it and `MkdirAll` created `b/c` as a directory; nothing heals `b/c`
    afterwards (it had validated).  Go-level: `ArchiveHealer.Do` on a container whose `Dirs` are not
    parents-first (not produced by `tlc.Walk`; conceivable for a container read from elsewhere).  The unrepaired
    code destroys `b/c` in the same way; the repair of F15 neither causes nor cures it. -/
theorem any_tree_needs_parents_first :
    SignedWF pfSigned ∧ Wharf.Archive.TInv pfTree ∧ ¬ ParentsFirst pfSigned ∧
    (match validateAndHeal 2 100 pfSigned pfTree with
     | .ok t => (t.entries, failFastOk 2 100 pfSigned t) | _ => ([], true)) =
     ([(["b"], .dir), (["b", "c"], .dir), (["a"], .dir), (["a", "c"], .dir)], false) := by
  refine ⟨⟨by decide, by decide, ?_⟩, ⟨by decide, by decide, ?_⟩, ?_, pf_heal⟩
  · intro p hp j hj1 hj2
    simp only [allPaths, pfSigned, List.map_cons, List.map_nil, List.cons_append, List.nil_append,
      List.mem_cons, List.not_mem_nil, or_false] at hp
    rcases hp with rfl | rfl | rfl | rfl
    · have : j = 1 := by simp at hj2; omega
      subst this; decide
    · simp at hj2; omega
    · simp at hj2; omega
    · have : j = 1 := by simp at hj2; omega
      subst this; decide
  · unfold Wharf.Archive.IsDir; decide
  · intro h
    have := h 0 (by decide) 1 (by decide) (by decide)
    simp [pfSigned] at this

/-! ### non-vacuity: the hypotheses hold for the wrecked example of C06.lean -/

example : SignedWF C05Tree.exSigned ∧ Wharf.Archive.TInv exWrecked ∧ NoDirSymlink C05Tree.exSigned exWrecked ∧
    ParentsFirst C05Tree.exSigned := by
  refine ⟨⟨by decide, by decide, ?_⟩, ⟨by decide, by decide, ?_⟩, ?_, ?_⟩
  · intro p hp j hj1 hj2
    simp only [allPaths, C05Tree.exSigned, List.map_cons, List.map_nil, List.cons_append, List.nil_append,
      List.mem_cons, List.not_mem_nil, or_false] at hp
    rcases hp with rfl | rfl | rfl
    · simp at hj2; omega
    · simp at hj2; omega
    · have : j = 1 := by simp at hj2; omega
      subst this
      decide
  · unfold Wharf.Archive.IsDir; decide
  · intro p hp d
    simp only [C05Tree.exSigned, List.mem_singleton] at hp
    subst hp
    have : lstat exWrecked ["a"] = .ok (.file [7]) := by rfl
    rw [this]
    intro h; cases h
  · intro i h j hj1 hj2
    simp only [C05Tree.exSigned, List.length_singleton] at h
    have : i = 0 := by omega
    subst this
    simp only [C05Tree.exSigned, List.getElem_cons_zero, List.length_singleton] at hj2
    omega

end Wharf.C06
