/-
  C18 — Writing through a validating pool checks every block regardless of write sizes.
  Property theorems only (helper lemmas live in Wharf/Proofs/Validate.lean).
-/
import Wharf.Model.Validate
import Wharf.Proofs.Validate

namespace Wharf.C18
open Wharf Wharf.Validate

/-- Two consecutive `Write` calls behave like one call with the concatenated data. -/
theorem write_append (wound : Bool) (bs : Nat) (S : List Byte) (fi : Nat) (d : Drip) (a b : List Byte) :
    dripWrite wound bs S fi (dripWrite wound bs S fi d a) b = dripWrite wound bs S fi d (a ++ b) := by
  exact dripWrite_append d a b

/-- C18 (a): the whole observable outcome (bytes forwarded, markers, error flag, block counter) is
    independent of how the written bytes are sliced into `Write` calls. -/
theorem slicing_independent (wound : Bool) (bs : Nat) (S : List Byte) (fi : Nat) (slices : List (List Byte)) :
    dripSession wound bs S fi slices = dripSession wound bs S fi [slices.flatten] := by
  unfold dripSession
  rw [foldl_dripWrite, foldl_dripWrite]
  simp

/-- C18 (b), error mode: exactly the blocks before the first block that differs from the signed block at
    its position (or lies beyond the signed block count) reach the underlying pool, and the session
    fails iff there is such a block. -/
theorem error_mode (bs : Nat) (hbs : 0 < bs) (S : List Byte) (fi : Nat) (D : List Byte) :
    (dripSession false bs S fi [D]).inner = (goodPrefix bs S 0 (chunks bs D.length D)).1 ∧
    (dripSession false bs S fi [D]).err = !(goodPrefix bs S 0 (chunks bs D.length D)).2 := by
  have := error_session (S := S) (fi := fi) hbs D.length D 0 [] [] (Nat.le_refl _)
  rw [dripSession_single]
  simpa using this

/-- C18 (b'), error mode, per call: after writing the bytes `p` (in any slicing, before `Close`), the
    writer has failed iff some *complete* block of `p` is bad. -/
theorem error_mode_write (bs : Nat) (hbs : 0 < bs) (S : List Byte) (fi : Nat) (p : List Byte) :
    (dripWrite false bs S fi {} p).err = true ↔
      ∃ k, (k + 1) * bs ≤ p.length ∧ blockOk bs S k ((p.drop (k * bs)).take bs) = false := by
  have := error_write (S := S) (fi := fi) hbs p.length p 0 [] [] (Nat.le_refl _)
  simpa using this

/-- C18 (c): data equal to the signed content, or to a block-aligned prefix of it, passes unchanged. -/
theorem passthrough (bs : Nat) (hbs : 0 < bs) (S : List Byte) (fi : Nat) (k : Nat) :
    (dripSession false bs S fi [S.take (k * bs)]).inner = S.take (k * bs) ∧
    (dripSession false bs S fi [S.take (k * bs)]).err = false := by
  have := error_mode bs hbs S fi (S.take (k * bs))
  rw [goodPrefix_take hbs k] at this
  simpa using this

/-- C18 (d), wound mode: everything is forwarded, nothing fails, and the markers are exactly one per
    block of the written data, in order, with the verdict of that block. -/
theorem wound_mode (bs : Nat) (hbs : 0 < bs) (S : List Byte) (fi : Nat) (D : List Byte) :
    (dripSession true bs S fi [D]).inner = D ∧ (dripSession true bs S fi [D]).err = false ∧
    (dripSession true bs S fi [D]).wounds = markers bs S fi 0 (chunks bs D.length D) := by
  rw [wound_session_single hbs]
  simp

/-- C18 (e): marker `j` starts at `j*bs`; below the signed block count consecutive markers are contiguous
    and the last signed block ends at the signed length; it is a wound iff block `j` is bad. -/
theorem markers_shape (bs : Nat) (hbs : 0 < bs) (S : List Byte) (fi : Nat) (cs : List (List Byte)) (j : Nat)
    (hj : j < cs.length) :
    ∃ w, (markers bs S fi 0 cs)[j]? = some w ∧ w.index = fi ∧ w.start = j * bs ∧
      (j + 1 < Rsync.numBlocks bs S.length → w.stop = (j + 1) * bs) ∧
      (j + 1 = Rsync.numBlocks bs S.length → w.stop = S.length) ∧
      w.start ≤ w.stop ∧
      (w.kind = .file ↔ blockOk bs S j (cs.getD j []) = false) ∧
      (w.kind = .closedFile ↔ blockOk bs S j (cs.getD j []) = true) := by
  refine ⟨marker bs S fi j (blockOk bs S j (cs.getD j [])), ?_, ?_, ?_, ?_, ?_, ?_, ?_, ?_⟩
  · have := markers_getElem? (bs := bs) (S := S) (fi := fi) cs 0 j hj
    simpa using this
  · simp [marker]
  · simp [marker]
  · intro h; exact marker_stop_inner hbs h _
  · intro h; exact marker_stop_last hbs h _
  · exact (marker_wf j _).1
  · cases hb : blockOk bs S j (cs.getD j []) <;> simp [marker]
  · cases hb : blockOk bs S j (cs.getD j []) <;> simp [marker]

/-- Non-vacuity: two good blocks then a bad one, sliced irregularly. -/
example : (dripSession false 2 [1, 2, 3, 4, 5, 6] 0 [[1], [2, 3, 4, 9], [6]]).inner = [1, 2, 3, 4]
    ∧ (dripSession false 2 [1, 2, 3, 4, 5, 6] 0 [[1], [2, 3, 4, 9], [6]]).err = true := by
  decide

end Wharf.C18
