/-
  C15 — Diffing is deterministic regardless of scheduling: the concurrency part.

  Property theorems only (models: Wharf/Model/Fanout.lean, helper lemmas: Wharf/Proofs/Fanout.lean).

  (A) `MultiTS`: the per-file fan-out of `pwr.DiffContext.WritePatch` (one upstream reader copied by
      `multiread` into two `io.Pipe`s read by the differ and the signer, joined by `taskgroup.Do`).
  (B) `ScanTS`: the dispatcher / workers / collector pipeline of `bsdiff.DiffContext.Do`.

  Every theorem quantifies over ALL reachable states, i.e. over every interleaving of the goroutines, every
  slicing of the upstream reads, every buffer size of the consumers' reads, every number of workers `W ≥ 1`
  and every channel capacity.  Scope: error-free, uncancelled runs (see the header of the model file).

  Together with the slicing-independence theorems (`C04.scan_chunk_independent` for the signer; the differ
  model `Rsync.computeDiff` is a function of the content by construction, `C11.computeDiff_spec`) this
  gives: patch bytes and signature bytes are functions of the file contents and the settings alone.
-/
import Wharf.Model.Fanout
import Wharf.Proofs.Fanout
import Wharf.Props.C04
import Wharf.Props.C11

namespace Wharf.C15
open Wharf Wharf.Fanout

/-! ## (A) the multiread fan-out -/

/-- C15 (A1), nothing dropped, duplicated or reordered: in EVERY reachable state, for each of the two
    consumers, (bytes consumed so far) ++ (bytes of the chunk currently offered through its pipe) ++ (bytes not
    yet offered to it) is the whole upstream content.  So at all times both consumers have seen a prefix of
    the SAME byte sequence. -/
theorem multi_prefix_inv (content : List Byte) (s : MSt) (h : MReach content s) :
    s.consumed0 ++ s.pending0 ++ s.unoffered0 = content ∧
    s.consumed1 ++ s.pending1 ++ s.unoffered1 = content := by
  have hi := minv_reach h
  refine ⟨?_, ?_⟩
  · simpa [MSt.consumed0, MSt.pending0, MSt.unoffered0] using hi.data0
  · simpa [MSt.consumed1, MSt.pending1, MSt.unoffered1] using hi.data1

/-- C15 (A2), the join: `taskgroup.Do` leaves its receive loop (`allDone`) only when all three tasks
    (differ, signer, copier) have finished; the `done` channel is then empty. -/
theorem multi_join (content : List Byte) (s : MSt) (h : MReach content s) (hd : s.allDone = true) :
    s.fin0 = true ∧ s.fin1 = true ∧ s.finR = true ∧ s.doneQ = 0 := by
  have hi := minv_reach h
  have hr : s.recvd = 3 := by simpa [MSt.allDone] using hd
  have hc := hi.cnt
  simp only [b2n] at hc
  simp only [MSt.finR, decide_eq_true_eq]
  refine ⟨?_, ?_, ?_, ?_⟩ <;> (repeat' split at hc) <;> first | omega | simp_all

/-- C15 (A2'): the end marker is written only after `taskgroup.Do` has received the result of all three
    tasks, hence only after the differ, the signer and the copier have finished. -/
theorem multi_marker_after_all (content : List Byte) (s : MSt) (h : MReach content s)
    (ht : s.marker = true) :
    s.allDone = true ∧ s.fin0 = true ∧ s.fin1 = true ∧ s.finR = true := by
  have hd : s.allDone = true := by simpa [MSt.allDone] using (minv_reach h).mkr ht
  obtain ⟨a, b, c, _⟩ := multi_join content s h hd
  exact ⟨hd, a, b, c⟩

/-- C15 (A3): in every terminal state (end marker written) — whatever the interleaving, the slicing of the
    upstream reads and the sizes of the consumers' reads were — both consumers have consumed exactly the
    upstream content, no write is pending and upstream is exhausted. -/
theorem multi_final (content : List Byte) (s : MSt) (h : MReach content s) (ht : s.marker = true) :
    s.consumed0 = content ∧ s.consumed1 = content ∧ s.pipe0 = none ∧ s.pipe1 = none ∧ s.up = [] := by
  have hi := minv_reach h
  obtain ⟨_, _, _, hR⟩ := multi_marker_after_all content s h ht
  have hpc : s.pc = .done := by simpa [MSt.finR] using hR
  have hup : s.up = [] := hi.eofUp (hi.clEof (Or.inr (Or.inr hpc)))
  have hp0 : s.pipe0 = none := hi.p0 (by rw [hpc]; decide)
  have hp1 : s.pipe1 = none := hi.p1 (by rw [hpc]; decide)
  have h0 := hi.data0
  have h1 := hi.data1
  rw [hp0, hup] at h0
  rw [hp1, hup, hpc] at h1
  refine ⟨?_, ?_, hp0, hp1, hup⟩
  · simpa [MSt.consumed0] using h0
  · simpa [MSt.consumed1] using h1

/-- C15 (A4), schedule independence: two arbitrary complete runs over the same content — different
    interleavings, different read slicings — feed the same bytes to the differ and the same bytes to the
    signer. -/
theorem multi_schedule_independent (content : List Byte) (s s' : MSt)
    (h : MReach content s) (h' : MReach content s') (ht : s.marker = true) (ht' : s'.marker = true) :
    s.consumed0 = s'.consumed0 ∧ s.consumed1 = s'.consumed1 := by
  obtain ⟨a0, a1, _⟩ := multi_final content s h ht
  obtain ⟨b0, b1, _⟩ := multi_final content s' h' ht'
  exact ⟨a0.trans b0.symm, a1.trans b1.symm⟩

/-- C15 (A5): whatever a consumer computes from the sequence of its `Read` results, if that computation does
    not depend on how the bytes are sliced into reads, then in every terminal state its result is the one
    it computes from the content read in one piece. -/
theorem multi_outputs_determined {α β : Type} (diffOut : List (List Byte) → α) (signOut : List (List Byte) → β)
    (hd : ∀ rs, diffOut rs = diffOut [rs.flatten]) (hs : ∀ rs, signOut rs = signOut [rs.flatten])
    (content : List Byte) (s : MSt) (h : MReach content s) (ht : s.marker = true) :
    diffOut s.reads0 = diffOut [content] ∧ signOut s.reads1 = signOut [content] := by
  obtain ⟨a0, a1, _⟩ := multi_final content s h ht
  rw [hd s.reads0, hs s.reads1]
  exact ⟨by rw [show s.reads0.flatten = content from a0], by rw [show s.reads1.flatten = content from a1]⟩

/-- C15 (A5) for the signer of the model (`Sign.scanBlocks`, the blocks `CreateSignature` hashes): in every
    terminal state the hashed blocks are those of the content, whatever reads the pipe delivered (including
    the zero-length read caused by ctxcopy's final empty `Write`). -/
theorem sign_blocks_determined (bs : Nat) (hbs : 0 < bs) (content : List Byte) (s : MSt)
    (h : MReach content s) (ht : s.marker = true) :
    Sign.scanBlocks bs s.reads1 = Sign.scanBlocks bs [content] := by
  obtain ⟨_, a1, _⟩ := multi_final content s h ht
  rw [C04.scan_chunk_independent bs hbs s.reads1, show s.reads1.flatten = content from a1]

/-- C15 (A5) for the differ of the model (`Rsync.computeDiff` reads its source through `ReadAtLeast`, so
    it is a function of the consumed bytes): in every terminal state the operations are those of the content. -/
theorem diff_ops_determined (P : Rsync.Params) (olds : List Content) (pref : Option Nat)
    (content : List Byte) (s : MSt) (h : MReach content s) (ht : s.marker = true) :
    Rsync.computeDiff P olds (Content.ofList s.consumed0) pref
      = Rsync.computeDiff P olds (Content.ofList content) pref := by
  obtain ⟨a0, _⟩ := multi_final content s h ht
  rw [a0]

/-- C15 (A6), no deadlock and termination in error-free runs: every reachable state in which the end marker
    has not been written has an enabled transition, and there is a natural-number measure that every
    transition from a reachable state strictly decreases — so every run is finite and can only stop in a
    terminal state. -/
theorem multi_progress (content : List Byte) :
    (∀ s, MReach content s → s.marker = false → ∃ l s', mstep s l = some s') ∧
    (∃ μ : MSt → Nat, ∀ s s' l, MReach content s → mstep s l = some s' → μ s' < μ s) := by
  refine ⟨fun s h hm => minv_progress (minv_reach h) hm, mmu, fun s s' l h hs => mmu_step (minv_reach h) hs⟩

/-- C15 (A6'), terminal states are final: once the end marker is written no transition is enabled (no
    goroutine of this file's fan-out is left running or blocked half-way). -/
theorem multi_terminal_stuck (content : List Byte) (s : MSt) (h : MReach content s) (ht : s.marker = true)
    (l : MLbl) : mstep s l = none :=
  minv_terminal_stuck (minv_reach h) ht l

/-- C15 (A6''): a reachable state without enabled transition is terminal, and both consumers have consumed
    exactly the content. -/
theorem multi_stuck_terminal (content : List Byte) (s : MSt) (h : MReach content s)
    (hstuck : ∀ l, mstep s l = none) : s.marker = true ∧ s.consumed0 = content ∧ s.consumed1 = content := by
  have hm : s.marker = true := by
    cases hm : s.marker with
    | true => rfl
    | false =>
      obtain ⟨l, s', hs⟩ := (multi_progress content).1 s h hm
      rw [hstuck l] at hs
      cases hs
  obtain ⟨a0, a1, _⟩ := multi_final content s h hm
  exact ⟨hm, a0, a1⟩

/-! ## (B) the bsdiff block scanner -/

section Scan
variable {M : Type}

/-- C15 (B1), strictly in block order: in EVERY reachable state what has been forwarded to `writeMessages`
    is the complete output of blocks `0 … ci-1` (in order) followed by the first `k` matches of block `ci`,
    where `ci` is the collector's block index; when the collector has just seen block `ci`'s end-of-chunk
    marker it is the complete output of blocks `0 … ci`. -/
theorem scan_in_order (W n cap : Nat) (hW : 0 < W) (f : Nat → List M) (s : SSt M)
    (h : SReach W n cap f s) :
    (∃ k, k ≤ (f s.ci).length ∧ s.fwd = seqOut f s.ci ++ (f s.ci).take k) ∧
    (s.cpc = .handback → s.fwd = seqOut f (s.ci + 1)) ∧ s.ci ≤ n := by
  have hv := vinv_reach hW h
  obtain ⟨k, hk1, hk2, _, _, hk5⟩ := hv.cur
  refine ⟨⟨k, hk1, hk2⟩, ?_, ?_⟩
  · intro hc
    have hke : k = (f s.ci).length := (hk5 hc).1
    have hk2' : s.fwd = seqOut f s.ci ++ (f s.ci).take k := hk2
    rw [hk2', hke, seqOut_succ]
    simp
  · have h1 : s.ci ≤ s.di := hv.le1
    have h2 : s.di ≤ n := hv.le2
    omega

/-- C15 (B1'): at all times the forwarded sequence is a prefix of the sequential scan's output. -/
theorem scan_prefix (W n cap : Nat) (hW : 0 < W) (f : Nat → List M) (s : SSt M)
    (h : SReach W n cap f s) : s.fwd <+: seqOut f n := by
  have hv := vinv_reach hW h
  obtain ⟨k, _, hk2, hk3, _, _⟩ := hv.cur
  have hk2' : s.fwd = seqOut f s.ci ++ (f s.ci).take k := hk2
  have h1 : s.ci ≤ s.di := hv.le1
  have h2 : s.di ≤ n := hv.le2
  have hmono : ∀ a b, a ≤ b → seqOut f a <+: seqOut f b := by
    intro a b hab
    induction b with
    | zero =>
      have : a = 0 := by omega
      rw [this]; exact List.prefix_refl _
    | succ b ih =>
      by_cases he : a = b + 1
      · rw [he]; exact List.prefix_refl _
      · exact (ih (by omega)).trans (by rw [seqOut_succ]; exact List.prefix_append _ _)
  by_cases hlt : s.ci < n
  · have : s.fwd <+: seqOut f (s.ci + 1) := by
      rw [hk2', seqOut_succ]
      exact (List.prefix_append_right_inj _).mpr (List.take_prefix _ _)
    exact this.trans (hmono _ _ hlt)
  · have hk0 : k = 0 := hk3 (by show s.di ≤ s.ci; omega)
    have hcn : s.ci = n := by omega
    rw [hk2', hk0, hcn]
    simp

/-- C15 (B2): when the collector closes `matches` (so when `writeMessages` sees the end of its input), what
    was forwarded is exactly the sequential scan's output — for every number of workers `W ≥ 1`, every
    channel capacity and every interleaving. -/
theorem scan_final (W n cap : Nat) (hW : 0 < W) (f : Nat → List M) (s : SSt M)
    (h : SReach W n cap f s) (hc : s.closed = true) : s.fwd = seqOut f n := by
  have hv := vinv_reach hW h
  obtain ⟨k, _, hk2, hk3, _, _⟩ := hv.cur
  have hk2' : s.fwd = seqOut f s.ci ++ (f s.ci).take k := hk2
  have hcn : s.ci = n := hv.cDone (hv.clDone.mp hc)
  have h1 : s.ci ≤ s.di := hv.le1
  have h2 : s.di ≤ n := hv.le2
  have hk0 : k = 0 := hk3 (by show s.di ≤ s.ci; omega)
  rw [hk2', hk0, hcn]
  simp

/-- C15 (B2'), independence from the number of workers / CPUs: two complete runs with different worker
    counts, different channel capacities and different interleavings forward the same sequence. -/
theorem scan_workers_irrelevant (W W' n cap cap' : Nat) (hW : 0 < W) (hW' : 0 < W') (f : Nat → List M)
    (s s' : SSt M) (h : SReach W n cap f s) (h' : SReach W' n cap' f s')
    (hc : s.closed = true) (hc' : s'.closed = true) : s.fwd = s'.fwd := by
  rw [scan_final W n cap hW f s h hc, scan_final W' n cap' hW' f s' h' hc']

/-- C15 (B3), no deadlock and termination: as long as some goroutine of the scanner has not returned there
    is an enabled transition (in particular whenever `matches` is not yet closed), and a natural-number
    measure strictly decreases along every transition from a reachable state. -/
theorem scan_progress (W n cap : Nat) (hW : 0 < W) (hcap : 0 < cap) (f : Nat → List M) :
    (∀ s, SReach W n cap f s → ¬ s.quiescent W → ∃ l s', sstep W n cap f s l = some s') ∧
    (∀ s, SReach W n cap f s → s.closed = false → ∃ l s', sstep W n cap f s l = some s') ∧
    (∃ μ : SSt M → Nat, ∀ s s' l, SReach W n cap f s → sstep W n cap f s l = some s' → μ s' < μ s) := by
  have haux : ∀ s, SReach W n cap f s → SAux W s := by
    intro s h
    induction h with
    | init => exact saux_init W
    | step _ hs ih => exact saux_step ih hs
  refine ⟨fun s h hq => sprogress hW hcap (vinv_reach hW h) (haux s h) hq, ?_,
    smu W n f, fun s s' l h hs => smu_step hW (vinv_reach hW h) hs⟩
  intro s h hc
  refine sprogress hW hcap (vinv_reach hW h) (haux s h) ?_
  intro hq
  have hcl : s.closed = true := (vinv_reach hW h).clDone.mpr hq.2.1
  rw [hc] at hcl
  cases hcl

/-- C15 (B3'): a reachable state without enabled transition is one in which the dispatcher, the collector and
    all `W` workers have returned (no goroutine leaked or blocked), `matches` is closed and the forwarded
    sequence is the sequential output. -/
theorem scan_stuck_final (W n cap : Nat) (hW : 0 < W) (hcap : 0 < cap) (f : Nat → List M) (s : SSt M)
    (h : SReach W n cap f s) (hstuck : ∀ l, sstep W n cap f s l = none) :
    s.quiescent W ∧ s.closed = true ∧ s.fwd = seqOut f n := by
  have hq : s.quiescent W := by
    apply Classical.byContradiction
    intro hq
    obtain ⟨l, s', hs⟩ := (scan_progress W n cap hW hcap f).1 s h hq
    rw [hstuck l] at hs
    cases hs
  have hcl : s.closed = true := (vinv_reach hW h).clDone.mpr hq.2.1
  exact ⟨hq, hcl, scan_final W n cap hW f s h hcl⟩

/-- C15 (B4), the hand-back token discipline: in every reachable state at most `W` blocks are handed out but
    not yet handed back, the dispatcher is never ahead of the collector by more than one round, and the
    round-robin registers of dispatcher and collector are `i mod W`. -/
theorem scan_window (W n cap : Nat) (hW : 0 < W) (f : Nat → List M) (s : SSt M) (h : SReach W n cap f s) :
    s.ci ≤ s.di ∧ s.di ≤ s.ci + W ∧ s.di ≤ n ∧ s.dw = s.di % W ∧ s.cw = s.ci % W := by
  have hv := vinv_reach hW h
  exact ⟨hv.le1, hv.le3, hv.le2, hv.dwEq, hv.cwEq⟩

end Scan

/-! ### tie to the sequential model of `Do` (Wharf/Model/Bsdiff.lean) -/

open Wharf.Bsdiff in
/-- C15 (B5): instantiated with the sequential model's per-block analysis, the concurrent scanner forwards
    exactly `Bsdiff.allMatches` — the list the sequential model of `Do` feeds to `writeMessages` — for every
    worker count, capacity and interleaving.  (This discharges the "blocks are forwarded in block order"
    abstraction made in Wharf/Model/Bsdiff.lean.) -/
theorem scan_matches_sequential_model (obuf nbuf : Bytes) (searchFor : Nat → Nat → Nat → Nat × Nat)
    (blockSize n W cap : Nat) (hW : 0 < W) (ms : List Match)
    (hseq : allMatches obuf nbuf searchFor blockSize n 0 = some ms)
    (s : SSt Match) (h : SReach W n cap (blockMatches obuf nbuf searchFor blockSize n) s)
    (hc : s.closed = true) : s.fwd = ms := by
  rw [scan_final W n cap hW _ s h hc]
  have := allMatches_eq obuf nbuf searchFor blockSize n n 0 (by omega) ms (by simpa using hseq)
  simpa [seqOut] using this.symm

/-! ## non-vacuity -/

/-- A complete run of the fan-out over the content `[1,2,3,4,5]`: upstream delivers 3 bytes, then 2 bytes
    together with EOF; the differ reads with buffers of 2, 5, 4 bytes, the signer byte by byte (and once with a
    7-byte buffer); the differ finishes before the second pipe is even closed. -/
theorem witness_multi :
    ∃ s, MReach [1, 2, 3, 4, 5] s ∧
      (s.marker = true ∧ s.reads0 = [[1, 2], [3], [4, 5]] ∧ s.reads1 = [[1], [2], [3], [4], [5]]) := by
  exact mexists_of_run _
    [.rRead 3 false, .cRead0 2, .cRead0 5, .wNext, .cRead1 1, .cRead1 1, .cRead1 1, .wLoop,
     .rRead 2 true, .cRead0 4, .wNext, .cRead1 1, .cRead1 7, .wLoop,
     .rClose0, .cEof0, .rClose1, .tgRecv, .cEof1, .tgRecv, .tgRecv, .tgMarker]
    (fun s => s.marker = true ∧ s.reads0 = [[1, 2], [3], [4, 5]] ∧ s.reads1 = [[1], [2], [3], [4], [5]])
    (by decide)

example : ∃ s, MReach [1, 2, 3, 4, 5] s ∧
    (s.marker = true ∧ s.reads0 = [[1, 2], [3], [4, 5]] ∧ s.reads1 = [[1], [2], [3], [4], [5]]) :=
  witness_multi

/-- A complete run in which upstream signals EOF separately (`Read` = `(0, io.EOF)`): ctxcopy's final
    zero-length `Write` makes each consumer see one empty read before the pipes are closed. -/
theorem witness_multi_empty_write :
    ∃ s, MReach [7] s ∧ (s.marker = true ∧ s.reads0 = [[7], []] ∧ s.reads1 = [[7], []]) := by
  exact mexists_of_run _
    [.rRead 1 false, .cRead0 1, .wNext, .cRead1 1, .wLoop, .rEof, .cRead0 1, .wNext, .cRead1 1, .wLoop,
     .rClose0, .rClose1, .cEof1, .cEof0, .tgRecv, .tgRecv, .tgRecv, .tgMarker]
    (fun s => s.marker = true ∧ s.reads0 = [[7], []] ∧ s.reads1 = [[7], []])
    (by decide)

example : ∃ s, MReach [7] s ∧ (s.marker = true ∧ s.reads0 = [[7], []] ∧ s.reads1 = [[7], []]) :=
  witness_multi_empty_write

/-- An empty file still goes through the whole protocol. -/
example : ∃ s, MReach [] s ∧ (s.marker = true ∧ s.reads0 = [[]] ∧ s.reads1 = [[]]) := by
  exact mexists_of_run _
    [.rEof, .cRead0 1, .wNext, .cRead1 1, .wLoop, .rClose0, .rClose1, .cEof0, .cEof1,
     .tgRecv, .tgRecv, .tgRecv, .tgMarker]
    (fun s => s.marker = true ∧ s.reads0 = [[]] ∧ s.reads1 = [[]]) (by decide)

/-- The blocking structure is real: while the differ has not drained its pipe, the signer has been offered
    nothing of the chunk (sequential `MultiWriter`), and the copier cannot go on (`wNext` is disabled). -/
example : ∃ s, MReach [1, 2, 3] s ∧
    (s.reads0 = [[1]] ∧ s.pipe0 = some [2, 3] ∧ s.pipe1 = none ∧ s.reads1 = [] ∧ mstep s .wNext = none) := by
  exact mexists_of_run _ [.rRead 3 false, .cRead0 1]
    (fun s => s.reads0 = [[1]] ∧ s.pipe0 = some [2, 3] ∧ s.pipe1 = none ∧ s.reads1 = [] ∧ mstep s .wNext = none)
    (by decide)

/-- block `j` of the example yields the matches `[j, j+10]`, except block 1 which yields none -/
def exF : Nat → List Nat := fun j => if j = 1 then [] else [j, j + 10]

/-- A complete run of the scanner with 3 workers, 3 blocks and `matches` buffers of 2: workers 1 and 2 finish
    their blocks (and worker 1 even exits) before the collector has received anything; worker 0 and worker 2
    block on their full buffers.  At the end every goroutine has returned and the output is in block order. -/
theorem witness_scan :
    ∃ s, SReach 3 3 2 exF s ∧
      (s.closed = true ∧ s.fwd = [0, 10, 2, 12] ∧ s.dpc = .done ∧ s.cpc = .done ∧
        (s.ws 0).exited = true ∧ (s.ws 1).exited = true ∧ (s.ws 2).exited = true) := by
  exact sexists_of_run 3 3 2 exF
    [.dTake, .dSend, .wPick 0, .wSend 0, .wSend 0, .dTake, .dSend, .wPick 1, .wSend 1, .dTake, .dSend,
     .wPick 2, .wSend 2, .wSend 2, .dLoopEnd, .dClose, .dClose, .wExit 1, .dClose, .dClose, .cRecv, .wSend 0,
     .wExit 0, .cRecv, .cRecv, .cHand, .cRecv, .cHand, .cRecv, .wSend 2, .wExit 2, .cRecv, .cRecv, .cHand,
     .cClose]
    (fun s => s.closed = true ∧ s.fwd = [0, 10, 2, 12] ∧ s.dpc = .done ∧ s.cpc = .done ∧
      (s.ws 0).exited = true ∧ (s.ws 1).exited = true ∧ (s.ws 2).exited = true)
    (by decide)

example : ∃ s, SReach 3 3 2 exF s ∧
    (s.closed = true ∧ s.fwd = [0, 10, 2, 12] ∧ s.dpc = .done ∧ s.cpc = .done ∧
      (s.ws 0).exited = true ∧ (s.ws 1).exited = true ∧ (s.ws 2).exited = true) :=
  witness_scan

/-- The same blocks with 2 workers and one-slot buffers (worker 0 gets blocks 0 and 2, and must wait for its
    token before block 2 is handed to it): same output. -/
theorem witness_scan_two_workers :
    ∃ s, SReach 2 3 1 exF s ∧ (s.closed = true ∧ s.fwd = [0, 10, 2, 12]) := by
  exact sexists_of_run 2 3 1 exF
    [.dTake, .dSend, .dTake, .dSend, .wPick 0, .wSend 0, .wPick 1, .wSend 1, .cRecv, .wSend 0, .cRecv,
     .wSend 0, .cRecv, .cHand, .dTake, .dSend, .dLoopEnd, .dClose, .dClose, .dClose, .wPick 0, .wSend 0,
     .wExit 1, .cRecv, .cHand, .cRecv, .wSend 0, .cRecv, .wSend 0, .wExit 0, .cRecv, .cHand, .cClose]
    (fun s => s.closed = true ∧ s.fwd = [0, 10, 2, 12]) (by decide)

example : ∃ s, SReach 2 3 1 exF s ∧ (s.closed = true ∧ s.fwd = [0, 10, 2, 12]) :=
  witness_scan_two_workers

/-- The workers really run ahead of the collector: a reachable state in which block 1's complete result sits in
    worker 1's buffer and worker 1 is idle again while nothing of block 0 has been forwarded yet. -/
example : ∃ s, SReach 3 3 2 exF s ∧
    (s.fwd = [] ∧ s.ci = 0 ∧ (s.ws 1).out = [Item.eoc] ∧ (s.ws 1).rest = [] ∧ (s.ws 0).out = [Item.m 0]) := by
  exact sexists_of_run 3 3 2 exF
    [.dTake, .dSend, .dTake, .dSend, .wPick 1, .wSend 1, .wPick 0, .wSend 0]
    (fun s => s.fwd = [] ∧ s.ci = 0 ∧ (s.ws 1).out = [Item.eoc] ∧ (s.ws 1).rest = [] ∧ (s.ws 0).out = [Item.m 0])
    (by decide)

/-- The token matters: with 2 workers, after blocks 0 and 1 are handed out the dispatcher cannot take worker
    0's token again before the collector has handed it back. -/
example : ∃ s, SReach 2 3 1 exF s ∧ (s.di = 2 ∧ s.dpc = .take ∧ sstep 2 3 1 exF s .dTake = none) := by
  refine sexists_of_run 2 3 1 exF [.dTake, .dSend, .dTake, .dSend]
    (fun s => s.di = 2 ∧ s.dpc = .take ∧ (sstep 2 3 1 exF s .dTake).isNone = true) ?_ |>.imp fun s h => ?_
  · decide
  · exact ⟨h.1, h.2.1, h.2.2.1, by simpa using h.2.2.2⟩

end Wharf.C15
