/-
  C02 — In-place (overlay) patching commits to exactly the new build, for every visiting order of the two
  transposition map loops.  Property theorems only; helper lemmas live in Wharf/Proofs/Commit.lean.

  Full-strength statement (`CommitCorrect`): for well-formed old/new builds and the work lists recorded by the
  patching phase, `commit` applied to the tree holding exactly the old build succeeds and yields a tree that
  holds exactly the new build, whatever the two visiting orders are.  It used to be FALSE without `NoKindClash`
  (finding F8: a path whose kind changes between builds made commit fail; four shapes were recorded).  All four
  have been repaired since (findings F27, F8 (1)/(2), and F8 (3): a file that becomes a directory while another
  path is a copy of it now steps aside first, `Commit.moveSourcesAside`), and with ONE more hypothesis — the new
  directories are listed parents first, `DirOrder`, which `tlc.Walk` guarantees — the statement is PROVED:
  `commit_correct` in Props/C02Kinds.lean.  Without `DirOrder` the MODEL (which takes the directories as a list
  in any order) still fails on one instance (`g9_*`, `commitCorrect_false_9` there); no instance with well-formed
  builds and `DirOrder` fails, and the former machine-checked counterexample `commit_correct_counterexample`
  (F8 (3)) is gone: on that instance the commit now succeeds (`commit_f8_3_repaired` below; that it yields
  exactly the new build is `f8_3_ok` in Props/C02Kinds.lean).  `commit_correct_partial` below, with the much
  stronger `NoKindClash`, is kept; it is a corollary (`commit_correct_partial_of_kinds`).

  Status: all three stages (`commit_correct_notransp_nosym_partial`, `commit_correct_notransp_partial`,
  `commit_correct_partial`) are proved, with the hypotheses `BuildWF`, `NoKindClash`, `WorkOK`, the two orders
  being permutations of the distinct source paths.  The injectivity of the temporary names (`seedName`) is
  proved (`Commit.seedName_inj`), not assumed.  The hypotheses are shown satisfiable on a concrete instance at
  the end of the file.

  F22: the statements used to carry one more hypothesis, `NoTempNames old new` (no build path looks like a
  temporary name `<output>.butler-rename-N`).  Trying to discharge it showed that the code did NOT guarantee
  it: a build containing such a file lost it during an in-place swap.  The code was fixed (the numbering skips
  the names that are paths of the old or of the new container), the model follows (`Commit.nextFree`), and
  the hypothesis is gone: that the temporary names are not build paths is now the proved postcondition of
  the skip loop (`Commit.nextFree_spec`).  No residue of it is needed: distinct outputs get distinct temporary
  names because `seedName` is injective in the path, and a temporary name differs from every output path
  because outputs are build paths.  `temp_name_lookalike_ok` below is the former losing instance.
-/
import Wharf.Model.Commit
import Wharf.Proofs.Commit

namespace Wharf.C02
open Wharf Wharf.FS Wharf.Commit

def allPaths (b : Build) : List Path := b.dirs ++ b.symlinks.map (·.1) ++ b.files.map (·.1)

/-- the set the fixed code consults (`pathInUse`, modelled by `Commit.pathsInUse`) is exactly the set of paths
    of the two builds -/
theorem pathsInUse_eq (old new : Build) : Commit.pathsInUse old new = allPaths old ++ allPaths new := rfl

/-- Well-formedness of a build as produced by `tlc.Walk`. -/
structure BuildWF (b : Build) : Prop where
  clean : ∀ p ∈ allPaths b, p ≠ [] ∧ ∀ c ∈ p, c ≠ ".." ∧ c ≠ "." ∧ c ≠ ""
  distinct : (allPaths b).Nodup
  parents : ∀ p ∈ allPaths b, ∀ j, 0 < j → j < p.length → p.take j ∈ b.dirs

inductive Kind where | dir | symlink | file deriving DecidableEq

def kindOf (b : Build) (p : Path) : Option Kind :=
  if p ∈ b.dirs then some .dir else if p ∈ b.symlinks.map (·.1) then some .symlink
  else if p ∈ b.files.map (·.1) then some .file else none

/-- No path changes kind between the builds (excludes F8). -/
def NoKindClash (old new : Build) : Prop :=
  ∀ p k k', kindOf old p = some k → kindOf new p = some k' → k = k'

/-- What the patching phase records (by C01/C14/C17 at the message level): every new file is handled in exactly
    one way; a transposition copies an old file with identical content; overlays are for paths that exist
    among the old files, staged plain files for those that do not. -/
structure WorkOK (old new : Build) (w : Work) : Prop where
  cover : ∀ i, i < new.files.length → i ∈ w.transpositions.map (·.1) ∨ i ∈ w.overlayFiles ∨ i ∈ w.moveFiles
  excl₁ : ∀ i, i ∈ w.transpositions.map (·.1) → i ∉ w.overlayFiles ∧ i ∉ w.moveFiles
  excl₂ : ∀ i, i ∈ w.overlayFiles → i ∉ w.moveFiles
  nodupT : (w.transpositions.map (·.1)).Nodup
  nodupO : w.overlayFiles.Nodup
  nodupM : w.moveFiles.Nodup
  transp : ∀ st ∈ w.transpositions, ∃ np op d, new.files[st.1]? = some (np, d) ∧ old.files[st.2]? = some (op, d)
  overlay : ∀ i ∈ w.overlayFiles, ∃ p d, new.files[i]? = some (p, d) ∧ p ∈ old.files.map (·.1)
  move : ∀ i ∈ w.moveFiles, ∃ p d, new.files[i]? = some (p, d) ∧ p ∉ old.files.map (·.1)

/-- the keys of the transposition map: distinct old (target) paths -/
def sourcesOf (old new : Build) (w : Work) : List Path :=
  ((w.transpositions.filterMap fun (s, tg) =>
      match new.files[s]?, old.files[tg]? with
      | some _, some (op, _) => some op
      | _, _ => none)).eraseDups

/-- The tree holds exactly build `b`. -/
def Holds (t : Tree) (b : Build) : Prop := ∀ p, t.get p = (treeOfBuild b).get p

/-- Full-strength statement.  With the parents-first listing of the new directories as one more hypothesis it is
    `commit_correct` (Props/C02Kinds.lean); without it the model fails on `g9_*` there. -/
def CommitCorrect : Prop :=
  ∀ (old new : Build) (w : Work) (order₁ order₂ : List Path),
    BuildWF old → BuildWF new → WorkOK old new w →
    order₁.Perm (sourcesOf old new w) → order₂.Perm (sourcesOf old new w) →
    ∃ t', commit old new w order₁ order₂ (treeOfBuild old) = .ok t' ∧ Holds t' new

/-! conversions to the mirrored definitions used by the helper lemmas in Wharf/Proofs/Commit.lean -/

theorem BuildWF.toBWF {b : Build} (h : BuildWF b) : Commit.BWF b := ⟨h.clean, h.distinct, h.parents⟩

theorem WorkOK.toWOK {old new : Build} {w : Work} (h : WorkOK old new w) : Commit.WOK old new w :=
  ⟨h.cover, h.excl₁, h.excl₂, h.nodupT, h.nodupO, h.nodupM, h.transp, h.overlay, h.move⟩

def convKind : Commit.Kind → Kind
  | .dir => .dir
  | .symlink => .symlink
  | .file => .file

theorem kindOf_conv (b : Build) (p : Path) : kindOf b p = (Commit.kindOf b p).map convKind := by
  unfold kindOf Commit.kindOf
  split
  · rfl
  · split
    · rfl
    · split <;> rfl

theorem NoKindClash.toNKC {old new : Build} (h : NoKindClash old new) : Commit.NKC old new := by
  intro p k k' h1 h2
  have := h p (convKind k) (convKind k') (by rw [kindOf_conv, h1]; rfl) (by rw [kindOf_conv, h2]; rfl)
  cases k <;> cases k' <;> first | rfl | cases this

/-- C02, stage A: no transpositions, no symlinks in either build. -/
theorem commit_correct_notransp_nosym_partial (old new : Build) (w : Work)
    (hold : BuildWF old) (hnew : BuildWF new) (hk : NoKindClash old new) (hw : WorkOK old new w)
    (hT : w.transpositions = []) (_hso : old.symlinks = []) (_hsn : new.symlinks = []) :
    ∃ t', commit old new w [] [] (treeOfBuild old) = .ok t' ∧ Holds t' new := by
  -- symlink-freeness (`_hso`, `_hsn`) is not needed: the proof of stage B applies verbatim
  obtain ⟨t', h1, _, h2⟩ := Commit.commit_notransp hold.toBWF hnew.toBWF hk.toNKC hw.toWOK hT
  exact ⟨t', h1, h2⟩

/-- C02, stage B: no transpositions; symlinks allowed. -/
theorem commit_correct_notransp_partial (old new : Build) (w : Work)
    (hold : BuildWF old) (hnew : BuildWF new) (hk : NoKindClash old new) (hw : WorkOK old new w)
    (hT : w.transpositions = []) :
    ∃ t', commit old new w [] [] (treeOfBuild old) = .ok t' ∧ Holds t' new := by
  obtain ⟨t', h1, _, h2⟩ := Commit.commit_notransp hold.toBWF hnew.toBWF hk.toNKC hw.toWOK hT
  exact ⟨t', h1, h2⟩

theorem sourcesOf_eq (old new : Build) (w : Work) : sourcesOf old new w = Commit.srcsOf old new w := by
  unfold sourcesOf Commit.srcsOf Commit.tsOf
  rw [List.map_filterMap]
  congr 1
  apply Commit.filterMap_congr'
  intro st _
  obtain ⟨s, tg⟩ := st
  simp only
  cases new.files[s]? <;> cases old.files[tg]? <;> rfl

/-- C02, stage C: transpositions, every pair of visiting orders. -/
theorem commit_correct_partial (old new : Build) (w : Work) (order₁ order₂ : List Path)
    (hold : BuildWF old) (hnew : BuildWF new) (hk : NoKindClash old new)
    (hw : WorkOK old new w)
    (ho₁ : order₁.Perm (sourcesOf old new w)) (ho₂ : order₂.Perm (sourcesOf old new w)) :
    ∃ t', commit old new w order₁ order₂ (treeOfBuild old) = .ok t' ∧ Holds t' new := by
  rw [sourcesOf_eq] at ho₁ ho₂
  obtain ⟨t', h1, _, h2⟩ := Commit.commit_spec hold.toBWF hnew.toBWF hk.toNKC hw.toWOK ho₁ ho₂
  exact ⟨t', h1, h2⟩

/-- consequence: the result does not depend on the visiting orders -/
theorem commit_order_independent (old new : Build) (w : Work) (o₁ o₂ o₁' o₂' : List Path)
    (hold : BuildWF old) (hnew : BuildWF new) (hk : NoKindClash old new)
    (hw : WorkOK old new w)
    (h₁ : o₁.Perm (sourcesOf old new w)) (h₂ : o₂.Perm (sourcesOf old new w))
    (h₁' : o₁'.Perm (sourcesOf old new w)) (h₂' : o₂'.Perm (sourcesOf old new w)) :
    ∃ t t', commit old new w o₁ o₂ (treeOfBuild old) = .ok t ∧
            commit old new w o₁' o₂' (treeOfBuild old) = .ok t' ∧ ∀ p, t.get p = t'.get p := by
  obtain ⟨t, ht, hh⟩ := commit_correct_partial old new w o₁ o₂ hold hnew hk hw h₁ h₂
  obtain ⟨t', ht', hh'⟩ := commit_correct_partial old new w o₁' o₂' hold hnew hk hw h₁' h₂'
  exact ⟨t, t', ht, ht', fun p => (hh p).trans (hh' p).symm⟩

/-! ### the hypotheses are satisfiable

  A concrete, non-trivial instance: a swap `a <-> b` (two transpositions whose outputs are each other's
  sources, so both get temporary names), an overlay (`d/o`), a staged new file in a new directory (`n/s`), a
  symlink whose destination changes (`l`) and a deleted directory with a file in it (`gone/x`).  All
  hypotheses of `commit_correct_partial` hold (checked by `decide`), so the theorem applies. -/

/-- decidable sufficient condition for `NoKindClash` -/
theorem NoKindClash.of_check {old new : Build}
    (h : ∀ p ∈ allPaths new, kindOf old p = none ∨ kindOf old p = kindOf new p) : NoKindClash old new := by
  intro p k k' h1 h2
  have hp : p ∈ allPaths new := by
    simp only [allPaths, List.mem_append]
    unfold kindOf at h2
    split at h2
    · left; left; assumption
    · split at h2
      · left; right; assumption
      · split at h2
        · right; assumption
        · cases h2
  rcases h p hp with h | h
  · rw [h] at h1; cases h1
  · rw [h, h2] at h1; cases h1; rfl

def exOld : Build :=
  { dirs := [["d"], ["gone"]],
    symlinks := [(["l"], "a")],
    files := [(["a"], [1]), (["b"], [2]), (["d", "o"], [3]), (["gone", "x"], [4])] }
def exNew : Build :=
  { dirs := [["d"], ["n"]],
    symlinks := [(["l"], "b")],
    files := [(["a"], [2]), (["b"], [1]), (["d", "o"], [5]), (["n", "s"], [6])] }
def exWork : Work := { transpositions := [(0, 1), (1, 0)], overlayFiles := [2], moveFiles := [3] }

theorem parents_of_check {b : Build}
    (h : ∀ p ∈ allPaths b, ∀ j, j < p.length → 0 < j → p.take j ∈ b.dirs) :
    ∀ p ∈ allPaths b, ∀ j, 0 < j → j < p.length → p.take j ∈ b.dirs :=
  fun p hp j h1 h2 => h p hp j h2 h1

theorem exOld_wf : BuildWF exOld := ⟨by decide, by decide, parents_of_check (by decide)⟩
theorem exNew_wf : BuildWF exNew := ⟨by decide, by decide, parents_of_check (by decide)⟩
theorem ex_nkc : NoKindClash exOld exNew := NoKindClash.of_check (by decide)
theorem ex_work : WorkOK exOld exNew exWork := by
  refine ⟨by decide, by decide, by decide, by decide, by decide, by decide, ?_, ?_, ?_⟩
  · intro st hst
    simp only [exWork, List.mem_cons, List.not_mem_nil, or_false] at hst
    rcases hst with rfl | rfl
    · exact ⟨_, _, _, rfl, rfl⟩
    · exact ⟨_, _, _, rfl, rfl⟩
  · intro i hi
    simp only [exWork, List.mem_cons, List.not_mem_nil, or_false] at hi
    subst hi
    exact ⟨_, _, rfl, by decide⟩
  · intro i hi
    simp only [exWork, List.mem_cons, List.not_mem_nil, or_false] at hi
    subst hi
    exact ⟨_, _, rfl, by decide⟩

example : ∃ t', commit exOld exNew exWork [["a"], ["b"]] [["b"], ["a"]] (treeOfBuild exOld) = .ok t' ∧
    Holds t' exNew :=
  commit_correct_partial exOld exNew exWork _ _ exOld_wf exNew_wf ex_nkc ex_work (by decide) (by decide)

/-! ### F22: builds that contain files named like temporary names

  The instance that exposed F22.  The old build has `a`, `b` and two files that are named exactly like the
  temporary names the first pass would hand out: `a.butler-rename-1` and `b.butler-rename-2`; the new build
  swaps the contents of `a` and `b` and keeps the two look-alikes.  The patcher records four transpositions
  (`b → a`, `a → b`, and the two look-alikes onto themselves).  The outputs `a` and `b` are each other's
  sources, so both go through a temporary name.

  Before the fix (model and code alike), visiting the group of `b` first gave output `a` the name
  `a.butler-rename-1` and then output `b` the name `b.butler-rename-2`: the intermediate copies overwrote the
  two look-alike files and the cleanup renames moved them away.  The OLD model returned, for
  order₁ = [b, a, a.butler-rename-1, b.butler-rename-2] (evaluated with order₂ = [a, b, a.butler-rename-1,
  b.butler-rename-2] and with order₂ = [b.butler-rename-2, a.butler-rename-1, a, b]), the tree {a = [2], b = [1]} — BOTH
  look-alike files lost, commit reporting success — and the right tree when `a` was visited first (names
  `b.butler-rename-1`, `a.butler-rename-2`); the real code lost the file in the same way, depending on Go's
  map order.  (`la_first_pass` below records the colliding names: `safePass … []` is the old first pass.)  `NoTempNames` excluded the instance from the theorems.

  Now the numbering skips names in use (`Commit.nextFree`): visiting `b` first gives `a.butler-rename-2` and
  `b.butler-rename-3`.  The instance satisfies all hypotheses of `commit_correct_partial`, hence commit yields
  exactly the new build for EVERY pair of visiting orders. -/

def laOld : Build :=
  { files := [(["a"], [1]), (["b"], [2]), (["a.butler-rename-1"], [9]), (["b.butler-rename-2"], [8])] }
def laNew : Build :=
  { files := [(["a"], [2]), (["b"], [1]), (["a.butler-rename-1"], [9]), (["b.butler-rename-2"], [8])] }
def laWork : Work := { transpositions := [(0, 1), (1, 0), (2, 2), (3, 3)] }

theorem laOld_wf : BuildWF laOld := ⟨by decide, by decide, parents_of_check (by decide)⟩
theorem laNew_wf : BuildWF laNew := ⟨by decide, by decide, parents_of_check (by decide)⟩
theorem la_nkc : NoKindClash laOld laNew := NoKindClash.of_check (by decide)
theorem la_work : WorkOK laOld laNew laWork := by
  refine ⟨by decide, by decide, by decide, by decide, by decide, by decide, ?_, ?_, ?_⟩
  · intro st hst
    simp only [laWork, List.mem_cons, List.not_mem_nil, or_false] at hst
    rcases hst with rfl | rfl | rfl | rfl <;> exact ⟨_, _, _, rfl, rfl⟩
  · intro i hi
    simp only [laWork, List.not_mem_nil] at hi
  · intro i hi
    simp only [laWork, List.not_mem_nil] at hi

/-- the keys of the transposition map on this instance -/
theorem la_sources :
    sourcesOf laOld laNew laWork = [["b"], ["a"], ["a.butler-rename-1"], ["b.butler-rename-2"]] := by decide

/-- the instance really is outside what `NoTempNames` allowed: two temporary-looking names are build paths -/
theorem la_has_temp_names :
    seedName ["a"] 1 ∈ allPaths laOld ++ allPaths laNew ∧ seedName ["b"] 2 ∈ allPaths laOld ++ allPaths laNew := by
  decide

/-- the temporary names chosen now when `b`'s group is visited first: numbers 1 (for `a`) and 2 (for `b`) are
    skipped -/
theorem la_skips :
    nextFree (pathsInUse laOld laNew) ["a"] ((pathsInUse laOld laNew).length + 1) 1 = 2 ∧
    nextFree (pathsInUse laOld laNew) ["b"] ((pathsInUse laOld laNew).length + 1) 3 = 3 ∧
    nextFree (pathsInUse laOld laNew) ["b"] ((pathsInUse laOld laNew).length + 1) 2 = 3 := by
  decide

/-- with nothing in use the skip loop is the plain `renameSeed++` of the old code: `safePass … []` is the old
    first pass -/
theorem nextFree_nil (p : Path) (seed : Nat) : nextFree [] p ([] : List Path).length.succ seed = seed := rfl

/-- the temporary names of the cleanup renames when `b`'s group is visited first: the OLD first pass (nothing
    skipped) hands out two names that are files of the builds — which then got overwritten and renamed away;
    the fixed one hands out names that are not paths of either build -/
theorem la_first_pass :
    let ts : List Transpo := [⟨["b"], ["a"]⟩, ⟨["a"], ["b"]⟩, ⟨["a.butler-rename-1"], ["a.butler-rename-1"]⟩,
      ⟨["b.butler-rename-2"], ["b.butler-rename-2"]⟩]
    let order : List Path := [["b"], ["a"], ["a.butler-rename-1"], ["b.butler-rename-2"]]
    (safePass (groupsOf ts order) order []).2.map (·.targetPath) =
        [["a.butler-rename-1"], ["b.butler-rename-2"]] ∧
    (safePass (groupsOf ts order) order (pathsInUse laOld laNew)).2.map (·.targetPath) =
        [["a.butler-rename-2"], ["b.butler-rename-3"]] := by
  decide

/-- F22, fixed: with files named like temporary names in both builds, commit yields exactly the new build,
    whatever the two visiting orders. -/
theorem temp_name_lookalike_ok (order₁ order₂ : List Path)
    (ho₁ : order₁.Perm [["b"], ["a"], ["a.butler-rename-1"], ["b.butler-rename-2"]])
    (ho₂ : order₂.Perm [["b"], ["a"], ["a.butler-rename-1"], ["b.butler-rename-2"]]) :
    ∃ t', commit laOld laNew laWork order₁ order₂ (treeOfBuild laOld) = .ok t' ∧ Holds t' laNew :=
  commit_correct_partial laOld laNew laWork order₁ order₂ laOld_wf laNew_wf la_nkc la_work
    (by rw [la_sources]; exact ho₁) (by rw [la_sources]; exact ho₂)

/-- the visiting order on which the old model (and the old code) lost both look-alike files: `b` first -/
example : ∃ t', commit laOld laNew laWork
      [["b"], ["a"], ["a.butler-rename-1"], ["b.butler-rename-2"]]
      [["a"], ["b"], ["a.butler-rename-1"], ["b.butler-rename-2"]] (treeOfBuild laOld) = .ok t' ∧
    Holds t' laNew :=
  temp_name_lookalike_ok _ _ (by decide) (by decide)

/-- `a` first in the first loop, another order in the second -/
example : ∃ t', commit laOld laNew laWork
      [["a"], ["b"], ["a.butler-rename-1"], ["b.butler-rename-2"]]
      [["b.butler-rename-2"], ["b"], ["a.butler-rename-1"], ["a"]] (treeOfBuild laOld) = .ok t' ∧
    Holds t' laNew :=
  temp_name_lookalike_ok _ _ (by decide) (by decide)

/-- look-alikes visited first -/
example : ∃ t', commit laOld laNew laWork
      [["b.butler-rename-2"], ["a.butler-rename-1"], ["b"], ["a"]]
      [["a.butler-rename-1"], ["a"], ["b.butler-rename-2"], ["b"]] (treeOfBuild laOld) = .ok t' ∧
    Holds t' laNew :=
  temp_name_lookalike_ok _ _ (by decide) (by decide)

/-- F8 shape (1): a NON-EMPTY directory of the old build where a new (staged) file goes.  This used to be the F8
    witness (`os.Remove` of the directory failed, ENOTEMPTY); since the repair of F8 (1)/(2) `move` and the staged
    moves clear such a destination with `os.RemoveAll`, and the commit SUCCEEDS (`commit_f8_1_repaired`; that it
    yields exactly the new build is `f8_1_ok` in Props/C02Kinds.lean, and follows from
    `commit_correct_kinds_partial`). -/
def exF8Old : Build := { dirs := [["a"]], files := [(["a", "f"], [1])] }
def exF8New : Build := { files := [(["a"], [2])] }

theorem commit_f8_1_repaired :
    (match commit exF8Old exF8New { moveFiles := [0] } [] [] (treeOfBuild exF8Old) with
     | .ok _ => true | .error _ => false) = true := by
  decide +kernel

/-- F8 shape (3): a file that becomes a directory holding that very file renamed.  This used to be the F8 witness
    `commit_correct_counterexample` (the file was cleared by `ensureDirs` before the transposition read it, and
    the commit failed, EISDIR, in the model as in the code); since the repair of F8 (3) the file steps aside first
    (`moveSourcesAside`) and the commit SUCCEEDS (that it yields exactly the new build is `f8_3_ok` in
    Props/C02Kinds.lean, and follows from `commit_correct`). -/
def exF8cOld : Build := { files := [(["f"], [1]), (["k"], [3])] }
def exF8cNew : Build := { dirs := [["f"]], files := [(["f", "inner"], [1]), (["k"], [3])] }

theorem commit_f8_3_repaired :
    (match commit exF8cOld exF8cNew { transpositions := [(0, 0), (1, 1)] } [["f"], ["k"]] [["f"], ["k"]]
        (treeOfBuild exF8cOld) with
     | .ok _ => true | .error _ => false) = true := by
  decide +kernel

end Wharf.C02
