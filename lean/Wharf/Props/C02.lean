/-
  C02 — In-place (overlay) patching commits to exactly the new build, for every visiting order of the two
  transposition map loops.  Property theorems only; helper lemmas live in Wharf/Proofs/Commit.lean.

  Full-strength statement (`CommitCorrect`): for well-formed old/new builds and the work lists recorded by the
  patching phase, `commit` applied to the tree holding exactly the old build succeeds and yields a tree that
  holds exactly the new build, whatever the two visiting orders are.  It is FALSE without `NoKindClash`
  (finding F8: a path whose kind changes between builds makes commit fail; four shapes are recorded as known
  findings), so what is proved is `commit_correct_partial`, which adds that hypothesis.

  Status: all three stages (`commit_correct_notransp_nosym_partial`, `commit_correct_notransp_partial`,
  `commit_correct_partial`) are proved, with the hypotheses exactly as first written (`BuildWF`, `NoKindClash`,
  `NoTempNames`, `WorkOK`, the two orders being permutations of the distinct source paths).  The injectivity of
  the temporary names (`seedName`) is proved (`Commit.seedName_inj`), not assumed.  The hypotheses are shown
  satisfiable on a concrete instance at the end of the file.
-/
import Wharf.Model.Commit
import Wharf.Proofs.Commit

namespace Wharf.C02
open Wharf Wharf.FS Wharf.Commit

def allPaths (b : Build) : List Path := b.dirs ++ b.symlinks.map (·.1) ++ b.files.map (·.1)

/-- Well-formedness of a build as produced by `tlc.Walk`. -/
structure BuildWF (b : Build) : Prop where
  clean : ∀ p ∈ allPaths b, p ≠ [] ∧ ∀ c ∈ p, c ≠ ".." ∧ c ≠ "." ∧ c ≠ ""
  distinct : (allPaths b).Nodup
  parents : ∀ p ∈ allPaths b, ∀ j, 0 < j → j < p.length → p.take j ∈ b.dirs

inductive Kind where | dir | symlink | file deriving DecidableEq

def kindOf (b : Build) (p : Path) : Option Kind :=
  if p ∈ b.dirs then some .dir else if p ∈ b.symlinks.map (·.1) then some .symlink
  else if p ∈ b.files.map (·.1) then some .file else none

/-- No path changes kind between the builds (excludes F8). -/
def NoKindClash (old new : Build) : Prop :=
  ∀ p k k', kindOf old p = some k → kindOf new p = some k' → k = k'

/-- What the patching phase records (by C01/C14/C17 at the message level): every new file is handled in exactly
    one way; a transposition copies an old file with identical content; overlays are for paths that exist
    among the old files, staged plain files for those that do not. -/
structure WorkOK (old new : Build) (w : Work) : Prop where
  cover : ∀ i, i < new.files.length → i ∈ w.transpositions.map (·.1) ∨ i ∈ w.overlayFiles ∨ i ∈ w.moveFiles
  excl₁ : ∀ i, i ∈ w.transpositions.map (·.1) → i ∉ w.overlayFiles ∧ i ∉ w.moveFiles
  excl₂ : ∀ i, i ∈ w.overlayFiles → i ∉ w.moveFiles
  nodupT : (w.transpositions.map (·.1)).Nodup
  nodupO : w.overlayFiles.Nodup
  nodupM : w.moveFiles.Nodup
  transp : ∀ st ∈ w.transpositions, ∃ np op d, new.files[st.1]? = some (np, d) ∧ old.files[st.2]? = some (op, d)
  overlay : ∀ i ∈ w.overlayFiles, ∃ p d, new.files[i]? = some (p, d) ∧ p ∈ old.files.map (·.1)
  move : ∀ i ∈ w.moveFiles, ∃ p d, new.files[i]? = some (p, d) ∧ p ∉ old.files.map (·.1)

/-- the keys of the transposition map: distinct old (target) paths -/
def sourcesOf (old new : Build) (w : Work) : List Path :=
  ((w.transpositions.filterMap fun (s, tg) =>
      match new.files[s]?, old.files[tg]? with
      | some _, some (op, _) => some op
      | _, _ => none)).eraseDups

/-- No build path looks like one of the temporary names commit may use. -/
def NoTempNames (old new : Build) : Prop :=
  ∀ p ∈ new.files.map (·.1), ∀ k, seedName p k ∉ allPaths old ++ allPaths new

/-- The tree holds exactly build `b`. -/
def Holds (t : Tree) (b : Build) : Prop := ∀ p, t.get p = (treeOfBuild b).get p

/-- Full-strength statement (not provable: see F8). -/
def CommitCorrect : Prop :=
  ∀ (old new : Build) (w : Work) (order₁ order₂ : List Path),
    BuildWF old → BuildWF new → NoTempNames old new → WorkOK old new w →
    order₁.Perm (sourcesOf old new w) → order₂.Perm (sourcesOf old new w) →
    ∃ t', commit old new w order₁ order₂ (treeOfBuild old) = .ok t' ∧ Holds t' new

/-! conversions to the mirrored definitions used by the helper lemmas in Wharf/Proofs/Commit.lean -/

theorem BuildWF.toBWF {b : Build} (h : BuildWF b) : Commit.BWF b := ⟨h.clean, h.distinct, h.parents⟩

theorem WorkOK.toWOK {old new : Build} {w : Work} (h : WorkOK old new w) : Commit.WOK old new w :=
  ⟨h.cover, h.excl₁, h.excl₂, h.nodupT, h.nodupO, h.nodupM, h.transp, h.overlay, h.move⟩

def convKind : Commit.Kind → Kind
  | .dir => .dir
  | .symlink => .symlink
  | .file => .file

theorem kindOf_conv (b : Build) (p : Path) : kindOf b p = (Commit.kindOf b p).map convKind := by
  unfold kindOf Commit.kindOf
  split
  · rfl
  · split
    · rfl
    · split <;> rfl

theorem NoKindClash.toNKC {old new : Build} (h : NoKindClash old new) : Commit.NKC old new := by
  intro p k k' h1 h2
  have := h p (convKind k) (convKind k') (by rw [kindOf_conv, h1]; rfl) (by rw [kindOf_conv, h2]; rfl)
  cases k <;> cases k' <;> first | rfl | cases this

/-- C02, stage A: no transpositions, no symlinks in either build. -/
theorem commit_correct_notransp_nosym_partial (old new : Build) (w : Work)
    (hold : BuildWF old) (hnew : BuildWF new) (hk : NoKindClash old new) (hw : WorkOK old new w)
    (hT : w.transpositions = []) (_hso : old.symlinks = []) (_hsn : new.symlinks = []) :
    ∃ t', commit old new w [] [] (treeOfBuild old) = .ok t' ∧ Holds t' new := by
  -- symlink-freeness (`_hso`, `_hsn`) is not needed: the proof of stage B applies verbatim
  obtain ⟨t', h1, _, h2⟩ := Commit.commit_notransp hold.toBWF hnew.toBWF hk.toNKC hw.toWOK hT
  exact ⟨t', h1, h2⟩

/-- C02, stage B: no transpositions; symlinks allowed. -/
theorem commit_correct_notransp_partial (old new : Build) (w : Work)
    (hold : BuildWF old) (hnew : BuildWF new) (hk : NoKindClash old new) (hw : WorkOK old new w)
    (hT : w.transpositions = []) :
    ∃ t', commit old new w [] [] (treeOfBuild old) = .ok t' ∧ Holds t' new := by
  obtain ⟨t', h1, _, h2⟩ := Commit.commit_notransp hold.toBWF hnew.toBWF hk.toNKC hw.toWOK hT
  exact ⟨t', h1, h2⟩

theorem sourcesOf_eq (old new : Build) (w : Work) : sourcesOf old new w = Commit.srcsOf old new w := by
  unfold sourcesOf Commit.srcsOf Commit.tsOf
  rw [List.map_filterMap]
  congr 1
  apply Commit.filterMap_congr'
  intro st _
  obtain ⟨s, tg⟩ := st
  simp only
  cases new.files[s]? <;> cases old.files[tg]? <;> rfl

/-- C02, stage C: transpositions, every pair of visiting orders. -/
theorem commit_correct_partial (old new : Build) (w : Work) (order₁ order₂ : List Path)
    (hold : BuildWF old) (hnew : BuildWF new) (hk : NoKindClash old new) (hnt : NoTempNames old new)
    (hw : WorkOK old new w)
    (ho₁ : order₁.Perm (sourcesOf old new w)) (ho₂ : order₂.Perm (sourcesOf old new w)) :
    ∃ t', commit old new w order₁ order₂ (treeOfBuild old) = .ok t' ∧ Holds t' new := by
  rw [sourcesOf_eq] at ho₁ ho₂
  obtain ⟨t', h1, _, h2⟩ := Commit.commit_spec hold.toBWF hnew.toBWF hk.toNKC hnt hw.toWOK ho₁ ho₂
  exact ⟨t', h1, h2⟩

/-- consequence: the result does not depend on the visiting orders -/
theorem commit_order_independent (old new : Build) (w : Work) (o₁ o₂ o₁' o₂' : List Path)
    (hold : BuildWF old) (hnew : BuildWF new) (hk : NoKindClash old new) (hnt : NoTempNames old new)
    (hw : WorkOK old new w)
    (h₁ : o₁.Perm (sourcesOf old new w)) (h₂ : o₂.Perm (sourcesOf old new w))
    (h₁' : o₁'.Perm (sourcesOf old new w)) (h₂' : o₂'.Perm (sourcesOf old new w)) :
    ∃ t t', commit old new w o₁ o₂ (treeOfBuild old) = .ok t ∧
            commit old new w o₁' o₂' (treeOfBuild old) = .ok t' ∧ ∀ p, t.get p = t'.get p := by
  obtain ⟨t, ht, hh⟩ := commit_correct_partial old new w o₁ o₂ hold hnew hk hnt hw h₁ h₂
  obtain ⟨t', ht', hh'⟩ := commit_correct_partial old new w o₁' o₂' hold hnew hk hnt hw h₁' h₂'
  exact ⟨t, t', ht, ht', fun p => (hh p).trans (hh' p).symm⟩

/-! ### the hypotheses are satisfiable

  A concrete, non-trivial instance: a swap `a <-> b` (two transpositions whose outputs are each other's
  sources, so both get temporary names), an overlay (`d/o`), a staged new file in a new directory (`n/s`), a
  symlink whose destination changes (`l`) and a deleted directory with a file in it (`gone/x`).  All
  hypotheses of `commit_correct_partial` hold (checked by `decide`), so the theorem applies. -/

/-- decidable sufficient condition for `NoKindClash` -/
theorem NoKindClash.of_check {old new : Build}
    (h : ∀ p ∈ allPaths new, kindOf old p = none ∨ kindOf old p = kindOf new p) : NoKindClash old new := by
  intro p k k' h1 h2
  have hp : p ∈ allPaths new := by
    simp only [allPaths, List.mem_append]
    unfold kindOf at h2
    split at h2
    · left; left; assumption
    · split at h2
      · left; right; assumption
      · split at h2
        · right; assumption
        · cases h2
  rcases h p hp with h | h
  · rw [h] at h1; cases h1
  · rw [h, h2] at h1; cases h1; rfl

/-- decidable sufficient condition for `NoTempNames`: the last component of a temporary name has at least 15
    characters (it contains `.butler-rename-`), so builds whose last components are all shorter contain none -/
theorem NoTempNames.of_short {old new : Build} (hne : ∀ p ∈ new.files.map (·.1), p ≠ [])
    (h : ∀ q ∈ allPaths old ++ allPaths new, ∀ l ∈ q.getLast?, l.length < 15) : NoTempNames old new := by
  intro p hp k hm
  have hpne := hne p hp
  have := h _ hm (p.getLast hpne ++ ".butler-rename-" ++ toString k)
    (by rw [Commit.seedName_of_ne hpne]; simp)
  simp only [String.length_append] at this
  have : (".butler-rename-" : String).length = 15 := by decide
  omega

def exOld : Build :=
  { dirs := [["d"], ["gone"]],
    symlinks := [(["l"], "a")],
    files := [(["a"], [1]), (["b"], [2]), (["d", "o"], [3]), (["gone", "x"], [4])] }
def exNew : Build :=
  { dirs := [["d"], ["n"]],
    symlinks := [(["l"], "b")],
    files := [(["a"], [2]), (["b"], [1]), (["d", "o"], [5]), (["n", "s"], [6])] }
def exWork : Work := { transpositions := [(0, 1), (1, 0)], overlayFiles := [2], moveFiles := [3] }

theorem parents_of_check {b : Build}
    (h : ∀ p ∈ allPaths b, ∀ j, j < p.length → 0 < j → p.take j ∈ b.dirs) :
    ∀ p ∈ allPaths b, ∀ j, 0 < j → j < p.length → p.take j ∈ b.dirs :=
  fun p hp j h1 h2 => h p hp j h2 h1

theorem exOld_wf : BuildWF exOld := ⟨by decide, by decide, parents_of_check (by decide)⟩
theorem exNew_wf : BuildWF exNew := ⟨by decide, by decide, parents_of_check (by decide)⟩
theorem ex_nkc : NoKindClash exOld exNew := NoKindClash.of_check (by decide)
theorem ex_ntn : NoTempNames exOld exNew := NoTempNames.of_short (by decide) (by decide)
theorem ex_work : WorkOK exOld exNew exWork := by
  refine ⟨by decide, by decide, by decide, by decide, by decide, by decide, ?_, ?_, ?_⟩
  · intro st hst
    simp only [exWork, List.mem_cons, List.not_mem_nil, or_false] at hst
    rcases hst with rfl | rfl
    · exact ⟨_, _, _, rfl, rfl⟩
    · exact ⟨_, _, _, rfl, rfl⟩
  · intro i hi
    simp only [exWork, List.mem_cons, List.not_mem_nil, or_false] at hi
    subst hi
    exact ⟨_, _, rfl, by decide⟩
  · intro i hi
    simp only [exWork, List.mem_cons, List.not_mem_nil, or_false] at hi
    subst hi
    exact ⟨_, _, rfl, by decide⟩

example : ∃ t', commit exOld exNew exWork [["a"], ["b"]] [["b"], ["a"]] (treeOfBuild exOld) = .ok t' ∧
    Holds t' exNew :=
  commit_correct_partial exOld exNew exWork _ _ exOld_wf exNew_wf ex_nkc ex_ntn ex_work (by decide) (by decide)

/-- F8 witness (machine-checked): a directory that becomes a file makes commit fail in the model as in the
    code. -/
def exF8Old : Build := { dirs := [["a"]], files := [(["a", "f"], [1])] }
def exF8New : Build := { files := [(["a"], [2])] }

theorem commit_correct_counterexample :
    (match commit exF8Old exF8New { moveFiles := [0] } [] [] (treeOfBuild exF8Old) with
     | .ok _ => true | .error _ => false) = false := by
  decide

end Wharf.C02
