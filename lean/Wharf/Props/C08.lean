/-
  C08 — Data already present in the old build is not sent again.
  Property theorems only (helper lemmas live in Wharf/Proofs/Reuse.lean).
-/
import Wharf.Model.Rsync
import Wharf.Props.C11
import Wharf.Proofs.Reuse

namespace Wharf.C08
open Wharf Wharf.Rsync

/-- C08 (a), the mechanism named in the property: the per-byte rolling update of the weak hash equals the
    weak hash computed from scratch on the shifted window, for every window of length `len ≥ 1` inside the
    content (all arithmetic is `uint32` with wrap-around, then reduced mod 2^16, exactly as in the code). -/
theorem roll_eq_scratch (c : Content) (k len : Nat) (hlen : 0 < len) :
    let (_, b1, b2) := betaHash c k len
    let αPop := (c.get k).toUInt32
    let αPush := (c.get (k + len)).toUInt32
    let b1' := rollβ1 b1 αPop αPush
    let b2' := rollβ2 b1' b2 αPop len.toUInt32
    (rollβ b1' b2', b1', b2') = betaHash c (k + 1) len := by
  have _ := hlen
  rw [betaHash_eq, betaHash_eq]
  simp only
  obtain ⟨h1, h2⟩ := roll_eq c k len
  rw [h1, h2]
  rfl

/-- C08 (b): the reused plus fresh byte counts add up to the size of the new content. -/
theorem accounting (P : Params) (hbs : 0 < P.bs) (hmx : 0 < P.maxDataOp) (olds : List Content)
    (src : Content) (pref : Option Nat) :
    ((computeDiff P olds src pref).map freshOf).sum +
      ((computeDiff P olds src pref).map (reusedOf P.bs olds.toArray)).sum = src.size := by
  obtain ⟨hg, hr⟩ := Wharf.C11.computeDiff_spec P hbs hmx olds src pref
  rw [← replay_length hbs _ hg.valid, hr, toList_length]

/-- C08 (c): a new file whose content equals that of some old file (any index, any path relation, any
    preferred index) contributes no fresh bytes. -/
theorem identical_no_fresh (P : Params) (hbs : 0 < P.bs) (hmx : 0 < P.maxDataOp) (olds : List Content)
    (src : Content) (pref : Option Nat) (j : Nat) (old : Content)
    (hj : olds[j]? = some old) (hsz : old.size = src.size) (heq : ∀ i, i < src.size → old.get i = src.get i) :
    ((computeDiff P olds src pref).map freshOf).sum = 0 :=
  computeDiff_ident hbs hmx hj hsz heq pref

/-- Non-vacuity: renamed content is found in full. -/
example : computeDiff ⟨2, 8⟩ [Content.ofList [9, 9, 9], Content.ofList [1, 2, 3, 4, 5]]
    (Content.ofList [1, 2, 3, 4, 5]) none = [.range 1 0 3] := by
  decide

end Wharf.C08
