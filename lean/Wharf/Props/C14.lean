/-
  C14 — An overlay turns the old file into the new file, whatever the write pattern.
  Property theorems only (helper lemmas live in Wharf/Proofs/Overlay.lean).
-/
import Wharf.Model.Overlay
import Wharf.Proofs.Overlay

namespace Wharf.C14
open Wharf Wharf.Overlay

/-- Total number of bytes written by a sequence of bufio events. -/
def written : List Ev → Nat
  | [] => 0
  | .write n :: evs => n + written evs
  | .flush :: evs => written evs

/-- C14 (a): for ANY partition of the new content into windows, applying the emitted overlay to the old
    file and truncating at the final position yields the new content.  No hypothesis on thresholds. -/
theorem correct (P : Params) (old new : List Byte) (ws : List Nat) (hsum : ws.sum = new.length) :
    patch (writeWindows P old new 0 ws) old = new := by
  have h := applyOps_writeWindows P old ws new [] 0 [] rfl (by omega)
  simp only [List.append_nil, List.nil_append, List.drop_zero, Nat.zero_add, applyOps] at h
  simp only [patch, h, hsum]
  have hlen : ¬ (new.take new.length ++ old.drop new.length).length < new.length := by
    simp only [List.length_append, List.length_take]; omega
  rw [if_neg hlen, List.take_left' (by simp), List.take_length]

/-- C14 (b): the windows tile the input and advance the read offset exactly: producing the overlay in two
    sessions, the second resumed at read offset `ws₁.sum` with the remaining content, gives the same ops. -/
theorem sessions (P : Params) (old new : List Byte) (ws₁ ws₂ : List Nat) (h : ws₁.sum ≤ new.length) :
    writeWindows P old new 0 (ws₁ ++ ws₂) =
      writeWindows P old new 0 ws₁ ++ writeWindows P old (new.drop ws₁.sum) ws₁.sum ws₂ := by
  have := writeWindows_append P old ws₁ ws₂ new 0 h
  rwa [Nat.zero_add] at this

/-- C14 (c): stale bytes after the end marker are never looked at. -/
theorem patch_ignores_suffix (ops junk : List OOp) (old : List Byte) (h : OOp.done ∉ ops) :
    patch (ops ++ .done :: junk) old = patch ops old := by
  simp only [patch, applyOps_append_done ops junk old 0 h]

/-- The writer never emits the end marker by itself (only `Finalize` does). -/
theorem writeWindows_no_done (P : Params) (old new : List Byte) (ro : Nat) (ws : List Nat) :
    OOp.done ∉ writeWindows P old new ro ws :=
  writeWindows_no_done' P old ws new ro

/-- C14 (d): the windows `bufio.Writer` hands to the processor for any sequence of writes and flushes
    (ending with the final flush of `Finalize`) add up to the bytes written. -/
theorem bufio_sum (W : Nat) (hW : 0 < W) (evs : List Ev) (buffered : Nat) (hb : buffered ≤ W) :
    (bufioWindows W evs buffered).sum = buffered + written evs := by
  induction evs generalizing buffered with
  | nil =>
    simp only [bufioWindows, written]
    split
    · simp
    · simp only [List.sum_nil]; omega
  | cons ev evs ih =>
    cases ev with
    | write n =>
      have hs := bufioWrite_spec W hW (n + 2) buffered n (by omega) hb
      simp only [bufioWindows, written]
      rcases hbw : bufioWrite W (n + 2) buffered n with ⟨ws, b⟩
      simp only [hbw] at hs
      simp only [List.sum_append, ih b hs.2]
      omega
    | flush =>
      simp only [bufioWindows, written, List.sum_append, ih 0 (Nat.zero_le _)]
      split
      · simp
      · simp only [List.sum_nil]; omega

/-- C14: whatever the write sizes and flush points, overlay + apply + truncate reproduces the new file. -/
theorem correct_any_write_pattern (P : Params) (hW : 0 < P.bufSize) (old new : List Byte) (evs : List Ev)
    (h : written evs = new.length) :
    patch (writeWindows P old new 0 (bufioWindows P.bufSize evs 0) ++ [OOp.done]) old = new := by
  rw [patch_ignores_suffix _ [] old (writeWindows_no_done P old new 0 _)]
  apply correct
  rw [bufio_sum P.bufSize hW evs 0 (Nat.zero_le _), Nat.zero_add, h]

/-- Non-vacuity: a window with a long equal run (skip), a changed byte (fresh) and growth past old EOF. -/
example : window ⟨16, 2⟩ [1, 2, 3, 4, 5, 6] [1, 2, 3, 9, 5, 6, 7, 8]
    = [.skip 3, .fresh [9, 5, 6], .fresh [7, 8]] := by
  decide

/-- Non-vacuity (bufio): a 12-byte write with `W = 4` is reported short by the processor (8 bytes, two
    windows), the remaining 4 bytes are buffered and flushed as a full window by the next write. -/
example : bufioWindows 4 [.write 12, .write 3, .flush, .write 9, .write 1] 0 = [4, 4, 4, 3, 4, 4, 2] := by
  decide

end Wharf.C14
