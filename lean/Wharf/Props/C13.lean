/-
  C13 — Messages survive framing; reader checkpoints resume exactly.
  Property theorems only (helper lemmas live in Wharf/Proofs/Wire.lean).
-/
import Wharf.Model.Wire
import Wharf.Proofs.Wire

namespace Wharf.C13
open Wharf Wharf.Wire

/-- uvarint round trip for every 64-bit length, with any bytes following. -/
theorem uvarint_roundtrip (n : Nat) (hn : n < 2 ^ 64) (rest : List Byte) :
    readUvarint (uvarint n ++ rest) = some (n, rest) := by
  exact readUvarint_uvarint n hn rest

/-- C13 (a): any sequence of message bodies written through the writer is read back as the same sequence
    followed by a clean end of stream (bodies of any size below 2^64, including empty ones). -/
theorem frames_roundtrip (bodies : List (List Byte)) (hlen : ∀ b ∈ bodies, b.length < 2 ^ 64) :
    parseFrames (bodies.length + 1) (frames bodies) = .ok bodies := by
  have h := parseFrames_frames_append bodies hlen 1 []
  rw [List.append_nil, parseFrames_nil] at h
  rw [h]
  simp [liftParse]

/-- A stream cut strictly inside its last frame is an error, never a shorter valid sequence. -/
theorem truncated_is_error (bodies : List (List Byte)) (body : List Byte) (hlen : ∀ b ∈ bodies, b.length < 2 ^ 64)
    (hb : body.length < 2 ^ 64) (k : Nat) (hk0 : 0 < k) (hk : k < (frame body).length) :
    ∃ e, parseFrames (bodies.length + 2) (frames bodies ++ (frame body).take k) = .err e := by
  obtain ⟨e, he⟩ := parseFrames_take_frame 1 body hb k hk0 hk
  refine ⟨e, ?_⟩
  rw [parseFrames_frames_append bodies hlen 2 _, he]
  rfl

/-- C13 (b): a checkpoint popped after `p` messages, handed to a new reader whose source restarts at ANY
    offset `o ≤` the popped offset (whatever the decompressor's own checkpoint granularity), resumes reading
    at exactly message `p`. -/
theorem resume_exact (bodies : List (List Byte)) (hlen : ∀ b ∈ bodies, b.length < 2 ^ 64) (p : Nat)
    (hp : p ≤ bodies.length) (srcCk o : Nat) (ho : o ≤ offsetAfter bodies p) :
    ∃ view, resumeView (frames bodies) (offsetAfter bodies p, srcCk) o = .ok view ∧
      parseFrames (bodies.length + 1) view = .ok (bodies.drop p) := by
  have hsplit : frames bodies = frames (bodies.take p) ++ frames (bodies.drop p) := by
    rw [← frames_append, List.take_append_drop]
  have hno : ¬ (o > offsetAfter bodies p) := by omega
  refine ⟨frames (bodies.drop p), ?_, ?_⟩
  · simp only [resumeView, hno, if_false]
    congr 1
    rw [List.drop_drop]
    have : o + (offsetAfter bodies p - o) = (frames (bodies.take p)).length := by
      simp only [offsetAfter] at ho ⊢
      omega
    rw [this, hsplit, List.drop_left]
  · have hl : ∀ b ∈ bodies.drop p, b.length < 2 ^ 64 :=
      fun b hb => hlen b (List.mem_of_mem_drop hb)
    have hfuel : bodies.length + 1 = (bodies.drop p).length + (p + 1) := by
      simp only [List.length_drop]; omega
    have h := parseFrames_frames_append (bodies.drop p) hl (p + 1) []
    rw [List.append_nil, parseFrames_nil] at h
    rw [hfuel, h]
    simp [liftParse]

/-- S2-respecting event lists: a source callback during a read reports an offset not beyond that read. -/
def RespectsS2 : Reader → List Ev → Prop
  | _, [] => True
  | r, e :: es =>
    (match e with
     | .read n (some o) => o ≤ r.offset + n
     | _ => True) ∧ RespectsS2 (step r e).1 es

/-- C13 (c): under S2 every popped checkpoint `(off, o)` carries the reader's offset at pop time and a source
    offset `o ≤ off`, so `Resume` never fails with "source resumed after our offset". -/
theorem popped_source_le (evs : List Ev) (r : Reader) (h : RespectsS2 r evs)
    (h0 : ∀ o, r.st = .has o → o ≤ r.offset) :
    ∀ c ∈ (run r evs).2, c.2 ≤ c.1 := by
  induction evs generalizing r with
  | nil => intro c hc; simp [run] at hc
  | cons e es ih =>
    intro c hc
    rw [run_cons] at hc
    simp only [List.mem_append] at hc
    obtain ⟨hs2, hrest⟩ := h
    cases hc with
    | inl hc =>
      -- the checkpoint popped by this very step
      cases e with
      | wantSave => simp only [step] at hc; split at hc <;> simp at hc
      | read n ck => simp only [step] at hc; split at hc <;> simp at hc
      | pop =>
        simp only [step] at hc
        split at hc
        · rename_i o hst
          simp only [Option.toList_some, List.mem_singleton] at hc
          subst hc
          exact h0 o hst
        · simp at hc
    | inr hc =>
      refine ih (step r e).1 hrest ?_ c hc
      intro o hst
      cases e with
      | wantSave =>
        simp only [step] at hst ⊢
        split at hst
        · simp at hst
        · exact h0 o hst
      | read n ck =>
        simp only [step] at hst ⊢
        split at hst
        · rename_i o' _
          simp only [SaveState.has.injEq] at hst
          subst hst
          simpa using hs2
        · simp only at hst ⊢
          have := h0 o hst
          omega
      | pop =>
        simp only [step] at hst ⊢
        split at hst
        · simp at hst
        · exact h0 o hst

/-- C13 (d): a source checkpoint is popped at most once and `WantSave` is idempotent while waiting: the number of checkpoints popped never exceeds the number of save requests relayed to the
    source (plus one if the reader started with a request outstanding). -/
theorem pops_le_asks (evs : List Ev) (r : Reader) :
    (run r evs).2.length + r.asked ≤ (run r evs).1.asked + (if r.st = .idle then 0 else 1) := by
  induction evs generalizing r with
  | nil => simp only [run, List.length_nil]; omega
  | cons e es ih =>
    rw [run_cons]
    have IH := ih (step r e).1
    have hs := step_pops r e
    simp only [List.length_append]
    omega

/-- Non-vacuity. -/
example : parseFrames 4 (frames [[1, 2, 3], [], [9]]) = .ok [[1, 2, 3], [], [9]] := by
  rfl

end Wharf.C13
