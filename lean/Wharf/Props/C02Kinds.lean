/-
  C02 with path-kind changes — the in-place commit yields exactly the new build also when paths change kind
  (file / directory / symlink) between the builds: ALL kind changes, since the repair of the last shape of
  finding F8.

  `commit_correct_partial` (Props/C02.lean) assumes `NoKindClash old new`: NO path changes kind.  That is much
  stronger than needed.  Here the hypothesis is replaced by `BenignKindChanges old new w`, which allows

      symlink -> file      the new file being staged OR the output of a transposition (a `move` or a `copy`)
      dir -> file          likewise, WHATEVER lies below the old directory (files of it may be renamed or copied
                           elsewhere — even onto the directory's own path; what is left goes with the directory)
      file -> dir          whatever happens to the old file (it may be renamed or copied elsewhere — even into
                           the new directory: it steps aside first, `Commit.moveSourcesAside`)
      file -> symlink      whatever happens to the old file (it may be renamed or copied elsewhere)
      symlink -> dir
      dir -> symlink       whatever lies below the old directory (files of it may be renamed or copied out),
                           whatever the symlink points to

  provided a new directory that replaces an old file or symlink is listed before the new directories below it
  (`DirOrder`, the only clause left; `tlc.Walk` lists parents first).  The headline statement is `commit_correct`:
  `BuildWF` of both builds, `DirOrder`, `WorkOK`, every pair of visiting orders.  `NoKindClash` implies
  `BenignKindChanges` (`NoKindClash.benign`), so `commit_correct_partial` is a corollary
  (`commit_correct_partial_of_kinds`).

  The clause is needed IN THE MODEL, which takes the new directories as a list in any order — it is violated by an
  instance on which the model's `commit` fails (machine-checked):
      (9) file -> dir, new directories listed child first         `g9_*`     error (ENOTDIR)  [model only]
  No instance with well-formed builds and `DirOrder` fails (the theorem).

  Ten more instances — the four recorded shapes of F8 among them — were genuine defects of the code (findings F25,
  F26, F27, F8 (1)/(2), F8 (3)).  The code has been repaired, the model follows, the clauses that excluded them
  are gone, and the instances are kept as POSITIVE ones (the commit now yields exactly the new build, `g5_ok`,
  `g6_ok`, `g7_ok`, `f8_4_ok`, `g8_ok`, `f8_1_ok`, `f8_2_ok`, `f8_3_ok`, `h11_ok`, `h12_ok`):
      (5) dir -> symlink, ghost reached THROUGH the new symlink   `g5_*`     was: success reported, a NEW file deleted
      (6) symlink -> file written by a transposition COPY         `g6_*`     was: success reported, symlink still there
      (7) emptydir -> file written by a transposition COPY        `g7_*`     was: error (EISDIR)
      F8 (4) dir -> symlink, a file of the directory renamed out `f8_4_*`   was: error (ENOENT)
      (8) file -> symlink, the old file renamed elsewhere         `g8_*`     was: success reported, the SYMLINK renamed
      F8 (1) dir -> file, new file, non-empty directory          `f8_1_*`   was: error (ENOTEMPTY)
      F8 (2) dir -> file, renamed file, non-empty directory      `f8_2_*`   was: error (ENOTEMPTY)
      F8 (3) file -> dir holding the old file renamed            `f8_3_*`   was: error (EISDIR)
      (11) F8 (3) next to a file -> symlink copied elsewhere     `h11_*`    was: success reported, a DIRECTORY renamed
      (12) F8 (3) onto a non-empty old directory                  `h12_*`    was: success reported, a DIRECTORY renamed
  F25: `deleteGhosts` now skips a ghost below a path that is a file or a symlink of the new build, so the second
  half of the former `dirToSymlink` clause ("the old paths below the directory are unreachable through the new
  symlink": `DeadEnd`) is gone.  F26: `copy` now removes a destination that is not a regular file before writing
  (as `move` always did), so the former `outputs` clause ("a transposition output does not land on an old
  directory or symlink") is gone altogether.  F27: `Commit` now puts the new symlinks in
  place AFTER the transpositions, the staged moves and the overlays (`ensureDirs` … `applyOverlays`,
  `ensureSymlinks`, `deleteGhosts`) instead of together with the directories at the start, so what a new symlink
  replaces is still there while the files are renamed and copied: the first half of `dirToSymlink` ("no
  transposition source below an old directory that becomes a symlink") is gone, and so is the second half of
  `sources` ("a transposition source does not become a symlink").  F8 (1)/(2): `move` (the transpositions'
  renames, the cleanup renames) and the staged moves clear a destination that is a DIRECTORY with `os.RemoveAll`
  (`Commit.clearDest`), and a transposition output that is a directory of the old build gets a temporary name
  and a cleanup rename, like an output that is some group's source (`safePass … old.dirs`), so that it is put
  in place only after every group has been read.  The former clause `emptyDir` ("an old directory that becomes a
  file is empty") is gone: when the staged moves and the cleanup renames run, whatever is left below such a
  directory is a ghost — nothing of the new build lies below a path that is a file of the new build — and the
  second pass never writes onto such a directory (`Commit.Soft`, `Commit.cleanup_specD`, `Commit.stageFold_specD`).
  F8 (3): a new first phase, `moveSourcesAside`, renames every file of the old build that is a transposition
  source AND whose own path is a directory of the new build to `<path>.butler-aside-N` (a name that is not a path
  of either build: `Commit.nextFreeAside_spec`) BEFORE `ensureDirs` clears it away; `applyTranspositions` reads
  it from there.  The first half of `sources` ("a transposition source does not become a directory") — the last
  clause but `dirOrder` — is gone.  In the helper lemmas (Wharf/Proofs/CommitAside.lean) nothing of the later
  phases is redone: after `moveSourcesAside` the tree holds exactly a VIRTUAL old build, the old build with the
  files that stepped aside at their aside paths (`Commit.vb`), which is well formed, fits the same work record,
  and none of whose transposition sources becomes a directory; the rest of the commit IS the commit of that
  build (same transpositions, same temporary names: a `.butler-rename-N` name is never a `.butler-aside-M` name,
  `Commit.asideName_ne_seedName`), and the aside files are consumed — the last step of each of their groups is a
  rename — so ghost deletion, which knows nothing of them, finds nothing of them (`Commit.commit_specA`).

  The parent of a file that steps aside is never itself replaced: the file's path is a directory of the new
  build, so its parent is one too, and it is a directory of the old build because the file was there.

  What is left: see "what remains" at the end of the file.
-/
import Wharf.Props.C02
import Wharf.Proofs.CommitKinds
import Wharf.Proofs.CommitAside

namespace Wharf.C02
open Wharf Wharf.FS Wharf.Commit

/-- the output paths of the transpositions: new paths of the recorded (source, target) pairs.  (No clause of
    `BenignKindChanges` mentions them any more.) -/
def outputsOf (old new : Build) (w : Work) : List Path :=
  w.transpositions.filterMap fun (s, tg) =>
    match new.files[s]?, old.files[tg]? with
    | some (np, _), some _ => some np
    | _, _ => none

/-- A new directory that replaces an old file or an old symlink is listed before the new directories below it
    (`isPrefix p q` = "`q` lies strictly below `p`").  `tlc.Walk` lists a directory before what is below it, so the
    containers the code works with satisfy this; the model takes the directories as a list, and `ensureDirs`
    visits them in that order (`g9_*` below: listed child first, `mkdir -p` meets the old file). -/
def DirOrder (new old : Build) : Prop :=
  new.dirs.Pairwise (fun a b => isPrefix b a = true →
    b ∉ old.files.map (·.1) ∧ b ∉ old.symlinks.map (·.1))

instance (new old : Build) : Decidable (DirOrder new old) := by unfold DirOrder; infer_instance

/-- Benign kind changes: what the commit needs of the paths that change kind between the builds — since the
    repair of finding F8 (3) only that the new directories come parents first (`DirOrder`).

    Nothing is asked of a path that becomes a SYMLINK: since the repair of finding F27 the new symlinks are put
    in place after the transpositions, the staged moves and the overlays, so whatever stood there — a file, or a
    directory with all that is below it — is still in place while files are renamed and copied out of it, and
    goes away (`os.RemoveAll`) afterwards.  (The old paths below it are ghosts; since the repair of finding F25
    `deleteGhosts` skips them instead of looking them up THROUGH the new symlink, so nothing is asked of the
    symlink's destination either.)  The former clause `dirToSymlink` is gone.

    Nothing is asked of a path that becomes a regular FILE either: since the repair of finding F8 (1)/(2) a
    directory standing where a staged file or a cleanup rename goes is removed with all that is left below it
    (`os.RemoveAll`), and a transposition output that is a directory of the old build is written under a
    temporary name first, so the files below it are still there when their groups are read.  The former clause
    `emptyDir` is gone.

    Nothing is asked of a path that becomes a DIRECTORY beyond the listing order: since the repair of finding
    F8 (3) an old file that some new file is a copy or a rename of, and whose own path is a directory of the new
    build, is renamed to `<path>.butler-aside-N` before `ensureDirs` clears it away, and the transpositions read
    it from there (`Commit.moveSourcesAside`, `Commit.asideOf`).  The former clause `sources` (no transposition
    source is a directory of the new build) is gone. -/
structure BenignKindChanges (old new : Build) (w : Work) : Prop where
  /-- file → dir, symlink → dir: the replaced path is listed before the new directories below it -/
  dirOrder : DirOrder new old

theorem outputsOf_eq (old new : Build) (w : Work) :
    outputsOf old new w = (Commit.tsOf old new w).map (·.outputPath) := by
  unfold outputsOf Commit.tsOf
  rw [List.map_filterMap]
  apply Commit.filterMap_congr'
  intro st _
  obtain ⟨s, tg⟩ := st
  simp only
  cases new.files[s]? <;> cases old.files[tg]? <;> rfl

theorem allPaths_eq (b : Build) : allPaths b = Commit.pathsOf b := rfl

/-- C02 with kind changes: transpositions, every pair of visiting orders. -/
theorem commit_correct_kinds_partial (old new : Build) (w : Work) (order₁ order₂ : List Path)
    (hold : BuildWF old) (hnew : BuildWF new) (hb : BenignKindChanges old new w)
    (hw : WorkOK old new w)
    (ho₁ : order₁.Perm (sourcesOf old new w)) (ho₂ : order₂.Perm (sourcesOf old new w)) :
    ∃ t', commit old new w order₁ order₂ (treeOfBuild old) = .ok t' ∧ Holds t' new := by
  rw [sourcesOf_eq] at ho₁ ho₂
  obtain ⟨t', h1, _, h2⟩ := Commit.commit_specA hold.toBWF hnew.toBWF hb.dirOrder hw.toWOK ho₁ ho₂
  exact ⟨t', h1, h2⟩

/-- C02, the headline statement: for well-formed builds whose new directories are listed parents first (as
    `tlc.Walk` lists them) and the work record of the patching phase, `commit` applied to the tree holding exactly
    the old build succeeds and yields a tree holding exactly the new build — whatever paths change kind between
    the builds, whatever the two visiting orders of the transposition maps.  (`CommitCorrect` of Props/C02.lean
    plus `DirOrder`; without `DirOrder` the MODEL fails on `g9_*`.) -/
theorem commit_correct (old new : Build) (w : Work) (order₁ order₂ : List Path)
    (hold : BuildWF old) (hnew : BuildWF new) (hdo : DirOrder new old) (hw : WorkOK old new w)
    (ho₁ : order₁.Perm (sourcesOf old new w)) (ho₂ : order₂.Perm (sourcesOf old new w)) :
    ∃ t', commit old new w order₁ order₂ (treeOfBuild old) = .ok t' ∧ Holds t' new :=
  commit_correct_kinds_partial old new w order₁ order₂ hold hnew ⟨hdo⟩ hw ho₁ ho₂

/-- consequence: the result does not depend on the visiting orders -/
theorem commit_kinds_order_independent (old new : Build) (w : Work) (o₁ o₂ o₁' o₂' : List Path)
    (hold : BuildWF old) (hnew : BuildWF new) (hb : BenignKindChanges old new w)
    (hw : WorkOK old new w)
    (h₁ : o₁.Perm (sourcesOf old new w)) (h₂ : o₂.Perm (sourcesOf old new w))
    (h₁' : o₁'.Perm (sourcesOf old new w)) (h₂' : o₂'.Perm (sourcesOf old new w)) :
    ∃ t t', commit old new w o₁ o₂ (treeOfBuild old) = .ok t ∧
            commit old new w o₁' o₂' (treeOfBuild old) = .ok t' ∧ ∀ p, t.get p = t'.get p := by
  obtain ⟨t, ht, hh⟩ := commit_correct_kinds_partial old new w o₁ o₂ hold hnew hb hw h₁ h₂
  obtain ⟨t', ht', hh'⟩ := commit_correct_kinds_partial old new w o₁' o₂' hold hnew hb hw h₁' h₂'
  exact ⟨t, t', ht, ht', fun p => (hh p).trans (hh' p).symm⟩

/-! ### `NoKindClash` is a special case -/

theorem kindOf_dir' {b : Build} {p : Path} (h : p ∈ b.dirs) : kindOf b p = some .dir := by
  simp [kindOf, h]

theorem kindOf_symlink' {b : Build} (hb : BuildWF b) {p : Path} (h : p ∈ b.symlinks.map (·.1)) :
    kindOf b p = some .symlink := by
  have : p ∉ b.dirs := fun hd => hb.toBWF.dir_not_symlink hd h
  simp only [kindOf, if_neg this, if_pos h]

theorem kindOf_file' {b : Build} (hb : BuildWF b) {p : Path} (h : p ∈ b.files.map (·.1)) :
    kindOf b p = some .file := by
  have h1 : p ∉ b.dirs := fun hd => hb.toBWF.dir_not_file hd h
  have h2 : p ∉ b.symlinks.map (·.1) := fun hd => hb.toBWF.symlink_not_file hd h
  simp only [kindOf, if_neg h1, if_neg h2, if_pos h]

/-- no kind change at all is a benign kind change -/
theorem NoKindClash.benign {old new : Build} (w : Work) (hold : BuildWF old) (_hnew : BuildWF new)
    (hk : NoKindClash old new) : BenignKindChanges old new w := by
  constructor
  apply List.pairwise_of_forall_mem_list
  intro a _ b hb _
  constructor
  · intro h
    cases hk _ _ _ (kindOf_file' hold h) (kindOf_dir' hb)
  · intro h
    cases hk _ _ _ (kindOf_symlink' hold h) (kindOf_dir' hb)

/-- `commit_correct_partial` (Props/C02.lean) as a corollary of the statement with kind changes -/
theorem commit_correct_partial_of_kinds (old new : Build) (w : Work) (order₁ order₂ : List Path)
    (hold : BuildWF old) (hnew : BuildWF new) (hk : NoKindClash old new)
    (hw : WorkOK old new w)
    (ho₁ : order₁.Perm (sourcesOf old new w)) (ho₂ : order₂.Perm (sourcesOf old new w)) :
    ∃ t', commit old new w order₁ order₂ (treeOfBuild old) = .ok t' ∧ Holds t' new :=
  commit_correct_kinds_partial old new w order₁ order₂ hold hnew (hk.benign w hold hnew) hw ho₁ ho₂

/-! ### checking the hypotheses on literal instances -/

/-- decidable sufficient condition for `WorkOK` -/
theorem WorkOK.of_check {old new : Build} {w : Work}
    (cover : ∀ i, i < new.files.length → i ∈ w.transpositions.map (·.1) ∨ i ∈ w.overlayFiles ∨ i ∈ w.moveFiles)
    (excl₁ : ∀ i ∈ w.transpositions.map (·.1), i ∉ w.overlayFiles ∧ i ∉ w.moveFiles)
    (excl₂ : ∀ i ∈ w.overlayFiles, i ∉ w.moveFiles)
    (nodupT : (w.transpositions.map (·.1)).Nodup) (nodupO : w.overlayFiles.Nodup) (nodupM : w.moveFiles.Nodup)
    (transp : ∀ st ∈ w.transpositions, (new.files[st.1]?).isSome = true ∧
      (new.files[st.1]?).map (·.2) = (old.files[st.2]?).map (·.2))
    (overlay : ∀ i ∈ w.overlayFiles, ((new.files[i]?).map fun e => decide (e.1 ∈ old.files.map (·.1))) = some true)
    (move : ∀ i ∈ w.moveFiles, ((new.files[i]?).map fun e => decide (e.1 ∉ old.files.map (·.1))) = some true) :
    WorkOK old new w := by
  refine ⟨cover, excl₁, excl₂, nodupT, nodupO, nodupM, ?_, ?_, ?_⟩
  · intro st hst
    obtain ⟨h1, h2⟩ := transp st hst
    cases hn : new.files[st.1]? with
    | none => rw [hn] at h1; cases h1
    | some e =>
      cases ho : old.files[st.2]? with
      | none => rw [hn, ho] at h2; cases h2
      | some e' =>
        rw [hn, ho] at h2
        simp only [Option.map_some, Option.some.injEq] at h2
        exact ⟨e.1, e'.1, e.2, rfl, by rw [h2]⟩
  · intro i hi
    have := overlay i hi
    cases hn : new.files[i]? with
    | none => rw [hn] at this; cases this
    | some e =>
      rw [hn] at this
      simp only [Option.map_some, Option.some.injEq, decide_eq_true_eq] at this
      exact ⟨e.1, e.2, rfl, this⟩
  · intro i hi
    have := move i hi
    cases hn : new.files[i]? with
    | none => rw [hn] at this; cases this
    | some e =>
      rw [hn] at this
      simp only [Option.map_some, Option.some.injEq, decide_eq_true_eq] at this
      exact ⟨e.1, e.2, rfl, this⟩

/-- `BenignKindChanges` on a literal instance: the clause is decidable -/
theorem BenignKindChanges.of_check {old new : Build} {w : Work}
    (dirOrder : new.dirs.Pairwise (fun a b => isPrefix b a = true →
      b ∉ old.files.map (·.1) ∧ b ∉ old.symlinks.map (·.1))) : BenignKindChanges old new w :=
  ⟨dirOrder⟩

/-- a path that changes kind: the instance is outside `NoKindClash` -/
theorem not_noKindClash {old new : Build} (p : Path) (k k' : Kind) (h1 : kindOf old p = some k)
    (h2 : kindOf new p = some k') (hne : k ≠ k') : ¬ NoKindClash old new :=
  fun h => hne (h p k k' h1 h2)

/-! ### the benign shapes: all hypotheses hold, the theorem applies

  The six shapes the Go harness checks against the model on every run (`benignKindShapes` in
  harness/cmd/wv/c02.go), with short names; `k` is an unchanged file (recorded, as the patcher does, as a
  transposition onto itself).  Each instance is OUTSIDE `NoKindClash` (`*_clash`) and INSIDE
  `BenignKindChanges` with all other hypotheses (`*_ok` applies `commit_correct_kinds_partial`).

  The variants `b6`, `b6a`, `b6f`, `b6e` of dir → symlink differ in where the new symlink points.  That used to
  matter (the old paths below the directory had to be unreachable through it: the former `DeadEnd`); since the
  repair of finding F25 those ghosts are skipped and the destination is irrelevant — `g5_*` below is the variant
  where it pointed at a file of the new build named like a ghost. -/

/-! #### symlink → file (staged) -/
def b1Old : Build := { symlinks := [(["s"], "k")], files := [(["k"], [3])] }
def b1New : Build := { files := [(["s"], [1]), (["k"], [3])] }
def b1Work : Work := { transpositions := [(1, 0)], moveFiles := [0] }

theorem b1_old_wf : BuildWF b1Old := ⟨by decide, by decide, parents_of_check (by decide)⟩
theorem b1_new_wf : BuildWF b1New := ⟨by decide, by decide, parents_of_check (by decide)⟩
theorem b1_work : WorkOK b1Old b1New b1Work :=
  WorkOK.of_check (by decide) (by decide) (by decide) (by decide) (by decide) (by decide) (by decide)
    (by decide) (by decide)
theorem b1_benign : BenignKindChanges b1Old b1New b1Work :=
  BenignKindChanges.of_check (by decide)
theorem b1_clash : ¬ NoKindClash b1Old b1New :=
  not_noKindClash ["s"] .symlink .file (by decide) (by decide) (by decide)
theorem b1_ok : ∃ t', commit b1Old b1New b1Work [["k"]] [["k"]] (treeOfBuild b1Old) = .ok t' ∧ Holds t' b1New :=
  commit_correct_kinds_partial _ _ _ _ _ b1_old_wf b1_new_wf b1_benign b1_work (by decide) (by decide)

/-! #### file → symlink (the old file is not a source) -/
def b2Old : Build := { files := [(["s"], [1]), (["k"], [3])] }
def b2New : Build := { symlinks := [(["s"], "k")], files := [(["k"], [3])] }
def b2Work : Work := { transpositions := [(0, 1)] }

theorem b2_old_wf : BuildWF b2Old := ⟨by decide, by decide, parents_of_check (by decide)⟩
theorem b2_new_wf : BuildWF b2New := ⟨by decide, by decide, parents_of_check (by decide)⟩
theorem b2_work : WorkOK b2Old b2New b2Work :=
  WorkOK.of_check (by decide) (by decide) (by decide) (by decide) (by decide) (by decide) (by decide)
    (by decide) (by decide)
theorem b2_benign : BenignKindChanges b2Old b2New b2Work :=
  BenignKindChanges.of_check (by decide)
theorem b2_clash : ¬ NoKindClash b2Old b2New :=
  not_noKindClash ["s"] .file .symlink (by decide) (by decide) (by decide)
theorem b2_ok : ∃ t', commit b2Old b2New b2Work [["k"]] [["k"]] (treeOfBuild b2Old) = .ok t' ∧ Holds t' b2New :=
  commit_correct_kinds_partial _ _ _ _ _ b2_old_wf b2_new_wf b2_benign b2_work (by decide) (by decide)

/-! #### symlink → dir -/
def b3Old : Build := { symlinks := [(["s"], "b")], files := [(["k"], [3])] }
def b3New : Build := { dirs := [["s"]], files := [(["s", "in"], [1]), (["k"], [3])] }
def b3Work : Work := { transpositions := [(1, 0)], moveFiles := [0] }

theorem b3_old_wf : BuildWF b3Old := ⟨by decide, by decide, parents_of_check (by decide)⟩
theorem b3_new_wf : BuildWF b3New := ⟨by decide, by decide, parents_of_check (by decide)⟩
theorem b3_work : WorkOK b3Old b3New b3Work :=
  WorkOK.of_check (by decide) (by decide) (by decide) (by decide) (by decide) (by decide) (by decide)
    (by decide) (by decide)
theorem b3_benign : BenignKindChanges b3Old b3New b3Work :=
  BenignKindChanges.of_check (by decide)
theorem b3_clash : ¬ NoKindClash b3Old b3New :=
  not_noKindClash ["s"] .symlink .dir (by decide) (by decide) (by decide)
theorem b3_ok : ∃ t', commit b3Old b3New b3Work [["k"]] [["k"]] (treeOfBuild b3Old) = .ok t' ∧ Holds t' b3New :=
  commit_correct_kinds_partial _ _ _ _ _ b3_old_wf b3_new_wf b3_benign b3_work (by decide) (by decide)

/-! #### empty dir → file (staged) -/
def b4Old : Build := { dirs := [["e"]], files := [(["k"], [3])] }
def b4New : Build := { files := [(["e"], [1]), (["k"], [3])] }
def b4Work : Work := { transpositions := [(1, 0)], moveFiles := [0] }

theorem b4_old_wf : BuildWF b4Old := ⟨by decide, by decide, parents_of_check (by decide)⟩
theorem b4_new_wf : BuildWF b4New := ⟨by decide, by decide, parents_of_check (by decide)⟩
theorem b4_work : WorkOK b4Old b4New b4Work :=
  WorkOK.of_check (by decide) (by decide) (by decide) (by decide) (by decide) (by decide) (by decide)
    (by decide) (by decide)
theorem b4_benign : BenignKindChanges b4Old b4New b4Work :=
  BenignKindChanges.of_check (by decide)
theorem b4_clash : ¬ NoKindClash b4Old b4New :=
  not_noKindClash ["e"] .dir .file (by decide) (by decide) (by decide)
theorem b4_ok : ∃ t', commit b4Old b4New b4Work [["k"]] [["k"]] (treeOfBuild b4Old) = .ok t' ∧ Holds t' b4New :=
  commit_correct_kinds_partial _ _ _ _ _ b4_old_wf b4_new_wf b4_benign b4_work (by decide) (by decide)

/-! #### file → dir (the old file is not a source) -/
def b5Old : Build := { files := [(["f"], [1]), (["k"], [3])] }
def b5New : Build := { dirs := [["f"]], files := [(["f", "new"], [2]), (["k"], [3])] }
def b5Work : Work := { transpositions := [(1, 1)], moveFiles := [0] }

theorem b5_old_wf : BuildWF b5Old := ⟨by decide, by decide, parents_of_check (by decide)⟩
theorem b5_new_wf : BuildWF b5New := ⟨by decide, by decide, parents_of_check (by decide)⟩
theorem b5_work : WorkOK b5Old b5New b5Work :=
  WorkOK.of_check (by decide) (by decide) (by decide) (by decide) (by decide) (by decide) (by decide)
    (by decide) (by decide)
theorem b5_benign : BenignKindChanges b5Old b5New b5Work :=
  BenignKindChanges.of_check (by decide)
theorem b5_clash : ¬ NoKindClash b5Old b5New :=
  not_noKindClash ["f"] .file .dir (by decide) (by decide) (by decide)
theorem b5_ok : ∃ t', commit b5Old b5New b5Work [["k"]] [["k"]] (treeOfBuild b5Old) = .ok t' ∧ Holds t' b5New :=
  commit_correct_kinds_partial _ _ _ _ _ b5_old_wf b5_new_wf b5_benign b5_work (by decide) (by decide)

/-! #### dir → symlink, nothing below the directory is a source; the symlink dangles (`b` is no path of either
    build); the ghost `d/x` went with the directory and is skipped -/
def b6Old : Build := { dirs := [["d"]], files := [(["d", "x"], [1]), (["k"], [3])] }
def b6New : Build := { symlinks := [(["d"], "b")], files := [(["k"], [3])] }
def b6Work : Work := { transpositions := [(0, 1)] }

theorem b6_old_wf : BuildWF b6Old := ⟨by decide, by decide, parents_of_check (by decide)⟩
theorem b6_new_wf : BuildWF b6New := ⟨by decide, by decide, parents_of_check (by decide)⟩
theorem b6_work : WorkOK b6Old b6New b6Work :=
  WorkOK.of_check (by decide) (by decide) (by decide) (by decide) (by decide) (by decide) (by decide)
    (by decide) (by decide)
theorem b6_benign : BenignKindChanges b6Old b6New b6Work :=
  BenignKindChanges.of_check (by decide)
theorem b6_clash : ¬ NoKindClash b6Old b6New :=
  not_noKindClash ["d"] .dir .symlink (by decide) (by decide) (by decide)
theorem b6_ok : ∃ t', commit b6Old b6New b6Work [["k"]] [["k"]] (treeOfBuild b6Old) = .ok t' ∧ Holds t' b6New :=
  commit_correct_kinds_partial _ _ _ _ _ b6_old_wf b6_new_wf b6_benign b6_work (by decide) (by decide)

/-! #### dir → symlink with an absolute destination -/
def b6aNew : Build := { symlinks := [(["d"], "/b")], files := [(["k"], [3])] }

theorem b6a_new_wf : BuildWF b6aNew := ⟨by decide, by decide, parents_of_check (by decide)⟩
theorem b6a_work : WorkOK b6Old b6aNew b6Work :=
  WorkOK.of_check (by decide) (by decide) (by decide) (by decide) (by decide) (by decide) (by decide)
    (by decide) (by decide)
theorem b6a_benign : BenignKindChanges b6Old b6aNew b6Work :=
  BenignKindChanges.of_check (by decide)
theorem b6a_ok : ∃ t', commit b6Old b6aNew b6Work [["k"]] [["k"]] (treeOfBuild b6Old) = .ok t' ∧
    Holds t' b6aNew :=
  commit_correct_kinds_partial _ _ _ _ _ b6_old_wf b6a_new_wf b6a_benign b6a_work (by decide) (by decide)

/-! #### dir → symlink to a regular FILE of the new build -/
def b6fOld : Build := { dirs := [["d"]], files := [(["d", "x"], [1]), (["b"], [3])] }
def b6fNew : Build := { symlinks := [(["d"], "b")], files := [(["b"], [3])] }
def b6fWork : Work := { transpositions := [(0, 1)] }

theorem b6f_old_wf : BuildWF b6fOld := ⟨by decide, by decide, parents_of_check (by decide)⟩
theorem b6f_new_wf : BuildWF b6fNew := ⟨by decide, by decide, parents_of_check (by decide)⟩
theorem b6f_work : WorkOK b6fOld b6fNew b6fWork :=
  WorkOK.of_check (by decide) (by decide) (by decide) (by decide) (by decide) (by decide) (by decide)
    (by decide) (by decide)
theorem b6f_benign : BenignKindChanges b6fOld b6fNew b6fWork :=
  BenignKindChanges.of_check (by decide)
theorem b6f_ok : ∃ t', commit b6fOld b6fNew b6fWork [["b"]] [["b"]] (treeOfBuild b6fOld) = .ok t' ∧
    Holds t' b6fNew :=
  commit_correct_kinds_partial _ _ _ _ _ b6f_old_wf b6f_new_wf b6f_benign b6f_work (by decide) (by decide)

/-! #### EMPTY dir → symlink pointing INTO the build: no old path below -/
def b6eOld : Build := { dirs := [["d"], ["b"]], files := [(["b", "x"], [1])] }
def b6eNew : Build := { dirs := [["b"]], symlinks := [(["d"], "b")], files := [(["b", "x"], [1])] }
def b6eWork : Work := { transpositions := [(0, 0)] }

theorem b6e_old_wf : BuildWF b6eOld := ⟨by decide, by decide, parents_of_check (by decide)⟩
theorem b6e_new_wf : BuildWF b6eNew := ⟨by decide, by decide, parents_of_check (by decide)⟩
theorem b6e_work : WorkOK b6eOld b6eNew b6eWork :=
  WorkOK.of_check (by decide) (by decide) (by decide) (by decide) (by decide) (by decide) (by decide)
    (by decide) (by decide)
theorem b6e_benign : BenignKindChanges b6eOld b6eNew b6eWork :=
  BenignKindChanges.of_check (by decide)
theorem b6e_ok : ∃ t', commit b6eOld b6eNew b6eWork [["b", "x"]] [["b", "x"]] (treeOfBuild b6eOld) = .ok t' ∧
    Holds t' b6eNew :=
  commit_correct_kinds_partial _ _ _ _ _ b6e_old_wf b6e_new_wf b6e_benign b6e_work (by decide) (by decide)

/-! #### everything at once

  `l`: symlink → dir; `m`: symlink → file; `e`: empty dir → file; `d`: dir (holding `d/x`) → absolute symlink;
  `f`: file → dir with a nested new directory; `h`: file → symlink; a swap `a ↔ b` (both outputs go through
  temporary names); an overlay `g/o`; staged files in the new directories.  Every pair of visiting orders. -/
def b7Old : Build :=
  { dirs := [["d"], ["e"], ["g"]],
    symlinks := [(["l"], "a"), (["m"], "a")],
    files := [(["a"], [1]), (["b"], [2]), (["d", "x"], [3]), (["f"], [4]), (["h"], [5]), (["g", "o"], [6])] }
def b7New : Build :=
  { dirs := [["l"], ["f"], ["f", "sub"], ["g"]],
    symlinks := [(["d"], "/nowhere"), (["h"], "a")],
    files := [(["a"], [2]), (["b"], [1]), (["m"], [7]), (["e"], [8]), (["l", "in"], [9]),
      (["f", "sub", "y"], [10]), (["g", "o"], [11])] }
def b7Work : Work := { transpositions := [(0, 1), (1, 0)], overlayFiles := [6], moveFiles := [2, 3, 4, 5] }

theorem b7_old_wf : BuildWF b7Old := ⟨by decide, by decide, parents_of_check (by decide)⟩
theorem b7_new_wf : BuildWF b7New := ⟨by decide, by decide, parents_of_check (by decide)⟩
theorem b7_work : WorkOK b7Old b7New b7Work :=
  WorkOK.of_check (by decide) (by decide) (by decide) (by decide) (by decide) (by decide) (by decide)
    (by decide) (by decide)
theorem b7_benign : BenignKindChanges b7Old b7New b7Work :=
  BenignKindChanges.of_check (by decide)
theorem b7_sources : sourcesOf b7Old b7New b7Work = [["b"], ["a"]] := by decide
theorem b7_ok (order₁ order₂ : List Path) (ho₁ : order₁.Perm [["b"], ["a"]]) (ho₂ : order₂.Perm [["b"], ["a"]]) :
    ∃ t', commit b7Old b7New b7Work order₁ order₂ (treeOfBuild b7Old) = .ok t' ∧ Holds t' b7New :=
  commit_correct_kinds_partial _ _ _ _ _ b7_old_wf b7_new_wf b7_benign b7_work
    (by rw [b7_sources]; exact ho₁) (by rw [b7_sources]; exact ho₂)

/-! ### evaluating the model on literal instances

  Evaluation is by `decide` where the run stops before ghost deletion, by `decide +kernel` where `List.mergeSort`
  or `String.startsWith` has to be computed, and by hand where a path is resolved through a symlink
  (`String.splitOn` does not reduce). -/

/-- the commit failed with error `e` -/
def failsWith (r : Except Err Tree) (e : Err) : Bool :=
  match r with
  | .error e' => e' == e
  | .ok _ => false

theorem not_ok_of_failsWith {r : Except Err Tree} {e : Err} (h : failsWith r e = true) (new : Build) :
    ¬ ∃ t', r = .ok t' ∧ Holds t' new := by
  rintro ⟨t', rfl, _⟩
  simp [failsWith] at h

/-- the result is a tree with exactly these entries -/
def yields (r : Except Err Tree) (es : List (Path × Node)) : Bool :=
  match r with
  | .ok t => decide (t.entries = es)
  | .error _ => false

theorem eq_of_yields {r : Except Err Tree} {es : List (Path × Node)} (h : yields r es = true) :
    r = .ok { entries := es } := by
  cases r with
  | error e => simp [yields] at h
  | ok t =>
    simp only [yields, decide_eq_true_eq] at h
    cases t
    simp only at h
    rw [h]

/-- the hypotheses of the theorems other than the one about kinds -/
structure OtherHyps (old new : Build) (w : Work) (o₁ o₂ : List Path) : Prop where
  oldWF : BuildWF old
  newWF : BuildWF new
  work : WorkOK old new w
  perm₁ : o₁.Perm (sourcesOf old new w)
  perm₂ : o₂.Perm (sourcesOf old new w)

/-- an instance with all other hypotheses on which the commit does not yield the new build refutes the
    full-strength statement -/
theorem not_commitCorrect_of {old new : Build} {w : Work} {o₁ o₂ : List Path} (h : OtherHyps old new w o₁ o₂)
    (hbad : ¬ ∃ t', commit old new w o₁ o₂ (treeOfBuild old) = .ok t' ∧ Holds t' new) : ¬ CommitCorrect :=
  fun hc => hbad (hc old new w o₁ o₂ h.oldWF h.newWF h.work h.perm₁ h.perm₂)

/-- `Holds` on a literal instance: compare the two trees at the keys of either -/
theorem holds_of_check {t : Tree} {b : Build}
    (h : ∀ p ∈ t.entries.map (·.1) ++ (treeOfBuild b).entries.map (·.1), t.get p = (treeOfBuild b).get p) :
    Holds t b := by
  intro p
  by_cases hp : p ∈ t.entries.map (·.1) ++ (treeOfBuild b).entries.map (·.1)
  · exact h p hp
  · simp only [List.mem_append, List.mem_map, not_or, not_exists, not_and] at hp
    by_cases h0 : p = []
    · subst h0; simp [Tree.get]
    · rw [Archive.get_none_of_fresh h0 (fun e he => hp.1 e he), Archive.get_none_of_fresh h0 (fun e he => hp.2 e he)]

/-- ghost deletion when every ghost lies below a file or a symlink of the new build: all are skipped, in
    whatever order they come -/
theorem ghosts_all_skipped (leaves : List Path) (t : Tree) : ∀ (L : List (Path × Bool)),
    (∀ x ∈ L, leaves.any (fun l => isPrefix l x.1) = true) → L.foldlM (Commit.ghostStep leaves) t = .ok t
  | [], _ => rfl
  | x :: L, h => by
    have hx : Commit.ghostStep leaves t x = .ok t := by
      simp only [Commit.ghostStep, h x (by simp), if_true]
    simp only [List.foldlM_cons, hx, bind, Except.bind]
    exact ghosts_all_skipped leaves t L (fun y hy => h y (by simp [hy]))

/-- ghost deletion when no ghost is there any more (each one is skipped, or missing): nothing happens, in whatever
    order they come.  (`List.mergeSort` on two or more elements does not reduce, so `deleteGhosts` is evaluated
    through this and `Commit.deleteGhosts_eq`.) -/
theorem ghosts_all_noop (leaves : List Path) (t : Tree) : ∀ (L : List (Path × Bool)),
    (∀ x ∈ L, yields (Commit.ghostStep leaves t x) t.entries = true) → L.foldlM (Commit.ghostStep leaves) t = .ok t
  | [], _ => rfl
  | x :: L, h => by
    have hx : Commit.ghostStep leaves t x = .ok t := eq_of_yields (h x (by simp))
    simp only [List.foldlM_cons, hx, bind, Except.bind]
    exact ghosts_all_noop leaves t L (fun y hy => h y (by simp [hy]))

theorem deleteGhosts_noop {old new : Build} {t : Tree}
    (h : ∀ x ∈ Commit.ghostList old new, yields (Commit.ghostStep (Commit.leavesOf new) t x) t.entries = true) :
    deleteGhosts old new t = .ok t := by
  rw [Commit.deleteGhosts_eq]
  apply ghosts_all_noop
  exact fun x hx => h x (List.mem_mergeSort.mp hx)

/-- `moveSourcesAside` on a literal instance in which no transposition source is a directory of the new build:
    nothing moves, the map is empty -/
theorem aside_nil_of_check {old new : Build} {w : Work} (t : Tree)
    (h : w.transpositions.all (fun st =>
      match old.files[st.2]? with
      | some e => !new.dirs.contains e.1
      | none => false) = true) :
    moveSourcesAside old new w t = .ok (t, []) := by
  apply Commit.moveSourcesAside_nil_of_sources
  intro st hst
  have := List.all_eq_true.mp h st hst
  cases hf : old.files[st.2]? with
  | none => rw [hf] at this; cases this
  | some e =>
    rw [hf] at this
    refine ⟨e.1, e.2, rfl, fun hm => ?_⟩
    simp only [List.contains_iff_mem.mpr hm] at this
    cases this

/-! ### the repaired shapes: three former counterexamples on which the commit is now right

  (5), (6), (7) were found while looking for the right predicate; each was a machine-checked instance on which
  the model's `commit` — and the code — went wrong although all other hypotheses hold.  They were two genuine
  defects of `overlayBowl` (findings F25 and F26), both repaired; the model follows the repaired code.  The
  instances are kept, with the opposite conclusion: the commit yields exactly the new build (`g5_ok`, `g6_ok`,
  `g7_ok`, by evaluation).  Each is OUTSIDE `NoKindClash` (`*_clash`) and, the clauses that excluded them being
  gone, INSIDE `BenignKindChanges` (`*_benign`). -/

/-! #### (5) dir → symlink whose destination is a directory of the build that holds an entry named like a ghost.
    Formerly a counterexample (finding F25): ghost deletion called `os.Lstat` and `os.Remove` on `a/f`; `a` is
    now a symlink to `b`, so the calls reached `b/f` — a file of the NEW build — and deleted it, Commit reporting
    success.  Since the repair a ghost below a path that is a file or a symlink of the new build is skipped:
    the commit yields exactly the new build. -/
def g5Old : Build := { dirs := [["a"], ["b"]], files := [(["a", "f"], [1]), (["b", "f"], [2])] }
def g5New : Build := { dirs := [["b"]], symlinks := [(["a"], "b")], files := [(["b", "f"], [2])] }
def g5Work : Work := { transpositions := [(0, 1)] }
def g5T4 : Tree := { entries := [(["b"], .dir), (["b", "f"], .file [2]), (["a"], .symlink "b")] }

theorem g5_hyps : OtherHyps g5Old g5New g5Work [["b", "f"]] [["b", "f"]] :=
  ⟨⟨by decide, by decide, parents_of_check (by decide)⟩, ⟨by decide, by decide, parents_of_check (by decide)⟩,
    WorkOK.of_check (by decide) (by decide) (by decide) (by decide) (by decide) (by decide) (by decide)
      (by decide) (by decide), by decide, by decide⟩
/-- the instance is inside `BenignKindChanges` now that nothing is asked of the symlink's destination -/
theorem g5_benign : BenignKindChanges g5Old g5New g5Work :=
  BenignKindChanges.of_check (by decide)
theorem g5_clash : ¬ NoKindClash g5Old g5New :=
  not_noKindClash ["a"] .dir .symlink (by decide) (by decide) (by decide)

/-- `b` is there already; the transposition `b/f → b/f` is a no-op; nothing is staged or patched -/
theorem g5_e1 : g5New.dirs.foldlM ensureDir (treeOfBuild g5Old) = .ok (treeOfBuild g5Old) :=
  eq_of_yields (by decide +kernel)
theorem g5_e2 : applyTranspositions g5Old g5New g5Work [["b", "f"]] [["b", "f"]] (treeOfBuild g5Old) =
    .ok (treeOfBuild g5Old) := eq_of_yields (by decide +kernel)
theorem g5_e3 : applyMoves g5New g5Work (treeOfBuild g5Old) = .ok (treeOfBuild g5Old) :=
  eq_of_yields (by decide +kernel)
theorem g5_e4 : applyOverlays g5New g5Work (treeOfBuild g5Old) = .ok (treeOfBuild g5Old) :=
  eq_of_yields (by decide +kernel)
/-- the directory `a` goes with `a/f` (`os.RemoveAll`), the symlink takes its place -/
theorem g5_e5 : g5New.symlinks.foldlM (fun t (p, d) => ensureSymlink t p d) (treeOfBuild g5Old) = .ok g5T4 :=
  eq_of_yields (by decide +kernel)
/-- the ghost `a/f` lies below the new symlink `a`: it is skipped, `b/f` stays -/
theorem g5_e6 : deleteGhosts g5Old g5New g5T4 = .ok g5T4 := eq_of_yields (by decide +kernel)

theorem g5_commit : commit g5Old g5New g5Work [["b", "f"]] [["b", "f"]] (treeOfBuild g5Old) = .ok g5T4 := by
  simp only [commit, bind, Except.bind,
    aside_nil_of_check (old := g5Old) (new := g5New) (w := g5Work) _ (by decide), g5_e1, g5_e2, g5_e3, g5_e4, g5_e5, g5_e6]

/-- the commit yields exactly the new build: `b/f` is still there -/
theorem g5_ok : ∃ t', commit g5Old g5New g5Work [["b", "f"]] [["b", "f"]] (treeOfBuild g5Old) = .ok t' ∧
    Holds t' g5New :=
  ⟨g5T4, g5_commit, holds_of_check (by decide)⟩

/-- it also follows from the theorem, for the one pair of visiting orders there is -/
example : ∃ t', commit g5Old g5New g5Work [["b", "f"]] [["b", "f"]] (treeOfBuild g5Old) = .ok t' ∧ Holds t' g5New :=
  commit_correct_kinds_partial _ _ _ _ _ g5_hyps.oldWF g5_hyps.newWF g5_benign g5_hyps.work g5_hyps.perm₁
    g5_hyps.perm₂

/-! #### (6) symlink → file, the file written by a transposition COPY.  Formerly a counterexample (finding F26):
    `b` is patched through an overlay and its old content reappears at `s`, an old symlink to `b`; the
    transposition is a copy, `os.OpenFile(…, O_CREATE|O_TRUNC)` followed the symlink, the content landed in `b`
    and `s` stayed a symlink, Commit reporting success.  Since the repair `copy` removes a destination that is
    not a regular file first: the commit yields exactly the new build. -/
def g6Old : Build := { symlinks := [(["s"], "b")], files := [(["b"], [1])] }
def g6New : Build := { files := [(["b"], [9]), (["s"], [1])] }
def g6Work : Work := { transpositions := [(1, 0)], overlayFiles := [0] }
def g6T0 : Tree := { entries := [(["b"], .file [1]), (["s"], .symlink "b")] }
def g6T2 : Tree := { entries := [(["b"], .file [1]), (["s"], .file [1])] }
def g6T5 : Tree := { entries := [(["s"], .file [1]), (["b"], .file [9])] }

theorem g6_hyps : OtherHyps g6Old g6New g6Work [["b"]] [["b"]] :=
  ⟨⟨by decide, by decide, parents_of_check (by decide)⟩, ⟨by decide, by decide, parents_of_check (by decide)⟩,
    WorkOK.of_check (by decide) (by decide) (by decide) (by decide) (by decide) (by decide) (by decide)
      (by decide) (by decide), by decide, by decide⟩
/-- the instance is inside `BenignKindChanges` now that nothing is asked of the transposition outputs -/
theorem g6_benign : BenignKindChanges g6Old g6New g6Work :=
  BenignKindChanges.of_check (by decide)
theorem g6_clash : ¬ NoKindClash g6Old g6New :=
  not_noKindClash ["s"] .symlink .file (by decide) (by decide) (by decide)

theorem g6_e1 : g6New.dirs.foldlM ensureDir (treeOfBuild g6Old) = .ok g6T0 := eq_of_yields (by decide +kernel)
/-- the copy `b → s` removes the symlink `s` and creates the file -/
theorem g6_e2 : applyTranspositions g6Old g6New g6Work [["b"]] [["b"]] g6T0 = .ok g6T2 :=
  eq_of_yields (by decide +kernel)
theorem g6_e3 : applyMoves g6New g6Work g6T2 = .ok g6T2 := eq_of_yields (by decide +kernel)
theorem g6_e4 : applyOverlays g6New g6Work g6T2 = .ok g6T5 := eq_of_yields (by decide +kernel)
theorem g6_e5 : g6New.symlinks.foldlM (fun t (p, d) => ensureSymlink t p d) g6T5 = .ok g6T5 :=
  eq_of_yields (by decide +kernel)
theorem g6_e6 : deleteGhosts g6Old g6New g6T5 = .ok g6T5 := eq_of_yields (by decide +kernel)

theorem g6_commit : commit g6Old g6New g6Work [["b"]] [["b"]] (treeOfBuild g6Old) = .ok g6T5 := by
  simp only [commit, bind, Except.bind,
    aside_nil_of_check (old := g6Old) (new := g6New) (w := g6Work) _ (by decide), g6_e1, g6_e2, g6_e3, g6_e4, g6_e5, g6_e6]

/-- the commit yields exactly the new build: `s` is a regular file, `b` has its new content -/
theorem g6_ok : ∃ t', commit g6Old g6New g6Work [["b"]] [["b"]] (treeOfBuild g6Old) = .ok t' ∧ Holds t' g6New :=
  ⟨g6T5, g6_commit, holds_of_check (by decide)⟩

example : ∃ t', commit g6Old g6New g6Work [["b"]] [["b"]] (treeOfBuild g6Old) = .ok t' ∧ Holds t' g6New :=
  commit_correct_kinds_partial _ _ _ _ _ g6_hyps.oldWF g6_hyps.newWF g6_benign g6_hyps.work g6_hyps.perm₁
    g6_hyps.perm₂

/-! #### (7) empty dir → file, the file written by a transposition COPY.  Formerly a counterexample (finding
    F26): the content of `x` is duplicated onto `e`, an empty directory of the old build; the copy opened a
    directory for writing, EISDIR.  Since the repair `copy` removes the (empty) directory first: the commit
    yields exactly the new build. -/
def g7Old : Build := { dirs := [["e"]], files := [(["x"], [1])] }
def g7New : Build := { files := [(["x"], [1]), (["e"], [1])] }
def g7Work : Work := { transpositions := [(0, 0), (1, 0)] }
def g7T5 : Tree := { entries := [(["x"], .file [1]), (["e"], .file [1])] }

theorem g7_hyps : OtherHyps g7Old g7New g7Work [["x"]] [["x"]] :=
  ⟨⟨by decide, by decide, parents_of_check (by decide)⟩, ⟨by decide, by decide, parents_of_check (by decide)⟩,
    WorkOK.of_check (by decide) (by decide) (by decide) (by decide) (by decide) (by decide) (by decide)
      (by decide) (by decide), by decide, by decide⟩
/-- the instance is inside `BenignKindChanges` now that nothing is asked of the transposition outputs -/
theorem g7_benign : BenignKindChanges g7Old g7New g7Work :=
  BenignKindChanges.of_check (by decide)
theorem g7_clash : ¬ NoKindClash g7Old g7New :=
  not_noKindClash ["e"] .dir .file (by decide) (by decide) (by decide)
theorem g7_commit : commit g7Old g7New g7Work [["x"]] [["x"]] (treeOfBuild g7Old) = .ok g7T5 :=
  eq_of_yields (by decide +kernel)

/-- the commit yields exactly the new build: `e` is a regular file with the content of `x` -/
theorem g7_ok : ∃ t', commit g7Old g7New g7Work [["x"]] [["x"]] (treeOfBuild g7Old) = .ok t' ∧ Holds t' g7New :=
  ⟨g7T5, g7_commit, holds_of_check (by decide)⟩

example : ∃ t', commit g7Old g7New g7Work [["x"]] [["x"]] (treeOfBuild g7Old) = .ok t' ∧ Holds t' g7New :=
  commit_correct_kinds_partial _ _ _ _ _ g7_hyps.oldWF g7_hyps.newWF g7_benign g7_hyps.work g7_hyps.perm₁
    g7_hyps.perm₂

/-! ### the shapes repaired by the reordering of `Commit` (finding F27): two more former counterexamples

  F8 (4) and (8) were machine-checked instances on which the model's `commit` — and the code — failed or went
  wrong: the new symlinks were put in place together with the new directories, BEFORE the transpositions, so an
  old file that a transposition still had to rename or copy was gone when its turn came — removed with the old
  directory a new symlink replaced (F8 (4)), or itself replaced by the new symlink (8).  Since the repair of
  finding F27 `Commit` puts the symlinks in place after the transpositions, the staged moves and the overlays
  (`ensureDirs`, …, `applyOverlays`, `ensureSymlinks`, `deleteGhosts`); the model follows.  The instances are
  kept, with the opposite conclusion: the commit yields exactly the new build (`f8_4_ok`, `g8_ok`, by
  evaluation).  Each is OUTSIDE `NoKindClash` (`*_clash`) and, the clause `dirToSymlink` and the second half of
  `sources` being gone, INSIDE `BenignKindChanges` (`*_benign`). -/

/-! #### F8 (4) dir → symlink, a file of the directory renamed out.  Formerly a counterexample (the fourth
    recorded shape of finding F8): the directory `d` was cleared (`os.RemoveAll`) and replaced by the symlink
    before the transposition `d/x → o/x` read the file; the source path then went through the dangling symlink,
    ENOENT.  Now the file is renamed first, the directory gives way to the symlink afterwards. -/
def f4Old : Build := { dirs := [["d"]], files := [(["d", "x"], [1]), (["k"], [3])] }
def f4New : Build := { dirs := [["o"]], symlinks := [(["d"], "b")], files := [(["o", "x"], [1]), (["k"], [3])] }
def f4Work : Work := { transpositions := [(0, 0), (1, 1)] }
/-- after `ensureDirs` -/
def f4T1 : Tree := { entries := [(["d"], .dir), (["d", "x"], .file [1]), (["k"], .file [3]), (["o"], .dir)] }
/-- after the transpositions: `d/x` has been renamed to `o/x`, the directory `d` is still there -/
def f4T2 : Tree := { entries := [(["d"], .dir), (["k"], .file [3]), (["o"], .dir), (["o", "x"], .file [1])] }
/-- after `ensureSymlinks` -/
def f4T5 : Tree := { entries := [(["k"], .file [3]), (["o"], .dir), (["o", "x"], .file [1]), (["d"], .symlink "b")] }

theorem f8_4_hyps : OtherHyps f4Old f4New f4Work [["d", "x"], ["k"]] [["d", "x"], ["k"]] :=
  ⟨⟨by decide, by decide, parents_of_check (by decide)⟩, ⟨by decide, by decide, parents_of_check (by decide)⟩,
    WorkOK.of_check (by decide) (by decide) (by decide) (by decide) (by decide) (by decide) (by decide)
      (by decide) (by decide), by decide, by decide⟩
/-- the instance is inside `BenignKindChanges` now that nothing is asked of what lies below a directory that
    becomes a symlink -/
theorem f8_4_benign : BenignKindChanges f4Old f4New f4Work :=
  BenignKindChanges.of_check (by decide)
theorem f8_4_clash : ¬ NoKindClash f4Old f4New :=
  not_noKindClash ["d"] .dir .symlink (by decide) (by decide) (by decide)

theorem f8_4_e1 : f4New.dirs.foldlM ensureDir (treeOfBuild f4Old) = .ok f4T1 := eq_of_yields (by decide +kernel)
/-- the source `d/x` is still there: it is renamed to `o/x` -/
theorem f8_4_e2 :
    applyTranspositions f4Old f4New f4Work [["d", "x"], ["k"]] [["d", "x"], ["k"]] f4T1 = .ok f4T2 :=
  eq_of_yields (by decide +kernel)
theorem f8_4_e3 : applyMoves f4New f4Work f4T2 = .ok f4T2 := eq_of_yields (by decide +kernel)
theorem f8_4_e4 : applyOverlays f4New f4Work f4T2 = .ok f4T2 := eq_of_yields (by decide +kernel)
/-- the (now empty) directory `d` gives way to the symlink -/
theorem f8_4_e5 : f4New.symlinks.foldlM (fun t (p, d) => ensureSymlink t p d) f4T2 = .ok f4T5 :=
  eq_of_yields (by decide +kernel)
/-- the ghost `d/x` lies below the new symlink `d`: it is skipped -/
theorem f8_4_e6 : deleteGhosts f4Old f4New f4T5 = .ok f4T5 := eq_of_yields (by decide +kernel)

theorem f8_4_commit :
    commit f4Old f4New f4Work [["d", "x"], ["k"]] [["d", "x"], ["k"]] (treeOfBuild f4Old) = .ok f4T5 := by
  simp only [commit, bind, Except.bind,
    aside_nil_of_check (old := f4Old) (new := f4New) (w := f4Work) _ (by decide), f8_4_e1, f8_4_e2, f8_4_e3, f8_4_e4, f8_4_e5, f8_4_e6]

/-- the commit yields exactly the new build: `o/x` holds the content of the old `d/x`, `d` is the symlink -/
theorem f8_4_ok :
    ∃ t', commit f4Old f4New f4Work [["d", "x"], ["k"]] [["d", "x"], ["k"]] (treeOfBuild f4Old) = .ok t' ∧
      Holds t' f4New :=
  ⟨f4T5, f8_4_commit, holds_of_check (by decide)⟩

/-- it also follows from the theorem -/
example :
    ∃ t', commit f4Old f4New f4Work [["d", "x"], ["k"]] [["d", "x"], ["k"]] (treeOfBuild f4Old) = .ok t' ∧
      Holds t' f4New :=
  commit_correct_kinds_partial _ _ _ _ _ f8_4_hyps.oldWF f8_4_hyps.newWF f8_4_benign f8_4_hyps.work
    f8_4_hyps.perm₁ f8_4_hyps.perm₂

/-! #### (8) file → symlink, the old file renamed ELSEWHERE.  Formerly a counterexample (finding F27): the old
    file `a` was replaced by the new symlink before the transposition `a → c` ran, and the transposition then
    renamed THE SYMLINK: Commit reported success, `c` was a symlink instead of the file, and `a` was gone.  Now
    the file is renamed first, the symlink is created afterwards. -/
def g8Old : Build := { files := [(["a"], [1])] }
def g8New : Build := { symlinks := [(["a"], "b")], files := [(["c"], [1])] }
def g8Work : Work := { transpositions := [(0, 0)] }
def g8T5 : Tree := { entries := [(["c"], .file [1]), (["a"], .symlink "b")] }

theorem g8_hyps : OtherHyps g8Old g8New g8Work [["a"]] [["a"]] :=
  ⟨⟨by decide, by decide, parents_of_check (by decide)⟩, ⟨by decide, by decide, parents_of_check (by decide)⟩,
    WorkOK.of_check (by decide) (by decide) (by decide) (by decide) (by decide) (by decide) (by decide)
      (by decide) (by decide), by decide, by decide⟩
/-- the instance is inside `BenignKindChanges` now that a transposition source may become a symlink -/
theorem g8_benign : BenignKindChanges g8Old g8New g8Work :=
  BenignKindChanges.of_check (by decide)
theorem g8_clash : ¬ NoKindClash g8Old g8New :=
  not_noKindClash ["a"] .file .symlink (by decide) (by decide) (by decide)
theorem g8_commit : commit g8Old g8New g8Work [["a"]] [["a"]] (treeOfBuild g8Old) = .ok g8T5 :=
  eq_of_yields (by decide +kernel)

/-- the commit yields exactly the new build: `c` is the regular file, `a` is the symlink -/
theorem g8_ok : ∃ t', commit g8Old g8New g8Work [["a"]] [["a"]] (treeOfBuild g8Old) = .ok t' ∧ Holds t' g8New :=
  ⟨g8T5, g8_commit, holds_of_check (by decide)⟩

example : ∃ t', commit g8Old g8New g8Work [["a"]] [["a"]] (treeOfBuild g8Old) = .ok t' ∧ Holds t' g8New :=
  commit_correct_kinds_partial _ _ _ _ _ g8_hyps.oldWF g8_hyps.newWF g8_benign g8_hyps.work g8_hyps.perm₁
    g8_hyps.perm₂

/-! ### the shapes repaired by `os.RemoveAll` in `move` and the temporary names for outputs onto old directories
    (finding F8, shapes (1) and (2)): two more former counterexamples

  F8 (1) and F8 (2) were machine-checked instances on which the model's `commit` — and the code — failed with
  ENOTEMPTY: a regular file of the new build goes where the old build has a NON-EMPTY directory, and the
  destination was cleared with `os.Remove`.  Since the repair `move` (the transpositions' renames, the cleanup
  renames) and the staged moves clear a destination that is a directory with `os.RemoveAll` (`Commit.clearDest`),
  and a transposition output that is a directory of the old build is written under a temporary name first and
  renamed by the cleanup phase, after every group has been read (`safePass … old.dirs`).  The model follows; the
  instances are kept, with the opposite conclusion (`f8_1_ok`, `f8_2_ok`, by evaluation). -/

/-! #### F8 (1) dir → file, a NEW file on a NON-EMPTY old directory.  Formerly ENOTEMPTY; now the staged move
    removes the directory with the ghost `a/f` in it. -/
def f1Work : Work := { moveFiles := [0] }
def f1T : Tree := { entries := [(["a"], .file [2])] }

theorem f8_1_hyps : OtherHyps exF8Old exF8New f1Work [] [] :=
  ⟨⟨by decide, by decide, parents_of_check (by decide)⟩, ⟨by decide, by decide, parents_of_check (by decide)⟩,
    WorkOK.of_check (by decide) (by decide) (by decide) (by decide) (by decide) (by decide) (by decide)
      (by decide) (by decide), by decide, by decide⟩
theorem f8_1_clash : ¬ NoKindClash exF8Old exF8New :=
  not_noKindClash ["a"] .dir .file (by decide) (by decide) (by decide)
theorem f8_1_commit : commit exF8Old exF8New f1Work [] [] (treeOfBuild exF8Old) = .ok f1T :=
  eq_of_yields (by decide +kernel)

/-- the commit yields exactly the new build: `a` is the regular file, `a/f` is gone -/
theorem f8_1_ok : ∃ t', commit exF8Old exF8New f1Work [] [] (treeOfBuild exF8Old) = .ok t' ∧ Holds t' exF8New :=
  ⟨f1T, f8_1_commit, holds_of_check (by decide)⟩

/-- the instance is inside `BenignKindChanges` now that the clause `emptyDir` is gone -/
theorem f8_1_benign : BenignKindChanges exF8Old exF8New f1Work :=
  BenignKindChanges.of_check (by decide)

/-- it also follows from the theorem -/
example : ∃ t', commit exF8Old exF8New f1Work [] [] (treeOfBuild exF8Old) = .ok t' ∧ Holds t' exF8New :=
  commit_correct_kinds_partial _ _ _ _ _ f8_1_hyps.oldWF f8_1_hyps.newWF f8_1_benign f8_1_hyps.work
    f8_1_hyps.perm₁ f8_1_hyps.perm₂

/-! #### F8 (2) dir → file, an old file RENAMED onto a non-empty old directory.  Formerly ENOTEMPTY; now `y` is
    renamed to `d.butler-rename-1`, and the cleanup rename removes the directory `d` with the ghost `d/x` in it
    and puts the file in its place. -/
def f2Old : Build := { dirs := [["d"]], files := [(["d", "x"], [1]), (["y"], [2])] }
def f2New : Build := { files := [(["d"], [2])] }
def f2Work : Work := { transpositions := [(0, 1)] }
def f2T : Tree := { entries := [(["d"], .file [2])] }

theorem f8_2_hyps : OtherHyps f2Old f2New f2Work [["y"]] [["y"]] :=
  ⟨⟨by decide, by decide, parents_of_check (by decide)⟩, ⟨by decide, by decide, parents_of_check (by decide)⟩,
    WorkOK.of_check (by decide) (by decide) (by decide) (by decide) (by decide) (by decide) (by decide)
      (by decide) (by decide), by decide, by decide⟩
theorem f8_2_clash : ¬ NoKindClash f2Old f2New :=
  not_noKindClash ["d"] .dir .file (by decide) (by decide) (by decide)
/-- the output `d` is a directory of the old build: it goes through a temporary name (without the old
    directories as flagged outputs — the first pass as it was — it is written directly) -/
theorem f8_2_first_pass :
    (safePass (groupsOf [⟨["y"], ["d"]⟩] [["y"]]) [["y"]] (pathsInUse f2Old f2New) f2Old.dirs).2.map
        (fun c => (c.targetPath, c.outputPath)) = [(["d.butler-rename-1"], ["d"])] ∧
    (safePass (groupsOf [⟨["y"], ["d"]⟩] [["y"]]) [["y"]] (pathsInUse f2Old f2New)).2.map
        (fun c => (c.targetPath, c.outputPath)) = [] := by
  decide
theorem f8_2_e1 : f2New.dirs.foldlM ensureDir (treeOfBuild f2Old) = .ok (treeOfBuild f2Old) := rfl
/-- `y` is renamed to `d.butler-rename-1`; the cleanup rename removes `d` and `d/x` and puts the file there -/
theorem f8_2_e2 : applyTranspositions f2Old f2New f2Work [["y"]] [["y"]] (treeOfBuild f2Old) = .ok f2T :=
  eq_of_yields (by decide)
theorem f8_2_e3 : applyMoves f2New f2Work f2T = .ok f2T := rfl
theorem f8_2_e4 : applyOverlays f2New f2Work f2T = .ok f2T := rfl
theorem f8_2_e5 : f2New.symlinks.foldlM (fun t (p, d) => ensureSymlink t p d) f2T = .ok f2T := rfl
/-- the ghost `d/x` lies below the new file `d` and is skipped, the ghost `y` has been renamed away -/
theorem f8_2_e6 : deleteGhosts f2Old f2New f2T = .ok f2T := deleteGhosts_noop (by decide)
theorem f8_2_commit : commit f2Old f2New f2Work [["y"]] [["y"]] (treeOfBuild f2Old) = .ok f2T := by
  simp only [commit, bind, Except.bind,
    aside_nil_of_check (old := f2Old) (new := f2New) (w := f2Work) _ (by decide), f8_2_e1, f8_2_e2, f8_2_e3, f8_2_e4, f8_2_e5, f8_2_e6]

/-- the commit yields exactly the new build: `d` is the regular file with the content of `y`; `d/x` and `y` are
    gone -/
theorem f8_2_ok :
    ∃ t', commit f2Old f2New f2Work [["y"]] [["y"]] (treeOfBuild f2Old) = .ok t' ∧ Holds t' f2New :=
  ⟨f2T, f8_2_commit, holds_of_check (by decide)⟩

/-- the instance is inside `BenignKindChanges` now that the clause `emptyDir` is gone -/
theorem f8_2_benign : BenignKindChanges f2Old f2New f2Work :=
  BenignKindChanges.of_check (by decide)

example : ∃ t', commit f2Old f2New f2Work [["y"]] [["y"]] (treeOfBuild f2Old) = .ok t' ∧ Holds t' f2New :=
  commit_correct_kinds_partial _ _ _ _ _ f8_2_hyps.oldWF f8_2_hyps.newWF f8_2_benign f8_2_hyps.work
    f8_2_hyps.perm₁ f8_2_hyps.perm₂

/-! #### F8 (2'), the shape the temporary names are for: the old file renamed onto the directory comes from INSIDE
    it, and another file of the directory is renamed out.  Written directly (`os.RemoveAll d`, then the rename)
    the output `d` would destroy the sources `d/x` and `d/z` before they are read; it is written to
    `d.butler-rename-N` instead, and the cleanup rename runs after every group.  Every pair of visiting orders. -/
def f2bOld : Build := { dirs := [["d"]], files := [(["d", "x"], [1]), (["d", "z"], [2]), (["d", "g"], [3])] }
def f2bNew : Build := { files := [(["d"], [1]), (["o"], [2])] }
def f2bWork : Work := { transpositions := [(0, 0), (1, 1)] }

theorem f8_2b_hyps (o₁ o₂ : List Path) (h₁ : o₁.Perm [["d", "x"], ["d", "z"]]) (h₂ : o₂.Perm [["d", "x"], ["d", "z"]]) :
    OtherHyps f2bOld f2bNew f2bWork o₁ o₂ :=
  ⟨⟨by decide, by decide, parents_of_check (by decide)⟩, ⟨by decide, by decide, parents_of_check (by decide)⟩,
    WorkOK.of_check (by decide) (by decide) (by decide) (by decide) (by decide) (by decide) (by decide)
      (by decide) (by decide), h₁, h₂⟩
theorem f8_2b_benign : BenignKindChanges f2bOld f2bNew f2bWork :=
  BenignKindChanges.of_check (by decide)
theorem f8_2b_ok (o₁ o₂ : List Path) (h₁ : o₁.Perm [["d", "x"], ["d", "z"]]) (h₂ : o₂.Perm [["d", "x"], ["d", "z"]]) :
    ∃ t', commit f2bOld f2bNew f2bWork o₁ o₂ (treeOfBuild f2bOld) = .ok t' ∧ Holds t' f2bNew :=
  commit_correct_kinds_partial _ _ _ _ _ (f8_2b_hyps o₁ o₂ h₁ h₂).oldWF (f8_2b_hyps o₁ o₂ h₁ h₂).newWF
    f8_2b_benign (f8_2b_hyps o₁ o₂ h₁ h₂).work h₁ h₂

/-! ### the shape repaired by `moveSourcesAside` (finding F8, shape (3)): one more former counterexample

  F8 (3) was a machine-checked instance on which the model's `commit` — and the code — failed: a file of the old
  build becomes a directory of the new build, and some file of the new build is a rename (or a copy) of it;
  `ensureDirs`, which runs first, cleared the file away, and the transposition found a directory where its source
  had been (EISDIR; with other instances of the shape a wrong tree with success reported: `h11_*`, `h12_*` below).
  Since the repair the file steps aside before the directories are made (`f8_3_aside`), and the transposition
  reads it from its aside path.  The model follows; the instance is kept, with the opposite conclusion
  (`f8_3_ok`, by evaluation; `f8_3_ok_any_order`, by the theorem).  It used to violate the clause `sources`. -/

/-! #### F8 (3) file → dir, the directory holding the old file renamed.  Formerly EISDIR; now `f` is renamed to
    `f.butler-aside-1`, the directory `f` is made, and the transposition renames the aside file to `f/inner`. -/
def f3Old : Build := { files := [(["f"], [1]), (["k"], [3])] }
def f3New : Build := { dirs := [["f"]], files := [(["f", "inner"], [1]), (["k"], [3])] }
def f3Work : Work := { transpositions := [(0, 0), (1, 1)] }

theorem f8_3_hyps : OtherHyps f3Old f3New f3Work [["f"], ["k"]] [["f"], ["k"]] :=
  ⟨⟨by decide, by decide, parents_of_check (by decide)⟩, ⟨by decide, by decide, parents_of_check (by decide)⟩,
    WorkOK.of_check (by decide) (by decide) (by decide) (by decide) (by decide) (by decide) (by decide)
      (by decide) (by decide), by decide, by decide⟩
/-- after the commit: the directory `f` holds the old file under its new name -/
def f3T : Tree := { entries := [(["k"], .file [3]), (["f"], .dir), (["f", "inner"], .file [1])] }
/-- the source `f` steps aside: it is a directory of the new build -/
theorem f8_3_aside :
    (moveSourcesAside f3Old f3New f3Work (treeOfBuild f3Old)).toOption.map (·.2) =
      some [(["f"], ["f.butler-aside-1"])] := by
  decide +kernel
theorem f8_3_commit :
    commit f3Old f3New f3Work [["f"], ["k"]] [["f"], ["k"]] (treeOfBuild f3Old) = .ok f3T :=
  eq_of_yields (by decide +kernel)
/-- the commit yields exactly the new build: `f/inner` holds the content of the old `f` -/
theorem f8_3_ok :
    ∃ t', commit f3Old f3New f3Work [["f"], ["k"]] [["f"], ["k"]] (treeOfBuild f3Old) = .ok t' ∧
      Holds t' f3New :=
  ⟨f3T, f8_3_commit, holds_of_check (by decide)⟩

/-- the instance is inside `BenignKindChanges` now that the clause `sources` is gone -/
theorem f8_3_benign : BenignKindChanges f3Old f3New f3Work := BenignKindChanges.of_check (by decide)
theorem f8_3_clash : ¬ NoKindClash f3Old f3New :=
  not_noKindClash ["f"] .file .dir (by decide) (by decide) (by decide)

/-- it also follows from the theorem, for every pair of visiting orders -/
theorem f8_3_ok_any_order (o₁ o₂ : List Path) (h₁ : o₁.Perm [["f"], ["k"]]) (h₂ : o₂.Perm [["f"], ["k"]]) :
    ∃ t', commit f3Old f3New f3Work o₁ o₂ (treeOfBuild f3Old) = .ok t' ∧ Holds t' f3New :=
  commit_correct_kinds_partial _ _ _ _ _ f8_3_hyps.oldWF f8_3_hyps.newWF f8_3_benign f8_3_hyps.work h₁ h₂

/-! ### the clause is needed: an instance that violates it, on which `commit` fails

  The instance satisfies ALL other hypotheses of the theorem (`BuildWF` of both builds, `WorkOK`, the orders are
  permutations of the sources: `g9_hyps`), violates `BenignKindChanges` (`g9_not_benign`), and the model's `commit`
  returns an error (`g9_fails`).  (F8 (1), F8 (2) and F8 (3) used to be here, violating `emptyDir` and `sources`:
  see above.) -/

/-! #### (9) file → dir, the new directories listed child first (violates `dirOrder`): `mkdir -p a/x` meets the
    old file `a`, ENOTDIR.  (Model only: `tlc.Walk` lists a directory before its children.) -/
def g9Old : Build := { files := [(["a"], [1])] }
def g9New : Build := { dirs := [["a", "x"], ["a"]] }

theorem g9_hyps : OtherHyps g9Old g9New {} [] [] :=
  ⟨⟨by decide, by decide, parents_of_check (by decide)⟩, ⟨by decide, by decide, parents_of_check (by decide)⟩,
    WorkOK.of_check (by decide) (by decide) (by decide) (by decide) (by decide) (by decide) (by decide)
      (by decide) (by decide), by decide, by decide⟩
theorem g9_not_benign : ¬ BenignKindChanges g9Old g9New {} :=
  fun h => absurd h.dirOrder (by decide)
theorem g9_fails : failsWith (commit g9Old g9New {} [] [] (treeOfBuild g9Old)) .enotdir = true := by
  decide
/-- parents first, the same pair of builds is fine -/
def g9New' : Build := { dirs := [["a"], ["a", "x"]] }
theorem g9_reordered_ok : ∃ t', commit g9Old g9New' {} [] [] (treeOfBuild g9Old) = .ok t' ∧ Holds t' g9New' :=
  commit_correct_kinds_partial _ _ _ _ _ ⟨by decide, by decide, parents_of_check (by decide)⟩
    ⟨by decide, by decide, parents_of_check (by decide)⟩
    (BenignKindChanges.of_check (by decide))
    (WorkOK.of_check (by decide) (by decide) (by decide) (by decide) (by decide) (by decide) (by decide)
      (by decide) (by decide)) (by decide) (by decide)

/-! ### what the reordering changed OUTSIDE the then `BenignKindChanges`

  Inside `BenignKindChanges` as it was then (`emptyDir`, `sources`, `dirOrder`) the commit was right before and
  after the repair of F27.  Outside, an exhaustive comparison of the two orders with the compiled model on some 34 million runs over small
  builds (three top-level names, directories with up to two entries, every admissible work record) found, next to
  3.1 million runs the reordering repairs, two ways in which it did harm.  Both were confined to the then known
  failing classes F8 (1)-(3); one instance of each is kept here.

  (10) violated the former clause `emptyDir` (class F8 (1)).  The former order got it right BY ACCIDENT: the
  transposition source `a/y` was looked up through the symlink that had already replaced `a`, the file found
  there was `b/y` — which happens to have the same content — and renaming it away emptied the directory `b` just
  in time for the file `b` to replace it.  After the reordering the right file is renamed, `b` is not empty, and
  the staged move failed as in F8 (1), ENOTEMPTY (the former `h10_fails`; all 1798 runs of this kind violated
  `emptyDir`).  Since the repair of F8 (1)/(2) the staged move removes the directory with the ghost `b/y` in it:
  the commit is right, and for the right reason (`h10_before_ok`, `h10_ok`); the instance is inside
  `BenignKindChanges` (`h10_benign`).

  (11) violated the former clause `sources` (class F8 (3)).  Both orders renamed the DIRECTORY `b` that
  `ensureDirs` put in place of the source `b`, and so went wrong; the former order then failed (ENOENT) because the
  other source, `c`, had been replaced by the new symlink (`h11_before_fails`: `commitBeforeF27` does not let
  sources step aside either), the reordered one renamed `c` correctly and reported success with `a` a directory
  instead of a file (the former `h11_wrong`; all 80479 runs in which an error turned into such a tree violated
  `sources`).  Since the repair of F8 (3) the source `b` steps aside first and the commit is right (`h11_ok`). -/

/-- `Commit` as it was before the repair of finding F27: the new symlinks are put in place together with the new
    directories, before the transpositions (`ensureDirsAndSymlinks`). -/
def commitBeforeF27 (old new : Build) (w : Work) (o₁ o₂ : List Path) (t : Tree) : Except Err Tree := do
  let t ← ensureAll new t
  let t ← applyTranspositions old new w o₁ o₂ t
  let t ← applyMoves new w t
  let t ← applyOverlays new w t
  deleteGhosts old new t

/-! #### (10) dir → symlink, a file of the directory renamed out, and the symlink's destination a NON-EMPTY
    directory that becomes a file and holds a file of the same name and content.  (`commitBeforeF27` is the
    present model but for the order of the phases: its `move` and staged moves are the repaired ones; on this
    instance the staged move onto `b` finds an EMPTY directory there — the accident — so that makes no
    difference.) -/
def h10Old : Build := { dirs := [["a"], ["b"]], files := [(["a", "y"], [1]), (["b", "y"], [1])] }
def h10New : Build := { symlinks := [(["a"], "b")], files := [(["b"], [1]), (["c"], [1])] }
def h10Work : Work := { transpositions := [(1, 0)], moveFiles := [0] }
def h10T1 : Tree := { entries := [(["b"], .dir), (["b", "y"], .file [1]), (["a"], .symlink "b")] }
def h10T2 : Tree := { entries := [(["b"], .dir), (["a"], .symlink "b"), (["c"], .file [1])] }
def h10T3 : Tree := { entries := [(["a"], .symlink "b"), (["c"], .file [1]), (["b"], .file [1])] }

theorem h10_hyps : OtherHyps h10Old h10New h10Work [["a", "y"]] [["a", "y"]] :=
  ⟨⟨by decide, by decide, parents_of_check (by decide)⟩, ⟨by decide, by decide, parents_of_check (by decide)⟩,
    WorkOK.of_check (by decide) (by decide) (by decide) (by decide) (by decide) (by decide) (by decide)
      (by decide) (by decide), by decide, by decide⟩
theorem h10_clash : ¬ NoKindClash h10Old h10New :=
  not_noKindClash ["b"] .dir .file (by decide) (by decide) (by decide)
/-- now (F27 and F8 (1)/(2) repaired): the right file `a/y` is renamed to `c`, the staged move removes the
    directory `b` with the ghost `b/y` in it -/
def h10U2 : Tree := { entries := [(["a"], .dir), (["b"], .dir), (["b", "y"], .file [1]), (["c"], .file [1])] }
def h10U3 : Tree := { entries := [(["a"], .dir), (["c"], .file [1]), (["b"], .file [1])] }
def h10U5 : Tree := { entries := [(["c"], .file [1]), (["b"], .file [1]), (["a"], .symlink "b")] }
theorem h10_e1 : h10New.dirs.foldlM ensureDir (treeOfBuild h10Old) = .ok (treeOfBuild h10Old) := rfl
/-- the right file, `a/y`, is renamed to `c` -/
theorem h10_e2 :
    applyTranspositions h10Old h10New h10Work [["a", "y"]] [["a", "y"]] (treeOfBuild h10Old) = .ok h10U2 :=
  eq_of_yields (by decide)
/-- the staged move removes the directory `b` with the ghost `b/y` in it (`os.RemoveAll`) -/
theorem h10_e3 : applyMoves h10New h10Work h10U2 = .ok h10U3 := eq_of_yields (by decide)
theorem h10_e4 : applyOverlays h10New h10Work h10U3 = .ok h10U3 := rfl
theorem h10_e5 : h10New.symlinks.foldlM (fun t (p, d) => ensureSymlink t p d) h10U3 = .ok h10U5 :=
  eq_of_yields (by decide +kernel)
/-- both ghosts, `a/y` and `b/y`, lie below a path that is now a symlink or a file: skipped -/
theorem h10_e6 : deleteGhosts h10Old h10New h10U5 = .ok h10U5 := deleteGhosts_noop (by decide)
theorem h10_commit :
    commit h10Old h10New h10Work [["a", "y"]] [["a", "y"]] (treeOfBuild h10Old) = .ok h10U5 := by
  simp only [commit, bind, Except.bind,
    aside_nil_of_check (old := h10Old) (new := h10New) (w := h10Work) _ (by decide), h10_e1, h10_e2, h10_e3, h10_e4, h10_e5, h10_e6]
theorem h10_ok :
    ∃ t', commit h10Old h10New h10Work [["a", "y"]] [["a", "y"]] (treeOfBuild h10Old) = .ok t' ∧
      Holds t' h10New :=
  ⟨h10U5, h10_commit, holds_of_check (by decide)⟩
/-- the instance is inside `BenignKindChanges` now that the clause `emptyDir` is gone -/
theorem h10_benign : BenignKindChanges h10Old h10New h10Work :=
  BenignKindChanges.of_check (by decide)
example :
    ∃ t', commit h10Old h10New h10Work [["a", "y"]] [["a", "y"]] (treeOfBuild h10Old) = .ok t' ∧
      Holds t' h10New :=
  commit_correct_kinds_partial _ _ _ _ _ h10_hyps.oldWF h10_hyps.newWF h10_benign h10_hyps.work h10_hyps.perm₁
    h10_hyps.perm₂

theorem h10_b1 : ensureAll h10New (treeOfBuild h10Old) = .ok h10T1 := eq_of_yields (by decide +kernel)

theorem h10_canon : canon h10T1 ["a", "y"] = .ok ["b", "y"] := by
  show resolve h10T1 (39 + 1) [] ("a" :: "y" :: []) = _
  rw [Commit.resolve_symlink_step _ _ _ _ _ _ "b" (by decide) (by rfl) Commit.startsWith_b, Commit.splitDest_b]
  rfl

theorem h10_move : moveFile h10T1 ["a", "y"] ["c"] = .ok h10T2 := by
  have hrm : clearDest h10T1 ["c"] = .ok h10T1 := rfl
  have hmk : mkdirs h10T1 (["c"] : Path).dropLast = .ok h10T1 := rfl
  have hrn : rename h10T1 ["a", "y"] ["c"] = .ok h10T2 := by
    simp only [rename, h10_canon, bind, Except.bind]
    rfl
  simp only [moveFile, hrm, hmk, hrn, bind, Except.bind]

theorem h10_b2 : applyTranspositions h10Old h10New h10Work [["a", "y"]] [["a", "y"]] h10T1 = .ok h10T2 := by
  rw [Commit.applyTranspositions_eq]
  show (do
    let t ← List.foldlM
      (fun t (x : Path × List Transpo) => applyGroup t ((Commit.ovPaths h10New h10Work).contains x.1) x.1 x.2)
      h10T1 [(["a", "y"], [⟨["a", "y"], ["c"]⟩])]
    List.foldlM (fun t (c : Transpo) => moveFile t c.targetPath c.outputPath) t []) = _
  have hg : applyGroup h10T1 ((Commit.ovPaths h10New h10Work).contains ["a", "y"]) ["a", "y"]
      [⟨["a", "y"], ["c"]⟩] = moveFile h10T1 ["a", "y"] ["c"] := by rfl
  simp only [List.foldlM_cons, List.foldlM_nil, hg, h10_move, bind, Except.bind]
  rfl

theorem h10_b3 : applyMoves h10New h10Work h10T2 = .ok h10T3 := eq_of_yields (by decide +kernel)
theorem h10_b4 : applyOverlays h10New h10Work h10T3 = .ok h10T3 := eq_of_yields (by decide +kernel)
/-- both ghosts, `a/y` and `b/y`, lie below a path that is now a symlink or a file -/
theorem h10_b5 : deleteGhosts h10Old h10New h10T3 = .ok h10T3 := by
  rw [Commit.deleteGhosts_eq]
  apply ghosts_all_skipped
  have hall : ∀ x ∈ Commit.ghostList h10Old h10New,
      (Commit.leavesOf h10New).any (fun l => isPrefix l x.1) = true := by decide
  exact fun x hx => hall x (List.mem_mergeSort.mp hx)

theorem h10_before_ok :
    ∃ t', commitBeforeF27 h10Old h10New h10Work [["a", "y"]] [["a", "y"]] (treeOfBuild h10Old) = .ok t' ∧
      Holds t' h10New := by
  refine ⟨h10T3, ?_, holds_of_check (by decide)⟩
  simp only [commitBeforeF27, bind, Except.bind, h10_b1, h10_b2, h10_b3, h10_b4, h10_b5]

/-! #### (11) file → dir, the old file renamed elsewhere (F8 (3)), and a file → symlink whose old file is copied
    elsewhere -/
def h11Old : Build := { files := [(["b"], [1]), (["c"], [1])] }
def h11New : Build :=
  { dirs := [["b"]]
    symlinks := [(["c"], "/n")]
    files := [(["a"], [1]), (["b", "x"], [1]), (["b", "y"], [1])] }
def h11Work : Work := { transpositions := [(0, 0), (1, 1), (2, 1)] }

theorem h11_hyps : OtherHyps h11Old h11New h11Work [["b"], ["c"]] [["b"], ["c"]] :=
  ⟨⟨by decide, by decide, parents_of_check (by decide)⟩, ⟨by decide, by decide, parents_of_check (by decide)⟩,
    WorkOK.of_check (by decide) (by decide) (by decide) (by decide) (by decide) (by decide) (by decide)
      (by decide) (by decide), by decide, by decide⟩
/-- before the repair of F27: an error -/
theorem h11_before_fails :
    failsWith (commitBeforeF27 h11Old h11New h11Work [["b"], ["c"]] [["b"], ["c"]] (treeOfBuild h11Old)) .enoent =
      true := by
  decide +kernel
/-- now (F8 (3) repaired): `b` steps aside, is renamed to `a` after being copied to `b/x`; `c` is copied to `b/y`
    and gives way to the symlink -/
def h11T : Tree :=
  { entries := [(["b"], .dir), (["a"], .file [1]), (["b", "y"], .file [1]), (["b", "x"], .file [1]),
      (["c"], .symlink "/n")] }
theorem h11_commit :
    commit h11Old h11New h11Work [["b"], ["c"]] [["b"], ["c"]] (treeOfBuild h11Old) = .ok h11T :=
  eq_of_yields (by decide +kernel)
theorem h11_ok :
    ∃ t', commit h11Old h11New h11Work [["b"], ["c"]] [["b"], ["c"]] (treeOfBuild h11Old) = .ok t' ∧
      Holds t' h11New :=
  ⟨h11T, h11_commit, holds_of_check (by decide)⟩
theorem h11_benign : BenignKindChanges h11Old h11New h11Work := BenignKindChanges.of_check (by decide)
example :
    ∃ t', commit h11Old h11New h11Work [["b"], ["c"]] [["b"], ["c"]] (treeOfBuild h11Old) = .ok t' ∧
      Holds t' h11New :=
  commit_correct_kinds_partial _ _ _ _ _ h11_hyps.oldWF h11_hyps.newWF h11_benign h11_hyps.work h11_hyps.perm₁
    h11_hyps.perm₂

/-! ### what the repair of F8 (1)/(2) changed OUTSIDE the then `BenignKindChanges`

  An exhaustive comparison of the model before and after the repair of F8 (1)/(2) (`os.RemoveAll` in `move` and in
  the staged moves, temporary names for outputs that are old directories) with the compiled model, on the same
  34450200 runs over small builds as above: NO run that yielded the new build before fails or goes wrong now;
  6310093 runs that failed now yield the new build; on the 26631920 runs inside the then `BenignKindChanges` the
  commit yields the new build (the theorem), on the 19225101 inside the former one it did and does.  575580 runs
  that ended in an error then ended in a WRONG tree with success reported.  All of them violated `sources` (and the
  former `emptyDir`): they were in the then failing class F8 (3), which might end in a wrong tree anyway.  One
  instance is kept here.

  (12) violated `sources`.  The source `c` becomes a directory and was cleared by `ensureDirs`; the transposition
  `c → b` then renamed the DIRECTORY `c`.  Its output `b` is a non-empty directory of the old build: before the
  repair of F8 (1)/(2) `os.Remove b` failed (ENOTEMPTY) and the commit with it; after it `c` was renamed to
  `b.butler-rename-1`, the cleanup rename removed `b` with `b/x` and put the directory there, and the commit
  reported success with `b` a directory instead of a file and `c` gone (the former `h12_wrong`).  Since the repair
  of F8 (3) the FILE `c` steps aside first, and it is the file that ends up at `b`: the commit is right
  (`h12_ok`). -/
def h12Old : Build := { dirs := [["b"]], files := [(["c"], [1]), (["b", "x"], [2])] }
def h12New : Build := { dirs := [["c"]], files := [(["b"], [1])] }
def h12Work : Work := { transpositions := [(0, 0)] }

theorem h12_hyps : OtherHyps h12Old h12New h12Work [["c"]] [["c"]] :=
  ⟨⟨by decide, by decide, parents_of_check (by decide)⟩, ⟨by decide, by decide, parents_of_check (by decide)⟩,
    WorkOK.of_check (by decide) (by decide) (by decide) (by decide) (by decide) (by decide) (by decide)
      (by decide) (by decide), by decide, by decide⟩
/-- now (F8 (3) repaired): `c` steps aside, the directory `c` is made, the aside file is renamed to
    `b.butler-rename-1`, and the cleanup rename removes `b` with `b/x` and puts the file there -/
def h12T : Tree := { entries := [(["c"], .dir), (["b"], .file [1])] }
theorem h12_commit : commit h12Old h12New h12Work [["c"]] [["c"]] (treeOfBuild h12Old) = .ok h12T :=
  eq_of_yields (by decide +kernel)
theorem h12_ok :
    ∃ t', commit h12Old h12New h12Work [["c"]] [["c"]] (treeOfBuild h12Old) = .ok t' ∧ Holds t' h12New :=
  ⟨h12T, h12_commit, holds_of_check (by decide)⟩
theorem h12_benign : BenignKindChanges h12Old h12New h12Work := BenignKindChanges.of_check (by decide)
example :
    ∃ t', commit h12Old h12New h12Work [["c"]] [["c"]] (treeOfBuild h12Old) = .ok t' ∧ Holds t' h12New :=
  commit_correct_kinds_partial _ _ _ _ _ h12_hyps.oldWF h12_hyps.newWF h12_benign h12_hyps.work h12_hyps.perm₁
    h12_hyps.perm₂

/-! ### what the repair of F8 (3) changes

  An exhaustive comparison of the model before and after the repair of F8 (3) (`moveSourcesAside`; before: `commit`
  without that phase, every source read from its own path) with the compiled model, on the same 34450200 runs
  over small builds as above (all of them with well-formed builds, parents-first directories and an admissible
  work record, i.e. inside the hypotheses of `commit_correct`): NO run that yielded the new build before fails or
  goes wrong now (26631920 runs, exactly those inside the former `BenignKindChanges`, with `sources`: there the
  aside map is empty and the two models are the same function, `Commit.moveSourcesAside_nil_of_sources`); the
  4236431 runs that ended in an error and the 3581849 runs that ended in a wrong tree with success reported —
  all of them violating `sources` — now yield the new build.  NO run fails or goes wrong any more, as
  `commit_correct` says. -/

/-! ### the full-strength statement without `DirOrder` is false in the model

  `CommitCorrect` (Props/C02.lean) has no hypothesis on the order in which the new directories are listed; the
  model's `commit` fails on (9).  With `DirOrder` it is `commit_correct`.  (`commitCorrect_false`,
  `commitCorrect_false_3`, `_12` — and before them `_5`, `_6`, `_7`, `_4`, `_8`, `_2` — are gone with the defects
  they relied on: NO instance with well-formed builds and `DirOrder` on which the commit fails or goes wrong is
  left.) -/

theorem commitCorrect_false_9 : ¬ CommitCorrect := not_commitCorrect_of g9_hyps (not_ok_of_failsWith g9_fails _)

/-! ### what remains

  `BenignKindChanges` — `DirOrder` — is sufficient (`commit_correct`), and necessary in the model in the sense
  that dropping it admits (9): a directory listed before the file or symlink above it is created in the wrong
  place or not at all.  It is about `ensureDirs`, which runs before the files are renamed, copied or staged: a
  new directory has to be there first.  `tlc.Walk` lists a directory before what is below it, so the containers
  the code commits satisfy it; in that sense nothing remains of finding F8.

  Gone with the repair of F8 (3):
  * `sources` — a transposition source may become a directory: it steps aside before `ensureDirs`
    (`Commit.moveSourcesAside_spec`), is read from its aside path, and is consumed by the last step of its group
    (`Commit.Transposed'.consumed`); an aside name is not a path of either build, and its parent is a directory
    of both.

  Gone with the repair of F8 (1)/(2):
  * `emptyDir` — an old directory that becomes a regular file may hold anything: `move` and the staged moves remove
    it with all that is left below it when the file arrives (`Commit.clearDest_spec`, `Commit.moveFile_specD`,
    `Commit.stageStep_specD`), and by then all that is left is ghosts, every transposition having been applied;
    a transposition output onto such a directory is deferred to the cleanup phase (`f8_2_first_pass`), so the
    second pass — described by `Commit.SameX` with the new file paths that are NOT old directories as soft paths
    (`Commit.Soft`) — leaves the directory and the sources below it alone (`f8_2b_ok`: the file renamed onto the
    directory comes from inside it).  In the helper lemmas the state after the transposition phase
    (`Commit.Transposed'`) speaks about the paths that are not below a new file path; what is below one is gone
    at the end because the file is there (`TInv`).

  Gone with the repairs of F25, F26 and F27 (they used to be listed here as excluding too much, or as necessary):
  * `outputs` — a transposition output may now land on an old symlink or on an empty old directory whether it is
    written by `move` or by `copy`: both remove such a destination first.  In the helper lemmas the transposition
    phase is no longer described by `SameNF` ("only regular files change") but by `Commit.SameX` (at a new file
    path a symlink or an empty directory may give way to a regular file; nothing appears below such a path), and
    the destinations are `Commit.XSlot`s.
  * `dirToSymlink`, second part (`DeadEnd`) — ghosts below a path that has become a symlink are skipped, not
    looked up through the symlink.
  * `dirToSymlink`, first part, and `sources`, second part — the new symlinks are put in place after the
    transpositions, the staged moves and the overlays.  In the helper lemmas the state after the first phase
    (`Commit.Ensured`) no longer mentions symlinks and is the same with and without kind changes; the symlink
    pass (`Commit.ensureSymlinks_spec'`) runs on the tree in which all new directories and files are in place and
    leaves them alone — no path of the new build is the path of a new symlink or lies below one
    (`Commit.BWF.not_below_symlink`) — whatever it removes is an old path that is not part of the new build.

  Difference between model and code noticed on the way: `Commit.copyFile` reads the whole source before it opens
  the destination; `overlayBowl.copy` opens the destination with `O_TRUNC` while the source is open.  They differ
  when the destination resolves to the source itself.  That used to be instance (6) (`s` is a symlink to `b`, `b`
  is copied onto `s`); since the repair of F26 the symlink is removed before the destination is opened, and the
  two agree on it. -/

-- #print axioms commit_correct                    -- [propext, Classical.choice, Quot.sound]
-- #print axioms commit_correct_kinds_partial      -- [propext, Classical.choice, Quot.sound]
-- #print axioms commit_kinds_order_independent    -- [propext, Classical.choice, Quot.sound]
-- #print axioms NoKindClash.benign                -- [propext, Quot.sound]
-- #print axioms commit_correct_partial_of_kinds   -- [propext, Classical.choice, Quot.sound]
-- #print axioms b1_ok                             -- (b1 … b7: the same three)
-- #print axioms f8_4_ok                           -- [propext, Classical.choice, Quot.sound]
-- #print axioms g8_ok                             -- [propext, Classical.choice, Quot.sound]
-- #print axioms h10_before_ok                     -- [propext, Classical.choice, Quot.sound]
-- #print axioms h10_ok                            -- [propext, Classical.choice, Quot.sound]
-- #print axioms f8_1_ok                           -- [propext, Classical.choice, Quot.sound]
-- #print axioms f8_2_ok                           -- [propext, Classical.choice, Quot.sound]
-- #print axioms f8_2b_ok                          -- [propext, Classical.choice, Quot.sound]
-- #print axioms h11_ok                            -- [propext, Classical.choice, Quot.sound]
-- #print axioms h12_ok                            -- [propext, Classical.choice, Quot.sound]
-- #print axioms f8_3_ok                           -- [propext, Classical.choice, Quot.sound]
-- #print axioms f8_3_ok_any_order                 -- [propext, Classical.choice, Quot.sound]
-- #print axioms g5_ok                             -- [propext, Classical.choice, Quot.sound]
-- #print axioms g6_ok                             -- [propext, Classical.choice, Quot.sound]
-- #print axioms g7_ok                             -- [propext, Classical.choice, Quot.sound]
-- #print axioms commitCorrect_false_9             -- [propext, Classical.choice, Quot.sound]

end Wharf.C02
