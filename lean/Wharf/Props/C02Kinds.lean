/-
  C02 with path-kind changes — the in-place commit yields exactly the new build also when paths change kind
  (file / directory / symlink) between the builds, outside the shapes of finding F8.

  `commit_correct_partial` (Props/C02.lean) assumes `NoKindClash old new`: NO path changes kind.  That is much
  stronger than needed.  Here the hypothesis is replaced by `BenignKindChanges old new w`, which allows

      symlink -> file      the new file being staged OR the output of a transposition (a `move` or a `copy`)
      emptydir -> file     likewise
      file -> dir          the old file not being a transposition source
      file -> symlink      likewise
      symlink -> dir
      dir -> symlink       no transposition source below the old directory; whatever the symlink points to

  provided a new directory that replaces an old file or symlink is listed before the new directories below it
  (`dirOrder`; `tlc.Walk` lists parents first).  `NoKindClash` implies `BenignKindChanges` (`NoKindClash.benign`),
  so `commit_correct_partial` is a corollary (`commit_correct_partial_of_kinds`).

  Every clause is needed — each is violated by an instance on which the model's `commit` fails or yields a wrong
  tree (second half of the file, machine-checked):

      F8 (1) dir -> file, new file, non-empty directory          `f8_1_*`   error (ENOTEMPTY)
      F8 (2) dir -> file, renamed file, non-empty directory      `f8_2_*`   error (ENOTEMPTY)
      F8 (3) file -> dir holding the old file renamed            `f8_3_*`   error (EISDIR)
      F8 (4) dir -> symlink, a file of the directory renamed out `f8_4_*`   error (ENOENT)
  and, found while looking for the right predicate (not among the four recorded shapes):
      (8) file -> symlink, the old file renamed elsewhere         `g8_*`     success reported, the SYMLINK renamed
      (9) file -> dir, new directories listed child first         `g9_*`     error (ENOTDIR)  [model only]

  Three more instances found on the way were genuine defects of the code (findings F25, F26).  The code has been
  repaired, the model follows, the clauses that excluded them are gone, and the instances are kept as POSITIVE
  ones (the commit now yields exactly the new build, `g5_ok`, `g6_ok`, `g7_ok`):
      (5) dir -> symlink, ghost reached THROUGH the new symlink   `g5_*`     was: success reported, a NEW file deleted
      (6) symlink -> file written by a transposition COPY         `g6_*`     was: success reported, symlink still there
      (7) emptydir -> file written by a transposition COPY        `g7_*`     was: error (EISDIR)
  F25: `deleteGhosts` now skips a ghost below a path that is a file or a symlink of the new build, so the second
  half of the former `dirToSymlink` clause ("the old paths below the directory are unreachable through the new
  symlink": `DeadEnd`) is gone.  F26: `copy` now removes a destination that is not a regular file before writing
  (as `move` always did), so the former `outputs` clause ("a transposition output does not land on an old
  directory or symlink") is gone altogether: what is left of it — an old directory on which an output lands is
  empty — is an instance of `emptyDir` (`BenignKindChanges.outputs`).

  What `BenignKindChanges` still excludes although the model handles it: see "what remains" at the end of the
  file.
-/
import Wharf.Props.C02
import Wharf.Proofs.CommitKinds

namespace Wharf.C02
open Wharf Wharf.FS Wharf.Commit

/-- the output paths of the transpositions: new paths of the recorded (source, target) pairs.  (No clause of
    `BenignKindChanges` mentions them any more; see `BenignKindChanges.outputs`.) -/
def outputsOf (old new : Build) (w : Work) : List Path :=
  w.transpositions.filterMap fun (s, tg) =>
    match new.files[s]?, old.files[tg]? with
    | some (np, _), some _ => some np
    | _, _ => none

/-- Benign kind changes: what the commit needs of the paths that change kind between the builds.
    (`isPrefix p q` = "`q` lies strictly below `p`".) -/
structure BenignKindChanges (old new : Build) (w : Work) : Prop where
  /-- dir → file: the old directory is empty (the destination is removed with `os.Remove`, by the staged move
      as well as by `move` and — since the repair of finding F26 — `copy` of the transpositions) -/
  emptyDir : ∀ p ∈ old.dirs, p ∈ new.files.map (·.1) → ∀ q ∈ allPaths old, isPrefix p q = false
  /-- file → dir, file → symlink: the old file is not the source of a transposition (it is cleared by
      `ensureDirsAndSymlinks` before the transpositions run) -/
  sources : ∀ p ∈ sourcesOf old new w, p ∉ new.dirs ∧ p ∉ new.symlinks.map (·.1)
  /-- dir → symlink: the directory is cleared with `os.RemoveAll` before the transpositions run, so no source
      lies below it.  (The old paths below it are ghosts; since the repair of finding F25 `deleteGhosts` skips
      them instead of looking them up THROUGH the new symlink, so nothing is asked of the symlink's
      destination.) -/
  dirToSymlink : ∀ e ∈ new.symlinks, e.1 ∈ old.dirs → ∀ q ∈ sourcesOf old new w, isPrefix e.1 q = false
  /-- file → dir, symlink → dir: the replaced path is listed before the new directories below it -/
  dirOrder : new.dirs.Pairwise (fun a b => isPrefix b a = true →
    b ∉ old.files.map (·.1) ∧ b ∉ old.symlinks.map (·.1))

theorem outputsOf_eq (old new : Build) (w : Work) :
    outputsOf old new w = (Commit.tsOf old new w).map (·.outputPath) := by
  unfold outputsOf Commit.tsOf
  rw [List.map_filterMap]
  apply Commit.filterMap_congr'
  intro st _
  obtain ⟨s, tg⟩ := st
  simp only
  cases new.files[s]? <;> cases old.files[tg]? <;> rfl

theorem allPaths_eq (b : Build) : allPaths b = Commit.pathsOf b := rfl

theorem BenignKindChanges.toBKC {old new : Build} {w : Work} (h : BenignKindChanges old new w) :
    Commit.BKC old new w := by
  refine ⟨?_, ?_, ?_, h.dirOrder⟩
  · intro p hd hf q hq
    exact h.emptyDir p hd hf q hq
  · intro p hp
    apply h.sources
    rw [sourcesOf_eq]
    exact hp
  · intro e he hd q hq
    apply h.dirToSymlink e he hd
    rw [sourcesOf_eq]
    exact hq

/-- What is left of the former clause `outputs` (a transposition output does not land on an old directory or
    symlink): an output may land on an old symlink, and on an old directory provided that one is empty — which
    `emptyDir` says already, an output being a file of the new build. -/
theorem BenignKindChanges.outputs {old new : Build} {w : Work} (h : BenignKindChanges old new w) :
    ∀ p ∈ outputsOf old new w, p ∈ old.dirs → ∀ q ∈ allPaths old, isPrefix p q = false := by
  intro p hp hd
  rw [outputsOf_eq] at hp
  obtain ⟨tr, htr, rfl⟩ := List.mem_map.mp hp
  exact h.emptyDir _ hd (Commit.tsOf_new htr)

/-- C02 with benign kind changes: transpositions, every pair of visiting orders. -/
theorem commit_correct_kinds_partial (old new : Build) (w : Work) (order₁ order₂ : List Path)
    (hold : BuildWF old) (hnew : BuildWF new) (hb : BenignKindChanges old new w)
    (hw : WorkOK old new w)
    (ho₁ : order₁.Perm (sourcesOf old new w)) (ho₂ : order₂.Perm (sourcesOf old new w)) :
    ∃ t', commit old new w order₁ order₂ (treeOfBuild old) = .ok t' ∧ Holds t' new := by
  rw [sourcesOf_eq] at ho₁ ho₂
  obtain ⟨t', h1, _, h2⟩ := Commit.commit_spec' hold.toBWF hnew.toBWF hb.toBKC hw.toWOK ho₁ ho₂
  exact ⟨t', h1, h2⟩

/-- consequence: the result does not depend on the visiting orders -/
theorem commit_kinds_order_independent (old new : Build) (w : Work) (o₁ o₂ o₁' o₂' : List Path)
    (hold : BuildWF old) (hnew : BuildWF new) (hb : BenignKindChanges old new w)
    (hw : WorkOK old new w)
    (h₁ : o₁.Perm (sourcesOf old new w)) (h₂ : o₂.Perm (sourcesOf old new w))
    (h₁' : o₁'.Perm (sourcesOf old new w)) (h₂' : o₂'.Perm (sourcesOf old new w)) :
    ∃ t t', commit old new w o₁ o₂ (treeOfBuild old) = .ok t ∧
            commit old new w o₁' o₂' (treeOfBuild old) = .ok t' ∧ ∀ p, t.get p = t'.get p := by
  obtain ⟨t, ht, hh⟩ := commit_correct_kinds_partial old new w o₁ o₂ hold hnew hb hw h₁ h₂
  obtain ⟨t', ht', hh'⟩ := commit_correct_kinds_partial old new w o₁' o₂' hold hnew hb hw h₁' h₂'
  exact ⟨t, t', ht, ht', fun p => (hh p).trans (hh' p).symm⟩

/-! ### `NoKindClash` is a special case -/

theorem kindOf_dir' {b : Build} {p : Path} (h : p ∈ b.dirs) : kindOf b p = some .dir := by
  simp [kindOf, h]

theorem kindOf_symlink' {b : Build} (hb : BuildWF b) {p : Path} (h : p ∈ b.symlinks.map (·.1)) :
    kindOf b p = some .symlink := by
  have : p ∉ b.dirs := fun hd => hb.toBWF.dir_not_symlink hd h
  simp only [kindOf, if_neg this, if_pos h]

theorem kindOf_file' {b : Build} (hb : BuildWF b) {p : Path} (h : p ∈ b.files.map (·.1)) :
    kindOf b p = some .file := by
  have h1 : p ∉ b.dirs := fun hd => hb.toBWF.dir_not_file hd h
  have h2 : p ∉ b.symlinks.map (·.1) := fun hd => hb.toBWF.symlink_not_file hd h
  simp only [kindOf, if_neg h1, if_neg h2, if_pos h]

/-- no kind change at all is a benign kind change -/
theorem NoKindClash.benign {old new : Build} (w : Work) (hold : BuildWF old) (hnew : BuildWF new)
    (hk : NoKindClash old new) : BenignKindChanges old new w := by
  have hsrc : ∀ p ∈ sourcesOf old new w, p ∈ old.files.map (·.1) := by
    intro p hp
    rw [sourcesOf_eq] at hp
    exact Commit.srcsOf_old hp
  constructor
  · intro p hd hf
    cases hk _ _ _ (kindOf_dir' hd) (kindOf_file' hnew hf)
  · intro p hp
    constructor
    · intro h
      cases hk _ _ _ (kindOf_file' hold (hsrc p hp)) (kindOf_dir' h)
    · intro h
      cases hk _ _ _ (kindOf_file' hold (hsrc p hp)) (kindOf_symlink' hnew h)
  · intro e he hd
    cases hk _ _ _ (kindOf_dir' hd) (kindOf_symlink' hnew (List.mem_map.mpr ⟨e, he, rfl⟩))
  · apply List.pairwise_of_forall_mem_list
    intro a _ b hb _
    constructor
    · intro h
      cases hk _ _ _ (kindOf_file' hold h) (kindOf_dir' hb)
    · intro h
      cases hk _ _ _ (kindOf_symlink' hold h) (kindOf_dir' hb)

/-- `commit_correct_partial` (Props/C02.lean) as a corollary of the statement with kind changes -/
theorem commit_correct_partial_of_kinds (old new : Build) (w : Work) (order₁ order₂ : List Path)
    (hold : BuildWF old) (hnew : BuildWF new) (hk : NoKindClash old new)
    (hw : WorkOK old new w)
    (ho₁ : order₁.Perm (sourcesOf old new w)) (ho₂ : order₂.Perm (sourcesOf old new w)) :
    ∃ t', commit old new w order₁ order₂ (treeOfBuild old) = .ok t' ∧ Holds t' new :=
  commit_correct_kinds_partial old new w order₁ order₂ hold hnew (hk.benign w hold hnew) hw ho₁ ho₂

/-! ### checking the hypotheses on literal instances -/

/-- decidable sufficient condition for `WorkOK` -/
theorem WorkOK.of_check {old new : Build} {w : Work}
    (cover : ∀ i, i < new.files.length → i ∈ w.transpositions.map (·.1) ∨ i ∈ w.overlayFiles ∨ i ∈ w.moveFiles)
    (excl₁ : ∀ i ∈ w.transpositions.map (·.1), i ∉ w.overlayFiles ∧ i ∉ w.moveFiles)
    (excl₂ : ∀ i ∈ w.overlayFiles, i ∉ w.moveFiles)
    (nodupT : (w.transpositions.map (·.1)).Nodup) (nodupO : w.overlayFiles.Nodup) (nodupM : w.moveFiles.Nodup)
    (transp : ∀ st ∈ w.transpositions, (new.files[st.1]?).isSome = true ∧
      (new.files[st.1]?).map (·.2) = (old.files[st.2]?).map (·.2))
    (overlay : ∀ i ∈ w.overlayFiles, ((new.files[i]?).map fun e => decide (e.1 ∈ old.files.map (·.1))) = some true)
    (move : ∀ i ∈ w.moveFiles, ((new.files[i]?).map fun e => decide (e.1 ∉ old.files.map (·.1))) = some true) :
    WorkOK old new w := by
  refine ⟨cover, excl₁, excl₂, nodupT, nodupO, nodupM, ?_, ?_, ?_⟩
  · intro st hst
    obtain ⟨h1, h2⟩ := transp st hst
    cases hn : new.files[st.1]? with
    | none => rw [hn] at h1; cases h1
    | some e =>
      cases ho : old.files[st.2]? with
      | none => rw [hn, ho] at h2; cases h2
      | some e' =>
        rw [hn, ho] at h2
        simp only [Option.map_some, Option.some.injEq] at h2
        exact ⟨e.1, e'.1, e.2, rfl, by rw [h2]⟩
  · intro i hi
    have := overlay i hi
    cases hn : new.files[i]? with
    | none => rw [hn] at this; cases this
    | some e =>
      rw [hn] at this
      simp only [Option.map_some, Option.some.injEq, decide_eq_true_eq] at this
      exact ⟨e.1, e.2, rfl, this⟩
  · intro i hi
    have := move i hi
    cases hn : new.files[i]? with
    | none => rw [hn] at this; cases this
    | some e =>
      rw [hn] at this
      simp only [Option.map_some, Option.some.injEq, decide_eq_true_eq] at this
      exact ⟨e.1, e.2, rfl, this⟩

/-- `BenignKindChanges` on a literal instance: all clauses are decidable -/
theorem BenignKindChanges.of_check {old new : Build} {w : Work}
    (emptyDir : ∀ p ∈ old.dirs, p ∈ new.files.map (·.1) → ∀ q ∈ allPaths old, isPrefix p q = false)
    (sources : ∀ p ∈ sourcesOf old new w, p ∉ new.dirs ∧ p ∉ new.symlinks.map (·.1))
    (dirToSymlink : ∀ e ∈ new.symlinks, e.1 ∈ old.dirs → ∀ q ∈ sourcesOf old new w, isPrefix e.1 q = false)
    (dirOrder : new.dirs.Pairwise (fun a b => isPrefix b a = true →
      b ∉ old.files.map (·.1) ∧ b ∉ old.symlinks.map (·.1))) : BenignKindChanges old new w :=
  ⟨emptyDir, sources, dirToSymlink, dirOrder⟩

/-- a path that changes kind: the instance is outside `NoKindClash` -/
theorem not_noKindClash {old new : Build} (p : Path) (k k' : Kind) (h1 : kindOf old p = some k)
    (h2 : kindOf new p = some k') (hne : k ≠ k') : ¬ NoKindClash old new :=
  fun h => hne (h p k k' h1 h2)

/-! ### the benign shapes: all hypotheses hold, the theorem applies

  The six shapes the Go harness checks against the model on every run (`benignKindShapes` in
  harness/cmd/wv/c02.go), with short names; `k` is an unchanged file (recorded, as the patcher does, as a
  transposition onto itself).  Each instance is OUTSIDE `NoKindClash` (`*_clash`) and INSIDE
  `BenignKindChanges` with all other hypotheses (`*_ok` applies `commit_correct_kinds_partial`).

  The variants `b6`, `b6a`, `b6f`, `b6e` of dir → symlink differ in where the new symlink points.  That used to
  matter (the old paths below the directory had to be unreachable through it: the former `DeadEnd`); since the
  repair of finding F25 those ghosts are skipped and the destination is irrelevant — `g5_*` below is the variant
  where it pointed at a file of the new build named like a ghost. -/

/-! #### symlink → file (staged) -/
def b1Old : Build := { symlinks := [(["s"], "k")], files := [(["k"], [3])] }
def b1New : Build := { files := [(["s"], [1]), (["k"], [3])] }
def b1Work : Work := { transpositions := [(1, 0)], moveFiles := [0] }

theorem b1_old_wf : BuildWF b1Old := ⟨by decide, by decide, parents_of_check (by decide)⟩
theorem b1_new_wf : BuildWF b1New := ⟨by decide, by decide, parents_of_check (by decide)⟩
theorem b1_work : WorkOK b1Old b1New b1Work :=
  WorkOK.of_check (by decide) (by decide) (by decide) (by decide) (by decide) (by decide) (by decide)
    (by decide) (by decide)
theorem b1_benign : BenignKindChanges b1Old b1New b1Work :=
  BenignKindChanges.of_check (by decide) (by decide) (by decide) (by decide)
theorem b1_clash : ¬ NoKindClash b1Old b1New :=
  not_noKindClash ["s"] .symlink .file (by decide) (by decide) (by decide)
theorem b1_ok : ∃ t', commit b1Old b1New b1Work [["k"]] [["k"]] (treeOfBuild b1Old) = .ok t' ∧ Holds t' b1New :=
  commit_correct_kinds_partial _ _ _ _ _ b1_old_wf b1_new_wf b1_benign b1_work (by decide) (by decide)

/-! #### file → symlink (the old file is not a source) -/
def b2Old : Build := { files := [(["s"], [1]), (["k"], [3])] }
def b2New : Build := { symlinks := [(["s"], "k")], files := [(["k"], [3])] }
def b2Work : Work := { transpositions := [(0, 1)] }

theorem b2_old_wf : BuildWF b2Old := ⟨by decide, by decide, parents_of_check (by decide)⟩
theorem b2_new_wf : BuildWF b2New := ⟨by decide, by decide, parents_of_check (by decide)⟩
theorem b2_work : WorkOK b2Old b2New b2Work :=
  WorkOK.of_check (by decide) (by decide) (by decide) (by decide) (by decide) (by decide) (by decide)
    (by decide) (by decide)
theorem b2_benign : BenignKindChanges b2Old b2New b2Work :=
  BenignKindChanges.of_check (by decide) (by decide) (by decide) (by decide)
theorem b2_clash : ¬ NoKindClash b2Old b2New :=
  not_noKindClash ["s"] .file .symlink (by decide) (by decide) (by decide)
theorem b2_ok : ∃ t', commit b2Old b2New b2Work [["k"]] [["k"]] (treeOfBuild b2Old) = .ok t' ∧ Holds t' b2New :=
  commit_correct_kinds_partial _ _ _ _ _ b2_old_wf b2_new_wf b2_benign b2_work (by decide) (by decide)

/-! #### symlink → dir -/
def b3Old : Build := { symlinks := [(["s"], "b")], files := [(["k"], [3])] }
def b3New : Build := { dirs := [["s"]], files := [(["s", "in"], [1]), (["k"], [3])] }
def b3Work : Work := { transpositions := [(1, 0)], moveFiles := [0] }

theorem b3_old_wf : BuildWF b3Old := ⟨by decide, by decide, parents_of_check (by decide)⟩
theorem b3_new_wf : BuildWF b3New := ⟨by decide, by decide, parents_of_check (by decide)⟩
theorem b3_work : WorkOK b3Old b3New b3Work :=
  WorkOK.of_check (by decide) (by decide) (by decide) (by decide) (by decide) (by decide) (by decide)
    (by decide) (by decide)
theorem b3_benign : BenignKindChanges b3Old b3New b3Work :=
  BenignKindChanges.of_check (by decide) (by decide) (by decide) (by decide)
theorem b3_clash : ¬ NoKindClash b3Old b3New :=
  not_noKindClash ["s"] .symlink .dir (by decide) (by decide) (by decide)
theorem b3_ok : ∃ t', commit b3Old b3New b3Work [["k"]] [["k"]] (treeOfBuild b3Old) = .ok t' ∧ Holds t' b3New :=
  commit_correct_kinds_partial _ _ _ _ _ b3_old_wf b3_new_wf b3_benign b3_work (by decide) (by decide)

/-! #### empty dir → file (staged) -/
def b4Old : Build := { dirs := [["e"]], files := [(["k"], [3])] }
def b4New : Build := { files := [(["e"], [1]), (["k"], [3])] }
def b4Work : Work := { transpositions := [(1, 0)], moveFiles := [0] }

theorem b4_old_wf : BuildWF b4Old := ⟨by decide, by decide, parents_of_check (by decide)⟩
theorem b4_new_wf : BuildWF b4New := ⟨by decide, by decide, parents_of_check (by decide)⟩
theorem b4_work : WorkOK b4Old b4New b4Work :=
  WorkOK.of_check (by decide) (by decide) (by decide) (by decide) (by decide) (by decide) (by decide)
    (by decide) (by decide)
theorem b4_benign : BenignKindChanges b4Old b4New b4Work :=
  BenignKindChanges.of_check (by decide) (by decide) (by decide) (by decide)
theorem b4_clash : ¬ NoKindClash b4Old b4New :=
  not_noKindClash ["e"] .dir .file (by decide) (by decide) (by decide)
theorem b4_ok : ∃ t', commit b4Old b4New b4Work [["k"]] [["k"]] (treeOfBuild b4Old) = .ok t' ∧ Holds t' b4New :=
  commit_correct_kinds_partial _ _ _ _ _ b4_old_wf b4_new_wf b4_benign b4_work (by decide) (by decide)

/-! #### file → dir (the old file is not a source) -/
def b5Old : Build := { files := [(["f"], [1]), (["k"], [3])] }
def b5New : Build := { dirs := [["f"]], files := [(["f", "new"], [2]), (["k"], [3])] }
def b5Work : Work := { transpositions := [(1, 1)], moveFiles := [0] }

theorem b5_old_wf : BuildWF b5Old := ⟨by decide, by decide, parents_of_check (by decide)⟩
theorem b5_new_wf : BuildWF b5New := ⟨by decide, by decide, parents_of_check (by decide)⟩
theorem b5_work : WorkOK b5Old b5New b5Work :=
  WorkOK.of_check (by decide) (by decide) (by decide) (by decide) (by decide) (by decide) (by decide)
    (by decide) (by decide)
theorem b5_benign : BenignKindChanges b5Old b5New b5Work :=
  BenignKindChanges.of_check (by decide) (by decide) (by decide) (by decide)
theorem b5_clash : ¬ NoKindClash b5Old b5New :=
  not_noKindClash ["f"] .file .dir (by decide) (by decide) (by decide)
theorem b5_ok : ∃ t', commit b5Old b5New b5Work [["k"]] [["k"]] (treeOfBuild b5Old) = .ok t' ∧ Holds t' b5New :=
  commit_correct_kinds_partial _ _ _ _ _ b5_old_wf b5_new_wf b5_benign b5_work (by decide) (by decide)

/-! #### dir → symlink, nothing below the directory is a source; the symlink dangles (`b` is no path of either
    build); the ghost `d/x` went with the directory and is skipped -/
def b6Old : Build := { dirs := [["d"]], files := [(["d", "x"], [1]), (["k"], [3])] }
def b6New : Build := { symlinks := [(["d"], "b")], files := [(["k"], [3])] }
def b6Work : Work := { transpositions := [(0, 1)] }

theorem b6_old_wf : BuildWF b6Old := ⟨by decide, by decide, parents_of_check (by decide)⟩
theorem b6_new_wf : BuildWF b6New := ⟨by decide, by decide, parents_of_check (by decide)⟩
theorem b6_work : WorkOK b6Old b6New b6Work :=
  WorkOK.of_check (by decide) (by decide) (by decide) (by decide) (by decide) (by decide) (by decide)
    (by decide) (by decide)
theorem b6_benign : BenignKindChanges b6Old b6New b6Work :=
  BenignKindChanges.of_check (by decide) (by decide) (by decide) (by decide)
theorem b6_clash : ¬ NoKindClash b6Old b6New :=
  not_noKindClash ["d"] .dir .symlink (by decide) (by decide) (by decide)
theorem b6_ok : ∃ t', commit b6Old b6New b6Work [["k"]] [["k"]] (treeOfBuild b6Old) = .ok t' ∧ Holds t' b6New :=
  commit_correct_kinds_partial _ _ _ _ _ b6_old_wf b6_new_wf b6_benign b6_work (by decide) (by decide)

/-! #### dir → symlink with an absolute destination -/
def b6aNew : Build := { symlinks := [(["d"], "/b")], files := [(["k"], [3])] }

theorem b6a_new_wf : BuildWF b6aNew := ⟨by decide, by decide, parents_of_check (by decide)⟩
theorem b6a_work : WorkOK b6Old b6aNew b6Work :=
  WorkOK.of_check (by decide) (by decide) (by decide) (by decide) (by decide) (by decide) (by decide)
    (by decide) (by decide)
theorem b6a_benign : BenignKindChanges b6Old b6aNew b6Work :=
  BenignKindChanges.of_check (by decide) (by decide) (by decide) (by decide)
theorem b6a_ok : ∃ t', commit b6Old b6aNew b6Work [["k"]] [["k"]] (treeOfBuild b6Old) = .ok t' ∧
    Holds t' b6aNew :=
  commit_correct_kinds_partial _ _ _ _ _ b6_old_wf b6a_new_wf b6a_benign b6a_work (by decide) (by decide)

/-! #### dir → symlink to a regular FILE of the new build -/
def b6fOld : Build := { dirs := [["d"]], files := [(["d", "x"], [1]), (["b"], [3])] }
def b6fNew : Build := { symlinks := [(["d"], "b")], files := [(["b"], [3])] }
def b6fWork : Work := { transpositions := [(0, 1)] }

theorem b6f_old_wf : BuildWF b6fOld := ⟨by decide, by decide, parents_of_check (by decide)⟩
theorem b6f_new_wf : BuildWF b6fNew := ⟨by decide, by decide, parents_of_check (by decide)⟩
theorem b6f_work : WorkOK b6fOld b6fNew b6fWork :=
  WorkOK.of_check (by decide) (by decide) (by decide) (by decide) (by decide) (by decide) (by decide)
    (by decide) (by decide)
theorem b6f_benign : BenignKindChanges b6fOld b6fNew b6fWork :=
  BenignKindChanges.of_check (by decide) (by decide) (by decide) (by decide)
theorem b6f_ok : ∃ t', commit b6fOld b6fNew b6fWork [["b"]] [["b"]] (treeOfBuild b6fOld) = .ok t' ∧
    Holds t' b6fNew :=
  commit_correct_kinds_partial _ _ _ _ _ b6f_old_wf b6f_new_wf b6f_benign b6f_work (by decide) (by decide)

/-! #### EMPTY dir → symlink pointing INTO the build: no old path below -/
def b6eOld : Build := { dirs := [["d"], ["b"]], files := [(["b", "x"], [1])] }
def b6eNew : Build := { dirs := [["b"]], symlinks := [(["d"], "b")], files := [(["b", "x"], [1])] }
def b6eWork : Work := { transpositions := [(0, 0)] }

theorem b6e_old_wf : BuildWF b6eOld := ⟨by decide, by decide, parents_of_check (by decide)⟩
theorem b6e_new_wf : BuildWF b6eNew := ⟨by decide, by decide, parents_of_check (by decide)⟩
theorem b6e_work : WorkOK b6eOld b6eNew b6eWork :=
  WorkOK.of_check (by decide) (by decide) (by decide) (by decide) (by decide) (by decide) (by decide)
    (by decide) (by decide)
theorem b6e_benign : BenignKindChanges b6eOld b6eNew b6eWork :=
  BenignKindChanges.of_check (by decide) (by decide) (by decide) (by decide)
theorem b6e_ok : ∃ t', commit b6eOld b6eNew b6eWork [["b", "x"]] [["b", "x"]] (treeOfBuild b6eOld) = .ok t' ∧
    Holds t' b6eNew :=
  commit_correct_kinds_partial _ _ _ _ _ b6e_old_wf b6e_new_wf b6e_benign b6e_work (by decide) (by decide)

/-! #### everything at once

  `l`: symlink → dir; `m`: symlink → file; `e`: empty dir → file; `d`: dir (holding `d/x`) → absolute symlink;
  `f`: file → dir with a nested new directory; `h`: file → symlink; a swap `a ↔ b` (both outputs go through
  temporary names); an overlay `g/o`; staged files in the new directories.  Every pair of visiting orders. -/
def b7Old : Build :=
  { dirs := [["d"], ["e"], ["g"]],
    symlinks := [(["l"], "a"), (["m"], "a")],
    files := [(["a"], [1]), (["b"], [2]), (["d", "x"], [3]), (["f"], [4]), (["h"], [5]), (["g", "o"], [6])] }
def b7New : Build :=
  { dirs := [["l"], ["f"], ["f", "sub"], ["g"]],
    symlinks := [(["d"], "/nowhere"), (["h"], "a")],
    files := [(["a"], [2]), (["b"], [1]), (["m"], [7]), (["e"], [8]), (["l", "in"], [9]),
      (["f", "sub", "y"], [10]), (["g", "o"], [11])] }
def b7Work : Work := { transpositions := [(0, 1), (1, 0)], overlayFiles := [6], moveFiles := [2, 3, 4, 5] }

theorem b7_old_wf : BuildWF b7Old := ⟨by decide, by decide, parents_of_check (by decide)⟩
theorem b7_new_wf : BuildWF b7New := ⟨by decide, by decide, parents_of_check (by decide)⟩
theorem b7_work : WorkOK b7Old b7New b7Work :=
  WorkOK.of_check (by decide) (by decide) (by decide) (by decide) (by decide) (by decide) (by decide)
    (by decide) (by decide)
theorem b7_benign : BenignKindChanges b7Old b7New b7Work :=
  BenignKindChanges.of_check (by decide) (by decide) (by decide) (by decide)
theorem b7_sources : sourcesOf b7Old b7New b7Work = [["b"], ["a"]] := by decide
theorem b7_ok (order₁ order₂ : List Path) (ho₁ : order₁.Perm [["b"], ["a"]]) (ho₂ : order₂.Perm [["b"], ["a"]]) :
    ∃ t', commit b7Old b7New b7Work order₁ order₂ (treeOfBuild b7Old) = .ok t' ∧ Holds t' b7New :=
  commit_correct_kinds_partial _ _ _ _ _ b7_old_wf b7_new_wf b7_benign b7_work
    (by rw [b7_sources]; exact ho₁) (by rw [b7_sources]; exact ho₂)

/-! ### evaluating the model on literal instances

  Evaluation is by `decide` where the run stops before ghost deletion, by `decide +kernel` where `List.mergeSort`
  or `String.startsWith` has to be computed, and by hand where a path is resolved through a symlink
  (`String.splitOn` does not reduce). -/

/-- the commit failed with error `e` -/
def failsWith (r : Except Err Tree) (e : Err) : Bool :=
  match r with
  | .error e' => e' == e
  | .ok _ => false

theorem not_ok_of_failsWith {r : Except Err Tree} {e : Err} (h : failsWith r e = true) (new : Build) :
    ¬ ∃ t', r = .ok t' ∧ Holds t' new := by
  rintro ⟨t', rfl, _⟩
  simp [failsWith] at h

/-- the result is a tree with exactly these entries -/
def yields (r : Except Err Tree) (es : List (Path × Node)) : Bool :=
  match r with
  | .ok t => decide (t.entries = es)
  | .error _ => false

theorem eq_of_yields {r : Except Err Tree} {es : List (Path × Node)} (h : yields r es = true) :
    r = .ok { entries := es } := by
  cases r with
  | error e => simp [yields] at h
  | ok t =>
    simp only [yields, decide_eq_true_eq] at h
    cases t
    simp only at h
    rw [h]

/-- the hypotheses of the theorems other than the one about kinds -/
structure OtherHyps (old new : Build) (w : Work) (o₁ o₂ : List Path) : Prop where
  oldWF : BuildWF old
  newWF : BuildWF new
  work : WorkOK old new w
  perm₁ : o₁.Perm (sourcesOf old new w)
  perm₂ : o₂.Perm (sourcesOf old new w)

/-- an instance with all other hypotheses on which the commit does not yield the new build refutes the
    full-strength statement -/
theorem not_commitCorrect_of {old new : Build} {w : Work} {o₁ o₂ : List Path} (h : OtherHyps old new w o₁ o₂)
    (hbad : ¬ ∃ t', commit old new w o₁ o₂ (treeOfBuild old) = .ok t' ∧ Holds t' new) : ¬ CommitCorrect :=
  fun hc => hbad (hc old new w o₁ o₂ h.oldWF h.newWF h.work h.perm₁ h.perm₂)

/-- `Holds` on a literal instance: compare the two trees at the keys of either -/
theorem holds_of_check {t : Tree} {b : Build}
    (h : ∀ p ∈ t.entries.map (·.1) ++ (treeOfBuild b).entries.map (·.1), t.get p = (treeOfBuild b).get p) :
    Holds t b := by
  intro p
  by_cases hp : p ∈ t.entries.map (·.1) ++ (treeOfBuild b).entries.map (·.1)
  · exact h p hp
  · simp only [List.mem_append, List.mem_map, not_or, not_exists, not_and] at hp
    by_cases h0 : p = []
    · subst h0; simp [Tree.get]
    · rw [Archive.get_none_of_fresh h0 (fun e he => hp.1 e he), Archive.get_none_of_fresh h0 (fun e he => hp.2 e he)]

/-! ### the repaired shapes: three former counterexamples on which the commit is now right

  (5), (6), (7) were found while looking for the right predicate; each was a machine-checked instance on which
  the model's `commit` — and the code — went wrong although all other hypotheses hold.  They were two genuine
  defects of `overlayBowl` (findings F25 and F26), both repaired; the model follows the repaired code.  The
  instances are kept, with the opposite conclusion: the commit yields exactly the new build (`g5_ok`, `g6_ok`,
  `g7_ok`, by evaluation).  Each is OUTSIDE `NoKindClash` (`*_clash`) and, the clauses that excluded them being
  gone, INSIDE `BenignKindChanges` (`*_benign`). -/

/-! #### (5) dir → symlink whose destination is a directory of the build that holds an entry named like a ghost.
    Formerly a counterexample (finding F25): ghost deletion called `os.Lstat` and `os.Remove` on `a/f`; `a` is
    now a symlink to `b`, so the calls reached `b/f` — a file of the NEW build — and deleted it, Commit reporting
    success.  Since the repair a ghost below a path that is a file or a symlink of the new build is skipped:
    the commit yields exactly the new build. -/
def g5Old : Build := { dirs := [["a"], ["b"]], files := [(["a", "f"], [1]), (["b", "f"], [2])] }
def g5New : Build := { dirs := [["b"]], symlinks := [(["a"], "b")], files := [(["b", "f"], [2])] }
def g5Work : Work := { transpositions := [(0, 1)] }
def g5T4 : Tree := { entries := [(["b"], .dir), (["b", "f"], .file [2]), (["a"], .symlink "b")] }

theorem g5_hyps : OtherHyps g5Old g5New g5Work [["b", "f"]] [["b", "f"]] :=
  ⟨⟨by decide, by decide, parents_of_check (by decide)⟩, ⟨by decide, by decide, parents_of_check (by decide)⟩,
    WorkOK.of_check (by decide) (by decide) (by decide) (by decide) (by decide) (by decide) (by decide)
      (by decide) (by decide), by decide, by decide⟩
/-- the instance is inside `BenignKindChanges` now that nothing is asked of the symlink's destination -/
theorem g5_benign : BenignKindChanges g5Old g5New g5Work :=
  BenignKindChanges.of_check (by decide) (by decide) (by decide) (by decide)
theorem g5_clash : ¬ NoKindClash g5Old g5New :=
  not_noKindClash ["a"] .dir .symlink (by decide) (by decide) (by decide)

theorem g5_e1 : ensureAll g5New (treeOfBuild g5Old) = .ok g5T4 := eq_of_yields (by decide +kernel)
theorem g5_e2 : applyTranspositions g5Old g5New g5Work [["b", "f"]] [["b", "f"]] g5T4 = .ok g5T4 :=
  eq_of_yields (by decide +kernel)
theorem g5_e3 : applyMoves g5New g5Work g5T4 = .ok g5T4 := eq_of_yields (by decide +kernel)
theorem g5_e4 : applyOverlays g5New g5Work g5T4 = .ok g5T4 := eq_of_yields (by decide +kernel)
/-- the ghost `a/f` lies below the new symlink `a`: it is skipped, `b/f` stays -/
theorem g5_e5 : deleteGhosts g5Old g5New g5T4 = .ok g5T4 := eq_of_yields (by decide +kernel)

theorem g5_commit : commit g5Old g5New g5Work [["b", "f"]] [["b", "f"]] (treeOfBuild g5Old) = .ok g5T4 := by
  simp only [commit, bind, Except.bind, g5_e1, g5_e2, g5_e3, g5_e4, g5_e5]

/-- the commit yields exactly the new build: `b/f` is still there -/
theorem g5_ok : ∃ t', commit g5Old g5New g5Work [["b", "f"]] [["b", "f"]] (treeOfBuild g5Old) = .ok t' ∧
    Holds t' g5New :=
  ⟨g5T4, g5_commit, holds_of_check (by decide)⟩

/-- it also follows from the theorem, for the one pair of visiting orders there is -/
example : ∃ t', commit g5Old g5New g5Work [["b", "f"]] [["b", "f"]] (treeOfBuild g5Old) = .ok t' ∧ Holds t' g5New :=
  commit_correct_kinds_partial _ _ _ _ _ g5_hyps.oldWF g5_hyps.newWF g5_benign g5_hyps.work g5_hyps.perm₁
    g5_hyps.perm₂

/-! #### (6) symlink → file, the file written by a transposition COPY.  Formerly a counterexample (finding F26):
    `b` is patched through an overlay and its old content reappears at `s`, an old symlink to `b`; the
    transposition is a copy, `os.OpenFile(…, O_CREATE|O_TRUNC)` followed the symlink, the content landed in `b`
    and `s` stayed a symlink, Commit reporting success.  Since the repair `copy` removes a destination that is
    not a regular file first: the commit yields exactly the new build. -/
def g6Old : Build := { symlinks := [(["s"], "b")], files := [(["b"], [1])] }
def g6New : Build := { files := [(["b"], [9]), (["s"], [1])] }
def g6Work : Work := { transpositions := [(1, 0)], overlayFiles := [0] }
def g6T0 : Tree := { entries := [(["b"], .file [1]), (["s"], .symlink "b")] }
def g6T2 : Tree := { entries := [(["b"], .file [1]), (["s"], .file [1])] }
def g6T5 : Tree := { entries := [(["s"], .file [1]), (["b"], .file [9])] }

theorem g6_hyps : OtherHyps g6Old g6New g6Work [["b"]] [["b"]] :=
  ⟨⟨by decide, by decide, parents_of_check (by decide)⟩, ⟨by decide, by decide, parents_of_check (by decide)⟩,
    WorkOK.of_check (by decide) (by decide) (by decide) (by decide) (by decide) (by decide) (by decide)
      (by decide) (by decide), by decide, by decide⟩
/-- the instance is inside `BenignKindChanges` now that nothing is asked of the transposition outputs -/
theorem g6_benign : BenignKindChanges g6Old g6New g6Work :=
  BenignKindChanges.of_check (by decide) (by decide) (by decide) (by decide)
theorem g6_clash : ¬ NoKindClash g6Old g6New :=
  not_noKindClash ["s"] .symlink .file (by decide) (by decide) (by decide)

theorem g6_e1 : ensureAll g6New (treeOfBuild g6Old) = .ok g6T0 := eq_of_yields (by decide +kernel)
/-- the copy `b → s` removes the symlink `s` and creates the file -/
theorem g6_e2 : applyTranspositions g6Old g6New g6Work [["b"]] [["b"]] g6T0 = .ok g6T2 :=
  eq_of_yields (by decide +kernel)
theorem g6_e3 : applyMoves g6New g6Work g6T2 = .ok g6T2 := eq_of_yields (by decide +kernel)
theorem g6_e4 : applyOverlays g6New g6Work g6T2 = .ok g6T5 := eq_of_yields (by decide +kernel)
theorem g6_e5 : deleteGhosts g6Old g6New g6T5 = .ok g6T5 := eq_of_yields (by decide +kernel)

theorem g6_commit : commit g6Old g6New g6Work [["b"]] [["b"]] (treeOfBuild g6Old) = .ok g6T5 := by
  simp only [commit, bind, Except.bind, g6_e1, g6_e2, g6_e3, g6_e4, g6_e5]

/-- the commit yields exactly the new build: `s` is a regular file, `b` has its new content -/
theorem g6_ok : ∃ t', commit g6Old g6New g6Work [["b"]] [["b"]] (treeOfBuild g6Old) = .ok t' ∧ Holds t' g6New :=
  ⟨g6T5, g6_commit, holds_of_check (by decide)⟩

example : ∃ t', commit g6Old g6New g6Work [["b"]] [["b"]] (treeOfBuild g6Old) = .ok t' ∧ Holds t' g6New :=
  commit_correct_kinds_partial _ _ _ _ _ g6_hyps.oldWF g6_hyps.newWF g6_benign g6_hyps.work g6_hyps.perm₁
    g6_hyps.perm₂

/-! #### (7) empty dir → file, the file written by a transposition COPY.  Formerly a counterexample (finding
    F26): the content of `x` is duplicated onto `e`, an empty directory of the old build; the copy opened a
    directory for writing, EISDIR.  Since the repair `copy` removes the (empty) directory first: the commit
    yields exactly the new build. -/
def g7Old : Build := { dirs := [["e"]], files := [(["x"], [1])] }
def g7New : Build := { files := [(["x"], [1]), (["e"], [1])] }
def g7Work : Work := { transpositions := [(0, 0), (1, 0)] }
def g7T5 : Tree := { entries := [(["x"], .file [1]), (["e"], .file [1])] }

theorem g7_hyps : OtherHyps g7Old g7New g7Work [["x"]] [["x"]] :=
  ⟨⟨by decide, by decide, parents_of_check (by decide)⟩, ⟨by decide, by decide, parents_of_check (by decide)⟩,
    WorkOK.of_check (by decide) (by decide) (by decide) (by decide) (by decide) (by decide) (by decide)
      (by decide) (by decide), by decide, by decide⟩
/-- the instance is inside `BenignKindChanges` now that nothing is asked of the transposition outputs -/
theorem g7_benign : BenignKindChanges g7Old g7New g7Work :=
  BenignKindChanges.of_check (by decide) (by decide) (by decide) (by decide)
theorem g7_clash : ¬ NoKindClash g7Old g7New :=
  not_noKindClash ["e"] .dir .file (by decide) (by decide) (by decide)
theorem g7_commit : commit g7Old g7New g7Work [["x"]] [["x"]] (treeOfBuild g7Old) = .ok g7T5 :=
  eq_of_yields (by decide +kernel)

/-- the commit yields exactly the new build: `e` is a regular file with the content of `x` -/
theorem g7_ok : ∃ t', commit g7Old g7New g7Work [["x"]] [["x"]] (treeOfBuild g7Old) = .ok t' ∧ Holds t' g7New :=
  ⟨g7T5, g7_commit, holds_of_check (by decide)⟩

example : ∃ t', commit g7Old g7New g7Work [["x"]] [["x"]] (treeOfBuild g7Old) = .ok t' ∧ Holds t' g7New :=
  commit_correct_kinds_partial _ _ _ _ _ g7_hyps.oldWF g7_hyps.newWF g7_benign g7_hyps.work g7_hyps.perm₁
    g7_hyps.perm₂

/-! ### every clause is needed: instances that violate one clause, on which `commit` fails or goes wrong

  Each instance satisfies ALL other hypotheses of the theorem (`BuildWF` of both builds, `WorkOK`, the orders
  are permutations of the sources: `*_hyps`), violates `BenignKindChanges` (`*_not_benign`), and the model's
  `commit` returns an error or a tree that is not the new build (`*_fails`, `*_wrong`). -/

/-! #### F8 (1) dir → file, a NEW file on a NON-EMPTY old directory (violates `emptyDir`): ENOTEMPTY -/
def f1Work : Work := { moveFiles := [0] }

theorem f8_1_hyps : OtherHyps exF8Old exF8New f1Work [] [] :=
  ⟨⟨by decide, by decide, parents_of_check (by decide)⟩, ⟨by decide, by decide, parents_of_check (by decide)⟩,
    WorkOK.of_check (by decide) (by decide) (by decide) (by decide) (by decide) (by decide) (by decide)
      (by decide) (by decide), by decide, by decide⟩
theorem f8_1_not_benign : ¬ BenignKindChanges exF8Old exF8New f1Work :=
  fun h => absurd (h.emptyDir ["a"] (by decide) (by decide) ["a", "f"] (by decide)) (by decide)
theorem f8_1_fails : failsWith (commit exF8Old exF8New f1Work [] [] (treeOfBuild exF8Old)) .enotempty = true := by
  decide

/-! #### F8 (2) dir → file, an old file RENAMED onto a non-empty old directory (violates `emptyDir`):
    ENOTEMPTY -/
def f2Old : Build := { dirs := [["d"]], files := [(["d", "x"], [1]), (["y"], [2])] }
def f2New : Build := { files := [(["d"], [2])] }
def f2Work : Work := { transpositions := [(0, 1)] }

theorem f8_2_hyps : OtherHyps f2Old f2New f2Work [["y"]] [["y"]] :=
  ⟨⟨by decide, by decide, parents_of_check (by decide)⟩, ⟨by decide, by decide, parents_of_check (by decide)⟩,
    WorkOK.of_check (by decide) (by decide) (by decide) (by decide) (by decide) (by decide) (by decide)
      (by decide) (by decide), by decide, by decide⟩
theorem f8_2_not_benign : ¬ BenignKindChanges f2Old f2New f2Work :=
  fun h => absurd (h.emptyDir ["d"] (by decide) (by decide) ["d", "x"] (by decide)) (by decide)
theorem f8_2_fails :
    failsWith (commit f2Old f2New f2Work [["y"]] [["y"]] (treeOfBuild f2Old)) .enotempty = true := by
  decide

/-! #### F8 (3) file → dir, the directory holding the old file renamed (violates `sources`): the file is
    cleared by `ensureDirsAndSymlinks`, the transposition finds a directory, EISDIR -/
def f3Old : Build := { files := [(["f"], [1]), (["k"], [3])] }
def f3New : Build := { dirs := [["f"]], files := [(["f", "inner"], [1]), (["k"], [3])] }
def f3Work : Work := { transpositions := [(0, 0), (1, 1)] }

theorem f8_3_hyps : OtherHyps f3Old f3New f3Work [["f"], ["k"]] [["f"], ["k"]] :=
  ⟨⟨by decide, by decide, parents_of_check (by decide)⟩, ⟨by decide, by decide, parents_of_check (by decide)⟩,
    WorkOK.of_check (by decide) (by decide) (by decide) (by decide) (by decide) (by decide) (by decide)
      (by decide) (by decide), by decide, by decide⟩
theorem f8_3_not_benign : ¬ BenignKindChanges f3Old f3New f3Work :=
  fun h => (h.sources ["f"] (by decide)).1 (by decide)
theorem f8_3_fails :
    failsWith (commit f3Old f3New f3Work [["f"], ["k"]] [["f"], ["k"]] (treeOfBuild f3Old)) .eisdir = true := by
  decide

/-! #### F8 (4) dir → symlink, a file of the directory renamed out (violates `dirToSymlink`): the
    directory is cleared before the transposition reads the file; the source path now goes through the
    dangling symlink, ENOENT -/
def f4Old : Build := { dirs := [["d"]], files := [(["d", "x"], [1]), (["k"], [3])] }
def f4New : Build := { dirs := [["o"]], symlinks := [(["d"], "b")], files := [(["o", "x"], [1]), (["k"], [3])] }
def f4Work : Work := { transpositions := [(0, 0), (1, 1)] }
def f4T1 : Tree := { entries := [(["k"], .file [3]), (["o"], .dir), (["d"], .symlink "b")] }

theorem f8_4_hyps : OtherHyps f4Old f4New f4Work [["d", "x"], ["k"]] [["d", "x"], ["k"]] :=
  ⟨⟨by decide, by decide, parents_of_check (by decide)⟩, ⟨by decide, by decide, parents_of_check (by decide)⟩,
    WorkOK.of_check (by decide) (by decide) (by decide) (by decide) (by decide) (by decide) (by decide)
      (by decide) (by decide), by decide, by decide⟩
theorem f8_4_not_benign : ¬ BenignKindChanges f4Old f4New f4Work :=
  fun h => absurd (h.dirToSymlink (["d"], "b") (by decide) (by decide) ["d", "x"] (by decide)) (by decide)

theorem f8_4_e1 : ensureAll f4New (treeOfBuild f4Old) = .ok f4T1 := eq_of_yields (by decide +kernel)

theorem f8_4_canon : canon f4T1 ["d", "x"] = .error .enoent := by
  show resolve f4T1 (39 + 1) [] ("d" :: "x" :: []) = _
  rw [Commit.resolve_symlink_step _ _ _ _ _ _ "b" (by decide) (by rfl) Commit.startsWith_b, Commit.splitDest_b]
  rfl

theorem f8_4_move : moveFile f4T1 ["d", "x"] ["o", "x"] = .error .enoent := by
  have hrm : remove f4T1 ["o", "x"] = .error .enoent := rfl
  have hmk : mkdirs f4T1 (["o", "x"] : Path).dropLast = .ok f4T1 := rfl
  have hrn : rename f4T1 ["d", "x"] ["o", "x"] = .error .enoent := by
    simp only [rename, f8_4_canon, bind, Except.bind]
  have hrd : readFile f4T1 ["d", "x"] = .error .enoent := by
    simp only [readFile, statFollow, f8_4_canon, bind, Except.bind]
  simp only [moveFile, hrm, hmk, hrn, copyFile, hrd, bind, Except.bind]
  rfl

theorem f8_4_e2 :
    applyTranspositions f4Old f4New f4Work [["d", "x"], ["k"]] [["d", "x"], ["k"]] f4T1 = .error .enoent := by
  rw [Commit.applyTranspositions_eq]
  show (do
    let t ← List.foldlM
      (fun t (x : Path × List Transpo) => applyGroup t ((Commit.ovPaths f4New f4Work).contains x.1) x.1 x.2)
      f4T1 [(["d", "x"], [⟨["d", "x"], ["o", "x"]⟩]), (["k"], [⟨["k"], ["k"]⟩])]
    List.foldlM (fun t (c : Transpo) => moveFile t c.targetPath c.outputPath) t []) = _
  have hg : applyGroup f4T1 ((Commit.ovPaths f4New f4Work).contains ["d", "x"]) ["d", "x"]
      [⟨["d", "x"], ["o", "x"]⟩] = moveFile f4T1 ["d", "x"] ["o", "x"] := by rfl
  simp only [List.foldlM_cons, hg, f8_4_move, bind, Except.bind]

theorem f8_4_fails :
    failsWith (commit f4Old f4New f4Work [["d", "x"], ["k"]] [["d", "x"], ["k"]] (treeOfBuild f4Old)) .enoent =
      true := by
  simp only [commit, bind, Except.bind, f8_4_e1, f8_4_e2]
  rfl

/-! #### (8) file → symlink, the old file renamed ELSEWHERE (violates `sources`): the old file is replaced by
    the new symlink before the transposition runs, and the transposition then renames THE SYMLINK.  Commit
    reports success; `c` is a symlink instead of the file, and `a` is gone. -/
def g8Old : Build := { files := [(["a"], [1])] }
def g8New : Build := { symlinks := [(["a"], "b")], files := [(["c"], [1])] }
def g8Work : Work := { transpositions := [(0, 0)] }

theorem g8_hyps : OtherHyps g8Old g8New g8Work [["a"]] [["a"]] :=
  ⟨⟨by decide, by decide, parents_of_check (by decide)⟩, ⟨by decide, by decide, parents_of_check (by decide)⟩,
    WorkOK.of_check (by decide) (by decide) (by decide) (by decide) (by decide) (by decide) (by decide)
      (by decide) (by decide), by decide, by decide⟩
theorem g8_not_benign : ¬ BenignKindChanges g8Old g8New g8Work :=
  fun h => (h.sources ["a"] (by decide)).2 (by decide)
theorem g8_wrong :
    yields (commit g8Old g8New g8Work [["a"]] [["a"]] (treeOfBuild g8Old)) [(["c"], .symlink "b")] = true := by
  decide +kernel

/-! #### (9) file → dir, the new directories listed child first (violates `dirOrder`): `mkdir -p a/x` meets the
    old file `a`, ENOTDIR.  (Model only: `tlc.Walk` lists a directory before its children.) -/
def g9Old : Build := { files := [(["a"], [1])] }
def g9New : Build := { dirs := [["a", "x"], ["a"]] }

theorem g9_hyps : OtherHyps g9Old g9New {} [] [] :=
  ⟨⟨by decide, by decide, parents_of_check (by decide)⟩, ⟨by decide, by decide, parents_of_check (by decide)⟩,
    WorkOK.of_check (by decide) (by decide) (by decide) (by decide) (by decide) (by decide) (by decide)
      (by decide) (by decide), by decide, by decide⟩
theorem g9_not_benign : ¬ BenignKindChanges g9Old g9New {} :=
  fun h => absurd h.dirOrder (by decide)
theorem g9_fails : failsWith (commit g9Old g9New {} [] [] (treeOfBuild g9Old)) .enotdir = true := by
  decide
/-- parents first, the same pair of builds is fine -/
def g9New' : Build := { dirs := [["a"], ["a", "x"]] }
theorem g9_reordered_ok : ∃ t', commit g9Old g9New' {} [] [] (treeOfBuild g9Old) = .ok t' ∧ Holds t' g9New' :=
  commit_correct_kinds_partial _ _ _ _ _ ⟨by decide, by decide, parents_of_check (by decide)⟩
    ⟨by decide, by decide, parents_of_check (by decide)⟩
    (BenignKindChanges.of_check (by decide) (by decide) (by decide) (by decide))
    (WorkOK.of_check (by decide) (by decide) (by decide) (by decide) (by decide) (by decide) (by decide)
      (by decide) (by decide)) (by decide) (by decide)

/-! ### the full-strength statement is false (F8), and so is it for each of the instances above

  (`commitCorrect_false_5`, `_6`, `_7` are gone with the defects they relied on: on (5), (6), (7) the commit is
  right now.) -/

theorem commitCorrect_false : ¬ CommitCorrect :=
  not_commitCorrect_of f8_1_hyps (not_ok_of_failsWith f8_1_fails _)

theorem commitCorrect_false_2 : ¬ CommitCorrect := not_commitCorrect_of f8_2_hyps (not_ok_of_failsWith f8_2_fails _)
theorem commitCorrect_false_3 : ¬ CommitCorrect := not_commitCorrect_of f8_3_hyps (not_ok_of_failsWith f8_3_fails _)
theorem commitCorrect_false_4 : ¬ CommitCorrect := not_commitCorrect_of f8_4_hyps (not_ok_of_failsWith f8_4_fails _)
theorem commitCorrect_false_8 : ¬ CommitCorrect := by
  apply not_commitCorrect_of g8_hyps
  rintro ⟨t', ht', hh⟩
  rw [eq_of_yields g8_wrong] at ht'
  cases ht'
  have := hh ["c"]
  revert this
  decide
theorem commitCorrect_false_9 : ¬ CommitCorrect := not_commitCorrect_of g9_hyps (not_ok_of_failsWith g9_fails _)

/-! ### what remains

  `BenignKindChanges` is sufficient, and each clause is necessary in the sense that dropping it admits one of the
  instances above; one clause still excludes MORE than the model's `commit` gets wrong:

  * `emptyDir` — a non-empty old directory that becomes a file is fine when everything below it has been MOVED out
    by the transpositions before the file arrives; whether that is the case depends on the visiting order, and
    the instances F8 (1), F8 (2) show the failure.

  `sources`, `dirToSymlink` and `dirOrder` are exact up to accidents (a cleared source is lost; a directory listed
  before the file or symlink above it is created in the wrong place or not at all).

  Gone with the repairs of F25 and F26 (they used to be listed here as excluding too much):
  * `outputs` — a transposition output may now land on an old symlink or on an empty old directory whether it is
    written by `move` or by `copy`: both remove such a destination first.  In the helper lemmas the transposition
    phase is no longer described by `SameNF` ("only regular files change") but by `Commit.SameX` (at a new file
    path a symlink or an empty directory may give way to a regular file; nothing appears below such a path), and
    the destinations are `Commit.XSlot`s.
  * `dirToSymlink`, second part (`DeadEnd`) — ghosts below a path that has become a symlink are skipped, not
    looked up through the symlink.

  Difference between model and code noticed on the way: `Commit.copyFile` reads the whole source before it opens
  the destination; `overlayBowl.copy` opens the destination with `O_TRUNC` while the source is open.  They differ
  when the destination resolves to the source itself.  That used to be instance (6) (`s` is a symlink to `b`, `b`
  is copied onto `s`); since the repair of F26 the symlink is removed before the destination is opened, and the
  two agree on it. -/

-- #print axioms commit_correct_kinds_partial      -- [propext, Classical.choice, Quot.sound]
-- #print axioms commit_kinds_order_independent    -- [propext, Classical.choice, Quot.sound]
-- #print axioms NoKindClash.benign                -- [propext, Quot.sound]
-- #print axioms commit_correct_partial_of_kinds   -- [propext, Classical.choice, Quot.sound]
-- #print axioms BenignKindChanges.outputs         -- [propext, Quot.sound]
-- #print axioms b1_ok                             -- (b1 … b7: the same three)
-- #print axioms f8_4_fails                        -- [propext, Classical.choice, Quot.sound]
-- #print axioms g5_ok                             -- [propext, Classical.choice, Quot.sound]
-- #print axioms g6_ok                             -- [propext, Classical.choice, Quot.sound]
-- #print axioms g7_ok                             -- [propext, Classical.choice, Quot.sound]
-- #print axioms commitCorrect_false               -- [propext, Classical.choice, Quot.sound]

end Wharf.C02
