/-
  C07 — Optimizing a patch never changes what it produces.
  Property theorems only (helper lemmas live in Wharf/Proofs/Rediff.lean).
-/
import Wharf.Model.Rediff
import Wharf.Props.C12
import Wharf.Props.C01
import Wharf.Proofs.Rediff

namespace Wharf.C07
open Wharf Wharf.Patch

/-- A plain (rsync-only) patch: `n` series, each a header of kind rsync, ops that are not end markers,
    then an end marker. This is what the differ writes and what the optimizer is specified for. -/
def PlainPatch : Nat → List WMsg → Prop
  | 0, _ => True
  | n + 1, msgs =>
    ∃ hm ops em rest, msgs = hm :: (ops ++ em :: rest) ∧ (asSyncHeader hm).type = kindRsync ∧
      (∀ m ∈ ops, (asSyncOp m).type ≠ heyYouDidIt) ∧ (asSyncOp em).type = heyYouDidIt ∧ PlainPatch n rest

/-- The substituted bsdiff series for new file `i` against old file `t` does its job: applied through the
    applier it writes exactly the bytes `w` that the original series of file `i` produced, of the right size.
    (For the real differ this is C12's round trip: see `bridge`.) -/
def SeriesOK (E : Env) (r : Res) (t i : Nat) (cs : List Bsdiff.Ctrl) : Prop :=
  t < E.pool.nfiles ∧ ∃ flen w, E.pool.flen t = .ok flen ∧ (i, w) ∈ r.out ∧ w.length = E.newSizes.getD i 0 ∧
    ∀ rest, bsdiffLoop E t flen (cs.map Rediff.ctrlMsg ++ rest) 0 [] = .ok (rest, w)

/-- `PlainPatch` is the `PlainP` of the helper file. -/
theorem plain_iff (n : Nat) (msgs : List WMsg) : PlainPatch n msgs ↔ RediffP.PlainP n msgs := by
  induction n generalizing msgs with
  | zero => exact Iff.rfl
  | succ n ih =>
    simp only [PlainPatch, RediffP.PlainP]
    constructor
    · rintro ⟨hm, ops, em, rest, h1, h2, h3, h4, h5⟩
      exact ⟨hm, ops, em, rest, h1, h2, h3, h4, (ih rest).1 h5⟩
    · rintro ⟨hm, ops, em, rest, h1, h2, h3, h4, h5⟩
      exact ⟨hm, ops, em, rest, h1, h2, h3, h4, (ih rest).2 h5⟩

/-- `SeriesOK` is the `SeriesP` of the helper file. -/
theorem series_iff (E : Env) (r : Res) (t i : Nat) (cs : List Bsdiff.Ctrl) :
    SeriesOK E r t i cs ↔ RediffP.SeriesP E r t i cs := Iff.rfl

/-- C07: whatever mapping the analysis chose (any old file for any new file, any subset of files), if the
    original patch applies then the optimized patch applies with exactly the same files produced. -/
theorem optimize_apply_equal (E : Env) (hnw : E.whitelist = none) (msgs : List WMsg) (r : Res)
    (maps : List (Option (Nat × Int))) (differ : Nat → Nat → Outcome (List Bsdiff.Ctrl)) (out : List WMsg)
    (hplain : PlainPatch E.newSizes.size msgs)
    (hlen : maps.length = E.newSizes.size)
    (hfull : patch E msgs = .ok r)
    (hdiff : ∀ i t n cs, maps[i]? = some (some (t, n)) → differ t i = .ok cs → SeriesOK E r t i cs)
    (hopt : Rediff.optimize differ maps 0 msgs = .ok out) :
    ∃ r', patch E out = .ok r' ∧ r'.out = r.out ∧ r'.touched = r.touched := by
  unfold patch at hfull ⊢
  refine RediffP.optimize_patchFrom E hnw differ r E.newSizes.size 0 maps msgs out {} {}
    ((plain_iff _ _).1 hplain) hlen hfull (fun p hp => by cases hp) rfl rfl ?_ hopt
  intro j t k cs hj hd
  rw [Nat.zero_add] at hd ⊢
  exact (series_iff E r t j cs).1 (hdiff j t k cs hj hd)

/-- Bridge to C12: a control series that the bsdiff model applies successfully to the old bytes (ending with
    eof) is applied identically by the patcher model over a plain pool. -/
theorem bridge (E : Env) (olds : Array (List Byte)) (hpool : E.pool = plainPool olds) (t : Nat) (ht : t < olds.size)
    (cs : List Bsdiff.Ctrl) (st : Bsdiff.PState)
    (happ : Bsdiff.applySeries (olds.getD t []).toArray cs ⟨0, []⟩ = .ok (st, []))
    (rest : List WMsg) :
    bsdiffLoop E t (olds.getD t []).length (cs.map Rediff.ctrlMsg ++ rest) 0 [] = .ok (rest, st.out) := by
  have _ := ht  -- not needed: an out-of-range `t` reads as the empty file on both sides
  exact RediffP.bsdiffLoop_bridge E olds hpool t rest cs ⟨0, []⟩ st [] happ

/-- `bridge` delivers exactly the shape `SeriesOK` asks for: over a plain pool, a control series that the bsdiff
    model applies to old file `t` (ending with eof) into the bytes the original series of file `i` produced. -/
theorem seriesOK_of_applySeries (E : Env) (olds : Array (List Byte)) (hpool : E.pool = plainPool olds) (r : Res)
    (t i : Nat) (ht : t < olds.size) (cs : List Bsdiff.Ctrl) (st : Bsdiff.PState)
    (happ : Bsdiff.applySeries (olds.getD t []).toArray cs ⟨0, []⟩ = .ok (st, []))
    (hmem : (i, st.out) ∈ r.out) (hsize : st.out.length = E.newSizes.getD i 0) :
    SeriesOK E r t i cs := by
  refine ⟨by rw [hpool]; exact ht, (olds.getD t []).length, st.out, by rw [hpool]; rfl, hmem, hsize, ?_⟩
  intro rest
  exact bridge E olds hpool t ht cs st happ rest

/-- What the differ writes is a plain patch. -/
theorem writePatch_plain (P : Rsync.Params) (olds news : List (String × Content)) :
    PlainPatch news.length (writePatch P olds news) := by
  rw [plain_iff, writePatch_eq]
  exact RediffP.diffAll_plain P olds news 0

end Wharf.C07
