/-
  C12 (read cache) — the result of reading the old file does not depend on the chunked LRU cache.
  Property theorems only (helper lemmas live in Wharf/Proofs/Lru.lean).
-/
import Wharf.Model.Lru
import Wharf.Proofs.Lru

namespace Wharf.C12Lru
open Wharf Wharf.Lru

/-- C12 (b): for every chunk size ≥ 1, every capacity ≥ 1 and every sequence of seeks and reads, the
    cached file never fails or panics and returns exactly what a plain reader over the same bytes returns. -/
theorem lru_refines (chunkSize cap : Nat) (hc : 1 ≤ chunkSize) (hcap : 1 ≤ cap) (file : List Byte)
    (ops : List Op) :
    ∃ lf', run (new chunkSize cap file) ops = .ok (lf', runPlain file 0 ops) := by
  obtain ⟨lf', h, _⟩ := run_spec hc hcap ops (new chunkSize cap file) 0
    (Inv.new chunkSize cap file) rfl (Nat.zero_le _)
  exact ⟨lf', h⟩

/-- The cache never holds more entries than its capacity, nor two entries for one chunk. -/
theorem cache_bounded (chunkSize cap : Nat) (hc : 1 ≤ chunkSize) (hcap : 1 ≤ cap) (file : List Byte)
    (ops : List Op) (lf' : LruFile) (outs : List (Option (List Byte)))
    (h : run (new chunkSize cap file) ops = .ok (lf', outs)) :
    lf'.cache.length ≤ cap ∧ (lf'.cache.map (·.1)).Nodup := by
  obtain ⟨lf'', h', hinv⟩ := run_spec hc hcap ops (new chunkSize cap file) 0
    (Inv.new chunkSize cap file) rfl (Nat.zero_le _)
  rw [h] at h'
  simp only [Outcome.ok.injEq, Prod.mk.injEq] at h'
  obtain ⟨rfl, _⟩ := h'
  exact ⟨hinv.core.cache_len, hinv.core.nodup⟩

/-- Non-vacuity: capacity 1, chunk size 2 — every read evicts. -/
example : (match run (new 2 1 [1, 2, 3, 4, 5]) [.read 3, .seek 1, .read 10, .seek 9, .read 1] with
    | .ok (_, outs) => outs
    | _ => []) = [some [1, 2, 3], some [], some [2, 3, 4, 5], none, some [1]] := by
  decide

end Wharf.C12Lru
