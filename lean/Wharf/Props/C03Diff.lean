/-
  C03 for the patches the property quantifies over: the size hypothesis of `C03.resume_e2e` holds for every
  patch the differ writes (C01), so resumption from any checkpoint and any crash state is exact for them.
  Property theorems only.
-/
import Wharf.Props.C01
import Wharf.Props.C03E2E
import Wharf.Props.C07

namespace Wharf.C03
open Wharf Wharf.Patch Wharf.PatchResume

/-- the outputs of the patch written by the differ have the sizes the new container declares -/
theorem sizesOK_writePatch (P : Rsync.Params) (olds news : List (String × Content)) (r : Res)
    (hout : r.out = (List.range news.length).zip (news.map (·.2.toList))) :
    SizesOK (C01.envOf P.bs olds news none) r.out := by
  intro p hp
  rw [hout] at hp
  obtain ⟨i, w⟩ := p
  have hmem := List.of_mem_zip hp
  have hi : i < news.length := by simpa using hmem.1
  -- position of the pair in the zip
  obtain ⟨k, hk, hget⟩ := List.getElem_of_mem hp
  have hk' : k < news.length := by
    simpa [List.length_zip] using hk
  rw [List.getElem_zip] at hget
  simp only [List.getElem_range, List.getElem_map, Prod.mk.injEq] at hget
  obtain ⟨rfl, rfl⟩ := hget
  simp [C01.envOf, Array.getD_eq_getD_getElem?, hk', Wharf.Patch.toList_length]

/-- C03, end to end, for every patch produced by diffing (old, new): from EVERY point at which the patcher can
    offer a checkpoint and EVERY crash state of the disk (`CrashOK`), a brand-new run resumed from the checkpoint
    produces exactly the new build's files. -/
theorem resume_e2e_writePatch (P : Rsync.Params) (hbs : 0 < P.bs) (hmx : 0 < P.maxDataOp)
    (olds news : List (String × Content)) (ck : Ckpt) (disk : Nat → List Byte)
    (hck : ck ∈ checkpoints (C01.envOf P.bs olds news none) (writePatch P olds news))
    (hcrash : CrashOK (C01.envOf P.bs olds news none) (writePatch P olds news) ck disk) :
    resumeFrom (C01.envOf P.bs olds news none) (writePatch P olds news) ck disk
      = .ok ((List.range news.length).zip (news.map (·.2.toList))) := by
  obtain ⟨r, hp, hout, _⟩ := C01.fresh_roundtrip P hbs hmx olds news
  have h := resume_e2e _ _ r ck disk hp rfl (sizesOK_writePatch P olds news r hout) hck hcrash
  rw [hout] at h
  exact h

/-- C03 for OPTIMIZED patches: whatever mapping the optimizer chose and whatever differ it used (as long as its
    series do their job: `C07.SeriesOK`, discharged for the bsdiff model by `C07.bridge`/`C12.roundtrip`), resuming
    the application of the optimized patch from any of its checkpoints and any crash state gives exactly the
    files of the original patch. -/
theorem resume_e2e_optimized (E : Env) (hnw : E.whitelist = none) (msgs : List WMsg) (r : Res)
    (maps : List (Option (Nat × Int))) (differ : Nat → Nat → Outcome (List Bsdiff.Ctrl)) (out : List WMsg)
    (hplain : C07.PlainPatch E.newSizes.size msgs) (hlen : maps.length = E.newSizes.size)
    (hfull : patch E msgs = .ok r) (hsz : SizesOK E r.out)
    (hdiff : ∀ i t n cs, maps[i]? = some (some (t, n)) → differ t i = .ok cs → C07.SeriesOK E r t i cs)
    (hopt : Rediff.optimize differ maps 0 msgs = .ok out)
    (ck : Ckpt) (disk : Nat → List Byte)
    (hck : ck ∈ checkpoints E out) (hcrash : CrashOK E out ck disk) :
    resumeFrom E out ck disk = .ok r.out := by
  obtain ⟨r', hp', hout', _⟩ := C07.optimize_apply_equal E hnw msgs r maps differ out hplain hlen hfull hdiff hopt
  have h := resume_e2e E out r' ck disk hp' hnw (by rw [hout']; exact hsz) hck hcrash
  rw [hout'] at h
  exact h

end Wharf.C03
