/-
  C05 — Validation reports every deviation from the signed build and locates it (per-file pass).
  Property theorems only (helper lemmas live in Wharf/Proofs/Validate.lean).
-/
import Wharf.Model.Validate
import Wharf.Proofs.Validate

namespace Wharf.C05
open Wharf Wharf.Validate

/-- Aggregation never loses coverage: every offset inside an incoming file wound is inside an outgoing one. -/
theorem aggregate_covers (maxSize : Nat) (ws : List Wound)
    (hwf : ∀ w ∈ ws, w.start ≤ w.stop) (w : Wound) (hw : w ∈ ws) (hk : w.kind = .file)
    (i : Nat) (h1 : w.start ≤ i) (h2 : i < w.stop) :
    ∃ w' ∈ aggregate maxSize ws, w'.kind = .file ∧ w'.start ≤ i ∧ i < w'.stop := by
  exact aggregate_cov maxSize ws hwf i ⟨w, hw, hk, h1, h2⟩

/-- Aggregation passes non-file markers through and only ever emits file wounds made from file wounds. -/
theorem aggregate_file_iff (maxSize : Nat) (ws : List Wound) :
    (∃ w ∈ aggregate maxSize ws, w.kind = .file) ↔ (∃ w ∈ ws, w.kind = .file) := by
  exact aggregate_hasFile maxSize ws

/-- C05 (a): anything other than exactly the signed file content at the path yields a wound. -/
theorem file_detects (bs : Nat) (hbs : 0 < bs) (maxSize : Nat) (S : List Byte) (fi : Nat) (disk : OnDisk)
    (h : ∀ D, disk = .file D → D ≠ S) :
    ∃ w ∈ fileWounds bs maxSize S fi disk, w.kind = .file := by
  cases disk with
  | missing => exact ⟨⟨.file, fi, 0, S.length⟩, by simp [fileWounds], rfl⟩
  | dir => exact ⟨⟨.file, fi, 0, S.length⟩, by simp [fileWounds], rfl⟩
  | symlink => exact ⟨⟨.file, fi, 0, S.length⟩, by simp [fileWounds], rfl⟩
  | file D => exact fileWounds_detects hbs maxSize D (h D rfl)

/-- C05 (b): every offset below the signed length at which the file on disk differs from the signed
    file (a different byte, or no byte at all) lies inside a reported wound for that file. -/
theorem file_coverage (bs : Nat) (hbs : 0 < bs) (maxSize : Nat) (S D : List Byte) (fi i : Nat)
    (hi : i < S.length) (hd : D[i]? ≠ S[i]?) :
    ∃ w ∈ fileWounds bs maxSize S fi (.file D), w.kind = .file ∧ w.index = fi ∧ w.start ≤ i ∧ i < w.stop := by
  exact fileWounds_cover hbs maxSize D i hi hd

/-- C05 (c): a file shorter or longer than signed gets at least one wound. -/
theorem file_length (bs : Nat) (hbs : 0 < bs) (maxSize : Nat) (S D : List Byte) (fi : Nat)
    (h : D.length ≠ S.length) :
    ∃ w ∈ fileWounds bs maxSize S fi (.file D), w.kind = .file := by
  exact fileWounds_length hbs maxSize D h

/-- C05 (d): every reported wound names the file and has a well-formed range. -/
theorem file_wellformed (bs : Nat) (hbs : 0 < bs) (maxSize : Nat) (S : List Byte) (fi : Nat) (disk : OnDisk) :
    ∀ w ∈ fileWounds bs maxSize S fi disk, w.start ≤ w.stop ∧ w.index = fi := by
  cases disk with
  | missing => intro w hw; simp [fileWounds] at hw; subst hw; simp
  | dir => intro w hw; simp [fileWounds] at hw; subst hw; simp
  | symlink => intro w hw; simp [fileWounds] at hw; subst hw; simp
  | file D =>
    intro w hw
    rw [fileWounds_file hbs] at hw
    rcases List.mem_append.mp hw with hw | hw
    · exact aggregate_all maxSize _ (mergeStable_wf fi) _
        (markers_wf (bs := bs) (S := S) (fi := fi) (chunks bs D.length D) 0) w hw
    · by_cases hne : D.length ≠ S.length
      · simp [hne] at hw
        subst hw
        refine ⟨?_, rfl⟩
        simp only; omega
      · simp [hne] at hw

/-- C04/C05: the signed content itself produces no wound (only healthy markers). -/
theorem valid_no_wound (bs : Nat) (hbs : 0 < bs) (maxSize : Nat) (S : List Byte) (fi : Nat) :
    realWounds (fileWounds bs maxSize S fi (.file S)) = [] := by
  rw [fileWounds_file hbs]
  have hall : ∀ w ∈ markers bs S fi 0 (chunks bs S.length S), w.kind = .closedFile :=
    markers_all_ok _ 0 (by rw [goodPrefix_self hbs])
  have hnf : ∀ w ∈ markers bs S fi 0 (chunks bs S.length S), w.kind ≠ .file := by
    intro w hw h
    rw [hall w hw] at h
    cases h
  rw [aggregate_nonfile maxSize _ hnf]
  simp only [ne_eq, not_true_eq_false, if_false, List.append_nil, realWounds]
  apply List.filter_eq_nil_iff.mpr
  intro w hw
  simp [Wound.healthy, hall w hw]

/-- Non-vacuity: a flipped byte in the second block is located. -/
example : fileWounds 2 100 [1, 2, 3, 4, 5] 7 (.file [1, 2, 9, 4, 5])
    = [⟨.closedFile, 7, 0, 2⟩, ⟨.file, 7, 2, 4⟩, ⟨.closedFile, 7, 4, 5⟩] := by
  decide

end Wharf.C05
