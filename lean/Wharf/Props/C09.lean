/-
  C09 — Applying through the safekeeper never yields a silently wrong result.
  Property theorems only (helper lemmas live in Wharf/Proofs/SafeKeeper.lean).
-/
import Wharf.Model.SafeKeeper
import Wharf.Proofs.SafeKeeper

namespace Wharf.C09
open Wharf Wharf.Patch Wharf.SafeKeeper

/-- application with the old build read through the safekeeper: `signed` is what the signature describes,
    `disk` what is really there (`none`: the file is missing) -/
def skEnv (bs : Nat) (signed : Array (List Byte)) (disk : Array (Option (List Byte))) (newSizes : Array Nat) : Env :=
  { bs := bs, oldSizes := signed.map (·.length), newSizes := newSizes,
    pool := skPool bs signed disk, whitelist := none }

/-- application on the pristine old build with a plain pool -/
def plainEnv (bs : Nat) (signed : Array (List Byte)) (newSizes : Array Nat) : Env :=
  { bs := bs, oldSizes := signed.map (·.length), newSizes := newSizes,
    pool := plainPool signed, whitelist := none }

/-- A block verdict is exactly "this block of the disk file is this block of the signed file, and nothing
    is on disk past the signed end". -/
theorem blockValid_iff (bs : Nat) (hbs : 0 < bs) (signed disk : List Byte) (k : Nat) :
    blockValid bs signed disk k = true ↔
      (disk.drop (k * bs)).take bs = (signed.drop (k * bs)).take bs :=
  SafeKeeperProofs.blockValid_iff bs hbs signed disk k

/-- C09 (b): an undamaged old build is never rejected — through the safekeeper every message list gives
    exactly the result it gives with a plain pool (whatever the patch does: block ranges, whole-file copies
    of files of any size incl. exact block multiples and empty files, bsdiff series). -/
theorem pristine_accepted (bs : Nat) (hbs : 0 < bs) (signed : Array (List Byte)) (newSizes : Array Nat)
    (msgs : List WMsg) :
    patch (skEnv bs signed (signed.map some) newSizes) msgs = patch (plainEnv bs signed newSizes) msgs :=
  SafeKeeperProofs.patchFrom_eqOn (plainEnv bs signed newSizes) (skPool bs signed (signed.map some)) signed.size
    (SafeKeeperProofs.eqOn_pristine bs hbs signed) (Nat.le_refl _) (by simp [plainEnv]) _ _ _ _

/-- C09 (a): for ANY damage to the old build (any content at any file, files missing, shorter, longer) and any
    patch that applies to the pristine old build, application through the safekeeper either fails or
    produces exactly what the pristine old build produces (which is the new build, by C01/C07). -/
theorem no_silent (bs : Nat) (hbs : 0 < bs) (signed : Array (List Byte)) (disk : Array (Option (List Byte)))
    (newSizes : Array Nat) (msgs : List WMsg) (r0 r : Res)
    (h0 : patch (plainEnv bs signed newSizes) msgs = .ok r0)
    (h : patch (skEnv bs signed disk newSizes) msgs = .ok r) :
    r.out = r0.out := by
  have := SafeKeeperProofs.patchFrom_compat (plainEnv bs signed newSizes) (skPool bs signed disk)
    (SafeKeeperProofs.compat_sk bs hbs signed disk) _ _ _ _ _ _ h0 h
  rw [this]

/-- A successful read through the safekeeper returns what the pristine file holds there. -/
theorem skRead_ok (bs : Nat) (hbs : 0 < bs) (signed disk : List Byte) (off len : Nat) (b : List Byte)
    (h : skRead bs signed disk off len = .ok b) : b = (signed.drop off).take len :=
  SafeKeeperProofs.skRead_ok bs hbs signed disk off len b h

/-- A successful whole-file read through the safekeeper means the file is intact. -/
theorem skReadAll_ok (bs : Nat) (hbs : 0 < bs) (signed disk b : List Byte)
    (h : skReadAll bs signed disk = .ok b) : b = signed :=
  SafeKeeperProofs.skReadAll_ok bs hbs signed disk b h

/-- C09 (a), stronger form: when both runs succeed the *whole* result record agrees (produced files, bowl calls,
    files opened), not just the produced files. -/
theorem no_silent_res (bs : Nat) (hbs : 0 < bs) (signed : Array (List Byte)) (disk : Array (Option (List Byte)))
    (newSizes : Array Nat) (msgs : List WMsg) (r0 r : Res)
    (h0 : patch (plainEnv bs signed newSizes) msgs = .ok r0)
    (h : patch (skEnv bs signed disk newSizes) msgs = .ok r) :
    r = r0 :=
  (SafeKeeperProofs.patchFrom_compat (plainEnv bs signed newSizes) (skPool bs signed disk)
    (SafeKeeperProofs.compat_sk bs hbs signed disk) _ _ _ _ _ _ h0 h).symm

/-! ### non-vacuity: the hypotheses of `no_silent` are satisfiable, and damage really is rejected

  Block size 2.  (`Array.map` does not reduce by `rfl`, hence the two size lemmas.) -/
section examples

private theorem sizes3 : (#[[1, 2, 3]] : Array (List Byte)).map (·.length) = #[3] := by simp
private theorem sizes4 : (#[[1, 2, 3, 4]] : Array (List Byte)).map (·.length) = #[4] := by simp

/-- block 1 of old file 0, then literal data -/
private def msgsRange : List WMsg := [mkSyncHeader kindRsync 0, mkRange 0 1 1, mkData [9], mkHey]
/-- blocks 0–1 of old file 0 (a request that runs to the end of the file), then literal data -/
private def msgsToEnd : List WMsg := [mkSyncHeader kindRsync 0, mkRange 0 0 2, mkData [9], mkHey]
/-- whole-file copy (transposition) of old file 0 -/
private def msgsFull : List WMsg := [mkSyncHeader kindRsync 0, mkRange 0 0 2, mkHey]
/-- a bsdiff series over old file 0 -/
private def msgsBsdiff : List WMsg :=
  [mkSyncHeader kindBsdiff 0, mkBsdiffHeader 0, mkControl [1, 1] [8] 0, mkControlEof, mkHey]

-- pristine: accepted, with the expected result
example : patch (skEnv 2 #[[1, 2, 3]] #[some [1, 2, 3]] #[2]) msgsRange =
    .ok { out := [(0, [3, 9])], touched := 1, calls := [.getWriter 0], reads := [0] } := by
  unfold skEnv; rw [sizes3]; rfl
-- a damaged byte in the block that is read: rejected
example : patch (skEnv 2 #[[1, 2, 3]] #[some [1, 2, 4]] #[2]) msgsRange =
    .err "safekeeper: block does not match the signature" := by
  unfold skEnv; rw [sizes3]; rfl
-- a file that grew past the signed end, in the block that is read: rejected
example : patch (skEnv 2 #[[1, 2, 3]] #[some [1, 2, 3, 5]] #[2]) msgsRange =
    .err "safekeeper: block does not match the signature" := by
  unfold skEnv; rw [sizes3]; rfl
-- damage in a block that is not read: accepted, same result as on the pristine build
example : patch (skEnv 2 #[[1, 2, 3]] #[some [7, 2, 3]] #[2]) msgsRange =
    patch (plainEnv 2 #[[1, 2, 3]] #[2]) msgsRange := by
  unfold skEnv plainEnv; rw [sizes3]; rfl
-- a truncated file whose remaining blocks are all intact: only the end-of-file probe catches it
example : patch (plainEnv 2 #[[1, 2, 3, 4]] #[5]) msgsToEnd =
    .ok { out := [(0, [1, 2, 3, 4, 9])], touched := 1, calls := [.getWriter 0], reads := [0] } := by
  unfold plainEnv; rw [sizes4]; rfl
example : patch (skEnv 2 #[[1, 2, 3, 4]] #[some [1, 2]] #[5]) msgsToEnd =
    .err "safekeeper: block does not match the signature" := by
  unfold skEnv; rw [sizes4]; rfl
-- whole-file copy: pristine (an exact multiple of the block size) accepted, appended / truncated / missing rejected
example : patch (skEnv 2 #[[1, 2, 3, 4]] #[some [1, 2, 3, 4]] #[4]) msgsFull =
    .ok { out := [(0, [1, 2, 3, 4])], touched := 1, calls := [.transpose 0 0], reads := [0] } := by
  unfold skEnv; rw [sizes4]; rfl
example : patch (skEnv 2 #[[1, 2, 3, 4]] #[some [1, 2, 3, 4, 5]] #[4]) msgsFull =
    .err "safekeeper: block does not match the signature" := by
  unfold skEnv; rw [sizes4]; rfl
example : patch (skEnv 2 #[[1, 2, 3, 4]] #[some [1, 2, 3]] #[4]) msgsFull =
    .err "safekeeper: block does not match the signature" := by
  unfold skEnv; rw [sizes4]; rfl
example : patch (skEnv 2 #[[1, 2, 3, 4]] #[none] #[4]) msgsFull = .err "cannot open" := by
  unfold skEnv; rw [sizes4]; rfl
-- bsdiff series: pristine accepted, damaged rejected
example : patch (skEnv 2 #[[1, 2, 3, 4]] #[some [1, 2, 3, 4]] #[3]) msgsBsdiff =
    .ok { out := [(0, [2, 3, 8])], touched := 1, calls := [.getWriter 0], reads := [0] } := by
  unfold skEnv; rw [sizes4]; rfl
example : patch (skEnv 2 #[[1, 2, 3, 4]] #[some [1, 3, 3, 4]] #[3]) msgsBsdiff =
    .err "safekeeper: block does not match the signature" := by
  unfold skEnv; rw [sizes4]; rfl

end examples

end Wharf.C09
