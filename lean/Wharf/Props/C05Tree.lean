/-
  C05 (tree level) — Validation reports every deviation from the signed build.
  Property theorems only (helper lemmas live in Wharf/Proofs/TreeValidate.lean).
-/
import Wharf.Model.TreeValidate
import Wharf.Props.C05
import Wharf.Proofs.TreeValidate

namespace Wharf.C05Tree
open Wharf Wharf.FS Wharf.Validate Wharf.TreeValidate

/-- The directory holds every entry of the signed build with the right kind, content and destination. -/
def Matches (s : Signed) (t : Tree) : Prop :=
  (∀ p ∈ s.dirs, lstat t p = .ok .dir) ∧
  (∀ e ∈ s.symlinks, lstat t e.1 = .ok (.symlink e.2)) ∧
  (∀ e ∈ s.files, lstat t e.1 = .ok (.file e.2))

/-- C05 (a) + C04: fail-fast validation (not cancelled) returns no error exactly when the directory matches
    the signed build: it never declares a deviating directory valid, and it never rejects a matching one.
    The directory is ANY tree (any damage, any extra entries). -/
theorem verdict_iff (bs : Nat) (hbs : 0 < bs) (maxSize : Nat) (s : Signed) (t : Tree) :
    failFastOk bs maxSize s t = true ↔ Matches s t := by
  unfold failFastOk Matches
  rcases validate_cases bs maxSize s t with ⟨e, he⟩ | ⟨dw, sw, hv, hdall, hdiff, hsall, hsiff⟩
  · rw [he]
    constructor
    · intro h; cases h
    · rintro ⟨hd, hs, _⟩
      have h1 := dirWounds_match t s.dirs hd 0
      have h2 := symlinkWounds_match t s.symlinks hs 0
      simp only [validate, h1, h2, Outcome.bind] at he
      cases he
  · rw [hv]
    simp only [List.isEmpty_iff, realWounds_append, List.append_eq_nil_iff]
    rw [filePass_clean_iff bs hbs, ← hdiff, ← hsiff]
    constructor
    · rintro ⟨⟨h1, h2⟩, h3⟩
      exact ⟨eq_nil_of_realWounds_nil dw (fun w hw => dirWound_real (hdall w hw)) h1,
        eq_nil_of_realWounds_nil sw (fun w hw => symWound_real (hsall w hw)) h2, h3⟩
    · rintro ⟨rfl, rfl, h3⟩
      exact ⟨⟨rfl, rfl⟩, h3⟩

/-- C05 (a'): for a deviating directory, a complete validation either stops with an error or reports at
    least one real wound. -/
theorem deviation_reported (bs : Nat) (hbs : 0 < bs) (maxSize : Nat) (s : Signed) (t : Tree)
    (h : ¬ Matches s t) :
    (∃ e, validate bs maxSize s t = .err e) ∨
    (∃ ws, validate bs maxSize s t = .ok ws ∧ realWounds ws ≠ []) := by
  have hv : ¬ failFastOk bs maxSize s t = true := fun hf => h ((verdict_iff bs hbs maxSize s t).mp hf)
  rcases validate_cases bs maxSize s t with ⟨e, he⟩ | ⟨dw, sw, hok, _⟩
  · exact .inl ⟨e, he⟩
  · refine .inr ⟨_, hok, ?_⟩
    intro hnil
    apply hv
    simp only [failFastOk, hok, hnil, List.isEmpty_nil]

/-- C05 (d): every reported wound names an existing entry of its kind and has a well-formed range. -/
theorem wounds_wellformed (bs : Nat) (hbs : 0 < bs) (maxSize : Nat) (s : Signed) (t : Tree) (ws : List Wound)
    (h : validate bs maxSize s t = .ok ws) :
    ∀ w ∈ ws, w.start ≤ w.stop ∧
      (match w.kind with
       | .dir => w.index < s.dirs.length
       | .symlink => w.index < s.symlinks.length
       | .file => w.index < s.files.length
       | .closedFile => w.index < s.files.length) := by
  rcases validate_cases bs maxSize s t with ⟨e, he⟩ | ⟨dw, sw, hv, hdall, _, hsall, _⟩
  · rw [he] at h; cases h
  · rw [hv] at h
    injection h with h
    subst h
    intro w hw
    rcases List.mem_append.mp hw with hw | hw
    · rcases List.mem_append.mp hw with hw | hw
      · obtain ⟨hk, h1, h2, _, h4⟩ := hdall w hw
        rw [hk]
        exact ⟨by omega, by simpa using h4⟩
      · obtain ⟨hk, h1, h2, _, h4⟩ := hsall w hw
        rw [hk]
        exact ⟨by omega, by simpa using h4⟩
    · obtain ⟨j, p, S, hj, hw⟩ := (mem_filePassWounds bs maxSize t w s.files 0).mp hw
      have hlt : j < s.files.length := (List.getElem?_eq_some_iff.mp hj).1
      obtain ⟨hwf, hidx⟩ := C05.file_wellformed bs hbs maxSize S (0 + j) (onDisk t p) w hw
      refine ⟨hwf, ?_⟩
      rcases fileWounds_kind bs hbs maxSize S (0 + j) (onDisk t p) w hw with hk | hk <;>
        rw [hk] <;> simp only <;> omega

/-- C05 (b), lifted: for the `i`-th signed file, if a regular file with content `D` is found at its path,
    every offset below the signed length at which `D` differs from the signed content lies inside a
    reported file wound with that index. -/
theorem coverage (bs : Nat) (hbs : 0 < bs) (maxSize : Nat) (s : Signed) (t : Tree) (ws : List Wound)
    (h : validate bs maxSize s t = .ok ws) (i : Nat) (p : Path) (S D : List Byte)
    (hi : s.files[i]? = some (p, S)) (hd : lstat t p = .ok (.file D)) (k : Nat) (hk : k < S.length)
    (hne : D[k]? ≠ S[k]?) :
    ∃ w ∈ ws, w.kind = .file ∧ w.index = i ∧ w.start ≤ k ∧ k < w.stop := by
  rcases validate_cases bs maxSize s t with ⟨e, he⟩ | ⟨dw, sw, hv, _⟩
  · rw [he] at h; cases h
  · rw [hv] at h
    injection h with h
    subst h
    obtain ⟨w, hw, hk1, hk2, hk3, hk4⟩ := C05.file_coverage bs hbs maxSize S D (0 + i) k hk hne
    rw [← onDisk_of_lstat t p D hd] at hw
    exact ⟨w, List.mem_append_right _ ((mem_filePassWounds bs maxSize t w s.files 0).mpr ⟨i, p, S, hi, hw⟩),
      hk1, by omega, hk3, hk4⟩

/-- C05 (c), lifted: a missing file, a wrong kind or a different length yields a file wound with that index. -/
theorem file_deviation_wounded (bs : Nat) (hbs : 0 < bs) (maxSize : Nat) (s : Signed) (t : Tree) (ws : List Wound)
    (h : validate bs maxSize s t = .ok ws) (i : Nat) (p : Path) (S : List Byte)
    (hi : s.files[i]? = some (p, S)) (hd : lstat t p ≠ .ok (.file S)) :
    ∃ w ∈ ws, w.kind = .file ∧ w.index = i := by
  rcases validate_cases bs maxSize s t with ⟨e, he⟩ | ⟨dw, sw, hv, _⟩
  · rw [he] at h; cases h
  · rw [hv] at h
    injection h with h
    subst h
    obtain ⟨w, hw, hk, hidx⟩ := filePass_detects bs hbs maxSize t 0 s.files i p S hi hd
    exact ⟨w, List.mem_append_right _ hw, hk, by omega⟩

/-! ### non-vacuity -/

/-- A small signed build: one directory, one symlink, one three-byte file (two blocks of size 2). -/
def exSigned : Signed :=
  { dirs := [["a"]], symlinks := [(["l"], "a/f")], files := [(["a", "f"], [1, 2, 3])] }

/-- The same build with the symlink missing and the second byte of the file flipped. -/
def exDamaged : Tree := { entries := [(["a"], .dir), (["a", "f"], .file [1, 9, 3])] }

/-- The tree holding exactly the signed build validates … -/
example : failFastOk 2 100 exSigned (treeOf exSigned) = true := by decide

/-- … so `Matches` is satisfiable (by a tree with a directory, a symlink and a file). -/
example : Matches exSigned (treeOf exSigned) :=
  (verdict_iff 2 (by decide) 100 exSigned (treeOf exSigned)).mp (by decide)

/-- The damaged tree is rejected, does not match, and both deviations are reported and located. -/
example : failFastOk 2 100 exSigned exDamaged = false := by decide

example : ¬ Matches exSigned exDamaged := fun h =>
  absurd ((verdict_iff 2 (by decide) 100 exSigned exDamaged).mpr h) (by decide)

example : (match validate 2 100 exSigned exDamaged with | .ok ws => ws | _ => [])
    = [⟨.symlink, 0, 0, 0⟩, ⟨.file, 0, 0, 2⟩, ⟨.closedFile, 0, 2, 3⟩] := by decide

end Wharf.C05Tree
