/-
  wvmodel: line-protocol driver over the executable model.  One request per line on stdin,
  one canonical answer per line on stdout.  Core Lean only.
-/
import Wharf.Model.Basic
import Wharf.Model.Util
import Wharf.Model.Rsync

open Wharf Wharf.Util

def showOp (src : Content) : Rsync.Op → String
  | .range f i s => s!"R {f} {i} {s}"
  | .data st len => s!"D {len} {fnvContent src st len}"

/-- `c11 <bs> <maxDataOp> <pref|-1> <nold> <old>... <new>` -/
def doC11 (args : List String) : IO String := do
  match args with
  | bs :: mx :: pref :: nold :: rest =>
    let n := parseNat nold
    let oldToks := rest.take n
    let newTok := rest.getD n "x:"
    let olds ← oldToks.mapM readContent
    let new ← readContent newTok
    let src := Content.ofByteArray new
    let prefI := parseInt pref
    let pref : Option Nat := if prefI < 0 then none else some prefI.toNat
    let P : Rsync.Params := { bs := parseNat bs, maxDataOp := parseNat mx }
    let ops := Rsync.computeDiff P (olds.map Content.ofByteArray) src pref
    return ";".intercalate (ops.map (showOp src))
  | _ => return "bad-op"

def dispatch (line : String) : IO String := do
  match line.trimAscii.toString.splitOn " " with
  | "c11" :: args => doC11 args
  | ["ping"] => return "pong"
  | _ => return "bad-op"

partial def loop (hin : IO.FS.Stream) (hout : IO.FS.Stream) : IO Unit := do
  let line ← hin.getLine
  if line.isEmpty then return ()
  let out ← dispatch line
  hout.putStrLn out
  hout.flush
  loop hin hout

def main : IO Unit := do
  loop (← IO.getStdin) (← IO.getStdout)
